#!/bin/bash
# MANIFEST.setup_cmd: build the Lean project (model, proofs, driver) and warm the Numba cache for
# the current /repo tree.  Offline; nothing is fetched.
set -e
cd "$(dirname "$0")"
mkdir -p .cache evidence replays
(cd lean && lake build 2>&1 | tail -3)
/venv/bin/python harness/warm.py
