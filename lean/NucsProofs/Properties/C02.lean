import NucsProofs.Engine.ShavingTerm
import NucsProofs.Engine.DfsTerm
import NucsProofs.Engine.DfsShaving
/-!
  C02 — enumeration yields each solution exactly once, whatever the search strategy.

  Theorems `C02_*` in NucsProofs/Engine/Dfs.lean, DfsTerm.lean, DfsShaving.lean, on the model of the
  search loop.  The search space of a state is the list of boxes `top :: below`; the invariant
  (`Dfs.SInv`): the boxes are pairwise disjoint, every solution not yet yielded lies in exactly one
  of them; a pass keeps the solutions of the top box (`bcLoopG_keeps_solutions`), a decision replaces
  it by a partition (C09 `BranchOk`), a failure or a yielded point drops it.

  * `C02_enumeration`, `C02_enumeration_bc`, `C02_enumeration_guarded` : with every shared domain a
    decision domain, height ≥ total width + 2 and fuels/limit ≥ 2·|root box|, `solveAll` from the root
    RETURNS `sols = L.map (reported P)` with `L.Nodup`, every element of `L` a solution and every
    solution in `L` (`Sol ⊆ L ⊆ SolW`; equal under the circuit discipline `NscGuarded`) — termination
    measure Σ_boxes (2·|box| − 1);
  * `C02_exactly_once_partial`, `C02_exactly_once_of_returns` : the same as partial correctness;
  * `C02_strategy_independent(_partial)` : any two configurations (variable heuristic, value heuristic,
    consistency algorithm satisfying `ConsOk`) and any two posting orders of the same constraints
    yield permutations of the same list;
  * shaving: `C02_exactly_once_shaving_partial`, `C02_bc_vs_shaving_partial` (partial correctness) and, with the shaving
    loop's own termination (`Dfs.consTerm_shaving`), the total forms `C02_enumeration_shaving`, `C02_bc_vs_shaving`.
-/
