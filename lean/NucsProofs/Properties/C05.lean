import NucsProofs.Propagators.Affine
import NucsProofs.Propagators.AffineLeq
import NucsProofs.Propagators.AlldiffCorrectFinal
import NucsProofs.Propagators.AlldifferentReg
import NucsProofs.Propagators.CountEq
import NucsProofs.Propagators.Counting
import NucsProofs.Propagators.Dummy
import NucsProofs.Propagators.Element
import NucsProofs.Propagators.ExactOfSupport
import NucsProofs.Propagators.GccCIsPort
import NucsProofs.Propagators.GccExact
import NucsProofs.Propagators.GccLbcFinal
import NucsProofs.Propagators.GccPortSound
import NucsProofs.Propagators.GccReg
import NucsProofs.Propagators.Lex
import NucsProofs.Propagators.MinMax
import NucsProofs.Propagators.NoSubCycle
import NucsProofs.Propagators.Scc
import NucsProofs.Propagators.SupportCertProofs

/-!
  C05 — filtering never removes a value that takes part in a solution.

  `Sound a` (Spec.lean): for every parameter vector and box within the documented contract, a
  non-failing call returns a non-empty sub-box of the input that contains every tuple of the
  input satisfying the documented relation, and a failing call had no such tuple.
  One theorem per algorithm; unbounded in arity, domain bounds and parameters.
-/
namespace Nucs

theorem C05_and : Sound .and := sound_and
theorem C05_affineEq : Sound .affineEq := sound_affineEq
theorem C05_affineGeq : Sound .affineGeq := sound_affineGeq
theorem C05_affineLeq : Sound .affineLeq := sound_affineLeq
theorem C05_alldifferent : Sound .alldifferent := sound_alldifferent
theorem C05_countEq : Sound .countEq := sound_countEq
theorem C05_dummy : Sound .dummy := sound_dummy
theorem C05_elementIv : Sound .elementIv := sound_elementIv
theorem C05_elementLiv : Sound .elementLiv := sound_elementLiv
theorem C05_elementLic : Sound .elementLic := sound_elementLic
theorem C05_exactlyEq : Sound .exactlyEq := sound_exactlyEq
theorem C05_exactlyTrue : Sound .exactlyTrue := sound_exactlyTrue
theorem C05_gcc : Sound .gcc := sound_gcc
theorem C05_lexLeq : Sound .lexLeq := sound_lexLeq
theorem C05_maxEq : Sound .maxEq := sound_maxEq
theorem C05_maxLeq : Sound .maxLeq := sound_maxLeq
theorem C05_minEq : Sound .minEq := sound_minEq
theorem C05_minGeq : Sound .minGeq := sound_minGeq
theorem C05_noSubCycle : Sound .noSubCycle := sound_noSubCycle
theorem C05_relation : Sound .relation := sound_relation
theorem C05_scc : Sound .scc := sound_scc

/-- algorithms for which `Sound` is stated (Spec.lean) but not proved here: validated by the
    correspondence and the brute-force oracle only -/
def C05_unproved : List Alg := []

/-- non-vacuity: a concrete in-contract, non-empty box on which the call prunes -/
example : Contract .affineLeq [1, 1, -1, 0] [(2, 5), (2, 5), (0, 10)] ∧
    Box.Nonempty [(2, 5), (2, 5), (0, 10)] ∧
    runAlg .affineLeq [1, 1, -1, 0] [(2, 5), (2, 5), (0, 10)] = .ok (.cons, [(2, 5), (2, 5), (4, 10)]) := by
  refine ⟨by simp [Contract], by simp [Box.Nonempty], by rfl⟩

/-- soundness of the RAW ported gcc (nucs/propagators/gcc_propagator.py line by line), for EVERY number of values, when every
    upper capacity is at least 1: a failing call had no solution; a non-failing call returns a non-empty sub-box that keeps every
    solution (11 kLoC: NucsProofs/Propagators/GccSound*.lean, GccExist*.lean).  `C05_gcc` above is about the registered model
    (the port behind a result checker, which rejects when there are more than 12 values). -/
theorem C05_gcc_port (ps : List Int) (B : Box) (hc : Contract .gcc ps B) (hB : B.Nonempty)
    (hu : ∀ j, j < (ps.length - 1) / 2 → 1 ≤ getI ps (1 + (ps.length - 1) / 2 + j))
    (st : Status) (B' : Box) (h : gcc ps B = .ok (st, B')) :
    (st ≠ .inc → Box.le B' B ∧ B'.Nonempty ∧ ∀ t, inBox t B → rel .gcc ps t → inBox t B') ∧
    (st = .inc → ∀ t, inBox t B → ¬ rel .gcc ps t) := gcc_port_sound ps B hc hB hu st B' h
/-- … and it fails exactly when there is no solution (completeness of the failure detection) -/
theorem C05_gcc_port_feasible (ps : List Int) (B : Box) (hc : Contract .gcc ps B) (hB : B.Nonempty)
    (hu : ∀ j, j < (ps.length - 1) / 2 → 1 ≤ getI ps (1 + (ps.length - 1) / 2 + j))
    (st : Status) (B' : Box) (h : gcc ps B = .ok (st, B')) (hst : st ≠ .inc) :
    ∃ t, inBox t B ∧ rel .gcc ps t := gcc_port_feasible ps B hc hB hu st B' h hst

end Nucs
