import NucsProofs.Propagators.AffineLeq
/-!
  C05 — filtering never removes a value that takes part in a solution.

  `Sound a` (Spec.lean): for every parameter vector and box within the documented contract, a
  non-failing call returns a non-empty sub-box of the input that contains every tuple of the
  input satisfying the documented relation, and a failing call had no such tuple.
  One theorem per algorithm; unbounded in arity, domain bounds and parameters.
-/
namespace Nucs

theorem C05_affineLeq : Sound .affineLeq := sound_affineLeq

/-- non-vacuity: a concrete in-contract, non-empty box on which the call prunes -/
example : Contract .affineLeq [1, 1, -1, 0] [(2, 5), (2, 5), (0, 10)] ∧
    Box.Nonempty [(2, 5), (2, 5), (0, 10)] ∧
    runAlg .affineLeq [1, 1, -1, 0] [(2, 5), (2, 5), (0, 10)] = .ok (.cons, [(2, 5), (2, 5), (4, 10)]) := by
  refine ⟨by simp [Contract], by simp [Box.Nonempty], by rfl⟩

end Nucs
