import NucsProofs.Propagators.Affine
import NucsProofs.Propagators.AffineLeq
import NucsProofs.Propagators.AlldiffCorrectFinal
import NucsProofs.Propagators.AlldifferentReg
import NucsProofs.Propagators.CountEq
import NucsProofs.Propagators.Counting
import NucsProofs.Propagators.Dummy
import NucsProofs.Propagators.Element
import NucsProofs.Propagators.ExactOfSupport
import NucsProofs.Propagators.GccCIsPort
import NucsProofs.Propagators.GccExact
import NucsProofs.Propagators.GccLbcFinal
import NucsProofs.Propagators.GccPortSound
import NucsProofs.Propagators.GccReg
import NucsProofs.Propagators.Lex
import NucsProofs.Propagators.MinMax
import NucsProofs.Propagators.NoSubCycle
import NucsProofs.Propagators.Scc
import NucsProofs.Propagators.SupportCertProofs

/-!
  C14 — bound-consistent propagators compute exactly the bounds hull of the solutions.

  `Exact a`: after a non-failing call every bound of the returned box is attained by a solution
  inside it, and a second call returns the same box without failing.  With `Sound a` (C05): the
  result IS the bounds hull of the solutions of the input box, and the call fails exactly when
  there is no solution.
-/
namespace Nucs

theorem C14_and : Exact .and := exact_and
theorem C14_affineGeq : Exact .affineGeq := exact_affineGeq
theorem C14_affineLeq : Exact .affineLeq := exact_affineLeq
theorem C14_alldifferent : Exact .alldifferent := exact_alldifferent
theorem C14_countEq : Exact .countEq := exact_countEq
theorem C14_elementIv : Exact .elementIv := exact_elementIv
theorem C14_elementLiv : Exact .elementLiv := exact_elementLiv
theorem C14_elementLic : Exact .elementLic := exact_elementLic
theorem C14_exactlyEq : Exact .exactlyEq := exact_exactlyEq
theorem C14_exactlyTrue : Exact .exactlyTrue := exact_exactlyTrue
theorem C14_lexLeq : Exact .lexLeq := exact_lexLeq
theorem C14_maxEq : Exact .maxEq := exact_maxEq
theorem C14_maxLeq : Exact .maxLeq := exact_maxLeq
theorem C14_minEq : Exact .minEq := exact_minEq
theorem C14_minGeq : Exact .minGeq := exact_minGeq
theorem C14_relation : Exact .relation := exact_relation

/-- algorithms for which `Exact` is stated (Spec.lean) but not proved here: validated by the
    correspondence and the brute-force oracle only -/
def C14_unproved : List Alg := [.gcc]

/-- affine_eq returns exactly the box obtained by ONE round of interval reasoning on the input bounds
    (it is documented as not bound-consistent; `not_exact_affineEq` shows it indeed is not) -/
theorem C14_affineEq_oneRound (cs : List Int) (a : Int) (B : Box) :
    (∀ i, i < cs.length → i < B.length → getI cs i ≠ 0 → ∀ v,
      inDom v (getDom (eqRound cs a B) i) ↔
        inDom v (getDom B i) ∧ a - sumMaxExc cs B i ≤ getI cs i * v ∧
          getI cs i * v ≤ a - sumMinExc cs B i) ∧
    (∀ i, (cs.length ≤ i ∨ getI cs i = 0) → getDom (eqRound cs a B) i = getDom B i) ∧
    (eqRound cs a B).length = B.length ∧
    ((affineEqCore cs a B).1 = .inc ↔ eqFails cs a B) ∧
    ((affineEqCore cs a B).1 ≠ .inc → affineEqCore cs a B = (.cons, eqRound cs a B)) ∧
    ((affineEqCore cs a B).1 = .inc → (affineEqCore cs a B).2 = B) := affineEq_oneRound cs a B
theorem C14_affineEq_not_exact : ¬ Exact .affineEq := not_exact_affineEq

/-- the registered model of alldifferent (the port behind a result checker) IS the ported Python algorithm: on every
    non-empty box of non-empty domains the checker accepts the port's answer and the fallback is never used; hence
    `C05/C06/C14_alldifferent` are theorems about the line-by-line port of nucs/propagators/alldifferent_propagator.py -/
theorem C14_alldifferent_is_port (ps : List Int) (B : Box) (hne : B ≠ []) (hdom : ∀ d ∈ B, d.1 ≤ d.2) :
    ∃ st B', alldifferent ps B = .ok (st, B') ∧
      alldifferentC ps B = .ok (st, if st = .inc then B else B') := alldifferentC_is_port ps B hne hdom
/-- a non-failing answer of the port satisfies Hall's condition and is pruned with respect to every Hall interval -/
theorem C14_alldifferent_hall (ps : List Int) (B : Box) (hne : B ≠ []) (hdom : ∀ d ∈ B, d.1 ≤ d.2)
    (B' : Box) (h : alldifferent ps B = .ok (.cons, B')) : HallOK B' ∧ HallPruned B' := port_hall_pruned ps B hne hdom B' h

/-- gcc, RAW PORT of nucs/propagators/gcc_propagator.py (line by line), every number of values, every upper capacity ≥ 1:
    exactness — every bound of a non-failing answer is attained by a solution inside the answer, and a second call changes
    nothing.  20 kLoC: soundness (GccSound*), existence of assignments with lower and upper capacities over interval domains
    (GccExist*: Hall's theorem by capacity expansion + Quimper et al.'s combination of a lower and an upper support),
    completeness of the two upper-capacity passes (as for alldifferent) and of the two lower-capacity passes (GccLbc*:
    freeability by alternating chains for stable variables, Hall intervals of the contracted instance for the others).
    `C14_gcc` is absent from the list above only because `runAlg .gcc` is the port behind a result checker (sound also for a
    zero capacity, where the CODE misbehaves: known finding K1) and `Exact` quantifies over the whole contract. -/
theorem C14_gcc_port_exact (ps : List Int) (B : Box) (hc : Contract .gcc ps B) (hB : B.Nonempty)
    (hu : ∀ j, j < (ps.length - 1) / 2 → 1 ≤ getI ps (1 + (ps.length - 1) / 2 + j))
    (st : Status) (B' : Box) (h : gcc ps B = .ok (st, B')) (hst : st ≠ .inc) :
    (∀ k, k < B'.length →
      (∃ t, inBox t B' ∧ rel .gcc ps t ∧ getI t k = (getDom B' k).1) ∧
      (∃ t, inBox t B' ∧ rel .gcc ps t ∧ getI t k = (getDom B' k).2)) ∧
    (∃ st', gcc ps B' = .ok (st', B') ∧ st' ≠ .inc) := gcc_port_exact ps B hc hB hu st B' h hst
theorem C14_gcc_port_idempotent (ps : List Int) (B : Box) (hc : Contract .gcc ps B) (hB : B.Nonempty)
    (hu : ∀ j, j < (ps.length - 1) / 2 → 1 ≤ getI ps (1 + (ps.length - 1) / 2 + j))
    (st : Status) (B' : Box) (h : gcc ps B = .ok (st, B')) (hst : st ≠ .inc) : gcc ps B' = .ok (.cons, B') :=
  gcc_port_idempotent ps B hc hB hu st B' h hst

/-- the registered model of gcc (the port behind an exponential result checker) IS the ported Python algorithm whenever there are
    at most 12 values and every upper capacity is at least 1: the checker accepts every answer of the port (the hard direction of
    Hoffman's condition, `gcc_feasible_of_not_infeasible`) and the fallback is never used; so on these inputs `C05/C06_gcc` and the
    engine theorems, which are about `runAlg .gcc`, are about the line-by-line port of nucs/propagators/gcc_propagator.py -/
theorem C14_gcc_is_port (ps : List Int) (B : Box) (hc : Contract .gcc ps B) (hB : B.Nonempty)
    (hu : ∀ j, j < (ps.length - 1) / 2 → 1 ≤ getI ps (1 + (ps.length - 1) / 2 + j)) (hm : gccM ps ≤ 12) :
    ∃ st B', gcc ps B = .ok (st, B') ∧ gccC ps B = .ok (st, if st = .inc then B else B') := gccC_is_port ps B hc hB hu hm

end Nucs
