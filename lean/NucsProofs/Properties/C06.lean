import NucsProofs.Propagators.AffineLeq
/-!
  C06 — a fully instantiated tuple that violates a constraint is always rejected.

  `GroundOk a`: whenever a call leaves all its variables instantiated without failing, that tuple
  satisfies the relation (`relW`: the relation itself; for no_sub_cycle "on permutations").
  Together with `Sound a` (a failing call has no solution in the box) this gives, on an
  instantiated box, "fails iff the tuple violates the relation".
-/
namespace Nucs

theorem C06_affineLeq : GroundOk .affineLeq := groundOk_affineLeq

/-- on a point box: the call fails iff the tuple violates the relation (corollary shape) -/
theorem C06_point_iff (a : Alg) (hs : Sound a) (hg : GroundOk a) (hw : ∀ ps t, relW a ps t → rel a ps t)
    (ps : List Int) (t : List Int) (st : Status) (B' : Box)
    (hc : Contract a ps (pointBox t)) (hrun : runAlg a ps (pointBox t) = .ok (st, B')) :
    st = .inc ↔ ¬ rel a ps t := by
  have hne : (pointBox t).Nonempty := nonempty_of_inBox (inBox_pointBox_self t)
  have h := hs ps (pointBox t) st B' hc hne hrun
  constructor
  · intro hi; exact h.2 hi t (inBox_pointBox_self t)
  · intro hnr
    apply Classical.byContradiction
    intro hst
    have h1 := h.1 hst
    have hB' : B' = pointBox t := eq_pointBox_of_le h1.1 h1.2.1
    exact hnr (hw ps t (hg ps (pointBox t) st B' t hc (nonempty_of_inBox (inBox_pointBox_self t)) hrun hst hB'))

end Nucs
