import NucsProofs.Propagators.Affine
import NucsProofs.Propagators.AffineLeq
import NucsProofs.Propagators.AlldiffCorrectFinal
import NucsProofs.Propagators.AlldifferentReg
import NucsProofs.Propagators.CountEq
import NucsProofs.Propagators.Counting
import NucsProofs.Propagators.Dummy
import NucsProofs.Propagators.Element
import NucsProofs.Propagators.ExactOfSupport
import NucsProofs.Propagators.GccCIsPort
import NucsProofs.Propagators.GccExact
import NucsProofs.Propagators.GccLbcFinal
import NucsProofs.Propagators.GccPortSound
import NucsProofs.Propagators.GccReg
import NucsProofs.Propagators.Lex
import NucsProofs.Propagators.MinMax
import NucsProofs.Propagators.NoSubCycle
import NucsProofs.Propagators.Scc
import NucsProofs.Propagators.SupportCertProofs

/-!
  C06 — a fully instantiated tuple that violates a constraint is always rejected.

  `GroundOk a`: whenever a call leaves all its variables instantiated without failing, that tuple
  satisfies the relation (`relW`: the relation itself; for no_sub_cycle "on permutations").
  With `Sound a`: on an instantiated box the call fails iff the tuple violates the relation
  (`C06_point_iff`).
-/
namespace Nucs

theorem C06_and : GroundOk .and := groundOk_and
theorem C06_affineEq : GroundOk .affineEq := groundOk_affineEq
theorem C06_affineGeq : GroundOk .affineGeq := groundOk_affineGeq
theorem C06_affineLeq : GroundOk .affineLeq := groundOk_affineLeq
theorem C06_alldifferent : GroundOk .alldifferent := groundOk_alldifferent
theorem C06_countEq : GroundOk .countEq := groundOk_countEq
theorem C06_dummy : GroundOk .dummy := groundOk_dummy
theorem C06_elementIv : GroundOk .elementIv := groundOk_elementIv
theorem C06_elementLiv : GroundOk .elementLiv := groundOk_elementLiv
theorem C06_elementLic : GroundOk .elementLic := groundOk_elementLic
theorem C06_exactlyEq : GroundOk .exactlyEq := groundOk_exactlyEq
theorem C06_exactlyTrue : GroundOk .exactlyTrue := groundOk_exactlyTrue
theorem C06_gcc : GroundOk .gcc := groundOk_gcc
theorem C06_lexLeq : GroundOk .lexLeq := groundOk_lexLeq
theorem C06_maxEq : GroundOk .maxEq := groundOk_maxEq
theorem C06_maxLeq : GroundOk .maxLeq := groundOk_maxLeq
theorem C06_minEq : GroundOk .minEq := groundOk_minEq
theorem C06_minGeq : GroundOk .minGeq := groundOk_minGeq
theorem C06_noSubCycle : GroundOk .noSubCycle := groundOk_noSubCycle
theorem C06_relation : GroundOk .relation := groundOk_relation
theorem C06_scc : GroundOk .scc := groundOk_scc

/-- algorithms for which `GroundOk` is stated (Spec.lean) but not proved here: validated by the
    correspondence and the brute-force oracle only -/
def C06_unproved : List Alg := []

/-- on an instantiated box the call fails iff the tuple violates the relation -/
theorem C06_point_iff (a : Alg) (hs : Sound a) (hg : GroundOk a) (hw : ∀ ps t, relW a ps t → rel a ps t)
    (ps : List Int) (t : List Int) (st : Status) (B' : Box)
    (hc : Contract a ps (pointBox t)) (hrun : runAlg a ps (pointBox t) = .ok (st, B')) :
    st = .inc ↔ ¬ rel a ps t := by
  have hne : (pointBox t).Nonempty := nonempty_of_inBox (inBox_pointBox_self t)
  have h := hs ps (pointBox t) st B' hc hne hrun
  constructor
  · intro hi; exact h.2 hi t (inBox_pointBox_self t)
  · intro hnr
    apply Classical.byContradiction
    intro hst
    have h1 := h.1 hst
    have hB' : B' = pointBox t := eq_pointBox_of_le h1.1 h1.2.1
    exact hnr (hw ps t (hg ps (pointBox t) st B' t hc hne hrun hst hB'))

/-- non-vacuity: 2x+2y=3 on the point (1,1) is rejected (the repaired affine_eq) -/
example : runAlg .affineEq [2, 2, 3] [(1, 1), (1, 1)] = .ok (.inc, [(1, 1), (1, 1)]) := by rfl

end Nucs
