import NucsProofs.Engine.C08Local
import NucsProofs.Engine.StackBound
import NucsProofs.Propagators.PortAlldiff
import NucsProofs.Propagators.PortGcc
/-!
  C16 — no in-contract input makes the engine read or write outside its arrays.

  In the model every access that the code performs with a COMPUTED index goes through a checked
  accessor with an explicit out-of-bounds outcome (`Err.oob` for a filtering call: the path arrays of
  no_sub_cycle, the pointer/bounds/partial-sum arrays of the ported alldifferent and gcc;
  `EngErr.oob` for the cost tables of min_cost / max_regret), and the stack has an explicit height.

  * `C16_safe_<alg>` : `Safe <alg>` — within the documented contract a filtering call returns a
    result, never `oob` (nor `fuel`);
  * `C16_branch_index` : the shared-domain index a variable heuristic hands to the value heuristic
    is an existing, unbound domain (never the −1 of the repaired max_regret);
  * `C16_stack` : the number of stack levels in use never exceeds the configured height (C19).
  * `C16_port_alldifferent` (NucsProofs/Propagators/PortAlldiff*.lean, 3 kLoC): for alldifferent the
    registered model is the ported algorithm behind a proved result checker, so `Safe .alldifferent`
    says nothing about the port's own array accesses; this theorem does: on every box of non-empty
    domains the RAW PORT (every read and write of `bounds`, `t`, `d`, `h`, `ranks`, the sorted index
    arrays through checked accessors; every `while` with a budget) returns a result — never `oob`,
    never `fuel`.  The invariants are the pointer-forest shape of `t`/`h` under path compression,
    `d[root] ∈ [1, capacity]`, the untouched sentinels, strictly increasing `bounds`, ranks in 1..nb.
    (`alldifferent_empty_domain_fuel`: with an EMPTY domain the code can loop forever — the engine
    never passes one: `Inv`.)
  * `C16_port_gcc` (NucsProofs/Propagators/PortGcc*.lean, 17 files, 5.8 kLoC): the same for the RAW
    ported gcc (partial sums, update_bounds, the four filtering passes with their four pointer arrays)
    on non-empty domains inside the value range when every upper capacity is ≥ 1; with a zero
    capacity the code spins (`gcc_zero_capacity_fuel`: known finding K1).
  `C16_port_full` below is therefore PROVED (`C16_port_full_proved`).  What remains outside the
  proof: the integer WIDTHS of the arrays (uint16 ranks/pointers, int32 elsewhere) are not modelled;
  they are exercised by the wide-magnitude cases of the correspondence sweeps.
-/
namespace Nucs

theorem C16_safe_and : Safe .and := safe_and
theorem C16_safe_affineEq : Safe .affineEq := safe_affineEq
theorem C16_safe_affineGeq : Safe .affineGeq := safe_affineGeq
theorem C16_safe_affineLeq : Safe .affineLeq := safe_affineLeq
theorem C16_safe_countEq : Safe .countEq := safe_countEq
theorem C16_safe_dummy : Safe .dummy := safe_dummy
theorem C16_safe_elementIv : Safe .elementIv := safe_elementIv
theorem C16_safe_elementLiv : Safe .elementLiv := safe_elementLiv
theorem C16_safe_elementLic : Safe .elementLic := safe_elementLic
theorem C16_safe_exactlyEq : Safe .exactlyEq := safe_exactlyEq
theorem C16_safe_exactlyTrue : Safe .exactlyTrue := safe_exactlyTrue
theorem C16_safe_lexLeq : Safe .lexLeq := safe_lexLeq
theorem C16_safe_maxEq : Safe .maxEq := safe_maxEq
theorem C16_safe_maxLeq : Safe .maxLeq := safe_maxLeq
theorem C16_safe_minEq : Safe .minEq := safe_minEq
theorem C16_safe_minGeq : Safe .minGeq := safe_minGeq
theorem C16_safe_noSubCycle : Safe .noSubCycle := safe_noSubCycle
theorem C16_safe_relation : Safe .relation := safe_relation
theorem C16_safe_scc : Safe .scc := safe_scc

/-- the index handed to the value heuristic addresses an existing shared domain -/
theorem C16_branch_index (h : VarHeur) (costs : List (List Int)) (dec : List Nat) (D : Box) (d : Nat)
    (hr : runVarHeur h costs dec D = some (some d)) : d < D.length := runVarHeur_in_range h costs dec D d hr

/-- the stack stays within its configured height -/
theorem C16_stack (P : Problem) (cfg : Config) (hbc : cfg.cons = .bc) (fuel : Nat) (s : State)
    (r : Option (List Int)) (s' : State) (hh : s.below.length + 1 ≤ cfg.height)
    (h : solveOne P cfg fuel s = .ok (r, s')) : s'.below.length + 1 ≤ cfg.height :=
  solveOne_height P cfg hbc fuel s r s' hh h

/-- the first conjunct of `C16_port_full` below, proved -/
theorem C16_port_full_alldifferent_proved :
    ∀ ps B, Contract .alldifferent ps B → B.Nonempty → alldifferent ps B ≠ .error .oob :=
  C16_port_full_alldifferent

/-- the ported Hall-interval algorithms never index out of bounds in contract -/
def C16_port_full : Prop :=
  (∀ ps B, Contract .alldifferent ps B → B.Nonempty → alldifferent ps B ≠ .error .oob) ∧
  (∀ ps B, Contract .gcc ps B → B.Nonempty → (∀ j, j < (ps.length - 1) / 2 → 1 ≤ getI ps (1 + (ps.length - 1) / 2 + j)) →
    gcc ps B ≠ .error .oob)

theorem C16_port_full_proved : C16_port_full := ⟨C16_port_full_alldifferent, C16_port_full_gcc⟩

end Nucs
