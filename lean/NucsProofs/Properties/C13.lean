import NucsProofs.Engine.Rewrites
/-!
  C13 — the solution set does not depend on how the model is written down.

  Theorems `C13_*` in NucsProofs/Engine/Rewrites.lean, at the level of `Sol` / `SolW` / `reported`:
  permuting the constraints (`C13_perm_props`), the sort of `Problem.init` (`C13_init_sort`,
  `C13_init_order`), posting a constraint twice (`C13_duplicate`, `C13_repost`), adding an always-true
  constraint (`C13_dummy`, `C13_trivial_affine`), permuting the variable list (`C13_perm_vars_reported`,
  `C13_init_var_perm`), renaming the shared domains (`C13_rename_shr`), replacing shared domains with
  offsets by separate variables linked by equalities (`C13_unshare`, `C13_unshare_iff`,
  `C13_unshare_reported`), translating all values of a translation-invariant model (`C13_rel_translate`,
  `C13_translate`, `C13_translate_set`).  With C02/C03 (the solver returns exactly the `Sol` set / an
  optimum of it) the solver OUTPUT is invariant under these rewrites.
-/
