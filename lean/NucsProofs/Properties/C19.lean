import NucsProofs.Engine.StackBound
/-!
  C19 — exceeding a configured capacity is reported, never silently corrupting.

  On the model of `solve_one` (after the repair: guards before every pass and before every
  decision): `C19_stack_bound` — the number of stack levels in use never exceeds the configured
  height; a decision that would not fit yields the explicit `stackOverflow` outcome
  (`C19_overflow_reported`) — the model has no other way to exceed the height, so no write beyond
  the stack arrays exists in it.

  `C19_pointer_fits_uint8`: with a height ≤ 256 the pointer never leaves the range of `uint8`.
  PARTIAL: (i) the 16-bit index arrays are not modelled as machine integers; that heights above 256
  are refused at construction and that problem sizes beyond the 16-bit index types raise is
  established on the implementation by the correspondence (harness/props/C19.py), not proved;
  (ii) memory corruption itself is outside the model.
-/
namespace Nucs

theorem C19_stack_bound (P : Problem) (cfg : Config) (hbc : cfg.cons = .bc) (fuel : Nat) (s : State)
    (r : Option (List Int)) (s' : State) (hh : s.below.length + 1 ≤ cfg.height)
    (h : solveOne P cfg fuel s = .ok (r, s')) : s'.below.length + 1 ≤ cfg.height :=
  solveOne_height P cfg hbc fuel s r s' hh h

/-- no room for a propagation pass (shaving may probe one level): reported, nothing else happens -/
theorem C19_overflow_reported (P : Problem) (cfg : Config) (fuel : Nat) (s : State)
    (h : s.below.length + 1 ≥ cfg.height) : solveOne P cfg (fuel + 1) s = .error .stackOverflow := by
  simp [solveOne, h]

/-- a decision pushes at most two levels -/
theorem C19_push_at_most_two (h : DomHeur) (costs : List (List Int)) (l : Level) (d : Nat) (b : Branch)
    (hb : runDomHeur h costs l d = some b) : b.alts.length ≤ 2 := runDomHeur_alts_le h costs l d b hb

/-- the 8-bit stack pointer: with a height the constructor accepts (≤ 256, the repair `5e727c0`), the pointer value
    `stacks_top[0]` (= number of levels below the top) is representable in `uint8` before and after every
    `solve_one`, i.e. the unsigned 8-bit arithmetic of the code coincides with the model's natural numbers -/
theorem C19_pointer_fits_uint8 (P : Problem) (cfg : Config) (hbc : cfg.cons = .bc) (hH : cfg.height ≤ 256)
    (fuel : Nat) (s : State) (r : Option (List Int)) (s' : State) (hh : s.below.length + 1 ≤ cfg.height)
    (h : solveOne P cfg fuel s = .ok (r, s')) :
    (UInt8.ofNat s.below.length).toNat = s.below.length ∧ (UInt8.ofNat s'.below.length).toNat = s'.below.length := by
  have h' := C19_stack_bound P cfg hbc fuel s r s' hh h
  constructor
  · simp [UInt8.toNat_ofNat']
    omega
  · simp [UInt8.toNat_ofNat']
    omega

/-- non-vacuity: four Booleans need depth 4; with height 4 the model reports the overflow -/
example : (solveAll ⟨[(0, 1), (0, 1), (0, 1), (0, 1)], [(0, 0), (1, 0), (2, 0), (3, 0)], []⟩
    { decision := [0, 1, 2, 3], height := 4 } 100 100 100
    (State.init ⟨[(0, 1), (0, 1), (0, 1), (0, 1)], [(0, 0), (1, 0), (2, 0), (3, 0)], []⟩) []).toOption = none := by rfl

end Nucs
