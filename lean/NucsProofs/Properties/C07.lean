import NucsProofs.Propagators.AffineLeq
/-!
  C07 — a constraint is declared entailed only when it can no longer be violated.

  `EntailOk a`: a call answers `entailed` only if every tuple of the box it returns satisfies the
  relation.  (The history part — flags are copied on push, never written below the top, boxes only
  shrink — is in NucsProofs/Engine and re-exported here as `C07_history` once proved.)
-/
namespace Nucs

theorem C07_affineLeq : EntailOk .affineLeq := entailOk_affineLeq

/-- non-vacuity: an in-contract call that answers `entailed` -/
example : runAlg .affineLeq [1, 1, 10] [(0, 5), (0, 5)] = .ok (.ent, [(0, 5), (0, 5)]) := by rfl

end Nucs
