import NucsProofs.Propagators.Affine
import NucsProofs.Propagators.AffineLeq
import NucsProofs.Propagators.AlldiffCorrectFinal
import NucsProofs.Propagators.AlldifferentReg
import NucsProofs.Propagators.CountEq
import NucsProofs.Propagators.Counting
import NucsProofs.Propagators.Dummy
import NucsProofs.Propagators.Element
import NucsProofs.Propagators.ExactOfSupport
import NucsProofs.Propagators.GccCIsPort
import NucsProofs.Propagators.GccExact
import NucsProofs.Propagators.GccLbcFinal
import NucsProofs.Propagators.GccPortSound
import NucsProofs.Propagators.GccReg
import NucsProofs.Propagators.Lex
import NucsProofs.Propagators.MinMax
import NucsProofs.Propagators.NoSubCycle
import NucsProofs.Propagators.Scc
import NucsProofs.Propagators.SupportCertProofs

/-!
  C07 — a constraint is declared entailed only when it can no longer be violated.

  `EntailOk a`: a call answers `entailed` only if every tuple of the box it returns satisfies the
  relation.  The history part (flags are copied on push, never written below the top, boxes only
  shrink) is the `ent` field of the engine invariant `Inv` (NucsProofs/Engine/BcLoop.lean),
  preserved by every propagation pass (`bcLoopG_inv`) and by push/backtrack (Engine/Search).
-/
namespace Nucs

theorem C07_affineGeq : EntailOk .affineGeq := entailOk_affineGeq
theorem C07_affineLeq : EntailOk .affineLeq := entailOk_affineLeq
theorem C07_countEq : EntailOk .countEq := entailOk_countEq
theorem C07_elementIv : EntailOk .elementIv := entailOk_elementIv
theorem C07_elementLic : EntailOk .elementLic := entailOk_elementLic
theorem C07_elementLiv : EntailOk .elementLiv := entailOk_elementLiv
theorem C07_exactlyEq : EntailOk .exactlyEq := entailOk_exactlyEq
theorem C07_exactlyTrue : EntailOk .exactlyTrue := entailOk_exactlyTrue
theorem C07_lexLeq : EntailOk .lexLeq := entailOk_lexLeq
theorem C07_maxLeq : EntailOk .maxLeq := entailOk_maxLeq
theorem C07_minGeq : EntailOk .minGeq := entailOk_minGeq
theorem C07_relation : EntailOk .relation := entailOk_relation

/-- algorithms for which `EntailOk` is stated (Spec.lean) but not proved here: validated by the
    correspondence and the brute-force oracle only -/
def C07_unproved : List Alg := []

/-- non-vacuity: an in-contract call that answers `entailed` -/
example : runAlg .affineLeq [1, 1, 10] [(0, 5), (0, 5)] = .ok (.ent, [(0, 5), (0, 5)]) := by rfl

end Nucs
