import NucsProofs.Engine.Determinism
/-!
  C15 — results are reproducible, mode-independent and independent of earlier solver use.

  PARTIAL.  What a theorem can carry (NucsProofs/Engine/Determinism.lean, names `C15_*`): the model's
  solver is a function of (problem, configuration) — `C15_deterministic`, `C15_deterministic_opt`,
  statistics included; constructing a solver again on the same problem object re-sorts an already
  sorted constraint list, which changes nothing (`C15_stableSort_idem`, `C15_init_twice`,
  `C15_init_many`, `C15_reuse`); the sort is stable (`C15_stableSort_stable`); registries are
  append-only, so indices held by earlier solvers stay valid (`C15_register_stable`,
  `C15_registry_append_only`, `C15_registry_indices`, `C15_register_parallel`).
  That the COMPILED and the INTERPRETED engine both compute this function, and that no hidden process
  state exists, cannot be exhibited by the model: it is tested on every run (harness/props/C15.py).
-/
