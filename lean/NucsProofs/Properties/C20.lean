import NucsProofs.Examples.Queens
import NucsProofs.Examples.LatinSquare
import NucsProofs.Examples.MagicSequence
import NucsProofs.Examples.Knapsack
import NucsProofs.Examples.Schur
import NucsProofs.Examples.Circuit
import NucsProofs.Examples.MagicSquare
import NucsProofs.Examples.Sudoku
import NucsProofs.Examples.Bibd
import NucsProofs.Examples.Alpha
import NucsProofs.Examples.Donald
import NucsProofs.Examples.Tsp
import NucsProofs.Examples.Golomb
import NucsProofs.Examples.Quasigroup
import NucsProofs.Examples.Sports
/-!
  C20 — shipped models yield only valid combinatorial objects, with the known counts.

  PARTIAL.  NucsModel/Examples.lean builds, for every shipped model, the problem exactly as the Python
  constructor posts it (compared constraint by constraint with the constructor's arrays on every run:
  this is the translation tie for the models).  NucsProofs/Examples/*.lean prove, for ALL instance
  parameters, `Sol (M params) σ ↔ Valid_M params σ` against a definition-level `Valid`:
  `C20_queens`, `C20_latinSquare`, `C20_magicSequence` (the redundant constraints are implied),
  `C20_knapsack`, `C20_schurLemma` (+ `C20_schurLemma_sb`: the symmetry-breaking variant only has valid
  solutions), `C20_circuit`, `C20_magicSquare` (+ `_sb`), `C20_sudoku`, `C20_bibd` (+ `_complete`, `_sb`),
  `C20_alpha`, `C20_donald`, `C20_tsp`, `C20_golomb` (+ `_sb`, `_sb_valid`; the redundant constraints and the
  ruler-length bound are implied; `GolombBounds` states the domain bounds the constructor takes from
  the table of optimal shorter rulers), `C20_latinSquareRC`, `C20_quasigroup`, `C20_quasigroup5`
  (+ `_sb`, `_sb_valid`: idempotent Latin square with its two dual models; QG5 identity
  ((b∗a)∗b)∗b = a), `C20_sports` (+ `_sb`, `_sb_valid`, `_every_pair_once`, `_once_a_week`,
  `_period_bounds`; n even).  With C01/C02: every solution the solver produces for these models is a
  valid object and every valid object is produced exactly once.  All 15 shipped models are covered.
  Not proved: literature COUNTS, preservation of satisfiability and optimum by symmetry breaking
  (tested: the kernel cannot enumerate 8-queens in reasonable time).
-/
