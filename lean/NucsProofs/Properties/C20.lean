import NucsProofs.Examples.Queens
import NucsProofs.Examples.LatinSquare
import NucsProofs.Examples.MagicSequence
import NucsProofs.Examples.Knapsack
import NucsProofs.Examples.Schur
import NucsProofs.Examples.SchurSym
import NucsProofs.Examples.Circuit
import NucsProofs.Examples.MagicSquare
import NucsProofs.Examples.MagicSquareSym
import NucsProofs.Examples.Sudoku
import NucsProofs.Examples.Bibd
import NucsProofs.Examples.BibdSym
import NucsProofs.Examples.Alpha
import NucsProofs.Examples.Donald
import NucsProofs.Examples.Tsp
import NucsProofs.Examples.Golomb
import NucsProofs.Examples.GolombSym
import NucsProofs.Examples.GolombConsSound
import NucsProofs.Engine.GolombConsOk
import NucsProofs.Examples.Quasigroup
import NucsProofs.Examples.Sports
import NucsProofs.Examples.Counts
/-!
  C20 — shipped models yield only valid combinatorial objects, with the known counts.

  PARTIAL.  NucsModel/Examples.lean builds, for every shipped model, the problem exactly as the Python
  constructor posts it (compared constraint by constraint with the constructor's arrays on every run:
  this is the translation tie for the models).  NucsProofs/Examples/*.lean prove, for ALL instance
  parameters, `Sol (M params) σ ↔ Valid_M params σ` against a definition-level `Valid`:
  `C20_queens`, `C20_latinSquare`, `C20_magicSequence` (the redundant constraints are implied),
  `C20_knapsack`, `C20_schurLemma` (+ `C20_schurLemma_sb`: the symmetry-breaking variant only has valid
  solutions), `C20_circuit`, `C20_magicSquare` (+ `_sb`), `C20_sudoku`, `C20_bibd` (+ `_complete`, `_sb`),
  `C20_alpha`, `C20_donald`, `C20_tsp`, `C20_golomb` (+ `_sb`, `_sb_valid`; the redundant constraints and the
  ruler-length bound are implied; `GolombBounds` states the domain bounds the constructor takes from
  the table of optimal shorter rulers), `C20_latinSquareRC`, `C20_quasigroup`, `C20_quasigroup5`
  (+ `_sb`, `_sb_valid`: idempotent Latin square with its two dual models; QG5 identity
  ((b∗a)∗b)∗b = a), `C20_sports` (+ `_sb`, `_sb_valid`, `_every_pair_once`, `_once_a_week`,
  `_period_bounds`; n even).  With C01/C02: every solution the solver produces for these models is a
  valid object and every valid object is produced exactly once.  All 15 shipped models are covered.
  KNOWN COUNTS (NucsProofs/Examples/Counts.lean, every evaluation by `decide +kernel`, no axiom added):
  `C20_count_queens_4…8` (2, 10, 4, 40, 92), `C20_count_latinSquare_2/3` (2, 12), `C20_count_magicSequence_4…7`
  with the explicit lists, `C20_count_schur_3/4`, `C20_count_schur_sb_4` (17, the test-suite number),
  `C20_count_golomb_4_optimum` (optimal length 6): each says `∃ L, L.Nodup ∧ (∀ σ, σ ∈ L ↔ Valid σ) ∧ L.length = k`.
  The small ones are obtained by running the MODEL'S SEARCH in the kernel and transporting the result through
  C02/C03 and `Sol ↔ Valid`; queens 5–8 and Latin squares of order 3 by a separately verified enumerator of the
  `Valid` predicate, tied back to the solver by `C20_solver_count` (any admitted configuration returns exactly
  that many vectors: `C20_solver_count_queens_8`).
  SYMMETRY BREAKING PRESERVES satisfiability and optimum — proved for the Golomb model for every number of marks
  (`C20_golomb_sb_preserves`, `C20_golomb_sb_same_lengths`: mirror image; NucsProofs/Examples/GolombSym.lean — the proof
  attempt exposed the defect repaired by /repo cfc4e15: with 2 marks the constraint compared a variable with itself).
  and for the magic-square model for every order (`C20_magicSquare_sb_iff`: the flag adds exactly four corner orderings;
  `C20_magicSquare_sb_preserves`, `C20_magicSquare_sb_sat_iff`: transpose and vertical flip of a normal magic square are normal
  magic squares, the corners hold distinct numbers, one of the eight images satisfies the orderings; MagicSquareSym.lean).
  THE GOLOMB MODEL'S OWN CONSISTENCY ALGORITHM (`golomb_consistency_algorithm`) is modelled (NucsModel/Engine/GolombCons.lean:
  `golombPrune`, `golombPass`; tied to the code by harness/golomb_corr.py) and its pruning is proved SOUND for every number of
  marks, state and decision list: `C20_golomb_prune_sound` (a solution inside the box stays inside; no spurious failure).  The
  proof is the argument the pinned code violated twice (D15: bounds lowered; D17: lower bounds of open variables counted as used).
  It is a THIRD consistency algorithm of the engine model (`ConsAlg.golomb`): `consOk_golomb`, `consKeeps_golomb` give it the two
  contracts the generic search theorems ask for, hence `C20_golomb_own_enumeration` / `C20_golomb_own_optimum`: whenever the
  Golomb example RUN WITH ITS OWN ALGORITHM returns, enumeration returns each solution once and optimisation an optimum
  (partial correctness; termination/safety of the scan for unused distances holds on reachable states only —
  `golomb_scan_bound_needs_reachability` is a box on which it leaves its array — and is validated on whole runs, not proved).
  and for the Schur model for every n (`C20_schurLemma_sb_iff`: the flag adds one lexicographic comparison of the first ⌊3n/2⌋
  variables with the rest; `C20_schurLemma_sb_preserves`, `C20_schurLemma_sb_sat_iff`: a renaming of the colours makes its first
  comparison 0 < 1; SchurSym.lean).
  and for the BIBD model for ALL parameters (`C20_bibd_sb_iff`: the flag says that adjacent rows and adjacent columns of the
  incidence matrix are in lexicographic order; `C20_bibd_sb_preserves`, `C20_bibd_sb_sat_iff`: the double-lex theorem
  `exists_doubleLex` — swapping two adjacent rows or columns that are out of order keeps a design a design and strictly decreases
  the matrix read as a binary number; DoubleLex.lean, BibdSym.lean).
  Not proved: the larger literature counts, preservation of satisfiability by symmetry
  breaking for the remaining flagged models — quasigroup, sports scheduling (tested).  Noted by the count proofs: for ODD n the shipped symmetry-breaking Schur model
  posts lexicographic_leq on 3n variables (an odd number), outside that constraint's documented shape; the
  contract of lexicographic_leq and its local theorems were then generalised to odd arity (the last variable
  is ignored, as the code does).
-/
