import NucsProofs.Engine.ShavingTerm
import NucsProofs.Engine.Optimum
import NucsProofs.Engine.DfsShaving
/-!
  C03 — minimise/maximise return a feasible optimum, or nothing exactly when infeasible.

  Theorems `C03_*` in NucsProofs/Engine/Optimum.lean (and DfsShaving.lean), on the model of `optimize`
  after the repair (stop when the tightened objective domain is empty):

  * `C03_optimum`, `C03_optimum_bc`, `C03_optimum_guarded` : with enough fuel the call RETURNS; the
    result is `none` iff the problem has no solution; otherwise it is `reported P σ` for a solution σ
    whose objective value is ≤ (minimise) / ≥ (maximise) that of every solution — for every objective
    variable that refers to an existing shared domain (own or shared, any offset, watched by any,
    several or no constraint), every heuristic pair;
  * `C03_optimum_partial` : the partial-correctness form; `C03_optimum_shaving_partial` for shaving.
  Invariant of the restart loop: every solution is in the current root box or no better than the
  incumbent; each restart strictly shrinks the objective's root domain (termination).
  The distributed version is C11 (`C11_optimize_best`, `C11_optimize_none_iff`) over C12.
-/
