import NucsProofs.Engine.C08Local
import NucsProofs.Engine.SearchSound
/-!
  C01 — every reported solution satisfies every posted constraint.

  `SolW P σ` (SpecEngine.lean): the assignment `σ` of the shared domains lies inside the declared
  root domains and every posted constraint's relation holds on the values its variables take;
  the reported vector is `reported P σ = [σ[d_v] + off_v | v]`, so every variable is inside its
  declared domain and variables sharing a domain differ exactly by their declared offsets.
  (`relW` = the documented relation, except that no_sub_cycle is decisive on permutations only; under
  the circuit-model discipline `NscGuarded` — every no_sub_cycle comes with an alldifferent on the
  same variables — `SolW` is `Sol`, the documented relations themselves.)

  Proved on the model of the search loop for EVERY variable heuristic, EVERY value heuristic,
  every problem whose constraints use algorithms with proved local contracts (`provenAlgs`) within
  their documented contract, every stack content reachable by branching and backtracking; for the
  plain bound-consistency algorithm (`cfg.cons = .bc`).  Shaving: see C10.  Multiprocessing: the
  parent only forwards vectors produced by backtracking workers (C11).
-/
namespace Nucs

/-- problems whose constraints all use algorithms with proved local contracts -/
theorem ProbOk_of_proven (P : Problem) (hall : ∀ p ∈ P.props, p.alg ∈ provenAlgs)
    (hc : ∀ p ∈ P.props, Contract p.alg p.params (views P.shr p.vars)) : ProbOk P :=
  ⟨fun p hp => localOk_of_proven p.alg (hall p hp), hc⟩

/-- enumeration: every vector yielded by the `solve()` generator is a solution -/
theorem C01_enumeration (P : Problem) (hP : ProbOk P) (hW : WFP P) (hne : P.shr.Nonempty)
    (cfg : Config) (hbc : cfg.cons = .bc) (hcost : CostOk cfg)
    (fuel1 fuel limit : Nat) (sols : List (List Int)) (s' : State)
    (h : solveAll P cfg fuel1 fuel limit (State.init P) [] = .ok (sols, s')) :
    ∀ x ∈ sols, ∃ σ, SolW P σ ∧ x = reported P σ :=
  solveAll_sound hP hW cfg hbc hcost fuel1 fuel limit _ [] sols s' (Pre_init P hne {}) (fun _ h => by cases h) h

/-- … and satisfies the documented relations themselves in the circuit-model discipline -/
theorem C01_enumeration_guarded (P : Problem) (hP : ProbOk P) (hW : WFP P) (hne : P.shr.Nonempty) (hg : NscGuarded P)
    (cfg : Config) (hbc : cfg.cons = .bc) (hcost : CostOk cfg)
    (fuel1 fuel limit : Nat) (sols : List (List Int)) (s' : State)
    (h : solveAll P cfg fuel1 fuel limit (State.init P) [] = .ok (sols, s')) :
    ∀ x ∈ sols, ∃ σ, Sol P σ ∧ x = reported P σ := by
  intro x hx
  obtain ⟨σ, hσ, hxσ⟩ := C01_enumeration P hP hW hne cfg hbc hcost fuel1 fuel limit sols s' h x hx
  exact ⟨σ, Sol_of_SolW hg hσ, hxσ⟩

/-- optimisation: the vector returned by minimize / maximize, if any, is a solution -/
theorem C01_optimisation (P : Problem) (hP : ProbOk P) (hW : WFP P) (hne : P.shr.Nonempty)
    (cfg : Config) (hbc : cfg.cons = .bc) (hcost : CostOk cfg) (v : Nat) (hv : v < P.vars.length) (minimize : Bool)
    (fuel1 fuel : Nat) (r : Option (List Int)) (s' : State)
    (h : optimize P cfg v minimize fuel1 fuel (State.init P) none = .ok (r, s')) :
    ∀ x, r = some x → ∃ σ, SolW P σ ∧ x = reported P σ :=
  optimize_sound hP hW cfg hbc hcost v hv minimize fuel1 fuel _ none r s' (Pre_init P hne {}) (fun _ h => by cases h) h

/-- the search invariant itself, for any state reached from the root: one `solve_one` call keeps
    it and returns only solutions (any stack content, any queue content) -/
theorem C01_solveOne (P : Problem) (hP : ProbOk P) (hW : WFP P) (cfg : Config) (hbc : cfg.cons = .bc) (hcost : CostOk cfg)
    (fuel : Nat) (s : State) (r : Option (List Int)) (s' : State) (hpre : Pre P s)
    (h : solveOne P cfg fuel s = .ok (r, s')) :
    Post P s' ∧ ∀ sol, r = some sol → ∃ σ, SolW P σ ∧ sol = reported P σ :=
  solveOne_sound hP hW cfg hbc hcost fuel s r s' hpre h

/-- non-vacuity: a model with a shared domain used twice inside one constraint (x0 ≤ x0 − 1 through
    offsets, the shape of the repaired write-back defect) is within contract, and the model finds
    no solution for it -/
def c01Example : Problem :=
  ⟨[(0, 3)], [(0, 0), (0, -2), (0, -1)], [⟨.maxLeq, [(0, 0), (0, -1)], []⟩]⟩

example : ProbOk c01Example ∧ WFP c01Example ∧ c01Example.shr.Nonempty := by
  refine ⟨ProbOk_of_proven _ ?_ ?_, ?_, by simp [c01Example, Box.Nonempty]⟩
  · intro p hp; simp [c01Example] at hp; subst hp; simp [provenAlgs]
  · intro p hp; simp [c01Example] at hp; subst hp; simp [Contract, views]
  · intro p hp v hv; simp [c01Example] at hp; subst hp; simp at hv; rcases hv with rfl | rfl <;> simp [c01Example]

example : (solveAll c01Example {} 1000 1000 100 (State.init c01Example) []).map (·.1) = .ok [] := by rfl

end Nucs
