import NucsProofs.Engine.Split
/-!
  C12 — splitting a problem partitions its search space.

  The theorems are in NucsProofs/Engine/Split.lean (names `C12_*`), about `splitBounds` and
  `splitProblem` (NucsModel/ProblemOps.lean, the model of `Problem.split` after the repair):
  for EVERY `lo hi k` (k = 0, k = 1, k larger than the number of values, negative bounds, singleton):

  * `splitBounds_length_int`, `splitBounds_nonempty`, `splitBounds_chain`, `splitBounds_cover`,
    `splitBounds_pairwise`, `splitBounds_sizes`: the parts are max 1 (min k size) consecutive
    non-empty intervals covering `[lo, hi]` exactly, of sizes ⌊size/k'⌋ or ⌊size/k'⌋+1;
  * `C12_splitProblem_partition`, `C12_splitProblem_unique`, `C12_splitProblem_disjoint`: every
    assignment of the root box lies in exactly one sub-problem's box; sub-problems differ from the
    original only in the split variable's shared domain (`splitProblem_getDom_ne`);
  * `C12_split_Sol`, `C12_split_Sol_unique`, `C12_split_Sol_disjoint`: the solution sets of the
    sub-problems partition the solution set of the problem.
  The original problem is an immutable value in the model ("leaves the original unchanged" is
  checked on the implementation by the correspondence: deep copy).
-/
namespace Nucs

/-- headline corollary: splitting never loses, duplicates or invents a solution -/
theorem C12_headline (P : Problem) (k v : Nat) (hdi : splitIdx P.vars v < P.shr.length) (σ : List Int) :
    (Sol P σ ↔ ∃ part ∈ splitProblem P.shr P.vars k v, Sol { P with shr := part } σ) ∧
    (∀ p ∈ splitProblem P.shr P.vars k v, ∀ q ∈ splitProblem P.shr P.vars k v,
      Sol { P with shr := p } σ → Sol { P with shr := q } σ → p = q) :=
  ⟨C12_split_Sol P k v hdi σ, fun p hp q hq h1 h2 => C12_split_Sol_unique P k v hdi σ p hp q hq h1 h2⟩

end Nucs
