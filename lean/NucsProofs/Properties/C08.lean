import NucsProofs.Engine.C08Local
import NucsProofs.Engine.Sched
import NucsProofs.Engine.Greatest
/-!
  C08 — propagation stops only at a common fixpoint and only ever shrinks domains.

  For EVERY admissible scheduler (`PickOk`: it picks a queued constraint whenever one is queued —
  the shipped `pickProp` is one, `pickProp_ok`), every problem whose constraints use algorithms
  with proved local contracts within their documented contract (`ProbOk`), every state satisfying
  the engine invariant (`Inv`: the root, and — NucsProofs/Engine/Search — every state reached by
  branching and backtracking), a pass that does not report inconsistency

   (a) leaves every domain a non-empty subset of what it was,
   (b) ends with an empty queue and every enabled constraint at a fixpoint: re-executing it on the
       resulting domains does not fail and returns the very same domains (`good`; for
       no_sub_cycle, which by design reacts to instantiation only: does not fail),
   (d) `TrigOk a` for each algorithm: the declared wake-up events are sufficient
       (`C08_trig_*`, generated in NucsProofs/Engine/C08Local.lean).

   (c) when all constraints are exact (`Exact`), the result is the greatest common fixpoint below
       the input (`C08_greatest`), whatever the scheduler.
-/
namespace Nucs

/-- (a) + (b) for any scheduler -/
theorem C08_pass {pick : Picker} (hp : PickOk pick) {P : Problem} (hP : ProbOk P) (hW : WFP P)
    (fuel : Nat) (prev : Option Nat) (s s' : State) (st : BcStatus) (hI : Inv P s)
    (h : bcLoopG pick P fuel prev s = .ok (st, s')) (hst : st ≠ .inconsistent) :
    Box.le s'.top.doms s.top.doms ∧ s'.top.doms.Nonempty ∧ (∀ i, getB s'.trig i = false) ∧
    ∀ q, q < P.props.length → getB s'.top.ne q = true →
      good (P.prop q).alg (P.prop q).params (views s'.top.doms (P.prop q).vars) := by
  have r := bcLoopG_inv hp hP hW fuel prev s st s' hI h
  have hI' := r.inv hst
  refine ⟨r.le hst, hI'.nonempty, r.empty hst, fun q hq hen => ?_⟩
  rcases hI'.fix q hq hen with h1 | h1
  · rw [r.empty hst q] at h1; cases h1
  · exact h1 _ (Box.le_refl _) hI'.nonempty (fun d => quiet_refl _ _)

/-- the shipped engine: one `bound_consistency_algorithm` pass from the root -/
theorem C08_shipped {P : Problem} (hP : ProbOk P) (hW : WFP P) (hne : P.shr.Nonempty)
    (s' : State) (st : BcStatus) (h : bcPass P (State.init P) = .ok (st, s')) (hst : st ≠ .inconsistent) :
    Box.le s'.top.doms P.shr ∧ s'.top.doms.Nonempty ∧
    ∀ q, q < P.props.length → getB s'.top.ne q = true →
      good (P.prop q).alg (P.prop q).params (views s'.top.doms (P.prop q).vars) := by
  have h0 := Inv_init P hne
  have hI : ∀ x : Stats, Inv P { State.init P with stats := x } := fun x =>
    ⟨h0.lenT, h0.lenN, h0.sub, h0.nonempty, h0.fix, h0.ent⟩
  have := C08_pass pickProp_ok hP hW _ none _ s' st (hI _) h hst
  exact ⟨this.1, this.2.1, this.2.2.2⟩

/-- (c) stated at full strength; see the header -/
def C08_greatest_full : Prop :=
  ∀ (pick : Picker), PickOk pick → ∀ (P : Problem), ProbOk P → WFP P → (∀ p ∈ P.props, Exact p.alg) →
    ∀ (fuel : Nat) (prev : Option Nat) (s s' : State) (st : BcStatus), Inv P s →
      bcLoopG pick P fuel prev s = .ok (st, s') →
      ∀ E : Box, Box.le E s.top.doms → E.Nonempty →
        (∀ q, q < P.props.length → getB s.top.ne q = true →
          ∃ st', runAlg (P.prop q).alg (P.prop q).params (views E (P.prop q).vars) = .ok (st', views E (P.prop q).vars) ∧ st' ≠ .inc) →
        st ≠ .inconsistent ∧ Box.le E s'.top.doms

/-- (c) the result of a pass is the GREATEST common fixpoint below the input when every posted
    constraint is exact — for every scheduler, hence for every posting and wake-up order -/
theorem C08_greatest : C08_greatest_full := bcLoopG_greatest

/-- non-vacuity: a two-constraint problem within contract, with all algorithms proved -/
def exampleProblem : Problem :=
  ⟨[(0, 5), (0, 5)], [(0, 0), (1, 0)],
   [⟨.affineLeq, [(0, 0), (1, 0)], [1, 1, 4]⟩, ⟨.maxLeq, [(0, 0), (1, 0)], []⟩]⟩

example : ProbOk exampleProblem := by
  constructor
  · intro p hp
    simp only [exampleProblem, List.mem_cons, List.mem_nil_iff, or_false] at hp
    rcases hp with rfl | rfl
    · exact localOk_affineLeq
    · exact localOk_maxLeq
  · intro p hp
    simp only [exampleProblem, List.mem_cons, List.mem_nil_iff, or_false] at hp
    rcases hp with rfl | rfl <;> simp [Contract, views, exampleProblem]

end Nucs
