import NucsProofs.Engine.MPProofs
/-!
  C18 — a dying worker process cannot hang the multiprocessing solver.

  Model (NucsModel/MP.lean, the parent loop after the repair): besides messages the parent observes
  queue time-outs `timeout alive`, where `alive i` is `Process.is_alive()` of worker `i`.
  Theorems in NucsProofs/Engine/MPProofs.lean (names `C18_*`):

  * `C18_halts_within_two_polls`, `C18_run_halts` : from any state that is not done, a time-out that
    sees a running worker dead, followed by a second time-out (nothing left to read), makes the
    parent raise — it halts within two polls after the death is observable, whatever came before
    (before the first message, between two solutions, just before the marker) and for any number of
    workers; what arrives later is ignored;
  * `C18_message_clears_suspicion` : data flushed by a worker that exited normally is consumed first;
  * `C18_safety`, `C18_safety_all_alive` : the parent never raises while every running worker is alive;
  * `C18_done_absorbing` : once done, nothing changes.

  PARTIAL: that `Process.is_alive()` eventually reports the death and that `Queue.get(timeout)` returns
  within its time-out is operating-system behaviour the model takes as input; it is exercised with
  real processes by the correspondence (harness/props/C18.py).
-/
namespace Nucs

theorem C18_headline (opt : Option (Nat × Bool)) (s : MPState) (hnd : s.done = false) (alive alive' : List Bool)
    (hdead : ∃ w ∈ s.running, getB alive w = false) :
    (mpStep opt (mpStep opt s (.timeout alive)) (.timeout alive')).raised = true :=
  (C18_halts_within_two_polls opt s alive alive' hnd hdead).1

end Nucs
