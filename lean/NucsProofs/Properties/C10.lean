import NucsProofs.Engine.ShavingTerm
import NucsProofs.Engine.Shaving
import NucsProofs.Engine.DfsShaving
/-!
  C10 — shaving is a sound strengthening of bound consistency.

  Theorems `C10_*` in NucsProofs/Engine/Shaving.lean, on the model of `shaving_consistency_algorithm`
  / `shave_bound`, for every state reachable by the search (`Pre`):

  * `C10_stack_unchanged` : the choice-point stack is left exactly as it was found;
  * `C10_shrinks`, `C10_le_bc` : the returned domains are contained in the input domains and in those
    plain bound consistency returns from the same state; shaving fails only if … see `C10_le_bc`;
  * `C10_keeps_solutions`, `C10_keeps_Sol` : a bound value is removed only when fixing the variable to it
    is refuted — no solution is lost and the pass does not fail while a solution exists;
  * `C10_fixpoint`, `C10_consOk_shaving` : the result satisfies the engine invariant with every enabled
    constraint at a fixpoint, so the generic search theorems apply: `C10_solveAll_sound`,
    `C10_optimize_sound` (every vector produced with shaving is a solution), and with
    `C02_bc_vs_shaving_partial` / `C03_optimum_shaving_partial`: same solutions, same optima.
  `C10_consOk_shaving` carries the side condition `P.shr ≠ []` (with no shared domain at all the
  shaving loop is never entered: `C10_consOk_shaving_empty_false`; such a problem cannot be built
  through the public API, which raises in cp_init).
-/
