import NucsProofs.Engine.ShavingTerm
import NucsProofs.Engine.StatsProofs
/-!
  C17 — reported statistics are exact counts obeying conservation laws.

  NucsProofs/Engine/StatsProofs.lean instruments the propagation loop with a GHOST trace of the
  constraint executions (`bcTrace`: constraint, status, "write-back changed something",
  "execution failed") and proves, for any scheduler and any state, that the statistics after the
  loop are the statistics before plus exactly the counts read off that trace (`bcLoopG_stats`):
  FILTER += number of executions, ENTAILMENT += those answering entailed, FILTER_NO_CHANGE += those
  that neither failed nor changed a domain, INCONSISTENCY += those that failed — at most one, the
  last, iff the pass reports inconsistency; nothing else moves.  For the search with plain bound
  consistency (`SearchLaw`): SOLUTION += solutions returned, BC = CHOICE + BACKTRACK + 1 per
  `solve_one` and also per exhaustive enumeration, DEPTH = maximum of the stack heights reached.
-/
namespace Nucs

/-- the counters after a pass are exactly the counts of the executions that happened -/
theorem C17_pass_exact (pick : Picker) (P : Problem) (fuel : Nat) (prev : Option Nat) (s : State) (st : BcStatus) (s' : State)
    (h : bcLoopG pick P fuel prev s = .ok (st, s')) :
    s'.stats = statsAfter s.stats (bcTrace pick P fuel prev s) ∧ endsWith (bcTrace pick P fuel prev s) st :=
  bcLoopG_stats pick P fuel prev s st s' h

/-- FILTER = NO_CHANGE + INCONSISTENCY + (executions that pruned), as increments -/
theorem C17_filter_split (pick : Picker) (P : Problem) (fuel : Nat) (prev : Option Nat) (s : State)
    (st : BcStatus) (s' : State) (h : bcLoopG pick P fuel prev s = .ok (st, s')) :
    s'.stats.filter + s.stats.filterNoChange + s.stats.inconsistency =
      s.stats.filter + s'.stats.filterNoChange + s'.stats.inconsistency +
        (bcTrace pick P fuel prev s).countP Exec.pruned :=
  bcLoopG_filter_split pick P fuel prev s st s' h

/-- one `bound_consistency_algorithm` call: BC + 1, the four propagator counters as above, nothing else -/
theorem C17_bcPass (P : Problem) (s : State) (st : BcStatus) (s' : State) (h : bcPass P s = .ok (st, s')) :
    PassLaw s.stats s'.stats st := bcPass_law P s st s' h

/-- one `solve_one` call with plain bound consistency -/
theorem C17_solveOne (P : Problem) (cfg : Config) (hc : cfg.cons = .bc) (fuel : Nat) (s : State)
    (r : Option (List Int)) (s' : State) (h : solveOne P cfg fuel s = .ok (r, s')) :
    SearchLaw s.stats s'.stats (if r.isSome then 1 else 0) := solveOne_stats P cfg hc fuel s r s' h

/-- enumeration (complete or abandoned after `limit + 1` solutions): SOLUTION counts the solutions
    delivered, BC = CHOICE + BACKTRACK + 1 -/
theorem C17_solveAll (P : Problem) (cfg : Config) (hc : cfg.cons = .bc) (fuel1 fuel limit : Nat) (s : State)
    (acc sols : List (List Int)) (s' : State) (h : solveAll P cfg fuel1 fuel (limit + 1) s acc = .ok (sols, s')) :
    ∃ n, n ≤ limit + 1 ∧ sols.length = acc.length + n ∧ SearchLaw s.stats s'.stats n :=
  solveAll_stats P cfg hc fuel1 fuel limit s acc sols s' h

/-- DEPTH is the maximum of the stack heights reached, CHOICE the number of decisions -/
theorem C17_depth (P : Problem) (cfg : Config) (hc : cfg.cons = .bc) (fuel : Nat) (s : State)
    (r : Option (List Int)) (s' : State) (h : solveOne P cfg fuel s = .ok (r, s')) :
    s'.stats.depth = (solveOneHeights P cfg fuel s).foldl max s.stats.depth ∧
    s'.stats.choice = s.stats.choice + (solveOneHeights P cfg fuel s).length :=
  solveOne_depth P cfg hc fuel s r s' h

end Nucs
