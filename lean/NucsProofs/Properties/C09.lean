import NucsProofs.Engine.Branch
import NucsProofs.Engine.BcInv
/-!
  C09 — branching partitions the chosen domain; backtracking restores the saved state.

  For each shipped value heuristic and every domain `[a, b]` with `a < b` (any sign, any size):
  `BranchOk` — the sub-ranges of the branch taken and of the saved alternatives are non-empty,
  pairwise disjoint, and cover `[a, b]` exactly; every other domain and the enabled flags are
  copied; the returned events, and the events recorded for every alternative (replayed on
  backtracking), announce every bound that moved, including "became a single value".
  Backtracking fails iff no alternative is left; otherwise the new current level IS the saved
  alternative (domains and flags), and the watchers of its recorded events are queued.
-/
namespace Nucs

theorem C09_minValue (l : Level) (d : Nat) (hd : d < l.doms.length)
    (h : (getDom l.doms d).1 < (getDom l.doms d).2) : BranchOk l d (minValue l d) := minValue_ok l d hd h

theorem C09_maxValue (l : Level) (d : Nat) (hd : d < l.doms.length)
    (h : (getDom l.doms d).1 < (getDom l.doms d).2) : BranchOk l d (maxValue l d) := maxValue_ok l d hd h

theorem C09_splitLow (l : Level) (d : Nat) (hd : d < l.doms.length)
    (h : (getDom l.doms d).1 < (getDom l.doms d).2) : BranchOk l d (splitLow l d) := splitLow_ok l d hd h

theorem C09_midValue (l : Level) (d : Nat) (hd : d < l.doms.length)
    (h : (getDom l.doms d).1 < (getDom l.doms d).2) : BranchOk l d (midValue l d) := midValue_ok l d hd h

/-- min_cost, within the documented contract of its cost table (strictly positive cost for the
    values of the domain; only the first one is needed) -/
theorem C09_minCost (costs : List (List Int)) (l : Level) (d : Nat) (hd : d < l.doms.length)
    (h : (getDom l.doms d).1 < (getDom l.doms d).2) (b : Branch) (hb : minCost costs l d = some b)
    (hpos : ∀ c, costAt costs d (getDom l.doms d).1 = some c → 0 < c) : BranchOk l d b :=
  minCost_ok costs l d hd h b hb hpos

/-- every shipped value heuristic, through the dispatcher the search uses -/
theorem C09_runDomHeur (hh : DomHeur) (costs : List (List Int)) (l : Level) (d : Nat) (hd : d < l.doms.length)
    (h : (getDom l.doms d).1 < (getDom l.doms d).2) (b : Branch) (hb : runDomHeur hh costs l d = some b)
    (hpos : hh = .minCost → ∀ c, costAt costs d (getDom l.doms d).1 = some c → 0 < c) : BranchOk l d b := by
  cases hh <;> simp only [runDomHeur] at hb
  · injection hb with hb; subst hb; exact minValue_ok l d hd h
  · injection hb with hb; subst hb; exact maxValue_ok l d hd h
  · injection hb with hb; subst hb; exact splitLow_ok l d hd h
  · injection hb with hb; subst hb; exact midValue_ok l d hd h
  · exact minCost_ok costs l d hd h b hb (hpos rfl)

/-- backtracking fails exactly when no alternative is left -/
theorem C09_backtrack_none_iff (P : Problem) (s : State) : backtrack P s = none ↔ s.below = [] := by
  unfold backtrack
  cases s.below <;> simp

/-- backtracking makes the saved alternative the current level — domains, enabled flags and all —
    pops it from the stack, only ADDS to the queue, and queues every enabled watcher of the
    recorded events -/
theorem C09_backtrack_restores (P : Problem) (s s' : State) (l : Level) (rest : List Level)
    (hb : s.below = l :: rest) (h : backtrack P s = some s') (hl : s.trig.length = P.props.length) :
    s'.top = l ∧ s'.below = rest ∧
    (∀ j, getB s.trig j = true → getB s'.trig j = true) ∧
    (∀ q, q < P.props.length → getB l.ne q = true → (trigMask (P.props[q]!) l.updIdx).meets l.updEv = true →
      getB s'.trig q = true) := by
  unfold backtrack at h
  rw [hb] at h
  injection h with h; subst h
  refine ⟨rfl, rfl, fun j hj => addProps_mono P _ _ _ _ j hl hj, fun q hq hen hm => ?_⟩
  simp only
  rw [getB_addProps P s.trig l.ne l.updIdx l.updEv q (by omega) hq, hen, hm]; simp

/-- a decision followed by a backtrack: the first saved alternative becomes current, the others
    stay above the older levels, which are untouched -/
theorem C09_push_backtrack (P : Problem) (s : State) (b : Branch) (l : Level) (rest : List Level)
    (ha : b.alts = l :: rest) : ∃ s', backtrack P (s.push b) = some s' ∧ s'.top = l ∧ s'.below = rest ++ s.below := by
  refine ⟨_, by simp [backtrack, State.push, ha]; rfl, rfl, rfl⟩

/-- non-vacuity: a negative two-value domain and an odd-sized one -/
example : (minValue { doms := [(-3, -2)], ne := [] } 0).taken.doms = [(-3, -3)] := by rfl
example : (splitLow { doms := [(-3, 3)], ne := [] } 0).taken.doms = [(-3, 0)] := by rfl
example : ((midValue { doms := [(0, 4)], ne := [] } 0).alts.map (·.doms)) = [[(0, 1)], [(3, 4)]] := by rfl

end Nucs
