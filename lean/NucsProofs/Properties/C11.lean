import NucsProofs.Engine.MPProofs
import NucsProofs.Engine.MPEndToEnd
import NucsProofs.Engine.OptTrace
/-!
  C11 — the multiprocessing solver equals the sequential solver for every interleaving.

  The theorems are in NucsProofs/Engine/MPProofs.lean (names `C11_*`), about the model of the parent
  loop (`mpStep`/`mpRun`/`mpAggregate`, NucsModel/MP.lean).  Worker `i` sends its solutions (each with
  an arbitrary statistics snapshot) and then a completion marker carrying its final statistics;
  `MP.Interleaving k W fin msgs` says `msgs` is ANY interleaving of the `k` streams (its projection
  on every worker is that worker's stream).  For every interleaving:

  * `C11_solve`        : the call ends with no worker running, without raising, having yielded a
                         permutation of all the workers' solutions (`C11_solve_count`: multiset form);
  * `C11_not_done_before_end` / `C11_done_at_end` : it consumes ALL messages and is done exactly
                         after the last marker;
  * `C11_stats`, `C11_aggregate` : the statistics kept are each worker's final ones; the totals are
                         column sums (maximum for the depth column);
  * `C11_optimize_none_iff`, `C11_optimize_best`, `C11_optimize_value` : optimisation returns None
                         iff no worker found a solution, else a received solution of optimal value;
  * `C11_benign_timeouts` : queue time-outs that see every worker alive change nothing.

  END TO END (NucsProofs/Engine/MPEndToEnd.lean), composing the parent loop with C12 (the
  sub-problems partition the solution set) and C02/C03 per worker:
  * `C11_end_to_end_solve(_bc)` : if worker `i`'s stream is what the model's `solveAll` returns on
    the `i`-th part of `splitProblem`, then for EVERY interleaving the parent ends normally and has
    yielded a permutation of `L.map reported` with `L.Nodup`, `Sol P ⊆ L ⊆ SolW P`;
    `C11_end_to_end_solve_sequential`: … a permutation of what the sequential `solveAll P cfg'`
    returns, for any strategy `cfg'`;
  * `C11_end_to_end_optimize(_bc/_sequential)` : the value kept by the parent is `none` iff `P` has
    no solution and otherwise a solution of optimal objective value, equal to the sequential optimum;
  * `C11_end_to_end_optimize_trace(_bc)` (NucsProofs/Engine/OptTrace.lean): the same with every worker's
    stream COMPUTED by the model — `optimizeTrace` (NucsModel/Engine/OptTrace.lean) returns every
    improving solution in order, `optimize` returns its last element (`optimizeTrace_optimize_eq`),
    the trace strictly improves and consists of solutions; the correspondence compares it with the
    messages the real `optimize_and_queue` puts on the queue.  That the operating system
  delivers SOME interleaving of the workers' streams is the trusted assumption.
-/
namespace Nucs

/-- headline: whatever the arrival order, enumeration through the parent yields exactly the
    workers' solutions (as a multiset) and terminates normally -/
theorem C11_headline (k : Nat) (W : Nat → List (List Int × List Nat)) (fin : Nat → List Nat) (msgs : List MPIn)
    (h : MP.Interleaving k W fin msgs) :
    (mpRun none k msgs).running = [] ∧ (mpRun none k msgs).raised = false ∧
    List.Perm (mpRun none k msgs).yielded (MP.allSols k W) := C11_solve h

end Nucs
