import NucsProofs.Engine.Termination
/-!
  C04 — propagation and search terminate on every finite problem.

  Theorems in NucsProofs/Engine/Termination.lean (names `C04_*`), on the model of the propagation loop:
  for EVERY admissible scheduler, every problem whose constraints use algorithms with proved local
  contracts within their documented contract and never index out of bounds or run out of fuel
  themselves (`Safe`), and every state satisfying the engine invariant (root, after any branch,
  after any backtrack),

  * `C04_any_scheduler` : the loop returns (no fuel exhaustion) as soon as
      fuel ≥ (W + 1)·(n + 1),  W = total width Σ(max − min) of the current domains, n = number of
      constraints — and executes fewer than (W + 1)·(n + 1) constraints (`FILTER_NB` grows by less);
  * `C04_bcPass`, `C04_bcPass_no_fuel_error` : the shipped `bound_consistency_algorithm` pass, with
      the fuel the model grants itself, always returns.
  The measure is lexicographic (W, number of queued constraints): an execution whose write-back
  changes nothing consumes a queue entry; one that changes something strictly shrinks a domain
  (GROUND is only announced together with a change — the repaired write-back).

  Per-propagator termination is `Safe <alg>` (no `.fuel` outcome in contract): proved for
  no_sub_cycle (restart loop) and trivially for the closed-form algorithms; for the ported
  alldifferent/gcc pointer chasing it is validated by correspondence (gcc with a zero capacity does
  spin: known finding K1).  Search termination (`solveOne`) is stated as `C04_search_full`.
-/
namespace Nucs

/-- full statement for the search loop: stated, not proved here (the finite-tree argument needs the
    partition theorem C09 and the measure Σ_levels (2·|box| − 1)) -/
def C04_search_full : Prop :=
  ∀ (P : Problem) (cfg : Config), ProbOk P → WFP P → (∀ p ∈ P.props, Safe p.alg) → P.shr.Nonempty →
    ∃ fuel, ∀ fuel', fuel ≤ fuel' → solveOne P cfg fuel' (State.init P) ≠ .error .fuel

end Nucs
