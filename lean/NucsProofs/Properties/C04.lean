import NucsProofs.Engine.ShavingTerm
import NucsProofs.Engine.Termination
import NucsProofs.Engine.DfsTerm
import NucsProofs.Propagators.PortAlldiff
import NucsProofs.Propagators.PortGcc
/-!
  C04 — propagation and search terminate on every finite problem.

  Theorems in NucsProofs/Engine/Termination.lean (names `C04_*`), on the model of the propagation loop:
  for EVERY admissible scheduler, every problem whose constraints use algorithms with proved local
  contracts within their documented contract and never index out of bounds or run out of fuel
  themselves (`Safe`), and every state satisfying the engine invariant (root, after any branch,
  after any backtrack),

  * `C04_any_scheduler` : the loop returns (no fuel exhaustion) as soon as
      fuel ≥ (W + 1)·(n + 1),  W = total width Σ(max − min) of the current domains, n = number of
      constraints — and executes fewer than (W + 1)·(n + 1) constraints (`FILTER_NB` grows by less);
  * `C04_bcPass`, `C04_bcPass_no_fuel_error` : the shipped `bound_consistency_algorithm` pass, with
      the fuel the model grants itself, always returns.
  The measure is lexicographic (W, number of queued constraints): an execution whose write-back
  changes nothing consumes a queue entry; one that changes something strictly shrinks a domain
  (GROUND is only announced together with a change — the repaired write-back).

  Per-propagator termination is `Safe <alg>` (no `.fuel` outcome in contract): proved for
  no_sub_cycle (restart loop) and trivially for the closed-form algorithms; for the ported
  alldifferent pointer chasing it is `C04_port_alldifferent` (the raw port never exhausts its loop
  budgets on non-empty domains; with an empty domain the code does loop: `alldifferent_empty_domain_fuel`);
  for the ported gcc it is `C04_port_gcc` (upper capacities ≥ 1; gcc with a zero capacity does spin:
  `gcc_zero_capacity_fuel`, known finding K1).  Search termination is `C04_search` (and, for the whole enumeration / optimisation with explicit fuels,
  `C02_enumeration`, `C03_optimum`).  With shaving: `C04_shavingPass` (the pass returns after at most 2·W + 2·n + 1 probes; the fuel the model grants the loop is sufficient) and `Dfs.consTerm_shaving`.
-/
namespace Nucs

/-- the search: from any state satisfying the search invariant, `solve_one` returns (it does not run
    out of fuel) as soon as `fuel` exceeds the measure Σ_boxes (2·|box| − 1) of the remaining search
    space — for any consistency algorithm that itself returns (`ConsTerm`: proved for bound consistency
    by `C04_bcPass`), any heuristics that find a decision on a non-ground box (`HeurOk`: proved when every
    shared domain is a decision domain), and a stack of height ≥ total width + 2 -/
theorem C04_search {P : Problem} (cfg : Config) (hcons : ConsOk P cfg) (hterm : Dfs.ConsTerm P cfg)
    (hheur : Dfs.HeurOk P cfg) (hcost : CostOk cfg) {W : Nat} (hH : W + 2 ≤ cfg.height)
    (fuel : Nat) (s : State) (hpre : Pre P s) (hh : Dfs.HOk W s.top.doms s.below) (hf : Dfs.smu s < fuel) :
    ∃ r s', solveOne P cfg fuel s = .ok (r, s') :=
  Dfs.solveOne_terminates cfg hcons hterm hheur hcost hH fuel s hpre hh hf

end Nucs
