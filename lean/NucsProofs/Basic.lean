import NucsProofs.Spec
/-!
  Helper lemmas shared by all proof files: boxes, tuples, Python floor division.
-/
namespace Nucs

/-! ### Python floor division -/

theorem pyDiv_pos (a c : Int) (hc : 0 < c) : pyDiv a c = a / c := by
  unfold pyDiv; exact Int.fdiv_eq_ediv_of_nonneg a (Int.le_of_lt hc)

/-- `c * x ≤ a ↔ x ≤ a // c` for `c > 0` -/
theorem le_pyDiv_iff (a c x : Int) (hc : 0 < c) : x ≤ pyDiv a c ↔ c * x ≤ a := by
  rw [pyDiv_pos a c hc]
  constructor
  · intro h; have := (Int.le_ediv_iff_mul_le hc).mp h; rw [Int.mul_comm]; exact this
  · intro h; exact (Int.le_ediv_iff_mul_le hc).mpr (by rw [Int.mul_comm]; exact h)

theorem pyDiv_neg_neg (a c : Int) : pyDiv (-a) (-c) = pyDiv a c := by
  unfold pyDiv; exact Int.neg_fdiv_neg a c

/-- `(-a) // c = a // (-c)` -/
theorem pyDiv_neg_left (a c : Int) : pyDiv (-a) c = pyDiv a (-c) := by
  have := pyDiv_neg_neg a (-c); simp only [Int.neg_neg] at this; exact this

/-- `c * pyDiv a c ≤ a` and `a < c * (pyDiv a c + 1)` for `c > 0` -/
theorem pyDiv_mul_le (a c : Int) (hc : 0 < c) : c * pyDiv a c ≤ a :=
  (le_pyDiv_iff a c (pyDiv a c) hc).mp (Int.le_refl _)

theorem lt_pyDiv_succ_mul (a c : Int) (hc : 0 < c) : a < c * (pyDiv a c + 1) := by
  have h : ¬ (pyDiv a c + 1 ≤ pyDiv a c) := by omega
  have := mt (le_pyDiv_iff a c (pyDiv a c + 1) hc).mpr h
  omega

/-! ### tuples and boxes -/

theorem inBox_length : ∀ {t : List Int} {B : Box}, inBox t B → t.length = B.length
  | [], [], _ => rfl
  | _ :: ts, _ :: ds, h => by simp [inBox_length h.2]
  | [], _ :: _, h => by simp [inBox] at h
  | _ :: _, [], h => by simp [inBox] at h

theorem Box.le_length : ∀ {B' B : Box}, Box.le B' B → B'.length = B.length
  | [], [], _ => rfl
  | _ :: ds', _ :: ds, h => by simp [Box.le_length h.2]
  | [], _ :: _, h => by simp [Box.le] at h
  | _ :: _, [], h => by simp [Box.le] at h

theorem Box.le_refl : ∀ (B : Box), Box.le B B
  | [] => trivial
  | _ :: ds => ⟨⟨Int.le_refl _, Int.le_refl _⟩, Box.le_refl ds⟩

theorem Box.le_trans : ∀ {A B C : Box}, Box.le A B → Box.le B C → Box.le A C
  | [], [], [], _, _ => trivial
  | _ :: _, _ :: _, _ :: _, h1, h2 =>
    ⟨⟨Int.le_trans h2.1.1 h1.1.1, Int.le_trans h1.1.2 h2.1.2⟩, Box.le_trans h1.2 h2.2⟩
  | [], [], _ :: _, _, h2 => by simp [Box.le] at h2
  | [], _ :: _, _, h1, _ => by simp [Box.le] at h1
  | _ :: _, [], _, h1, _ => by simp [Box.le] at h1
  | _ :: _, _ :: _, [], _, h2 => by simp [Box.le] at h2

theorem inBox_of_le : ∀ {t : List Int} {B' B : Box}, inBox t B' → Box.le B' B → inBox t B
  | [], [], [], _, _ => trivial
  | _ :: _, _ :: _, _ :: _, h1, h2 =>
    ⟨⟨Int.le_trans h2.1.1 h1.1.1, Int.le_trans h1.1.2 h2.1.2⟩, inBox_of_le h1.2 h2.2⟩
  | [], [], _ :: _, _, h2 => by simp [Box.le] at h2
  | [], _ :: _, _, h1, _ => by simp [inBox] at h1
  | _ :: _, [], _, h1, _ => by simp [inBox] at h1
  | _ :: _, _ :: _, [], _, h2 => by simp [Box.le] at h2

theorem Box.le_antisymm : ∀ {A B : Box}, Box.le A B → Box.le B A → A = B
  | [], [], _, _ => rfl
  | (a1, a2) :: _, (b1, b2) :: _, h1, h2 => by
    have := Box.le_antisymm h1.2 h2.2
    have e1 : a1 = b1 := Int.le_antisymm h2.1.1 h1.1.1
    have e2 : a2 = b2 := Int.le_antisymm h1.1.2 h2.1.2
    simp [this, e1, e2]
  | [], _ :: _, h1, _ => by simp [Box.le] at h1
  | _ :: _, [], h1, _ => by simp [Box.le] at h1

theorem Box.nonempty_cons {d : Dom} {ds : Box} : Box.Nonempty (d :: ds) ↔ d.1 ≤ d.2 ∧ Box.Nonempty ds := by
  simp [Box.Nonempty]

theorem Box.nonempty_nil : Box.Nonempty [] := by simp [Box.Nonempty]

theorem Box.hasEmpty_eq_false_iff (B : Box) : B.hasEmpty = false ↔ B.Nonempty := by
  induction B with
  | nil => simp [Box.hasEmpty, Box.Nonempty]
  | cons d ds ih =>
    simp only [Box.hasEmpty, List.any_cons, Bool.or_eq_false_iff] at *
    rw [Box.nonempty_cons, ← ih]
    simp [Dom.isEmpty]

/-- a box that contains a tuple has no empty domain -/
theorem nonempty_of_inBox : ∀ {t : List Int} {B : Box}, inBox t B → B.Nonempty
  | [], [], _ => Box.nonempty_nil
  | _ :: _, _ :: _, h => Box.nonempty_cons.mpr ⟨Int.le_trans h.1.1 h.1.2, nonempty_of_inBox h.2⟩
  | [], _ :: _, h => by simp [inBox] at h
  | _ :: _, [], h => by simp [inBox] at h

theorem inBox_pointBox_self : ∀ (t : List Int), inBox t (pointBox t)
  | [] => trivial
  | _ :: ts => ⟨⟨Int.le_refl _, Int.le_refl _⟩, inBox_pointBox_self ts⟩

theorem eq_of_inBox_pointBox : ∀ {t u : List Int}, inBox t (pointBox u) → t = u
  | [], [], _ => rfl
  | x :: xs, y :: ys, h => by
    have h1 : y ≤ x ∧ x ≤ y := h.1
    have := eq_of_inBox_pointBox (t := xs) (u := ys) h.2
    have : x = y := by omega
    simp [*]
  | [], _ :: _, h => by simp [pointBox, inBox] at h
  | _ :: _, [], h => by simp [pointBox, inBox] at h

/-- a non-empty sub-box of a point box is that point box -/
theorem eq_pointBox_of_le : ∀ {B : Box} {t : List Int}, Box.le B (pointBox t) → B.Nonempty → B = pointBox t
  | [], [], _, _ => rfl
  | (d1, d2) :: ds, x :: xs, h, hne => by
    have hd : (x ≤ d1 ∧ d2 ≤ x) := h.1
    have hne' := Box.nonempty_cons.mp hne
    have := eq_pointBox_of_le (B := ds) (t := xs) h.2 hne'.2
    have h1 : d1 ≤ d2 := hne'.1
    have e1 : d1 = x := by omega
    have e2 : d2 = x := by omega
    simp [pointBox, this, e1, e2]
  | [], _ :: _, h, _ => by simp [pointBox, Box.le] at h
  | _ :: _, [], h, _ => by simp [pointBox, Box.le] at h

/-- component access of `inBox` / `Box.le` -/
theorem inBox_get : ∀ {t : List Int} {B : Box} (k : Nat), inBox t B → k < B.length →
    (getDom B k).1 ≤ getI t k ∧ getI t k ≤ (getDom B k).2
  | _ :: _, _ :: _, 0, h, _ => by simpa [getDom, getI, inDom] using h.1
  | _ :: ts, _ :: ds, k + 1, h, hk => by
    have := inBox_get (t := ts) (B := ds) k h.2 (by simpa using hk)
    simpa [getDom, getI] using this
  | [], [], _, _, hk => by simp at hk
  | [], _ :: _, _, h, _ => by simp [inBox] at h
  | _ :: _, [], _, h, _ => by simp [inBox] at h

theorem Box.le_get : ∀ {B' B : Box} (k : Nat), Box.le B' B → k < B.length →
    (getDom B k).1 ≤ (getDom B' k).1 ∧ (getDom B' k).2 ≤ (getDom B k).2
  | _ :: _, _ :: _, 0, h, _ => by simpa [getDom] using h.1
  | _ :: ds', _ :: ds, k + 1, h, hk => by
    have := Box.le_get (B' := ds') (B := ds) k h.2 (by simpa using hk)
    simpa [getDom] using this
  | [], [], _, _, hk => by simp at hk
  | [], _ :: _, _, h, _ => by simp [Box.le] at h
  | _ :: _, [], _, h, _ => by simp [Box.le] at h

theorem Box.nonempty_get {B : Box} (h : B.Nonempty) (k : Nat) (hk : k < B.length) :
    (getDom B k).1 ≤ (getDom B k).2 := by
  have : getDom B k ∈ B := by
    unfold getDom; simp [List.getD, List.getElem?_eq_getElem hk]
  exact h _ this

/-- boxes are equal when all components are -/
theorem Box.ext_get : ∀ {A B : Box}, A.length = B.length → (∀ k, k < A.length → getDom A k = getDom B k) → A = B
  | [], [], _, _ => rfl
  | a :: as, b :: bs, hl, h => by
    have h0 := h 0 (by simp)
    simp [getDom] at h0
    have := Box.ext_get (A := as) (B := bs) (by simpa using hl)
      (fun k hk => by have := h (k + 1) (by simpa using hk); simpa [getDom] using this)
    simp [h0, this]
  | [], _ :: _, hl, _ => by simp at hl
  | _ :: _, [], hl, _ => by simp at hl

/-! ### events -/

theorem quiet_refl (m : Ev) (d : Dom) : quiet m d d := by
  simp [quiet, Ev.meets, evOf]

theorem quiet_trans (m : Ev) (a b c : Dom) (h1 : quiet m a b) (h2 : quiet m b c) : quiet m a c := by
  obtain ⟨a1, a2⟩ := a; obtain ⟨b1, b2⟩ := b; obtain ⟨c1, c2⟩ := c
  obtain ⟨mn, mx, mg⟩ := m
  cases mn <;> cases mx <;> cases mg <;>
    simp [quiet, Ev.meets, evOf] at * <;> omega

/-- a mask that watches MIN and MAX is quiet only when nothing changed -/
theorem eq_of_quiet_minMax {o n : Dom} (h : quiet Ev.minMax o n) : n = o := by
  obtain ⟨o1, o2⟩ := o; obtain ⟨n1, n2⟩ := n
  simp [quiet, Ev.meets, evOf, Ev.minMax] at h
  simp [h.1, h.2]

end Nucs
