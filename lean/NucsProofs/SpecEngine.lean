import NucsProofs.Spec
/-!
  Problem-level specification: assignments, solutions.
  `σ` assigns a value to every SHARED domain; variable `v = (d, off)` then has value `σ[d] + off`.
-/
namespace Nucs

/-- the values a constraint (or the user) sees for the variables `vars` under the assignment `σ` -/
def valuesOf (vars : List (Nat × Int)) (σ : List Int) : List Int := vars.map (fun v => getI σ v.1 + v.2)

/-- `σ` is a solution: inside the root domains and every posted constraint's documented relation holds -/
def Sol (P : Problem) (σ : List Int) : Prop :=
  inBox σ P.shr ∧ ∀ p ∈ P.props, rel p.alg p.params (valuesOf p.vars σ)

/-- the same with the acceptance relation `relW` (differs from `rel` for no_sub_cycle only, which
    is decisive on permutations: C06) -/
def SolW (P : Problem) (σ : List Int) : Prop :=
  inBox σ P.shr ∧ ∀ p ∈ P.props, relW p.alg p.params (valuesOf p.vars σ)

/-- the vector the solver reports for `σ` -/
def reported (P : Problem) (σ : List Int) : List Int := valuesOf P.vars σ

/-- the circuit-model discipline under which `relW` and `rel` coincide: every no_sub_cycle
    constraint is accompanied by an alldifferent on the same variable list -/
def NscGuarded (P : Problem) : Prop :=
  ∀ p ∈ P.props, p.alg = .noSubCycle → ∃ q ∈ P.props, q.alg = .alldifferent ∧ q.vars = p.vars

theorem relW_of_rel (a : Alg) (ps t : List Int) (h : rel a ps t) : relW a ps t := by
  cases a <;> first | exact h | (intro _; exact h)

theorem rel_of_relW_ne (a : Alg) (ha : a ≠ .noSubCycle) (ps t : List Int) (h : relW a ps t) : rel a ps t := by
  cases a <;> first | exact h | exact absurd rfl ha

theorem SolW_of_Sol {P : Problem} {σ : List Int} (h : Sol P σ) : SolW P σ :=
  ⟨h.1, fun p hp => relW_of_rel _ _ _ (h.2 p hp)⟩

theorem Sol_of_SolW {P : Problem} (hg : NscGuarded P) {σ : List Int} (h : SolW P σ) : Sol P σ := by
  refine ⟨h.1, fun p hp => ?_⟩
  have hw := h.2 p hp
  by_cases ha : p.alg = .noSubCycle
  · obtain ⟨q, hq, hqa, hqv⟩ := hg p hp ha
    have hq' := h.2 q hq
    rw [hqa] at hq'
    have hq'' : (valuesOf q.vars σ).Nodup := hq'
    rw [ha] at hw ⊢
    rw [hqv] at hq''
    exact hw hq''
  · exact rel_of_relW_ne _ ha _ _ hw

end Nucs
