import NucsProofs.Propagators.GccSoundLMinMath
import NucsProofs.Propagators.PortGccLMin
/-!
  Semantic soundness of the ported gcc, `filter_lower_min`: glue between the arrays of the port and
  the abstract functions of GccSoundLMinMath.
  * `tl` is read through `tlg tl` (cell 1 replaced by the terminal 0; PortGccLMinInv);
  * `c` is read through `dfc Kf c` (cell 1, never touched by the main loop, replaced by its initial
    value `Kf 1 - Kf 0`).
-/
namespace Nucs
namespace Gcc
open AllDiff (g)

/-- `c` with the cells `≤ 1` replaced by the capacity of the bottom sentinels -/
def dfc (Kf : Int → Int) (c : Array Int) : Int → Int :=
  fun k => if k ≤ 1 then Kf 1 - Kf 0 else g c k

theorem dfc_ge2 (Kf : Int → Int) (c : Array Int) (k : Int) (h : 2 ≤ k) : dfc Kf c k = g c k := by
  unfold dfc; rw [if_neg (by omega)]

theorem dfc_le1 (Kf : Int → Int) (c : Array Int) (k : Int) (h : k ≤ 1) :
    dfc Kf c k = Kf 1 - Kf 0 := by
  unfold dfc; rw [if_pos h]

end Gcc
end Nucs
