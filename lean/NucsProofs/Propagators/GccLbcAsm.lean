import NucsProofs.Propagators.GccSoundAsm2
import NucsProofs.Propagators.GccExactAsm
import NucsProofs.Propagators.GccLbcCoreA
import NucsProofs.Propagators.GccLbcCoreC
import NucsProofs.Propagators.GccSoundLMinLoop
import NucsProofs.Propagators.GccSoundUMinLoop
import NucsProofs.Propagators.PortGcc
import NucsProofs.Propagators.AlldiffCorrectPort
/-!
  Semantic soundness of the ported gcc — bound-consistency exactness on arrays, modulo supports in the lower-capacity relaxation.
-/
namespace Nucs
namespace Gcc
open AllDiff (g upd g2 upd2 ok_bind pure_eq_ok cinR Oth LChain mbd)

/-- In contract, with every capacity `≥ 1` and on a box containing a solution: every bound of the
    answer has a support in the lower-capacity relaxation (completeness of the two lower-capacity
    passes, and of the classification of the variables into stable and non-stable ones). -/
theorem compute_domains_gcc_lsup (domains : Arr2) (parameters : Array Int) (m : Int) (hm : 1 ≤ m)
    (hps : (parameters.size : Int) = 2 * m + 1) (hn : 1 ≤ domains.size)
    (hdom : ∀ v : Int, 0 ≤ v → v < domains.size → g parameters 0 ≤ (g2 domains v).1 ∧
      (g2 domains v).1 ≤ (g2 domains v).2 ∧ (g2 domains v).2 ≤ g parameters 0 + m - 1)
    (hl : ∀ k : Int, 0 ≤ k → k < m → 0 ≤ g parameters (1 + k))
    (hlu : ∀ k : Int, 0 ≤ k → k < m → g parameters (1 + k) ≤ g parameters (1 + m + k))
    (hu : ∀ k : Int, 0 ≤ k → k < m → 1 ≤ g parameters (1 + m + k))
    (τ0 : Int → Int) (hτ0 : GSol (domains.size : Int) (g parameters 0) m domains
          (fun j => g parameters (1 + j)) (fun j => g parameters (1 + m + j)) τ0) :
    ∃ st dom', compute_domains_gcc domains parameters = .ok (st, dom') ∧
      (st ≠ .inc → ∀ v : Int, 0 ≤ v → v < domains.size → ∀ val : Int,
        (val = (g2 dom' v).1 ∨ val = (g2 dom' v).2) →
        ∃ σ : Int → Int, LSup (domains.size : Int) (g parameters 0) m domains
          (fun j => g parameters (1 + j)) σ v val) := by
  have hpm : pyDiv ((parameters.size : Int) - 1) 2 = m := by rw [hps]; exact pyDiv_two m
  -- the two capacity arrays
  have hLs : ((parameters.extract 1 (1 + m.toNat)).size : Int) = m := by
    rw [size_extract' _ _ _ (by omega) (by omega)]; omega
  have hLv : ∀ k : Int, 0 ≤ k → k < m →
      g (parameters.extract 1 (1 + m.toNat)) k = g parameters (1 + k) := by
    intro k h0 h1
    rw [g_extract _ _ _ k h0 (by omega) (by omega)]; rfl
  have hUs : ((parameters.extract (1 + m.toNat) parameters.size).size : Int) = m := by
    rw [size_extract' _ _ _ (Nat.le_refl _) (by omega)]; omega
  have hUv : ∀ k : Int, 0 ≤ k → k < m →
      g (parameters.extract (1 + m.toNat) parameters.size) k = g parameters (1 + m + k) := by
    intro k h0 h1
    rw [g_extract _ _ _ k h0 (by omega) (Nat.le_refl _)]
    congr 1; omega
  obtain ⟨l, hel, hpl, _, hstepL, hdsL⟩ := init_partial_sum_sem (g parameters 0) m _ (by omega) hLs
    (fun k h0 h1 => by rw [hLv k h0 h1]; exact hl k h0 h1)
  obtain ⟨u, heu, hpu, hstrict, hstepU, _⟩ := init_partial_sum_sem (g parameters 0) m _ (by omega) hUs
    (fun k h0 h1 => by rw [hUv k h0 h1]; have := hu k h0 h1; omega)
  have hus : PSStrict u m := hstrict (fun k h0 h1 => by rw [hUv k h0 h1]; exact hu k h0 h1)
  -- the sorted index arrays
  obtain ⟨hs1, hr1, hj1, ho1⟩ := argsort_spec (domains.map (·.1))
  obtain ⟨hs2, hr2, hj2, ho2⟩ := argsort_spec (domains.map (·.2))
  simp only [Array.size_map] at hs1 hr1 hj1 ho1 hs2 hr2 hj2 ho2
  obtain ⟨hpermU0, hsortU0⟩ := AllDiff.argsort_list (domains.map (·.1))
  obtain ⟨hpermL0, hsortL0⟩ := AllDiff.argsort_list (domains.map (·.2))
  simp only [Array.size_map] at hpermU0 hpermL0
  rw [← argsort_eq] at hpermU0 hpermL0 hsortU0 hsortL0
  have hctx : AllDiff.UBCtx domains.size domains (argsort (domains.map (·.1)))
      (argsort (domains.map (·.2))) := by
    rw [argsort_eq, argsort_eq]
    exact AllDiff.ubctx_of_argsort domains hn (fun v h0 h1 => (hdom v h0 h1).2.1)
  have hszI : (((2 * (domains.size : Int) + 2).toNat : Nat) : Int) = 2 * (domains.size : Int) + 2 := by
    omega
  obtain ⟨⟨nb, bounds, ranks⟩, hub, hnb1, hnb2, hbs, hrs, hb, hranks⟩ :=
    update_bounds_spec hctx hpl hpu hdom hszI
      (Array.replicate (2 * (domains.size : Int) + 2).toNat 0)
      (Array.replicate (domains.size : Int).toNat (0, 0)) (by simp) (by simp) hj1 hj2
  simp only at hnb1 hnb2 hbs hrs hb hranks
  generalize hmins : argsort (domains.map (·.1)) = mins at *
  generalize hmaxs : argsort (domains.map (·.2)) = maxs at *
  have hrkOK : RanksOK (nb + 1) (domains.size : Int) bounds ranks domains := by
    intro v h0 h1
    have := hranks v h0 h1
    omega
  have hdom' : ∀ v, 0 ≤ v → v < (domains.size : Int) →
      g parameters 0 ≤ (g2 domains v).1 ∧ (g2 domains v).2 ≤ g parameters 0 + m - 1 :=
    fun v h0 h1 => ⟨(hdom v h0 h1).1, (hdom v h0 h1).2.2⟩
  have hpermL : maxs.toList.Perm (rangeUp 0 (domains.size : Int)) := by
    rw [rangeUp_eq]; exact hpermL0
  have hpermM : mins.toList.Perm (rangeUp 0 (domains.size : Int)) := by
    rw [rangeUp_eq]; exact hpermU0
  have hmemL : ∀ v ∈ maxs.toList, 0 ≤ v ∧ v < (domains.size : Int) := by
    intro v hv
    have := hpermL.mem_iff.1 hv
    rwa [mem_rangeUp] at this
  have hnodupL : maxs.toList.Nodup := by
    rw [rangeUp_eq] at hpermL
    exact (hpermL.nodup_iff).2 (AllDiff.nodup_rangeUp _ _)
  unfold compute_domains_gcc
  simp only []
  rw [hpm, rd_ok parameters 0 (by omega) (by omega), ok_bind, hel, ok_bind,
    ok_bind, heu, ok_bind, hmins, hmaxs, hub, ok_bind]
  simp only []
  have hm0 := hr1 0 (by omega) (by omega)
  have hx0 := hr2 ((domains.size : Int) - 1) (by omega) (by omega)
  have hd0 := hdom _ hm0.1 hm0.2
  have hdx := hdom _ hx0.1 hx0.2
  rw [get_min_value_ok hpl, ok_bind, rd_ok _ 0 (by omega) (by omega), ok_bind,
    rd2_min_ok domains _ hm0.1 hm0.2, ok_bind,
    get_sum_ok hpl _ _ (by omega) (by omega) (by omega) (by omega), ok_bind]
  -- abbreviations
  have hvL : ∀ j, 0 ≤ j → j < m → g (parameters.extract 1 (1 + m.toNat)) j =
      (fun j => g parameters (1 + j)) j := fun j h0 h1 => hLv j h0 h1
  have hvU : ∀ j, 0 ≤ j → j < m → g (parameters.extract (1 + m.toNat) parameters.size) j =
      (fun j => g parameters (1 + m + j)) j := fun j h0 h1 => hUv j h0 h1
  have hminall : ∀ v, 0 ≤ v → v < (domains.size : Int) →
      (g2 domains (g mins 0)).1 ≤ (g2 domains v).1 := by
    intro v h0 h1
    obtain ⟨k, k0, k1, kv⟩ := hj1 v h0 h1
    have := ho1 0 k (by omega) k0 k1
    rw [AllDiff.g_map_fst domains _ hm0.1 hm0.2, kv, AllDiff.g_map_fst domains v h0 h1] at this
    exact this
  have hmaxall : ∀ v, 0 ≤ v → v < (domains.size : Int) →
      (g2 domains v).2 ≤ (g2 domains (g maxs ((domains.size : Int) - 1))).2 := by
    intro v h0 h1
    obtain ⟨k, k0, k1, kv⟩ := hj2 v h0 h1
    have := ho2 k ((domains.size : Int) - 1) k0 (by omega) (by omega)
    rw [AllDiff.g_map_snd domains _ hx0.1 hx0.2, kv, AllDiff.g_map_snd domains v h0 h1] at this
    exact this
  by_cases hc1 : gsum l (g parameters 0) ((g2 domains (g mins 0)).1 - 1) > 0
  · rw [if_pos hc1]
    exact ⟨.inc, domains, rfl, fun h => absurd rfl h⟩
  rw [if_neg hc1]
  rw [rd_ok _ ((domains.size : Int) - 1) (by omega) (by omega), ok_bind,
    rd2_max_ok domains _ hx0.1 hx0.2, ok_bind, get_max_value_ok hpl, ok_bind,
    get_sum_ok hpl _ _ (by omega) (by omega) (by omega) (by omega), ok_bind]
  by_cases hc2 : gsum l ((g2 domains (g maxs ((domains.size : Int) - 1))).2 + 1)
      (g parameters 0 + m - 1) > 0
  · rw [if_pos hc2]
    exact ⟨.inc, domains, rfl, fun h => absurd rfl h⟩
  rw [if_neg hc2]
  -- facts shared by the four passes
  have hNeq : nb = nb + 1 - 1 := by omega
  have hrsN : ranks.size = domains.size := by omega
  have hrk3 : ∀ v : Int, 0 ≤ v → v < (domains.size : Int) →
      1 ≤ (g2 ranks v).1 ∧ (g2 ranks v).1 < (g2 ranks v).2 ∧ (g2 ranks v).2 < nb + 1 := by
    intro v h0 h1
    have := hranks v h0 h1
    omega
  have hsortedI : ∀ i i' : Int, 0 ≤ i → i ≤ i' → i' < (domains.size : Int) →
      (g2 ranks (g maxs i)).2 ≤ (g2 ranks (g maxs i')).2 := by
    intro i i' h0 h1 h2
    have hv := hr2 i h0 (by omega)
    have hv' := hr2 i' (by omega) h2
    have hk := hranks _ hv.1 hv.2
    have hk' := hranks _ hv'.1 hv'.2
    have hle := ho2 i i' h0 h1 h2
    rw [AllDiff.g_map_snd domains _ hv.1 hv.2, AllDiff.g_map_snd domains _ hv'.1 hv'.2] at hle
    by_cases hc : (g2 ranks (g maxs i)).2 ≤ (g2 ranks (g maxs i')).2
    · exact hc
    · have := hb.lt' _ _ (by omega) (Int.lt_of_not_ge hc) (by omega)
      omega
  have hsortedL : maxs.toList.Pairwise (fun a b => (g2 ranks a).2 ≤ (g2 ranks b).2) := by
    refine hsortL0.imp_of_mem ?_
    intro a b ha hb' hab
    have hma := hmemL a ha
    have hmb := hmemL b hb'
    rw [AllDiff.g_map_snd domains a hma.1 hma.2, AllDiff.g_map_snd domains b hmb.1 hmb.2] at hab
    have ra := hranks a hma.1 hma.2
    have rb := hranks b hmb.1 hmb.2
    by_cases hle : (g2 ranks a).2 ≤ (g2 ranks b).2
    · exact hle
    · have := hb.lt' (g2 ranks b).2 (g2 ranks a).2 (by omega) (by omega) (by omega)
      omega
  have hctxL : AllDiff.RankCtx (nb + 1) (K u (g parameters 0) bounds) (fun v => (g2 ranks v).1)
      (fun v => (g2 ranks v).2) maxs.toList := by
    refine ⟨by omega, fun i j h0 hij hj => K_strict hpu hus hb i j h0 hij hj, ?_⟩
    intro v hv
    have hm' := hmemL v hv
    exact hrk3 v hm'.1 hm'.2
  -- pass 1
  obtain ⟨⟨ok1, t1, d1, h1, dom1⟩, hf1, hfail1, hp1⟩ := filter_lower_max_sem
    (sz := (2 * (domains.size : Int) + 2).toNat) hb hpu hus (domains.size : Int)
    (Array.replicate (2 * (domains.size : Int) + 2).toNat 0)
    (Array.replicate (2 * (domains.size : Int) + 2).toNat 0)
    (Array.replicate (2 * (domains.size : Int) + 2).toNat 0)
    domains ranks maxs (by simp) (by simp) (by simp) (by omega) hrsN hmemL hctxL hnodupL hsortedL
    (by
      intro v hv
      have hm' := hmemL v hv
      exact (hranks v hm'.1 hm'.2).2.2.2.1.symm)
  rw [← hNeq] at hf1
  rw [hf1, ok_bind]
  simp only at hfail1 hp1 ⊢
  cases ok1 with
  | false =>
    exact ⟨.inc, dom1, rfl, fun h => absurd rfl h⟩
  | true =>
    obtain ⟨hs11, hs12, hs13, hpost1⟩ := hp1 rfl
    simp only [Bool.not_true, Bool.false_eq_true, if_false]
    -- pass 2
    obtain ⟨⟨ok2, t2, d2, h2, dom2, stbl2, pot2, nm2⟩, hf2, hp2, U, sf, bf, wf, hout2, hcfL⟩ :=
      filter_lower_min_semK
      (sz := (2 * (domains.size : Int) + 2).toNat) hb hpl (domains.size : Int) t1 d1 h1 dom1 ranks
      maxs
      (Array.replicate (2 * (domains.size : Int) + 2).toNat 0)
      (Array.replicate (2 * (domains.size : Int) + 2).toNat 0)
      (Array.replicate (domains.size : Int).toNat 0)
      hs11 hs12 hs13 (by simp) (by simp) (by omega) (by rw [hpost1.size]; omega) (by omega)
      (by simp)
      (by
        intro k h0 h1'
        rw [g_replicate0]
        omega)
      (fun i h0 h1' => by have := hr2 i h0 h1'; rw [hpost1.size]; omega)
      (by
        intro v h0 h1'
        exact hrk3 v h0 (by omega))
      hnodupL hsortedI
    rw [← hNeq] at hf2
    rw [hf2, ok_bind]
    simp only at hp2 hout2 hcfL ⊢
    cases ok2 with
    | false =>
      exact ⟨.inc, dom2, rfl, fun h => absurd rfl h⟩
    | true =>
      obtain ⟨hs21, hs22, hs23, hs24, hs25, hs26, hnm2⟩ := hp2 rfl
      simp only [Bool.not_true, Bool.false_eq_true, if_false]
      -- the variables by decreasing minimum
      have hallU : (rangeDown ((domains.size : Int) - 1) (-1)).map (g mins) =
          mins.toList.reverse := by
        rw [rangeDown_eq]; exact AllDiff.rangeDown_map_g _ _ (by omega)
      generalize hUdef : mins.toList.reverse = allU at hallU
      have hpermU : allU.Perm (rangeUp 0 (domains.size : Int)) := by
        rw [← hUdef]; exact (List.reverse_perm _).trans hpermM
      have hmemU : ∀ v ∈ allU, 0 ≤ v ∧ v < (domains.size : Int) := by
        intro v hv
        have := (hpermU.mem_iff).1 hv
        rwa [mem_rangeUp] at this
      have hmemU0 : ∀ v ∈ mins.toList, 0 ≤ v ∧ v < (domains.size : Int) := by
        intro v hv
        have := (hpermM.mem_iff).1 hv
        rwa [mem_rangeUp] at this
      have hnodupU : allU.Nodup := by
        rw [rangeUp_eq] at hpermU
        exact (hpermU.nodup_iff).2 (AllDiff.nodup_rangeUp _ _)
      have hsortedU : allU.Pairwise (fun a b => (g2 ranks b).1 ≤ (g2 ranks a).1) := by
        rw [← hUdef, List.pairwise_reverse]
        refine hsortU0.imp_of_mem ?_
        intro a b ha hb' hab
        have hma := hmemU0 a ha
        have hmb := hmemU0 b hb'
        rw [AllDiff.g_map_fst domains a hma.1 hma.2, AllDiff.g_map_fst domains b hmb.1 hmb.2] at hab
        have ra := hranks a hma.1 hma.2
        have rb := hranks b hmb.1 hmb.2
        by_cases hle : (g2 ranks a).1 ≤ (g2 ranks b).1
        · exact hle
        · have := hb.lt' (g2 ranks b).1 (g2 ranks a).1 (by omega) (by omega) (by omega)
          omega
      -- the maxima are still the original ones
      have hmax2 : ∀ v, 0 ≤ v → v < (domains.size : Int) → (g2 dom2 v).2 = (g2 domains v).2 := by
        intro v h0 h1'
        obtain ⟨k, k0, k1, kv⟩ := hj2 v h0 h1'
        have := (hout2.dom rfl k k0 k1).1
        rw [kv] at this
        rw [this, hpost1.maxs v h0]
      have hd2s : dom2.size = domains.size := by rw [hs24, hpost1.size]
      -- pass 3
      obtain ⟨⟨ok3, t3, d3, h3, dom3⟩, hf3, hfail3, hp3⟩ := filter_upper_max_sem
        (sz := (2 * (domains.size : Int) + 2).toNat) hb hpu hus (domains.size : Int) t2 d2 h2 dom2 ranks
        mins hs21 hs22 hs23 (by omega) (by omega) (by omega)
        (fun i h0 h1' => by have := hr1 i h0 h1'; omega)
        allU hallU.symm
        (by
          intro v hv
          have hm' := hmemU v hv
          have := hranks v hm'.1 hm'.2
          omega)
        hnodupU hsortedU
        (by
          intro v hv
          have hm' := hmemU v hv
          rw [hmax2 v hm'.1 hm'.2]
          exact (hranks v hm'.1 hm'.2).2.2.2.2.symm)
      rw [hf3, ok_bind]
      simp only at hfail3 hp3 ⊢
      cases ok3 with
      | false =>
        exact ⟨.inc, dom3, rfl, fun h => absurd rfl h⟩
      | true =>
        obtain ⟨hs31, hs32, hs33, hpost3⟩ := hp3 rfl
        simp only [Bool.not_true, Bool.false_eq_true, if_false]
        have hd3s : dom3.size = domains.size := by rw [hpost3.size, hd2s]
        -- pass 4
        obtain ⟨⟨ok4, t4, d4, h4, dom4, nm4⟩, hf4, hok4, hs4, U', sf', wf', hout4, hcfU⟩ :=
          filter_upper_min_semK
          (sz := (2 * (domains.size : Int) + 2).toNat) hb hpl (domains.size : Int) t3 d3 h3 dom3 ranks
          mins stbl2 nm2 hs31 hs32 hs33 hs25 (by omega) (by omega) (by omega)
          hs26 (nmok_of_nmok' hnm2)
          (fun i h0 h1' => by have := hr1 i h0 h1'; omega)
          (by
            intro v h0 h1'
            have := hranks v h0 (by omega)
            omega)
          allU hallU.symm hnodupU hsortedU
        rw [hf4, ok_bind]
        simp only at hok4 hs4 hout4 hcfU ⊢
        subst hok4
        simp only [Bool.not_true, Bool.false_eq_true, if_false]
        -- the final domains: minima from pass 2, maxima from pass 4
        have hmin4 : ∀ v, 0 ≤ v → v < (domains.size : Int) → (g2 dom4 v).1 = (g2 dom2 v).1 := by
          intro v h0 h1'
          obtain ⟨k, k0, k1, kv⟩ := hj1 v h0 h1'
          have := (hout4.dom k k0 k1).1
          rw [kv] at this
          rw [this, hpost3.mins v h0]
        have hsize4 : dom4.size = domains.size := by
          rw [hs4, hd3s]
        refine ⟨.cons, dom4, rfl, fun _ => ?_⟩
        -- the matching of `filter_lower_min` with its freeability information
        obtain ⟨r', hr', hfreeA⟩ := filter_lower_min_free
          (sz := (2 * (domains.size : Int) + 2).toNat) hb hpl (domains.size : Int) t1 d1 h1 dom1 ranks
          maxs
          (Array.replicate (2 * (domains.size : Int) + 2).toNat 0)
          (Array.replicate (2 * (domains.size : Int) + 2).toNat 0)
          (Array.replicate (domains.size : Int).toNat 0)
          hs11 hs12 hs13 (by simp) (by simp) (by omega) (by rw [hpost1.size]; omega) (by omega)
          (by simp)
          (by
            intro k h0 h1'
            rw [g_replicate0]
            omega)
          (fun i h0 h1' => by have := hr2 i h0 h1'; rw [hpost1.size]; omega)
          (by
            intro v h0 h1'
            exact hrk3 v h0 (by omega))
          hnodupL hsortedI
        rw [← hNeq, hf2] at hr'
        have hr'' : r' = (true, t2, d2, h2, dom2, stbl2, pot2, nm2) := by
          injection hr' with h'; exact h'.symm
        subst hr''
        obtain ⟨UA, cfA, hUAsub, hcfA, hcntA, hfrA⟩ := hfreeA rfl
        simp only at hfrA
        intro v h0 h1' val hval
        have hxL := lctx_of hb hpl hstepL hvL hpermL hrkOK hτ0
        have hxU1 := uctx_lower hb hpu hstepU hvU hpermL hrkOK hdom' hτ0
        have hxU3 := uctx_upper hb hpu hstepU hvU hpermU hrkOK hdom' hτ0
        have hvL' : v ∈ maxs.toList := hpermL.mem_iff.2 (by rw [mem_rangeUp]; exact ⟨h0, h1'⟩)
        have hvU' : v ∈ allU := hpermU.mem_iff.2 (by rw [mem_rangeUp]; exact ⟨h0, h1'⟩)
        have hfin := lfin_of_out hb hpl hout2 hnodupL hxL.rk
        have hrv := hrk3 v h0 h1'
        obtain ⟨k, k0, k1, kv⟩ := hj2 v h0 h1'
        obtain ⟨k', k0', k1', kv'⟩ := hj1 v h0 h1'
        have hd2 := hout2.dom rfl k k0 k1
        have hd4 := hout4.dom k' k0' k1'
        rw [kv] at hd2
        rw [kv'] at hd4
        have hcond := cond_iff_not_stv rfl hout2 _ _ hrv.1 hrv.2.1 hrv.2.2
        have hrm := hrkOK _ hm0.1 hm0.2
        have hrx := hrkOK _ hx0.1 hx0.2
        have hmn1 := hb.le' 1 (g2 ranks (g mins 0)).1 (by omega) (by omega) (by omega)
        have hmx1 := hb.le' (g2 ranks (g maxs ((domains.size : Int) - 1))).2 (nb + 1 - 1) (by omega)
          (by omega) (by omega)
        by_cases hst : StV bf (fun v => (g2 ranks v).1) (fun v => (g2 ranks v).2) v
        · -- a stable variable is unused or freeable
          have hnc : ¬ (g stbl2 (g2 ranks v).1 ≤ (g2 ranks v).1 ∨
              (g2 ranks v).2 > g stbl2 (g2 ranks v).1) := fun hc => hcond.1 hc hst
          have e1 : (g2 dom4 v).1 = (g2 dom1 v).1 := by rw [hmin4 v h0 h1']; exact hd2.2.2 hnc
          have e2 : (g2 dom4 v).2 = (g2 dom3 v).2 := hd4.2.2 hnc
          obtain ⟨a1, a2⟩ := upass_prune hxU1 v _ hvL' (hpost1.fact v hvL')
          obtain ⟨c1, c2⟩ := upass_prune hxU3 v _ hvU' (hpost3.fact v hvU')
          have hτv := hτ0.dom v h0 h1'
          have hfree : v ∉ UA ∨ Freeable (fun v => (g2 ranks v).1) (fun v => (g2 ranks v).2) cfA
              maxs.toList UA v := by
            by_cases hin : v ∈ UA
            · right
              refine hfrA v hin (fun q q1 q2 => ?_)
              have := (hout2.stbl rfl q (by omega) (by omega)).2 (hst q q1 q2)
              omega
            · exact Or.inl hin
          have hbnd : (g2 domains v).1 ≤ val ∧ val ≤ (g2 domains v).2 := by
            rcases hval with hval | hval
            · rw [hval, e1]; constructor <;> omega
            · rw [hval, e2]; constructor <;> omega
          exact lsup_free_core hb hpl hstepL hvL hpermL hnodupL hrkOK hUAsub hcfA hcntA
            (mn := (g2 domains (g mins 0)).1) (mx := (g2 domains (g maxs ((domains.size : Int) - 1))).2)
            (by omega) (by omega) hc1 (by omega) (by omega) hc2 v h0 h1' hfree val hbnd.1 hbnd.2
        · -- a variable that is not stable: its bounds come from the lower-capacity passes
          have hc : g stbl2 (g2 ranks v).1 ≤ (g2 ranks v).1 ∨
              (g2 ranks v).2 > g stbl2 (g2 ranks v).1 := hcond.2 hst
          have hvU : v ∈ U := by
            by_cases h : v ∈ U
            · exact h
            · exact absurd (hfin.f v hvL' h) hst
          obtain ⟨Y, tf, df, hsem⟩ := hout2.sem
          rcases hval with hval | hval
          · have hsk := hd2.2.1 hc
            have hnm := hout2.nm rfl k k0 k1 (by rw [kv]; exact hvU)
            rw [kv] at hnm
            rw [hnm] at hsk
            rw [hval, hmin4 v h0 h1']
            exact lsup_ns_min_core hb hpl hdsL hstepL hvL hpermL hnodupL hrkOK hfin hτ0
              (mn := (g2 domains (g mins 0)).1)
              (mx := (g2 domains (g maxs ((domains.size : Int) - 1))).2)
              (by omega) (by omega) hc1 (by omega) (by omega) hc2 v h0 h1' hvU hst
              (hsem.nmf v hvU) (hcfL v hvU) _ hsk
          · have hsk := hd4.2.1 hc
            rw [hval]
            exact lsup_ns_max_core hb hpl hdsL hstepL hvL hpermL hnodupL hrkOK hfin hτ0
              (mn := (g2 domains (g mins 0)).1)
              (mx := (g2 domains (g maxs ((domains.size : Int) - 1))).2)
              (by omega) (by omega) hc1 (by omega) (by omega) hc2 hout4 hcfU
              (hpermU.trans hpermL.symm) hnodupU v h0 h1' hst k' k0' k1' kv' _ hsk

end Gcc
end Nucs
