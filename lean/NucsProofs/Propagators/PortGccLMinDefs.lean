import NucsProofs.Propagators.PortGccCtx
/-!
  `filter_lower_min` of the ported gcc as a composition of named pieces.
-/
namespace Nucs
namespace Gcc

open AllDiff (g upd g2 upd2 ok_bind pure_eq_ok except_bind_ok forIn_list_except range_forIn_eq
  size_upd size_upd2 g_upd g_upd_same g_upd_ne)

/-- state of the first initialisation loop: `c, sets, stbl_intervals, pot_stbl_sets, w` -/
abbrev I1St := Array Int × Array Int × Array Int × Array Int × Int

/-- body of the first initialisation loop -/
def lminInit1 (bounds : Array Int) (l : PSum) (i : Int) (s : I1St) : Except Err (ForInStep I1St) := do
  let pot ← wr s.2.2.2.1 i (i - 1)
  let stbl ← wr s.2.2.1 i (i - 1)
  let c ← wr s.1 i (← get_sum l (← rd bounds (i - 1)) ((← rd bounds i) - 1))
  if (← rd c i) == 0 then
    let sets ← wr s.2.1 (i - 1) s.2.2.2.2
    pure (ForInStep.yield (c, sets, stbl, pot, s.2.2.2.2))
  else
    let sets ← wr s.2.1 s.2.2.2.2 (i - 1)
    pure (ForInStep.yield (c, sets, stbl, pot, i - 1))

/-- body of the second initialisation loop; state `tl, w` -/
def lminInit2 (c : Array Int) (i : Int) (s : Array Int × Int) :
    Except Err (ForInStep (Array Int × Int)) := do
  if (← rd c i) == 0 then
    let tl ← wr s.1 i s.2
    pure (ForInStep.yield (tl, s.2))
  else
    let tl ← wr s.1 s.2 i
    pure (ForInStep.yield (tl, i))

/-- state of the main loop: `tl, c, sets, stbl_intervals, pot_stbl_sets, new_mins, w` -/
abbrev MSt := Array Int × Array Int × Array Int × Array Int × Array Int × Array Int × Int

/-- the last statement of the main loop body: path compression in `tl` -/
def lminFin (x : Int) (pot : Array Int) (tl c sets stbl new_mins : Array Int) (w z : Int) :
    Except Err (ForInStep MSt) := do
  let tl ← path_set tl (x + 1) z z
  pure (ForInStep.yield (tl, c, sets, stbl, pot, new_mins, w))

/-- a stable set is discovered -/
def lminStable (x y z : Int) (pot tl c sets stbl new_mins : Array Int) : Except Err (ForInStep MSt) := do
  let w ← path_max stbl (← rd pot y)
  let stbl ← path_set stbl (← rd pot y) w w
  let v ← rd stbl w
  let stbl ← path_set stbl (← rd stbl y) v y
  let stbl ← wr stbl y v
  lminFin x pot tl c sets stbl new_mins w z

/-- marking of a new unstable set -/
def lminMark (x j : Int) (pot tl c stbl new_mins : Array Int) (w z : Int) (sets : Array Int) (y : Int) :
    Except Err (ForInStep MSt) := do
  let sets ← path_set sets (← rd sets y) (j - 1) y
  let sets ← wr sets y (j - 1)
  lminFin x pot tl c sets stbl new_mins w z

/-- the test "an unstable set is discovered" -/
def lminUnstable (bounds : Array Int) (l : PSum) (x y j : Int) (pot c stbl : Array Int)
    (tl : Array Int) (z : Int) (sets new_mins : Array Int) (w : Int) : Except Err (ForInStep MSt) := do
  if (← rd c z) == (← get_sum l (← rd bounds y) ((← rd bounds z) - 1)) then
    if (← rd sets y) > y then
      let y ← rd sets y
      lminMark x j pot tl c stbl new_mins w z sets y
    else lminMark x j pot tl c stbl new_mins w z sets y
  else lminFin x pot tl c sets stbl new_mins w z

/-- recording the candidate new minimum -/
def lminNewMin (bounds : Array Int) (l : PSum) (i x y j : Int) (pot c stbl sets new_mins : Array Int)
    (w : Int) (tl : Array Int) (z : Int) : Except Err (ForInStep MSt) := do
  if (← rd sets x) > x then
    let w ← path_max sets x
    let new_mins ← wr new_mins i w
    let sets ← path_set sets x w w
    lminUnstable bounds l x y j pot c stbl tl z sets new_mins w
  else
    let new_mins ← wr new_mins i x
    lminUnstable bounds l x y j pot c stbl tl z sets new_mins w

/-- the capacity of `z` is decreased -/
def lminElse (bounds : Array Int) (l : PSum) (i x y j z : Int)
    (pot tl c sets stbl new_mins : Array Int) (w : Int) : Except Err (ForInStep MSt) := do
  let c ← wr c z ((← rd c z) - 1)
  if (← rd c z) == 0 then
    let tl ← wr tl z (z + 1)
    let z ← path_max tl (← rd tl z)
    let tl ← wr tl z j
    lminNewMin bounds l i x y j pot c stbl sets new_mins w tl z
  else lminNewMin bounds l i x y j pot c stbl sets new_mins w tl z

/-- the main test -/
def lminTest (bounds : Array Int) (l : PSum) (i x y z j : Int) (tl c sets stbl new_mins : Array Int)
    (pot : Array Int) (w : Int) : Except Err (ForInStep MSt) := do
  if (← rd c z) ≤ (← get_sum l (← rd bounds y) ((← rd bounds z) - 1)) then
    lminStable x y z pot tl c sets stbl new_mins
  else lminElse bounds l i x y j z pot tl c sets stbl new_mins w

/-- the update of `pot_stbl_sets` when `x + 1` has no capacity left; `kont` is the rest of the body -/
def lminPot {β : Type} (x y z : Int) (pot : Array Int) (kont : Array Int → Int → Except Err β) :
    Except Err β := do
  let w ← path_max pot (x + 1)
  let v ← rd pot w
  let pot ← path_set pot (x + 1) w w
  let w := min y z
  let pot ← path_set pot (← rd pot w) v w
  let pot ← wr pot w v
  kont pot w

/-- body of the main loop -/
def lminBody (bounds : Array Int) (ranks : Arr2) (msv : Array Int) (l : PSum) (i : Int) (s : MSt) :
    Except Err (ForInStep MSt) := do
  let tl := s.1
  let c := s.2.1
  let sets := s.2.2.1
  let stbl := s.2.2.2.1
  let pot := s.2.2.2.2.1
  let new_mins := s.2.2.2.2.2.1
  let w := s.2.2.2.2.2.2
  let v ← rd msv i
  let x ← rd2 ranks v MIN
  let y ← rd2 ranks v MAX
  let z ← path_max tl (x + 1)
  let j ← rd tl z
  if z != x + 1 then
    lminPot x y z pot (fun pot w => lminTest bounds l i x y z j tl c sets stbl new_mins pot w)
  else lminTest bounds l i x y z j tl c sets stbl new_mins pot w

/-- body of the linear-time compression of `stbl_intervals`; state `stbl_intervals, w` -/
def lminComp (i : Int) (s : Array Int × Int) : Except Err (ForInStep (Array Int × Int)) := do
  if (← rd s.1 i) > i then
    let stbl ← wr s.1 i s.2
    pure (ForInStep.yield (stbl, s.2))
  else pure (ForInStep.yield (s.1, i))

/-- body of the final loop: shrink the lower bounds -/
def lminShrink (bounds : Array Int) (ranks : Arr2) (msv : Array Int) (l : PSum)
    (stbl new_mins : Array Int) (i : Int) (domains : Arr2) : Except Err (ForInStep Arr2) := do
  let v ← rd msv i
  let x ← rd2 ranks v MIN
  let y ← rd2 ranks v MAX
  if (← rd stbl x) ≤ x ∨ y > (← rd stbl x) then
    let domains ← wr2 domains v MIN
      (← skip_non_null_elements_right l (← rd bounds (← rd new_mins i)))
    pure (ForInStep.yield domains)
  else pure (ForInStep.yield domains)

theorem filter_lower_min_eq (n nb : Int) (tl c sets bounds : Array Int) (domains ranks : Arr2)
    (msv : Array Int) (l : PSum) (stbl pot new_mins : Array Int) :
    filter_lower_min n nb tl c sets bounds domains ranks msv l stbl pot new_mins =
      (do
        let s1 ← forIn (rangeDown (nb + 1) 0) ((c, sets, stbl, pot, nb + 1) : I1St) (lminInit1 bounds l)
        let s2 ← forIn (rangeDown (nb + 1) (-1)) (tl, nb + 1) (lminInit2 s1.1)
        let s3 ← forIn (rangeUp 0 msv.size)
          ((s2.1, s1.1, s1.2.1, s1.2.2.1, s1.2.2.2.1, new_mins, s2.2) : MSt)
          (lminBody bounds ranks msv l)
        if (← rd s3.2.2.1 nb) != 0 then
          pure (false, s3.1, s3.2.1, s3.2.2.1, domains, s3.2.2.2.1, s3.2.2.2.2.1, s3.2.2.2.2.2.1)
        else
          let s4 ← forIn (rangeDown (nb + 1) 0) (s3.2.2.2.1, s3.2.2.2.2.2.2) lminComp
          let s5 ← forIn (rangeDown (n - 1) (-1)) domains
            (lminShrink bounds ranks msv l s4.1 s3.2.2.2.2.2.1)
          pure (true, s3.1, s3.2.1, s3.2.2.1, s5, s4.1, s3.2.2.2.2.1, s3.2.2.2.2.2.1)) := by
  rfl

end Gcc
end Nucs
