import NucsProofs.Propagators.GccLbcDefs
/-!
  A FREEABLE variable can be given ANY value of its domain in an assignment meeting all the lower
  capacities (pure combinatorics, no algorithm).

  Setting of `lower_hall_of_cells`: a matching of the demand at the level of the cells (`U`, `cf`).
  Instead of shifting the matching along the alternating chain, Hall's condition of the instance
  in which the domain of `k` is `[v, v]` is proved directly: for a set `R` of values, the demand of
  `R` is at most the number of the used variables whose cell meets `R` (`lower_hall_of_cells` for
  the instance `all := U`, domain of `u` := the cell `cf u`); if `k` is one of them, walking the
  chain backwards from `k` finds a variable whose domain meets `R` and which is not one of them
  (`free_extra`), and it replaces `k` in the count (`countP_swap_le`).  Then `gcc_mix`.
-/
namespace Nucs
namespace Gcc

/-- walking the alternating chain backwards: if the freeable `q` covers a cell `c` of `Q`, some
    variable covers a cell of `Q` and is not a used variable holding a cell of `Q` -/
theorem free_extra {rx ry cf : Int → Int} {all U : List Int} (hU : ∀ u ∈ U, u ∈ all)
    (Q : Int → Bool) : ∀ q, Freeable rx ry cf all U q → ∀ c, rx q < c → c ≤ ry q → Q c = true →
      ∃ x, x ∈ all ∧ (∃ c', rx x < c' ∧ c' ≤ ry x ∧ Q c' = true) ∧
        ¬ (x ∈ U ∧ Q (cf x) = true) := by
  intro q h
  induction h with
  | unused p hp hpU =>
    intro c h1 h2 h3
    exact ⟨p, hp, ⟨c, h1, h2, h3⟩, fun h => hpU h.1⟩
  | step q u _ hu g1 g2 ih =>
    intro c h1 h2 h3
    by_cases hq : Q (cf u) = true
    · exact ih (cf u) g1 g2 hq
    · exact ⟨u, hU u hu, ⟨c, h1, h2, h3⟩, fun h => hq h.2⟩

theorem countP_eq_nodup {L : List Int} (hn : L.Nodup) (k : Int) :
    L.countP (fun p => decide (p = k)) = if k ∈ L then 1 else 0 := by
  have h := hn.count (a := k)
  rw [← h]
  unfold List.count
  apply List.countP_congr
  intro p _
  simp

/-- `x` replaces `k` in the count -/
theorem countP_swap_le {L : List Int} (hn : L.Nodup) (q1 q2 : Int → Bool) (k x : Int)
    (hx : x ∈ L) (himp : ∀ p ∈ L, p ≠ k → q1 p = true → q2 p = true)
    (hx1 : q1 x = false) (hx2 : q2 x = true) : L.countP q1 ≤ L.countP q2 := by
  have a : L.countP (fun p => (q1 p && !decide (p = k)) || decide (p = x)) ≤ L.countP q2 := by
    apply List.countP_mono_left
    intro p hp h
    simp only [Bool.or_eq_true, Bool.and_eq_true, Bool.not_eq_true', decide_eq_false_iff_not,
      decide_eq_true_eq] at h
    rcases h with ⟨h1, h2⟩ | h
    · exact himp p hp h2 h1
    · rw [h]; exact hx2
  have b := mix_countP_union (L := L)
    (q := fun p => (q1 p && !decide (p = k)) || decide (p = x))
    (q1 := fun p => q1 p && !decide (p = k)) (q2 := fun p => decide (p = x))
    (fun p _ => rfl) (fun p _ h1 h2 => by
      simp only [decide_eq_true_eq] at h2
      subst h2
      rw [hx1] at h1; simp at h1)
  have c := mix_countP_union (L := L) (q := q1)
    (q1 := fun p => q1 p && !decide (p = k)) (q2 := fun p => q1 p && decide (p = k))
    (fun p _ => by cases q1 p <;> cases decide (p = k) <;> rfl)
    (fun p _ h1 h2 => by cases hd : decide (p = k) <;> simp [hd] at h1 h2)
  have d : L.countP (fun p => q1 p && decide (p = k)) ≤ L.countP (fun p => decide (p = k)) := by
    apply List.countP_mono_left
    intro p _ h
    simp only [Bool.and_eq_true] at h
    exact h.2
  have e1 := countP_eq_nodup hn k
  have e2 := countP_eq_nodup hn x
  rw [if_pos hx] at e2
  have e3 : (if k ∈ L then 1 else 0) ≤ 1 := by split <;> omega
  omega

/-- the demand of a set `R` of values is at most the number of the used variables whose cell
    meets `R` -/
theorem lower_hall_cells_U {N : Int} (hN : 2 ≤ N) (bnd : Int → Int)
    (hbnd : ∀ i j, 0 ≤ i → i < j → j ≤ N → bnd i < bnd j)
    (all U : List Int) (hsub : U.Sublist all) (rx ry : Int → Int)
    (hrk : ∀ u ∈ all, 1 ≤ rx u ∧ rx u < ry u ∧ ry u ≤ N - 1)
    (cf : Int → Int) (hcf : ∀ u ∈ U, rx u < cf u ∧ cf u ≤ ry u)
    (cum l : Int → Int) (hl : ∀ v, cum (v + 1) - cum v = l v)
    (A B : Int) (hA : A ≤ bnd 1) (hB : bnd (N - 1) ≤ B)
    (hl0 : ∀ v, A ≤ v → v < B → 0 ≤ l v)
    (hcnt : ∀ r, 2 ≤ r → r ≤ N - 1 → occ cf U r = cum (bnd r) - cum (bnd (r - 1)))
    (hzlo : ∀ v, A ≤ v → v < bnd 1 → l v = 0) (hzhi : ∀ v, bnd (N - 1) ≤ v → v < B → l v = 0)
    (R : Int → Bool) :
    vsum (fun v => if R v = true then l v else 0) A B ≤
      ((U.countP (fun x => meetsB R (bnd (cf x - 1)) (bnd (cf x) - 1)) : Nat) : Int) := by
  refine lower_hall_of_cells hN bnd hbnd U U (List.Sublist.refl U) (fun u => cf u - 1) cf
    (fun u => bnd (cf u - 1)) (fun u => bnd (cf u) - 1) ?_ (fun _ _ => rfl) (fun _ _ => by omega)
    cf (fun u _ => by omega) cum l hl A B hA hB hl0 hcnt hzlo hzhi R
  intro u hu
  have h1 := hcf u hu
  have h2 := hrk u (hsub.subset hu)
  omega

/-- a variable covering a cell which meets `R` has a domain which meets `R` -/
theorem meets_of_cell {N : Int} (bnd : Int → Int)
    (hbnd : ∀ i j, 0 ≤ i → i < j → j ≤ N → bnd i < bnd j) (R : Int → Bool) (rxu ryu lou hiu c : Int)
    (h1 : 1 ≤ rxu) (h2 : ryu ≤ N - 1) (hlo : lou = bnd rxu) (hhi : hiu + 1 = bnd ryu)
    (hc1 : rxu < c) (hc2 : c ≤ ryu) (hm : meetsB R (bnd (c - 1)) (bnd c - 1) = true) :
    meetsB R lou hiu = true := by
  have hmono : ∀ i j, 0 ≤ i → i ≤ j → j ≤ N → bnd i ≤ bnd j := by
    intro i j h0 hij hj
    by_cases e : i = j
    · subst e; exact Int.le_refl _
    · exact Int.le_of_lt (hbnd i j h0 (by omega) hj)
  obtain ⟨v, hv1, hv2, hv3⟩ := (meetsB_iff R _ _).1 hm
  have g1 : bnd rxu ≤ bnd (c - 1) := hmono _ _ (by omega) (by omega) (by omega)
  have g2 : bnd c ≤ bnd ryu := hmono _ _ (by omega) (by omega) (by omega)
  exact (meetsB_iff R _ _).2 ⟨v, by omega, by omega, hv3⟩

/-- Hall's condition of the instance in which the domain of the freeable `k` is `[v, v]` -/
theorem free_hall {N : Int} (hN : 2 ≤ N) (bnd : Int → Int)
    (hbnd : ∀ i j, 0 ≤ i → i < j → j ≤ N → bnd i < bnd j)
    (all U : List Int) (hnodup : all.Nodup) (hsub : U.Sublist all) (rx ry lo hi : Int → Int)
    (hrk : ∀ u ∈ all, 1 ≤ rx u ∧ rx u < ry u ∧ ry u ≤ N - 1)
    (hlo : ∀ u ∈ all, lo u = bnd (rx u)) (hhi : ∀ u ∈ all, hi u + 1 = bnd (ry u))
    (cf : Int → Int) (hcf : ∀ u ∈ U, rx u < cf u ∧ cf u ≤ ry u)
    (cum l : Int → Int) (hl : ∀ v, cum (v + 1) - cum v = l v)
    (A B : Int) (hA : A ≤ bnd 1) (hB : bnd (N - 1) ≤ B)
    (hl0 : ∀ v, A ≤ v → v < B → 0 ≤ l v)
    (hcnt : ∀ r, 2 ≤ r → r ≤ N - 1 → occ cf U r = cum (bnd r) - cum (bnd (r - 1)))
    (hzlo : ∀ v, A ≤ v → v < bnd 1 → l v = 0) (hzhi : ∀ v, bnd (N - 1) ≤ v → v < B → l v = 0)
    (k : Int) (hfree : k ∉ U ∨ Freeable rx ry cf all U k) (v : Int) (R : Int → Bool) :
    vsum (fun w => if R w = true then l w else 0) A B ≤
      ((all.countP (fun x => meetsB R (if x = k then v else lo x) (if x = k then v else hi x)) :
        Nat) : Int) := by
  have h0 := lower_hall_cells_U hN bnd hbnd all U hsub rx ry hrk cf hcf cum l hl A B hA hB hl0
    hcnt hzlo hzhi R
  let Q : Int → Bool := fun c => meetsB R (bnd (c - 1)) (bnd c - 1)
  -- the count over `U` as a count over `all`
  have c1 : U.countP (fun x => Q (cf x)) ≤ all.countP (fun x => decide (x ∈ U) && Q (cf x)) := by
    have e : U.countP (fun x => Q (cf x)) = U.countP (fun x => decide (x ∈ U) && Q (cf x)) := by
      apply List.countP_congr
      intro p hp
      simp [hp]
    rw [e]
    exact hsub.countP_le
  -- a used variable other than `k` whose cell meets `R` has a domain which meets `R`
  have himp : ∀ p ∈ all, p ≠ k → (decide (p ∈ U) && Q (cf p)) = true →
      meetsB R (if p = k then v else lo p) (if p = k then v else hi p) = true := by
    intro p hp hpk h
    simp only [Bool.and_eq_true, decide_eq_true_eq] at h
    rw [if_neg hpk, if_neg hpk]
    have g1 := hrk p hp
    have g2 := hcf p h.1
    exact meets_of_cell bnd hbnd R (rx p) (ry p) (lo p) (hi p) (cf p) g1.1 g1.2.2 (hlo p hp)
      (hhi p hp) g2.1 g2.2 h.2
  have c2 : all.countP (fun x => decide (x ∈ U) && Q (cf x)) ≤
      all.countP (fun x => meetsB R (if x = k then v else lo x) (if x = k then v else hi x)) := by
    by_cases hk : k ∈ U ∧ Q (cf k) = true
    · -- `k` is replaced by a variable found along the chain
      have hfr : Freeable rx ry cf all U k := by
        rcases hfree with h | h
        · exact absurd hk.1 h
        · exact h
      have hex : ∃ x, x ∈ all ∧ (∃ c', rx x < c' ∧ c' ≤ ry x ∧ Q c' = true) ∧
          ¬ (x ∈ U ∧ Q (cf x) = true) := by
        cases hfr with
        | unused p _ hpU => exact absurd hk.1 hpU
        | step q u hq _ g1 g2 => exact free_extra (fun u hu => hsub.subset hu) Q q hq (cf k) g1 g2 hk.2
      obtain ⟨x, hx, ⟨c', d1, d2, d3⟩, hx2⟩ := hex
      have hxk : x ≠ k := by
        intro e; subst e; exact hx2 hk
      apply countP_swap_le hnodup _ _ k x hx himp
      · cases hq : (decide (x ∈ U) && Q (cf x))
        · rfl
        · exfalso
          simp only [Bool.and_eq_true, decide_eq_true_eq] at hq
          exact hx2 hq
      · show meetsB R (if x = k then v else lo x) (if x = k then v else hi x) = true
        rw [if_neg hxk, if_neg hxk]
        have g1 := hrk x hx
        exact meets_of_cell bnd hbnd R (rx x) (ry x) (lo x) (hi x) c' g1.1 g1.2.2 (hlo x hx)
          (hhi x hx) d1 d2 d3
    · apply List.countP_mono_left
      intro p hp h
      by_cases hpk : p = k
      · exfalso
        simp only [Bool.and_eq_true, decide_eq_true_eq] at h
        rw [hpk] at h
        exact hk h
      · exact himp p hp hpk h
  have h0' : vsum (fun v => if R v = true then l v else 0) A B ≤
      ((U.countP (fun x => Q (cf x)) : Nat) : Int) := h0
  omega

theorem free_support {N : Int} (hN : 2 ≤ N) (bnd : Int → Int)
    (hbnd : ∀ i j, 0 ≤ i → i < j → j ≤ N → bnd i < bnd j)
    (all U : List Int) (hnodup : all.Nodup) (hsub : U.Sublist all) (rx ry lo hi : Int → Int)
    (hrk : ∀ u ∈ all, 1 ≤ rx u ∧ rx u < ry u ∧ ry u ≤ N - 1)
    (hlo : ∀ u ∈ all, lo u = bnd (rx u)) (hhi : ∀ u ∈ all, hi u + 1 = bnd (ry u))
    (cf : Int → Int) (hcf : ∀ u ∈ U, rx u < cf u ∧ cf u ≤ ry u)
    (cum l : Int → Int) (hl : ∀ v, cum (v + 1) - cum v = l v)
    (A B : Int) (hA : A ≤ bnd 1) (hB : bnd (N - 1) ≤ B)
    (hl0 : ∀ v, A ≤ v → v < B → 0 ≤ l v)
    (hcnt : ∀ r, 2 ≤ r → r ≤ N - 1 → occ cf U r = cum (bnd r) - cum (bnd (r - 1)))
    (hzlo : ∀ v, A ≤ v → v < bnd 1 → l v = 0) (hzhi : ∀ v, bnd (N - 1) ≤ v → v < B → l v = 0)
    (k : Int) (hk : k ∈ all) (hfree : k ∉ U ∨ Freeable rx ry cf all U k)
    (v : Int) (hv1 : lo k ≤ v) (hv2 : v ≤ hi k) :
    ∃ σ : Int → Int, (∀ x ∈ all, lo x ≤ σ x ∧ σ x ≤ hi x) ∧
      (∀ w, A ≤ w → w < B → l w ≤ occ σ all w) ∧ σ k = v := by
  have hmono : ∀ i j, 0 ≤ i → i ≤ j → j ≤ N → bnd i ≤ bnd j := by
    intro i j h0 hij hj
    by_cases e : i = j
    · subst e; exact Int.le_refl _
    · exact Int.le_of_lt (hbnd i j h0 (by omega) hj)
  -- the domains
  have hdom0 : ∀ x ∈ all, A ≤ lo x ∧ lo x ≤ hi x ∧ hi x < B := by
    intro x hx
    have g1 := hrk x hx
    have g2 := hlo x hx
    have g3 := hhi x hx
    have g4 := hbnd (rx x) (ry x) (by omega) g1.2.1 (by omega)
    have g5 := hmono 1 (rx x) (by omega) g1.1 (by omega)
    have g6 := hmono (ry x) (N - 1) (by omega) g1.2.2 (by omega)
    omega
  have hL := free_hall hN bnd hbnd all U hnodup hsub rx ry lo hi hrk hlo hhi cf hcf cum l hl A B hA
    hB hl0 hcnt hzlo hzhi k hfree v
  have hkd := hdom0 k hk
  obtain ⟨σ, h1, h2⟩ := gcc_mix all hnodup (fun x => if x = k then v else lo x)
    (fun x => if x = k then v else hi x) l (fun w => max (l w) (all.length : Int)) A B
    (fun x hx => by
      have := hdom0 x hx
      by_cases e : x = k
      · simp only [if_pos e]; omega
      · simp only [if_neg e]; exact this)
    (fun w hw1 hw2 => ⟨hl0 w hw1 hw2, by omega⟩)
    (fun x => if x = k then v else lo x)
    (fun x hx => by
      have := hdom0 x hx
      by_cases e : x = k
      · simp only [if_pos e]; omega
      · simp only [if_neg e]; omega)
    (fun w _ _ => by
      have : occ (fun x => if x = k then v else lo x) all w ≤ (all.length : Int) := by
        unfold occ
        have := List.countP_le_length (l := all)
          (p := fun p => decide ((fun x => if x = k then v else lo x) p = w))
        omega
      omega)
    hL
  refine ⟨σ, ?_, fun w hw1 hw2 => (h2 w hw1 hw2).1, ?_⟩
  · intro x hx
    have g := h1 x hx
    by_cases e : x = k
    · simp only [if_pos e] at g
      subst e
      omega
    · simp only [if_neg e] at g
      exact g
  · have g := h1 k hk
    simp only [if_true] at g
    omega

end Gcc
end Nucs
