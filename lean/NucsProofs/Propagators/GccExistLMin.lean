import NucsProofs.Propagators.GccSoundLMinLoop
import NucsProofs.Propagators.GccSoundLFinal
import NucsProofs.Propagators.GccSoundCount
/-!
  The pass `filter_lower_min` of the ported gcc as a greedy matching: the main loop of
  GccSoundLMinLoop re-proved with one more piece of ghost state, the CELL `cf u` taken by every
  used variable `u` (`cf v := z0` when `v` is used).  On success every cell `2 ≤ k ≤ N - 1` is
  taken by exactly as many used variables as its capacity `Kf k - Kf (k - 1)`
  (`filter_lower_min_cells`).
-/
namespace Nucs
namespace Gcc
open AllDiff (g upd g2 upd2 ok_bind pure_eq_ok except_bind_ok forIn_list_except range_forIn_eq
  size_upd size_upd2 g_upd g_upd_same g_upd_ne g2_upd2 LChain LStruct LPre phi cinR)

/-! ### counting -/

theorem occ_snoc (τ : Int → Int) (L : List Int) (p v : Int) :
    occ τ (L ++ [p]) v = occ τ L v + (if τ p = v then 1 else 0) := by
  unfold occ
  rw [List.countP_append, List.countP_singleton]
  by_cases h : τ p = v <;> simp [h]

theorem occ_congr (τ τ' : Int → Int) (L : List Int) (v : Int) (h : ∀ p ∈ L, τ p = τ' p) :
    occ τ L v = occ τ' L v := by
  unfold occ
  congr 1
  apply List.countP_congr
  intro p hp
  rw [h p hp]

/-- cells filled at most up to their capacity, by at least as many variables as the total
    capacity: every cell is exactly filled -/
theorem occ_exact (cf : Int → Int) (U : List Int) (cap : Int → Int) (a b : Int) (hab : a ≤ b)
    (hrange : ∀ u ∈ U, a ≤ cf u ∧ cf u < b)
    (hle : ∀ k, a ≤ k → k < b → occ cf U k ≤ cap k)
    (hsum : sumI cap a b ≤ (U.length : Int)) :
    ∀ k, a ≤ k → k < b → occ cf U k = cap k := by
  have hlen : (U.length : Int) = sumI (occ cf U) a b := by
    have h1 := countP_cells U cf (fun _ => true) a b hab
    have h2 : U.countP (fun p => decide (a ≤ cf p) && decide (cf p < b) && (fun _ => true) (cf p))
        = U.length := by
      rw [List.countP_eq_length]
      intro p hp
      have := hrange p hp
      simp [this.1, this.2]
    rw [h2] at h1
    rw [h1]
    apply sumI_congr b hab
    intro k _ _
    simp [occ]
  exact sumI_eq_term b hab hle (by omega)

theorem sumI_cap (Kf : Int → Int) (a : Int) :
    ∀ b, a ≤ b → sumI (fun k => Kf k - Kf (k - 1)) a b = Kf (b - 1) - Kf (a - 1) := by
  apply int_le_ind
  · rw [sumI_empty]; omega
  · intro b hb ih
    rw [sumI_succ _ hb, ih]
    have e : b + 1 - 1 = b := by omega
    rw [e]; omega

theorem cinR_le_length (rx ry : Int → Int) (U : List Int) (a b : Int) :
    cinR rx ry U a b ≤ (U.length : Int) := by
  unfold cinR
  have := List.countP_le_length (l := U)
    (p := fun p => decide (a ≤ rx p) && decide (ry p ≤ b))
  omega

/-! ### the invariant about the cells taken by the used variables -/

/-- every used variable took a cell of its domain; a cell `r` is taken by as many used variables
    as its initial capacity minus what remains (the remaining capacity of a non-root is 0) -/
structure CellInv (N : Int) (Kf rx ry : Int → Int) (U : List Int) (tf df cf : Int → Int) :
    Prop where
  dom : ∀ u ∈ U, rx u < cf u ∧ cf u ≤ ry u
  cnt : ∀ r, 2 ≤ r → r ≤ N → occ cf U r + (if tf r < r then df r else 0) = Kf r - Kf (r - 1)

section cell
variable {N : Int} {Kf rx ry : Int → Int} {U : List Int} {tf df tf' df' cf : Int → Int}

theorem cellInv_init
    (hc : ∀ k, 2 ≤ k → k ≤ N → df k = Kf k - Kf (k - 1))
    (hnr : ∀ k, 2 ≤ k → k ≤ N → ¬ tf k < k → Kf k = Kf (k - 1)) :
    CellInv N Kf rx ry [] tf df cf := by
  refine ⟨fun u hu => (by cases hu), ?_⟩
  intro r h2 hN
  rw [occ_nil]
  by_cases hr : tf r < r
  · rw [if_pos hr, hc r h2 hN]; omega
  · rw [if_neg hr, hnr r h2 hN hr]; omega

theorem cellInv_skip (h : CellInv N Kf rx ry U tf df cf)
    (hroots : ∀ k, 1 ≤ k → k ≤ N → (tf' k < k ↔ tf k < k)) :
    CellInv N Kf rx ry U tf' df cf := by
  refine ⟨h.dom, ?_⟩
  intro r h2 hN
  have old := h.cnt r h2 hN
  have hiff := hroots r (by omega) hN
  by_cases hr : tf r < r
  · rw [if_pos hr] at old; rw [if_pos (hiff.2 hr)]; exact old
  · rw [if_neg hr] at old; rw [if_neg (fun hh => hr (hiff.1 hh))]; exact old

theorem cellInv_step (h : CellInv N Kf rx ry U tf df cf) {v z0 z : Int} (hx1 : 1 ≤ rx v)
    (hvU : v ∉ U) (hz0y : z0 ≤ ry v) (hpre : LPre N (rx v) tf df tf' df' z0 z) :
    CellInv N Kf rx ry (U ++ [v]) tf' df' (fun u => if u = v then z0 else cf u) := by
  have hz0lo := hpre.z0lo
  constructor
  · intro u hu
    rcases List.mem_append.1 hu with hu | hu
    · have hne : u ≠ v := fun e => hvU (e ▸ hu)
      simp only [if_neg hne]
      exact h.dom u hu
    · have e : u = v := by simpa using hu
      subst e
      simp only [if_true]
      exact ⟨by omega, hz0y⟩
  · intro r h2 hN
    have hocc : occ (fun u => if u = v then z0 else cf u) (U ++ [v]) r =
        occ cf U r + (if z0 = r then 1 else 0) := by
      rw [occ_snoc, occ_congr (fun u => if u = v then z0 else cf u) cf U r
        (fun p hp => by
          have hne : p ≠ v := fun e => hvU (e ▸ hp)
          simp only [if_neg hne])]
      simp
    have old := h.cnt r h2 hN
    rw [hocc]
    by_cases hr : r = z0
    · subst hr
      have hroot := hpre.z0root
      rw [if_pos hroot] at old
      rw [if_pos rfl]
      rcases hpre.mrg with ⟨hd0, _, _, _, _, hroots, _, _⟩ | ⟨hd0, _, hroots, _⟩
      · have hn : ¬ tf' r < r := fun hh => ((hroots r (by omega) hN).1 hh).2 rfl
        rw [if_neg hn]; omega
      · rw [if_pos ((hroots r (by omega) hN).2 hroot), hpre.dz0]; omega
    · rw [if_neg (fun e => hr e.symm)]
      have hd := hpre.doth r (by omega) hN hr
      have hiff : tf' r < r ↔ tf r < r := by
        rcases hpre.mrg with ⟨_, _, _, _, _, hroots, _, _⟩ | ⟨_, _, hroots, _⟩
        · exact (hroots r (by omega) hN).trans ⟨fun a => a.1, fun a => ⟨a, hr⟩⟩
        · exact hroots r (by omega) hN
      by_cases hroot : tf r < r
      · rw [if_pos hroot] at old
        rw [if_pos (hiff.2 hroot), hd]; omega
      · rw [if_neg hroot] at old
        rw [if_neg (fun hh => hroot (hiff.1 hh))]; omega

/-- the conclusion: when the used variables confined to `[1, N - 1]` meet the whole demand, every
    cell is exactly filled -/
theorem cellInv_exact (h : CellInv N Kf rx ry U tf df cf) (hN : 3 ≤ N)
    (hrk : ∀ u ∈ U, 1 ≤ rx u ∧ ry u < N)
    (hd0 : ∀ r, 2 ≤ r → r ≤ N → tf r < r → 0 ≤ df r)
    (hfull : cinR rx ry U 1 (N - 1) ≥ Kf (N - 1) - Kf 1) :
    ∀ k, 2 ≤ k → k ≤ N - 1 → occ cf U k = Kf k - Kf (k - 1) := by
  have := occ_exact cf U (fun k => Kf k - Kf (k - 1)) 2 N (by omega)
    (fun u hu => by
      have := h.dom u hu
      have := hrk u hu
      omega)
    (fun k h1 h2 => by
      have old := h.cnt k h1 (by omega)
      by_cases hr : tf k < k
      · rw [if_pos hr] at old
        have := hd0 k h1 (by omega) hr
        omega
      · rw [if_neg hr] at old; omega)
    (by
      rw [sumI_cap Kf 2 N (by omega)]
      have := cinR_le_length rx ry U 1 (N - 1)
      have e : (2 : Int) - 1 = 1 := by omega
      rw [e]; omega)
  intro k h1 h2
  exact this k h1 (by omega)

end cell

/-! ### initialisation: `lminInit_sem` with the cell-by-cell description of `c` and of the roots -/

theorem lminInit_semC {N : Int} {sz : Nat} {bounds : Array Int} {l : PSum} {fv m : Int}
    (hb : BC bounds N fv m) (hl : PS l fv m) (tl c sets stbl pot : Array Int)
    (hst : tl.size = sz) (hsc : c.size = sz) (hss : sets.size = sz) (hsb : stbl.size = sz)
    (hsp : pot.size = sz) (hNsz : N < sz) :
    ∃ (s1 : I1St) (s2 : Array Int × Int),
      forIn (rangeDown N 0) ((c, sets, stbl, pot, N) : I1St) (lminInit1 bounds l) = .ok s1 ∧
      forIn (rangeDown N (-1)) (tl, N) (lminInit2 s1.1) = .ok s2 ∧
      MCore N sz (K l fv bounds) s2.1 s1.1 s1.2.1 ∧ MPot N sz s2.1 s1.2.2.2.1 s1.2.2.1 ∧
      (∀ Y, MBelow N s1.2.2.2.1 Y ∧ MBelow N s1.2.2.1 Y) ∧
      (∀ z, 2 ≤ z → z ≤ N → g s2.1 z < z →
        1 ≤ g s2.1 z ∧ g s1.1 z = K l fv bounds z - K l fv bounds (g s2.1 z) ∧
        ∀ k, g s2.1 z ≤ k → k < z → K l fv bounds k = K l fv bounds (g s2.1 z)) ∧
      (∀ m', 1 ≤ m' → m' < N → (g s1.2.1 m' > m' ↔ K l fv bounds (m' + 1) = K l fv bounds m')) ∧
      (∀ r, 1 ≤ r → r ≤ N → g s1.2.2.2.1 r = r - 1) ∧
      (∀ r, 1 ≤ r → r ≤ N → g s1.2.2.1 r = r - 1) ∧
      (∀ k, 1 ≤ k → k ≤ N → g s1.1 k = K l fv bounds k - K l fv bounds (k - 1)) ∧
      (∀ k, 2 ≤ k → k ≤ N → ¬ g s2.1 k < k → K l fv bounds k = K l fv bounds (k - 1)) := by
  have hN := hb.hN
  have hK1 : RT (K l fv bounds) 1 := by
    have := K_bot hl hb
    show K l fv bounds (1 - 1) < K l fv bounds 1
    have e : (1 : Int) - 1 = 0 := by omega
    rw [e]; omega
  have hKN : RT (K l fv bounds) N := by
    have := K_top hl hb
    show K l fv bounds (N - 1) < K l fv bounds N
    omega
  have hKm : ∀ k, 1 ≤ k → k ≤ N → K l fv bounds (k - 1) ≤ K l fv bounds k :=
    fun k h1 h2 => K_mono hl hb (k - 1) k (by omega) (by omega) h2
  obtain ⟨s1, he1, z1, z2, z3, z4, hv, hS⟩ :=
    lminInit1_spec hb hl c sets stbl pot hsc hss hsb hsp hNsz
  have hc : ∀ k, 1 ≤ k → k ≤ N → g s1.1 k = K l fv bounds k - K l fv bounds (k - 1) :=
    fun k h1 h2 => (hv k h1 h2).1
  obtain ⟨s2, he2, y1, hT⟩ := lminInit2_spec hN s1.1 tl z1 hst hNsz hK1 hKN hKm hc
  have hp := mpot_of_desc (tl := s2.1) hN z4 z3 (fun k h1 h2 => (hv k h1 h2).2.1)
    (fun k h1 h2 => (hv k h1 h2).2.2)
  refine ⟨s1, s2, he1, he2,
    mcore_of_desc hN y1 z1 z2 hNsz hK1 hKN (fun a b h0 hab hbN => K_mono hl hb a b h0 hab hbN)
      hc hS hT, hp.1, hp.2,
    fun z h1 h2 h3 => tl_sem hK1 hKm hc hT z h1 h2 h3,
    fun m' h1 h2 => sets_sem hKm hS m' h1 h2,
    fun r h1 h2 => (hv r h1 h2).2.1, fun r h1 h2 => (hv r h1 h2).2.2, hc, ?_⟩
  intro k h1 h2 hnr
  have hd := hT k h1 h2
  have hn : ¬ RT (K l fv bounds) k := fun hr => hnr (hd.1 hr).1
  have hn' : ¬ K l fv bounds (k - 1) < K l fv bounds k := hn
  have := hKm k (by omega) h2
  omega

/-! ### one iteration of the main loop -/

/-- `lminTest_sem` carrying the cells -/
theorem lminTest_semC {N : Int} {sz : Nat} {bounds : Array Int} {l : PSum} {fv m : Int}
    {tl c sets pot stbl : Array Int} {rx ry : Int → Int} {all P U : List Int} {Y : Int}
    {wf cf : Int → Int} (hb : BC bounds N fv m) (hl : PS l fv m)
    (hctx : WCtx N (K l fv bounds) rx ry all)
    (hc : MCore N sz (K l fv bounds) tl c sets) (hp : MPot N sz tl pot stbl)
    (new_mins : Array Int) (hnm : NMOk N new_mins)
    (hsem : ESem N (K l fv bounds) rx ry all P U Y (tlg tl) (dfc (K l fv bounds) c) (g sets) wf)
    (hps : PSem N (K l fv bounds) rx ry P U (g pot) (g stbl))
    (hcell : CellInv N (K l fv bounds) rx ry U (tlg tl) (dfc (K l fv bounds) c) cf)
    (v : Int) (hv : v ∈ all) (hYv : Y ≤ ry v) (hvU : v ∉ U)
    (i z j w : Int) (hi0 : 0 ≤ i) (hi1 : i < new_mins.size)
    (hxz : rx v + 1 ≤ z) (hzN : z ≤ N) (hzr : g tl z < z) (hj : j = g tl z)
    (hall : ∀ k, rx v + 1 ≤ k → k < z → g tl k > k)
    (hpy : g pot (ry v) < ry v) (hsy : g stbl (ry v) < ry v)
    (hlow : z ≤ ry v → ∀ r, 1 ≤ r → r ≤ N → g pot r < r → g pot r ≤ rx v ∨ z ≤ g pot r)
    (hstab : ry v < z → g pot (ry v) ≤ rx v ∧
      phi (K l fv bounds) rx U (ry v) ≤ phi (K l fv bounds) rx U (g pot (ry v))) :
    ∃ tl' c' sets' stbl' nm' w' U' wf' cf',
      lminTest bounds l i (rx v) (ry v) z j tl c sets stbl new_mins pot w =
        .ok (.yield (tl', c', sets', stbl', pot, nm', w')) ∧
      MCore N sz (K l fv bounds) tl' c' sets' ∧ MPot N sz tl' pot stbl' ∧ NMOk N nm' ∧
      nm'.size = new_mins.size ∧ (∀ Y', ry v ≤ Y' → MBelow N stbl Y' → MBelow N stbl' Y') ∧
      ESem N (K l fv bounds) rx ry all (P ++ [v]) U' (ry v) (tlg tl') (dfc (K l fv bounds) c')
        (g sets') wf' ∧
      PSem N (K l fv bounds) rx ry (P ++ [v]) U' (g pot) (g stbl') ∧
      GStep i v U U' wf wf' new_mins nm' ∧
      CellInv N (K l fv bounds) rx ry U' (tlg tl') (dfc (K l fv bounds) c') cf' := by
  obtain ⟨hx1, hxy, hyN⟩ := hctx.rk v hv
  have hbsz := hb.hsz
  have hNsz := hc.hsz
  have hsc := hc.sc
  have hs := hc.toLStruct hb hl
  have hz2 : 2 ≤ z := by omega
  have hzr' : tlg tl z < z := by rw [tlg_ge2 tl z hz2]; exact hzr
  have hall' : ∀ k, rx v + 1 ≤ k → k < z → tlg tl k > k := by
    intro k h1 h2; rw [tlg_ge2 tl k (by omega)]; exact hall k h1 h2
  unfold lminTest
  rw [rd_ok c z (by omega) (by omega), ok_bind, rd_ok bounds (ry v) (by omega) (by omega), ok_bind,
    rd_ok bounds z (by omega) (by omega), ok_bind,
    get_sum_bounds_ok hl hb (ry v) z (by omega) hyN (by omega) hzN, ok_bind]
  by_cases hle : g c z ≤ gsum l (g bounds (ry v)) (g bounds z - 1)
  · rw [if_pos hle]
    have hyz : ry v < z := by
      by_cases h : ry v < z
      · exact h
      · have h1 := (gsum_K_neg hl hb (ry v) z (by omega) (by omega) hyN).2
        have h2 := (hc.d1 z hz2 hzN hzr).1
        omega
    obtain ⟨hpx, hphi⟩ := hstab hyz
    obtain ⟨stbl', w', wb, vb, he, hp', hbel, hp1, hsrel⟩ :=
      lminStable_rel hp hNsz (rx v) (ry v) z (by omega) hyN hpy hsy c sets new_mins
    rw [he]
    obtain ⟨tl', he2, hc2, hp2, hroots, hval⟩ :=
      lminFin_relP hc hp' (rx v) z hx1 hxz hzN hzr hall new_mins w'
    refine ⟨tl', c, sets, stbl', new_mins, w', U, wf, cf, he2, hc2, hp2, hnm, rfl, hbel, ?_, ?_,
      Or.inl ⟨rfl, rfl, rfl⟩, cellInv_skip hcell hroots⟩
    · exact esem_skip hctx hsem hv hYv hroots hval
    · exact psem_stable hctx hp.cb hp'.cb hsem hps hv hYv hp1 hpx hphi hsrel
  · rw [if_neg hle]
    have hzy : z ≤ ry v := by
      by_cases h : z ≤ ry v
      · exact h
      · exfalso
        have h1 := gsum_K hl hb (ry v) z (by omega) (by omega) hzN
        have h2 := (stable_test hctx hs hsem hx1 hxy hYv hxz hzN hzr' hall' (by omega)).1
        rw [dfc_ge2 _ c z hz2] at h2
        omega
    obtain ⟨tl', c', sets', nm', w', z', wn, he, hc', hp', hnm', hsz', hrel, hnme⟩ :=
      lminElse_rel hb hl hc hp new_mins hnm i (rx v) (ry v) z j w hi0 hi1 hx1 hxy hyN hxz hzN hzr hj
        hall hle
    refine ⟨tl', c', sets', stbl, nm', w', U ++ [v], fun u => if u = v then wn else wf u,
      fun u => if u = v then z else cf u, he, hc',
      hp', hnm', hsz', fun _ _ h => h, ?_, ?_, Or.inr ⟨wn, rfl, rfl, hnme⟩,
      cellInv_step hcell hx1 hvU hzy hrel.toLPre⟩
    · exact esem_step hctx hs (hc'.toLStruct hb hl) hsem hv hYv hvU hzy hrel (fun u _ => rfl)
    · exact psem_else hs hsem.t hps hx1 hrel.toLPre (hlow hzy)

/-- `lminBody_sem` carrying the cells -/
theorem lminBody_semC {N : Int} {sz : Nat} {bounds : Array Int} {l : PSum} {fv m : Int}
    {tl c sets pot stbl : Array Int} {rx ry : Int → Int} {all P U : List Int} {Y : Int}
    {wf cf : Int → Int} (hb : BC bounds N fv m) (hl : PS l fv m)
    (hctx : WCtx N (K l fv bounds) rx ry all)
    (hc : MCore N sz (K l fv bounds) tl c sets) (hp : MPot N sz tl pot stbl)
    (new_mins : Array Int) (hnm : NMOk N new_mins)
    (hsem : ESem N (K l fv bounds) rx ry all P U Y (tlg tl) (dfc (K l fv bounds) c) (g sets) wf)
    (hps : PSem N (K l fv bounds) rx ry P U (g pot) (g stbl))
    (hcell : CellInv N (K l fv bounds) rx ry U (tlg tl) (dfc (K l fv bounds) c) cf)
    (ranks : Arr2) (msv : Array Int) (hrx : ∀ u, (g2 ranks u).1 = rx u)
    (hry : ∀ u, (g2 ranks u).2 = ry u) (i w v : Int)
    (hi0 : 0 ≤ i) (hi1 : i < new_mins.size) (hi2 : i < msv.size) (hvi : g msv i = v)
    (hv0 : 0 ≤ v) (hv1 : v < ranks.size)
    (hv : v ∈ all) (hYv : Y ≤ ry v) (hvU : v ∉ U)
    (hbp : MBelow N pot (ry v)) (hbs : MBelow N stbl (ry v)) :
    ∃ tl' c' sets' stbl' pot' nm' w' U' wf' cf',
      lminBody bounds ranks msv l i (tl, c, sets, stbl, pot, new_mins, w) =
        .ok (.yield (tl', c', sets', stbl', pot', nm', w')) ∧
      MCore N sz (K l fv bounds) tl' c' sets' ∧ MPot N sz tl' pot' stbl' ∧ NMOk N nm' ∧
      nm'.size = new_mins.size ∧
      (∀ Y', ry v ≤ Y' → MBelow N pot Y' → MBelow N pot' Y') ∧
      (∀ Y', ry v ≤ Y' → MBelow N stbl Y' → MBelow N stbl' Y') ∧
      ESem N (K l fv bounds) rx ry all (P ++ [v]) U' (ry v) (tlg tl') (dfc (K l fv bounds) c')
        (g sets') wf' ∧
      PSem N (K l fv bounds) rx ry (P ++ [v]) U' (g pot') (g stbl') ∧
      GStep i v U U' wf wf' new_mins nm' ∧
      CellInv N (K l fv bounds) rx ry U' (tlg tl') (dfc (K l fv bounds) c') cf' := by
  obtain ⟨hx1, hxy, hyN⟩ := hctx.rk v hv
  have hNsz := hc.hsz
  have hst := hc.st
  have hs := hc.toLStruct hb hl
  unfold lminBody
  simp only []
  rw [rd_ok msv i hi0 hi2, ok_bind, hvi, rd2_min_ok ranks v hv0 hv1, ok_bind,
    rd2_max_ok ranks v hv0 hv1, ok_bind, hrx, hry]
  obtain ⟨z, hpm, hz1, hz2, hz3, hz4⟩ := path_max_spec tl 2 N (rx v + 1) (by omega) (by omega)
    (fun k h1 h2 => by
      have := (hc.ct.rng k (by omega) h2).2.1
      rw [tlg_ge2 tl k h1] at this; exact this)
    (fun k h1 h2 h3 q hq1 hq2 => by
      have h3' : tlg tl k > k := by rw [tlg_ge2 tl k h1]; exact h3
      have := hc.ct.up k (by omega) h2 h3' q hq1 (by rw [tlg_ge2 tl k h1]; exact hq2)
      rw [tlg_ge2 tl q (by omega)] at this; exact this)
    (by omega) (by omega)
  have hzr : g tl z < z := by
    have := (hc.ct.rng z (by omega) hz2).2.2
    rw [tlg_ge2 tl z (by omega)] at this
    omega
  have hzr' : tlg tl z < z := by rw [tlg_ge2 tl z (by omega)]; exact hzr
  have hall' : ∀ k, rx v + 1 ≤ k → k < z → tlg tl k > k := by
    intro k h1 h2; rw [tlg_ge2 tl k (by omega)]; exact hz4 k h1 h2
  rw [hpm, ok_bind, rd_ok tl z (by omega) (by omega), ok_bind]
  have hsy : g stbl (ry v) < ry v := root_of_below hp.cb (by omega) (by omega) hbs
  by_cases hzx : z = rx v + 1
  · have hcond : ¬ (z != rx v + 1) = true := by simp [hzx]
    rw [if_neg hcond]
    have hpy : g pot (ry v) < ry v := root_of_below hp.cp (by omega) (by omega) hbp
    obtain ⟨tl', c', sets', stbl', nm', w', U', wf', cf', he, hc', hp', hnm', hsz', hbel, hes, hpsm,
        hgs, hcl⟩ :=
      lminTest_semC hb hl hctx hc hp new_mins hnm hsem hps hcell v hv hYv hvU i z (g tl z) w hi0 hi1
        hz1 hz2 hzr rfl hz4 hpy hsy (fun _ r _ _ _ => by omega) (fun h => by omega)
    exact ⟨tl', c', sets', stbl', pot, nm', w', U', wf', cf', he, hc', hp', hnm', hsz',
      fun _ _ h => h, hbel, hes, hpsm, hgs, hcl⟩
  · have hcond : (z != rx v + 1) = true := by simp [hzx]
    rw [if_pos hcond]
    obtain ⟨pot', w1, vv, he0, hp0, hbel0, hprel⟩ :=
      lminPot_rel hc hp (rx v) (ry v) z hx1 hxy hyN (by omega) hz2 hzr hz4 hbp
        (fun pot w => lminTest bounds l i (rx v) (ry v) z (g tl z) tl c sets stbl new_mins pot w)
    rw [he0]
    have hmin : min (ry v) z ≤ z := Int.min_le_right _ _
    obtain ⟨hps', hvvx, hdom⟩ := psem_pot hs hsem.t hps hx1 hz1 hz2 hzr' hall' hmin hprel
    have hpy : g pot' (ry v) < ry v :=
      root_of_below hp0.cp (by omega) (by omega) (hbel0 (ry v) (Int.le_refl _) hbp)
    obtain ⟨tl', c', sets', stbl', nm', w', U', wf', cf', he, hc', hp', hnm', hsz', hbel, hes, hpsm,
        hgs, hcl⟩ :=
      lminTest_semC hb hl hctx hc hp0 new_mins hnm hsem hps' hcell v hv hYv hvU i z (g tl z)
        (min (ry v) z) hi0 hi1 hz1 hz2 hzr rfl hz4 hpy hsy
        (fun hzy => by
          have e : min (ry v) z = z := Int.min_eq_right hzy
          rw [e] at hprel
          exact potrel_low hp0.cp (by omega) hprel)
        (fun hyz => by
          have e : min (ry v) z = ry v := Int.min_eq_left (by omega)
          rw [e] at hprel
          rw [hprel.wv]
          exact ⟨hvvx, hdom (ry v) (by omega) hyz⟩)
    exact ⟨tl', c', sets', stbl', pot', nm', w', U', wf', cf', he, hc', hp', hnm', hsz', hbel0, hbel,
      hes, hpsm, hgs, hcl⟩

/-! ### the main loop -/

theorem lminLoop_semC {N : Int} {sz : Nat} {bounds : Array Int} {l : PSum} {fv m : Int}
    {tl c sets pot stbl : Array Int} {rx ry : Int → Int} (hb : BC bounds N fv m) (hl : PS l fv m)
    (ranks : Arr2) (msv : Array Int) (hrx : ∀ u, (g2 ranks u).1 = rx u)
    (hry : ∀ u, (g2 ranks u).2 = ry u)
    (hctx : WCtx N (K l fv bounds) rx ry msv.toList)
    (hc : MCore N sz (K l fv bounds) tl c sets) (hp : MPot N sz tl pot stbl)
    (hbel : ∀ Y, MBelow N pot Y ∧ MBelow N stbl Y) (wf0 cf0 : Int → Int)
    (hsem : ESem N (K l fv bounds) rx ry msv.toList [] [] 0 (tlg tl) (dfc (K l fv bounds) c)
      (g sets) wf0)
    (hps : PSem N (K l fv bounds) rx ry [] [] (g pot) (g stbl))
    (hcell : CellInv N (K l fv bounds) rx ry [] (tlg tl) (dfc (K l fv bounds) c) cf0)
    (n : Int) (new_mins : Array Int) (w : Int)
    (hn : n = msv.size) (hnn : (new_mins.size : Int) = n) (hnm : NMOk N new_mins)
    (hmsv : ∀ i : Int, 0 ≤ i → i < n → 0 ≤ g msv i ∧ g msv i < (ranks.size : Int))
    (hnodup : msv.toList.Nodup)
    (hsorted : ∀ i i' : Int, 0 ≤ i → i ≤ i' → i' < n →
      (g2 ranks (g msv i)).2 ≤ (g2 ranks (g msv i')).2) :
    ∃ s, forIn (rangeUp 0 msv.size) ((tl, c, sets, stbl, pot, new_mins, w) : MSt)
        (lminBody bounds ranks msv l) = .ok s ∧
      ∃ U Y wf cf, MSemPost N sz n (K l fv bounds) rx ry msv s U Y wf ∧
        CellInv N (K l fv bounds) rx ry U (tlg s.1) (dfc (K l fv bounds) s.2.1) cf := by
  refine forIn_list_except
    (Inv := fun rest (s : MSt) => ∃ (i : Int) (P U : List Int) (Y : Int) (wf cf : Int → Int),
      rest = rangeUp i msv.size ∧ 0 ≤ i ∧ i ≤ n ∧ P = msv.toList.take i.toNat ∧
      MCore N sz (K l fv bounds) s.1 s.2.1 s.2.2.1 ∧ MPot N sz s.1 s.2.2.2.2.1 s.2.2.2.1 ∧
      NMOk N s.2.2.2.2.2.1 ∧ (s.2.2.2.2.2.1.size : Int) = n ∧
      (∀ i' : Int, i ≤ i' → i' < n →
        MBelow N s.2.2.2.2.1 (ry (g msv i')) ∧ MBelow N s.2.2.2.1 (ry (g msv i'))) ∧
      U.Sublist P ∧
      ESem N (K l fv bounds) rx ry msv.toList P U Y (tlg s.1) (dfc (K l fv bounds) s.2.1)
        (g s.2.2.1) wf ∧
      PSem N (K l fv bounds) rx ry P U (g s.2.2.2.2.1) (g s.2.2.2.1) ∧
      (∀ i' : Int, i ≤ i' → i' < n → Y ≤ ry (g msv i')) ∧
      (∀ i', 0 ≤ i' → i' < i → g msv i' ∈ U → g s.2.2.2.2.2.1 i' = wf (g msv i')) ∧
      CellInv N (K l fv bounds) rx ry U (tlg s.1) (dfc (K l fv bounds) s.2.1) cf)
    _ _ ?_ ?_ _ _ ?_
  · rintro x rest ⟨tl1, c1, sets1, stbl1, pot1, nm1, w1⟩
      ⟨i, P, U, Y, wf, cf, hr, hi0, hin, hP, hc1, hp1, hnm1, hnn1, hbel1, husub, hes, hpsm, hY,
        hlink, hcl⟩
    obtain ⟨hlt, hx, hrest⟩ := rangeUp_eq_cons i msv.size x rest hr
    subst hx
    simp only at hc1 hp1 hnm1 hnn1 hbel1 hes hpsm hlink hcl
    left
    have hv := hmsv x hi0 (by omega)
    have hbx := hbel1 x (Int.le_refl _) (by omega)
    have hvall : g msv x ∈ msv.toList := g_mem_toList msv x hi0 hlt
    have hvP : g msv x ∉ P := by rw [hP]; exact g_not_mem_take msv hnodup x hi0 hlt
    have hvU : g msv x ∉ U := fun h => hvP (husub.subset h)
    obtain ⟨tl', c', sets', stbl', pot', nm', w', U', wf', cf', he, hc', hp', hnm', hsz', hbp, hbs,
        hes', hps', hgs, hcl'⟩ :=
      lminBody_semC hb hl hctx hc1 hp1 nm1 hnm1 hes hpsm hcl ranks msv hrx hry x w1 (g msv x) hi0
        (by omega) hlt rfl hv.1 hv.2 hvall (hY x (Int.le_refl _) (by omega)) hvU hbx.1 hbx.2
    have hsrt : ∀ i' : Int, x + 1 ≤ i' → i' < n → ry (g msv x) ≤ ry (g msv i') := by
      intro i' h1 h2
      have hs := hsorted x i' hi0 (by omega) h2
      rw [hry, hry] at hs; exact hs
    refine ⟨_, he, x + 1, P ++ [g msv x], U', ry (g msv x), wf', cf', hrest, by omega, by omega, ?_,
      hc', hp', hnm', by simp only; omega, ?_, ?_, hes', hps', hsrt, ?_, hcl'⟩
    · rw [take_succ_g msv x hi0 hlt, hP]
    · intro i' h1 h2
      have := hbel1 i' (by omega) h2
      exact ⟨hbp _ (hsrt i' h1 h2) this.1, hbs _ (hsrt i' h1 h2) this.2⟩
    · rcases hgs with ⟨e1, _, _⟩ | ⟨wn, e1, _, _⟩
      · rw [e1]; exact husub.trans (List.sublist_append_left _ _)
      · rw [e1]; exact List.Sublist.append husub (List.Sublist.refl _)
    · intro i' h0 h1 hmem
      simp only
      rcases hgs with ⟨e1, e2, e3⟩ | ⟨wn, e1, e2, e3⟩
      · rw [e1] at hmem
        rw [e2, e3]
        by_cases hi' : i' = x
        · subst hi'; exact absurd hmem hvU
        · exact hlink i' h0 (by omega) hmem
      · rw [e1] at hmem
        rw [e2, e3]
        by_cases hi' : i' = x
        · subst hi'; rw [g_upd_same nm1 i' wn h0 (by omega)]; simp
        · have hne : g msv i' ≠ g msv x :=
            fun h => hi' (g_inj msv hnodup i' x h0 (by omega) hi0 hlt h)
          rw [g_upd_ne nm1 x wn i' hi0 (by omega) h0 hi']
          simp only [hne, if_false]
          have hU : g msv i' ∈ U := by
            rcases List.mem_append.1 hmem with h | h
            · exact h
            · simp at h; exact absurd h hne
          exact hlink i' h0 (by omega) hU
  · rintro ⟨tl1, c1, sets1, stbl1, pot1, nm1, w1⟩
      ⟨i, P, U, Y, wf, cf, hr, hi0, hin, hP, hc1, hp1, hnm1, hnn1, hbel1, husub, hes, hpsm, hY,
        hlink, hcl⟩
    simp only at hc1 hp1 hnm1 hnn1 hbel1 hes hpsm hlink hcl
    have hi : i = n := by
      by_cases h : i < msv.size
      · rw [rangeUp_cons i msv.size h] at hr; cases hr
      · omega
    subst hi
    rw [take_all msv i hn] at hP
    subst hP
    exact ⟨U, Y, wf, cf, ⟨hc1, hp1, hnn1, hnm1, husub, hes, hpsm, hlink⟩, hcl⟩
  · exact ⟨0, [], [], 0, wf0, cf0, rfl, Int.le_refl _, by omega, by simp, hc, hp, hnm, hnn,
      fun i' _ _ => ⟨(hbel _).1, (hbel _).2⟩, List.Sublist.refl _, hsem, hps,
      fun i' h0 h1 => by
        have := hmsv i' h0 h1
        have := (hctx.rk _ (g_mem_toList msv i' h0 (by omega))).1
        have := (hctx.rk _ (g_mem_toList msv i' h0 (by omega))).2.1
        omega,
      fun i' h0 h1 => by omega, hcell⟩

/-! ### the whole pass -/

/-- on success, the used variables of `filter_lower_min` fill every cell `2 ≤ k ≤ N - 1` exactly:
    `cf u` is a cell of the domain of `u` (in ranks: `(min-rank, max-rank]`), and the cell `k` —
    the values `[bounds[k-1], bounds[k])` — is taken by exactly `K k - K (k - 1)` used variables -/
theorem filter_lower_min_cells {N : Int} {sz : Nat} {bounds : Array Int} {l : PSum} {fv m : Int}
    (hb : BC bounds N fv m) (hl : PS l fv m) (n : Int) (tl c sets : Array Int)
    (domains ranks : Arr2) (msv stbl pot new_mins : Array Int)
    (hst : tl.size = sz) (hsc : c.size = sz) (hss : sets.size = sz) (hsb : stbl.size = sz)
    (hsp : pot.size = sz) (hNsz : N < sz) (hrs : ranks.size = domains.size)
    (hn : n = msv.size) (hnn : (new_mins.size : Int) = n) (hnm : NMOk N new_mins)
    (hmsv : ∀ i : Int, 0 ≤ i → i < n → 0 ≤ g msv i ∧ g msv i < (domains.size : Int))
    (hranks : ∀ v : Int, 0 ≤ v → v < ranks.size →
      1 ≤ (g2 ranks v).1 ∧ (g2 ranks v).1 < (g2 ranks v).2 ∧ (g2 ranks v).2 < N)
    (hnodup : msv.toList.Nodup)
    (hsorted : ∀ i i' : Int, 0 ≤ i → i ≤ i' → i' < n →
      (g2 ranks (g msv i)).2 ≤ (g2 ranks (g msv i')).2) :
    ∃ r, filter_lower_min n (N - 1) tl c sets bounds domains ranks msv l stbl pot new_mins = .ok r ∧
      (r.1 = true → ∃ (U : List Int) (cf : Int → Int), U.Sublist msv.toList ∧
        (∀ u ∈ U, (g2 ranks u).1 < cf u ∧ cf u ≤ (g2 ranks u).2) ∧
        ∀ k, 2 ≤ k → k ≤ N - 1 → occ cf U k = K l fv bounds k - K l fv bounds (k - 1)) := by
  have hN := hb.hN
  rw [filter_lower_min_eq]
  have hNN : N - 1 + 1 = N := by omega
  rw [hNN]
  obtain ⟨s1, s2, he1, he2, hc, hp, hbel, htl, hsets, hpot, hstb, hcd, hnr⟩ :=
    lminInit_semC hb hl tl c sets stbl pot hst hsc hss hsb hsp hNsz
  rw [he1, ok_bind, he2, ok_bind]
  have hctx : WCtx N (K l fv bounds) (fun v => (g2 ranks v).1) (fun v => (g2 ranks v).2)
      msv.toList :=
    wctx_of hb hl ranks msv domains.size hrs (fun i h0 h1 => hmsv i h0 (by omega)) hranks
  have hKb := K_bot hl hb
  have hsem0 : ESem N (K l fv bounds) (fun v => (g2 ranks v).1) (fun v => (g2 ranks v).2)
      msv.toList [] [] 0 (tlg s2.1) (dfc (K l fv bounds) s1.1) (g s1.2.1) (fun _ => 0) := by
    refine esem_init hctx ?_ hsets
    intro z h1 h2 h3
    by_cases hz : z ≤ 1
    · have hz1 : z = 1 := by omega
      subst hz1
      rw [tlg_le1 s2.1 1 (by omega), dfc_le1 _ s1.1 1 (by omega)]
      refine ⟨rfl, ?_⟩
      intro k hk1 hk2
      have : k = 0 := by omega
      rw [this]; exact Int.le_refl _
    · rw [tlg_ge2 s2.1 z (by omega)] at h3 ⊢
      rw [dfc_ge2 _ s1.1 z (by omega)]
      obtain ⟨t1, t2, t3⟩ := htl z (by omega) h2 h3
      exact ⟨t2, fun k hk1 hk2 => by rw [t3 k hk1 hk2]; exact Int.le_refl _⟩
  have hps0 : PSem N (K l fv bounds) (fun v => (g2 ranks v).1) (fun v => (g2 ranks v).2)
      [] [] (g s1.2.2.2.1) (g s1.2.2.1) := psem_init hctx hpot hstb
  have hcell0 : CellInv N (K l fv bounds) (fun v => (g2 ranks v).1) (fun v => (g2 ranks v).2)
      [] (tlg s2.1) (dfc (K l fv bounds) s1.1) (fun _ => 0) := by
    refine cellInv_init ?_ ?_
    · intro k h1 h2
      rw [dfc_ge2 _ s1.1 k h1]; exact hcd k (by omega) h2
    · intro k h1 h2 h3
      rw [tlg_ge2 s2.1 k h1] at h3
      exact hnr k h1 h2 h3
  obtain ⟨s3, he3, U, Y, wf, cf, hpost, hcl⟩ :=
    lminLoop_semC hb hl ranks msv (fun _ => rfl) (fun _ => rfl) hctx hc hp hbel (fun _ => 0)
      (fun _ => 0) hsem0 hps0 hcell0 n new_mins s2.2 hn hnn hnm
      (fun i h0 h1 => by have := hmsv i h0 h1; omega) hnodup hsorted
  rw [he3, ok_bind]
  obtain ⟨tl3, c3, sets3, stbl3, pot3, nm3, w3⟩ := s3
  obtain ⟨hc3, hp3, hnn3, hnm3, husub, hes, hpsm, hlink⟩ := hpost
  simp only at hc3 hp3 hnn3 hnm3 hes hpsm hlink hcl ⊢
  have hss3 := hc3.ss
  rw [rd_ok sets3 (N - 1) (by omega) (by omega), ok_bind]
  by_cases hfail : (g sets3 (N - 1) != 0) = true
  · rw [if_pos hfail]
    exact ⟨_, rfl, fun h => by simp at h⟩
  · rw [if_neg hfail]
    have heq : g sets3 (N - 1) = 0 := by simpa using hfail
    obtain ⟨s4, he4, hs4, hcomp⟩ := lminComp_sem N sz stbl3 w3 hp3.sb hNsz hp3.cb
    rw [he4, ok_bind]
    obtain ⟨d5, he5, hs5, hdom⟩ := lminShrink_sem hb hl n ranks domains msv s4.1 nm3 hn hnn3 hnm3
      (by omega) hrs hmsv (fun v h0 h1 => by have := hranks v h0 h1; omega) hnodup
    rw [he5, ok_bind]
    refine ⟨_, rfl, fun _ => ⟨U, cf, husub, hcl.dom, ?_⟩⟩
    by_cases hN3 : 3 ≤ N
    · have hdown := (hc3.cs.down (N - 1) (by omega) (by omega) (by omega)).1
      obtain ⟨ja, j1, j2, j3⟩ := hes.s3 1 (N - 1) (Int.le_refl _) (by omega) (by omega) (by omega)
        (fun m' h1 h2 => hdown m' (by omega) h2)
      have hja : ja = 1 := by omega
      subst hja
      refine cellInv_exact hcl hN3 ?_ ?_ j3
      · intro u hu
        have := hctx.rk u (hes.psub u (hes.usub u hu))
        exact ⟨this.1, this.2.2⟩
      · intro r h1 h2 h3
        rw [tlg_ge2 tl3 r h1] at h3
        rw [dfc_ge2 _ c3 r h1]
        have := (hc3.d1 r h1 h2 h3).1
        omega
    · intro k h1 h2; omega

end Gcc
end Nucs
