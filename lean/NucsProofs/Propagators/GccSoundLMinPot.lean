import NucsProofs.Propagators.GccSoundLMinDefs
/-!
  Semantic soundness of the ported gcc, `filter_lower_min`: the memory-safety specifications of
  `lminPot`, `lminStable`, `lminFin` (PortGccLMinPot / PortGccLMinElse) strengthened so that they
  export the RELATION between the pointer array before and after (`PotRel`, `SRel` of
  GccSoundLMinMath; same roots / same root targets for the compression of `tl`).

  The proofs are the ones of `chain_mark_down`, `chain_absorb`, `lminPot_spec`, `lminStable_spec`,
  `lminFin_spec` with more of the intermediate facts kept in the conclusion.
-/
namespace Nucs
namespace Gcc

open AllDiff (g upd g2 upd2 ok_bind pure_eq_ok except_bind_ok forIn_list_except range_forIn_eq
  size_upd size_upd2 g_upd g_upd_same g_upd_ne LChain)

/-- `chain_mark_down` with the value relation: `Y` now points to the target of `w1`, the surviving
    roots other than `Y` keep their targets -/
theorem chain_mark_down_rel (A1 : Array Int) (N w1 Y : Int) (hc1 : LChain (g A1) N)
    (hsz : N < A1.size) (hw1 : 1 ≤ w1) (hwY : w1 ≤ Y) (hYN : Y < N) (hw : g A1 w1 < w1)
    (hY : g A1 Y < Y) :
    ∃ A2, path_set A1 (g A1 Y) (g A1 w1) Y = .ok A2 ∧ A2.size = A1.size ∧
      LChain (g (upd A2 Y (g A1 w1))) N ∧
      (∀ k, 1 ≤ k → k ≤ N →
        (g (upd A2 Y (g A1 w1)) k < k ↔ (g A1 k < k ∧ ¬ (g A1 w1 < k ∧ k < Y)))) ∧
      g (upd A2 Y (g A1 w1)) Y = g A1 w1 ∧
      (∀ k, 1 ≤ k → k ≤ N → g (upd A2 Y (g A1 w1)) k < k → k ≠ Y →
        g (upd A2 Y (g A1 w1)) k = g A1 k) ∧
      (∀ k, 0 ≤ k → g (upd A2 Y (g A1 w1)) k = g A1 k ∨ g (upd A2 Y (g A1 w1)) k = Y ∨
        g (upd A2 Y (g A1 w1)) k = g A1 w1) := by
  have hdw := hc1.down w1 hw1 (by omega) hw
  have hrw := hc1.rng w1 hw1 (by omega)
  have hdY := hc1.down Y (by omega) (by omega) hY
  have hrY := hc1.rng Y (by omega) (by omega)
  generalize he : g A1 w1 = e at *
  have he0 : 0 ≤ e := hrw.1
  have hre : e = 0 ∨ g A1 e < e := hdw.2
  have hey : e ≤ g A1 Y := by
    by_cases hle : e ≤ g A1 Y
    · exact hle
    · have := hdY.1 e (by omega) (by omega)
      rcases hre with h | h <;> omega
  obtain ⟨A2, hps, hsz2, hv2⟩ := path_set_down_mark A1 (g A1 Y) e Y he0 hey (by omega)
    (by
      rcases hdY.2 with h0 | h0
      · left; omega
      · right; exact h0)
    (by
      intro p hp1 hp2 hp3
      have hdp := hc1.down p (by omega) (by omega) hp3
      have hrp := hc1.rng p (by omega) (by omega)
      refine ⟨?_, ?_, fun k hk1 hk2 => by have := hdp.1 k hk1 hk2; omega⟩
      · by_cases hle : e ≤ g A1 p
        · exact hle
        · have := hdp.1 e (by omega) (by omega)
          rcases hre with h | h <;> omega
      · rcases hdp.2 with h0 | h0
        · left
          by_cases hle : e ≤ g A1 p
          · omega
          · have := hdp.1 e (by omega) (by omega)
            rcases hre with h | h <;> omega
        · right; exact h0)
  have ha3 : ∀ k, 0 ≤ k → g (upd A2 Y e) k =
      if k = Y then e else if e < k ∧ k ≤ g A1 Y ∧ g A1 k < k then Y else g A1 k := by
    intro k hk
    rw [g_upd A2 Y e k (by omega) (by omega) hk]
    by_cases hky : k = Y
    · simp [hky]
    · simp only [hky, if_false]; exact hv2 k hk
  obtain ⟨hc3, hroots3⟩ := hc1.mark (by omega) hYN hY he0 hey hre ha3
  refine ⟨A2, hps, hsz2, hc3, hroots3, g_upd_same A2 Y e (by omega) (by omega), ?_, ?_⟩
  · intro k hk1 hk2 hkr hky
    have h3 := ha3 k (by omega)
    simp only [hky, if_false] at h3
    by_cases hm : e < k ∧ k ≤ g A1 Y ∧ g A1 k < k
    · rw [if_pos hm] at h3; omega
    · rw [if_neg hm] at h3; exact h3
  · intro k hk
    rw [ha3 k hk]
    by_cases hky : k = Y
    · right; right; simp [hky]
    · simp only [hky, if_false]
      by_cases hm : e < k ∧ k ≤ g A1 Y ∧ g A1 k < k
      · right; left; rw [if_pos hm]
      · left; rw [if_neg hm]

/-- `chain_absorb` with the value relation -/
theorem chain_absorb_rel (A : Array Int) (N s0 Y : Int) (hc : LChain (g A) N) (hsz : N < A.size)
    (hs1 : 1 ≤ s0) (hsY : s0 ≤ Y) (hYN : Y < N) (hY : g A Y < Y) :
    ∃ w1 A1 A2, path_max A s0 = .ok w1 ∧ path_set A s0 w1 w1 = .ok A1 ∧ A1.size = A.size ∧
      g A1 w1 = g A w1 ∧ s0 ≤ w1 ∧ w1 ≤ Y ∧ g A w1 < w1 ∧
      (∀ k, s0 ≤ k → k < w1 → g A k > k) ∧
      path_set A1 (g A1 Y) (g A w1) Y = .ok A2 ∧ A2.size = A.size ∧
      LChain (g (upd A2 Y (g A w1))) N ∧
      (∀ k, 1 ≤ k → k ≤ N →
        (g (upd A2 Y (g A w1)) k < k ↔ (g A k < k ∧ ¬ (g A w1 < k ∧ k < Y)))) ∧
      (∀ k, 1 ≤ k → k ≤ N → (g (upd A2 Y (g A w1)) k < k ↔ (g A k < k ∧ ¬ (w1 ≤ k ∧ k < Y)))) ∧
      g (upd A2 Y (g A w1)) Y = g A w1 ∧
      (∀ k, 1 ≤ k → k ≤ N → g (upd A2 Y (g A w1)) k < k → k ≠ Y →
        g (upd A2 Y (g A w1)) k = g A k) ∧
      (∀ k, 1 ≤ k → k ≤ N → g (upd A2 Y (g A w1)) k = g A k ∨ g (upd A2 Y (g A w1)) k = w1 ∨
          g (upd A2 Y (g A w1)) k = Y ∨ g (upd A2 Y (g A w1)) k = g A w1) := by
  obtain ⟨w1, hpm, hw1, hw2, hw3, hw4⟩ := path_max_spec A 1 N s0 (by omega) hsz
    (fun k h1 h2 => (hc.rng k h1 h2).2.1) (fun k h1 h2 h3 => hc.up k h1 h2 h3) hs1 (by omega)
  have hwr : g A w1 < w1 := by have := hc.rng w1 (by omega) hw2; omega
  have hwY : w1 ≤ Y := by
    by_cases h : w1 ≤ Y
    · exact h
    · have := hw4 Y hsY (by omega); omega
  have hup : ∀ p, s0 ≤ p → p < w1 → p < g A p ∧ g A p ≤ w1 := by
    intro p h1 h2
    have := hw4 p h1 h2
    exact ⟨this, hc.up_le_root (by omega) h2 hw2 this hwr⟩
  obtain ⟨A1, hps, hsz1, hrel1⟩ := path_set_up_compress A s0 w1 w1 (by omega) hw1 (by omega) hup
  obtain ⟨hc1, hroots1, hval1⟩ := hc.compress hw2 hw4 hrel1
  have hY1 : g A1 Y < Y := (hroots1 Y (by omega) (by omega)).2 hY
  have hvw : g A1 w1 = g A w1 := hval1 w1 (by omega) hw2 hwr
  have hw1r : g A1 w1 < w1 := by rw [hvw]; exact hwr
  obtain ⟨A2, hps2, hsz2, hc3, hroots3, hvalY, hkeep3, hval3⟩ :=
    chain_mark_down_rel A1 N w1 Y hc1 (by omega) (by omega) hwY hYN hw1r hY1
  rw [hvw] at hps2 hc3 hroots3 hvalY hkeep3 hval3
  have hdw := hc.down w1 (by omega) hw2 hwr
  have hrootsA : ∀ k, 1 ≤ k → k ≤ N →
      (g (upd A2 Y (g A w1)) k < k ↔ (g A k < k ∧ ¬ (g A w1 < k ∧ k < Y))) := by
    intro k hk1 hk2
    rw [hroots3 k hk1 hk2, hroots1 k hk1 hk2]
  have hkeepA : ∀ k, 1 ≤ k → k ≤ N → g (upd A2 Y (g A w1)) k < k → k ≠ Y →
      g (upd A2 Y (g A w1)) k = g A k := by
    intro k hk1 hk2 hkr hky
    rw [hkeep3 k hk1 hk2 hkr hky]
    exact hval1 k hk1 hk2 ((hrootsA k hk1 hk2).1 hkr).1
  refine ⟨w1, A1, A2, hpm, hps, hsz1, hvw, hw1, hwY, hwr, hw4, hps2, by omega, hc3, hrootsA, ?_,
    hvalY, hkeepA, ?_⟩
  · intro k hk1 hk2
    rw [hrootsA k hk1 hk2]
    constructor
    · rintro ⟨h1, h2⟩
      exact ⟨h1, fun h3 => h2 ⟨by omega, h3.2⟩⟩
    · rintro ⟨h1, h2⟩
      refine ⟨h1, fun h3 => ?_⟩
      by_cases hkw : w1 ≤ k
      · exact h2 ⟨hkw, h3.2⟩
      · have := hdw.1 k h3.1 (by omega); omega
  · intro k hk1 hk2
    rcases hval3 k (by omega) with h | h | h
    · rcases hrel1 k (by omega) with h' | ⟨_, _, h'⟩
      · left; rw [h, h']
      · right; left; rw [h, h']
    · right; right; left; exact h
    · right; right; right; exact h

/-- the update of `pot_stbl_sets`, with the relation between the old and the new array -/
theorem lminPot_rel {N : Int} {sz : Nat} {Kf : Int → Int} {tl c sets pot stbl : Array Int}
    (hc : MCore N sz Kf tl c sets) (hp : MPot N sz tl pot stbl) (x y z : Int)
    (hx1 : 1 ≤ x) (hxy : x < y) (hyN : y < N) (hxz : x + 1 < z) (hzN : z ≤ N) (hzr : g tl z < z)
    (hall : ∀ k, x + 1 ≤ k → k < z → g tl k > k) (hby : MBelow N pot y)
    {β : Type} (kont : Array Int → Int → Except Err β) :
    ∃ pot' w1 v, lminPot x y z pot kont = kont pot' (min y z) ∧ MPot N sz tl pot' stbl ∧
      (∀ Y', y ≤ Y' → MBelow N pot Y' → MBelow N pot' Y') ∧
      PotRel N x (min y z) (g pot) (g pot') w1 v := by
  have hNsz := hc.hsz
  have hsp := hp.sp
  obtain ⟨Y, hYe, hYy, hYz, hYc⟩ : ∃ Y, min y z = Y ∧ Y ≤ y ∧ Y ≤ z ∧ (Y = y ∨ Y = z) := by
    refine ⟨min y z, rfl, Int.min_le_left _ _, Int.min_le_right _ _, ?_⟩
    rw [Int.min_def]; split <;> simp
  have hYroot : g pot Y < Y := by
    have hr := hp.cp.rng Y (by omega) (by omega)
    rcases hYc with h | h
    · subst h
      by_cases hgt : g pot Y > Y
      · have := hby Y (by omega) (by omega) hgt; omega
      · omega
    · subst h
      by_cases hgt : g pot Y > Y
      · by_cases hYN : Y < N
        · have := hp.i1 Y (by omega) hYN hgt; omega
        · omega
      · omega
  obtain ⟨w1, A1, A2, hpm, hps, hsz1, hvw, hw1, hwY, hwr, hw4, hps2, hsz2, hc3, hrootsv, hroots3,
      hvalY, hkeep, hval3⟩ :=
    chain_absorb_rel pot N (x + 1) Y hp.cp (by omega) (by omega) (by omega) (by omega) hYroot
  -- the lower end of the group of `x + 1` lies at or below `x`
  have hvx : g pot w1 ≤ x := by
    have hdw := hp.cp.down w1 (by omega) (by omega) hwr
    by_cases h : g pot w1 ≤ x
    · exact h
    · have hup := hw4 (g pot w1) (by omega) hwr
      rcases hdw.2 with h0 | h0 <;> omega
  refine ⟨upd A2 Y (g pot w1), w1, g pot w1, ?_, ?_, ?_, ?_⟩
  · unfold lminPot
    rw [hpm, ok_bind, rd_ok pot w1 (by omega) (by omega), ok_bind, hps, ok_bind]
    simp only [hYe]
    rw [rd_ok A1 Y (by omega) (by omega), ok_bind, hps2, ok_bind,
      wr_ok A2 Y _ (by omega) (by omega), ok_bind]
  · refine ⟨by simp [hsz2, hsp], hp.sb, hc3, hp.cb, ?_, ?_⟩
    · intro k h1 h2 h3
      have hnr : ¬ (g (upd A2 Y (g pot w1)) k < k) := by omega
      rw [hroots3 k (by omega) (by omega)] at hnr
      by_cases hin : w1 ≤ k ∧ k < Y
      · exact hall k (by omega) (by omega)
      · have hr := hp.cp.rng k (by omega) (by omega)
        have : ¬ g pot k < k := fun h => hnr ⟨h, hin⟩
        exact hp.i1 k h1 h2 (by omega)
    · intro k h1 h2
      rcases hval3 k (by omega) h2 with h | h | h | h
      · rw [h]; exact hp.i3 k h1 h2
      · omega
      · omega
      · rw [h]; exact hp.i3 w1 (by omega) (by omega)
  · intro Y' hY' hb k h1 h2 h3
    have hnr : ¬ (g (upd A2 Y (g pot w1)) k < k) := by omega
    rw [hroots3 k h1 h2] at hnr
    by_cases hin : w1 ≤ k ∧ k < Y
    · omega
    · have hr := hp.cp.rng k h1 h2
      have : ¬ g pot k < k := fun h => hnr ⟨h, hin⟩
      exact hb k h1 h2 (by omega)
  · rw [hYe]
    exact ⟨hw1, hwY, by omega, hwr, rfl, hvx, hvalY, hrootsv, hkeep⟩

/-- a stable set is discovered: the update of `stbl_intervals`, with the relation between the old
    and the new array -/
theorem lminStable_rel {N : Int} {sz : Nat} {tl pot stbl : Array Int} (hp : MPot N sz tl pot stbl)
    (hNsz : N < sz) (x y z : Int) (hy2 : 2 ≤ y) (hyN : y < N) (hpy : g pot y < y) (hsy : g stbl y < y)
    (c sets new_mins : Array Int) :
    ∃ stbl' w' wb vb, lminStable x y z pot tl c sets stbl new_mins =
        lminFin x pot tl c sets stbl' new_mins w' z ∧
      MPot N sz tl pot stbl' ∧ (∀ Y', y ≤ Y' → MBelow N stbl Y' → MBelow N stbl' Y') ∧
      1 ≤ g pot y ∧ SRel N y (g stbl) (g stbl') (g pot y) wb vb := by
  have hsp := hp.sp
  have hsb := hp.sb
  have hs1 := hp.i3 y hy2 (by omega)
  obtain ⟨w1, A1, A2, hpm, hps, hsz1, hvw, hw1, hwY, hwr, hw4, hps2, hsz2, hc3, hrootsv, hroots3,
      hvalY, hkeep, hval3⟩ :=
    chain_absorb_rel stbl N (g pot y) y hp.cb (by omega) hs1 (by omega) hyN hsy
  refine ⟨upd A2 y (g stbl w1), w1, w1, g stbl w1, ?_, ?_, ?_, hs1, ?_⟩
  · unfold lminStable
    rw [rd_ok pot y (by omega) (by omega), ok_bind, hpm, ok_bind, ok_bind, hps, ok_bind,
      rd_ok A1 w1 (by omega) (by omega), ok_bind, hvw, rd_ok A1 y (by omega) (by omega), ok_bind,
      hps2, ok_bind, wr_ok A2 y _ (by omega) (by omega), ok_bind]
  · exact ⟨hp.sp, by simp [hsz2, hsb], hp.cp, hc3, hp.i1, hp.i3⟩
  · intro Y' hY' hb k h1 h2 h3
    have hnr : ¬ (g (upd A2 y (g stbl w1)) k < k) := by omega
    rw [hroots3 k h1 h2] at hnr
    by_cases hin : w1 ≤ k ∧ k < y
    · omega
    · have hr := hp.cb.rng k h1 h2
      have : ¬ g stbl k < k := fun h => hnr ⟨h, hin⟩
      exact hb k h1 h2 (by omega)
  · exact ⟨hw1, hwY, hwr, hw4, rfl, hvalY, hrootsv, hkeep⟩

/-- the final path compression of `tl`: same roots, same root targets -/
theorem lminFin_relP {N : Int} {sz : Nat} {Kf : Int → Int} {tl c sets pot stbl : Array Int}
    (hc : MCore N sz Kf tl c sets) (hp : MPot N sz tl pot stbl) (x z : Int) (hx1 : 1 ≤ x)
    (hxz : x + 1 ≤ z) (hzN : z ≤ N) (hzr : g tl z < z)
    (hall : ∀ k, x + 1 ≤ k → k < z → g tl k > k) (new_mins : Array Int) (w : Int) :
    ∃ tl', lminFin x pot tl c sets stbl new_mins w z =
        .ok (.yield (tl', c, sets, stbl, pot, new_mins, w)) ∧
      MCore N sz Kf tl' c sets ∧ MPot N sz tl' pot stbl ∧
      (∀ k, 1 ≤ k → k ≤ N → (tlg tl' k < k ↔ tlg tl k < k)) ∧
      (∀ k, 1 ≤ k → k ≤ N → tlg tl k < k → tlg tl' k = tlg tl k) := by
  have hNsz := hc.hsz
  have hst := hc.st
  have hzr' : tlg tl z < z := by rw [tlg_ge2 tl z (by omega)]; exact hzr
  have hall' : ∀ k, x + 1 ≤ k → k < z → tlg tl k > k := by
    intro k h1 h2; rw [tlg_ge2 tl k (by omega)]; exact hall k h1 h2
  have hupt : ∀ p, x + 1 ≤ p → p < z → p < g tl p ∧ g tl p ≤ z := by
    intro p h1 h2
    have h3 := hall' p h1 h2
    have h4 := hc.ct.up_le_root (by omega) h2 hzN h3 hzr'
    rw [tlg_ge2 tl p (by omega)] at h3 h4
    exact ⟨h3, h4⟩
  obtain ⟨t3, hps, hsz3, hrel3⟩ :=
    path_set_up_compress tl (x + 1) z z (by omega) hxz (by omega) hupt
  obtain ⟨hct3, hroots3, hval3⟩ := hc.ct.compress hzN hall' (tlg_rel_of_g hrel3)
  unfold lminFin
  rw [hps, ok_bind]
  exact ⟨t3, rfl, hc.replace_tl (by omega) hct3 hroots3 hval3,
    hp.replace_tl hct3 (fun k h1 h2 h3 => (hroots3 k (by omega) (by omega)).1 h3),
    hroots3, hval3⟩

end Gcc
end Nucs
