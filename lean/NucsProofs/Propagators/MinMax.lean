import NucsProofs.Basic
/-!
  max_leq, min_geq, max_eq, min_eq : variables `x_0 … x_{n-2}, y` (n ≥ 2).

  Proved for each `a ∈ {maxLeq, minGeq, maxEq, minEq}`:
  `sound_a`, `groundOk_a`, `entailOk_a`, `contractMono_a`, `safe_a`, `trigOk_a`, `exact_a`.

  Layout: (1) the `xs ++ [y]` shape, (2) `maxOf`/`minOf`, (3) generic lifting of "core" contracts
  on `(xs, y)` to the `Spec` contracts on `B = xs ++ [y]` (`IsLift`, `*_lift`), (4) the four
  propagators: Sound / GroundOk / EntailOk / ContractMono / Safe, (5) trigger sufficiency
  (sign-dependent masks for max_leq / min_geq; `trigOk_of_minMax'` for the MIN|MAX masks),
  (6) exactness: the result is characterised as a fixpoint shape (`maxLeq_result_fix`,
  `MaxEqFix`, …), every bound is attained by an explicit tuple and the call is idempotent.
-/
namespace Nucs

/-! ### 1. the `xs ++ [y]` shape -/

theorem list_eq_front_back {α} (l : List α) (d : α) (h : l ≠ []) :
    l = l.dropLast ++ [l.getLastD d] := by
  rw [List.getLastD_eq_getLast?, List.getLast?_eq_some_getLast h]
  simp [List.dropLast_concat_getLast]

theorem Box.eq_front_back {B : Box} (h : B ≠ []) : B = B.front ++ [B.back] :=
  list_eq_front_back B (0, 0) h

theorem tuple_eq_front_back {t : List Int} (h : t ≠ []) : t = tFront t ++ [tBack t] :=
  list_eq_front_back t 0 h

theorem inBox_concat : ∀ {ts : List Int} {xs : Box} {v : Int} {y : Dom},
    inBox (ts ++ [v]) (xs ++ [y]) ↔ inBox ts xs ∧ inDom v y
  | [], [], v, y => by simp [inBox]
  | t :: ts, d :: ds, v, y => by
    simp [inBox, inBox_concat (ts := ts) (xs := ds), and_assoc]
  | [], d :: ds, v, y => by cases ds <;> simp [inBox]
  | t :: ts, [], v, y => by cases ts <;> simp [inBox]

theorem inBox_concat_right {t : List Int} {xs : Box} {y : Dom} (h : inBox t (xs ++ [y])) :
    ∃ ts v, t = ts ++ [v] ∧ inBox ts xs ∧ inDom v y := by
  have hl := inBox_length h
  have hne : t ≠ [] := by intro h0; subst h0; simp at hl
  have ht := tuple_eq_front_back hne
  rw [ht] at h
  exact ⟨_, _, ht, inBox_concat.mp h⟩

theorem Box.le_concat : ∀ {xs' xs : Box} {y' y : Dom},
    Box.le (xs' ++ [y']) (xs ++ [y]) ↔ Box.le xs' xs ∧ (y.1 ≤ y'.1 ∧ y'.2 ≤ y.2)
  | [], [], _, _ => by simp [Box.le]
  | d' :: ds', d :: ds, _, _ => by
    simp [Box.le, Box.le_concat (xs' := ds') (xs := ds), and_assoc]
  | [], d :: ds, _, _ => by cases ds <;> simp [Box.le]
  | d' :: ds', [], _, _ => by cases ds' <;> simp [Box.le]

theorem Box.nonempty_concat {xs : Box} {y : Dom} :
    Box.Nonempty (xs ++ [y]) ↔ Box.Nonempty xs ∧ y.1 ≤ y.2 := by
  simp only [Box.Nonempty, List.mem_append, List.mem_singleton]
  constructor
  · intro h; exact ⟨fun d hd => h d (Or.inl hd), h y (Or.inr rfl)⟩
  · rintro ⟨h1, h2⟩ d (hd | hd)
    · exact h1 d hd
    · subst hd; exact h2

theorem pointBox_concat (ts : List Int) (v : Int) : pointBox (ts ++ [v]) = pointBox ts ++ [(v, v)] := by
  simp [pointBox]

theorem liftLast_concat (core : Box → Dom → Status × Box × Dom) (xs : Box) (y : Dom) :
    liftLast core (xs ++ [y]) = ((core xs y).1, (core xs y).2.1 ++ [(core xs y).2.2]) := by
  simp [liftLast, Box.front, Box.back]

theorem tFront_concat (ts : List Int) (v : Int) : tFront (ts ++ [v]) = ts := by simp [tFront]
theorem tBack_concat (ts : List Int) (v : Int) : tBack (ts ++ [v]) = v := by simp [tBack]

/-- a box with at least two variables is `xs ++ [y]` with `xs ≠ []` -/
theorem Box.shape {B : Box} (h : 2 ≤ B.length) : ∃ xs y, B = xs ++ [y] ∧ xs ≠ [] := by
  have hne : B ≠ [] := by intro h0; subst h0; simp at h
  refine ⟨B.front, B.back, Box.eq_front_back hne, ?_⟩
  intro h0
  have := congrArg List.length (Box.eq_front_back hne)
  rw [h0] at this; simp at this; omega

/-! component access -/

theorem getDom_concat_left {xs : Box} {y : Dom} {k : Nat} (hk : k < xs.length) :
    getDom (xs ++ [y]) k = getDom xs k := by
  simp [getDom, List.getD, List.getElem?_append_left hk]

theorem getDom_concat_last (xs : Box) (y : Dom) : getDom (xs ++ [y]) xs.length = y := by
  simp [getDom, List.getD]

theorem getI_concat_left {ts : List Int} {v : Int} {k : Nat} (hk : k < ts.length) :
    getI (ts ++ [v]) k = getI ts k := by
  simp [getI, List.getD, List.getElem?_append_left hk]

theorem getI_concat_last (ts : List Int) (v : Int) : getI (ts ++ [v]) ts.length = v := by
  simp [getI, List.getD]

theorem getDom_map (f : Dom → Dom) {xs : Box} {k : Nat} (hk : k < xs.length) :
    getDom (xs.map f) k = f (getDom xs k) := by
  simp [getDom, List.getD, List.getElem?_eq_getElem hk]

theorem getDom_mem {xs : Box} {k : Nat} (hk : k < xs.length) : getDom xs k ∈ xs := by
  simp [getDom, List.getD, List.getElem?_eq_getElem hk]

theorem exists_getDom_of_mem {xs : Box} {d : Dom} (h : d ∈ xs) : ∃ k, k < xs.length ∧ getDom xs k = d := by
  obtain ⟨k, hk, he⟩ := List.getElem_of_mem h
  exact ⟨k, hk, by simp [getDom, List.getD, List.getElem?_eq_getElem hk, he]⟩

/-! `inBox` / `Box.le` against `map` -/

theorem Box.map_le' (f : Dom → Dom) :
    ∀ xs : Box, (∀ d ∈ xs, d.1 ≤ (f d).1 ∧ (f d).2 ≤ d.2) → Box.le (xs.map f) xs
  | [], _ => trivial
  | d :: ds, hf => ⟨hf d (by simp), Box.map_le' f ds (fun e he => hf e (by simp [he]))⟩

theorem Box.map_le (f : Dom → Dom) (hf : ∀ d, d.1 ≤ (f d).1 ∧ (f d).2 ≤ d.2) (xs : Box) :
    Box.le (xs.map f) xs := Box.map_le' f xs (fun d _ => hf d)

theorem Box.nonempty_map (f : Dom → Dom) (xs : Box) (h : ∀ d ∈ xs, (f d).1 ≤ (f d).2) :
    Box.Nonempty (xs.map f) := by
  intro e he
  obtain ⟨d, hd, rfl⟩ := List.mem_map.mp he
  exact h d hd

theorem inBox_map (f : Dom → Dom) (P : Int → Prop) (hf : ∀ x d, P x → inDom x d → inDom x (f d)) :
    ∀ {ts : List Int} {xs : Box}, inBox ts xs → (∀ x ∈ ts, P x) → inBox ts (xs.map f)
  | [], [], _, _ => trivial
  | t :: ts, d :: ds, h, hP =>
    ⟨hf t d (hP t (by simp)) h.1, inBox_map f P hf h.2 (fun x hx => hP x (by simp [hx]))⟩
  | [], _ :: _, h, _ => by simp [inBox] at h
  | _ :: _, [], h, _ => by simp [inBox] at h

/-- every domain of the box carries a value of the tuple -/
theorem inBox_exists_of_mem : ∀ {ts : List Int} {xs : Box}, inBox ts xs → ∀ d ∈ xs, ∃ x ∈ ts, inDom x d
  | [], [], _, d, hd => by simp at hd
  | t :: ts, e :: es, h, d, hd => by
    rcases List.mem_cons.mp hd with hd | hd
    · subst hd; exact ⟨t, by simp, h.1⟩
    · obtain ⟨x, hx, hxd⟩ := inBox_exists_of_mem h.2 d hd
      exact ⟨x, by simp [hx], hxd⟩
  | [], _ :: _, h, _, _ => by simp [inBox] at h
  | _ :: _, [], h, _, _ => by simp [inBox] at h

/-- every value of the tuple lies in a domain of the box -/
theorem inBox_exists_of_mem' : ∀ {ts : List Int} {xs : Box}, inBox ts xs → ∀ x ∈ ts, ∃ d ∈ xs, inDom x d
  | [], [], _, x, hx => by simp at hx
  | t :: ts, e :: es, h, x, hx => by
    rcases List.mem_cons.mp hx with hx | hx
    · subst hx; exact ⟨e, by simp, h.1⟩
    · obtain ⟨d, hd, hxd⟩ := inBox_exists_of_mem' h.2 x hx
      exact ⟨d, by simp [hd], hxd⟩
  | [], _ :: _, h, _, _ => by simp [inBox] at h
  | _ :: _, [], h, _, _ => by simp [inBox] at h

/-! ### 2. `maxOf` / `minOf` -/

theorem le_maxOf (f : Dom → Int) : ∀ (xs : Box) (d : Dom), d ∈ xs → f d ≤ maxOf f xs
  | [e], d, h => by simp at h; subst h; simp [maxOf]
  | e :: e' :: es, d, h => by
    simp only [maxOf]
    rcases List.mem_cons.mp h with h | h
    · subst h; omega
    · have := le_maxOf f (e' :: es) d h; omega

theorem maxOf_mem (f : Dom → Int) : ∀ (xs : Box), xs ≠ [] → ∃ d ∈ xs, f d = maxOf f xs
  | [e], _ => ⟨e, by simp, by simp [maxOf]⟩
  | e :: e' :: es, _ => by
    obtain ⟨d, hd, hfd⟩ := maxOf_mem f (e' :: es) (by simp)
    simp only [maxOf]
    by_cases hc : f e ≤ maxOf f (e' :: es)
    · exact ⟨d, List.mem_cons_of_mem _ hd, by omega⟩
    · exact ⟨e, by simp, by omega⟩

theorem maxOf_le (f : Dom → Int) (xs : Box) (hne : xs ≠ []) (c : Int) (h : ∀ d ∈ xs, f d ≤ c) :
    maxOf f xs ≤ c := by
  obtain ⟨d, hd, hfd⟩ := maxOf_mem f xs hne
  rw [← hfd]; exact h d hd

theorem minOf_le (f : Dom → Int) : ∀ (xs : Box) (d : Dom), d ∈ xs → minOf f xs ≤ f d
  | [e], d, h => by simp at h; subst h; simp [minOf]
  | e :: e' :: es, d, h => by
    simp only [minOf]
    rcases List.mem_cons.mp h with h | h
    · subst h; omega
    · have := minOf_le f (e' :: es) d h; omega

theorem minOf_mem (f : Dom → Int) : ∀ (xs : Box), xs ≠ [] → ∃ d ∈ xs, f d = minOf f xs
  | [e], _ => ⟨e, by simp, by simp [minOf]⟩
  | e :: e' :: es, _ => by
    obtain ⟨d, hd, hfd⟩ := minOf_mem f (e' :: es) (by simp)
    simp only [minOf]
    by_cases hc : minOf f (e' :: es) ≤ f e
    · exact ⟨d, List.mem_cons_of_mem _ hd, by omega⟩
    · exact ⟨e, by simp, by omega⟩

theorem le_minOf (f : Dom → Int) (xs : Box) (hne : xs ≠ []) (c : Int) (h : ∀ d ∈ xs, c ≤ f d) :
    c ≤ minOf f xs := by
  obtain ⟨d, hd, hfd⟩ := minOf_mem f xs hne
  rw [← hfd]; exact h d hd

/-! ### 3. lifting core contracts on `(xs, y)` to `B = xs ++ [y]` -/

abbrev Core := Box → Dom → Status × Box × Dom

/-- `a` is `liftLast core` with relation `R (front) (back)` and contract `2 ≤ n` -/
structure IsLift (a : Alg) (core : Core) (R : List Int → Int → Prop) : Prop where
  run : ∀ ps B, runAlg a ps B = .ok (liftLast core B)
  rel : ∀ ps t, rel a ps t ↔ R (tFront t) (tBack t)
  relW : ∀ ps t, relW a ps t ↔ R (tFront t) (tBack t)
  con : ∀ ps B, Contract a ps B ↔ 2 ≤ B.length

def CoreSound (core : Core) (R : List Int → Int → Prop) : Prop :=
  ∀ xs y st xs' y', xs ≠ [] → Box.Nonempty xs → y.1 ≤ y.2 → core xs y = (st, xs', y') →
    (st ≠ .inc → Box.le xs' xs ∧ (y.1 ≤ y'.1 ∧ y'.2 ≤ y.2) ∧ Box.Nonempty xs' ∧ y'.1 ≤ y'.2 ∧
      ∀ ts v, inBox ts xs → inDom v y → R ts v → inBox ts xs' ∧ inDom v y') ∧
    (st = .inc → ∀ ts v, inBox ts xs → inDom v y → ¬ R ts v)

def CoreGround (core : Core) (R : List Int → Int → Prop) : Prop :=
  ∀ xs y st ts v, xs ≠ [] → Box.Nonempty xs → y.1 ≤ y.2 → core xs y = (st, pointBox ts, (v, v)) →
    st ≠ .inc → R ts v

def CoreEntail (core : Core) (R : List Int → Int → Prop) : Prop :=
  ∀ xs y xs' y', xs ≠ [] → Box.Nonempty xs → y.1 ≤ y.2 → core xs y = (.ent, xs', y') →
    ∀ ts v, inBox ts xs' → inDom v y' → R ts v

def CoreTrig (core : Core) (mx my : Ev) : Prop :=
  ∀ xs y st xs' y' xs'' y'', xs ≠ [] → Box.Nonempty xs → y.1 ≤ y.2 → core xs y = (st, xs', y') →
    st ≠ .inc → Box.le xs'' xs' → (y'.1 ≤ y''.1 ∧ y''.2 ≤ y'.2) → Box.Nonempty xs'' → y''.1 ≤ y''.2 →
    (∀ k, k < xs.length → quiet mx (getDom xs k) (getDom xs'' k)) → quiet my y y'' →
    ∃ st'', core xs'' y'' = (st'', xs'', y'') ∧ st'' ≠ .inc

def CoreExact (core : Core) (R : List Int → Int → Prop) : Prop :=
  ∀ xs y st xs' y', xs ≠ [] → Box.Nonempty xs → y.1 ≤ y.2 → core xs y = (st, xs', y') → st ≠ .inc →
    (∀ k, k < xs'.length →
      (∃ ts v, inBox ts xs' ∧ inDom v y' ∧ R ts v ∧ getI ts k = (getDom xs' k).1) ∧
      (∃ ts v, inBox ts xs' ∧ inDom v y' ∧ R ts v ∧ getI ts k = (getDom xs' k).2)) ∧
    (∃ ts, inBox ts xs' ∧ R ts y'.1) ∧ (∃ ts, inBox ts xs' ∧ R ts y'.2) ∧
    (∃ st', core xs' y' = (st', xs', y') ∧ st' ≠ .inc)

section lift
variable {a : Alg} {core : Core} {R : List Int → Int → Prop}

theorem sound_lift (L : IsLift a core R) (h : CoreSound core R) : Sound a := by
  intro ps B st B' hc hne hrun
  obtain ⟨xs, y, rfl, hxs⟩ := Box.shape ((L.con ps _).mp hc)
  rw [L.run, liftLast_concat] at hrun
  injection hrun with hrun
  obtain ⟨hnx, hny⟩ := Box.nonempty_concat.mp hne
  rcases hcore : core xs y with ⟨st0, xs', y'⟩
  rw [hcore] at hrun
  injection hrun with h1 h2
  simp only at h1 h2
  subst h1; subst h2
  obtain ⟨hA, hB⟩ := h xs y st0 xs' y' hxs hnx hny hcore
  constructor
  · intro hst
    obtain ⟨h1, h2, h3, h4, h5⟩ := hA hst
    refine ⟨Box.le_concat.mpr ⟨h1, h2⟩, Box.nonempty_concat.mpr ⟨h3, h4⟩, fun t ht hr => ?_⟩
    obtain ⟨ts, v, rfl, hts, hv⟩ := inBox_concat_right ht
    rw [L.rel, tFront_concat, tBack_concat] at hr
    exact inBox_concat.mpr (h5 ts v hts hv hr)
  · intro hst t ht hr
    obtain ⟨ts, v, rfl, hts, hv⟩ := inBox_concat_right ht
    rw [L.rel, tFront_concat, tBack_concat] at hr
    exact hB hst ts v hts hv hr

theorem entailOk_lift (L : IsLift a core R) (h : CoreEntail core R) : EntailOk a := by
  intro ps B B' hc hne hrun t ht
  obtain ⟨xs, y, rfl, hxs⟩ := Box.shape ((L.con ps _).mp hc)
  rw [L.run, liftLast_concat] at hrun
  injection hrun with hrun
  obtain ⟨hnx, hny⟩ := Box.nonempty_concat.mp hne
  rcases hcore : core xs y with ⟨st0, xs', y'⟩
  rw [hcore] at hrun
  injection hrun with h1 h2
  simp only at h1 h2
  subst h1; subst h2
  obtain ⟨ts, v, rfl, hts, hv⟩ := inBox_concat_right ht
  rw [L.rel, tFront_concat, tBack_concat]
  exact h xs y xs' y' hxs hnx hny hcore ts v hts hv

theorem groundOk_lift (L : IsLift a core R) (h : CoreGround core R) : GroundOk a := by
  intro ps B st B' t hc hne hrun hst hB'
  obtain ⟨xs, y, rfl, hxs⟩ := Box.shape ((L.con ps _).mp hc)
  rw [L.run, liftLast_concat] at hrun
  injection hrun with hrun
  obtain ⟨hnx, hny⟩ := Box.nonempty_concat.mp hne
  rcases hcore : core xs y with ⟨st0, xs', y'⟩
  rw [hcore] at hrun
  injection hrun with h1 h2
  simp only at h1 h2
  subst h1
  have htne : t ≠ [] := by
    intro h0; subst h0; rw [hB'] at h2; simp [pointBox] at h2
  rw [tuple_eq_front_back htne, pointBox_concat] at hB'
  rw [hB'] at h2
  have hl : xs'.length = (pointBox (tFront t)).length := by
    have := congrArg List.length h2; simpa using this
  obtain ⟨e1, e2⟩ := List.append_inj h2 hl
  simp only [List.cons.injEq, and_true] at e2
  subst e1; subst e2
  rw [L.relW]
  exact h xs y st0 (tFront t) (tBack t) hxs hnx hny hcore hst

theorem contractMono_lift (L : IsLift a core R) : ContractMono a := by
  intro ps B B' hc hle
  rw [L.con] at *
  rw [Box.le_length hle]; exact hc

theorem safe_lift (L : IsLift a core R) : Safe a := fun ps B _ _ => ⟨_, L.run ps B⟩

theorem trigOk_lift (L : IsLift a core R) (mx my : Ev)
    (hm : ∀ ps n k, k + 1 < n → maskAlg a ps n k = mx)
    (hm' : ∀ ps n k, k + 1 = n → maskAlg a ps n k = my)
    (hs : CoreSound core R) (h : CoreTrig core mx my) : TrigOk a := by
  intro ps B st B' B'' hc hne hrun hst hle hne'' hq
  obtain ⟨xs, y, rfl, hxs⟩ := Box.shape ((L.con ps _).mp hc)
  rw [L.run, liftLast_concat] at hrun
  injection hrun with hrun
  obtain ⟨hnx, hny⟩ := Box.nonempty_concat.mp hne
  rcases hcore : core xs y with ⟨st0, xs', y'⟩
  rw [hcore] at hrun
  injection hrun with h1 h2
  simp only at h1 h2
  subst h1; subst h2
  have hl'' := Box.le_length hle
  obtain ⟨xs'', y'', rfl, hxs''⟩ : ∃ xs'' y'', B'' = xs'' ++ [y''] ∧ True := by
    have : B'' ≠ [] := by intro h0; subst h0; simp at hl''
    exact ⟨_, _, Box.eq_front_back this, trivial⟩
  obtain ⟨hle1, hle2⟩ := Box.le_concat.mp hle
  obtain ⟨hn1, hn2⟩ := Box.nonempty_concat.mp hne''
  have hlx' := Box.le_length hle1
  have hlx : xs'.length = xs.length :=
    Box.le_length ((hs xs y st0 xs' y' hxs hnx hny hcore).1 hst).1
  have hlen : (xs ++ [y]).length = xs.length + 1 := by simp
  have hqx : ∀ k, k < xs.length → quiet mx (getDom xs k) (getDom xs'' k) := by
    intro k hk
    have := hq k (by omega)
    rw [hm ps _ k (by omega), getDom_concat_left hk, getDom_concat_left (by omega)] at this
    exact this
  have hqy : quiet my y y'' := by
    have := hq xs.length (by omega)
    rw [hm' ps _ _ (by omega), getDom_concat_last] at this
    have e : xs.length = xs''.length := by omega
    rw [e, getDom_concat_last] at this
    exact this
  obtain ⟨st'', h1, h2⟩ := h xs y st0 xs' y' xs'' y'' hxs hnx hny hcore hst hle1 hle2 hn1 hn2 hqx hqy
  refine ⟨st'', ?_, h2⟩
  rw [L.run, liftLast_concat, h1]

end lift

/-! ### 4a. max_leq : `Max_i x_i ≤ y` -/

def RmaxLeq (ts : List Int) (v : Int) : Prop := ∀ x ∈ ts, x ≤ v

theorem isLift_maxLeq : IsLift .maxLeq maxLeqCore RmaxLeq :=
  ⟨fun _ _ => rfl, fun _ _ => Iff.rfl, fun _ _ => Iff.rfl, fun _ _ => Iff.rfl⟩

/-- the three outcomes of `maxLeqCore` -/
theorem maxLeqCore_cases (xs : Box) (y : Dom) :
    (maxOf (·.2) xs ≤ y.1 ∧ maxLeqCore xs y = (.ent, xs, y)) ∨
    (¬ maxOf (·.2) xs ≤ y.1 ∧ maxLeqCore xs y = (.inc, xs, y) ∧
      (max y.1 (maxOf (·.1) xs) > y.2 ∨ ¬ Box.Nonempty (xs.map (fun d => (d.1, min d.2 y.2))))) ∨
    (¬ maxOf (·.2) xs ≤ y.1 ∧ max y.1 (maxOf (·.1) xs) ≤ y.2 ∧
      Box.Nonempty (xs.map (fun d => (d.1, min d.2 y.2))) ∧
      maxLeqCore xs y = (.cons, xs.map (fun d => (d.1, min d.2 y.2)), (max y.1 (maxOf (·.1) xs), y.2))) := by
  simp only [maxLeqCore]
  by_cases h1 : maxOf (·.2) xs ≤ y.1
  · left; simp [h1]
  · right
    by_cases h2 : max y.1 (maxOf (·.1) xs) > y.2
    · left; simp [h1, h2]
    · by_cases h3 : Box.hasEmpty (xs.map (fun d => (d.1, min d.2 y.2))) = true
      · left
        refine ⟨h1, by simp [h1, h2, h3], Or.inr ?_⟩
        rw [← Box.hasEmpty_eq_false_iff]; simp [h3]
      · right
        have h3' : Box.hasEmpty (xs.map (fun d => (d.1, min d.2 y.2))) = false := by simpa using h3
        refine ⟨h1, by omega, (Box.hasEmpty_eq_false_iff _).mp h3', ?_⟩
        simp [h1, h2, h3']

theorem maxLeq_keep {xs : Box} {y : Dom} {ts : List Int} {v : Int} (hxs : xs ≠ [])
    (hts : inBox ts xs) (hv : inDom v y) (hr : RmaxLeq ts v) :
    inBox ts (xs.map (fun d => (d.1, min d.2 y.2))) ∧ inDom v (max y.1 (maxOf (·.1) xs), y.2) := by
  constructor
  · refine inBox_map _ (fun x => x ≤ v) ?_ hts hr
    intro x d hx hxd
    unfold inDom at *
    simp only
    omega
  · obtain ⟨d, hd, hfd⟩ := maxOf_mem (·.1) xs hxs
    obtain ⟨x, hx, hxd⟩ := inBox_exists_of_mem hts d hd
    have := hr x hx
    unfold inDom at *
    simp only at *
    omega

theorem coreSound_maxLeq : CoreSound maxLeqCore RmaxLeq := by
  intro xs y st xs' y' hxs hnx hny hcore
  rcases maxLeqCore_cases xs y with ⟨_, he⟩ | ⟨_, he, hf⟩ | ⟨_, h2, h3, he⟩
  · rw [he] at hcore
    injection hcore with h1 hcore; injection hcore with h2 h3
    subst h1; subst h2; subst h3
    exact ⟨fun _ => ⟨Box.le_refl _, ⟨Int.le_refl _, Int.le_refl _⟩, hnx, hny, fun ts v a b _ => ⟨a, b⟩⟩,
      fun h => by cases h⟩
  · rw [he] at hcore
    injection hcore with h1 hcore
    subst h1
    refine ⟨fun h => absurd rfl h, fun _ ts v hts hv hr => ?_⟩
    obtain ⟨k1, k2⟩ := maxLeq_keep hxs hts hv hr
    rcases hf with hf | hf
    · unfold inDom at k2; simp only at k2; omega
    · exact hf (nonempty_of_inBox k1)
  · rw [he] at hcore
    injection hcore with h1 hcore; injection hcore with h4 h5
    subst h1; subst h4; subst h5
    refine ⟨fun _ => ⟨Box.map_le _ (fun d => ?_) xs, ?_, h3, h2, fun ts v a b c => maxLeq_keep hxs a b c⟩,
      fun h => by cases h⟩
    · simp only; omega
    · simp only; omega

theorem sound_maxLeq : Sound .maxLeq := sound_lift isLift_maxLeq coreSound_maxLeq

theorem mem_pointBox {ts : List Int} {d : Dom} : d ∈ pointBox ts ↔ ∃ x ∈ ts, d = (x, x) := by
  simp [pointBox, eq_comm]

theorem coreGround_maxLeq : CoreGround maxLeqCore RmaxLeq := by
  intro xs y st ts v hxs hnx hny hcore hst x hx
  rcases maxLeqCore_cases xs y with ⟨h0, he⟩ | ⟨_, he, _⟩ | ⟨_, h2, h3, he⟩
  · rw [he] at hcore
    injection hcore with h1 hcore; injection hcore with h2 h3
    subst h2; subst h3
    have := le_maxOf (·.2) (pointBox ts) (x, x) (mem_pointBox.mpr ⟨x, hx, rfl⟩)
    simp only at this h0
    omega
  · rw [he] at hcore
    injection hcore with h1 hcore
    exact absurd h1.symm hst
  · rw [he] at hcore
    injection hcore with h1 hcore; injection hcore with h4 h5
    have hm : (x, x) ∈ xs.map (fun d => (d.1, min d.2 y.2)) := by
      rw [h4]; exact mem_pointBox.mpr ⟨x, hx, rfl⟩
    obtain ⟨d, _, hd⟩ := List.mem_map.mp hm
    injection hd with e1 e2
    injection h5 with e3 e4
    omega

theorem groundOk_maxLeq : GroundOk .maxLeq := groundOk_lift isLift_maxLeq coreGround_maxLeq

theorem coreEntail_maxLeq : CoreEntail maxLeqCore RmaxLeq := by
  intro xs y xs' y' hxs hnx hny hcore ts v hts hv x hx
  rcases maxLeqCore_cases xs y with ⟨h0, he⟩ | ⟨_, he, _⟩ | ⟨_, h2, h3, he⟩
  · rw [he] at hcore
    injection hcore with h1 hcore; injection hcore with h2 h3
    subst h2; subst h3
    obtain ⟨d, hd, hxd⟩ := inBox_exists_of_mem' hts x hx
    have := le_maxOf (·.2) xs d hd
    unfold inDom at *
    omega
  · rw [he] at hcore; injection hcore with h1 _; cases h1
  · rw [he] at hcore; injection hcore with h1 _; cases h1

theorem entailOk_maxLeq : EntailOk .maxLeq := entailOk_lift isLift_maxLeq coreEntail_maxLeq
theorem contractMono_maxLeq : ContractMono .maxLeq := contractMono_lift isLift_maxLeq
theorem safe_maxLeq : Safe .maxLeq := safe_lift isLift_maxLeq

/-! ### 4b. min_geq : `Min_i x_i ≥ y` -/

def RminGeq (ts : List Int) (v : Int) : Prop := ∀ x ∈ ts, v ≤ x

theorem isLift_minGeq : IsLift .minGeq minGeqCore RminGeq :=
  ⟨fun _ _ => rfl, fun _ _ => Iff.rfl, fun _ _ => Iff.rfl, fun _ _ => Iff.rfl⟩

/-- the three outcomes of `minGeqCore` -/
theorem minGeqCore_cases (xs : Box) (y : Dom) :
    (y.2 ≤ minOf (·.1) xs ∧ minGeqCore xs y = (.ent, xs, y)) ∨
    (¬ y.2 ≤ minOf (·.1) xs ∧ minGeqCore xs y = (.inc, xs, y) ∧
      (y.1 > min y.2 (minOf (·.2) xs) ∨ ¬ Box.Nonempty (xs.map (fun d => (max d.1 y.1, d.2))))) ∨
    (¬ y.2 ≤ minOf (·.1) xs ∧ y.1 ≤ min y.2 (minOf (·.2) xs) ∧
      Box.Nonempty (xs.map (fun d => (max d.1 y.1, d.2))) ∧
      minGeqCore xs y = (.cons, xs.map (fun d => (max d.1 y.1, d.2)), (y.1, min y.2 (minOf (·.2) xs)))) := by
  simp only [minGeqCore]
  by_cases h1 : y.2 ≤ minOf (·.1) xs
  · left; simp [h1]
  · right
    by_cases h2 : y.1 > min y.2 (minOf (·.2) xs)
    · left; simp [h1, h2]
    · by_cases h3 : Box.hasEmpty (xs.map (fun d => (max d.1 y.1, d.2))) = true
      · left
        refine ⟨h1, by simp [h1, h2, h3], Or.inr ?_⟩
        rw [← Box.hasEmpty_eq_false_iff]; simp [h3]
      · right
        have h3' : Box.hasEmpty (xs.map (fun d => (max d.1 y.1, d.2))) = false := by simpa using h3
        refine ⟨h1, by omega, (Box.hasEmpty_eq_false_iff _).mp h3', ?_⟩
        simp [h1, h2, h3']

theorem minGeq_keep {xs : Box} {y : Dom} {ts : List Int} {v : Int} (hxs : xs ≠ [])
    (hts : inBox ts xs) (hv : inDom v y) (hr : RminGeq ts v) :
    inBox ts (xs.map (fun d => (max d.1 y.1, d.2))) ∧ inDom v (y.1, min y.2 (minOf (·.2) xs)) := by
  constructor
  · refine inBox_map _ (fun x => v ≤ x) ?_ hts hr
    intro x d hx hxd
    unfold inDom at *
    simp only
    omega
  · obtain ⟨d, hd, hfd⟩ := minOf_mem (·.2) xs hxs
    obtain ⟨x, hx, hxd⟩ := inBox_exists_of_mem hts d hd
    have := hr x hx
    unfold inDom at *
    simp only at *
    omega

theorem coreSound_minGeq : CoreSound minGeqCore RminGeq := by
  intro xs y st xs' y' hxs hnx hny hcore
  rcases minGeqCore_cases xs y with ⟨_, he⟩ | ⟨_, he, hf⟩ | ⟨_, h2, h3, he⟩
  · rw [he] at hcore
    injection hcore with h1 hcore; injection hcore with h2 h3
    subst h1; subst h2; subst h3
    exact ⟨fun _ => ⟨Box.le_refl _, ⟨Int.le_refl _, Int.le_refl _⟩, hnx, hny, fun ts v a b _ => ⟨a, b⟩⟩,
      fun h => by cases h⟩
  · rw [he] at hcore
    injection hcore with h1 hcore
    subst h1
    refine ⟨fun h => absurd rfl h, fun _ ts v hts hv hr => ?_⟩
    obtain ⟨k1, k2⟩ := minGeq_keep hxs hts hv hr
    rcases hf with hf | hf
    · unfold inDom at k2; simp only at k2; omega
    · exact hf (nonempty_of_inBox k1)
  · rw [he] at hcore
    injection hcore with h1 hcore; injection hcore with h4 h5
    subst h1; subst h4; subst h5
    refine ⟨fun _ => ⟨Box.map_le _ (fun d => ?_) xs, ?_, h3, h2, fun ts v a b c => minGeq_keep hxs a b c⟩,
      fun h => by cases h⟩
    · simp only; omega
    · simp only; omega

theorem sound_minGeq : Sound .minGeq := sound_lift isLift_minGeq coreSound_minGeq

theorem coreGround_minGeq : CoreGround minGeqCore RminGeq := by
  intro xs y st ts v hxs hnx hny hcore hst x hx
  rcases minGeqCore_cases xs y with ⟨h0, he⟩ | ⟨_, he, _⟩ | ⟨_, h2, h3, he⟩
  · rw [he] at hcore
    injection hcore with h1 hcore; injection hcore with h2 h3
    subst h2; subst h3
    have := minOf_le (·.1) (pointBox ts) (x, x) (mem_pointBox.mpr ⟨x, hx, rfl⟩)
    simp only at this h0
    omega
  · rw [he] at hcore
    injection hcore with h1 hcore
    exact absurd h1.symm hst
  · rw [he] at hcore
    injection hcore with h1 hcore; injection hcore with h4 h5
    have hm : (x, x) ∈ xs.map (fun d => (max d.1 y.1, d.2)) := by
      rw [h4]; exact mem_pointBox.mpr ⟨x, hx, rfl⟩
    obtain ⟨d, _, hd⟩ := List.mem_map.mp hm
    injection hd with e1 e2
    injection h5 with e3 e4
    omega

theorem groundOk_minGeq : GroundOk .minGeq := groundOk_lift isLift_minGeq coreGround_minGeq

theorem coreEntail_minGeq : CoreEntail minGeqCore RminGeq := by
  intro xs y xs' y' hxs hnx hny hcore ts v hts hv x hx
  rcases minGeqCore_cases xs y with ⟨h0, he⟩ | ⟨_, he, _⟩ | ⟨_, h2, h3, he⟩
  · rw [he] at hcore
    injection hcore with h1 hcore; injection hcore with h2 h3
    subst h2; subst h3
    obtain ⟨d, hd, hxd⟩ := inBox_exists_of_mem' hts x hx
    have := minOf_le (·.1) xs d hd
    unfold inDom at *
    omega
  · rw [he] at hcore; injection hcore with h1 _; cases h1
  · rw [he] at hcore; injection hcore with h1 _; cases h1

theorem entailOk_minGeq : EntailOk .minGeq := entailOk_lift isLift_minGeq coreEntail_minGeq
theorem contractMono_minGeq : ContractMono .minGeq := contractMono_lift isLift_minGeq
theorem safe_minGeq : Safe .minGeq := safe_lift isLift_minGeq

/-! ### 4c. max_eq : `Max_i x_i = y` -/

def RmaxEq (ts : List Int) (v : Int) : Prop := v ∈ ts ∧ ∀ x ∈ ts, x ≤ v

theorem isLift_maxEq : IsLift .maxEq maxEqCore RmaxEq :=
  ⟨fun _ _ => rfl, fun _ _ => Iff.rfl, fun _ _ => Iff.rfl, fun _ _ => Iff.rfl⟩

def mxLo (xs : Box) (y : Dom) : Int := max y.1 (maxOf (·.1) xs)
def mxHi (xs : Box) (y : Dom) : Int := min y.2 (maxOf (·.2) xs)
/-- cap the upper bound at `hi` -/
def capD (hi : Int) (d : Dom) : Dom := if d.2 > hi then (d.1, hi) else d
/-- the only candidate must take a value `≥ lo` -/
def raiseD (lo : Int) (d : Dom) : Dom := if d.2 ≥ lo then (lo, d.2) else d
def nCand (lo : Int) (zs : Box) : Nat := (zs.filter (fun d => decide (d.2 ≥ lo))).length

theorem maxEqCore_cases (xs : Box) (y : Dom) :
    (mxLo xs y > mxHi xs y ∧ maxEqCore xs y = (.inc, xs, y)) ∨
    (mxLo xs y ≤ mxHi xs y ∧ nCand (mxLo xs y) (xs.map (capD (mxHi xs y))) = 1 ∧
      maxEqCore xs y = (.cons, (xs.map (capD (mxHi xs y))).map (raiseD (mxLo xs y)), (mxLo xs y, mxHi xs y))) ∨
    (mxLo xs y ≤ mxHi xs y ∧ nCand (mxLo xs y) (xs.map (capD (mxHi xs y))) ≠ 1 ∧
      maxEqCore xs y = (.cons, xs.map (capD (mxHi xs y)), (mxLo xs y, mxHi xs y))) := by
  by_cases h1 : mxLo xs y > mxHi xs y
  · left; refine ⟨h1, ?_⟩
    unfold mxLo mxHi at h1
    simp [maxEqCore, h1]
  · right
    by_cases h2 : nCand (mxLo xs y) (xs.map (capD (mxHi xs y))) = 1
    · left; refine ⟨by omega, h2, ?_⟩
      unfold mxLo mxHi nCand capD raiseD at *
      simp only [maxEqCore]
      rw [if_neg h1, h2]
      rfl
    · right; refine ⟨by omega, h2, ?_⟩
      unfold mxLo mxHi nCand capD at *
      simp only [maxEqCore]
      rw [if_neg h1]
      simp only [beq_iff_eq]
      rw [if_neg h2]

/-- a solution's `y` value lies in the new `y` domain -/
theorem maxEq_keep_y {xs : Box} {y : Dom} {ts : List Int} {v : Int}
    (hts : inBox ts xs) (hv : inDom v y) (hr : RmaxEq ts v) (hxs : xs ≠ []) :
    mxLo xs y ≤ v ∧ v ≤ mxHi xs y := by
  unfold mxLo mxHi
  obtain ⟨hmem, hle⟩ := hr
  obtain ⟨d, hd, hfd⟩ := maxOf_mem (·.1) xs hxs
  obtain ⟨x, hx, hxd⟩ := inBox_exists_of_mem hts d hd
  have := hle x hx
  obtain ⟨e, he, hve⟩ := inBox_exists_of_mem' hts v hmem
  have := le_maxOf (·.2) xs e he
  unfold inDom at *
  omega

theorem map_raiseD_of_nCand_zero (lo : Int) : ∀ (zs : Box), nCand lo zs = 0 → zs.map (raiseD lo) = zs
  | [], _ => rfl
  | d :: ds, h => by
    unfold nCand at h
    by_cases hc : d.2 ≥ lo
    · simp [List.filter, hc] at h
    · have h' : nCand lo ds = 0 := by simpa [nCand, List.filter, hc] using h
      simp [raiseD, hc, map_raiseD_of_nCand_zero lo ds h']

theorem nCand_pos_of_inBox (lo : Int) : ∀ {ts : List Int} {zs : Box}, inBox ts zs →
    (∃ x ∈ ts, lo ≤ x) → 0 < nCand lo zs
  | [], [], _, ⟨x, hx, _⟩ => by simp at hx
  | t :: ts, d :: ds, h, ⟨x, hx, hlo⟩ => by
    unfold nCand
    by_cases hc : d.2 ≥ lo
    · simp [List.filter, hc]
    · have : x ∈ ts := by
        rcases List.mem_cons.mp hx with hx | hx
        · subst hx; have := h.1; unfold inDom at this; omega
        · exact hx
      have := nCand_pos_of_inBox lo h.2 ⟨x, this, hlo⟩
      simpa [nCand, List.filter, hc] using this
  | [], _ :: _, h, _ => by simp [inBox] at h
  | _ :: _, [], h, _ => by simp [inBox] at h

/-- with at most one candidate, the value `≥ lo` sits on it -/
theorem maxEq_keep_raise (lo : Int) : ∀ {ts : List Int} {zs : Box}, inBox ts zs → nCand lo zs ≤ 1 →
    (∃ x ∈ ts, lo ≤ x) → inBox ts (zs.map (raiseD lo))
  | [], [], _, _, _ => trivial
  | t :: ts, d :: ds, h, hn, ⟨x, hx, hlo⟩ => by
    by_cases hc : d.2 ≥ lo
    · have h0 : nCand lo ds = 0 := by
        simp [nCand, List.filter, hc] at hn; simpa [nCand] using hn
      have hxt : x = t := by
        rcases List.mem_cons.mp hx with hx | hx
        · exact hx
        · have := nCand_pos_of_inBox lo h.2 ⟨x, hx, hlo⟩; omega
      subst hxt
      rw [List.map_cons, map_raiseD_of_nCand_zero lo ds h0]
      refine ⟨?_, h.2⟩
      have := h.1
      unfold inDom raiseD at *
      simp only [hc, if_true]
      omega
    · have hn' : nCand lo ds ≤ 1 := by simpa [nCand, List.filter, hc] using hn
      have : x ∈ ts := by
        rcases List.mem_cons.mp hx with hx | hx
        · subst hx; have := h.1; unfold inDom at this; omega
        · exact hx
      have ih := maxEq_keep_raise lo h.2 hn' ⟨x, this, hlo⟩
      refine ⟨?_, ih⟩
      simpa [raiseD, hc] using h.1
  | [], _ :: _, h, _, _ => by simp [inBox] at h
  | _ :: _, [], h, _, _ => by simp [inBox] at h

theorem maxEq_keep_cap {xs : Box} {hi : Int} {ts : List Int} (hts : inBox ts xs)
    (hle : ∀ x ∈ ts, x ≤ hi) : inBox ts (xs.map (capD hi)) := by
  refine inBox_map _ (fun x => x ≤ hi) ?_ hts hle
  intro x d hx hxd
  unfold inDom capD at *
  split
  · simp only; omega
  · exact hxd

/-- shape of the capped box: mins untouched and `≤ lo`, maxes `≤ hi`, non-empty -/
theorem capD_facts {xs : Box} {y : Dom} (hnx : Box.Nonempty xs) (h : mxLo xs y ≤ mxHi xs y) :
    ∀ d ∈ xs, (capD (mxHi xs y) d).1 = d.1 ∧ d.1 ≤ mxLo xs y ∧ (capD (mxHi xs y) d).2 ≤ mxHi xs y ∧
      (capD (mxHi xs y) d).2 ≤ d.2 ∧ (capD (mxHi xs y) d).1 ≤ (capD (mxHi xs y) d).2 := by
  intro d hd
  have h1 := le_maxOf (·.1) xs d hd
  have h2 := hnx d hd
  have h3 : maxOf (·.1) xs ≤ mxLo xs y := by unfold mxLo; omega
  have h1' : d.1 ≤ maxOf (·.1) xs := h1
  by_cases hc : d.2 > mxHi xs y
  · rw [capD, if_pos hc]; exact ⟨rfl, by omega, Int.le_refl _, by simp only; omega, by simp only; omega⟩
  · rw [capD, if_neg hc]; exact ⟨rfl, by omega, by omega, Int.le_refl _, h2⟩

theorem raiseD_facts (lo : Int) (d : Dom) (h : d.1 ≤ lo) (hd : d.1 ≤ d.2) :
    d.1 ≤ (raiseD lo d).1 ∧ (raiseD lo d).2 = d.2 ∧ (raiseD lo d).1 ≤ (raiseD lo d).2 := by
  by_cases hc : d.2 ≥ lo
  · rw [raiseD, if_pos hc]; exact ⟨h, rfl, hc⟩
  · rw [raiseD, if_neg hc]; exact ⟨Int.le_refl _, rfl, hd⟩

theorem coreSound_maxEq : CoreSound maxEqCore RmaxEq := by
  intro xs y st xs' y' hxs hnx hny hcore
  have hyle : mxLo xs y ≤ mxHi xs y → (y.1 ≤ (mxLo xs y, mxHi xs y).1 ∧ (mxLo xs y, mxHi xs y).2 ≤ y.2) := by
    intro _; unfold mxLo mxHi; simp only; omega
  rcases maxEqCore_cases xs y with ⟨h0, he⟩ | ⟨h0, hn, he⟩ | ⟨h0, hn, he⟩
  · rw [he] at hcore
    injection hcore with h1 hcore
    subst h1
    refine ⟨fun h => absurd rfl h, fun _ ts v hts hv hr => ?_⟩
    have := maxEq_keep_y hts hv hr hxs
    omega
  · rw [he] at hcore
    injection hcore with h1 hcore; injection hcore with h4 h5
    subst h1; subst h4; subst h5
    have hcf := capD_facts (y := y) hnx h0
    refine ⟨fun _ => ⟨?_, hyle h0, ?_, h0, fun ts v hts hv hr => ?_⟩, fun h => by cases h⟩
    · rw [List.map_map]
      refine Box.map_le' _ xs (fun d hd => ?_)
      obtain ⟨c1, c2, c3, c4, c5⟩ := hcf d hd
      have := raiseD_facts (mxLo xs y) (capD (mxHi xs y) d) (by omega) c5
      simp only [Function.comp]
      omega
    · rw [List.map_map]
      refine Box.nonempty_map _ xs (fun d hd => ?_)
      obtain ⟨c1, c2, c3, c4, c5⟩ := hcf d hd
      exact (raiseD_facts (mxLo xs y) (capD (mxHi xs y) d) (by omega) c5).2.2
    · have hk := maxEq_keep_y hts hv hr hxs
      have hcap := maxEq_keep_cap (hi := mxHi xs y) hts (fun x hx => by have := hr.2 x hx; omega)
      exact ⟨maxEq_keep_raise _ hcap (by omega) ⟨v, hr.1, hk.1⟩, hk⟩
  · rw [he] at hcore
    injection hcore with h1 hcore; injection hcore with h4 h5
    subst h1; subst h4; subst h5
    have hcf := capD_facts (y := y) hnx h0
    refine ⟨fun _ => ⟨?_, hyle h0, ?_, h0, fun ts v hts hv hr => ?_⟩, fun h => by cases h⟩
    · refine Box.map_le' _ xs (fun d hd => ?_)
      obtain ⟨c1, c2, c3, c4, c5⟩ := hcf d hd
      omega
    · exact Box.nonempty_map _ xs (fun d hd => (hcf d hd).2.2.2.2)
    · have hk := maxEq_keep_y hts hv hr hxs
      exact ⟨maxEq_keep_cap hts (fun x hx => by have := hr.2 x hx; omega), hk⟩

theorem sound_maxEq : Sound .maxEq := sound_lift isLift_maxEq coreSound_maxEq

theorem contractMono_maxEq : ContractMono .maxEq := contractMono_lift isLift_maxEq
theorem safe_maxEq : Safe .maxEq := safe_lift isLift_maxEq

theorem nCand_pos_of_mem (lo : Int) : ∀ (zs : Box) (e : Dom), e ∈ zs → e.2 ≥ lo → 0 < nCand lo zs
  | d :: ds, e, he, h => by
    unfold nCand
    by_cases hc : d.2 ≥ lo
    · simp [List.filter, hc]
    · have : e ∈ ds := by
        rcases List.mem_cons.mp he with he | he
        · subst he; exact absurd h hc
        · exact he
      have := nCand_pos_of_mem lo ds e this h
      simpa [nCand, List.filter, hc] using this

/-- what a non-failing `maxEqCore` call establishes (and what makes a box a fixpoint) -/
structure MaxEqFix (zs : Box) (lo hi : Int) : Prop where
  le : lo ≤ hi
  bnd : ∀ e ∈ zs, e.1 ≤ lo ∧ e.1 ≤ e.2 ∧ e.2 ≤ hi
  top : ∃ e ∈ zs, e.2 = hi
  cand : ∀ e ∈ zs, e.2 ≥ lo → e.1 = lo ∨ 2 ≤ nCand lo zs

theorem capD_top {xs : Box} {y : Dom} (hxs : xs ≠ []) :
    ∃ d ∈ xs, (capD (mxHi xs y) d).2 = mxHi xs y := by
  obtain ⟨d, hd, hfd⟩ := maxOf_mem (·.2) xs hxs
  refine ⟨d, hd, ?_⟩
  have : mxHi xs y ≤ d.2 := by unfold mxHi; omega
  by_cases hc : d.2 > mxHi xs y
  · rw [capD, if_pos hc]
  · rw [capD, if_neg hc]; omega

theorem maxEq_result_fix {xs : Box} {y : Dom} {st : Status} {xs' : Box} {y' : Dom}
    (hxs : xs ≠ []) (hnx : Box.Nonempty xs) (hcore : maxEqCore xs y = (st, xs', y')) (hst : st ≠ .inc) :
    y' = (mxLo xs y, mxHi xs y) ∧ MaxEqFix xs' (mxLo xs y) (mxHi xs y) := by
  rcases maxEqCore_cases xs y with ⟨h0, he⟩ | ⟨h0, hn, he⟩ | ⟨h0, hn, he⟩
  · rw [he] at hcore
    injection hcore with h1 _
    exact absurd h1.symm hst
  · rw [he] at hcore
    injection hcore with h1 hcore; injection hcore with h4 h5
    subst h4; subst h5
    have hcf := capD_facts (y := y) hnx h0
    refine ⟨rfl, h0, ?_, ?_, ?_⟩
    · intro e he
      rw [List.map_map] at he
      obtain ⟨d, hd, rfl⟩ := List.mem_map.mp he
      obtain ⟨c1, c2, c3, c4, c5⟩ := hcf d hd
      simp only [Function.comp]
      by_cases hc : (capD (mxHi xs y) d).2 ≥ mxLo xs y
      · rw [raiseD, if_pos hc]; exact ⟨Int.le_refl _, hc, c3⟩
      · rw [raiseD, if_neg hc]; omega
    · obtain ⟨d, hd, htop⟩ := capD_top (y := y) hxs
      obtain ⟨c1, c2, c3, c4, c5⟩ := hcf d hd
      refine ⟨raiseD (mxLo xs y) (capD (mxHi xs y) d), ?_, ?_⟩
      · exact List.mem_map.mpr ⟨_, List.mem_map.mpr ⟨d, hd, rfl⟩, rfl⟩
      · rw [(raiseD_facts _ _ (by omega) c5).2.1]; exact htop
    · intro e he hge
      obtain ⟨c, hc, rfl⟩ := List.mem_map.mp he
      left
      by_cases hcc : c.2 ≥ mxLo xs y
      · rw [raiseD, if_pos hcc]
      · rw [raiseD, if_neg hcc] at hge; exact absurd hge hcc
  · rw [he] at hcore
    injection hcore with h1 hcore; injection hcore with h4 h5
    subst h4; subst h5
    have hcf := capD_facts (y := y) hnx h0
    obtain ⟨d0, hd0, htop⟩ := capD_top (y := y) hxs
    have hpos := nCand_pos_of_mem (mxLo xs y) (xs.map (capD (mxHi xs y))) (capD (mxHi xs y) d0)
      (List.mem_map.mpr ⟨d0, hd0, rfl⟩) (by omega)
    refine ⟨rfl, h0, ?_, ⟨_, List.mem_map.mpr ⟨d0, hd0, rfl⟩, htop⟩, fun _ _ _ => Or.inr (by omega)⟩
    intro e he
    obtain ⟨d, hd, rfl⟩ := List.mem_map.mp he
    obtain ⟨c1, c2, c3, c4, c5⟩ := hcf d hd
    omega

theorem coreGround_maxEq : CoreGround maxEqCore RmaxEq := by
  intro xs y st ts v hxs hnx hny hcore hst
  obtain ⟨hy, hfix⟩ := maxEq_result_fix hxs hnx hcore hst
  injection hy with e1 e2
  constructor
  · obtain ⟨e, he, htop⟩ := hfix.top
    obtain ⟨x, hx, rfl⟩ := mem_pointBox.mp he
    simp only at htop
    rw [e2, ← htop]; exact hx
  · intro x hx
    have := (hfix.bnd (x, x) (mem_pointBox.mpr ⟨x, hx, rfl⟩)).2.2
    simp only at this
    omega

theorem groundOk_maxEq : GroundOk .maxEq := groundOk_lift isLift_maxEq coreGround_maxEq

theorem coreEntail_maxEq : CoreEntail maxEqCore RmaxEq := by
  intro xs y xs' y' hxs hnx hny hcore
  rcases maxEqCore_cases xs y with ⟨_, he⟩ | ⟨_, _, he⟩ | ⟨_, _, he⟩ <;>
    (rw [he] at hcore; injection hcore with h1 _; cases h1)

theorem entailOk_maxEq : EntailOk .maxEq := entailOk_lift isLift_maxEq coreEntail_maxEq

/-! ### 4d. min_eq : `Min_i x_i = y` (mirror of max_eq) -/

def RminEq (ts : List Int) (v : Int) : Prop := v ∈ ts ∧ ∀ x ∈ ts, v ≤ x

theorem isLift_minEq : IsLift .minEq minEqCore RminEq :=
  ⟨fun _ _ => rfl, fun _ _ => Iff.rfl, fun _ _ => Iff.rfl, fun _ _ => Iff.rfl⟩

def mnLo (xs : Box) (y : Dom) : Int := max y.1 (minOf (·.1) xs)
def mnHi (xs : Box) (y : Dom) : Int := min y.2 (minOf (·.2) xs)
/-- raise the lower bound to `lo` -/
def floorD (lo : Int) (d : Dom) : Dom := if d.1 < lo then (lo, d.2) else d
/-- the only candidate must take a value `≤ hi` -/
def lowerD (hi : Int) (d : Dom) : Dom := if d.1 ≤ hi then (d.1, hi) else d
def nCandMin (hi : Int) (zs : Box) : Nat := (zs.filter (fun d => decide (d.1 ≤ hi))).length

theorem minEqCore_cases (xs : Box) (y : Dom) :
    (mnLo xs y > mnHi xs y ∧ minEqCore xs y = (.inc, xs, y)) ∨
    (mnLo xs y ≤ mnHi xs y ∧ nCandMin (mnHi xs y) (xs.map (floorD (mnLo xs y))) = 1 ∧
      minEqCore xs y = (.cons, (xs.map (floorD (mnLo xs y))).map (lowerD (mnHi xs y)), (mnLo xs y, mnHi xs y))) ∨
    (mnLo xs y ≤ mnHi xs y ∧ nCandMin (mnHi xs y) (xs.map (floorD (mnLo xs y))) ≠ 1 ∧
      minEqCore xs y = (.cons, xs.map (floorD (mnLo xs y)), (mnLo xs y, mnHi xs y))) := by
  by_cases h1 : mnLo xs y > mnHi xs y
  · left; refine ⟨h1, ?_⟩
    unfold mnLo mnHi at h1
    simp [minEqCore, h1]
  · right
    by_cases h2 : nCandMin (mnHi xs y) (xs.map (floorD (mnLo xs y))) = 1
    · left; refine ⟨by omega, h2, ?_⟩
      unfold mnLo mnHi nCandMin floorD lowerD at *
      simp only [minEqCore]
      rw [if_neg h1, h2]
      rfl
    · right; refine ⟨by omega, h2, ?_⟩
      unfold mnLo mnHi nCandMin floorD at *
      simp only [minEqCore]
      rw [if_neg h1]
      simp only [beq_iff_eq]
      rw [if_neg h2]

theorem minEq_keep_y {xs : Box} {y : Dom} {ts : List Int} {v : Int}
    (hts : inBox ts xs) (hv : inDom v y) (hr : RminEq ts v) (hxs : xs ≠ []) :
    mnLo xs y ≤ v ∧ v ≤ mnHi xs y := by
  unfold mnLo mnHi
  obtain ⟨hmem, hle⟩ := hr
  obtain ⟨d, hd, hfd⟩ := minOf_mem (·.2) xs hxs
  obtain ⟨x, hx, hxd⟩ := inBox_exists_of_mem hts d hd
  have := hle x hx
  obtain ⟨e, he, hve⟩ := inBox_exists_of_mem' hts v hmem
  have := minOf_le (·.1) xs e he
  unfold inDom at *
  omega

theorem map_lowerD_of_nCandMin_zero (hi : Int) : ∀ (zs : Box), nCandMin hi zs = 0 → zs.map (lowerD hi) = zs
  | [], _ => rfl
  | d :: ds, h => by
    unfold nCandMin at h
    by_cases hc : d.1 ≤ hi
    · simp [List.filter, hc] at h
    · have h' : nCandMin hi ds = 0 := by simpa [nCandMin, List.filter, hc] using h
      simp [lowerD, hc, map_lowerD_of_nCandMin_zero hi ds h']

theorem nCandMin_pos_of_inBox (hi : Int) : ∀ {ts : List Int} {zs : Box}, inBox ts zs →
    (∃ x ∈ ts, x ≤ hi) → 0 < nCandMin hi zs
  | [], [], _, ⟨x, hx, _⟩ => by simp at hx
  | t :: ts, d :: ds, h, ⟨x, hx, hlo⟩ => by
    unfold nCandMin
    by_cases hc : d.1 ≤ hi
    · simp [List.filter, hc]
    · have : x ∈ ts := by
        rcases List.mem_cons.mp hx with hx | hx
        · subst hx; have := h.1; unfold inDom at this; omega
        · exact hx
      have := nCandMin_pos_of_inBox hi h.2 ⟨x, this, hlo⟩
      simpa [nCandMin, List.filter, hc] using this
  | [], _ :: _, h, _ => by simp [inBox] at h
  | _ :: _, [], h, _ => by simp [inBox] at h

theorem minEq_keep_lower (hi : Int) : ∀ {ts : List Int} {zs : Box}, inBox ts zs → nCandMin hi zs ≤ 1 →
    (∃ x ∈ ts, x ≤ hi) → inBox ts (zs.map (lowerD hi))
  | [], [], _, _, _ => trivial
  | t :: ts, d :: ds, h, hn, ⟨x, hx, hlo⟩ => by
    by_cases hc : d.1 ≤ hi
    · have h0 : nCandMin hi ds = 0 := by
        simp [nCandMin, List.filter, hc] at hn; simpa [nCandMin] using hn
      have hxt : x = t := by
        rcases List.mem_cons.mp hx with hx | hx
        · exact hx
        · have := nCandMin_pos_of_inBox hi h.2 ⟨x, hx, hlo⟩; omega
      subst hxt
      rw [List.map_cons, map_lowerD_of_nCandMin_zero hi ds h0]
      refine ⟨?_, h.2⟩
      have := h.1
      unfold inDom lowerD at *
      simp only [hc, if_true]
      omega
    · have hn' : nCandMin hi ds ≤ 1 := by simpa [nCandMin, List.filter, hc] using hn
      have : x ∈ ts := by
        rcases List.mem_cons.mp hx with hx | hx
        · subst hx; have := h.1; unfold inDom at this; omega
        · exact hx
      have ih := minEq_keep_lower hi h.2 hn' ⟨x, this, hlo⟩
      refine ⟨?_, ih⟩
      simpa [lowerD, hc] using h.1
  | [], _ :: _, h, _, _ => by simp [inBox] at h
  | _ :: _, [], h, _, _ => by simp [inBox] at h

theorem minEq_keep_floor {xs : Box} {lo : Int} {ts : List Int} (hts : inBox ts xs)
    (hle : ∀ x ∈ ts, lo ≤ x) : inBox ts (xs.map (floorD lo)) := by
  refine inBox_map _ (fun x => lo ≤ x) ?_ hts hle
  intro x d hx hxd
  unfold inDom floorD at *
  split
  · simp only; omega
  · exact hxd

theorem floorD_facts {xs : Box} {y : Dom} (hnx : Box.Nonempty xs) (h : mnLo xs y ≤ mnHi xs y) :
    ∀ d ∈ xs, (floorD (mnLo xs y) d).2 = d.2 ∧ mnHi xs y ≤ d.2 ∧ mnLo xs y ≤ (floorD (mnLo xs y) d).1 ∧
      d.1 ≤ (floorD (mnLo xs y) d).1 ∧ (floorD (mnLo xs y) d).1 ≤ (floorD (mnLo xs y) d).2 := by
  intro d hd
  have h1 : minOf (·.2) xs ≤ d.2 := minOf_le (·.2) xs d hd
  have h2 := hnx d hd
  have h3 : mnHi xs y ≤ minOf (·.2) xs := by unfold mnHi; omega
  by_cases hc : d.1 < mnLo xs y
  · rw [floorD, if_pos hc]; exact ⟨rfl, by omega, Int.le_refl _, by simp only; omega, by simp only; omega⟩
  · rw [floorD, if_neg hc]; exact ⟨rfl, by omega, by omega, Int.le_refl _, h2⟩

theorem lowerD_facts (hi : Int) (d : Dom) (h : hi ≤ d.2) (hd : d.1 ≤ d.2) :
    (lowerD hi d).2 ≤ d.2 ∧ (lowerD hi d).1 = d.1 ∧ (lowerD hi d).1 ≤ (lowerD hi d).2 := by
  by_cases hc : d.1 ≤ hi
  · rw [lowerD, if_pos hc]; exact ⟨h, rfl, hc⟩
  · rw [lowerD, if_neg hc]; exact ⟨Int.le_refl _, rfl, hd⟩

theorem coreSound_minEq : CoreSound minEqCore RminEq := by
  intro xs y st xs' y' hxs hnx hny hcore
  have hyle : mnLo xs y ≤ mnHi xs y → (y.1 ≤ (mnLo xs y, mnHi xs y).1 ∧ (mnLo xs y, mnHi xs y).2 ≤ y.2) := by
    intro _; unfold mnLo mnHi; simp only; omega
  rcases minEqCore_cases xs y with ⟨h0, he⟩ | ⟨h0, hn, he⟩ | ⟨h0, hn, he⟩
  · rw [he] at hcore
    injection hcore with h1 hcore
    subst h1
    refine ⟨fun h => absurd rfl h, fun _ ts v hts hv hr => ?_⟩
    have := minEq_keep_y hts hv hr hxs
    omega
  · rw [he] at hcore
    injection hcore with h1 hcore; injection hcore with h4 h5
    subst h1; subst h4; subst h5
    have hcf := floorD_facts (y := y) hnx h0
    refine ⟨fun _ => ⟨?_, hyle h0, ?_, h0, fun ts v hts hv hr => ?_⟩, fun h => by cases h⟩
    · rw [List.map_map]
      refine Box.map_le' _ xs (fun d hd => ?_)
      obtain ⟨c1, c2, c3, c4, c5⟩ := hcf d hd
      have := lowerD_facts (mnHi xs y) (floorD (mnLo xs y) d) (by omega) c5
      simp only [Function.comp]
      omega
    · rw [List.map_map]
      refine Box.nonempty_map _ xs (fun d hd => ?_)
      obtain ⟨c1, c2, c3, c4, c5⟩ := hcf d hd
      exact (lowerD_facts (mnHi xs y) (floorD (mnLo xs y) d) (by omega) c5).2.2
    · have hk := minEq_keep_y hts hv hr hxs
      have hfl := minEq_keep_floor (lo := mnLo xs y) hts (fun x hx => by have := hr.2 x hx; omega)
      exact ⟨minEq_keep_lower _ hfl (by omega) ⟨v, hr.1, hk.2⟩, hk⟩
  · rw [he] at hcore
    injection hcore with h1 hcore; injection hcore with h4 h5
    subst h1; subst h4; subst h5
    have hcf := floorD_facts (y := y) hnx h0
    refine ⟨fun _ => ⟨?_, hyle h0, ?_, h0, fun ts v hts hv hr => ?_⟩, fun h => by cases h⟩
    · refine Box.map_le' _ xs (fun d hd => ?_)
      obtain ⟨c1, c2, c3, c4, c5⟩ := hcf d hd
      omega
    · exact Box.nonempty_map _ xs (fun d hd => (hcf d hd).2.2.2.2)
    · have hk := minEq_keep_y hts hv hr hxs
      exact ⟨minEq_keep_floor hts (fun x hx => by have := hr.2 x hx; omega), hk⟩

theorem sound_minEq : Sound .minEq := sound_lift isLift_minEq coreSound_minEq
theorem contractMono_minEq : ContractMono .minEq := contractMono_lift isLift_minEq
theorem safe_minEq : Safe .minEq := safe_lift isLift_minEq

theorem nCandMin_pos_of_mem (hi : Int) : ∀ (zs : Box) (e : Dom), e ∈ zs → e.1 ≤ hi → 0 < nCandMin hi zs
  | d :: ds, e, he, h => by
    unfold nCandMin
    by_cases hc : d.1 ≤ hi
    · simp [List.filter, hc]
    · have : e ∈ ds := by
        rcases List.mem_cons.mp he with he | he
        · subst he; exact absurd h hc
        · exact he
      have := nCandMin_pos_of_mem hi ds e this h
      simpa [nCandMin, List.filter, hc] using this

/-- what a non-failing `minEqCore` call establishes (and what makes a box a fixpoint) -/
structure MinEqFix (zs : Box) (lo hi : Int) : Prop where
  le : lo ≤ hi
  bnd : ∀ e ∈ zs, hi ≤ e.2 ∧ e.1 ≤ e.2 ∧ lo ≤ e.1
  bot : ∃ e ∈ zs, e.1 = lo
  cand : ∀ e ∈ zs, e.1 ≤ hi → e.2 = hi ∨ 2 ≤ nCandMin hi zs

theorem floorD_bot {xs : Box} {y : Dom} (hxs : xs ≠ []) :
    ∃ d ∈ xs, (floorD (mnLo xs y) d).1 = mnLo xs y := by
  obtain ⟨d, hd, hfd⟩ := minOf_mem (·.1) xs hxs
  refine ⟨d, hd, ?_⟩
  have : d.1 ≤ mnLo xs y := by unfold mnLo; omega
  by_cases hc : d.1 < mnLo xs y
  · rw [floorD, if_pos hc]
  · rw [floorD, if_neg hc]; omega

theorem minEq_result_fix {xs : Box} {y : Dom} {st : Status} {xs' : Box} {y' : Dom}
    (hxs : xs ≠ []) (hnx : Box.Nonempty xs) (hcore : minEqCore xs y = (st, xs', y')) (hst : st ≠ .inc) :
    y' = (mnLo xs y, mnHi xs y) ∧ MinEqFix xs' (mnLo xs y) (mnHi xs y) := by
  rcases minEqCore_cases xs y with ⟨h0, he⟩ | ⟨h0, hn, he⟩ | ⟨h0, hn, he⟩
  · rw [he] at hcore
    injection hcore with h1 _
    exact absurd h1.symm hst
  · rw [he] at hcore
    injection hcore with h1 hcore; injection hcore with h4 h5
    subst h4; subst h5
    have hcf := floorD_facts (y := y) hnx h0
    refine ⟨rfl, h0, ?_, ?_, ?_⟩
    · intro e he
      rw [List.map_map] at he
      obtain ⟨d, hd, rfl⟩ := List.mem_map.mp he
      obtain ⟨c1, c2, c3, c4, c5⟩ := hcf d hd
      simp only [Function.comp]
      by_cases hc : (floorD (mnLo xs y) d).1 ≤ mnHi xs y
      · rw [lowerD, if_pos hc]; exact ⟨Int.le_refl _, hc, c3⟩
      · rw [lowerD, if_neg hc]; omega
    · obtain ⟨d, hd, hbot⟩ := floorD_bot (y := y) hxs
      obtain ⟨c1, c2, c3, c4, c5⟩ := hcf d hd
      refine ⟨lowerD (mnHi xs y) (floorD (mnLo xs y) d), ?_, ?_⟩
      · exact List.mem_map.mpr ⟨_, List.mem_map.mpr ⟨d, hd, rfl⟩, rfl⟩
      · rw [(lowerD_facts _ _ (by omega) c5).2.1]; exact hbot
    · intro e he hge
      obtain ⟨c, hc, rfl⟩ := List.mem_map.mp he
      left
      by_cases hcc : c.1 ≤ mnHi xs y
      · rw [lowerD, if_pos hcc]
      · rw [lowerD, if_neg hcc] at hge; exact absurd hge hcc
  · rw [he] at hcore
    injection hcore with h1 hcore; injection hcore with h4 h5
    subst h4; subst h5
    have hcf := floorD_facts (y := y) hnx h0
    obtain ⟨d0, hd0, hbot⟩ := floorD_bot (y := y) hxs
    have hpos := nCandMin_pos_of_mem (mnHi xs y) (xs.map (floorD (mnLo xs y))) (floorD (mnLo xs y) d0)
      (List.mem_map.mpr ⟨d0, hd0, rfl⟩) (by omega)
    refine ⟨rfl, h0, ?_, ⟨_, List.mem_map.mpr ⟨d0, hd0, rfl⟩, hbot⟩, fun _ _ _ => Or.inr (by omega)⟩
    intro e he
    obtain ⟨d, hd, rfl⟩ := List.mem_map.mp he
    obtain ⟨c1, c2, c3, c4, c5⟩ := hcf d hd
    omega

theorem coreGround_minEq : CoreGround minEqCore RminEq := by
  intro xs y st ts v hxs hnx hny hcore hst
  obtain ⟨hy, hfix⟩ := minEq_result_fix hxs hnx hcore hst
  injection hy with e1 e2
  constructor
  · obtain ⟨e, he, hbot⟩ := hfix.bot
    obtain ⟨x, hx, rfl⟩ := mem_pointBox.mp he
    simp only at hbot
    rw [e1, ← hbot]; exact hx
  · intro x hx
    have := (hfix.bnd (x, x) (mem_pointBox.mpr ⟨x, hx, rfl⟩)).2.2
    simp only at this
    omega

theorem groundOk_minEq : GroundOk .minEq := groundOk_lift isLift_minEq coreGround_minEq

theorem coreEntail_minEq : CoreEntail minEqCore RminEq := by
  intro xs y xs' y' hxs hnx hny hcore
  rcases minEqCore_cases xs y with ⟨_, he⟩ | ⟨_, _, he⟩ | ⟨_, _, he⟩ <;>
    (rw [he] at hcore; injection hcore with h1 _; cases h1)

theorem entailOk_minEq : EntailOk .minEq := entailOk_lift isLift_minEq coreEntail_minEq

/-! ### 5. trigger sufficiency -/

theorem quiet_minOnly {o n : Dom} : quiet Ev.minOnly o n ↔ n.1 = o.1 := by
  simp [quiet, Ev.meets, evOf, Ev.minOnly]

theorem quiet_maxOnly {o n : Dom} : quiet Ev.maxOnly o n ↔ n.2 = o.2 := by
  simp [quiet, Ev.meets, evOf, Ev.maxOnly]

theorem map_eq_self (f : Dom → Dom) : ∀ (zs : Box), (∀ d ∈ zs, f d = d) → zs.map f = zs
  | [], _ => rfl
  | d :: ds, h => by
    rw [List.map_cons, h d (by simp), map_eq_self f ds (fun e he => h e (by simp [he]))]

/-- a box on which `maxLeqCore` changes nothing -/
theorem maxLeq_fix {zs : Box} {y : Dom} (hzs : zs ≠ []) (hn : Box.Nonempty zs) (hny : y.1 ≤ y.2)
    (h1 : ∀ d ∈ zs, d.2 ≤ y.2) (h2 : ∀ d ∈ zs, d.1 ≤ y.1) :
    ∃ st, maxLeqCore zs y = (st, zs, y) ∧ st ≠ .inc := by
  have hM : maxOf (·.1) zs ≤ y.1 := maxOf_le _ zs hzs _ h2
  have hmap : zs.map (fun d => (d.1, min d.2 y.2)) = zs := by
    refine map_eq_self _ zs (fun d hd => ?_)
    have := h1 d hd
    have e : min d.2 y.2 = d.2 := by omega
    rw [e]
  rcases maxLeqCore_cases zs y with ⟨_, he⟩ | ⟨_, _, hf⟩ | ⟨_, _, _, he⟩
  · exact ⟨_, he, by simp⟩
  · rcases hf with hf | hf
    · omega
    · rw [hmap] at hf; exact absurd hn hf
  · refine ⟨.cons, ?_, by simp⟩
    rw [he, hmap]
    have e : max y.1 (maxOf (·.1) zs) = y.1 := by omega
    rw [e]

theorem coreTrig_maxLeq : CoreTrig maxLeqCore Ev.minOnly Ev.maxOnly := by
  intro xs y st xs' y' xs'' y'' hxs hnx hny hcore hst hle hley hn'' hny'' hq hqy
  have hs := (coreSound_maxLeq xs y st xs' y' hxs hnx hny hcore).1 hst
  have hl' : xs'.length = xs.length := Box.le_length hs.1
  have hl'' : xs''.length = xs'.length := Box.le_length hle
  have hxs'' : xs'' ≠ [] := by
    intro h0; subst h0
    cases xs with
    | nil => exact hxs rfl
    | cons _ _ => simp at hl'' hl'; omega
  rw [quiet_maxOnly] at hqy
  suffices h : (∀ d ∈ xs'', d.2 ≤ y''.2) ∧ (∀ d ∈ xs'', d.1 ≤ y''.1) from
    maxLeq_fix hxs'' hn'' hny'' h.1 h.2
  -- componentwise facts
  have key : ∀ k, k < xs''.length →
      (getDom xs'' k).2 ≤ y''.2 ∧ (getDom xs'' k).1 ≤ y''.1 := by
    intro k hk
    have hk' : k < xs'.length := by omega
    have hkx : k < xs.length := by omega
    have hlek := Box.le_get k hle hk'
    have hqk := quiet_minOnly.mp (hq k hkx)
    have hne := Box.nonempty_get hn'' k hk
    have hmemx := getDom_mem hkx
    rcases maxLeqCore_cases xs y with ⟨h0, he⟩ | ⟨_, he, _⟩ | ⟨_, h2, h3, he⟩
    · rw [he] at hcore
      injection hcore with _ hcore; injection hcore with e1 e2
      subst e1; subst e2
      have := le_maxOf (·.2) xs _ hmemx
      omega
    · rw [he] at hcore; injection hcore with e0 _; exact absurd e0.symm hst
    · rw [he] at hcore
      injection hcore with _ hcore; injection hcore with e1 e2
      subst e1; subst e2
      rw [getDom_map _ hkx] at hlek
      have := le_maxOf (·.1) xs _ hmemx
      simp only at this hlek hley
      omega
  constructor
  · intro d hd
    obtain ⟨k, hk, rfl⟩ := exists_getDom_of_mem hd
    exact (key k hk).1
  · intro d hd
    obtain ⟨k, hk, rfl⟩ := exists_getDom_of_mem hd
    exact (key k hk).2

theorem trigOk_maxLeq : TrigOk .maxLeq :=
  trigOk_lift isLift_maxLeq Ev.minOnly Ev.maxOnly
    (fun ps n k h => by simp only [maskAlg, maskMaxLeq]; rw [if_neg (by omega)])
    (fun ps n k h => by simp only [maskAlg, maskMaxLeq]; rw [if_pos h])
    coreSound_maxLeq coreTrig_maxLeq

/-- a box on which `minGeqCore` changes nothing -/
theorem minGeq_fix {zs : Box} {y : Dom} (hzs : zs ≠ []) (hn : Box.Nonempty zs) (hny : y.1 ≤ y.2)
    (h1 : ∀ d ∈ zs, y.1 ≤ d.1) (h2 : ∀ d ∈ zs, y.2 ≤ d.2) :
    ∃ st, minGeqCore zs y = (st, zs, y) ∧ st ≠ .inc := by
  have hM : y.2 ≤ minOf (·.2) zs := le_minOf _ zs hzs _ h2
  have hmap : zs.map (fun d => (max d.1 y.1, d.2)) = zs := by
    refine map_eq_self _ zs (fun d hd => ?_)
    have := h1 d hd
    have e : max d.1 y.1 = d.1 := by omega
    rw [e]
  rcases minGeqCore_cases zs y with ⟨_, he⟩ | ⟨_, _, hf⟩ | ⟨_, _, _, he⟩
  · exact ⟨_, he, by simp⟩
  · rcases hf with hf | hf
    · omega
    · rw [hmap] at hf; exact absurd hn hf
  · refine ⟨.cons, ?_, by simp⟩
    rw [he, hmap]
    have e : min y.2 (minOf (·.2) zs) = y.2 := by omega
    rw [e]

theorem coreTrig_minGeq : CoreTrig minGeqCore Ev.maxOnly Ev.minOnly := by
  intro xs y st xs' y' xs'' y'' hxs hnx hny hcore hst hle hley hn'' hny'' hq hqy
  have hs := (coreSound_minGeq xs y st xs' y' hxs hnx hny hcore).1 hst
  have hl' : xs'.length = xs.length := Box.le_length hs.1
  have hl'' : xs''.length = xs'.length := Box.le_length hle
  have hxs'' : xs'' ≠ [] := by
    intro h0; subst h0
    cases xs with
    | nil => exact hxs rfl
    | cons _ _ => simp at hl'' hl'; omega
  rw [quiet_minOnly] at hqy
  suffices h : (∀ d ∈ xs'', y''.1 ≤ d.1) ∧ (∀ d ∈ xs'', y''.2 ≤ d.2) from
    minGeq_fix hxs'' hn'' hny'' h.1 h.2
  have key : ∀ k, k < xs''.length →
      y''.1 ≤ (getDom xs'' k).1 ∧ y''.2 ≤ (getDom xs'' k).2 := by
    intro k hk
    have hk' : k < xs'.length := by omega
    have hkx : k < xs.length := by omega
    have hlek := Box.le_get k hle hk'
    have hqk := quiet_maxOnly.mp (hq k hkx)
    have hne := Box.nonempty_get hn'' k hk
    have hmemx := getDom_mem hkx
    rcases minGeqCore_cases xs y with ⟨h0, he⟩ | ⟨_, he, _⟩ | ⟨_, h2, h3, he⟩
    · rw [he] at hcore
      injection hcore with _ hcore; injection hcore with e1 e2
      subst e1; subst e2
      have := minOf_le (·.1) xs _ hmemx
      omega
    · rw [he] at hcore; injection hcore with e0 _; exact absurd e0.symm hst
    · rw [he] at hcore
      injection hcore with _ hcore; injection hcore with e1 e2
      subst e1; subst e2
      rw [getDom_map _ hkx] at hlek
      have := minOf_le (·.2) xs _ hmemx
      simp only at this hlek hley
      omega
  constructor
  · intro d hd
    obtain ⟨k, hk, rfl⟩ := exists_getDom_of_mem hd
    exact (key k hk).1
  · intro d hd
    obtain ⟨k, hk, rfl⟩ := exists_getDom_of_mem hd
    exact (key k hk).2

theorem trigOk_minGeq : TrigOk .minGeq :=
  trigOk_lift isLift_minGeq Ev.maxOnly Ev.minOnly
    (fun ps n k h => by simp only [maskAlg, maskMinGeq]; rw [if_neg (by omega)])
    (fun ps n k h => by simp only [maskAlg, maskMinGeq]; rw [if_pos h])
    coreSound_minGeq coreTrig_minGeq

/-- a mask that watches MIN and MAX everywhere: a quiet sub-box is the input itself, so the call
    had changed nothing -/
theorem trigOk_of_minMax' (a : Alg) (hs : Sound a) (hm : ∀ ps n k, maskAlg a ps n k = Ev.minMax) :
    TrigOk a := by
  intro ps B st B' B'' hc hne hrun hst hle hne'' hq
  have hle' := ((hs ps B st B' hc hne hrun).1 hst).1
  have hl : B''.length = B.length := by rw [Box.le_length hle, Box.le_length hle']
  have heq : B'' = B := by
    refine Box.ext_get hl (fun k hk => ?_)
    have := hq k (by omega)
    rw [hm] at this
    exact eq_of_quiet_minMax this
  subst heq
  have : B' = B'' := Box.le_antisymm hle' hle
  subst this
  exact ⟨st, hrun, hst⟩

theorem trigOk_maxEq : TrigOk .maxEq := trigOk_of_minMax' .maxEq sound_maxEq (fun _ _ _ => rfl)
theorem trigOk_minEq : TrigOk .minEq := trigOk_of_minMax' .minEq sound_minEq (fun _ _ _ => rfl)

/-! ### 6. exactness (bounds consistency and idempotence) -/

theorem exact_lift {a : Alg} {core : Core} {R : List Int → Int → Prop} (L : IsLift a core R)
    (hs : CoreSound core R) (h : CoreExact core R) : Exact a := by
  intro ps B st B' hc hne hrun hst
  obtain ⟨xs, y, rfl, hxs⟩ := Box.shape ((L.con ps _).mp hc)
  rw [L.run, liftLast_concat] at hrun
  injection hrun with hrun
  obtain ⟨hnx, hny⟩ := Box.nonempty_concat.mp hne
  rcases hcore : core xs y with ⟨st0, xs', y'⟩
  rw [hcore] at hrun
  injection hrun with h1 h2
  simp only at h1 h2
  subst h1; subst h2
  have hy' := ((hs xs y st0 xs' y' hxs hnx hny hcore).1 hst).2.2.2.1
  obtain ⟨hk, ⟨t1, ht1, hr1⟩, ⟨t2, ht2, hr2⟩, ⟨st', hrun', hst'⟩⟩ := h xs y st0 xs' y' hxs hnx hny hcore hst
  refine ⟨fun k hk' => ?_, st', by rw [L.run, liftLast_concat, hrun'], hst'⟩
  by_cases hkx : k < xs'.length
  · obtain ⟨⟨ts, v, a1, a2, a3, a4⟩, ⟨ts', v', b1, b2, b3, b4⟩⟩ := hk k hkx
    rw [getDom_concat_left hkx]
    constructor
    · refine ⟨ts ++ [v], inBox_concat.mpr ⟨a1, a2⟩, ?_, ?_⟩
      · rw [L.rel, tFront_concat, tBack_concat]; exact a3
      · rw [getI_concat_left (by rw [inBox_length a1]; exact hkx)]; exact a4
    · refine ⟨ts' ++ [v'], inBox_concat.mpr ⟨b1, b2⟩, ?_, ?_⟩
      · rw [L.rel, tFront_concat, tBack_concat]; exact b3
      · rw [getI_concat_left (by rw [inBox_length b1]; exact hkx)]; exact b4
  · have hkeq : k = xs'.length := by simp at hk'; omega
    subst hkeq
    rw [getDom_concat_last]
    constructor
    · refine ⟨t1 ++ [y'.1], inBox_concat.mpr ⟨ht1, ⟨Int.le_refl _, hy'⟩⟩, ?_, ?_⟩
      · rw [L.rel, tFront_concat, tBack_concat]; exact hr1
      · rw [← inBox_length ht1, getI_concat_last]
    · refine ⟨t2 ++ [y'.2], inBox_concat.mpr ⟨ht2, ⟨hy', Int.le_refl _⟩⟩, ?_, ?_⟩
      · rw [L.rel, tFront_concat, tBack_concat]; exact hr2
      · rw [← inBox_length ht2, getI_concat_last]

/-- a tuple built domain by domain -/
theorem inBox_mapTuple (g : Dom → Int) : ∀ (zs : Box), (∀ d ∈ zs, inDom (g d) d) → inBox (zs.map g) zs
  | [], _ => trivial
  | d :: ds, h => ⟨h d (by simp), inBox_mapTuple g ds (fun e he => h e (by simp [he]))⟩

theorem getI_map (g : Dom → Int) {zs : Box} {k : Nat} (hk : k < zs.length) :
    getI (zs.map g) k = g (getDom zs k) := by
  simp [getI, getDom, List.getD, List.getElem?_eq_getElem hk]

/-- what a non-failing `maxLeqCore` call establishes -/
theorem maxLeq_result_fix {xs : Box} {y : Dom} {st : Status} {xs' : Box} {y' : Dom}
    (hnx : Box.Nonempty xs) (hny : y.1 ≤ y.2)
    (hcore : maxLeqCore xs y = (st, xs', y')) (hst : st ≠ .inc) :
    (∀ d ∈ xs', d.2 ≤ y'.2) ∧ (∀ d ∈ xs', d.1 ≤ y'.1) := by
  rcases maxLeqCore_cases xs y with ⟨h0, he⟩ | ⟨_, he, _⟩ | ⟨_, h2, h3, he⟩
  · rw [he] at hcore
    injection hcore with _ hcore; injection hcore with e1 e2
    subst e1; subst e2
    have hh : ∀ d ∈ xs, d.2 ≤ y.1 ∧ d.1 ≤ d.2 := fun d hd => by
      have h1 : d.2 ≤ maxOf (·.2) xs := le_maxOf (·.2) xs d hd
      exact ⟨by omega, hnx d hd⟩
    exact ⟨fun d hd => by have := hh d hd; omega, fun d hd => by have := hh d hd; omega⟩
  · rw [he] at hcore; injection hcore with e0 _; exact absurd e0.symm hst
  · rw [he] at hcore
    injection hcore with _ hcore; injection hcore with e1 e2
    subst e1; subst e2
    constructor
    · intro e he
      obtain ⟨d, hd, rfl⟩ := List.mem_map.mp he
      simp only; omega
    · intro e he
      obtain ⟨d, hd, rfl⟩ := List.mem_map.mp he
      have h1 : d.1 ≤ maxOf (·.1) xs := le_maxOf (·.1) xs d hd
      simp only; omega

theorem coreExact_maxLeq : CoreExact maxLeqCore RmaxLeq := by
  intro xs y st xs' y' hxs hnx hny hcore hst
  obtain ⟨f1, f2⟩ := maxLeq_result_fix hnx hny hcore hst
  obtain ⟨hle, _, hn', hny', _⟩ := (coreSound_maxLeq xs y st xs' y' hxs hnx hny hcore).1 hst
  have hxs' : xs' ≠ [] := by
    intro h0; subst h0
    have := Box.le_length hle
    cases xs with
    | nil => exact hxs rfl
    | cons _ _ => simp at this
  have hmin : inBox (xs'.map (·.1)) xs' ∧ RmaxLeq (xs'.map (·.1)) y'.1 := by
    refine ⟨inBox_mapTuple _ xs' (fun d hd => ⟨Int.le_refl _, hn' d hd⟩), fun x hx => ?_⟩
    obtain ⟨d, hd, rfl⟩ := List.mem_map.mp hx
    exact f2 d hd
  have hmax : inBox (xs'.map (·.2)) xs' ∧ RmaxLeq (xs'.map (·.2)) y'.2 := by
    refine ⟨inBox_mapTuple _ xs' (fun d hd => ⟨hn' d hd, Int.le_refl _⟩), fun x hx => ?_⟩
    obtain ⟨d, hd, rfl⟩ := List.mem_map.mp hx
    exact f1 d hd
  refine ⟨fun k hk => ⟨⟨_, y'.1, hmin.1, ⟨Int.le_refl _, hny'⟩, hmin.2, getI_map _ hk⟩,
      ⟨_, y'.2, hmax.1, ⟨hny', Int.le_refl _⟩, hmax.2, getI_map _ hk⟩⟩,
    ⟨_, hmin⟩, ⟨_, hmax⟩, maxLeq_fix hxs' hn' hny' f1 f2⟩

theorem exact_maxLeq : Exact .maxLeq := exact_lift isLift_maxLeq coreSound_maxLeq coreExact_maxLeq

/-- what a non-failing `minGeqCore` call establishes -/
theorem minGeq_result_fix {xs : Box} {y : Dom} {st : Status} {xs' : Box} {y' : Dom}
    (hnx : Box.Nonempty xs) (hny : y.1 ≤ y.2)
    (hcore : minGeqCore xs y = (st, xs', y')) (hst : st ≠ .inc) :
    (∀ d ∈ xs', y'.1 ≤ d.1) ∧ (∀ d ∈ xs', y'.2 ≤ d.2) := by
  rcases minGeqCore_cases xs y with ⟨h0, he⟩ | ⟨_, he, _⟩ | ⟨_, h2, h3, he⟩
  · rw [he] at hcore
    injection hcore with _ hcore; injection hcore with e1 e2
    subst e1; subst e2
    have hh : ∀ d ∈ xs, y.2 ≤ d.1 ∧ d.1 ≤ d.2 := fun d hd => by
      have h1 : minOf (·.1) xs ≤ d.1 := minOf_le (·.1) xs d hd
      exact ⟨by omega, hnx d hd⟩
    exact ⟨fun d hd => by have := hh d hd; omega, fun d hd => by have := hh d hd; omega⟩
  · rw [he] at hcore; injection hcore with e0 _; exact absurd e0.symm hst
  · rw [he] at hcore
    injection hcore with _ hcore; injection hcore with e1 e2
    subst e1; subst e2
    constructor
    · intro e he
      obtain ⟨d, hd, rfl⟩ := List.mem_map.mp he
      simp only; omega
    · intro e he
      obtain ⟨d, hd, rfl⟩ := List.mem_map.mp he
      have h1 : minOf (·.2) xs ≤ d.2 := minOf_le (·.2) xs d hd
      simp only; omega

theorem coreExact_minGeq : CoreExact minGeqCore RminGeq := by
  intro xs y st xs' y' hxs hnx hny hcore hst
  obtain ⟨f1, f2⟩ := minGeq_result_fix hnx hny hcore hst
  obtain ⟨hle, _, hn', hny', _⟩ := (coreSound_minGeq xs y st xs' y' hxs hnx hny hcore).1 hst
  have hxs' : xs' ≠ [] := by
    intro h0; subst h0
    have := Box.le_length hle
    cases xs with
    | nil => exact hxs rfl
    | cons _ _ => simp at this
  have hmin : inBox (xs'.map (·.1)) xs' ∧ RminGeq (xs'.map (·.1)) y'.1 := by
    refine ⟨inBox_mapTuple _ xs' (fun d hd => ⟨Int.le_refl _, hn' d hd⟩), fun x hx => ?_⟩
    obtain ⟨d, hd, rfl⟩ := List.mem_map.mp hx
    exact f1 d hd
  have hmax : inBox (xs'.map (·.2)) xs' ∧ RminGeq (xs'.map (·.2)) y'.2 := by
    refine ⟨inBox_mapTuple _ xs' (fun d hd => ⟨hn' d hd, Int.le_refl _⟩), fun x hx => ?_⟩
    obtain ⟨d, hd, rfl⟩ := List.mem_map.mp hx
    exact f2 d hd
  refine ⟨fun k hk => ⟨⟨_, y'.1, hmin.1, ⟨Int.le_refl _, hny'⟩, hmin.2, getI_map _ hk⟩,
      ⟨_, y'.2, hmax.1, ⟨hny', Int.le_refl _⟩, hmax.2, getI_map _ hk⟩⟩,
    ⟨_, hmin⟩, ⟨_, hmax⟩, minGeq_fix hxs' hn' hny' f1 f2⟩

theorem exact_minGeq : Exact .minGeq := exact_lift isLift_minGeq coreSound_minGeq coreExact_minGeq

/-! positions of candidates -/

theorem exists_idx_of_filter_pos (p : Dom → Bool) : ∀ (zs : Box), 0 < (zs.filter p).length →
    ∃ j, j < zs.length ∧ p (getDom zs j) = true
  | [], h => by simp at h
  | d :: ds, h => by
    by_cases hc : p d = true
    · exact ⟨0, by simp, by simpa [getDom] using hc⟩
    · have h' : 0 < (ds.filter p).length := by simpa [List.filter, hc] using h
      obtain ⟨j, hj, hp⟩ := exists_idx_of_filter_pos p ds h'
      exact ⟨j + 1, by simpa using hj, by simpa [getDom] using hp⟩

theorem exists_other_idx (p : Dom → Bool) : ∀ (zs : Box), 2 ≤ (zs.filter p).length → ∀ k : Nat,
    ∃ j, j ≠ k ∧ j < zs.length ∧ p (getDom zs j) = true
  | [], h, _ => by simp at h
  | d :: ds, h, k => by
    by_cases hc : p d = true
    · cases k with
      | zero =>
        have h' : 0 < (ds.filter p).length := by
          simp [List.filter, hc] at h; omega
        obtain ⟨j, hj, hp⟩ := exists_idx_of_filter_pos p ds h'
        exact ⟨j + 1, by omega, by simpa using hj, by simpa [getDom] using hp⟩
      | succ k' => exact ⟨0, by omega, by simp, by simpa [getDom] using hc⟩
    · have h' : 2 ≤ (ds.filter p).length := by simpa [List.filter, hc] using h
      cases k with
      | zero =>
        obtain ⟨j, hj, hp⟩ := exists_idx_of_filter_pos p ds (by omega)
        exact ⟨j + 1, by omega, by simpa using hj, by simpa [getDom] using hp⟩
      | succ k' =>
        obtain ⟨j, hjk, hj, hp⟩ := exists_other_idx p ds h' k'
        exact ⟨j + 1, by omega, by simpa using hj, by simpa [getDom] using hp⟩

/-! overriding one position of a tuple -/

theorem inBox_set : ∀ {ts : List Int} {zs : Box} (k : Nat) (x : Int), inBox ts zs →
    inDom x (getDom zs k) → inBox (ts.set k x) zs
  | [], [], _, _, _, _ => by simp [inBox]
  | t :: ts, d :: ds, 0, x, h, hx => by
    simp only [List.set_cons_zero, inBox]
    exact ⟨by simpa [getDom] using hx, h.2⟩
  | t :: ts, d :: ds, k + 1, x, h, hx => by
    simp only [List.set_cons_succ, inBox]
    exact ⟨h.1, inBox_set k x h.2 (by simpa [getDom] using hx)⟩
  | [], _ :: _, _, _, h, _ => by simp [inBox] at h
  | _ :: _, [], _, _, h, _ => by simp [inBox] at h

theorem getI_set_self {ts : List Int} {k : Nat} (x : Int) (hk : k < ts.length) :
    getI (ts.set k x) k = x := by
  simp [getI, List.getD, hk]

theorem getI_set_ne {ts : List Int} {k j : Nat} (x : Int) (h : k ≠ j) :
    getI (ts.set k x) j = getI ts j := by
  simp [getI, List.getD, List.getElem?_set_ne h]

theorem getI_mem {ts : List Int} {j : Nat} (hj : j < ts.length) : getI ts j ∈ ts := by
  simp [getI, List.getD, List.getElem?_eq_getElem hj]

/-! max_eq -/

theorem maxEqFix_idem {zs : Box} {lo hi : Int} (h : MaxEqFix zs lo hi) :
    maxEqCore zs (lo, hi) = (.cons, zs, (lo, hi)) := by
  obtain ⟨e0, he0, htop⟩ := h.top
  have hle := h.le
  have hzs : zs ≠ [] := by intro h0; subst h0; simp at he0
  have hlo : mxLo zs (lo, hi) = lo := by
    have := maxOf_le (·.1) zs hzs lo (fun d hd => (h.bnd d hd).1)
    unfold mxLo; simp only; omega
  have hhi : mxHi zs (lo, hi) = hi := by
    have : e0.2 ≤ maxOf (·.2) zs := le_maxOf (·.2) zs e0 he0
    unfold mxHi; simp only; omega
  have hcap : zs.map (capD hi) = zs := map_eq_self _ zs (fun d hd => by
    have := (h.bnd d hd).2.2
    rw [capD, if_neg (by omega)])
  rcases maxEqCore_cases zs (lo, hi) with ⟨h0, _⟩ | ⟨_, hn, he⟩ | ⟨_, _, he⟩
  · rw [hlo, hhi] at h0; omega
  · rw [hlo, hhi, hcap] at he hn
    rw [he]
    have : zs.map (raiseD lo) = zs := map_eq_self _ zs (fun d hd => by
      by_cases hc : d.2 ≥ lo
      · rcases h.cand d hd hc with h1 | h1
        · rw [raiseD, if_pos hc, ← h1]
        · omega
      · rw [raiseD, if_neg hc])
    rw [this]
  · rw [hlo, hhi, hcap] at he; exact he

theorem maxEqFix_bounds {zs : Box} {lo hi : Int} (h : MaxEqFix zs lo hi) :
    (∀ k, k < zs.length →
      (∃ ts v, inBox ts zs ∧ inDom v (lo, hi) ∧ RmaxEq ts v ∧ getI ts k = (getDom zs k).1) ∧
      (∃ ts v, inBox ts zs ∧ inDom v (lo, hi) ∧ RmaxEq ts v ∧ getI ts k = (getDom zs k).2)) ∧
    (∃ ts, inBox ts zs ∧ RmaxEq ts lo) ∧ (∃ ts, inBox ts zs ∧ RmaxEq ts hi) := by
  obtain ⟨e0, he0, htop⟩ := h.top
  have hle := h.le
  have hlo_dom : inDom lo (lo, hi) := ⟨Int.le_refl _, hle⟩
  -- the solution with `y = lo`: candidates at `lo`, the others at their minimum
  have hg0 : inBox (zs.map (fun e : Dom => if e.2 ≥ lo then lo else e.1)) zs ∧
      RmaxEq (zs.map (fun e : Dom => if e.2 ≥ lo then lo else e.1)) lo := by
    refine ⟨inBox_mapTuple _ zs (fun d hd => ?_), ?_, fun x hx => ?_⟩
    · obtain ⟨b1, b2, b3⟩ := h.bnd d hd
      unfold inDom
      by_cases hc : d.2 ≥ lo
      · rw [if_pos hc]; exact ⟨b1, hc⟩
      · rw [if_neg hc]; exact ⟨Int.le_refl _, b2⟩
    · exact List.mem_map.mpr ⟨e0, he0, by rw [if_pos (by omega)]⟩
    · obtain ⟨d, hd, rfl⟩ := List.mem_map.mp hx
      by_cases hc : d.2 ≥ lo
      · rw [if_pos hc]; exact Int.le_refl _
      · rw [if_neg hc]; exact (h.bnd d hd).1
  -- the solution with `y = hi`: everybody at the maximum
  have hmax : inBox (zs.map (·.2)) zs ∧ RmaxEq (zs.map (·.2)) hi := by
    refine ⟨inBox_mapTuple _ zs (fun d hd => ⟨(h.bnd d hd).2.1, Int.le_refl _⟩), ?_, fun x hx => ?_⟩
    · exact List.mem_map.mpr ⟨e0, he0, htop⟩
    · obtain ⟨d, hd, rfl⟩ := List.mem_map.mp hx
      exact (h.bnd d hd).2.2
  refine ⟨fun k hk => ⟨?_, ?_⟩, ⟨_, hg0⟩, ⟨_, hmax⟩⟩
  · -- the minimum of x_k
    have hek := getDom_mem hk
    obtain ⟨b1, b2, b3⟩ := h.bnd _ hek
    by_cases hc : (getDom zs k).2 ≥ lo ∧ (getDom zs k).1 ≠ lo
    · have h2 : 2 ≤ nCand lo zs := by
        rcases h.cand _ hek hc.1 with h1 | h1
        · exact absurd h1 hc.2
        · exact h1
      obtain ⟨j, hjk, hj, hp⟩ := exists_other_idx _ zs h2 k
      have hp' : (getDom zs j).2 ≥ lo := by simpa using hp
      refine ⟨(zs.map (fun e : Dom => if e.2 ≥ lo then lo else e.1)).set k (getDom zs k).1, lo,
        inBox_set k _ hg0.1 ⟨Int.le_refl _, b2⟩, hlo_dom, ⟨?_, fun x hx => ?_⟩,
        getI_set_self _ (by simpa using hk)⟩
      · have e1 : getI ((zs.map (fun e : Dom => if e.2 ≥ lo then lo else e.1)).set k (getDom zs k).1) j = lo := by
          rw [getI_set_ne _ (Ne.symm hjk), getI_map _ hj, if_pos hp']
        have hm := getI_mem (ts := (zs.map (fun e : Dom => if e.2 ≥ lo then lo else e.1)).set k (getDom zs k).1)
          (j := j) (by simpa using hj)
        rwa [e1] at hm
      · rcases List.mem_or_eq_of_mem_set hx with hx | hx
        · exact hg0.2.2 x hx
        · rw [hx]; exact b1
    · refine ⟨_, lo, hg0.1, hlo_dom, hg0.2, ?_⟩
      rw [getI_map _ hk]
      by_cases hc2 : (getDom zs k).2 ≥ lo
      · rw [if_pos hc2]
        by_cases hc3 : (getDom zs k).1 = lo
        · exact hc3.symm
        · exact absurd ⟨hc2, hc3⟩ hc
      · rw [if_neg hc2]
  · -- the maximum of x_k
    have hek := getDom_mem hk
    obtain ⟨b1, b2, b3⟩ := h.bnd _ hek
    by_cases hc : (getDom zs k).2 ≥ lo
    · refine ⟨zs.map (fun e : Dom => min e.2 (getDom zs k).2), (getDom zs k).2,
        inBox_mapTuple _ zs (fun d hd => ?_), ⟨hc, b3⟩, ⟨?_, fun x hx => ?_⟩, ?_⟩
      · obtain ⟨c1, c2, c3⟩ := h.bnd d hd
        unfold inDom; omega
      · exact List.mem_map.mpr ⟨_, hek, by omega⟩
      · obtain ⟨d, hd, rfl⟩ := List.mem_map.mp hx
        omega
      · rw [getI_map _ hk]; omega
    · refine ⟨zs.map (fun e : Dom => if e.2 ≥ lo then lo else e.2), lo,
        inBox_mapTuple _ zs (fun d hd => ?_), hlo_dom, ⟨?_, fun x hx => ?_⟩, ?_⟩
      · obtain ⟨c1, c2, c3⟩ := h.bnd d hd
        unfold inDom
        by_cases hc2 : d.2 ≥ lo
        · rw [if_pos hc2]; exact ⟨c1, hc2⟩
        · rw [if_neg hc2]; exact ⟨c2, Int.le_refl _⟩
      · exact List.mem_map.mpr ⟨e0, he0, by rw [if_pos (by omega)]⟩
      · obtain ⟨d, hd, rfl⟩ := List.mem_map.mp hx
        by_cases hc2 : d.2 ≥ lo
        · rw [if_pos hc2]; exact Int.le_refl _
        · rw [if_neg hc2]; omega
      · rw [getI_map _ hk, if_neg hc]

theorem coreExact_maxEq : CoreExact maxEqCore RmaxEq := by
  intro xs y st xs' y' hxs hnx hny hcore hst
  obtain ⟨rfl, hfix⟩ := maxEq_result_fix hxs hnx hcore hst
  obtain ⟨h1, h2, h3⟩ := maxEqFix_bounds hfix
  exact ⟨h1, h2, h3, .cons, maxEqFix_idem hfix, by simp⟩

theorem exact_maxEq : Exact .maxEq := exact_lift isLift_maxEq coreSound_maxEq coreExact_maxEq

/-! min_eq -/

theorem minEqFix_idem {zs : Box} {lo hi : Int} (h : MinEqFix zs lo hi) :
    minEqCore zs (lo, hi) = (.cons, zs, (lo, hi)) := by
  obtain ⟨e0, he0, hbot⟩ := h.bot
  have hle := h.le
  have hzs : zs ≠ [] := by intro h0; subst h0; simp at he0
  have hhi : mnHi zs (lo, hi) = hi := by
    have := le_minOf (·.2) zs hzs hi (fun d hd => (h.bnd d hd).1)
    unfold mnHi; simp only; omega
  have hlo : mnLo zs (lo, hi) = lo := by
    have : minOf (·.1) zs ≤ e0.1 := minOf_le (·.1) zs e0 he0
    unfold mnLo; simp only; omega
  have hfl : zs.map (floorD lo) = zs := map_eq_self _ zs (fun d hd => by
    have := (h.bnd d hd).2.2
    rw [floorD, if_neg (by omega)])
  rcases minEqCore_cases zs (lo, hi) with ⟨h0, _⟩ | ⟨_, hn, he⟩ | ⟨_, _, he⟩
  · rw [hlo, hhi] at h0; omega
  · rw [hlo, hhi, hfl] at he hn
    rw [he]
    have : zs.map (lowerD hi) = zs := map_eq_self _ zs (fun d hd => by
      by_cases hc : d.1 ≤ hi
      · rcases h.cand d hd hc with h1 | h1
        · rw [lowerD, if_pos hc, ← h1]
        · omega
      · rw [lowerD, if_neg hc])
    rw [this]
  · rw [hlo, hhi, hfl] at he; exact he

theorem minEqFix_bounds {zs : Box} {lo hi : Int} (h : MinEqFix zs lo hi) :
    (∀ k, k < zs.length →
      (∃ ts v, inBox ts zs ∧ inDom v (lo, hi) ∧ RminEq ts v ∧ getI ts k = (getDom zs k).1) ∧
      (∃ ts v, inBox ts zs ∧ inDom v (lo, hi) ∧ RminEq ts v ∧ getI ts k = (getDom zs k).2)) ∧
    (∃ ts, inBox ts zs ∧ RminEq ts lo) ∧ (∃ ts, inBox ts zs ∧ RminEq ts hi) := by
  obtain ⟨e0, he0, hbot⟩ := h.bot
  have hle := h.le
  have hhi_dom : inDom hi (lo, hi) := ⟨hle, Int.le_refl _⟩
  -- the solution with `y = hi`: candidates at `hi`, the others at their maximum
  have hg0 : inBox (zs.map (fun e : Dom => if e.1 ≤ hi then hi else e.2)) zs ∧
      RminEq (zs.map (fun e : Dom => if e.1 ≤ hi then hi else e.2)) hi := by
    refine ⟨inBox_mapTuple _ zs (fun d hd => ?_), ?_, fun x hx => ?_⟩
    · obtain ⟨b1, b2, b3⟩ := h.bnd d hd
      unfold inDom
      by_cases hc : d.1 ≤ hi
      · rw [if_pos hc]; exact ⟨hc, b1⟩
      · rw [if_neg hc]; exact ⟨b2, Int.le_refl _⟩
    · exact List.mem_map.mpr ⟨e0, he0, by rw [if_pos (by omega)]⟩
    · obtain ⟨d, hd, rfl⟩ := List.mem_map.mp hx
      by_cases hc : d.1 ≤ hi
      · rw [if_pos hc]; exact Int.le_refl _
      · rw [if_neg hc]; exact (h.bnd d hd).1
  -- the solution with `y = lo`: everybody at the minimum
  have hmin : inBox (zs.map (·.1)) zs ∧ RminEq (zs.map (·.1)) lo := by
    refine ⟨inBox_mapTuple _ zs (fun d hd => ⟨Int.le_refl _, (h.bnd d hd).2.1⟩), ?_, fun x hx => ?_⟩
    · exact List.mem_map.mpr ⟨e0, he0, hbot⟩
    · obtain ⟨d, hd, rfl⟩ := List.mem_map.mp hx
      exact (h.bnd d hd).2.2
  refine ⟨fun k hk => ⟨?_, ?_⟩, ⟨_, hmin⟩, ⟨_, hg0⟩⟩
  · -- the minimum of x_k
    have hek := getDom_mem hk
    obtain ⟨b1, b2, b3⟩ := h.bnd _ hek
    by_cases hc : (getDom zs k).1 ≤ hi
    · refine ⟨zs.map (fun e : Dom => max e.1 (getDom zs k).1), (getDom zs k).1,
        inBox_mapTuple _ zs (fun d hd => ?_), ⟨b3, hc⟩, ⟨?_, fun x hx => ?_⟩, ?_⟩
      · obtain ⟨c1, c2, c3⟩ := h.bnd d hd
        unfold inDom; omega
      · exact List.mem_map.mpr ⟨_, hek, by omega⟩
      · obtain ⟨d, hd, rfl⟩ := List.mem_map.mp hx
        omega
      · rw [getI_map _ hk]; omega
    · refine ⟨zs.map (fun e : Dom => if e.1 ≤ hi then hi else e.1), hi,
        inBox_mapTuple _ zs (fun d hd => ?_), hhi_dom, ⟨?_, fun x hx => ?_⟩, ?_⟩
      · obtain ⟨c1, c2, c3⟩ := h.bnd d hd
        unfold inDom
        by_cases hc2 : d.1 ≤ hi
        · rw [if_pos hc2]; exact ⟨hc2, c1⟩
        · rw [if_neg hc2]; exact ⟨Int.le_refl _, c2⟩
      · exact List.mem_map.mpr ⟨e0, he0, by rw [if_pos (by omega)]⟩
      · obtain ⟨d, hd, rfl⟩ := List.mem_map.mp hx
        by_cases hc2 : d.1 ≤ hi
        · rw [if_pos hc2]; exact Int.le_refl _
        · rw [if_neg hc2]; omega
      · rw [getI_map _ hk, if_neg hc]
  · -- the maximum of x_k
    have hek := getDom_mem hk
    obtain ⟨b1, b2, b3⟩ := h.bnd _ hek
    by_cases hc : (getDom zs k).1 ≤ hi ∧ (getDom zs k).2 ≠ hi
    · have h2 : 2 ≤ nCandMin hi zs := by
        rcases h.cand _ hek hc.1 with h1 | h1
        · exact absurd h1 hc.2
        · exact h1
      obtain ⟨j, hjk, hj, hp⟩ := exists_other_idx _ zs h2 k
      have hp' : (getDom zs j).1 ≤ hi := by simpa using hp
      refine ⟨(zs.map (fun e : Dom => if e.1 ≤ hi then hi else e.2)).set k (getDom zs k).2, hi,
        inBox_set k _ hg0.1 ⟨b2, Int.le_refl _⟩, hhi_dom, ⟨?_, fun x hx => ?_⟩,
        getI_set_self _ (by simpa using hk)⟩
      · have e1 : getI ((zs.map (fun e : Dom => if e.1 ≤ hi then hi else e.2)).set k (getDom zs k).2) j = hi := by
          rw [getI_set_ne _ (Ne.symm hjk), getI_map _ hj, if_pos hp']
        have hm := getI_mem (ts := (zs.map (fun e : Dom => if e.1 ≤ hi then hi else e.2)).set k (getDom zs k).2)
          (j := j) (by simpa using hj)
        rwa [e1] at hm
      · rcases List.mem_or_eq_of_mem_set hx with hx | hx
        · exact hg0.2.2 x hx
        · rw [hx]; exact b1
    · refine ⟨_, hi, hg0.1, hhi_dom, hg0.2, ?_⟩
      rw [getI_map _ hk]
      by_cases hc2 : (getDom zs k).1 ≤ hi
      · rw [if_pos hc2]
        by_cases hc3 : (getDom zs k).2 = hi
        · exact hc3.symm
        · exact absurd ⟨hc2, hc3⟩ hc
      · rw [if_neg hc2]

theorem coreExact_minEq : CoreExact minEqCore RminEq := by
  intro xs y st xs' y' hxs hnx hny hcore hst
  obtain ⟨rfl, hfix⟩ := minEq_result_fix hxs hnx hcore hst
  obtain ⟨h1, h2, h3⟩ := minEqFix_bounds hfix
  exact ⟨h1, h2, h3, .cons, minEqFix_idem hfix, by simp⟩

theorem exact_minEq : Exact .minEq := exact_lift isLift_minEq coreSound_minEq coreExact_minEq

end Nucs
