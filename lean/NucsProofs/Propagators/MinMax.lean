import NucsProofs.Basic
/-!
  max_leq, min_geq, max_eq, min_eq : variables `x_0 … x_{n-2}, y` (n ≥ 2).

  Layout: (1) the `xs ++ [y]` shape, (2) `maxOf`/`minOf`, (3) generic lifting of "core" contracts
  on `(xs, y)` to the `Spec` contracts on `B = xs ++ [y]`, (4) the four propagators.
-/
namespace Nucs

/-! ### 1. the `xs ++ [y]` shape -/

theorem list_eq_front_back {α} (l : List α) (d : α) (h : l ≠ []) :
    l = l.dropLast ++ [l.getLastD d] := by
  rw [List.getLastD_eq_getLast?, List.getLast?_eq_some_getLast h]
  simp [List.dropLast_concat_getLast]

theorem Box.eq_front_back {B : Box} (h : B ≠ []) : B = B.front ++ [B.back] :=
  list_eq_front_back B (0, 0) h

theorem tuple_eq_front_back {t : List Int} (h : t ≠ []) : t = tFront t ++ [tBack t] :=
  list_eq_front_back t 0 h

theorem inBox_concat : ∀ {ts : List Int} {xs : Box} {v : Int} {y : Dom},
    inBox (ts ++ [v]) (xs ++ [y]) ↔ inBox ts xs ∧ inDom v y
  | [], [], v, y => by simp [inBox]
  | t :: ts, d :: ds, v, y => by
    simp [inBox, inBox_concat (ts := ts) (xs := ds), and_assoc]
  | [], d :: ds, v, y => by cases ds <;> simp [inBox]
  | t :: ts, [], v, y => by cases ts <;> simp [inBox]

theorem inBox_concat_right {t : List Int} {xs : Box} {y : Dom} (h : inBox t (xs ++ [y])) :
    ∃ ts v, t = ts ++ [v] ∧ inBox ts xs ∧ inDom v y := by
  have hl := inBox_length h
  have hne : t ≠ [] := by intro h0; subst h0; simp at hl
  have ht := tuple_eq_front_back hne
  rw [ht] at h
  exact ⟨_, _, ht, inBox_concat.mp h⟩

theorem Box.le_concat : ∀ {xs' xs : Box} {y' y : Dom},
    Box.le (xs' ++ [y']) (xs ++ [y]) ↔ Box.le xs' xs ∧ (y.1 ≤ y'.1 ∧ y'.2 ≤ y.2)
  | [], [], _, _ => by simp [Box.le]
  | d' :: ds', d :: ds, _, _ => by
    simp [Box.le, Box.le_concat (xs' := ds') (xs := ds), and_assoc]
  | [], d :: ds, _, _ => by cases ds <;> simp [Box.le]
  | d' :: ds', [], _, _ => by cases ds' <;> simp [Box.le]

theorem Box.nonempty_concat {xs : Box} {y : Dom} :
    Box.Nonempty (xs ++ [y]) ↔ Box.Nonempty xs ∧ y.1 ≤ y.2 := by
  simp only [Box.Nonempty, List.mem_append, List.mem_singleton]
  constructor
  · intro h; exact ⟨fun d hd => h d (Or.inl hd), h y (Or.inr rfl)⟩
  · rintro ⟨h1, h2⟩ d (hd | hd)
    · exact h1 d hd
    · subst hd; exact h2

theorem pointBox_concat (ts : List Int) (v : Int) : pointBox (ts ++ [v]) = pointBox ts ++ [(v, v)] := by
  simp [pointBox]

theorem liftLast_concat (core : Box → Dom → Status × Box × Dom) (xs : Box) (y : Dom) :
    liftLast core (xs ++ [y]) = ((core xs y).1, (core xs y).2.1 ++ [(core xs y).2.2]) := by
  simp [liftLast, Box.front, Box.back]

theorem tFront_concat (ts : List Int) (v : Int) : tFront (ts ++ [v]) = ts := by simp [tFront]
theorem tBack_concat (ts : List Int) (v : Int) : tBack (ts ++ [v]) = v := by simp [tBack]

/-- a box with at least two variables is `xs ++ [y]` with `xs ≠ []` -/
theorem Box.shape {B : Box} (h : 2 ≤ B.length) : ∃ xs y, B = xs ++ [y] ∧ xs ≠ [] := by
  have hne : B ≠ [] := by intro h0; subst h0; simp at h
  refine ⟨B.front, B.back, Box.eq_front_back hne, ?_⟩
  intro h0
  have := congrArg List.length (Box.eq_front_back hne)
  rw [h0] at this; simp at this; omega

/-! component access -/

theorem getDom_concat_left {xs : Box} {y : Dom} {k : Nat} (hk : k < xs.length) :
    getDom (xs ++ [y]) k = getDom xs k := by
  simp [getDom, List.getD, List.getElem?_append_left hk]

theorem getDom_concat_last (xs : Box) (y : Dom) : getDom (xs ++ [y]) xs.length = y := by
  simp [getDom, List.getD]

theorem getI_concat_left {ts : List Int} {v : Int} {k : Nat} (hk : k < ts.length) :
    getI (ts ++ [v]) k = getI ts k := by
  simp [getI, List.getD, List.getElem?_append_left hk]

theorem getI_concat_last (ts : List Int) (v : Int) : getI (ts ++ [v]) ts.length = v := by
  simp [getI, List.getD]

theorem getDom_map (f : Dom → Dom) {xs : Box} {k : Nat} (hk : k < xs.length) :
    getDom (xs.map f) k = f (getDom xs k) := by
  simp [getDom, List.getD, List.getElem?_eq_getElem hk]

theorem getDom_mem {xs : Box} {k : Nat} (hk : k < xs.length) : getDom xs k ∈ xs := by
  simp [getDom, List.getD, List.getElem?_eq_getElem hk]

theorem exists_getDom_of_mem {xs : Box} {d : Dom} (h : d ∈ xs) : ∃ k, k < xs.length ∧ getDom xs k = d := by
  obtain ⟨k, hk, he⟩ := List.getElem_of_mem h
  exact ⟨k, hk, by simp [getDom, List.getD, List.getElem?_eq_getElem hk, he]⟩

/-! `inBox` / `Box.le` against `map` -/

theorem Box.map_le (f : Dom → Dom) (hf : ∀ d, d.1 ≤ (f d).1 ∧ (f d).2 ≤ d.2) :
    ∀ xs : Box, Box.le (xs.map f) xs
  | [] => trivial
  | d :: ds => ⟨hf d, Box.map_le f hf ds⟩

theorem inBox_map (f : Dom → Dom) (P : Int → Prop) (hf : ∀ x d, P x → inDom x d → inDom x (f d)) :
    ∀ {ts : List Int} {xs : Box}, inBox ts xs → (∀ x ∈ ts, P x) → inBox ts (xs.map f)
  | [], [], _, _ => trivial
  | t :: ts, d :: ds, h, hP =>
    ⟨hf t d (hP t (by simp)) h.1, inBox_map f P hf h.2 (fun x hx => hP x (by simp [hx]))⟩
  | [], _ :: _, h, _ => by simp [inBox] at h
  | _ :: _, [], h, _ => by simp [inBox] at h

/-- every domain of the box carries a value of the tuple -/
theorem inBox_exists_of_mem : ∀ {ts : List Int} {xs : Box}, inBox ts xs → ∀ d ∈ xs, ∃ x ∈ ts, inDom x d
  | [], [], _, d, hd => by simp at hd
  | t :: ts, e :: es, h, d, hd => by
    rcases List.mem_cons.mp hd with hd | hd
    · subst hd; exact ⟨t, by simp, h.1⟩
    · obtain ⟨x, hx, hxd⟩ := inBox_exists_of_mem h.2 d hd
      exact ⟨x, by simp [hx], hxd⟩
  | [], _ :: _, h, _, _ => by simp [inBox] at h
  | _ :: _, [], h, _, _ => by simp [inBox] at h

/-- every value of the tuple lies in a domain of the box -/
theorem inBox_exists_of_mem' : ∀ {ts : List Int} {xs : Box}, inBox ts xs → ∀ x ∈ ts, ∃ d ∈ xs, inDom x d
  | [], [], _, x, hx => by simp at hx
  | t :: ts, e :: es, h, x, hx => by
    rcases List.mem_cons.mp hx with hx | hx
    · subst hx; exact ⟨e, by simp, h.1⟩
    · obtain ⟨d, hd, hxd⟩ := inBox_exists_of_mem' h.2 x hx
      exact ⟨d, by simp [hd], hxd⟩
  | [], _ :: _, h, _, _ => by simp [inBox] at h
  | _ :: _, [], h, _, _ => by simp [inBox] at h

/-! ### 2. `maxOf` / `minOf` -/

theorem le_maxOf (f : Dom → Int) : ∀ (xs : Box) (d : Dom), d ∈ xs → f d ≤ maxOf f xs
  | [e], d, h => by simp at h; subst h; simp [maxOf]
  | e :: e' :: es, d, h => by
    simp only [maxOf]
    rcases List.mem_cons.mp h with h | h
    · subst h; omega
    · have := le_maxOf f (e' :: es) d h; omega

theorem maxOf_mem (f : Dom → Int) : ∀ (xs : Box), xs ≠ [] → ∃ d ∈ xs, f d = maxOf f xs
  | [e], _ => ⟨e, by simp, by simp [maxOf]⟩
  | e :: e' :: es, _ => by
    obtain ⟨d, hd, hfd⟩ := maxOf_mem f (e' :: es) (by simp)
    simp only [maxOf]
    by_cases hc : f e ≤ maxOf f (e' :: es)
    · exact ⟨d, List.mem_cons_of_mem _ hd, by omega⟩
    · exact ⟨e, by simp, by omega⟩

theorem maxOf_le (f : Dom → Int) (xs : Box) (hne : xs ≠ []) (c : Int) (h : ∀ d ∈ xs, f d ≤ c) :
    maxOf f xs ≤ c := by
  obtain ⟨d, hd, hfd⟩ := maxOf_mem f xs hne
  rw [← hfd]; exact h d hd

theorem minOf_le (f : Dom → Int) : ∀ (xs : Box) (d : Dom), d ∈ xs → minOf f xs ≤ f d
  | [e], d, h => by simp at h; subst h; simp [minOf]
  | e :: e' :: es, d, h => by
    simp only [minOf]
    rcases List.mem_cons.mp h with h | h
    · subst h; omega
    · have := minOf_le f (e' :: es) d h; omega

theorem minOf_mem (f : Dom → Int) : ∀ (xs : Box), xs ≠ [] → ∃ d ∈ xs, f d = minOf f xs
  | [e], _ => ⟨e, by simp, by simp [minOf]⟩
  | e :: e' :: es, _ => by
    obtain ⟨d, hd, hfd⟩ := minOf_mem f (e' :: es) (by simp)
    simp only [minOf]
    by_cases hc : minOf f (e' :: es) ≤ f e
    · exact ⟨d, List.mem_cons_of_mem _ hd, by omega⟩
    · exact ⟨e, by simp, by omega⟩

theorem le_minOf (f : Dom → Int) (xs : Box) (hne : xs ≠ []) (c : Int) (h : ∀ d ∈ xs, c ≤ f d) :
    c ≤ minOf f xs := by
  obtain ⟨d, hd, hfd⟩ := minOf_mem f xs hne
  rw [← hfd]; exact h d hd

/-! ### 3. lifting core contracts on `(xs, y)` to `B = xs ++ [y]` -/

abbrev Core := Box → Dom → Status × Box × Dom

/-- `a` is `liftLast core` with relation `R (front) (back)` and contract `2 ≤ n` -/
structure IsLift (a : Alg) (core : Core) (R : List Int → Int → Prop) : Prop where
  run : ∀ ps B, runAlg a ps B = .ok (liftLast core B)
  rel : ∀ ps t, rel a ps t ↔ R (tFront t) (tBack t)
  relW : ∀ ps t, relW a ps t ↔ R (tFront t) (tBack t)
  con : ∀ ps B, Contract a ps B ↔ 2 ≤ B.length

def CoreSound (core : Core) (R : List Int → Int → Prop) : Prop :=
  ∀ xs y st xs' y', xs ≠ [] → Box.Nonempty xs → y.1 ≤ y.2 → core xs y = (st, xs', y') →
    (st ≠ .inc → Box.le xs' xs ∧ (y.1 ≤ y'.1 ∧ y'.2 ≤ y.2) ∧ Box.Nonempty xs' ∧ y'.1 ≤ y'.2 ∧
      ∀ ts v, inBox ts xs → inDom v y → R ts v → inBox ts xs' ∧ inDom v y') ∧
    (st = .inc → ∀ ts v, inBox ts xs → inDom v y → ¬ R ts v)

def CoreGround (core : Core) (R : List Int → Int → Prop) : Prop :=
  ∀ xs y st ts v, xs ≠ [] → Box.Nonempty xs → y.1 ≤ y.2 → core xs y = (st, pointBox ts, (v, v)) →
    st ≠ .inc → R ts v

def CoreEntail (core : Core) (R : List Int → Int → Prop) : Prop :=
  ∀ xs y xs' y', xs ≠ [] → Box.Nonempty xs → y.1 ≤ y.2 → core xs y = (.ent, xs', y') →
    ∀ ts v, inBox ts xs' → inDom v y' → R ts v

def CoreTrig (core : Core) (mx my : Ev) : Prop :=
  ∀ xs y st xs' y' xs'' y'', xs ≠ [] → Box.Nonempty xs → y.1 ≤ y.2 → core xs y = (st, xs', y') →
    st ≠ .inc → Box.le xs'' xs' → (y'.1 ≤ y''.1 ∧ y''.2 ≤ y'.2) → Box.Nonempty xs'' → y''.1 ≤ y''.2 →
    (∀ k, k < xs.length → quiet mx (getDom xs k) (getDom xs'' k)) → quiet my y y'' →
    ∃ st'', core xs'' y'' = (st'', xs'', y'') ∧ st'' ≠ .inc

def CoreExact (core : Core) (R : List Int → Int → Prop) : Prop :=
  ∀ xs y st xs' y', xs ≠ [] → Box.Nonempty xs → y.1 ≤ y.2 → core xs y = (st, xs', y') → st ≠ .inc →
    (∀ k, k < xs'.length →
      (∃ ts v, inBox ts xs' ∧ inDom v y' ∧ R ts v ∧ getI ts k = (getDom xs' k).1) ∧
      (∃ ts v, inBox ts xs' ∧ inDom v y' ∧ R ts v ∧ getI ts k = (getDom xs' k).2)) ∧
    (∃ ts, inBox ts xs' ∧ R ts y'.1) ∧ (∃ ts, inBox ts xs' ∧ R ts y'.2) ∧
    (∃ st', core xs' y' = (st', xs', y') ∧ st' ≠ .inc)

section lift
variable {a : Alg} {core : Core} {R : List Int → Int → Prop}

theorem sound_lift (L : IsLift a core R) (h : CoreSound core R) : Sound a := by
  intro ps B st B' hc hne hrun
  obtain ⟨xs, y, rfl, hxs⟩ := Box.shape ((L.con ps _).mp hc)
  rw [L.run, liftLast_concat] at hrun
  injection hrun with hrun
  obtain ⟨hnx, hny⟩ := Box.nonempty_concat.mp hne
  rcases hcore : core xs y with ⟨st0, xs', y'⟩
  rw [hcore] at hrun
  injection hrun with h1 h2
  simp only at h1 h2
  subst h1; subst h2
  obtain ⟨hA, hB⟩ := h xs y st0 xs' y' hxs hnx hny hcore
  constructor
  · intro hst
    obtain ⟨h1, h2, h3, h4, h5⟩ := hA hst
    refine ⟨Box.le_concat.mpr ⟨h1, h2⟩, Box.nonempty_concat.mpr ⟨h3, h4⟩, fun t ht hr => ?_⟩
    obtain ⟨ts, v, rfl, hts, hv⟩ := inBox_concat_right ht
    rw [L.rel, tFront_concat, tBack_concat] at hr
    exact inBox_concat.mpr (h5 ts v hts hv hr)
  · intro hst t ht hr
    obtain ⟨ts, v, rfl, hts, hv⟩ := inBox_concat_right ht
    rw [L.rel, tFront_concat, tBack_concat] at hr
    exact hB hst ts v hts hv hr

theorem entailOk_lift (L : IsLift a core R) (h : CoreEntail core R) : EntailOk a := by
  intro ps B B' hc hne hrun t ht
  obtain ⟨xs, y, rfl, hxs⟩ := Box.shape ((L.con ps _).mp hc)
  rw [L.run, liftLast_concat] at hrun
  injection hrun with hrun
  obtain ⟨hnx, hny⟩ := Box.nonempty_concat.mp hne
  rcases hcore : core xs y with ⟨st0, xs', y'⟩
  rw [hcore] at hrun
  injection hrun with h1 h2
  simp only at h1 h2
  subst h1; subst h2
  obtain ⟨ts, v, rfl, hts, hv⟩ := inBox_concat_right ht
  rw [L.rel, tFront_concat, tBack_concat]
  exact h xs y xs' y' hxs hnx hny hcore ts v hts hv

theorem groundOk_lift (L : IsLift a core R) (h : CoreGround core R) : GroundOk a := by
  intro ps B st B' t hc hne hrun hst hB'
  obtain ⟨xs, y, rfl, hxs⟩ := Box.shape ((L.con ps _).mp hc)
  rw [L.run, liftLast_concat] at hrun
  injection hrun with hrun
  obtain ⟨hnx, hny⟩ := Box.nonempty_concat.mp hne
  rcases hcore : core xs y with ⟨st0, xs', y'⟩
  rw [hcore] at hrun
  injection hrun with h1 h2
  simp only at h1 h2
  subst h1
  have htne : t ≠ [] := by
    intro h0; subst h0; rw [hB'] at h2; simp [pointBox] at h2
  rw [tuple_eq_front_back htne, pointBox_concat] at hB'
  rw [hB'] at h2
  have hl : xs'.length = (pointBox (tFront t)).length := by
    have := congrArg List.length h2; simpa using this
  obtain ⟨e1, e2⟩ := List.append_inj h2 hl
  simp only [List.cons.injEq, and_true] at e2
  subst e1; subst e2
  rw [L.relW]
  exact h xs y st0 (tFront t) (tBack t) hxs hnx hny hcore hst

theorem contractMono_lift (L : IsLift a core R) : ContractMono a := by
  intro ps B B' hc hle
  rw [L.con] at *
  rw [Box.le_length hle]; exact hc

theorem safe_lift (L : IsLift a core R) : Safe a := fun ps B _ _ => ⟨_, L.run ps B⟩

theorem trigOk_lift (L : IsLift a core R) (mx my : Ev)
    (hm : ∀ ps n k, k + 1 < n → maskAlg a ps n k = mx)
    (hm' : ∀ ps n k, k + 1 = n → maskAlg a ps n k = my)
    (hs : CoreSound core R) (h : CoreTrig core mx my) : TrigOk a := by
  intro ps B st B' B'' hc hne hrun hst hle hne'' hq
  obtain ⟨xs, y, rfl, hxs⟩ := Box.shape ((L.con ps _).mp hc)
  rw [L.run, liftLast_concat] at hrun
  injection hrun with hrun
  obtain ⟨hnx, hny⟩ := Box.nonempty_concat.mp hne
  rcases hcore : core xs y with ⟨st0, xs', y'⟩
  rw [hcore] at hrun
  injection hrun with h1 h2
  simp only at h1 h2
  subst h1; subst h2
  have hl'' := Box.le_length hle
  obtain ⟨xs'', y'', rfl, hxs''⟩ : ∃ xs'' y'', B'' = xs'' ++ [y''] ∧ True := by
    have : B'' ≠ [] := by intro h0; subst h0; simp at hl''
    exact ⟨_, _, Box.eq_front_back this, trivial⟩
  obtain ⟨hle1, hle2⟩ := Box.le_concat.mp hle
  obtain ⟨hn1, hn2⟩ := Box.nonempty_concat.mp hne''
  have hlx' := Box.le_length hle1
  have hlx : xs'.length = xs.length :=
    Box.le_length ((hs xs y st0 xs' y' hxs hnx hny hcore).1 hst).1
  have hlen : (xs ++ [y]).length = xs.length + 1 := by simp
  have hqx : ∀ k, k < xs.length → quiet mx (getDom xs k) (getDom xs'' k) := by
    intro k hk
    have := hq k (by omega)
    rw [hm ps _ k (by omega), getDom_concat_left hk, getDom_concat_left (by omega)] at this
    exact this
  have hqy : quiet my y y'' := by
    have := hq xs.length (by omega)
    rw [hm' ps _ _ (by omega), getDom_concat_last] at this
    have e : xs.length = xs''.length := by omega
    rw [e, getDom_concat_last] at this
    exact this
  obtain ⟨st'', h1, h2⟩ := h xs y st0 xs' y' xs'' y'' hxs hnx hny hcore hst hle1 hle2 hn1 hn2 hqx hqy
  refine ⟨st'', ?_, h2⟩
  rw [L.run, liftLast_concat, h1]

end lift

end Nucs
