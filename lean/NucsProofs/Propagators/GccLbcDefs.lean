import NucsProofs.Propagators.GccExistLMin
import NucsProofs.Propagators.GccExact
/-!
  Completeness of the lower-capacity passes of the ported gcc — shared definitions.

  Cells are numbered like the array `c` of `filter_lower_min`: the cell `r` (`2 ≤ r ≤ N - 1`) is the
  block of values `[bounds[r-1], bounds[r])`, of demand `bd r - bd (r-1)`; a variable `u` covers the
  cells `rx u + 1, …, ry u`; a used variable holds one unit of the cell `cf u`.
-/
namespace Nucs
namespace Gcc
open AllDiff (cinR Sm)

/-- `u` can be freed: an alternating chain starts at a processed variable that is not used, each
    variable of the chain taking over the unit held by the next one -/
inductive Freeable (rx ry cf : Int → Int) (P U : List Int) : Int → Prop
  | unused (p : Int) : p ∈ P → p ∉ U → Freeable rx ry cf P U p
  | step (q u : Int) : Freeable rx ry cf P U q → u ∈ U → rx q < cf u → cf u ≤ ry q →
      Freeable rx ry cf P U u

/-- the completeness half of the recorded candidate bound `w` of the used variable `u`: `w` lies in
    no rank interval exactly filled by used variables with a smaller maximum -/
def CFact (N : Int) (bd rx ry : Int → Int) (U : List Int) (u w : Int) : Prop :=
  ∀ ja yb, 1 ≤ ja → ja < yb → yb ≤ N → cinR rx ry (Sm ry U u) ja yb ≥ bd yb - bd ja →
    ¬ (ja ≤ w ∧ w < yb)

end Gcc
end Nucs
