import NucsProofs.Propagators.AlldiffCorrectMath
/-!
  Functional correctness of the ported alldifferent, part 4: from ranks to values.  `lo u`/`hi u`
  are the bounds of the (original) domain of variable `u`, linked to the ranks by
  `lo u = bounds[rx u]`, `hi u + 1 = bounds[ry u]`.  What a pass establishes about ranks (`RFact`,
  Hall's condition on rank intervals) is restated for arbitrary value intervals (`PassVal`).
  The same statements serve `filter_upper` with `lo u = -max u - 1`, `hi u = -min u - 1`.
-/
namespace Nucs
namespace AllDiff

/-- number of variables of `L` whose domain `[lo, hi]` lies inside `[a, b]` -/
def cinV (lo hi : Int → Int) (L : List Int) (a b : Int) : Int :=
  ((L.countP (fun p => decide (a ≤ lo p) && decide (hi p ≤ b)) : Nat) : Int)

theorem cinV_nonneg (lo hi : Int → Int) (L : List Int) (a b : Int) : 0 ≤ cinV lo hi L a b := by
  unfold cinV; omega

theorem cinV_nil (lo hi : Int → Int) (a b : Int) : cinV lo hi [] a b = 0 := rfl

theorem cinV_cons (lo hi : Int → Int) (p : Int) (L : List Int) (a b : Int) :
    cinV lo hi (p :: L) a b = cinV lo hi L a b + (if a ≤ lo p ∧ hi p ≤ b then 1 else 0) := by
  unfold cinV
  rw [List.countP_cons]
  by_cases h : a ≤ lo p ∧ hi p ≤ b
  · simp [h]
  · rw [if_neg h]
    have : (decide (a ≤ lo p) && decide (hi p ≤ b)) = false := by simpa using h
    simp [this]

theorem cinV_sublist (lo hi : Int → Int) {P Q : List Int} (h : P.Sublist Q) (a b : Int) :
    cinV lo hi P a b ≤ cinV lo hi Q a b := by
  unfold cinV
  have := h.countP_le (p := fun p => decide (a ≤ lo p) && decide (hi p ≤ b))
  omega

/-- two intervals that contain the same domains of `L` -/
theorem cinV_congr (lo hi : Int → Int) (L : List Int) (a b a' b' : Int)
    (h : ∀ p ∈ L, (a ≤ lo p ∧ hi p ≤ b) ↔ (a' ≤ lo p ∧ hi p ≤ b')) :
    cinV lo hi L a b = cinV lo hi L a' b' := by
  unfold cinV
  congr 1
  apply List.countP_congr
  intro p hp
  have := h p hp
  simp only [Bool.and_eq_true, decide_eq_true_eq]
  exact this

theorem cinV_eq_zero (lo hi : Int → Int) (L : List Int) (a b : Int)
    (h : ∀ p ∈ L, ¬ (a ≤ lo p ∧ hi p ≤ b)) : cinV lo hi L a b = 0 := by
  unfold cinV
  have : L.countP (fun p => decide (a ≤ lo p) && decide (hi p ≤ b)) = 0 := by
    rw [List.countP_eq_zero]
    intro p hp
    have := h p hp
    simpa using this
  rw [this]; rfl

section val
variable {N : Int} {bd rx ry : Int → Int} {all : List Int} {lo hi : Int → Int}

/-- a rank interval and the corresponding value interval contain the same domains -/
theorem cinR_eq_cinV (hctx : RankCtx N bd rx ry all) (hlo : ∀ u ∈ all, lo u = bd (rx u))
    (hhi : ∀ u ∈ all, hi u + 1 = bd (ry u)) (L : List Int) (hL : ∀ p ∈ L, p ∈ all)
    (ja yb : Int) (h1 : 0 ≤ ja) (h2 : ja ≤ N) (h3 : 0 ≤ yb) (h4 : yb ≤ N) :
    cinR rx ry L ja yb = cinV lo hi L (bd ja) (bd yb - 1) := by
  unfold cinR cinV
  congr 1
  apply List.countP_congr
  intro p hp
  have hpa := hL p hp
  have hr := hctx.rk p hpa
  have e1 := hlo p hpa
  have e2 := hhi p hpa
  simp only [Bool.and_eq_true, decide_eq_true_eq]
  constructor
  · rintro ⟨ha, hb⟩
    have := hctx.le ja (rx p) h1 ha (by omega)
    have := hctx.le (ry p) yb (by omega) hb h4
    omega
  · rintro ⟨ha, hb⟩
    constructor
    · by_cases h : ja ≤ rx p
      · exact h
      · have := hctx.mono (rx p) ja (by omega) (by omega) h2; omega
    · by_cases h : ry p ≤ yb
      · exact h
      · have := hctx.mono yb (ry p) h3 (by omega) (by omega); omega

/-- what a successful pass establishes, in terms of values; `nm u` is the new lower bound of `u` -/
structure PassVal (all : List Int) (lo hi nm : Int → Int) : Prop where
  hall : ∀ a b, a ≤ b → cinV lo hi all a b ≤ b - a + 1
  ge : ∀ u ∈ all, lo u ≤ nm u
  snd : ∀ u ∈ all, ∀ val, lo u ≤ val → val < nm u →
    ∃ a b, a ≤ val ∧ val ≤ b ∧ cinV lo hi (Oth all u) a b ≥ b - a + 1
  cmp : ∀ u ∈ all, ∀ a b, a ≤ b → cinV lo hi all a b = b - a + 1 → ¬ (a ≤ lo u ∧ hi u ≤ b) →
    ¬ (a ≤ nm u ∧ nm u ≤ b)

theorem lo_le_hi (hctx : RankCtx N bd rx ry all) (hlo : ∀ u ∈ all, lo u = bd (rx u))
    (hhi : ∀ u ∈ all, hi u + 1 = bd (ry u)) (u : Int) (hu : u ∈ all) : lo u ≤ hi u := by
  have hr := hctx.rk u hu
  have := hctx.mono (rx u) (ry u) (by omega) hr.2.1 (by omega)
  have := hlo u hu
  have := hhi u hu
  omega

/-- Hall's condition on rank intervals gives Hall's condition on all value intervals -/
theorem hallV_of_hallR (hctx : RankCtx N bd rx ry all) (hlo : ∀ u ∈ all, lo u = bd (rx u))
    (hhi : ∀ u ∈ all, hi u + 1 = bd (ry u))
    (hallR : ∀ ja yb, 1 ≤ ja → ja < yb → yb ≤ N → cinR rx ry all ja yb ≤ bd yb - bd ja) :
    ∀ (n : Nat) (a b : Int), a ≤ b → b - a ≤ n → cinV lo hi all a b ≤ b - a + 1 := by
  intro n
  induction n with
  | zero =>
    intro a b hab hn
    have hba : b = a := by omega
    subst hba
    by_cases hex : ∃ p ∈ all, b ≤ lo p ∧ hi p ≤ b
    · obtain ⟨p, hp, h1, h2⟩ := hex
      have hle := lo_le_hi hctx hlo hhi p hp
      have hr := hctx.rk p hp
      have e1 := hlo p hp
      have e2 := hhi p hp
      have := cinR_eq_cinV hctx hlo hhi all (fun _ h => h) (rx p) (ry p) (by omega) (by omega)
        (by omega) (by omega)
      have hR := hallR (rx p) (ry p) hr.1 hr.2.1 (by omega)
      have e3 : bd (rx p) = b := by omega
      have e4 : bd (ry p) - 1 = b := by omega
      rw [e3, e4] at this
      omega
    · rw [cinV_eq_zero lo hi all b b (fun p hp h => hex ⟨p, hp, h⟩)]; omega
  | succ n ih =>
    intro a b hab hn
    by_cases hlt : a = b
    · subst hlt; exact ih a a (Int.le_refl _) (by omega)
    · by_cases hexa : ∃ p ∈ all, (a ≤ lo p ∧ hi p ≤ b) ∧ lo p = a
      · by_cases hexb : ∃ q ∈ all, (a ≤ lo q ∧ hi q ≤ b) ∧ hi q = b
        · obtain ⟨p, hp, _, hpa⟩ := hexa
          obtain ⟨q, hq, _, hqb⟩ := hexb
          have hrp := hctx.rk p hp
          have hrq := hctx.rk q hq
          have e1 := hlo p hp
          have e2 := hhi q hq
          have hlt' : rx p < ry q :=
            hctx.lt_of_bd_lt (rx p) (ry q) (by omega) (by omega) (by omega)
          have := cinR_eq_cinV hctx hlo hhi all (fun _ h => h) (rx p) (ry q) (by omega) (by omega)
            (by omega) (by omega)
          have hR := hallR (rx p) (ry q) hrp.1 hlt' (by omega)
          have e3 : bd (rx p) = a := by omega
          have e4 : bd (ry q) - 1 = b := by omega
          rw [e3, e4] at this
          omega
        · have : cinV lo hi all a b = cinV lo hi all a (b - 1) := by
            apply cinV_congr
            intro p hp
            constructor
            · rintro ⟨h1, h2⟩
              refine ⟨h1, ?_⟩
              by_cases h : hi p = b
              · exact absurd ⟨p, hp, ⟨h1, h2⟩, h⟩ hexb
              · omega
            · rintro ⟨h1, h2⟩; exact ⟨h1, by omega⟩
          rw [this]
          have := ih a (b - 1) (by omega) (by omega)
          omega
      · have : cinV lo hi all a b = cinV lo hi all (a + 1) b := by
          apply cinV_congr
          intro p hp
          constructor
          · rintro ⟨h1, h2⟩
            refine ⟨?_, h2⟩
            by_cases h : lo p = a
            · exact absurd ⟨p, hp, ⟨h1, h2⟩, h⟩ hexa
            · omega
          · rintro ⟨h1, h2⟩; exact ⟨by omega, h2⟩
        rw [this]
        have := ih (a + 1) b (by omega) (by omega)
        omega

/-- the lower end of a Hall interval is the minimum of a domain inside it -/
theorem hall_tight_lo (hle : ∀ u ∈ all, lo u ≤ hi u)
    (hallV : ∀ a b, a ≤ b → cinV lo hi all a b ≤ b - a + 1) (a b : Int) (hab : a ≤ b)
    (hH : cinV lo hi all a b = b - a + 1) : ∃ p ∈ all, (a ≤ lo p ∧ hi p ≤ b) ∧ lo p = a := by
  apply Classical.byContradiction
  intro hex
  have : cinV lo hi all a b = cinV lo hi all (a + 1) b := by
    apply cinV_congr
    intro p hp
    constructor
    · rintro ⟨h1, h2⟩
      refine ⟨?_, h2⟩
      by_cases h : lo p = a
      · exact absurd ⟨p, hp, ⟨h1, h2⟩, h⟩ hex
      · omega
    · rintro ⟨h1, h2⟩; exact ⟨by omega, h2⟩
  by_cases hlt : a = b
  · subst hlt
    rw [cinV_eq_zero lo hi all (a + 1) a (fun p hp h => by have := hle p hp; omega)] at this
    omega
  · have := hallV (a + 1) b (by omega); omega

/-- the upper end of a Hall interval is the maximum of a domain inside it -/
theorem hall_tight_hi (hle : ∀ u ∈ all, lo u ≤ hi u)
    (hallV : ∀ a b, a ≤ b → cinV lo hi all a b ≤ b - a + 1) (a b : Int) (hab : a ≤ b)
    (hH : cinV lo hi all a b = b - a + 1) : ∃ p ∈ all, (a ≤ lo p ∧ hi p ≤ b) ∧ hi p = b := by
  apply Classical.byContradiction
  intro hex
  have : cinV lo hi all a b = cinV lo hi all a (b - 1) := by
    apply cinV_congr
    intro p hp
    constructor
    · rintro ⟨h1, h2⟩
      refine ⟨h1, ?_⟩
      by_cases h : hi p = b
      · exact absurd ⟨p, hp, ⟨h1, h2⟩, h⟩ hex
      · omega
    · rintro ⟨h1, h2⟩; exact ⟨h1, by omega⟩
  by_cases hlt : a = b
  · subst hlt
    rw [cinV_eq_zero lo hi all a (a - 1) (fun p hp h => by have := hle p hp; omega)] at this
    omega
  · have := hallV a (b - 1) (by omega); omega

/-- inclusion–exclusion for two overlapping or adjacent intervals `[a', b']`, `[a, b]` -/
theorem cinV_union_le (lo hi : Int → Int) (a' a b' b : Int) (ha : a' ≤ a) (hb : b' ≤ b) :
    ∀ L : List Int, cinV lo hi L a' b' + cinV lo hi L a b ≤ cinV lo hi L a' b + cinV lo hi L a b' := by
  intro L
  induction L with
  | nil => simp [cinV_nil]
  | cons p L ih =>
    rw [cinV_cons, cinV_cons, cinV_cons, cinV_cons]
    by_cases h1 : a' ≤ lo p ∧ hi p ≤ b' <;> by_cases h2 : a ≤ lo p ∧ hi p ≤ b <;>
      by_cases h3 : a' ≤ lo p ∧ hi p ≤ b <;> by_cases h4 : a ≤ lo p ∧ hi p ≤ b' <;>
      simp only [h1, h2, h3, h4, if_false] <;> omega

/-- … with one more domain inside the union that lies in neither part -/
theorem cinV_union_lt (lo hi : Int → Int) (a' a b' b : Int) (ha : a' ≤ a) (hb : b' ≤ b) (u : Int)
    (hA : a' ≤ lo u ∧ hi u ≤ b) (hB : ¬ (a' ≤ lo u ∧ hi u ≤ b')) (hC : ¬ (a ≤ lo u ∧ hi u ≤ b)) :
    ∀ L : List Int, u ∈ L →
      cinV lo hi L a' b' + cinV lo hi L a b + 1 ≤ cinV lo hi L a' b + cinV lo hi L a b' := by
  intro L
  induction L with
  | nil => intro h; cases h
  | cons p L ih =>
    intro hu
    rw [cinV_cons, cinV_cons, cinV_cons, cinV_cons]
    by_cases hpu : p = u
    · subst hpu
      have := cinV_union_le lo hi a' a b' b ha hb L
      rw [if_neg hB, if_neg hC, if_pos hA]
      split <;> omega
    · have hu' : u ∈ L := by
        rcases List.mem_cons.1 hu with h | h
        · exact absurd h.symm hpu
        · exact h
      have := ih hu'
      by_cases h1 : a' ≤ lo p ∧ hi p ≤ b' <;> by_cases h2 : a ≤ lo p ∧ hi p ≤ b <;>
        by_cases h3 : a' ≤ lo p ∧ hi p ≤ b <;> by_cases h4 : a ≤ lo p ∧ hi p ≤ b' <;>
        simp only [h1, h2, h3, h4, if_false] <;> omega

theorem mem_oth {L : List Int} {u p : Int} (h : p ∈ Oth L u) : p ∈ L := by
  unfold Oth at h
  exact (List.mem_filter.1 h).1

/-- the variables other than `u`, plus `u` itself if it lies inside -/
theorem cinV_oth_add (lo hi : Int → Int) (u a b : Int) :
    ∀ L : List Int, u ∈ L →
      cinV lo hi (Oth L u) a b + (if a ≤ lo u ∧ hi u ≤ b then 1 else 0) ≤ cinV lo hi L a b := by
  intro L
  induction L with
  | nil => intro h; cases h
  | cons p L ih =>
    intro hu
    by_cases hpu : p = u
    · subst hpu
      have e : Oth (p :: L) p = Oth L p := by
        unfold Oth; rw [List.filter_cons]; simp
      rw [e, cinV_cons]
      have : cinV lo hi (Oth L p) a b ≤ cinV lo hi L a b := by
        apply cinV_sublist; unfold Oth; exact List.filter_sublist
      omega
    · have hu' : u ∈ L := by
        rcases List.mem_cons.1 hu with h | h
        · exact absurd h.symm hpu
        · exact h
      have e : Oth (p :: L) u = p :: Oth L u := by
        unfold Oth; rw [List.filter_cons]; simp [hpu]
      rw [e, cinV_cons, cinV_cons]
      have := ih hu'
      omega

theorem cinR_sm (rx ry : Int → Int) (L : List Int) (u ja yb : Int) (h : yb < ry u) :
    cinR rx ry (Sm ry L u) ja yb = cinR rx ry L ja yb := by
  unfold cinR Sm
  rw [List.countP_filter]
  congr 1
  apply List.countP_congr
  intro p _
  simp only [Bool.and_eq_true, decide_eq_true_eq]
  constructor
  · rintro ⟨h1, _⟩; exact h1
  · rintro ⟨h1, h2⟩; exact ⟨⟨h1, h2⟩, by omega⟩

/-- a failing pass exhibits an over-full interval of values -/
theorem failVal_of_rank (hctx : RankCtx N bd rx ry all) (hlo : ∀ u ∈ all, lo u = bd (rx u))
    (hhi : ∀ u ∈ all, hi u + 1 = bd (ry u))
    (h : ∃ ja yb, 1 ≤ ja ∧ ja < yb ∧ yb < N ∧ cinR rx ry all ja yb > bd yb - bd ja) :
    ∃ a b, a ≤ b ∧ cinV lo hi all a b > b - a + 1 := by
  obtain ⟨ja, yb, h1, h2, h3, h4⟩ := h
  refine ⟨bd ja, bd yb - 1, ?_, ?_⟩
  · have := hctx.mono ja yb (by omega) h2 (by omega); omega
  · rw [← cinR_eq_cinV hctx hlo hhi all (fun _ h => h) ja yb (by omega) (by omega) (by omega)
      (by omega)]
    omega

/-- what a successful pass establishes, restated for values -/
theorem passVal_of_rank (hctx : RankCtx N bd rx ry all) (hlo : ∀ u ∈ all, lo u = bd (rx u))
    (hhi : ∀ u ∈ all, hi u + 1 = bd (ry u))
    (hallR : ∀ ja yb, 1 ≤ ja → ja < yb → yb ≤ N → cinR rx ry all ja yb ≤ bd yb - bd ja)
    (nm : Int → Int) (fact : ∀ u ∈ all, RFact N bd rx ry all u (nm u)) :
    PassVal all lo hi nm := by
  have hallV : ∀ a b, a ≤ b → cinV lo hi all a b ≤ b - a + 1 := fun a b hab =>
    hallV_of_hallR hctx hlo hhi hallR (b - a).toNat a b hab (by omega)
  have hle := lo_le_hi hctx hlo hhi
  refine ⟨hallV, ?_, ?_, ?_⟩
  · intro u hu
    obtain ⟨w, hm, hw1, hw2, _, _⟩ := fact u hu
    have hr := hctx.rk u hu
    rw [hm, hlo u hu]
    exact hctx.le (rx u) w (by omega) hw1 hw2
  · intro u hu val hv1 hv2
    obtain ⟨w, hm, hw1, hw2, hsnd, _⟩ := fact u hu
    have hr := hctx.rk u hu
    have e1 := hlo u hu
    rcases hsnd with hwx | ⟨ja, h1, h2, h3⟩
    · rw [hm, hwx] at hv2; omega
    · refine ⟨bd ja, bd w - 1, ?_, by omega, ?_⟩
      · have := hctx.le ja (rx u) (by omega) h2 (by omega); omega
      · rw [← cinR_eq_cinV hctx hlo hhi (Oth all u) (fun _ h => mem_oth h) ja w (by omega)
          (by omega) (by omega) hw2]
        omega
  · intro u hu a b hab hH hnw h12
    obtain ⟨h1, h2⟩ := h12
    obtain ⟨w, hm, hw1, hw2, hsnd, hcmp⟩ := fact u hu
    have hr := hctx.rk u hu
    have e1 := hlo u hu
    have e2 := hhi u hu
    obtain ⟨p, hp, hpin, hpa⟩ := hall_tight_lo hle hallV a b hab hH
    obtain ⟨q, hq, hqin, hqb⟩ := hall_tight_hi hle hallV a b hab hH
    have hrp := hctx.rk p hp
    have hrq := hctx.rk q hq
    have e3 := hlo p hp
    have e4 := hhi q hq
    have hjy : rx p < ry q := hctx.lt_of_bd_lt (rx p) (ry q) (by omega) (by omega) (by omega)
    have hRV := cinR_eq_cinV hctx hlo hhi all (fun _ h => h) (rx p) (ry q) (by omega) (by omega)
      (by omega) (by omega)
    have e5 : bd (rx p) = a := by omega
    have e6 : bd (ry q) - 1 = b := by omega
    rw [e5, e6] at hRV
    by_cases hub : hi u ≤ b
    · have hlu : lo u < a := by
        by_cases h : lo u < a
        · exact h
        · exact absurd ⟨by omega, hub⟩ hnw
      rcases hsnd with hwx | ⟨ja', h1', h2', h3'⟩
      · rw [hm, hwx] at h1; omega
      · have hRV' := cinR_eq_cinV hctx hlo hhi (Oth all u) (fun _ h => mem_oth h) ja' w
          (by omega) (by omega) (by omega) hw2
        have ha' : bd ja' ≤ lo u := by
          have := hctx.le ja' (rx u) (by omega) h2' (by omega); omega
        have hadd := cinV_oth_add lo hi u (bd ja') (bd w - 1) all hu
        have hH' := hallV (bd ja') (bd w - 1) (by omega)
        have hB : ¬ (bd ja' ≤ lo u ∧ hi u ≤ bd w - 1) := by
          intro hc
          rw [if_pos hc] at hadd
          omega
        have hun := cinV_union_lt lo hi (bd ja') a (bd w - 1) b (by omega) (by omega) u
          ⟨ha', hub⟩ hB hnw all hu
        have hX := hallV (bd ja') b (by omega)
        have hY : cinV lo hi all a (bd w - 1) ≤ bd w - 1 - a + 1 := by
          by_cases hc : a ≤ bd w - 1
          · exact hallV a (bd w - 1) hc
          · rw [cinV_eq_zero lo hi all a (bd w - 1) (fun p hp h => by have := hle p hp; omega)]
            omega
        rw [if_neg hB] at hadd
        omega
    · have hyb : ry q < ry u := hctx.lt_of_bd_lt (ry q) (ry u) (by omega) (by omega) (by omega)
      have hsm := cinR_sm rx ry all u (rx p) (ry q) hyb
      have := hcmp (rx p) (ry q) hrp.1 hjy (by omega) (by rw [hsm]; omega)
      apply this
      constructor
      · by_cases h : rx p ≤ w
        · exact h
        · have := hctx.mono w (rx p) (by omega) (by omega) (by omega); omega
      · exact hctx.lt_of_bd_lt w (ry q) (by omega) hw2 (by omega)

end val

end AllDiff
end Nucs
