import NucsProofs.Propagators.GccSoundLVal
/-!
  Exactness of the ported gcc — combining a full solution on the stable variables with an
  assignment that meets only the lower capacities on the non-stable variables (pure combinatorics).
-/
namespace Nucs
namespace Gcc
open AllDiff (cinR Oth LChain)

section combine
variable {N : Int} {bd bnd rx ry : Int → Int} {all U : List Int} {bf : Int → Int}
  {lo hi τ σ cum : Int → Int}

/-- a variable that takes a value of the cell `c` has the cell `c` -/
theorem cell_of_val (h : LCtx N bd bnd rx ry all lo hi τ cum) (u : Int) (hu : u ∈ all)
    (c v : Int) (h1 : 1 ≤ c) (h2 : c ≤ N - 2) (hv1 : bnd c ≤ v) (hv2 : v < bnd (c + 1))
    (hv : τ u = v) : rx u ≤ c ∧ c < ry u ∧ cellOf N bnd τ u = c := by
  have hc : cellOf N bnd τ u = c :=
    (cell_iff h u hu c (by omega) (by omega)).2 (by rw [hv]; exact ⟨hv1, hv2⟩)
  have hd := cell_dom h u hu
  rw [hc] at hd
  exact ⟨hd.1, hd.2.1, hc⟩

/-- a value of the range lies in a cell -/
theorem val_cell (h : LCtx N bd bnd rx ry all lo hi τ cum) (hN : 2 ≤ N) (v : Int)
    (hv1 : bnd 1 ≤ v) (hv2 : v < bnd (N - 1)) :
    ∃ c, 1 ≤ c ∧ c ≤ N - 2 ∧ bnd c ≤ v ∧ v < bnd (c + 1) := by
  by_cases hN3 : 3 ≤ N
  · obtain ⟨k, k1, k2, k3, k4⟩ := exists_cell_aux h v (N - 3).toNat 1 (N - 1) (by omega)
      (by omega) (by omega) hv1 hv2
    exact ⟨k, k1, by omega, k3, k4⟩
  · exfalso
    have e : N - 1 = 1 := by omega
    rw [e] at hv2; omega

/-- under an assignment meeting the lower capacities, every value of a non-stable cell is taken
    exactly as often as its lower capacity -/
theorem nonstable_exact (h : LCtx N bd bnd rx ry all lo hi σ cum)
    (hf : LFin N bd rx ry all U bf) (c v : Int) (h1 : 1 ≤ c) (h2 : c ≤ N - 2)
    (hns : ¬ St bf c) (hv1 : bnd c ≤ v) (hv2 : v < bnd (c + 1)) :
    occ σ all v = cum (v + 1) - cum v := by
  obtain ⟨_, t2, _⟩ := lfin_tight hf (cellSol h)
  have hcnt := t2 c h1 h2 hns
  rw [cell_count h c (by omega) (by omega), h.hbd (c + 1) (by omega) (by omega),
    h.hbd c (by omega) (by omega)] at hcnt
  have m1 := h.le 1 c (by omega) (by omega) (by omega)
  have m2 := h.le (c + 1) (N - 1) (by omega) (by omega) (by omega)
  have s1 := cntIn_split σ (bnd c) v (bnd (c + 1)) hv1 (by omega) all
  have s2 := cntIn_split σ v (v + 1) (bnd (c + 1)) (by omega) (by omega) all
  rw [cntIn_one] at s2
  have l1 := cum_le_cntIn σ all cum (bnd c) (v - bnd c).toNat v (by omega)
    (fun w a b => h.hdem w (by omega) (by omega))
  have l2 := cum_le_cntIn σ all cum (v + 1) (bnd (c + 1) - v - 1).toNat (bnd (c + 1))
    (by omega) (fun w a b => h.hdem w (by omega) (by omega))
  have l3 := h.hdem v (by omega) (by omega)
  omega

/-- a non-stable variable takes no value of a stable cell -/
theorem nonstable_not_val (h : LCtx N bd bnd rx ry all lo hi τ cum)
    (hf : LFin N bd rx ry all U bf) (u : Int) (hu : u ∈ all) (hnsv : ¬ StV bf rx ry u)
    (c v : Int) (h1 : 1 ≤ c) (h2 : c ≤ N - 2) (hst : St bf c) (hv1 : bnd c ≤ v)
    (hv2 : v < bnd (c + 1)) : τ u ≠ v := by
  intro hv
  obtain ⟨t1, _, _⟩ := lfin_tight hf (cellSol h)
  have := t1 u hu hnsv
  rw [(cell_of_val h u hu c v h1 h2 hv1 hv2 hv).2.2] at this
  exact this hst

/-- a stable variable takes no value of a non-stable cell -/
theorem stable_not_val (h : LCtx N bd bnd rx ry all lo hi τ cum) (u : Int) (hu : u ∈ all)
    (hsv : StV bf rx ry u) (c v : Int) (h1 : 1 ≤ c) (h2 : c ≤ N - 2) (hns : ¬ St bf c)
    (hv1 : bnd c ≤ v) (hv2 : v < bnd (c + 1)) : τ u ≠ v := by
  intro hv
  obtain ⟨a, b, _⟩ := cell_of_val h u hu c v h1 h2 hv1 hv2 hv
  exact hns (hsv c a b)

/-- the combined assignment: the stable variables follow `τ`, the others follow `σ` -/
noncomputable def mixA (bf rx ry τ σ : Int → Int) (x : Int) : Int :=
  if stvB bf rx ry x = true then τ x else σ x

theorem mixA_stable {x : Int} (h : StV bf rx ry x) : mixA bf rx ry τ σ x = τ x := by
  unfold mixA; rw [if_pos (stvB_true.2 h)]

theorem mixA_nonstable {x : Int} (h : ¬ StV bf rx ry x) : mixA bf rx ry τ σ x = σ x := by
  unfold mixA; rw [if_neg (by rw [stvB_true]; exact h)]

/-- on a stable cell the combined assignment counts like `τ` -/
theorem occ_mix_stable (hf : LFin N bd rx ry all U bf)
    (hτ : LCtx N bd bnd rx ry all lo hi τ cum) (hσ : LCtx N bd bnd rx ry all lo hi σ cum)
    (c v : Int) (h1 : 1 ≤ c) (h2 : c ≤ N - 2) (hst : St bf c) (hv1 : bnd c ≤ v)
    (hv2 : v < bnd (c + 1)) : occ (mixA bf rx ry τ σ) all v = occ τ all v := by
  unfold occ
  congr 1
  apply List.countP_congr
  intro p hp
  by_cases hs : StV bf rx ry p
  · rw [mixA_stable hs]
  · rw [mixA_nonstable hs]
    have a := nonstable_not_val hτ hf p hp hs c v h1 h2 hst hv1 hv2
    have b := nonstable_not_val hσ hf p hp hs c v h1 h2 hst hv1 hv2
    simp [a, b]

/-- on a non-stable cell the combined assignment counts like `σ` -/
theorem occ_mix_nonstable
    (hτ : LCtx N bd bnd rx ry all lo hi τ cum) (hσ : LCtx N bd bnd rx ry all lo hi σ cum)
    (c v : Int) (h1 : 1 ≤ c) (h2 : c ≤ N - 2) (hns : ¬ St bf c) (hv1 : bnd c ≤ v)
    (hv2 : v < bnd (c + 1)) : occ (mixA bf rx ry τ σ) all v = occ σ all v := by
  unfold occ
  congr 1
  apply List.countP_congr
  intro p hp
  by_cases hs : StV bf rx ry p
  · rw [mixA_stable hs]
    have a := stable_not_val hτ p hp hs c v h1 h2 hns hv1 hv2
    have b := stable_not_val hσ p hp hs c v h1 h2 hns hv1 hv2
    simp [a, b]
  · rw [mixA_nonstable hs]

end combine

/-- a full solution `τ` and an assignment `σ` meeting the lower capacities combine into a full
    solution that follows `σ` on the non-stable variables and `τ` on the stable ones -/
theorem nonstable_combine {N : Int} {bd bnd rx ry : Int → Int} {all U : List Int} {bf : Int → Int}
    {lo hi τ σ cum capU : Int → Int}
    (hf : LFin N bd rx ry all U bf)
    (hτ : LCtx N bd bnd rx ry all lo hi τ cum) (hσ : LCtx N bd bnd rx ry all lo hi σ cum)
    (hτU : ∀ v, bnd 1 ≤ v → v < bnd (N - 1) → occ τ all v ≤ capU v)
    (hlu : ∀ v, bnd 1 ≤ v → v < bnd (N - 1) → cum (v + 1) - cum v ≤ capU v) :
    ∃ ρ : Int → Int, (∀ x ∈ all, lo x ≤ ρ x ∧ ρ x ≤ hi x) ∧
      (∀ v, bnd 1 ≤ v → v < bnd (N - 1) →
        cum (v + 1) - cum v ≤ occ ρ all v ∧ occ ρ all v ≤ capU v) ∧
      (∀ x ∈ all, ¬ StV bf rx ry x → ρ x = σ x) ∧ (∀ x ∈ all, StV bf rx ry x → ρ x = τ x) := by
  refine ⟨mixA bf rx ry τ σ, ?_, ?_, fun x _ h => mixA_nonstable h, fun x _ h => mixA_stable h⟩
  · intro x hx
    by_cases hs : StV bf rx ry x
    · rw [mixA_stable hs]; exact hτ.htau x hx
    · rw [mixA_nonstable hs]; exact hσ.htau x hx
  · intro v hv1 hv2
    obtain ⟨c, h1, h2, c1, c2⟩ := val_cell hτ hf.ctx.hN v hv1 hv2
    by_cases hst : St bf c
    · rw [occ_mix_stable hf hτ hσ c v h1 h2 hst c1 c2]
      exact ⟨hτ.hdem v hv1 hv2, hτU v hv1 hv2⟩
    · rw [occ_mix_nonstable hτ hσ c v h1 h2 hst c1 c2,
        nonstable_exact hσ hf c v h1 h2 hst c1 c2]
      exact ⟨Int.le_refl _, hlu v hv1 hv2⟩

end Gcc
end Nucs
