import NucsProofs.Propagators.AlldiffCorrectUpper
import NucsProofs.Propagators.PortGccLMax
import NucsProofs.Propagators.PortGccUMax
/-!
  Semantic soundness of the ported gcc — shared definitions for the two upper-capacity passes
  (`filter_lower_max`, `filter_upper_max`).  These passes are the alldifferent passes with the
  distance `bounds[b] - bounds[a]` replaced by the capacity `K u fv bounds b - K u fv bounds a`
  of the values in `[bounds[a], bounds[b])`; the new bound written into `domains` is still a
  `bounds[w]`.  So the abstract invariant of AlldiffCorrectMath is used with `bd := K u fv bounds`
  and the recorded fact speaks about two functions: `bd` (capacities) and `bnd` (bounds).
-/
namespace Nucs
namespace Gcc
open AllDiff (g g2 cinR Oth Sm)

/-- `AllDiff.RFact` with the new minimum read through `bnd` instead of `bd` -/
def GRFact (N : Int) (bd bnd rx ry : Int → Int) (all : List Int) (u mn : Int) : Prop :=
  ∃ w, mn = bnd w ∧ rx u ≤ w ∧ w ≤ N ∧
    (w = rx u ∨ ∃ ja, 1 ≤ ja ∧ ja ≤ rx u ∧ cinR rx ry (Oth all u) ja w ≥ bd w - bd ja) ∧
    (∀ ja yb, 1 ≤ ja → ja < yb → yb ≤ N → cinR rx ry (Sm ry all u) ja yb ≥ bd yb - bd ja →
      ¬ (ja ≤ w ∧ w < yb))

/-- what a successful `filter_lower_max` establishes (in terms of ranks) -/
structure GLowerPost (N : Int) (bd bnd rx ry : Int → Int) (all : List Int) (dom0 dom1 : Arr2) :
    Prop where
  size : dom1.size = dom0.size
  hallR : ∀ ja yb, 1 ≤ ja → ja < yb → yb ≤ N → cinR rx ry all ja yb ≤ bd yb - bd ja
  fact : ∀ u ∈ all, GRFact N bd bnd rx ry all u (g2 dom1 u).1
  maxs : ∀ u, 0 ≤ u → (g2 dom1 u).2 = (g2 dom0 u).2

/-- what a successful `filter_upper_max` establishes (mirrored ranks `N - ·`, negated values) -/
structure GUpperPost (N : Int) (bd bnd rx ry : Int → Int) (all : List Int) (dom0 dom1 : Arr2) :
    Prop where
  size : dom1.size = dom0.size
  hallR : ∀ ja yb, 1 ≤ ja → ja < yb → yb ≤ N → cinR rx ry all ja yb ≤ bd yb - bd ja
  fact : ∀ u ∈ all, GRFact N bd bnd rx ry all u (- (g2 dom1 u).2 - 1)
  mins : ∀ u, 0 ≤ u → (g2 dom1 u).1 = (g2 dom0 u).1

end Gcc
end Nucs
