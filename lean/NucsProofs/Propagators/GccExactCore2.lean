import NucsProofs.Propagators.GccExactCore
/-!
  Bound-consistency exactness of the ported gcc — supports, in the upper-capacity relaxation, of the
  bounds written by `filter_lower_max` (minima) and `filter_upper_max` (maxima, mirrored).
-/
namespace Nucs
namespace Gcc
open AllDiff (g g2 cinR mbd)

section
variable {N n fv m : Int} {bounds : Array Int} {ranks domains : Arr2} {u : PSum}
  {valuesU : Array Int} {ups : Int → Int} {all : List Int}

theorem cumOf_strict (hb : BC bounds N fv m) (hus : PSStrict u m) (v : Int)
    (h1 : g bounds 0 ≤ v) (h2 : v < g bounds N) : cumOf u fv v < cumOf u fv (v + 1) := by
  rw [hb.b0] at h1
  rw [hb.bN] at h2
  have := hus (v - fv + 2) (by omega) (by omega)
  unfold cumOf
  have e : v + 1 - fv + 2 = v - fv + 2 + 1 := by omega
  rw [e]; exact this

theorem stable_min_support (hb : BC bounds N fv m) (hus : PSStrict u m)
    (hstepU : ∀ k, 2 ≤ k → k < m + 2 → g u.1 (k + 1) = g u.1 k + g valuesU (k - 2))
    (hvU : ∀ j, 0 ≤ j → j < m → g valuesU j = ups j)
    (hperm : all.Perm (rangeUp 0 n)) (hnodup : all.Nodup)
    (hrk : RanksOK N n bounds ranks domains)
    (hctx : AllDiff.RankCtx N (K u fv bounds) (fun v => (g2 ranks v).1) (fun v => (g2 ranks v).2) all)
    (hallR : ∀ ja yb, 1 ≤ ja → ja < yb → yb ≤ N →
      cinR (fun v => (g2 ranks v).1) (fun v => (g2 ranks v).2) all ja yb ≤
        K u fv bounds yb - K u fv bounds ja)
    (dom1 : Arr2)
    (hfact : ∀ p ∈ all, GRFact N (K u fv bounds) (g bounds) (fun v => (g2 ranks v).1)
      (fun v => (g2 ranks v).2) all p (g2 dom1 p).1)
    (k : Int) (hk0 : 0 ≤ k) (hk1 : k < n) (hle : (g2 dom1 k).1 ≤ (g2 domains k).2) :
    ∃ σU : Int → Int,
      (∀ v, 0 ≤ v → v < n → (g2 domains v).1 ≤ σU v ∧ σU v ≤ (g2 domains v).2) ∧
      (∀ j, 0 ≤ j → j < m → occ σU (rangeUp 0 n) (fv + j) ≤ ups j) ∧ σU k = (g2 dom1 k).1 := by
  have hmem : ∀ p ∈ all, 0 ≤ p ∧ p < n := by
    intro p hp
    have := hperm.mem_iff.1 hp
    rwa [mem_rangeUp] at this
  have hmem' : ∀ p, 0 ≤ p → p < n → p ∈ all :=
    fun p h0 h1 => hperm.mem_iff.2 (by rw [mem_rangeUp]; exact ⟨h0, h1⟩)
  obtain ⟨σ, s1, s2, s3⟩ := ubc_support_of_facts hctx hnodup hallR (fun v => (g2 domains v).1)
    (fun v => (g2 domains v).2) (cumOf u fv) (fun i j h0 hij hj => hb.lt' i j h0 hij hj)
    (by intro p hp; have := hrk p (hmem p hp).1 (hmem p hp).2; omega)
    (by intro p hp; have := hrk p (hmem p hp).1 (hmem p hp).2; omega)
    (fun _ _ _ => rfl) (cumOf_strict hb hus) (fun p => (g2 dom1 p).1) hfact k (hmem' k hk0 hk1) hle
  refine ⟨σ, fun v h0 h1 => s1 v (hmem' v h0 h1), ?_, s3⟩
  intro j h0 h1
  have := s2 (fv + j) (by rw [hb.b0]; omega) (by rw [hb.bN]; omega)
  rw [cumOf_succ, cap_values hstepU j h0 h1, hvU j h0 h1, occ_perm σ hperm] at this
  exact this

theorem stable_max_support (hb : BC bounds N fv m) (hus : PSStrict u m)
    (hstepU : ∀ k, 2 ≤ k → k < m + 2 → g u.1 (k + 1) = g u.1 k + g valuesU (k - 2))
    (hvU : ∀ j, 0 ≤ j → j < m → g valuesU j = ups j)
    (hperm : all.Perm (rangeUp 0 n)) (hnodup : all.Nodup)
    (hrk : RanksOK N n bounds ranks domains)
    (hctx : AllDiff.RankCtx N (mbd N (K u fv bounds)) (fun v => N - (g2 ranks v).2)
      (fun v => N - (g2 ranks v).1) all)
    (hallR : ∀ ja yb, 1 ≤ ja → ja < yb → yb ≤ N →
      cinR (fun v => N - (g2 ranks v).2) (fun v => N - (g2 ranks v).1) all ja yb ≤
        mbd N (K u fv bounds) yb - mbd N (K u fv bounds) ja)
    (dom3 : Arr2)
    (hfact : ∀ p ∈ all, GRFact N (mbd N (K u fv bounds)) (mbd N (g bounds))
      (fun v => N - (g2 ranks v).2) (fun v => N - (g2 ranks v).1) all p (- (g2 dom3 p).2 - 1))
    (k : Int) (hk0 : 0 ≤ k) (hk1 : k < n) (hle : (g2 domains k).1 ≤ (g2 dom3 k).2) :
    ∃ σU : Int → Int,
      (∀ v, 0 ≤ v → v < n → (g2 domains v).1 ≤ σU v ∧ σU v ≤ (g2 domains v).2) ∧
      (∀ j, 0 ≤ j → j < m → occ σU (rangeUp 0 n) (fv + j) ≤ ups j) ∧ σU k = (g2 dom3 k).2 := by
  have hN := hb.hN
  have hmem : ∀ p ∈ all, 0 ≤ p ∧ p < n := by
    intro p hp
    have := hperm.mem_iff.1 hp
    rwa [mem_rangeUp] at this
  have hmem' : ∀ p, 0 ≤ p → p < n → p ∈ all :=
    fun p h0 h1 => hperm.mem_iff.2 (by rw [mem_rangeUp]; exact ⟨h0, h1⟩)
  obtain ⟨σ, s1, s2, s3⟩ := ubc_support_of_facts (bnd := mbd N (g bounds)) hctx hnodup hallR
    (fun v => - (g2 domains v).2 - 1) (fun v => - (g2 domains v).1 - 1)
    (fun v => - cumOf u fv (- v))
    (by
      intro i j h0 hij hj
      simp only [mbd]
      have := hb.lt' (N - j) (N - i) (by omega) (by omega) (by omega)
      omega)
    (by
      intro p hp
      have := hrk p (hmem p hp).1 (hmem p hp).2
      simp only [mbd, Int.sub_sub_self]; omega)
    (by
      intro p hp
      have := hrk p (hmem p hp).1 (hmem p hp).2
      simp only [mbd, Int.sub_sub_self]; omega)
    (by intro k _ _; simp only [mbd, Int.neg_neg]; rfl)
    (by
      intro v h1 h2
      simp only [mbd, Int.sub_zero, Int.sub_self] at h1 h2
      have := cumOf_strict hb hus (- v - 1) (by omega) (by omega)
      have e1 : - (v + 1) = - v - 1 := by omega
      have e2 : - v - 1 + 1 = - v := by omega
      rw [e2] at this
      rw [e1]; omega)
    (fun p => - (g2 dom3 p).2 - 1) hfact k (hmem' k hk0 hk1) (by omega)
  refine ⟨fun x => - σ x - 1, ?_, ?_, ?_⟩
  · intro v h0 h1
    have := s1 v (hmem' v h0 h1)
    simp only at this ⊢
    omega
  · intro j h0 h1
    rw [occ_neg, ← occ_perm σ hperm]
    have := s2 (- (fv + j) - 1)
      (by simp only [mbd, Int.sub_zero]; rw [hb.bN]; omega)
      (by simp only [mbd, Int.sub_self]; rw [hb.b0]; omega)
    have e1 : - (- (fv + j) - 1 + 1) = fv + j := by omega
    have e2 : - (- (fv + j) - 1) = fv + j + 1 := by omega
    simp only [e1, e2] at this
    have hc := cumOf_succ u fv (fv + j)
    rw [cap_values hstepU j h0 h1, hvU j h0 h1] at hc
    omega
  · simp only
    rw [s3]; omega

end

end Gcc
end Nucs
