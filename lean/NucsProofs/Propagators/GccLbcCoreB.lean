import NucsProofs.Propagators.GccLbcAvoid
import NucsProofs.Propagators.GccLbcHall
import NucsProofs.Propagators.GccLbcValue
import NucsProofs.Propagators.GccLbcLoopB
/-!
  Completeness of the lower-capacity passes — core argument for the new MINIMUM of a variable that is
  not stable, detached from the monadic code.
-/
namespace Nucs
namespace Gcc
open AllDiff (g g2 cinR Oth)

/-- the prefix sums are flat over a stretch of values without capacity -/
theorem cumOf_flat (P : PSum) (fv a : Int) : ∀ (n : Nat),
    (∀ v, a ≤ v → v < a + n → cap P fv v = 0) → cumOf P fv (a + n) = cumOf P fv a := by
  intro n
  induction n with
  | zero => intro _; simp
  | succ n ih =>
    intro h
    have h1 := ih (fun v a1 a2 => h v a1 (by omega))
    have h2 := h (a + n) (by omega) (by omega)
    have h3 := cumOf_succ P fv (a + n)
    have e : a + ((n + 1 : Nat) : Int) = a + n + 1 := by omega
    rw [e]; omega

theorem cumOf_mono {P : PSum} {fv m : Int} (hp : PS P fv m) (a b : Int) (h0 : fv - 2 ≤ a)
    (hab : a ≤ b) (hb : b ≤ fv + m + 2) : cumOf P fv a ≤ cumOf P fv b := by
  unfold cumOf
  exact hp.le (a - fv + 2) (b - fv + 2) (by omega) (by omega) (by have := hp.hm; omega)

section
variable {N n fv m : Int} {bounds : Array Int} {ranks domains : Arr2} {l : PSum}
  {valuesL : Array Int} {lows ups : Int → Int} {all U : List Int} {bf wf : Int → Int} {mn mx : Int}

theorem lsup_ns_min_core (hb : BC bounds N fv m) (hpl : PS l fv m) (hds : DSSem l m)
    (hstepL : ∀ k, 2 ≤ k → k < m + 2 → g l.1 (k + 1) = g l.1 k + g valuesL (k - 2))
    (hvL : ∀ j, 0 ≤ j → j < m → g valuesL j = lows j)
    (hperm : all.Perm (rangeUp 0 n)) (hnodup : all.Nodup)
    (hrk : RanksOK N n bounds ranks domains)
    (hfin : LFin N (K l fv bounds) (fun v => (g2 ranks v).1) (fun v => (g2 ranks v).2) all U bf)
    {τ0 : Int → Int} (hτ0 : GSol n fv m domains lows ups τ0)
    (hmn1 : g bounds 1 ≤ mn) (hmn3 : mn ≤ fv + m) (hc1 : ¬ gsum l fv (mn - 1) > 0)
    (hmx1 : mx + 1 ≤ g bounds (N - 1)) (hmx3 : fv - 1 ≤ mx)
    (hc2 : ¬ gsum l (mx + 1) (fv + m - 1) > 0)
    (k : Int) (hk0 : 0 ≤ k) (hk1 : k < n) (hkU : k ∈ U)
    (hns : ¬ StV bf (fun v => (g2 ranks v).1) (fun v => (g2 ranks v).2) k)
    (hnm : NMFact N (K l fv bounds) (fun v => (g2 ranks v).1) (fun v => (g2 ranks v).2) U k (wf k))
    (hcf : CFact N (K l fv bounds) (fun v => (g2 ranks v).1) (fun v => (g2 ranks v).2) U k (wf k))
    (r : Int) (hr : skip_non_null_elements_right l (g bounds (wf k)) = .ok r) :
    ∃ σ : Int → Int, LSup n fv m domains lows σ k r := by
  have hN := hb.hN
  have hmem : ∀ p ∈ all, 0 ≤ p ∧ p < n := by
    intro p hp
    have := hperm.mem_iff.1 hp
    rwa [mem_rangeUp] at this
  have hmem' : ∀ p, 0 ≤ p → p < n → p ∈ all :=
    fun p h0 h1 => hperm.mem_iff.2 (by rw [mem_rangeUp]; exact ⟨h0, h1⟩)
  have hkall := hmem' k hk0 hk1
  have hx := lctx_of hb hpl hstepL hvL hperm hrk hτ0
  have hκ0 := cellSol hx
  obtain ⟨d1, d2, d3, d4⟩ := cell_dom hx k hkall
  have d1 : (g2 ranks k).1 ≤ cellOf N (g bounds) τ0 k := d1
  have d2 : cellOf N (g bounds) τ0 k < (g2 ranks k).2 := d2
  obtain ⟨w1, w2, w3⟩ := hnm
  have w1 : (g2 ranks k).1 ≤ wf k := w1
  have hrkk := hrk k hk0 hk1
  generalize hwdef : wf k = w at w1 w2 w3 hcf hr
  -- soundness of the candidate
  have hsound : ∀ κ, CellSol N (K l fv bounds) (fun v => (g2 ranks v).1) (fun v => (g2 ranks v).2)
      all κ → w ≤ κ k := by
    intro κ hκ
    have hd : (g2 ranks k).1 ≤ κ k := (hκ.dom k hkall).1
    rcases w3 with w3 | ⟨ja, j1, j2, j3⟩
    · have w3 : w = (g2 ranks k).1 := w3
      omega
    · have j2 : ja ≤ (g2 ranks k).1 := j2
      by_cases hw : w = (g2 ranks k).1
      · omega
      · exact lfin_prune hfin hκ U hfin.unodup hfin.usub hfin.b k ja w hkU hns j1 j2 (by omega) w2 j3
  have hwκ := hsound _ hκ0
  have hw1 : 1 ≤ w := by omega
  have hwN : w ≤ N - 1 := by omega
  -- the value `r`
  have hrange := hb.range w (by omega) (by omega)
  have hbw := hb.le' w (N - 1) (by omega) hwN (by omega)
  have hbnb := hb.bnb
  obtain ⟨r', hr', s1, s2, s3, s4⟩ := skip_right_sem hpl hds (g bounds w) (by omega) (by omega)
  rw [hr'] at hr
  have hrr : r' = r := by injection hr
  subst hrr
  have hpos0 := nonstable_pos hx hfin k hkall hns
  rw [cumOf_succ] at hpos0
  have hle := hx.le w (cellOf N (g bounds) τ0 k) (by omega) hwκ (by omega)
  have hrτ : r' ≤ τ0 k := by
    by_cases h : r' ≤ τ0 k
    · exact h
    · have := s3 (τ0 k) (by omega) (by omega); omega
  have hτhi := hτ0.dom k hk0 hk1
  have hbry := hb.le' (g2 ranks k).2 (N - 1) (by omega) (by omega) (by omega)
  -- its cell
  obtain ⟨c, c1, c2, c3, c4⟩ := exists_cell_aux hx r' (N - 1 - w - 1).toNat w (N - 1) (by omega)
    (by omega) (by omega) s1 (by omega)
  have hcapr : 1 ≤ cap l fv r' := by
    have := cap_nonneg hpl r' (by omega) (by omega); omega
  have hzero : ∀ c', w ≤ c' → c' < c → K l fv bounds (c' + 1) = K l fv bounds c' := by
    intro c' a1 a2
    rw [K_cumOf, K_cumOf]
    have m1 := hb.lt' c' (c' + 1) (by omega) (by omega) (by omega)
    have m2 := hb.le' w c' (by omega) a1 (by omega)
    have m3 := hb.le' (c' + 1) c (by omega) (by omega) (by omega)
    have := cumOf_flat l fv (g bounds c') (g bounds (c' + 1) - g bounds c').toNat
      (fun v b1 b2 => s3 v (by omega) (by omega))
    have e : g bounds c' + ((g bounds (c' + 1) - g bounds c').toNat : Int) = g bounds (c' + 1) := by
      omega
    rw [e] at this; exact this
  have hpos : K l fv bounds c < K l fv bounds (c + 1) := by
    rw [K_cumOf, K_cumOf]
    have hc0 := hb.range c (by omega) (by omega)
    have hc1' := hb.range (c + 1) (by omega) (by omega)
    have a1 := cumOf_mono hpl (g bounds c) r' (by omega) c3 (by omega)
    have a2 := cumOf_mono hpl (r' + 1) (g bounds (c + 1)) (by omega) (by omega) (by omega)
    have a3 := cumOf_succ l fv r'
    omega
  obtain ⟨e1, e2, e3, havoid⟩ := avoid_min hfin hκ0 hfin.unodup hfin.usub hfin.b hfin.e
    (fun p hp hq => by
      by_cases h : p ∈ U
      · exact h
      · exact absurd (hfin.f p hp h) hq)
    hkU hns w c hsound hcf hw1 w1 c1 hzero hpos
  obtain ⟨κ, hκ, hκk⟩ := cell_support_of_avoid hfin hκ0 k c hkall hns e1 e2 e3 havoid
  obtain ⟨σ, t1, t2, t3⟩ := value_support_of_cell hN (K l fv bounds) (g bounds)
    (fun i j h0 hij hj => hb.lt' i j h0 hij hj) all hnodup
    (fun v => (g2 ranks v).1) (fun v => (g2 ranks v).2)
    (fun v => (g2 domains v).1) (fun v => (g2 domains v).2)
    (by intro p hp; have := hrk p (hmem p hp).1 (hmem p hp).2; omega)
    (by intro p hp; have := hrk p (hmem p hp).1 (hmem p hp).2; omega)
    (by intro p hp; have := hrk p (hmem p hp).1 (hmem p hp).2; omega)
    (cumOf l fv) (fun v => cap l fv v) (fun v => cumOf_succ l fv v) (fun _ _ _ => rfl)
    fv (fv + m) hb.b1 hb.bnb
    (fun v h1 h2 => cap_nonneg hpl v (by omega) (by omega))
    (by
      intro v h1 h2
      exact cap_zero_of_gsum hpl fv (mn - 1) (by omega) (by omega) hc1 v h1 (by omega))
    (by
      intro v h1 h2
      exact cap_zero_of_gsum hpl (mx + 1) (fv + m - 1) (by omega) (by omega) hc2 v (by omega)
        (by omega))
    κ hκ k hkall r' (by rw [hκk]; exact c3) (by rw [hκk]; exact c4) hcapr
  refine ⟨σ, fun v h0 h1 => t1 v (hmem' v h0 h1), ?_, t3⟩
  intro j h0 h1
  have := t2 (fv + j) (by omega) (by omega)
  rw [cap_values hstepL j h0 h1, hvL j h0 h1, occ_perm σ hperm] at this
  exact this

end

end Gcc
end Nucs
