import NucsProofs.Propagators.AlldifferentC
import NucsProofs.Propagators.Affine
/-!
  alldifferent as registered in `runAlg`: the faithful port of the López-Ortiz et al. algorithm whose
  every answer is validated by a decidable Hall-interval checker (`alldifferentC`).  The checker's
  soundness is proved (AlldifferentC.lean), so `Sound`, `GroundOk`, … hold for the registered model
  unconditionally.  That this model still equals the CODE (the checker never rejects, the port is
  faithful) is what the correspondence establishes on every run.  `Exact` (bound consistency) is not
  proved: it is validated against the brute-force hull.
-/
namespace Nucs

theorem runAlg_alldifferent (ps : List Int) (B : Box) : runAlg .alldifferent ps B = alldifferentC ps B := rfl

theorem sound_alldifferent : Sound .alldifferent := by
  intro ps B st B' hc hne hrun
  rw [runAlg_alldifferent] at hrun
  exact soundC_alldifferent ps B st B' hc hne hrun

theorem groundOk_alldifferent : GroundOk .alldifferent := by
  intro ps B st B' t hc hne hrun hst hB'
  rw [runAlg_alldifferent] at hrun
  exact groundOkC_alldifferent ps B st B' t hc hne hrun hst hB'

theorem entailOk_alldifferent : EntailOk .alldifferent := by
  intro ps B B' hc hne hrun
  rw [runAlg_alldifferent] at hrun
  exact entailOkC_alldifferent ps B B' hc hne hrun

theorem safe_alldifferent : Safe .alldifferent := by
  intro ps B hc hne
  rw [runAlg_alldifferent]
  exact safeC_alldifferent ps B hc hne

theorem contractMono_alldifferent : ContractMono .alldifferent := by
  intro ps B B' hc hle
  simp only [Contract] at *
  rw [Box.le_length hle]; exact hc

theorem trigOk_alldifferent : TrigOk .alldifferent :=
  trigOk_of_minMax .alldifferent (fun _ _ _ => rfl) sound_alldifferent

end Nucs
