import NucsProofs.Propagators.PortGccPsum
/-!
  Semantics of the partial-sum structure of the ported gcc.

  `PortGccPsum` proves that `init_partial_sum` never errs and establishes `PS` (sizes, sentinels,
  monotonicity of row `sum`, range of row `ds`).  Here the nested `while` loops are re-proved with
  an invariant that says what row `ds` MEANS (`DSSem`): for an index of capacity zero, `ds` is the
  next index above with non-zero capacity; for an index of non-zero capacity, `ds` is the previous
  index below with non-zero capacity (`0` for index `1`).  From it the two accessors
  `skip_non_null_elements_right/left` get their functional specifications.
-/
namespace Nucs
namespace Gcc

open AllDiff (g upd g2 upd2 ok_bind pure_eq_ok except_bind_ok forIn_list_except range_forIn_eq
  size_upd size_upd2 g_upd g_upd_same g_upd_ne)

/-! ### the meaning of row `ds` -/

/-- the loop invariant: row `ds` is final at every index above `j` -/
structure DSInv (sum ds : Array Int) (m j : Int) : Prop where
  zero : ∀ q, j < q → q ≤ m + 4 → g sum q = g sum (q - 1) →
    q < g ds q ∧ g ds q ≤ m + 4 ∧ g sum (g ds q) ≠ g sum (g ds q - 1) ∧
    (∀ q', q ≤ q' → q' < g ds q → g sum q' = g sum (q' - 1))
  nonzero : ∀ q, j < q → q ≤ m + 4 → g sum q ≠ g sum (q - 1) →
    0 ≤ g ds q ∧ g ds q < q ∧ (∀ q', g ds q < q' → q' < q → g sum q' = g sum (q' - 1)) ∧
    (1 ≤ g ds q → g sum (g ds q) ≠ g sum (g ds q - 1))

/-- what `init_partial_sum` guarantees about row `ds` (indices `1 .. m+4`) -/
structure DSSem (P : PSum) (m : Int) : Prop where
  /-- capacity zero at `q`: `ds[q]` is the next index above `q` of non-zero capacity -/
  zero : ∀ q, 1 ≤ q → q ≤ m + 4 → g P.1 q = g P.1 (q - 1) →
    q < g P.2 q ∧ g P.2 q ≤ m + 4 ∧ g P.1 (g P.2 q) ≠ g P.1 (g P.2 q - 1) ∧
    (∀ q', q ≤ q' → q' < g P.2 q → g P.1 q' = g P.1 (q' - 1))
  /-- non-zero capacity at `q`: `ds[q]` is the previous index below `q` of non-zero capacity
      (`0` when there is none, which happens only for `q = 1`) -/
  nonzero : ∀ q, 1 ≤ q → q ≤ m + 4 → g P.1 q ≠ g P.1 (q - 1) →
    0 ≤ g P.2 q ∧ g P.2 q < q ∧ (∀ q', g P.2 q < q' → q' < q → g P.1 q' = g P.1 (q' - 1)) ∧
    (1 ≤ g P.2 q → g P.1 (g P.2 q) ≠ g P.1 (g P.2 q - 1))

theorem DSInv.sem {sum ds : Array Int} {m : Int} (h : DSInv sum ds m 0) : DSSem (sum, ds) m :=
  ⟨fun q h0 h1 hz => h.zero q (by omega) h1 hz, fun q h0 h1 hz => h.nonzero q (by omega) h1 hz⟩

/-- one iteration of the outer loop: the inner loop has written `j` into `c[p+1 .. j-1]` (all of
    capacity zero), stopped at `p` of non-zero capacity, and `ds[j] = p` is written -/
theorem DSInv.step {sum ds c : Array Int} {m j p : Int} (h : DSInv sum ds m j)
    (hcs : (c.size : Int) = m + 6) (hp1 : 1 ≤ p) (hpj : p < j) (hj : j ≤ m + 4)
    (hnzj : g sum j ≠ g sum (j - 1)) (hnzp : g sum p ≠ g sum (p - 1))
    (hmid : ∀ q, p < q → q < j → g sum q = g sum (q - 1) ∧ g c q = j)
    (hkeep : ∀ q, j < q → g c q = g ds q) : DSInv sum (upd c j p) m p := by
  have hg : ∀ q, 0 ≤ q → q ≠ j → g (upd c j p) q = g c q := fun q h0 hne =>
    g_upd_ne c j p q (by omega) (by omega) h0 hne
  have hgj : g (upd c j p) j = p := g_upd_same c j p (by omega) (by omega)
  constructor
  · intro q hq0 hq1 hz
    rcases Int.lt_trichotomy q j with hlt | heq | hgt
    · rw [hg q (by omega) (by omega), (hmid q hq0 hlt).2]
      exact ⟨hlt, hj, hnzj, fun q' h1 h2 => (hmid q' (by omega) h2).1⟩
    · rw [heq] at hz; exact absurd hz hnzj
    · rw [hg q (by omega) (by omega), hkeep q hgt]; exact h.zero q hgt hq1 hz
  · intro q hq0 hq1 hnz
    rcases Int.lt_trichotomy q j with hlt | heq | hgt
    · exact absurd (hmid q hq0 hlt).1 hnz
    · rw [heq, hgj]
      exact ⟨by omega, hpj, fun q' h1 h2 => (hmid q' h1 h2).1, fun _ => hnzp⟩
    · rw [hg q (by omega) (by omega), hkeep q hgt]; exact h.nonzero q hgt hq1 hnz

/-- the final write `ds[1] = 0` -/
theorem DSInv.finish {sum c : Array Int} {m : Int} (h : DSInv sum c m 1) (hm : 0 ≤ m)
    (hcs : (c.size : Int) = m + 6) (hS0 : g sum 0 = 0) (hS1 : g sum 1 = 1) :
    DSInv sum (upd c 1 0) m 0 := by
  have hg : ∀ q, 0 ≤ q → q ≠ 1 → g (upd c 1 0) q = g c q := fun q h0 hne =>
    g_upd_ne c 1 0 q (by omega) (by omega) h0 hne
  have hg1 : g (upd c 1 0) 1 = 0 := g_upd_same c 1 0 (by omega) (by omega)
  have h10 : g sum 1 ≠ g sum (1 - 1) := by
    have : (1 : Int) - 1 = 0 := rfl
    rw [this, hS0, hS1]; omega
  constructor
  · intro q hq0 hq1 hz
    by_cases hq : q = 1
    · rw [hq] at hz; exact absurd hz h10
    · rw [hg q (by omega) hq]; exact h.zero q (by omega) hq1 hz
  · intro q hq0 hq1 hnz
    by_cases hq : q = 1
    · rw [hq, hg1]
      exact ⟨by omega, by omega, fun q' h1 h2 => by omega, fun h => by omega⟩
    · rw [hg q (by omega) hq]; exact h.nonzero q (by omega) hq1 hnz

/-! ### the loops, with the stronger invariant -/

theorem psInner_sem {sum ds : Array Int} {fv m : Int} (hss : (sum.size : Int) = m + 6)
    (hS0 : g sum 0 = 0) (hS1 : g sum 1 = 1) (hd : DSI ds fv m) (i j : Int) (n : Nat)
    (hi1 : 1 ≤ i) (hi2 : i ≤ m + 3) (hj1 : 1 ≤ j) (hj2 : j ≤ m + 4) (hn : i ≤ n) :
    ∃ r, forIn (List.range' 0 n) (ds, i, false) (psInner sum j) = .ok r ∧
      DSI r.1 fv m ∧ 1 ≤ r.2.1 ∧ r.2.1 ≤ i ∧ r.2.2 = true ∧
      g sum r.2.1 ≠ g sum (r.2.1 - 1) ∧
      (∀ q, r.2.1 < q → q ≤ i → g sum q = g sum (q - 1) ∧ g r.1 q = j) ∧
      (∀ q, i < q → g r.1 q = g ds q) := by
  refine forIn_list_except
    (Inv := fun (rest : List Nat) (s : Array Int × Int × Bool) =>
      DSI s.1 fv m ∧ 1 ≤ s.2.1 ∧ s.2.1 ≤ i ∧ s.2.1 ≤ rest.length ∧
      (∀ q, s.2.1 < q → q ≤ i → g sum q = g sum (q - 1) ∧ g s.1 q = j) ∧
      (∀ q, i < q → g s.1 q = g ds q))
    _ _ ?_ ?_ _ _ ?_
  · rintro x rest ⟨c, p, b⟩ ⟨h1, h2, h3, h4, h5, h6⟩
    simp only at h1 h2 h3 h4 h5 h6
    have hcs := h1.sz
    unfold psInner
    simp only []
    rw [rdS_ok sum p (by omega) (by omega), ok_bind, rdS_ok sum (p - 1) (by omega) (by omega),
      ok_bind]
    by_cases he : g sum p = g sum (p - 1)
    · left
      have hp : p ≠ 1 := by
        intro h; subst h
        have : (1 : Int) - 1 = 0 := rfl
        rw [this, hS0, hS1] at he; omega
      have hcond : ¬ (!g sum p == g sum (p - 1)) = true := by simp [he]
      rw [if_neg hcond, wrS_ok c p j (by omega) (by omega), ok_bind]
      refine ⟨_, rfl, h1.set p j (by omega) (by omega) (by omega) hj2, by simp only; omega,
        by simp only; omega, ?_, ?_, ?_⟩
      · simp only [List.length_cons] at h4 ⊢
        omega
      · intro q hq1 hq2
        simp only at hq1 ⊢
        by_cases hqp : q = p
        · rw [hqp]; exact ⟨he, g_upd_same c p j (by omega) (by omega)⟩
        · rw [g_upd_ne c p j q (by omega) (by omega) (by omega) hqp]
          exact h5 q (by omega) hq2
      · intro q hq
        simp only
        rw [g_upd_ne c p j q (by omega) (by omega) (by omega) (by omega)]
        exact h6 q hq
    · right
      have hcond : (!g sum p == g sum (p - 1)) = true := by simp [he]
      rw [if_pos hcond]
      exact ⟨_, rfl, h1, h2, h3, rfl, he, h5, h6⟩
  · rintro ⟨c, p, b⟩ ⟨h1, h2, h3, h4, _, _⟩
    simp only [List.length_nil] at h2 h4; omega
  · refine ⟨hd, hi1, Int.le_refl _, ?_, fun q h1 h2 => by simp only at h1; omega, fun q _ => rfl⟩
    simp only [List.length_range']
    exact hn

/-- one iteration of `while i > 0` -/
theorem psOuter_sem {sum : Array Int} {fv m : Int} (_hm : 0 ≤ m) (hss : (sum.size : Int) = m + 6)
    (hS0 : g sum 0 = 0) (hS1 : g sum 1 = 1) (x : Nat) (s : Array Int × Int × Int × Bool)
    (hd : DSI s.1 fv m) (hi0 : 0 ≤ s.2.1) (hi1 : s.2.1 ≤ m + 3) (hj : s.2.2.1 = s.2.1 + 1)
    (hdone : s.2.2.2 = false) (hinv : DSInv sum s.1 m s.2.2.1)
    (hnz : g sum s.2.2.1 ≠ g sum (s.2.2.1 - 1)) :
    (∃ s', psOuter sum x s = .ok (.yield s') ∧ DSI s'.1 fv m ∧ 0 ≤ s'.2.1 ∧ s'.2.1 < s.2.1 ∧
      s'.2.2.1 = s'.2.1 + 1 ∧ s'.2.2.2 = false ∧ DSInv sum s'.1 m s'.2.2.1 ∧
      g sum s'.2.2.1 ≠ g sum (s'.2.2.1 - 1)) ∨
    (∃ s', psOuter sum x s = .ok (.done s') ∧ DSI s'.1 fv m ∧ s'.2.2.1 = 1 ∧
      s'.2.2.2 = true ∧ DSInv sum s'.1 m 1) := by
  obtain ⟨ds, i, j, done⟩ := s
  simp only at hd hi0 hi1 hj hdone hinv hnz
  subst hj hdone
  have hds := hd.sz
  unfold psOuter
  simp only []
  by_cases hi : i > 0
  · left
    have hcond : ¬ (!decide (i > 0)) = true := by simp [hi]
    rw [if_neg hcond, range_forIn_eq]
    have hfuel : i ≤ (fuel ds : Nat) := by
      have := fuel_ge ds; omega
    obtain ⟨⟨c, p, b⟩, he, h1, h2, h3, h4, h5, h6, h7⟩ :=
      psInner_sem hss hS0 hS1 hd i (i + 1) (fuel ds) (by omega) hi1 (by omega) (by omega) hfuel
    simp only at h1 h2 h3 h4 h5 h6 h7
    subst h4
    have hcs := h1.sz
    rw [he, ok_bind]
    unfold psOuterTail
    simp only [Bool.not_true, Bool.false_eq_true, if_false]
    rw [wrS_ok c (i + 1) p (by omega) (by omega), ok_bind]
    refine ⟨_, rfl, h1.set (i + 1) p (by omega) (by omega) (by omega) (by omega), by simp only; omega,
      by simp only; omega, by simp only; omega, rfl, ?_, h5⟩
    exact hinv.step hcs h2 (by omega) (by omega) hnz h5
      (fun q hq1 hq2 => h6 q hq1 (by omega)) (fun q hq => h7 q (by omega))
  · right
    have hcond : (!decide (i > 0)) = true := by simp [hi]
    rw [if_pos hcond]
    have hi00 : i = 0 := by omega
    subst hi00
    exact ⟨_, rfl, hd, rfl, rfl, hinv⟩

/-- the nested `while` loops and the final write -/
theorem psLoops_sem {sum ds : Array Int} {fv m : Int} (hm : 0 ≤ m)
    (hss : (sum.size : Int) = m + 6) (hS0 : g sum 0 = 0) (hS1 : g sum 1 = 1)
    (htop : g sum (m + 4) ≠ g sum (m + 4 - 1)) (hd : DSI ds fv m) :
    ∃ r, (forIn [0:fuel ds] (ds, m + 3, m + 4, false) (psOuter sum) >>= psFinish sum) =
      .ok r ∧ r.1 = sum ∧ DSI r.2 fv m ∧ DSInv sum r.2 m 0 := by
  rw [range_forIn_eq]
  refine except_bind_ok
    (P := fun (s : Array Int × Int × Int × Bool) =>
      DSI s.1 fv m ∧ s.2.2.1 = 1 ∧ s.2.2.2 = true ∧ DSInv sum s.1 m 1)
    (forIn_list_except
      (Inv := fun (rest : List Nat) (s : Array Int × Int × Int × Bool) =>
        DSI s.1 fv m ∧ 0 ≤ s.2.1 ∧ s.2.1 ≤ m + 3 ∧ s.2.2.1 = s.2.1 + 1 ∧ s.2.2.2 = false ∧
        s.2.1 < rest.length ∧ DSInv sum s.1 m s.2.2.1 ∧ g sum s.2.2.1 ≠ g sum (s.2.2.1 - 1))
      _ _ ?_ ?_ _ _ ?_) ?_
  · rintro x rest s ⟨h1, h2, h3, h4, h5, h6, h7, h8⟩
    rcases psOuter_sem hm hss hS0 hS1 x s h1 h2 h3 h4 h5 h7 h8 with
      ⟨s', he, g1, g2, g3, g4, g5, g6, g7⟩ | ⟨s', he, hp⟩
    · left
      refine ⟨s', he, g1, g2, by omega, g4, g5, ?_, g6, g7⟩
      simp only [List.length_cons] at h6
      omega
    · right
      exact ⟨s', he, hp⟩
  · rintro s ⟨h1, h2, h3, h4, h5, h6, _, _⟩
    simp only [List.length_nil] at h6; omega
  · refine ⟨hd, by simp only; omega, by simp only; omega, by simp only; omega, rfl, ?_, ?_, htop⟩
    · have := fuel_ge ds
      have := hd.sz
      simp only [List.length_range']
      omega
    · exact ⟨fun q h0 h1 => by simp only at h0; omega, fun q h0 h1 => by simp only at h0; omega⟩
  · rintro ⟨c, i, j, done⟩ ⟨h1, h2, h3, h4⟩
    simp only at h1 h2 h3 h4
    subst h2 h3
    have hcs := h1.sz
    unfold psFinish
    simp only [Bool.not_true, Bool.false_eq_true, if_false]
    rw [wrS_ok c 1 0 (by omega) (by omega), ok_bind]
    exact ⟨_, rfl, rfl, h1.set 1 0 (by omega) (by omega) (by omega) (by omega),
      h4.finish hm hcs hS0 hS1⟩

/-! ### putting the pieces together -/

/-- `init_partial_sum` never errs on `m ≥ 0` non-negative values, establishes `PS`, the recurrence
    of row `sum` and the meaning `DSSem` of row `ds` -/
theorem init_partial_sum_sem (fv m : Int) (values : Array Int) (hm : 0 ≤ m)
    (hvs : (values.size : Int) = m) (hv : ∀ k, 0 ≤ k → k < m → 0 ≤ g values k) :
    ∃ P, init_partial_sum fv m values = .ok P ∧ PS P fv m ∧
      ((∀ k, 0 ≤ k → k < m → 1 ≤ g values k) → PSStrict P m) ∧
      (∀ k, 2 ≤ k → k < m + 2 → g P.1 (k + 1) = g P.1 k + g values (k - 2)) ∧
      DSSem P m := by
  rw [init_partial_sum_eq]
  have hR : ((Array.replicate (m + 6).toNat (0 : Int)).size : Int) = m + 6 := by
    simp only [Array.size_replicate]; omega
  have hR1 : ((Array.replicate (m + 6).toNat (0 : Int)).size : Int) - 1 = m + 5 := by omega
  rw [hR1]
  generalize hRdef : Array.replicate (m + 6).toNat (0 : Int) = R at hR
  have hRg : ∀ k, g R k = 0 := fun k => by rw [← hRdef]; exact g_replicate _ k
  rw [wr_ok R (m + 5) _ (by omega) (by omega), ok_bind,
    wr_ok R (m + 5) _ (by omega) (by omega), ok_bind]
  -- row 0, the three literal writes
  have z1 : ((upd R (m + 5) (fv - 3)).size : Int) = m + 6 := by simp [hR]
  rw [wrS_ok _ 0 0 (by omega) (by omega), ok_bind]
  have z2 : ((upd (upd R (m + 5) (fv - 3)) 0 0).size : Int) = m + 6 := by simp [hR]
  rw [wrS_ok _ 1 1 (by omega) (by omega), ok_bind]
  have z3 : ((upd (upd (upd R (m + 5) (fv - 3)) 0 0) 1 1).size : Int) = m + 6 := by simp [hR]
  rw [wrS_ok _ 2 2 (by omega) (by omega), ok_bind]
  have z4 : ((upd (upd (upd (upd R (m + 5) (fv - 3)) 0 0) 1 1) 2 2).size : Int) = m + 6 := by
    simp [hR]
  have a0 : g (upd (upd (upd (upd R (m + 5) (fv - 3)) 0 0) 1 1) 2 2) 0 = 0 := by
    rw [g_upd_ne _ 2 _ 0 (by omega) (by omega) (by omega) (by omega),
      g_upd_ne _ 1 _ 0 (by omega) (by omega) (by omega) (by omega),
      g_upd_same _ 0 _ (by omega) (by omega)]
  have a1 : g (upd (upd (upd (upd R (m + 5) (fv - 3)) 0 0) 1 1) 2 2) 1 = 1 := by
    rw [g_upd_ne _ 2 _ 1 (by omega) (by omega) (by omega) (by omega),
      g_upd_same _ 1 _ (by omega) (by omega)]
  have a2 : g (upd (upd (upd (upd R (m + 5) (fv - 3)) 0 0) 1 1) 2 2) 2 = 2 := by
    rw [g_upd_same _ 2 _ (by omega) (by omega)]
  have a5 : g (upd (upd (upd (upd R (m + 5) (fv - 3)) 0 0) 1 1) 2 2) (m + 5) = fv - 3 := by
    rw [g_upd_ne _ 2 _ (m + 5) (by omega) (by omega) (by omega) (by omega),
      g_upd_ne _ 1 _ (m + 5) (by omega) (by omega) (by omega) (by omega),
      g_upd_ne _ 0 _ (m + 5) (by omega) (by omega) (by omega) (by omega),
      g_upd_same _ (m + 5) _ (by omega) (by omega)]
  generalize upd (upd (upd (upd R (m + 5) (fv - 3)) 0 0) 1 1) 2 2 = sum4 at z4 a0 a1 a2 a5
  -- row 0, the loop and the two sentinels
  obtain ⟨sum5, he5, s5, keep5, step5⟩ := psSum_spec m values sum4 hm hvs z4
  rw [he5, ok_bind, rdS_ok sum5 (m + 2) (by omega) (by omega), ok_bind,
    wrS_ok sum5 (m + 3) _ (by omega) (by omega), ok_bind]
  have z6 : ((upd sum5 (m + 3) (g sum5 (m + 2) + 1)).size : Int) = m + 6 := by simp [s5]
  rw [rdS_ok _ (m + 3) (by omega) (by omega), ok_bind, wrS_ok _ (m + 4) _ (by omega) (by omega),
    ok_bind]
  have hsum := sumOK_finish (values := values) hm s5
    (by rw [keep5 0 (by omega) (by omega)]; exact a0)
    (by rw [keep5 1 (by omega) (by omega)]; exact a1)
    (by rw [keep5 2 (by omega) (by omega)]; exact a2)
    (by rw [keep5 (m + 5) (by omega) (by omega)]; exact a5) step5
  generalize upd (upd sum5 (m + 3) (g sum5 (m + 2) + 1)) (m + 4)
    (g (upd sum5 (m + 3) (g sum5 (m + 2) + 1)) (m + 3) + 1) = sum7 at hsum
  -- row 1
  have hd0 : DSI (upd R (m + 5) (fv + m + 1)) fv m := by
    refine ⟨by simp [hR], g_upd_same R _ _ (by omega) (by omega), ?_⟩
    intro i hi0 hi1
    rw [g_upd_ne R _ _ i (by omega) (by omega) hi0 (by omega), hRg]
    omega
  have htop : g sum7 (m + 4) ≠ g sum7 (m + 4 - 1) := by
    have e : m + 4 - 1 = m + 3 := by omega
    rw [e, hsum.top2]; omega
  obtain ⟨⟨s', d'⟩, he, hs', hd', hsem⟩ := psLoops_sem hm hsum.sz hsum.S0 hsum.S1 htop hd0
  simp only at hs' hd' hsem
  subst hs'
  exact ⟨_, he, ps_of hm hsum hd' hv, fun hv1 => psStrict_of hm hsum hv1, hsum.step, hsem.sem⟩

/-! ### capacities -/

/-- the capacity of the value `v` (`fv - 2 ≤ v ≤ fv + m + 1`, the four extreme ones are the
    sentinels of capacity one) -/
def cap (P : PSum) (fv v : Int) : Int := g P.1 (v - fv + 3) - g P.1 (v - fv + 2)

theorem cum_succ {P : PSum} {fv : Int} (v : Int) :
    g P.1 (v + 1 - fv + 2) = g P.1 (v - fv + 2) + cap P fv v := by
  unfold cap
  have e : v + 1 - fv + 2 = v - fv + 3 := by omega
  rw [e]; omega

theorem cap_values {P : PSum} {fv m : Int} {values : Array Int}
    (hstep : ∀ k, 2 ≤ k → k < m + 2 → g P.1 (k + 1) = g P.1 k + g values (k - 2)) (j : Int)
    (h0 : 0 ≤ j) (h1 : j < m) : cap P fv (fv + j) = g values j := by
  unfold cap
  have e1 : fv + j - fv + 3 = j + 2 + 1 := by omega
  have e2 : fv + j - fv + 2 = j + 2 := by omega
  have e3 : j + 2 - 2 = j := by omega
  have := hstep (j + 2) (by omega) (by omega)
  rw [e3] at this
  rw [e1, e2, this]; omega

theorem cap_nonneg {P : PSum} {fv m : Int} (hp : PS P fv m) (v : Int) (h0 : fv - 2 ≤ v)
    (h1 : v ≤ fv + m + 1) : 0 ≤ cap P fv v := by
  unfold cap
  have := hp.mono (v - fv + 2) (by omega) (by omega)
  have e : v - fv + 2 + 1 = v - fv + 3 := by omega
  rw [e] at this; omega

theorem cap_bot2 {P : PSum} {fv m : Int} (hp : PS P fv m) : cap P fv (fv - 2) = 1 := by
  unfold cap
  have e1 : fv - 2 - fv + 3 = 1 := by omega
  have e2 : fv - 2 - fv + 2 = 0 := by omega
  rw [e1, e2, hp.S0, hp.S1]; rfl

theorem cap_bot1 {P : PSum} {fv m : Int} (hp : PS P fv m) : cap P fv (fv - 1) = 1 := by
  unfold cap
  have e1 : fv - 1 - fv + 3 = 2 := by omega
  have e2 : fv - 1 - fv + 2 = 1 := by omega
  rw [e1, e2, hp.S1, hp.S2]; rfl

theorem cap_top1 {P : PSum} {fv m : Int} (hp : PS P fv m) : cap P fv (fv + m) = 1 := by
  unfold cap
  have e1 : fv + m - fv + 3 = m + 3 := by omega
  have e2 : fv + m - fv + 2 = m + 2 := by omega
  rw [e1, e2, hp.top1]; omega

theorem cap_top2 {P : PSum} {fv m : Int} (hp : PS P fv m) : cap P fv (fv + m + 1) = 1 := by
  unfold cap
  have e1 : fv + m + 1 - fv + 3 = m + 4 := by omega
  have e2 : fv + m + 1 - fv + 2 = m + 3 := by omega
  rw [e1, e2, hp.top2]; omega

/-- `cap` in terms of the index `q = v - (fv - 3)` used by the accessors -/
theorem cap_idx (P : PSum) (fv v : Int) :
    cap P fv v = g P.1 (v - (fv - 3)) - g P.1 (v - (fv - 3) - 1) := by
  unfold cap
  have e1 : v - (fv - 3) = v - fv + 3 := by omega
  have e2 : v - fv + 3 - 1 = v - fv + 2 := by omega
  rw [e1, e2]

/-- capacity of an interval = sum of the capacities, one step -/
theorem gsum_succ {P : PSum} {fv m : Int} (hp : PS P fv m) (a b : Int) (hab : a ≤ b + 1) :
    gsum P a (b + 1) = (if a ≤ b then gsum P a b else 0) + cap P fv (b + 1) := by
  rw [gsum_eq hp, if_pos (by omega)]
  unfold cap
  have e1 : b + 1 - fv + 2 = b - fv + 3 := by omega
  by_cases h : a ≤ b
  · rw [if_pos h, gsum_eq hp, if_pos h, e1]; omega
  · have e2 : a = b + 1 := by omega
    rw [if_neg h, e2]; omega

/-! ### the accessors -/

theorem skip_right_eq {P : PSum} {fv m : Int} (hp : PS P fv m) (v : Int) (h0 : fv - 3 ≤ v)
    (h1 : v ≤ fv + m + 2) :
    skip_non_null_elements_right P v =
      .ok (if g P.2 (v - (fv - 3)) < v - (fv - 3) then v else g P.2 (v - (fv - 3)) + (fv - 3)) := by
  have hs1 := hp.s1
  have hs2 := hp.s2
  have hm := hp.hm
  have e1 : (P.1.size : Int) - 1 = m + 5 := by omega
  have e2 : v - (fv - 3) + (fv - 3) = v := by omega
  unfold skip_non_null_elements_right
  rw [rdLast_ok P.1 (by omega), ok_bind, e1, hp.last1]
  simp only []
  rw [rd_ok P.2 _ (by omega) (by omega), ok_bind]
  by_cases hc : g P.2 (v - (fv - 3)) < v - (fv - 3)
  · rw [if_pos hc, if_pos hc, ok_bind, pure_eq_ok, e2]
  · rw [if_neg hc, if_neg hc, ok_bind, ok_bind, pure_eq_ok]

theorem skip_left_eq {P : PSum} {fv m : Int} (hp : PS P fv m) (v : Int) (h0 : fv - 3 ≤ v)
    (h1 : v ≤ fv + m + 1) :
    skip_non_null_elements_left P v =
      .ok (if g P.2 (v - (fv - 3)) > v - (fv - 3) then g P.2 (g P.2 (v - (fv - 3))) + (fv - 3)
        else v) := by
  have hs1 := hp.s1
  have hs2 := hp.s2
  have hm := hp.hm
  have e1 : (P.1.size : Int) - 1 = m + 5 := by omega
  have e2 : v - (fv - 3) + (fv - 3) = v := by omega
  have hd := hp.ds (v - (fv - 3)) (by omega) (by omega)
  unfold skip_non_null_elements_left
  rw [rdLast_ok P.1 (by omega), ok_bind, e1, hp.last1]
  simp only []
  rw [rd_ok P.2 _ (by omega) (by omega), ok_bind]
  by_cases hc : g P.2 (v - (fv - 3)) > v - (fv - 3)
  · rw [if_pos hc, if_pos hc, ok_bind, rd_ok P.2 _ hd.1 (by omega), ok_bind, ok_bind, pure_eq_ok]
  · rw [if_neg hc, if_neg hc, ok_bind, pure_eq_ok, e2]

/-- `skip_non_null_elements_right P v` is the first value `r ≥ v` of non-zero capacity -/
theorem skip_right_sem {P : PSum} {fv m : Int} (hp : PS P fv m) (hd : DSSem P m) (v : Int)
    (h0 : fv - 2 ≤ v) (h1 : v ≤ fv + m + 1) :
    ∃ r, skip_non_null_elements_right P v = .ok r ∧ v ≤ r ∧ r ≤ fv + m + 1 ∧
      (∀ v', v ≤ v' → v' < r → cap P fv v' = 0) ∧ cap P fv r ≠ 0 := by
  rw [skip_right_eq hp v (by omega) (by omega)]
  refine ⟨_, rfl, ?_⟩
  by_cases hz : g P.1 (v - (fv - 3)) = g P.1 (v - (fv - 3) - 1)
  · obtain ⟨z1, z2, z3, z4⟩ := hd.zero (v - (fv - 3)) (by omega) (by omega) hz
    rw [if_neg (by omega)]
    refine ⟨by omega, by omega, ?_, ?_⟩
    · intro v' hv1 hv2
      rw [cap_idx]
      have := z4 (v' - (fv - 3)) (by omega) (by omega)
      omega
    · rw [cap_idx]
      have e : g P.2 (v - (fv - 3)) + (fv - 3) - (fv - 3) = g P.2 (v - (fv - 3)) := by omega
      rw [e]; omega
  · obtain ⟨z1, z2, _, _⟩ := hd.nonzero (v - (fv - 3)) (by omega) (by omega) hz
    rw [if_pos z2]
    refine ⟨by omega, by omega, fun v' h1 h2 => by omega, ?_⟩
    rw [cap_idx]; omega

/-- `skip_non_null_elements_left P v` is the last value `r ≤ v` of non-zero capacity -/
theorem skip_left_sem {P : PSum} {fv m : Int} (hp : PS P fv m) (hd : DSSem P m) (v : Int)
    (h0 : fv - 2 ≤ v) (h1 : v ≤ fv + m + 1) :
    ∃ r, skip_non_null_elements_left P v = .ok r ∧ r ≤ v ∧ fv - 2 ≤ r ∧
      (∀ v', r < v' → v' ≤ v → cap P fv v' = 0) ∧ cap P fv r ≠ 0 := by
  rw [skip_left_eq hp v (by omega) (by omega)]
  refine ⟨_, rfl, ?_⟩
  have h10 : g P.1 1 ≠ g P.1 (1 - 1) := by
    have : (1 : Int) - 1 = 0 := rfl
    rw [this, hp.S0, hp.S1]; omega
  by_cases hz : g P.1 (v - (fv - 3)) = g P.1 (v - (fv - 3) - 1)
  · obtain ⟨z1, z2, z3, z4⟩ := hd.zero (v - (fv - 3)) (by omega) (by omega) hz
    obtain ⟨n1, n2, n3, n4⟩ := hd.nonzero (g P.2 (v - (fv - 3))) (by omega) z2 z3
    rw [if_pos z1]
    generalize hn : g P.2 (v - (fv - 3)) = n at *
    generalize hpp : g P.2 n = p at *
    -- `1` has non-zero capacity, so the previous index `p` of `n` is at least `1`
    have hp1 : 1 ≤ p := by
      apply Classical.byContradiction
      intro hlt
      have hv1 : v - (fv - 3) ≠ 1 := fun h => by rw [h] at hz; exact h10 hz
      exact h10 (n3 1 (by omega) (by omega))
    have hnzp := n4 hp1
    -- `p` lies below `q`, every index of `[q, n)` having capacity zero
    have hpq : p < v - (fv - 3) := by
      apply Classical.byContradiction
      intro hge
      exact hnzp (z4 p (by omega) n2)
    refine ⟨by omega, by omega, ?_, ?_⟩
    · intro v' hv1 hv2
      rw [cap_idx]
      have := n3 (v' - (fv - 3)) (by omega) (by omega)
      omega
    · rw [cap_idx]
      have e : p + (fv - 3) - (fv - 3) = p := by omega
      rw [e]; omega
  · obtain ⟨z1, z2, _, _⟩ := hd.nonzero (v - (fv - 3)) (by omega) (by omega) hz
    rw [if_neg (by omega)]
    refine ⟨by omega, by omega, fun v' h1 h2 => by omega, ?_⟩
    rw [cap_idx]; omega

end Gcc
end Nucs
