import NucsProofs.Propagators.GccSoundCount
/-!
  The EXISTENCE theorem for the global cardinality constraint (pure combinatorics, no algorithm):
  an assignment respecting the upper capacities + Hall's condition for the lower capacities
  ⟹ an assignment respecting both (the combination step of Quimper et al., CP 2003).

  * `vsum f a b`     : `Σ_{a ≤ v < b} f v`;
  * `meetsB R a b`   : does `[a, b]` contain a value of the set `R`?
  * `gcc_mix`        : the theorem.

  Proof: augmenting paths.  `Chain σ s xs t`: the variables `xs = [x_1, …, x_n]` form a walk
  `s → σ x_1 → … → σ x_n = t` (`v → σ x` when `v` is in the domain of `x`).  Along a walk one unit
  can be shifted from `t` to `s` (`shift`).  If `w` is deficient, the set of the values reachable
  from `w` is closed, so Hall's condition gives a reachable value with a surplus (`exists_surplus`);
  shifting one unit from it to `w` increases the satisfied demand `Φ` (`improve`).
-/
namespace Nucs
namespace Gcc

/-! ### sums over an interval of values -/

def vsumC (f : Int → Int) (a : Int) : Nat → Int
  | 0 => 0
  | n + 1 => vsumC f a n + f (a + n)

/-- `Σ_{a ≤ v < b} f v` -/
def vsum (f : Int → Int) (a b : Int) : Int := vsumC f a (b - a).toNat

theorem vsum_empty (f : Int → Int) {a b : Int} (h : b ≤ a) : vsum f a b = 0 := by
  unfold vsum
  have : (b - a).toNat = 0 := by omega
  rw [this]; rfl

theorem vsum_succ (f : Int → Int) {a b : Int} (h : a ≤ b) :
    vsum f a (b + 1) = vsum f a b + f b := by
  unfold vsum
  have e : (b + 1 - a).toNat = (b - a).toNat + 1 := by omega
  rw [e, vsumC]
  have e2 : a + ((b - a).toNat : Int) = b := by omega
  rw [e2]

theorem vsum_one (f : Int → Int) (a : Int) : vsum f a (a + 1) = f a := by
  rw [vsum_succ f (Int.le_refl a), vsum_empty f (Int.le_refl a)]; omega

theorem vsumC_le {f g : Int → Int} {a : Int} : ∀ n : Nat,
    (∀ i : Nat, i < n → f (a + i) ≤ g (a + i)) → vsumC f a n ≤ vsumC g a n := by
  intro n
  induction n with
  | zero => intro _; exact Int.le_refl _
  | succ n ih =>
    intro h
    have h1 := ih (fun i hi => h i (by omega))
    have h2 := h n (by omega)
    simp only [vsumC]; omega

/-- monotonicity -/
theorem vsum_le {f g : Int → Int} {a b : Int} (h : ∀ k, a ≤ k → k < b → f k ≤ g k) :
    vsum f a b ≤ vsum g a b := by
  unfold vsum
  exact vsumC_le _ (fun i hi => h _ (by omega) (by omega))

theorem vsum_congr {f g : Int → Int} {a b : Int} (h : ∀ k, a ≤ k → k < b → f k = g k) :
    vsum f a b = vsum g a b := by
  have h1 : vsum f a b ≤ vsum g a b := vsum_le (fun k h1 h2 => by rw [h k h1 h2]; exact Int.le_refl _)
  have h2 : vsum g a b ≤ vsum f a b := vsum_le (fun k h1 h2 => by rw [h k h1 h2]; exact Int.le_refl _)
  omega

theorem vsumC_lt {f g : Int → Int} {a : Int} : ∀ n : Nat,
    (∀ i : Nat, i < n → f (a + i) ≤ g (a + i)) → ∀ j : Nat, j < n → f (a + j) < g (a + j) →
      vsumC f a n < vsumC g a n := by
  intro n
  induction n with
  | zero => intro _ j hj; omega
  | succ n ih =>
    intro h j hj hlt
    have h2 := h n (by omega)
    simp only [vsumC]
    by_cases hjn : j < n
    · have h1 := ih (fun i hi => h i (by omega)) j hjn hlt
      omega
    · have e : j = n := by omega
      subst e
      have h1 := vsumC_le (f := f) (g := g) (a := a) j (fun i hi => h i (by omega))
      omega

/-- strict monotonicity -/
theorem vsum_lt {f g : Int → Int} {a b : Int} (h : ∀ k, a ≤ k → k < b → f k ≤ g k)
    (w : Int) (hw1 : a ≤ w) (hw2 : w < b) (hlt : f w < g w) : vsum f a b < vsum g a b := by
  unfold vsum
  apply vsumC_lt _ (fun i hi => h _ (by omega) (by omega)) (w - a).toNat (by omega)
  have e : a + ((w - a).toNat : Int) = w := by omega
  rw [e]; exact hlt

theorem vsumC_add (f g : Int → Int) (a : Int) : ∀ n : Nat,
    vsumC (fun k => f k + g k) a n = vsumC f a n + vsumC g a n := by
  intro n
  induction n with
  | zero => rfl
  | succ n ih => simp only [vsumC, ih]; omega

theorem vsum_add (f g : Int → Int) (a b : Int) :
    vsum (fun k => f k + g k) a b = vsum f a b + vsum g a b := vsumC_add f g a _

theorem vsum_zero (a b : Int) : vsum (fun _ => 0) a b = 0 := by
  unfold vsum
  generalize (b - a).toNat = n
  induction n with
  | zero => rfl
  | succ n ih => simp only [vsumC, ih]; omega

theorem vsum_nonneg {f : Int → Int} {a b : Int} (h : ∀ k, a ≤ k → k < b → 0 ≤ f k) :
    0 ≤ vsum f a b := by
  have := vsum_le (f := fun _ => 0) (g := f) (a := a) (b := b) h
  rw [vsum_zero] at this; exact this

/-- splitting -/
theorem vsum_split (f : Int → Int) {a m b : Int} (ham : a ≤ m) (hmb : m ≤ b) :
    vsum f a b = vsum f a m + vsum f m b := by
  have : ∀ n : Nat, vsum f a (m + n) = vsum f a m + vsum f m (m + n) := by
    intro n
    induction n with
    | zero => simp [vsum_empty f (Int.le_refl m)]
    | succ n ih =>
      have e : m + ((n + 1 : Nat) : Int) = (m + n) + 1 := by omega
      rw [e, vsum_succ f (by omega), vsum_succ f (by omega), ih]; omega
  have h := this (b - m).toNat
  have e : m + ((b - m).toNat : Int) = b := by omega
  rw [e] at h; exact h

/-! ### does an interval meet a set of values? -/

def meetsC (R : Int → Bool) (a : Int) : Nat → Bool
  | 0 => false
  | n + 1 => meetsC R a n || R (a + n)

/-- does `[a, b]` contain a value of the set `R`? -/
def meetsB (R : Int → Bool) (a b : Int) : Bool := meetsC R a (b + 1 - a).toNat

theorem meetsC_iff (R : Int → Bool) (a : Int) : ∀ n : Nat,
    meetsC R a n = true ↔ ∃ i : Nat, i < n ∧ R (a + i) = true := by
  intro n
  induction n with
  | zero => simp [meetsC]
  | succ n ih =>
    simp only [meetsC, Bool.or_eq_true, ih]
    constructor
    · rintro (⟨i, hi, h⟩ | h)
      · exact ⟨i, by omega, h⟩
      · exact ⟨n, by omega, h⟩
    · rintro ⟨i, hi, h⟩
      by_cases hin : i < n
      · exact Or.inl ⟨i, hin, h⟩
      · have e : i = n := by omega
        subst e; exact Or.inr h

theorem meetsB_iff (R : Int → Bool) (a b : Int) :
    meetsB R a b = true ↔ ∃ v, a ≤ v ∧ v ≤ b ∧ R v = true := by
  unfold meetsB
  rw [meetsC_iff]
  constructor
  · rintro ⟨i, hi, h⟩
    exact ⟨a + i, by omega, by omega, h⟩
  · rintro ⟨v, h1, h2, h⟩
    refine ⟨(v - a).toNat, by omega, ?_⟩
    have e : a + ((v - a).toNat : Int) = v := by omega
    rw [e]; exact h

/-! ### counting in lists -/

theorem mix_countP_union {L : List Int} {q q1 q2 : Int → Bool}
    (h : ∀ p ∈ L, q p = (q1 p || q2 p)) (hd : ∀ p ∈ L, q1 p = true → q2 p = true → False) :
    L.countP q = L.countP q1 + L.countP q2 := by
  induction L with
  | nil => rfl
  | cons x L ih =>
    rw [List.countP_cons, List.countP_cons, List.countP_cons,
      ih (fun p hp => h p (List.mem_cons_of_mem _ hp))
        (fun p hp => hd p (List.mem_cons_of_mem _ hp))]
    have h3 := h x List.mem_cons_self
    have h4 := hd x List.mem_cons_self
    cases h1 : q1 x <;> cases h2 : q2 x <;> simp_all <;> omega

theorem mix_countP_false {L : List Int} {q : Int → Bool} (h : ∀ p ∈ L, q p = false) :
    L.countP q = 0 := by
  rw [List.countP_eq_zero]
  intro p hp; rw [h p hp]; simp

/-- a count over the variables whose value lies in `[a, a + n)` and in `Q` is a sum over the
values -/
theorem countP_valuesC (L : List Int) (κ : Int → Int) (Q : Int → Bool) (a : Int) : ∀ n : Nat,
    ((L.countP (fun p => decide (a ≤ κ p) && decide (κ p < a + n) && Q (κ p)) : Nat) : Int) =
      vsumC (fun k => if Q k = true then occ κ L k else 0) a n := by
  intro n
  induction n with
  | zero =>
    simp only [vsumC]
    rw [mix_countP_false]
    · rfl
    · intro p _
      by_cases h : a ≤ κ p <;> simp [h]
      intro; omega
  | succ n ih =>
    simp only [vsumC]
    rw [← ih]
    rw [mix_countP_union (q1 := fun p => decide (a ≤ κ p) && decide (κ p < a + n) && Q (κ p))
      (q2 := fun p => decide (κ p = a + n) && Q (κ p))]
    · have : L.countP (fun p => decide (κ p = a + n) && Q (κ p)) =
          if Q (a + n) = true then L.countP (fun p => decide (κ p = a + n)) else 0 := by
        cases hQ : Q (a + n)
        · simp only [Bool.false_eq_true, if_false]
          apply mix_countP_false
          intro p _
          by_cases h : κ p = a + n
          · rw [h, hQ]; simp
          · simp [h]
        · simp only [if_true]
          apply List.countP_congr
          intro p _
          by_cases h : κ p = a + n
          · rw [h, hQ]; simp
          · simp [h]
      rw [this]
      unfold occ
      split <;> simp
    · intro p _
      by_cases h1 : a ≤ κ p <;> by_cases h2 : κ p < a + n <;> by_cases h3 : κ p = a + n <;>
        simp [h1, h2, h3] <;> omega
    · intro p _ h1 h2
      simp only [Bool.and_eq_true, decide_eq_true_eq] at h1 h2
      omega

/-- if all the values lie in `[a, b)`: the number of variables with a value in `Q` is the sum of
the occurrences of the values of `Q` -/
theorem countP_values (L : List Int) (κ : Int → Int) (Q : Int → Bool) (a b : Int)
    (hκ : ∀ p ∈ L, a ≤ κ p ∧ κ p < b) :
    ((L.countP (fun p => Q (κ p)) : Nat) : Int) =
      vsum (fun k => if Q k = true then occ κ L k else 0) a b := by
  unfold vsum
  rw [← countP_valuesC]
  congr 1
  apply List.countP_congr
  intro p hp
  have := hκ p hp
  have h1 : decide (a ≤ κ p) = true := by simp; omega
  have h2 : decide (κ p < a + ((b - a).toNat : Int)) = true := by simp; omega
  rw [h1, h2]; simp


/-! ### moving one variable -/

/-- `σ` with `x ↦ s` -/
def upd (σ : Int → Int) (x s : Int) : Int → Int := fun y => if y = x then s else σ y

theorem upd_same (σ : Int → Int) (x s : Int) : upd σ x s x = s := by simp [upd]

theorem upd_other (σ : Int → Int) {x y : Int} (s : Int) (h : y ≠ x) : upd σ x s y = σ y := by
  simp [upd, h]

theorem occ_upd_notin (σ : Int → Int) (x s v : Int) : ∀ L : List Int, x ∉ L →
    occ (upd σ x s) L v = occ σ L v := by
  intro L
  induction L with
  | nil => intro _; rfl
  | cons p L ih =>
    intro h
    have hp : p ≠ x := fun e => h (e ▸ List.mem_cons_self)
    have hL : x ∉ L := fun e => h (List.mem_cons_of_mem _ e)
    rw [occ_cons, occ_cons, ih hL, upd_other σ s hp]

/-- moving `x` from `σ x` to `s`: `+1` at `s`, `-1` at `σ x` -/
theorem occ_upd (σ : Int → Int) (x s v : Int) : ∀ L : List Int, L.Nodup → x ∈ L →
    occ (upd σ x s) L v =
      occ σ L v + (if v = s then 1 else 0) - (if v = σ x then 1 else 0) := by
  intro L
  induction L with
  | nil => intro _ h; cases h
  | cons p L ih =>
    intro hn hx
    have hn' := List.nodup_cons.1 hn
    rw [occ_cons, occ_cons]
    by_cases hp : p = x
    · subst hp
      rw [occ_upd_notin σ p s v L hn'.1, upd_same]
      by_cases h1 : s = v <;> by_cases h2 : σ p = v <;>
        simp [h1, h2, eq_comm] <;> omega
    · have hin : x ∈ L := by
        rcases List.mem_cons.1 hx with h | h
        · exact absurd h.symm hp
        · exact h
      rw [ih hn'.2 hin, upd_other σ s hp]
      omega

/-! ### walks -/

section walks
variable (all : List Int) (lo hi : Int → Int)

/-- the variables `xs = [x_1, …, x_n]` form a walk `s → σ x_1 → … → σ x_n = t`
(`v → σ x` when `x ∈ all` and `v` is in the domain of `x`) -/
def Chain (σ : Int → Int) : Int → List Int → Int → Prop
  | s, [], t => s = t
  | s, x :: xs, t => x ∈ all ∧ lo x ≤ s ∧ s ≤ hi x ∧ Chain σ (σ x) xs t

theorem chain_snoc (σ : Int → Int) (t x : Int) (hx : x ∈ all) (h1 : lo x ≤ t) (h2 : t ≤ hi x) :
    ∀ (xs : List Int) (s : Int), Chain all lo hi σ s xs t →
      Chain all lo hi σ s (xs ++ [x]) (σ x) := by
  intro xs
  induction xs with
  | nil =>
    intro s h
    simp only [Chain] at h
    subst h
    exact ⟨hx, h1, h2, rfl⟩
  | cons y ys ih =>
    intro s h
    obtain ⟨a1, a2, a3, a4⟩ := h
    exact ⟨a1, a2, a3, ih _ a4⟩

/-- a walk through `x` can be cut: from `σ x` a shorter walk leads to `t` -/
theorem chain_cut (σ : Int → Int) (t x : Int) :
    ∀ (xs : List Int) (s : Int), Chain all lo hi σ s xs t → x ∈ xs →
      ∃ ys : List Int, ys.length < xs.length ∧ Chain all lo hi σ (σ x) ys t := by
  intro xs
  induction xs with
  | nil => intro s _ h; cases h
  | cons y ys ih =>
    intro s h hx
    obtain ⟨_, _, _, a4⟩ := h
    by_cases hy : x = y
    · subst hy
      exact ⟨ys, by simp, a4⟩
    · have hin : x ∈ ys := by
        rcases List.mem_cons.1 hx with h | h
        · exact absurd h hy
        · exact h
      obtain ⟨zs, hz1, hz2⟩ := ih _ a4 hin
      exact ⟨zs, by simp; omega, hz2⟩

/-- moving a variable which is not on the walk keeps the walk -/
theorem chain_upd (σ : Int → Int) (t x v : Int) :
    ∀ (xs : List Int) (s : Int), Chain all lo hi σ s xs t → x ∉ xs →
      Chain all lo hi (upd σ x v) s xs t := by
  intro xs
  induction xs with
  | nil => intro s h _; exact h
  | cons y ys ih =>
    intro s h hx
    obtain ⟨a1, a2, a3, a4⟩ := h
    have hy : y ≠ x := fun e => hx (e ▸ List.mem_cons_self)
    have hin : x ∉ ys := fun e => hx (List.mem_cons_of_mem _ e)
    refine ⟨a1, a2, a3, ?_⟩
    rw [upd_other σ v hy]
    exact ih _ a4 hin

/-- along a walk from `s` to `t` one unit can be shifted from `t` to `s` -/
theorem shift (hnodup : all.Nodup) (t : Int) : ∀ (n : Nat) (σ : Int → Int) (s : Int)
    (xs : List Int), xs.length ≤ n → (∀ x ∈ all, lo x ≤ σ x ∧ σ x ≤ hi x) →
    Chain all lo hi σ s xs t →
    ∃ σ' : Int → Int, (∀ x ∈ all, lo x ≤ σ' x ∧ σ' x ≤ hi x) ∧
      ∀ v, occ σ' all v = occ σ all v + (if v = s then 1 else 0) - (if v = t then 1 else 0) := by
  intro n
  induction n with
  | zero =>
    intro σ s xs hlen hdom hch
    have : xs = [] := List.eq_nil_of_length_eq_zero (by omega)
    subst this
    simp only [Chain] at hch
    subst hch
    exact ⟨σ, hdom, fun v => by omega⟩
  | succ n ih =>
    intro σ s xs hlen hdom hch
    cases xs with
    | nil =>
      simp only [Chain] at hch
      subst hch
      exact ⟨σ, hdom, fun v => by omega⟩
    | cons x ys =>
      obtain ⟨a1, a2, a3, a4⟩ := hch
      simp only [List.length_cons] at hlen
      by_cases hx : x ∈ ys
      · obtain ⟨zs, hz1, hz2⟩ := chain_cut all lo hi σ t x ys _ a4 hx
        exact ih σ s (x :: zs) (by simp only [List.length_cons]; omega) hdom ⟨a1, a2, a3, hz2⟩
      · have hch1 := chain_upd all lo hi σ t x s ys _ a4 hx
        have hdom1 : ∀ y ∈ all, lo y ≤ upd σ x s y ∧ upd σ x s y ≤ hi y := by
          intro y hy
          by_cases e : y = x
          · subst e; rw [upd_same]; exact ⟨a2, a3⟩
          · rw [upd_other σ s e]; exact hdom y hy
        obtain ⟨σ', h1, h2⟩ := ih (upd σ x s) (σ x) ys (by omega) hdom1 hch1
        refine ⟨σ', h1, fun v => ?_⟩
        rw [h2 v, occ_upd σ x s v all hnodup a1]
        omega

end walks

/-! ### a reachable value with a surplus -/

/-- if `w` is deficient, Hall's condition gives a value with a surplus reachable from `w` -/
theorem exists_surplus (all : List Int) (lo hi l : Int → Int) (A B : Int)
    (hdom : ∀ x ∈ all, A ≤ lo x ∧ lo x ≤ hi x ∧ hi x < B)
    (hL : ∀ R : Int → Bool, vsum (fun v => if R v = true then l v else 0) A B ≤
      ((all.countP (fun x => meetsB R (lo x) (hi x)) : Nat) : Int))
    (σ : Int → Int) (hσ : ∀ x ∈ all, lo x ≤ σ x ∧ σ x ≤ hi x)
    (w : Int) (hw1 : A ≤ w) (hw2 : w < B) (hdef : occ σ all w < l w) :
    ∃ (t : Int) (xs : List Int), Chain all lo hi σ w xs t ∧ l t < occ σ all t := by
  apply Classical.byContradiction
  intro hno
  have hle : ∀ t xs, Chain all lo hi σ w xs t → occ σ all t ≤ l t := by
    intro t xs hch
    apply Classical.byContradiction
    intro h
    exact hno ⟨t, xs, hch, by omega⟩
  let R : Int → Bool := fun v => @decide (∃ xs, Chain all lo hi σ w xs v) (Classical.propDecidable _)
  have hR : ∀ v, R v = true ↔ ∃ xs, Chain all lo hi σ w xs v := by
    intro v
    exact @decide_eq_true_iff _ (Classical.propDecidable _)
  -- closure
  have hclosed : ∀ x ∈ all, meetsB R (lo x) (hi x) = true → R (σ x) = true := by
    intro x hx hm
    obtain ⟨v, h1, h2, h3⟩ := (meetsB_iff R _ _).1 hm
    obtain ⟨xs, hch⟩ := (hR v).1 h3
    exact (hR _).2 ⟨xs ++ [x], chain_snoc all lo hi σ v x hx h1 h2 xs w hch⟩
  have c1 : all.countP (fun x => meetsB R (lo x) (hi x)) ≤ all.countP (fun x => R (σ x)) :=
    List.countP_mono_left hclosed
  have c2 := countP_values all σ R A B (fun p hp => by
    have := hdom p hp; have := hσ p hp; omega)
  have c3 : vsum (fun k => if R k = true then occ σ all k else 0) A B <
      vsum (fun v => if R v = true then l v else 0) A B := by
    apply vsum_lt _ w hw1 hw2
    · have : R w = true := (hR w).2 ⟨[], rfl⟩
      simp only [this, if_true]; exact hdef
    · intro k _ _
      cases hk : R k
      · simp
      · obtain ⟨xs, hch⟩ := (hR k).1 hk
        simp only [if_true]
        exact hle k xs hch
  have c4 := hL R
  omega

/-! ### the satisfied demand -/

/-- the satisfied demand `Σ_v min (occ v) (l v)` -/
def Phi (all : List Int) (l : Int → Int) (A B : Int) (σ : Int → Int) : Int :=
  vsum (fun v => min (occ σ all v) (l v)) A B

theorem Phi_le (all : List Int) (l : Int → Int) (A B : Int) (σ : Int → Int) :
    Phi all l A B σ ≤ vsum l A B := by
  unfold Phi
  apply vsum_le
  intro k _ _
  omega

/-- an assignment respecting the upper capacities, with a deficient value, can be improved -/
theorem improve (all : List Int) (hnodup : all.Nodup) (lo hi l u : Int → Int) (A B : Int)
    (hdom : ∀ x ∈ all, A ≤ lo x ∧ lo x ≤ hi x ∧ hi x < B)
    (hlu : ∀ v, A ≤ v → v < B → 0 ≤ l v ∧ l v ≤ u v)
    (hL : ∀ R : Int → Bool, vsum (fun v => if R v = true then l v else 0) A B ≤
      ((all.countP (fun x => meetsB R (lo x) (hi x)) : Nat) : Int))
    (σ : Int → Int) (hσ : ∀ x ∈ all, lo x ≤ σ x ∧ σ x ≤ hi x)
    (hU : ∀ v, A ≤ v → v < B → occ σ all v ≤ u v)
    (w : Int) (hw1 : A ≤ w) (hw2 : w < B) (hdef : occ σ all w < l w) :
    ∃ σ' : Int → Int, (∀ x ∈ all, lo x ≤ σ' x ∧ σ' x ≤ hi x) ∧
      (∀ v, A ≤ v → v < B → occ σ' all v ≤ u v) ∧ Phi all l A B σ < Phi all l A B σ' := by
  obtain ⟨t, xs, hch, hsur⟩ := exists_surplus all lo hi l A B hdom hL σ hσ w hw1 hw2 hdef
  obtain ⟨σ', h1, h2⟩ := shift all lo hi hnodup t xs.length σ w xs (Nat.le_refl _) hσ hch
  have hwt : w ≠ t := by intro e; subst e; omega
  refine ⟨σ', h1, ?_, ?_⟩
  · intro v hv1 hv2
    have g := h2 v
    have := hU v hv1 hv2
    by_cases e : v = w
    · subst e
      have := hlu v hv1 hv2
      rw [if_pos rfl, if_neg hwt] at g
      omega
    · rw [if_neg e] at g
      split at g <;> omega
  · unfold Phi
    apply vsum_lt _ w hw1 hw2
    · rw [h2 w]; simp only [if_true, if_neg hwt]; omega
    · intro k _ _
      rw [h2 k]
      by_cases e1 : k = w
      · subst e1; simp only [if_true, if_neg hwt]; omega
      · by_cases e2 : k = t
        · subst e2; simp only [if_true, if_neg e1]; omega
        · simp only [if_neg e1, if_neg e2]; omega

/-! ### the theorem -/

theorem gcc_mix (all : List Int) (hnodup : all.Nodup) (lo hi l u : Int → Int) (A B : Int)
    (hdom : ∀ x ∈ all, A ≤ lo x ∧ lo x ≤ hi x ∧ hi x < B)
    (hlu : ∀ v, A ≤ v → v < B → 0 ≤ l v ∧ l v ≤ u v)
    (σU : Int → Int) (hU1 : ∀ x ∈ all, lo x ≤ σU x ∧ σU x ≤ hi x)
    (hU2 : ∀ v, A ≤ v → v < B → occ σU all v ≤ u v)
    (hL : ∀ R : Int → Bool, vsum (fun v => if R v = true then l v else 0) A B ≤
      ((all.countP (fun x => meetsB R (lo x) (hi x)) : Nat) : Int)) :
    ∃ σ : Int → Int, (∀ x ∈ all, lo x ≤ σ x ∧ σ x ≤ hi x) ∧
      ∀ v, A ≤ v → v < B → l v ≤ occ σ all v ∧ occ σ all v ≤ u v := by
  have key : ∀ (n : Nat) (σ : Int → Int), (∀ x ∈ all, lo x ≤ σ x ∧ σ x ≤ hi x) →
      (∀ v, A ≤ v → v < B → occ σ all v ≤ u v) → vsum l A B - Phi all l A B σ ≤ n →
      ∃ σ : Int → Int, (∀ x ∈ all, lo x ≤ σ x ∧ σ x ≤ hi x) ∧
        ∀ v, A ≤ v → v < B → l v ≤ occ σ all v ∧ occ σ all v ≤ u v := by
    intro n
    induction n with
    | zero =>
      intro σ h1 h2 hn
      refine ⟨σ, h1, fun v hv1 hv2 => ⟨?_, h2 v hv1 hv2⟩⟩
      apply Classical.byContradiction
      intro hdef
      obtain ⟨σ', _, _, g3⟩ :=
        improve all hnodup lo hi l u A B hdom hlu hL σ h1 h2 v hv1 hv2 (by omega)
      have := Phi_le all l A B σ'
      omega
    | succ n ih =>
      intro σ h1 h2 hn
      by_cases hex : ∃ v, A ≤ v ∧ v < B ∧ occ σ all v < l v
      · obtain ⟨v, hv1, hv2, hdef⟩ := hex
        obtain ⟨σ', g1, g2, g3⟩ :=
          improve all hnodup lo hi l u A B hdom hlu hL σ h1 h2 v hv1 hv2 hdef
        exact ih σ' g1 g2 (by omega)
      · refine ⟨σ, h1, fun v hv1 hv2 => ⟨?_, h2 v hv1 hv2⟩⟩
        apply Classical.byContradiction
        intro hdef
        exact hex ⟨v, hv1, hv2, by omega⟩
  exact key (vsum l A B - Phi all l A B σU).toNat σU hU1 hU2 (by omega)

end Gcc
end Nucs
