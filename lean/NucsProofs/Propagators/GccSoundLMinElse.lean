import NucsProofs.Propagators.GccSoundLMinDefs
/-!
  Semantic soundness of the ported gcc, `filter_lower_min`: the `else` branch of the main test
  (`lminElse` and its pieces `lminNewMin`, `lminUnstable`, `lminMark`, `lminFin` of PortGccLMinDefs)
  satisfies the relation `ERel` of GccSoundLMinMath between the arrays before and after, read as
  `tf := tlg tl`, `df := dfc Kf c`, `sf := g sets`.  The proofs follow the ones of the memory-safety
  specifications of PortGccLMinElse (`lminFin_spec` … `lminElse_spec`) with stronger conclusions,
  exactly as AlldiffCorrectLower does for the sister algorithm.
-/
namespace Nucs
namespace Gcc

open AllDiff (g upd g2 upd2 ok_bind pure_eq_ok except_bind_ok forIn_list_except range_forIn_eq
  size_upd size_upd2 g_upd g_upd_same g_upd_ne LChain LPre)

/-! ### the mark test of gcc in terms of `K` -/

/-- at a root `z` of `tl` (capacity `≥ 1`) the test `c[z] == get_sum l bounds[y] (bounds[z]-1)` is
    the abstract mark test `Mk` -/
theorem lmin_test_eq_iff {N : Int} {bounds : Array Int} {l : PSum} {fv m : Int}
    (hb : BC bounds N fv m) (hl : PS l fv m) (c : Array Int) (y z : Int)
    (hy1 : 1 ≤ y) (hyN : y < N) (hz2 : 2 ≤ z) (hzN : z ≤ N) (hd : 1 ≤ g c z) :
    g c z = gsum l (g bounds y) (g bounds z - 1) ↔
      Mk (K l fv bounds) (dfc (K l fv bounds) c) y z := by
  unfold Mk
  rw [dfc_ge2 _ c z hz2]
  by_cases hyz : y < z
  · rw [gsum_K hl hb y z (by omega) hyz hzN]
    constructor
    · intro h; exact ⟨hyz, by omega⟩
    · intro h; omega
  · have h1 := (gsum_K_neg hl hb y z (by omega) (by omega) hyN).2
    constructor
    · intro h; omega
    · intro h; omega

/-! ### the final path compression of `tl` -/

theorem lminFin_rel {N : Int} {sz : Nat} {Kf : Int → Int} {tl c sets pot stbl : Array Int}
    (hc : MCore N sz Kf tl c sets) (hp : MPot N sz tl pot stbl) (x z : Int) (hx1 : 1 ≤ x)
    (hxz : x + 1 ≤ z) (hzN : z ≤ N) (hzr : g tl z < z)
    (hall : ∀ k, x + 1 ≤ k → k < z → g tl k > k) (new_mins : Array Int) (w : Int) :
    ∃ tl', lminFin x pot tl c sets stbl new_mins w z =
        .ok (.yield (tl', c, sets, stbl, pot, new_mins, w)) ∧
      MCore N sz Kf tl' c sets ∧ MPot N sz tl' pot stbl ∧
      (∀ k, 1 ≤ k → k ≤ N → (tlg tl' k < k ↔ tlg tl k < k)) ∧
      (∀ k, 1 ≤ k → k ≤ N → tlg tl k < k → tlg tl' k = tlg tl k) := by
  have hNsz := hc.hsz
  have hst := hc.st
  have hzr' : tlg tl z < z := by rw [tlg_ge2 tl z (by omega)]; exact hzr
  have hall' : ∀ k, x + 1 ≤ k → k < z → tlg tl k > k := by
    intro k h1 h2; rw [tlg_ge2 tl k (by omega)]; exact hall k h1 h2
  have hupt : ∀ p, x + 1 ≤ p → p < z → p < g tl p ∧ g tl p ≤ z := by
    intro p h1 h2
    have h3 := hall' p h1 h2
    have h4 := hc.ct.up_le_root (by omega) h2 hzN h3 hzr'
    rw [tlg_ge2 tl p (by omega)] at h3 h4
    exact ⟨h3, h4⟩
  obtain ⟨t3, hps, hsz3, hrel3⟩ :=
    path_set_up_compress tl (x + 1) z z (by omega) hxz (by omega) hupt
  obtain ⟨hct3, hroots3, hval3⟩ := hc.ct.compress hzN hall' (tlg_rel_of_g hrel3)
  unfold lminFin
  rw [hps, ok_bind]
  exact ⟨t3, rfl, hc.replace_tl (by omega) hct3 hroots3 hval3,
    hp.replace_tl hct3 (fun k h1 h2 h3 => (hroots3 k (by omega) (by omega)).1 h3),
    hroots3, hval3⟩

/-! ### marking a new unstable set -/

theorem lminMark_rel {N : Int} {sz : Nat} {Kf : Int → Int} {tl c sets pot stbl : Array Int}
    (hc : MCore N sz Kf tl c sets) (hp : MPot N sz tl pot stbl) (new_mins : Array Int)
    (w x j z Y : Int) (hx1 : 1 ≤ x) (hxz : x + 1 ≤ z) (hzN : z ≤ N) (hzr : g tl z < z)
    (hj : g tl z = j) (hall : ∀ k, x + 1 ≤ k → k < z → g tl k > k)
    (hY : Y = z - 1) (hYr : g sets Y < Y) :
    ∃ tl' sets', lminMark x j pot tl c stbl new_mins w z sets Y =
        .ok (.yield (tl', c, sets', stbl, pot, new_mins, w)) ∧
      MCore N sz Kf tl' c sets' ∧ MPot N sz tl' pot stbl ∧
      (∀ k, 1 ≤ k → k ≤ N → (tlg tl' k < k ↔ tlg tl k < k)) ∧
      (∀ k, 1 ≤ k → k ≤ N → tlg tl k < k → tlg tl' k = tlg tl k) ∧
      (∀ k, 1 ≤ k → k ≤ N → (g sets' k < k ↔ (g sets k < k ∧ ¬ (j - 1 < k ∧ k < Y)))) := by
  have hNsz := hc.hsz
  have hss := hc.ss
  have hz2 : 2 ≤ z := by omega
  have hy1 : 1 ≤ Y := by omega
  have hyN : Y < N := by omega
  have hzr' : tlg tl z < z := by rw [tlg_ge2 tl z hz2]; exact hzr
  have hj1 : 1 ≤ j := by rw [← hj]; exact hc.root_ge_one z hz2 hzN hzr
  have hl1 := hc.l1 z hz2 hzN hzr
  rw [hj] at hl1
  have hdy := hc.cs.down Y hy1 (by omega) hYr
  have hry := hc.cs.rng Y hy1 (by omega)
  -- `e = j - 1` is `0` or a root of `sets`, hence not skipped by the pointer of `Y`
  have hre : j - 1 = 0 ∨ g sets (j - 1) < j - 1 := by
    rcases hl1 with h | h
    · left; omega
    · right; exact h
  have hey : j - 1 ≤ g sets Y := by
    by_cases hle : j - 1 ≤ g sets Y
    · exact hle
    · have := hdy.1 (j - 1) (by omega) (by omega)
      rcases hre with h | h <;> omega
  unfold lminMark
  rw [rd_ok sets Y (by omega) (by omega), ok_bind]
  obtain ⟨h2, hps, hsz2, hv2⟩ := path_set_down_mark sets (g sets Y) (j - 1) Y (by omega) hey
    (by omega)
    (by
      rcases hdy.2 with h0 | h0
      · left; omega
      · right; exact h0)
    (by
      intro p hp1 hp2 hp3
      have hdp := hc.cs.down p (by omega) (by omega) hp3
      have hrp := hc.cs.rng p (by omega) (by omega)
      refine ⟨?_, ?_, fun k hk1 hk2 => by have := hdp.1 k hk1 hk2; omega⟩
      · by_cases hle : j - 1 ≤ g sets p
        · exact hle
        · have := hdp.1 (j - 1) (by omega) (by omega)
          rcases hre with h | h <;> omega
      · rcases hdp.2 with h0 | h0
        · left
          by_cases hle : j - 1 ≤ g sets p
          · omega
          · have := hdp.1 (j - 1) (by omega) (by omega)
            rcases hre with h | h <;> omega
        · right; exact h0)
  rw [hps, ok_bind, wr_ok h2 Y (j - 1) (by omega) (by omega), ok_bind]
  -- the new `sets` as a function
  have ha3 : ∀ k, 0 ≤ k → g (upd h2 Y (j - 1)) k =
      if k = Y then j - 1 else if j - 1 < k ∧ k ≤ g sets Y ∧ g sets k < k then Y else g sets k := by
    intro k hk
    rw [g_upd h2 Y (j - 1) k (by omega) (by omega) hk]
    by_cases hky : k = Y
    · simp [hky]
    · simp only [hky, if_false]; exact hv2 k hk
  obtain ⟨hch', hroots'⟩ := hc.cs.mark hy1 hyN hYr (by omega) hey hre ha3
  -- a root of `tl` is never strictly inside the group `(j, z)`
  have houtside : ∀ r, 2 ≤ r → r ≤ N → g tl r < r → ¬ (j < r ∧ r < z) := by
    intro r h1 h2 h3 h4
    have := (hc.ct.down z (by omega) hzN hzr').1 r (by rw [tlg_ge2 tl z hz2]; omega) h4.2
    rw [tlg_ge2 tl r h1] at this
    omega
  have hc' : MCore N sz Kf tl c (upd h2 Y (j - 1)) := by
    refine ⟨hc.st, hc.sc, by simp [hsz2, hss], hc.hsz, hc.ct, hch', hc.d1, hc.cN, ?_, ?_, ?_, ?_⟩
    · intro r h1 h2 h3
      have hr1 := hc.root_ge_one r h1 h2 h3
      rcases hc.l1 r h1 h2 h3 with h4 | h4
      · exact Or.inl h4
      · by_cases h5 : g tl r = 1
        · exact Or.inl h5
        · right
          rw [hroots' (g tl r - 1) (by omega) (by omega)]
          refine ⟨h4, fun h6 => ?_⟩
          -- `g tl r` is a root of `tl` strictly inside `(j, z)`
          have hd := (hc.ct.down r (by omega) h2 (by rw [tlg_ge2 tl r h1]; exact h3)).2
          rw [tlg_ge2 tl r h1] at hd
          rcases hd with h7 | h7
          · omega
          · rw [tlg_ge2 tl (g tl r) (by omega)] at h7
            exact houtside (g tl r) (by omega) (by omega) h7 ⟨by omega, by omega⟩
    · intro r h1 h2 h3 h4
      rw [hroots' (r - 1) (by omega) (by omega)]
      exact ⟨hc.l2 r h1 h2 h3 h4, fun h6 => houtside r h1 h2 h3 ⟨by omega, by omega⟩⟩
    · intro k h1 h2 h3
      exact hc.i5 k h1 h2 ((hroots' k h1 (by omega)).1 h3).1
    · intro r h1 h2 h3 h4 k hk1 hk2 hk3
      have h5 := hc.i6 r h1 h2 h3 h4 k hk1 hk2 hk3
      rw [ha3 k (by omega), if_neg (by intro h; subst h; omega), if_neg (fun h => by omega)]
      exact h5
  obtain ⟨tl', he, hc'', hp'', hr3, hv3⟩ := lminFin_rel hc' hp x z hx1 hxz hzN hzr hall new_mins w
  exact ⟨tl', _, he, hc'', hp'', hr3, hv3, hroots'⟩

/-! ### the test "an unstable set is discovered" -/

theorem lminUnstable_rel {N : Int} {sz : Nat} {bounds : Array Int} {l : PSum} {fv m : Int}
    {tl c sets pot stbl : Array Int} (hb : BC bounds N fv m) (hl : PS l fv m)
    (hc : MCore N sz (K l fv bounds) tl c sets) (hp : MPot N sz tl pot stbl)
    (new_mins : Array Int) (w x y j z : Int) (hx1 : 1 ≤ x) (hy1 : 1 ≤ y) (hyN : y < N)
    (hxz : x + 1 ≤ z) (hzN : z ≤ N) (hzr : g tl z < z) (hj : g tl z = j)
    (hall : ∀ k, x + 1 ≤ k → k < z → g tl k > k) :
    ∃ tl' sets', lminUnstable bounds l x y j pot c stbl tl z sets new_mins w =
        .ok (.yield (tl', c, sets', stbl, pot, new_mins, w)) ∧
      MCore N sz (K l fv bounds) tl' c sets' ∧ MPot N sz tl' pot stbl ∧
      (∀ k, 1 ≤ k → k ≤ N → (tlg tl' k < k ↔ tlg tl k < k)) ∧
      (∀ k, 1 ≤ k → k ≤ N → tlg tl k < k → tlg tl' k = tlg tl k) ∧
      (Mk (K l fv bounds) (dfc (K l fv bounds) c) y z → g sets (z - 1) < z - 1) ∧
      (∀ k, 1 ≤ k → k ≤ N → (g sets' k < k ↔
        (g sets k < k ∧ ¬ (Mk (K l fv bounds) (dfc (K l fv bounds) c) y z ∧
          j - 1 < k ∧ k < z - 1)))) := by
  have hbsz := hb.hsz
  have hNsz := hc.hsz
  have hsc := hc.sc
  have hss := hc.ss
  have hz2 : 2 ≤ z := by omega
  have hd1 := hc.d1 z hz2 hzN hzr
  have hiff := lmin_test_eq_iff hb hl c y z hy1 hyN hz2 hzN hd1.1
  unfold lminUnstable
  rw [rd_ok c z (by omega) (by omega), ok_bind, rd_ok bounds y (by omega) (by omega), ok_bind,
    rd_ok bounds z (by omega) (by omega), ok_bind,
    get_sum_bounds_ok hl hb y z (by omega) hyN (by omega) hzN, ok_bind]
  by_cases heq : g c z = gsum l (g bounds y) (g bounds z - 1)
  · have hcond : (g c z == gsum l (g bounds y) (g bounds z - 1)) = true := by simpa using heq
    rw [if_pos hcond]
    have hmk := hiff.1 heq
    -- the capacity of `z` is untouched and `y` lies in the zero-capacity stretch below `z`
    have hyz : y < z := hmk.1
    have hgK := gsum_K hl hb y z (by omega) hyz hzN
    have hKm := K_mono hl hb y (z - 1) (by omega) (by omega) (by omega)
    have hKy : K l fv bounds y = K l fv bounds (z - 1) := by omega
    have hfresh : g c z = K l fv bounds z - K l fv bounds (z - 1) := by omega
    have hroot := hc.l2 z hz2 hzN hzr hfresh
    rw [rd_ok sets y (by omega) (by omega), ok_bind]
    have hfin : ∀ Y, Y = z - 1 →
        ∃ tl' sets', lminMark x j pot tl c stbl new_mins w z sets Y =
            .ok (.yield (tl', c, sets', stbl, pot, new_mins, w)) ∧
          MCore N sz (K l fv bounds) tl' c sets' ∧ MPot N sz tl' pot stbl ∧
          (∀ k, 1 ≤ k → k ≤ N → (tlg tl' k < k ↔ tlg tl k < k)) ∧
          (∀ k, 1 ≤ k → k ≤ N → tlg tl k < k → tlg tl' k = tlg tl k) ∧
          (Mk (K l fv bounds) (dfc (K l fv bounds) c) y z → g sets (z - 1) < z - 1) ∧
          (∀ k, 1 ≤ k → k ≤ N → (g sets' k < k ↔
            (g sets k < k ∧ ¬ (Mk (K l fv bounds) (dfc (K l fv bounds) c) y z ∧
              j - 1 < k ∧ k < z - 1)))) := by
      intro Y hY
      obtain ⟨tl', sets', he, hc', hp', hr3, hv3, hrs⟩ :=
        lminMark_rel hc hp new_mins w x j z Y hx1 hxz hzN hzr hj hall hY (by rw [hY]; exact hroot)
      refine ⟨tl', sets', he, hc', hp', hr3, hv3, fun _ => hroot, ?_⟩
      intro k h1 h2
      rw [hrs k h1 h2, hY]
      constructor
      · rintro ⟨h3, h4⟩; exact ⟨h3, fun h5 => h4 h5.2⟩
      · rintro ⟨h3, h4⟩; exact ⟨h3, fun h5 => h4 ⟨hmk, h5⟩⟩
    by_cases hsy : g sets y > y
    · rw [if_pos hsy, ok_bind]
      have hY : g sets y = z - 1 := by
        by_cases h2 : y < z - 1
        · exact hc.i6 z hz2 hzN hzr hfresh y hy1 h2 hKy
        · have h3 : y = z - 1 := by omega
          rw [← h3] at hroot; omega
      exact hfin (g sets y) hY
    · rw [if_neg hsy]
      have hY : y = z - 1 := by
        by_cases h2 : y < z - 1
        · have := hc.i6 z hz2 hzN hzr hfresh y hy1 h2 hKy; omega
        · omega
      exact hfin y hY
  · have hcond : ¬ (g c z == gsum l (g bounds y) (g bounds z - 1)) = true := by simpa using heq
    rw [if_neg hcond]
    have hnmk : ¬ Mk (K l fv bounds) (dfc (K l fv bounds) c) y z := fun h => heq (hiff.2 h)
    obtain ⟨tl', he, hc', hp', hr3, hv3⟩ := lminFin_rel hc hp x z hx1 hxz hzN hzr hall new_mins w
    refine ⟨tl', _, he, hc', hp', hr3, hv3, fun h => absurd h hnmk, ?_⟩
    intro k _ _
    constructor
    · intro h3; exact ⟨h3, fun h5 => hnmk h5.1⟩
    · intro h3; exact h3.1

/-! ### recording the candidate new minimum -/

theorem lminNewMin_rel {N : Int} {sz : Nat} {bounds : Array Int} {l : PSum} {fv m : Int}
    {tl c sets pot stbl : Array Int} (hb : BC bounds N fv m) (hl : PS l fv m)
    (hc : MCore N sz (K l fv bounds) tl c sets) (hp : MPot N sz tl pot stbl)
    (new_mins : Array Int) (hnm : NMOk N new_mins) (i x y j z w : Int)
    (hi0 : 0 ≤ i) (hi1 : i < new_mins.size) (hx1 : 1 ≤ x) (hxy : x < y) (hyN : y < N)
    (hxz : x + 1 ≤ z) (hzN : z ≤ N) (hzr : g tl z < z) (hj : g tl z = j)
    (hall : ∀ k, x + 1 ≤ k → k < z → g tl k > k) :
    ∃ tl' sets' nm' w' wn, lminNewMin bounds l i x y j pot c stbl sets new_mins w tl z =
        .ok (.yield (tl', c, sets', stbl, pot, nm', w')) ∧
      MCore N sz (K l fv bounds) tl' c sets' ∧ MPot N sz tl' pot stbl ∧ NMOk N nm' ∧
      nm'.size = new_mins.size ∧
      (∀ k, 1 ≤ k → k ≤ N → (tlg tl' k < k ↔ tlg tl k < k)) ∧
      (∀ k, 1 ≤ k → k ≤ N → tlg tl k < k → tlg tl' k = tlg tl k) ∧
      x ≤ wn ∧ wn ≤ N ∧ g sets wn < wn ∧ (∀ k, x ≤ k → k < wn → g sets k > k) ∧
      nm' = upd new_mins i wn ∧
      (Mk (K l fv bounds) (dfc (K l fv bounds) c) y z → g sets (z - 1) < z - 1) ∧
      (∀ k, 1 ≤ k → k ≤ N → (g sets' k < k ↔
        (g sets k < k ∧ ¬ (Mk (K l fv bounds) (dfc (K l fv bounds) c) y z ∧
          j - 1 < k ∧ k < z - 1)))) := by
  have hNsz := hc.hsz
  have hss := hc.ss
  unfold lminNewMin
  rw [rd_ok sets x (by omega) (by omega), ok_bind]
  by_cases hhx : g sets x > x
  · rw [if_pos hhx]
    obtain ⟨w1, hpm, hw1, hw2, hw3, hw4⟩ := path_max_spec sets 1 N x (by omega) (by omega)
      (fun k h1 h2 => (hc.cs.rng k h1 h2).2.1) (fun k h1 h2 h3 => hc.cs.up k h1 h2 h3)
      hx1 (by omega)
    have hwr : g sets w1 < w1 := by have := hc.cs.rng w1 (by omega) hw2; omega
    have huph : ∀ p, x ≤ p → p < w1 → p < g sets p ∧ g sets p ≤ w1 := by
      intro p h1 h2
      have := hw4 p h1 h2
      exact ⟨this, hc.cs.up_le_root (by omega) h2 hw2 this hwr⟩
    rw [hpm, ok_bind, wr_ok new_mins i w1 hi0 hi1, ok_bind]
    obtain ⟨s3, hps', hszs3, hrels3⟩ := path_set_up_compress sets x w1 w1 (by omega) hw1
      (by omega) huph
    obtain ⟨hcs3, hrootss3, _⟩ := hc.cs.compress hw2 hw4 hrels3
    rw [hps', ok_bind]
    have hc3 : MCore N sz (K l fv bounds) tl c s3 := by
      refine hc.replace_sets (by omega) hcs3 hrootss3 ?_
      intro k r hk1 hkr hrN hkv hrr
      rcases hrels3 k (by omega) with h | ⟨h1, h2, h3⟩
      · rw [h]; exact hkv
      · -- the rewritten node `k` pointed at the root `r`, which is the first root above `x`
        have h4 := hc.cs.up_le_root hk1 h2 hw2 (by omega) hwr
        have h5 : ¬ r < w1 := fun h6 => by have := hw4 r (by omega) h6; omega
        omega
    obtain ⟨tl', sets', he, hc', hp', hr3, hv3, hmy, hrs⟩ :=
      lminUnstable_rel hb hl hc3 hp (upd new_mins i w1) w1 x y j z
        hx1 (by omega) hyN hxz hzN hzr hj hall
    refine ⟨tl', sets', _, _, w1, he, hc', hp', NMOk_upd hnm i w1 hi0 hi1 (by omega) hw2, by simp,
      hr3, hv3, hw1, hw2, hwr, hw4, rfl, ?_, ?_⟩
    · intro hm
      exact (hrootss3 (z - 1) (by omega) (by omega)).1 (hmy hm)
    · intro k h1 h2
      rw [hrs k h1 h2, hrootss3 k h1 h2]
  · rw [if_neg hhx, wr_ok new_mins i x hi0 hi1, ok_bind]
    obtain ⟨tl', sets', he, hc', hp', hr3, hv3, hmy, hrs⟩ :=
      lminUnstable_rel hb hl hc hp (upd new_mins i x) w x y j z
        hx1 (by omega) hyN hxz hzN hzr hj hall
    have hrx := hc.cs.rng x hx1 (by omega)
    exact ⟨tl', sets', _, _, x, he, hc', hp', NMOk_upd hnm i x hi0 hi1 (by omega) (by omega),
      by simp, hr3, hv3, Int.le_refl _, by omega, by omega, fun k h1 h2 => by omega, rfl, hmy, hrs⟩

/-! ### the capacity of `z` is decreased -/

theorem dfc_upd (Kf : Int → Int) (c : Array Int) (z v : Int) (hz2 : 2 ≤ z) (hz : z < c.size) :
    dfc Kf (upd c z v) z = v ∧ ∀ k, 1 ≤ k → k ≠ z → dfc Kf (upd c z v) k = dfc Kf c k := by
  refine ⟨?_, ?_⟩
  · rw [dfc_ge2 _ _ z hz2]; exact g_upd_same c z v (by omega) hz
  · intro k h1 h2
    by_cases hk : k ≤ 1
    · rw [dfc_le1 _ _ k hk, dfc_le1 _ _ k hk]
    · rw [dfc_ge2 _ _ k (by omega), dfc_ge2 _ _ k (by omega)]
      exact g_upd_ne c z v k (by omega) hz (by omega) h2

/-- the `else` branch of the main test satisfies `ERel` (`z` = the root of the group of `x + 1`,
    `z'` = the root after the possible merge, `wn` = the candidate new minimum) -/
theorem lminElse_rel {N : Int} {sz : Nat} {bounds : Array Int} {l : PSum} {fv m : Int}
    {tl c sets pot stbl : Array Int} (hb : BC bounds N fv m) (hl : PS l fv m)
    (hc : MCore N sz (K l fv bounds) tl c sets) (hp : MPot N sz tl pot stbl)
    (new_mins : Array Int) (hnm : NMOk N new_mins) (i x y z j w : Int)
    (hi0 : 0 ≤ i) (hi1 : i < new_mins.size) (hx1 : 1 ≤ x) (hxy : x < y) (hyN : y < N)
    (hxz : x + 1 ≤ z) (hzN : z ≤ N) (hzr : g tl z < z) (hj : j = g tl z)
    (hall : ∀ k, x + 1 ≤ k → k < z → g tl k > k)
    (hgt : ¬ g c z ≤ gsum l (g bounds y) (g bounds z - 1)) :
    ∃ tl' c' sets' nm' w' z' wn, lminElse bounds l i x y j z pot tl c sets stbl new_mins w =
        .ok (.yield (tl', c', sets', stbl, pot, nm', w')) ∧
      MCore N sz (K l fv bounds) tl' c' sets' ∧ MPot N sz tl' pot stbl ∧ NMOk N nm' ∧
      nm'.size = new_mins.size ∧
      ERel N (K l fv bounds) x y (tlg tl) (dfc (K l fv bounds) c) (g sets)
        (tlg tl') (dfc (K l fv bounds) c') (g sets') z z' wn ∧
      nm' = AllDiff.upd new_mins i wn := by
  subst hj
  have hNsz := hc.hsz
  have hst := hc.st
  have hsc := hc.sc
  have hz2 : 2 ≤ z := by omega
  -- the top sentinel is never reached here
  have hzN' : z < N := by
    by_cases h : z = N
    · subst h
      have h1 := gsum_K hl hb y z (by omega) hyN (Int.le_refl _)
      have h2 := K_mono hl hb y (z - 1) (by omega) (by omega) (by omega)
      have h3 := hc.cN
      omega
    · omega
  have hd0 := hc.d1 z hz2 hzN hzr
  have hzr' : tlg tl z < z := by rw [tlg_ge2 tl z hz2]; exact hzr
  have hall' : ∀ k, x + 1 ≤ k → k < z → tlg tl k > k := by
    intro k h1 h2; rw [tlg_ge2 tl k (by omega)]; exact hall k h1 h2
  have hmke : tlg tl z = 1 ∨ g sets (tlg tl z - 1) < tlg tl z - 1 := by
    rw [tlg_ge2 tl z hz2]; exact hc.l1 z hz2 hzN hzr
  obtain ⟨hdfz, hdfo⟩ := dfc_upd (K l fv bounds) c z (g c z - 1) hz2 (by omega)
  have hdz0 : dfc (K l fv bounds) (upd c z (g c z - 1)) z = dfc (K l fv bounds) c z - 1 := by
    rw [hdfz, dfc_ge2 _ c z hz2]
  unfold lminElse
  rw [rd_ok c z (by omega) (by omega), ok_bind, wr_ok c z _ (by omega) (by omega), ok_bind,
    rd_ok (upd c z (g c z - 1)) z (by omega) (by simp; omega), ok_bind,
    g_upd_same c z _ (by omega) (by omega)]
  have hd' : ∀ k, 0 ≤ k → k ≠ z → g (upd c z (g c z - 1)) k = g c k :=
    fun k h1 h2 => g_upd_ne c z _ k (by omega) (by omega) h1 h2
  have hd'z : g (upd c z (g c z - 1)) z = g c z - 1 := g_upd_same c z _ (by omega) (by omega)
  by_cases hm : g c z - 1 = 0
  · have hcond : (g c z - 1 == 0) = true := by simpa using hm
    rw [if_pos hcond]
    rw [wr_ok tl z (z + 1) (by omega) (by omega), ok_bind,
      rd_ok (upd tl z (z + 1)) z (by omega) (by simp; omega), ok_bind,
      g_upd_same tl z _ (by omega) (by omega)]
    have ht1 : ∀ k, 2 ≤ k → g (upd tl z (z + 1)) k = if k = z then z + 1 else tlg tl k := by
      intro k hk
      rw [g_upd tl z _ k (by omega) (by omega) (by omega), tlg_ge2 tl k hk]
    obtain ⟨z1, hpm1, hy1', hy2', hy3', hy4'⟩ := path_max_spec (upd tl z (z + 1)) 2 N (z + 1)
      (by omega) (by simp; omega)
      (fun k h1 h2 => by
        rw [ht1 k h1]
        by_cases hk : k = z
        · simp [hk]; omega
        · simp only [hk, if_false]; exact (hc.ct.rng k (by omega) h2).2.1)
      (fun k h1 h2 h3 m hm1 hm2 => by
        rw [ht1 k h1] at h3 hm2
        rw [ht1 m (by omega)]
        by_cases hk : k = z
        · simp only [hk, if_true] at hm2; omega
        · simp only [hk, if_false] at h3 hm2
          by_cases hmz : m = z
          · simp only [hmz, if_true]; omega
          · simp only [hmz, if_false]; exact hc.ct.up k (by omega) h2 h3 m hm1 hm2)
      (by omega) (by omega)
    have hz1ne : z1 ≠ z := by omega
    have hz1r' : tlg tl z1 < z1 := by
      rw [ht1 z1 (by omega)] at hy3'
      simp only [hz1ne, if_false] at hy3'
      have := hc.ct.rng z1 (by omega) hy2'; omega
    have hbetween : ∀ k, z < k → k < z1 → tlg tl k > k := by
      intro k h1 h2
      have := hy4' k (by omega) h2
      rw [ht1 k (by omega)] at this
      simpa [show k ≠ z by omega] using this
    rw [hpm1, ok_bind, wr_ok (upd tl z (z + 1)) z1 (g tl z) (by omega) (by simp; omega), ok_bind]
    have ha2 : ∀ k, 0 ≤ k → tlg (upd (upd tl z (z + 1)) z1 (g tl z)) k =
        if k = z1 then tlg tl z else if k = z then z + 1 else tlg tl k := by
      intro k hk
      rw [tlg_upd _ z1 _ k (by omega) (by simp; omega) hk, tlg_ge2 tl z hz2]
      by_cases hk1 : k = z1
      · simp [hk1]
      · simp only [hk1, if_false]; exact tlg_upd tl z _ k hz2 (by omega) hk
    obtain ⟨hct2, hroots2, hoth2, hz1v⟩ :=
      hc.ct.merge (by omega) (by omega) hy2' hzr' hz1r' hbetween ha2
    -- the same facts on `g`
    have hroot2 : ∀ r, 2 ≤ r → r ≤ N → g (upd (upd tl z (z + 1)) z1 (g tl z)) r < r →
        g tl r < r ∧ r ≠ z := by
      intro r h1 h2 h3
      have := (hroots2 r (by omega) h2).1 (by rw [tlg_ge2 _ r h1]; exact h3)
      rw [tlg_ge2 tl r h1] at this
      exact this
    have hoth2' : ∀ r, 2 ≤ r → r ≠ z1 → r ≠ z →
        g (upd (upd tl z (z + 1)) z1 (g tl z)) r = g tl r := by
      intro r h1 h2 h3
      have := hoth2 r (by omega) h2 h3
      rw [tlg_ge2 _ r h1, tlg_ge2 tl r h1] at this
      exact this
    have hz1v' : g (upd (upd tl z (z + 1)) z1 (g tl z)) z1 = g tl z := by
      rw [tlg_ge2 _ z1 (by omega), tlg_ge2 tl z hz2] at hz1v
      exact hz1v
    have hc2 : MCore N sz (K l fv bounds) (upd (upd tl z (z + 1)) z1 (g tl z))
        (upd c z (g c z - 1)) sets := by
      refine ⟨by simp [hst], by simp [hsc], hc.ss, hNsz, hct2, hc.cs, ?_, ?_, ?_, ?_, hc.i5, ?_⟩
      · intro r h1 h2 h3
        have hr := hroot2 r h1 h2 h3
        rw [hd' r (by omega) hr.2]; exact hc.d1 r h1 h2 hr.1
      · rw [hd' N (by omega) (by omega)]; exact hc.cN
      · intro r h1 h2 h3
        have hr := hroot2 r h1 h2 h3
        by_cases hr1 : r = z1
        · subst hr1; rw [hz1v']; exact hc.l1 z hz2 hzN hzr
        · rw [hoth2' r h1 hr1 hr.2]; exact hc.l1 r h1 h2 hr.1
      · intro r h1 h2 h3 h4
        have hr := hroot2 r h1 h2 h3
        rw [hd' r (by omega) hr.2] at h4
        exact hc.l2 r h1 h2 hr.1 h4
      · intro r h1 h2 h3 h4
        have hr := hroot2 r h1 h2 h3
        rw [hd' r (by omega) hr.2] at h4
        exact hc.i6 r h1 h2 hr.1 h4
    have hp2 : MPot N sz (upd (upd tl z (z + 1)) z1 (g tl z)) pot stbl :=
      hp.replace_tl hct2 (fun k h1 h2 h3 => ((hroots2 k (by omega) (by omega)).1 h3).1)
    have hz1r2 : tlg (upd (upd tl z (z + 1)) z1 (g tl z)) z1 < z1 :=
      (hroots2 z1 (by omega) hy2').2 ⟨hz1r', hz1ne⟩
    obtain ⟨tl', sets', nm', w', wn, he, hc', hp', hnm', hs', hr3, hv3, hw1, hw2, hw3, hw4, hnme,
        hmy, hrs⟩ :=
      lminNewMin_rel hb hl hc2 hp2 new_mins hnm i x y (g tl z) z1 w hi0 hi1 hx1 hxy hyN
        (by omega) hy2'
        (by rw [tlg_ge2 _ z1 (by omega)] at hz1r2; exact hz1r2)
        hz1v'
        (fun k h1 h2 => by
          by_cases hk0 : k = z
          · subst hk0
            have := ha2 k (by omega)
            rw [tlg_ge2 _ k hz2] at this
            rw [this]; simp only [show k ≠ z1 by omega, if_false, if_true]; omega
          · rw [hoth2' k (by omega) (by omega) hk0]
            by_cases hk1 : k < z
            · exact hall k h1 hk1
            · have := hbetween k (by omega) h2
              rw [tlg_ge2 tl k (by omega)] at this
              exact this)
    refine ⟨tl', _, sets', nm', w', z1, wn, he, hc', hp', hnm', hs',
      ⟨⟨hxz, hzN, hzr', hall', hdz0, fun k h1 _ h3 => hdfo k h1 h3,
        Or.inl ⟨by rw [dfc_ge2 _ c z hz2]; exact hm, by omega, hy2', hz1r', hbetween, ?_, ?_, ?_⟩⟩,
        hw1, hw2, hw3, hw4, fun _ => hmke, hmy, ?_⟩, hnme⟩
    · intro k h1 h2; rw [hr3 k h1 h2, hroots2 k h1 h2]
    · rw [hv3 z1 (by omega) hy2' hz1r2]; exact hz1v
    · intro k h1 h2 h3 h4 h5
      have h6 : tlg (upd (upd tl z (z + 1)) z1 (g tl z)) k < k := (hroots2 k h1 h2).2 ⟨h3, h5⟩
      rw [hv3 k h1 h2 h6]; exact hoth2 k (by omega) h4 h5
    · rw [tlg_ge2 tl z hz2]; exact hrs
  · have hcond : ¬ (g c z - 1 == 0) = true := by simpa using hm
    rw [if_neg hcond]
    have hc2 : MCore N sz (K l fv bounds) tl (upd c z (g c z - 1)) sets := by
      refine ⟨hst, by simp [hsc], hc.ss, hNsz, hc.ct, hc.cs, ?_, ?_, hc.l1, ?_, hc.i5, ?_⟩
      · intro r h1 h2 h3
        by_cases hrz : r = z
        · subst hrz; rw [hd'z]; omega
        · rw [hd' r (by omega) hrz]; exact hc.d1 r h1 h2 h3
      · rw [hd' N (by omega) (by omega)]; exact hc.cN
      · intro r h1 h2 h3 h4
        by_cases hrz : r = z
        · subst hrz; rw [hd'z] at h4; omega
        · rw [hd' r (by omega) hrz] at h4; exact hc.l2 r h1 h2 h3 h4
      · intro r h1 h2 h3 h4
        by_cases hrz : r = z
        · subst hrz; rw [hd'z] at h4; omega
        · rw [hd' r (by omega) hrz] at h4; exact hc.i6 r h1 h2 h3 h4
    obtain ⟨tl', sets', nm', w', wn, he, hc', hp', hnm', hs', hr3, hv3, hw1, hw2, hw3, hw4, hnme,
        hmy, hrs⟩ :=
      lminNewMin_rel hb hl hc2 hp new_mins hnm i x y (g tl z) z w hi0 hi1 hx1 hxy hyN
        hxz hzN hzr rfl hall
    refine ⟨tl', _, sets', nm', w', z, wn, he, hc', hp', hnm', hs',
      ⟨⟨hxz, hzN, hzr', hall', hdz0, fun k h1 _ h3 => hdfo k h1 h3,
        Or.inr ⟨by rw [dfc_ge2 _ c z hz2]; exact hm, rfl, hr3, hv3⟩⟩,
        hw1, hw2, hw3, hw4, fun _ => hmke, hmy, ?_⟩, hnme⟩
    rw [tlg_ge2 tl z hz2]; exact hrs

end Gcc
end Nucs
