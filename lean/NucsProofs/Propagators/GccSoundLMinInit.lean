import NucsProofs.Propagators.PortGccLMinInit
/-!
  Semantic description of the arrays built by the two initialisation loops of
  `filter_lower_min` (ported gcc): besides the structural invariant (`MCore`, `MPot`, `MBelow`,
  as in `lminInit_spec`) the exact content of `c`, `sets`, `tl`, `pot_stbl_sets`, `stbl_intervals`
  in terms of the partial sums `K l fv bounds` is exported.
-/
namespace Nucs
namespace Gcc

open AllDiff (g)

/-- a weakly increasing `Kf` without root (strict increase) in `]v, z[` is constant on `[v, z[` -/
theorem flat_of_noRT {Kf : Int → Int} {v z : Int}
    (hm : ∀ k, v < k → k < z → Kf (k - 1) ≤ Kf k)
    (hn : ∀ k, v < k → k < z → ¬ RT Kf k) :
    ∀ n : Nat, v + n < z → Kf (v + n) = Kf v := by
  intro n
  induction n with
  | zero => intro _; simp
  | succ n ih =>
    intro h
    have h1 := ih (by omega)
    have h2 := hm (v + (n + 1 : Nat)) (by omega) h
    have h3 : ¬ Kf (v + (n + 1 : Nat) - 1) < Kf (v + (n + 1 : Nat)) :=
      hn (v + (n + 1 : Nat)) (by omega) h
    have e : v + ((n + 1 : Nat) : Int) - 1 = v + (n : Int) := by omega
    rw [e] at h2 h3
    omega

/-- what a root `z` of `tl` says, from the description `CD (RT Kf)` -/
theorem tl_sem {Kf : Int → Int} {N : Int} {c tl : Array Int} (hK1 : RT Kf 1)
    (hKm : ∀ k, 1 ≤ k → k ≤ N → Kf (k - 1) ≤ Kf k)
    (hc : ∀ k, 1 ≤ k → k ≤ N → g c k = Kf k - Kf (k - 1))
    (hT : ∀ k, 2 ≤ k → k ≤ N → CD (RT Kf) N k (g tl k))
    (z : Int) (hz2 : 2 ≤ z) (hzN : z ≤ N) (hlt : g tl z < z) :
    1 ≤ g tl z ∧ g c z = Kf z - Kf (g tl z) ∧
      ∀ k, g tl z ≤ k → k < z → Kf k = Kf (g tl z) := by
  have hd := hT z hz2 hzN
  have hr : RT Kf z := by
    apply Classical.byContradiction
    intro hn
    have := (hd.2 hn).1
    omega
  obtain ⟨d1, d2, d3, d4⟩ := hd.1 hr
  have hv1 : 1 ≤ g tl z := by
    apply Classical.byContradiction
    intro hn
    exact d4 1 (by omega) (by omega) hK1
  have hflat := flat_of_noRT (Kf := Kf) (v := g tl z) (z := z)
    (fun k h1 h2 => hKm k (by omega) (by omega)) d4
  have hk : ∀ k, g tl z ≤ k → k < z → Kf k = Kf (g tl z) := by
    intro k h1 h2
    have := hflat (k - g tl z).toNat (by omega)
    have e : g tl z + ((k - g tl z).toNat : Int) = k := by omega
    rw [e] at this
    exact this
  refine ⟨hv1, ?_, hk⟩
  rw [hc z (by omega) hzN, hk (z - 1) (by omega) (by omega)]

/-- what the direction of a pointer of `sets` says, from the description `CD (RS Kf N)` -/
theorem sets_sem {Kf : Int → Int} {N : Int} {sets : Array Int}
    (hKm : ∀ k, 1 ≤ k → k ≤ N → Kf (k - 1) ≤ Kf k)
    (hS : ∀ k, 1 ≤ k → k ≤ N → CD (RS Kf N) N k (g sets k))
    (m' : Int) (h1 : 1 ≤ m') (h2 : m' < N) :
    g sets m' > m' ↔ Kf (m' + 1) = Kf m' := by
  have hd := hS m' h1 (by omega)
  have hm := hKm (m' + 1) (by omega) (by omega)
  have e : m' + 1 - 1 = m' := by omega
  rw [e] at hm
  constructor
  · intro hgt
    have hn : ¬ RS Kf N m' := by
      intro hr
      have := (hd.1 hr).1
      omega
    have : ¬ Kf m' < Kf (m' + 1) := fun h => hn (Or.inr h)
    omega
  · intro he
    have hn : ¬ RS Kf N m' := by
      rintro (hr | hr)
      · omega
      · omega
    have := (hd.2 hn).1
    omega

theorem lminInit_sem {N : Int} {sz : Nat} {bounds : Array Int} {l : PSum} {fv m : Int}
    (hb : BC bounds N fv m) (hl : PS l fv m) (tl c sets stbl pot : Array Int)
    (hst : tl.size = sz) (hsc : c.size = sz) (hss : sets.size = sz) (hsb : stbl.size = sz)
    (hsp : pot.size = sz) (hNsz : N < sz) :
    ∃ (s1 : I1St) (s2 : Array Int × Int),
      forIn (rangeDown N 0) ((c, sets, stbl, pot, N) : I1St) (lminInit1 bounds l) = .ok s1 ∧
      forIn (rangeDown N (-1)) (tl, N) (lminInit2 s1.1) = .ok s2 ∧
      MCore N sz (K l fv bounds) s2.1 s1.1 s1.2.1 ∧ MPot N sz s2.1 s1.2.2.2.1 s1.2.2.1 ∧
      (∀ Y, MBelow N s1.2.2.2.1 Y ∧ MBelow N s1.2.2.1 Y) ∧
      (∀ z, 2 ≤ z → z ≤ N → g s2.1 z < z →
        1 ≤ g s2.1 z ∧ g s1.1 z = K l fv bounds z - K l fv bounds (g s2.1 z) ∧
        ∀ k, g s2.1 z ≤ k → k < z → K l fv bounds k = K l fv bounds (g s2.1 z)) ∧
      (∀ m', 1 ≤ m' → m' < N → (g s1.2.1 m' > m' ↔ K l fv bounds (m' + 1) = K l fv bounds m')) ∧
      (∀ r, 1 ≤ r → r ≤ N → g s1.2.2.2.1 r = r - 1) ∧
      (∀ r, 1 ≤ r → r ≤ N → g s1.2.2.1 r = r - 1) := by
  have hN := hb.hN
  have hK1 : RT (K l fv bounds) 1 := by
    have := K_bot hl hb
    show K l fv bounds (1 - 1) < K l fv bounds 1
    have e : (1 : Int) - 1 = 0 := by omega
    rw [e]; omega
  have hKN : RT (K l fv bounds) N := by
    have := K_top hl hb
    show K l fv bounds (N - 1) < K l fv bounds N
    omega
  have hKm : ∀ k, 1 ≤ k → k ≤ N → K l fv bounds (k - 1) ≤ K l fv bounds k :=
    fun k h1 h2 => K_mono hl hb (k - 1) k (by omega) (by omega) h2
  obtain ⟨s1, he1, z1, z2, z3, z4, hv, hS⟩ :=
    lminInit1_spec hb hl c sets stbl pot hsc hss hsb hsp hNsz
  have hc : ∀ k, 1 ≤ k → k ≤ N → g s1.1 k = K l fv bounds k - K l fv bounds (k - 1) :=
    fun k h1 h2 => (hv k h1 h2).1
  obtain ⟨s2, he2, y1, hT⟩ := lminInit2_spec hN s1.1 tl z1 hst hNsz hK1 hKN hKm hc
  have hp := mpot_of_desc (tl := s2.1) hN z4 z3 (fun k h1 h2 => (hv k h1 h2).2.1)
    (fun k h1 h2 => (hv k h1 h2).2.2)
  exact ⟨s1, s2, he1, he2,
    mcore_of_desc hN y1 z1 z2 hNsz hK1 hKN (fun a b h0 hab hbN => K_mono hl hb a b h0 hab hbN)
      hc hS hT, hp.1, hp.2,
    fun z h1 h2 h3 => tl_sem hK1 hKm hc hT z h1 h2 h3,
    fun m' h1 h2 => sets_sem hKm hS m' h1 h2,
    fun r h1 h2 => (hv r h1 h2).2.1, fun r h1 h2 => (hv r h1 h2).2.2⟩

end Gcc
end Nucs
