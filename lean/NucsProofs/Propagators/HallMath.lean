import NucsProofs.Propagators.HallSpec
/-!
  Hall's theorem for interval domains and the Hall-interval characterisation of bound consistency
  for `alldifferent` (Puget 1998; López-Ortiz, Quimper, Tromp, van Beek 2003).

  * `hall_matching`      : `HallOK B` (and non-empty domains) gives a tuple of pairwise distinct values
                           in the box (Hall's theorem for convex bipartite graphs)
  * `supported_of_hall`  : `HallOK B ∧ HallPruned B` implies that every bound has a support
  * `hall_of_supported`  : the converse, so the characterisation is exact

  Pure combinatorics: nothing here mentions the algorithm.
-/
namespace Nucs

/-! ### counting -/

theorem insideCount_eq_countP (B : Box) (a b : Int) :
    insideCount B a b = B.countP (fun d => d.within a b) := by
  simp [insideCount, List.countP_eq_length_filter]

theorem Dom.within_iff (d : Dom) (a b : Int) : d.within a b = true ↔ a ≤ d.1 ∧ d.2 ≤ b := by
  simp [Dom.within]

theorem insideCount_perm {B B' : Box} (h : B.Perm B') (a b : Int) :
    insideCount B a b = insideCount B' a b := by
  simp only [insideCount_eq_countP]; exact h.countP_eq _

theorem HallOK.perm {B B' : Box} (h : B.Perm B') (hB : HallOK B) : HallOK B' := by
  intro a b hab
  rw [← insideCount_perm h]; exact hB a b hab

theorem insideCount_cons (d : Dom) (B : Box) (a b : Int) :
    insideCount (d :: B) a b = insideCount B a b + if d.within a b = true then 1 else 0 := by
  simp only [insideCount_eq_countP, List.countP_cons]

/-! ### tuples in permuted boxes -/

theorem inBox_perm {B B' : Box} (h : B.Perm B') :
    ∀ t, inBox t B → ∃ t', t'.Perm t ∧ inBox t' B' := by
  induction h with
  | nil => intro t ht; exact ⟨t, List.Perm.refl _, ht⟩
  | cons x _ ih =>
    intro t ht
    cases t with
    | nil => simp [inBox] at ht
    | cons v t0 =>
      obtain ⟨t0', hp, hin⟩ := ih t0 ht.2
      exact ⟨v :: t0', hp.cons v, ht.1, hin⟩
  | swap x y l =>
    intro t ht
    match t, ht with
    | v :: w :: t0, ht =>
      exact ⟨w :: v :: t0, List.Perm.swap _ _ _, ht.2.1, ht.1, ht.2.2⟩
  | trans _ _ ih1 ih2 =>
    intro t ht
    obtain ⟨t1, hp1, h1⟩ := ih1 t ht
    obtain ⟨t2, hp2, h2⟩ := ih2 t1 h1
    exact ⟨t2, hp2.trans hp1, h2⟩

/-- the existence of a matching does not depend on the order of the domains -/
theorem matching_perm {B B' : Box} (h : B.Perm B') (hm : ∃ t, inBox t B ∧ t.Nodup) :
    ∃ t, inBox t B' ∧ t.Nodup := by
  obtain ⟨t, ht, hnd⟩ := hm
  obtain ⟨t', hp, hin⟩ := inBox_perm h t ht
  exact ⟨t', hin, hp.nodup_iff.mpr hnd⟩

/-! ### the lexicographically least domain -/

theorem exists_lexmin : ∀ (B : Box), B ≠ [] →
    ∃ c ∈ B, ∀ d ∈ B, c.1 < d.1 ∨ (c.1 = d.1 ∧ c.2 ≤ d.2)
  | [], h => absurd rfl h
  | [d], _ => ⟨d, by simp, by intro e he; simp at he; subst he; omega⟩
  | d :: e :: B, _ => by
    obtain ⟨c, hc, hmin⟩ := exists_lexmin (e :: B) (by simp)
    by_cases hdc : d.1 < c.1 ∨ (d.1 = c.1 ∧ d.2 ≤ c.2)
    · refine ⟨d, by simp, ?_⟩
      intro x hx
      rcases List.mem_cons.mp hx with rfl | hx
      · omega
      · have := hmin x hx; omega
    · refine ⟨c, List.mem_cons_of_mem _ hc, ?_⟩
      intro x hx
      rcases List.mem_cons.mp hx with rfl | hx
      · omega
      · exact hmin x hx

/-! ### raising the lower bounds -/

/-- raise the lower bound of `d` to at least `m + 1` -/
def Dom.raise (m : Int) (d : Dom) : Dom := (max d.1 (m + 1), d.2)

theorem inBox_of_raise (m : Int) : ∀ {t : List Int} {L : Box},
    inBox t (L.map (Dom.raise m)) → inBox t L ∧ ∀ v ∈ t, m + 1 ≤ v
  | [], [], _ => ⟨trivial, by simp⟩
  | [], _ :: _, h => by simp [inBox] at h
  | _ :: _, [], h => by simp [inBox] at h
  | v :: t, d :: L, h => by
    simp only [List.map_cons, inBox] at h
    obtain ⟨hin, hall⟩ := inBox_of_raise m h.2
    have h1 := h.1
    simp only [inDom, Dom.raise] at h1
    refine ⟨⟨⟨by omega, h1.2⟩, hin⟩, ?_⟩
    intro w hw
    rcases List.mem_cons.mp hw with rfl | hw
    · omega
    · exact hall w hw

/-! ### the inductive step -/

theorem insideCount_erase {B : Box} {c : Dom} (hc : c ∈ B) (a b : Int) :
    insideCount B a b = insideCount (B.erase c) a b + if c.within a b = true then 1 else 0 := by
  rw [insideCount_perm (List.perm_cons_erase hc), insideCount_cons]

theorem insideCount_erase_le (B : Box) (c : Dom) (a b : Int) :
    insideCount (B.erase c) a b ≤ insideCount B a b := by
  simp only [insideCount_eq_countP]
  exact (List.erase_sublist).countP_le

theorem step_nonempty (B : Box) (c : Dom) (hc : c ∈ B)
    (hmin : ∀ d ∈ B, c.1 < d.1 ∨ (c.1 = d.1 ∧ c.2 ≤ d.2))
    (hne : B.Nonempty) (h : HallOK B) :
    Box.Nonempty ((B.erase c).map (Dom.raise c.1)) := by
  intro d' hd'
  obtain ⟨d, hd, rfl⟩ := List.mem_map.mp hd'
  have hdB : d ∈ B := List.mem_of_mem_erase hd
  have h1 := hmin d hdB
  have h2 := hne d hdB
  have h3 := hne c hc
  simp only [Dom.raise]
  by_cases hlt : c.1 + 1 ≤ d.2
  · omega
  · exfalso
    have hH := h c.1 c.1 (Int.le_refl _)
    rw [insideCount_erase hc, insideCount_erase hd] at hH
    have w1 : c.within c.1 c.1 = true := by rw [Dom.within_iff]; omega
    have w2 : d.within c.1 c.1 = true := by rw [Dom.within_iff]; omega
    simp only [w1, w2, if_true] at hH
    omega

theorem step_hallOK (B : Box) (c : Dom) (hc : c ∈ B)
    (hmin : ∀ d ∈ B, c.1 < d.1 ∨ (c.1 = d.1 ∧ c.2 ≤ d.2))
    (hne : B.Nonempty) (h : HallOK B) :
    HallOK ((B.erase c).map (Dom.raise c.1)) := by
  intro a b hab
  have hE : ∀ d ∈ B.erase c, (c.1 < d.1 ∨ (c.1 = d.1 ∧ c.2 ≤ d.2)) ∧ d.1 ≤ d.2 := fun d hd =>
    ⟨hmin d (List.mem_of_mem_erase hd), hne d (List.mem_of_mem_erase hd)⟩
  have h3 := hne c hc
  rw [insideCount_eq_countP, List.countP_map]
  by_cases ha : c.1 + 1 < a
  · -- nothing changed above `m + 1`
    have hle : (B.erase c).countP ((fun d => d.within a b) ∘ Dom.raise c.1) ≤
        insideCount (B.erase c) a b := by
      rw [insideCount_eq_countP]
      apply List.countP_mono_left
      intro d _ hw
      simp only [Function.comp, Dom.within_iff, Dom.raise] at hw ⊢
      omega
    have := insideCount_erase_le B c a b
    have := h a b hab
    omega
  · by_cases hcb : c.2 ≤ b
    · have hle : (B.erase c).countP ((fun d => d.within a b) ∘ Dom.raise c.1) ≤
          insideCount (B.erase c) c.1 b := by
        rw [insideCount_eq_countP]
        apply List.countP_mono_left
        intro d hd hw
        have := hE d hd
        simp only [Function.comp, Dom.within_iff, Dom.raise] at hw ⊢
        omega
      have hH := h c.1 b (by omega)
      rw [insideCount_erase hc] at hH
      have w1 : c.within c.1 b = true := by rw [Dom.within_iff]; omega
      simp only [w1, if_true] at hH
      omega
    · by_cases hb : c.1 + 1 ≤ b
      · have hle : (B.erase c).countP ((fun d => d.within a b) ∘ Dom.raise c.1) ≤
            insideCount (B.erase c) (c.1 + 1) b := by
          rw [insideCount_eq_countP]
          apply List.countP_mono_left
          intro d hd hw
          have := hE d hd
          simp only [Function.comp, Dom.within_iff, Dom.raise] at hw ⊢
          omega
        have := insideCount_erase_le B c (c.1 + 1) b
        have := h (c.1 + 1) b hb
        omega
      · have hle : (B.erase c).countP ((fun d => d.within a b) ∘ Dom.raise c.1) ≤
            (B.erase c).countP (fun _ => false) := by
          apply List.countP_mono_left
          intro d hd hw
          have := hE d hd
          simp only [Function.comp, Dom.within_iff, Dom.raise] at hw
          omega
        simp only [List.countP_false, Function.const] at hle
        omega

/-! ### Hall's theorem for interval domains -/

theorem hall_matching_aux : ∀ (n : Nat) (B : Box), B.length = n → B.Nonempty → HallOK B →
    ∃ t, inBox t B ∧ t.Nodup
  | 0, B, hlen, _, _ => by
    have : B = [] := List.eq_nil_of_length_eq_zero hlen
    subst this
    exact ⟨[], trivial, List.nodup_nil⟩
  | n + 1, B, hlen, hne, h => by
    have hB : B ≠ [] := by intro h0; subst h0; simp at hlen
    obtain ⟨c, hc, hmin⟩ := exists_lexmin B hB
    have hlen1 : ((B.erase c).map (Dom.raise c.1)).length = n := by
      rw [List.length_map, List.length_erase_of_mem hc]; omega
    obtain ⟨t1, ht1, hnd1⟩ := hall_matching_aux n _ hlen1
      (step_nonempty B c hc hmin hne h) (step_hallOK B c hc hmin hne h)
    obtain ⟨hin, hge⟩ := inBox_of_raise c.1 ht1
    apply matching_perm (List.perm_cons_erase hc).symm
    refine ⟨c.1 :: t1, ⟨⟨Int.le_refl _, hne c hc⟩, hin⟩, ?_⟩
    rw [List.nodup_cons]
    refine ⟨?_, hnd1⟩
    intro hmem
    have := hge _ hmem
    omega

/-- **Hall's theorem for interval domains**: if no interval `[a, b]` contains more domains than
    values, the variables can be given pairwise distinct values. -/
theorem hall_matching (B : Box) (hne : B.Nonempty) (h : HallOK B) : ∃ t, inBox t B ∧ t.Nodup :=
  hall_matching_aux B.length B rfl hne h

/-! ### bound consistency from the Hall-interval conditions -/

theorem inBox_of_set : ∀ {t : List Int} {B : Box} (k : Nat) (p : Dom), inBox t (B.set k p) →
    (k < B.length → (getDom B k).1 ≤ p.1 ∧ p.2 ≤ (getDom B k).2) → inBox t B
  | [], [], _, _, _, _ => trivial
  | [], _ :: _, 0, _, h, _ => by simp [inBox] at h
  | [], _ :: _, _ + 1, _, h, _ => by simp [inBox] at h
  | _ :: _, [], _, _, h, _ => by simp [inBox] at h
  | v :: t, d :: B, 0, p, h, hp => by
    simp only [List.set_cons_zero, inBox] at h
    have := hp (by simp)
    simp only [getDom, List.getD_cons_zero] at this
    refine ⟨?_, h.2⟩
    have h1 := h.1
    simp only [inDom] at h1 ⊢
    omega
  | v :: t, d :: B, k + 1, p, h, hp => by
    simp only [List.set_cons_succ, inBox] at h
    refine ⟨h.1, inBox_of_set k p h.2 ?_⟩
    intro hk
    have := hp (by simpa using hk)
    simpa [getDom] using this

theorem getDom_eq_getElem {B : Box} {k : Nat} (hk : k < B.length) : getDom B k = B[k] := by
  simp [getDom, hk]

theorem getDom_mem {B : Box} {k : Nat} (hk : k < B.length) : getDom B k ∈ B := by
  rw [getDom_eq_getElem hk]; exact List.getElem_mem hk

/-- fixing a variable to one of its bounds keeps Hall's condition, when the box is pruned -/
theorem hallOK_set_bound (B : Box) (h : HallOK B) (hp : HallPruned B)
    (k : Nat) (hk : k < B.length) (v : Int) (hv : v = (getDom B k).1 ∨ v = (getDom B k).2) :
    HallOK (B.set k (v, v)) := by
  intro a b hab
  have hH := h a b hab
  have hP := hp a b
  have hd := getDom_mem hk
  rw [getDom_eq_getElem hk] at hd hv
  rw [insideCount_eq_countP, List.countP_set hk]
  rw [insideCount_eq_countP] at hH
  by_cases hq : Dom.within (v, v) a b = true
  · by_cases hdw : Dom.within B[k] a b = true
    · simp only [hq, hdw, if_true]; omega
    · simp only [hq, hdw, if_true]
      by_cases hfull : ((B.countP (fun d => d.within a b) : Nat) : Int) = b - a + 1
      · exfalso
        have := hP ⟨hab, by rw [insideCount_eq_countP]; exact hfull⟩ B[k] hd (by simpa using hdw)
        rw [Dom.within_iff] at hq
        simp only at hq
        omega
      · simp; omega
  · simp only [hq]
    simp; omega

theorem support_of_hall (B : Box) (hne : B.Nonempty) (h : HallOK B) (hp : HallPruned B)
    (k : Nat) (hk : k < B.length) (v : Int) (hv : v = (getDom B k).1 ∨ v = (getDom B k).2) :
    ∃ t, inBox t B ∧ t.Nodup ∧ getI t k = v := by
  have hdne := hne _ (getDom_mem hk)
  have hne' : Box.Nonempty (B.set k (v, v)) := by
    intro d hd
    rcases List.mem_or_eq_of_mem_set hd with hd | rfl
    · exact hne d hd
    · exact Int.le_refl _
  obtain ⟨t, ht, hnd⟩ := hall_matching _ hne' (hallOK_set_bound B h hp k hk v hv)
  refine ⟨t, inBox_of_set k (v, v) ht (fun _ => by simp only; omega), hnd, ?_⟩
  have := inBox_get k ht (by simpa using hk)
  have e : getDom (B.set k (v, v)) k = (v, v) := by simp [getDom, hk]
  rw [e] at this
  simp only at this
  omega

/-- **Sufficiency of the Hall-interval conditions** (Puget 1998; López-Ortiz et al. 2003): a box of
    non-empty interval domains that satisfies Hall's condition and in which the bounds of every
    domain avoid the Hall intervals that do not contain it is bound consistent for `alldifferent`. -/
theorem supported_of_hall (ps : List Int) (B : Box) (hne : B.Nonempty) (h : HallOK B)
    (hp : HallPruned B) : Supported .alldifferent ps B := by
  intro k hk
  exact ⟨support_of_hall B hne h hp k hk _ (Or.inl rfl), support_of_hall B hne h hp k hk _ (Or.inr rfl)⟩

/-! ### the converse: a bound-consistent box satisfies the Hall-interval conditions -/

/-- pigeonhole: pairwise distinct integers in `[a, a + n)` are at most `n` -/
theorem nodup_length_le : ∀ (n : Nat) (a : Int) (l : List Int), l.Nodup →
    (∀ v ∈ l, a ≤ v ∧ v < a + n) → l.length ≤ n
  | 0, a, l, _, hr => by
    cases l with
    | nil => simp
    | cons v l => have := hr v (by simp); omega
  | n + 1, a, l, hnd, hr => by
    by_cases hx : (a + n) ∈ l
    · have := nodup_length_le n a (l.erase (a + n)) (hnd.erase _) (by
        intro v hv
        rw [hnd.mem_erase_iff] at hv
        have := hr v hv.2
        omega)
      rw [List.length_erase_of_mem hx] at this
      omega
    · have := nodup_length_le n a l hnd (by
        intro v hv
        have := hr v hv
        have : v ≠ a + n := by intro e; subst e; exact hx hv
        omega)
      omega

/-- the values of the positions selected by `q` -/
def pick (q : Int → Dom → Bool) : List Int → Box → List Int
  | v :: t, d :: B => if q v d then v :: pick q t B else pick q t B
  | _, _ => []

theorem pick_sublist (q : Int → Dom → Bool) : ∀ (t : List Int) (B : Box), (pick q t B).Sublist t
  | [], _ => by simp [pick]
  | _ :: _, [] => by simp [pick]
  | v :: t, d :: B => by
    simp only [pick]
    split
    · exact (pick_sublist q t B).cons_cons v
    · exact (pick_sublist q t B).cons v

theorem pick_mem (q : Int → Dom → Bool) : ∀ {t : List Int} {B : Box}, inBox t B →
    ∀ w ∈ pick q t B, ∃ d, q w d = true ∧ inDom w d
  | [], _, _, w, hw => by simp [pick] at hw
  | _ :: _, [], h, _, _ => by simp [inBox] at h
  | v :: t, d :: B, h, w, hw => by
    simp only [pick] at hw
    split at hw
    · rcases List.mem_cons.mp hw with rfl | hw
      · exact ⟨d, by assumption, h.1⟩
      · exact pick_mem q h.2 w hw
    · exact pick_mem q h.2 w hw

theorem pick_length_ge (q : Int → Dom → Bool) (a b : Int)
    (hq : ∀ v d, d.within a b = true → q v d = true) : ∀ {t : List Int} {B : Box}, inBox t B →
    insideCount B a b ≤ (pick q t B).length
  | [], [], _ => by simp [insideCount]
  | [], _ :: _, h => by simp [inBox] at h
  | _ :: _, [], h => by simp [inBox] at h
  | v :: t, d :: B, h => by
    have ih := pick_length_ge q a b hq h.2
    rw [insideCount_cons]
    simp only [pick]
    by_cases hw : d.within a b = true
    · simp [hw, hq v d hw]; omega
    · by_cases hqv : q v d = true <;> simp [hw, hqv] <;> omega

theorem pick_length_gt (q : Int → Dom → Bool) (a b : Int)
    (hq : ∀ v d, d.within a b = true → q v d = true) : ∀ {t : List Int} {B : Box} (k : Nat),
    inBox t B → k < B.length → q (getI t k) (getDom B k) = true →
    (getDom B k).within a b = false → insideCount B a b + 1 ≤ (pick q t B).length
  | [], [], _, _, hk, _, _ => by simp at hk
  | [], _ :: _, _, h, _, _, _ => by simp [inBox] at h
  | _ :: _, [], _, h, _, _, _ => by simp [inBox] at h
  | v :: t, d :: B, 0, h, _, hqk, hwk => by
    have ih := pick_length_ge q a b hq h.2
    simp only [getI, getDom, List.getD_cons_zero] at hqk hwk
    rw [insideCount_cons]
    simp only [pick, hqk, hwk, if_true]
    simp; omega
  | v :: t, d :: B, k + 1, h, hk, hqk, hwk => by
    have ih := pick_length_gt q a b hq k h.2 (by simpa using hk)
      (by simpa [getI, getDom] using hqk) (by simpa [getDom] using hwk)
    rw [insideCount_cons]
    simp only [pick]
    by_cases hw : d.within a b = true
    · simp [hw, hq v d hw]; omega
    · by_cases hqv : q v d = true <;> simp [hw, hqv] <;> omega

/-- a box that contains a tuple of pairwise distinct values satisfies Hall's condition -/
theorem hallOK_of_solution {t : List Int} {B : Box} (ht : inBox t B) (hnd : t.Nodup) : HallOK B := by
  intro a b hab
  let q : Int → Dom → Bool := fun _ d => d.within a b
  have hlen := pick_length_ge q a b (fun _ _ h => h) ht
  have hnd' : (pick q t B).Nodup := (pick_sublist q t B).nodup hnd
  have := nodup_length_le (b - a + 1).toNat a (pick q t B) hnd' (by
    intro w hw
    obtain ⟨d, hqd, hin⟩ := pick_mem q ht w hw
    simp only [q, Dom.within_iff] at hqd
    simp only [inDom] at hin
    omega)
  omega

/-- a supported bound of a domain that is not inside a Hall interval lies outside it -/
theorem pruned_of_support {t : List Int} {B : Box} (ht : inBox t B) (hnd : t.Nodup)
    (a b : Int) (hH : IsHall B a b) (k : Nat) (hk : k < B.length)
    (hw : (getDom B k).within a b = false) : getI t k < a ∨ b < getI t k := by
  apply Classical.byContradiction
  intro hcon
  let q : Int → Dom → Bool := fun v d => d.within a b || (v == getI t k)
  have hlen := pick_length_gt q a b (fun _ _ h => by simp [q, h]) k ht hk (by simp [q]) hw
  have hnd' : (pick q t B).Nodup := (pick_sublist q t B).nodup hnd
  have := nodup_length_le (b - a + 1).toNat a (pick q t B) hnd' (by
    intro w hw
    obtain ⟨d, hqd, hin⟩ := pick_mem q ht w hw
    simp only [q, Bool.or_eq_true, Dom.within_iff, beq_iff_eq] at hqd
    simp only [inDom] at hin
    omega)
  obtain ⟨hab, hc⟩ := hH
  omega

/-- **Necessity of the Hall-interval conditions**: a bound-consistent box satisfies Hall's condition
    and the bounds of every domain avoid the Hall intervals that do not contain it.  Together with
    `supported_of_hall` the characterisation is exact. -/
theorem hall_of_supported (ps : List Int) (B : Box) (_hne : B.Nonempty) (hpos : 1 ≤ B.length)
    (hsup : Supported .alldifferent ps B) : HallOK B ∧ HallPruned B := by
  refine ⟨?_, ?_⟩
  · obtain ⟨t, ht, hr⟩ := hsup.exists_solution hpos
    exact hallOK_of_solution ht hr
  · intro a b hH d hd hw
    obtain ⟨k, hk, rfl⟩ := List.mem_iff_getElem.mp hd
    rw [← getDom_eq_getElem hk] at hw ⊢
    obtain ⟨⟨t1, ht1, hr1, he1⟩, ⟨t2, ht2, hr2, he2⟩⟩ := hsup k hk
    have h1 := pruned_of_support ht1 hr1 a b hH k hk hw
    have h2 := pruned_of_support ht2 hr2 a b hH k hk hw
    rw [he1] at h1; rw [he2] at h2
    exact ⟨h1, h2⟩

/-- the Hall-interval conditions characterise bound consistency of `alldifferent` exactly -/
theorem supported_iff_hall (ps : List Int) (B : Box) (hne : B.Nonempty) (hpos : 1 ≤ B.length) :
    Supported .alldifferent ps B ↔ HallOK B ∧ HallPruned B :=
  ⟨hall_of_supported ps B hne hpos, fun h => supported_of_hall ps B hne h.1 h.2⟩

/-! ### non-vacuity -/

/-- `[1,2]` is a Hall interval of `[(1,2),(1,2),(3,4)]` -/
example : IsHall [(1, 2), (1, 2), (3, 4)] 1 2 := by
  refine ⟨by omega, ?_⟩
  simp [insideCount, Dom.within, List.filter]

/-- a box with a Hall interval that satisfies both conditions (proved directly) -/
example : HallOK [(1, 2), (1, 2), (3, 4)] ∧ HallPruned [(1, 2), (1, 2), (3, 4)] := by
  constructor
  · intro a b hab
    simp only [insideCount_eq_countP, List.countP_cons, List.countP_nil, Dom.within_iff]
    repeat' split
    all_goals omega
  · intro a b ⟨hab, hc⟩ d hd hw
    simp only [insideCount_eq_countP, List.countP_cons, List.countP_nil, Dom.within_iff] at hc
    have hw' : ¬ (a ≤ d.1 ∧ d.2 ≤ b) := by rw [← Dom.within_iff, hw]; simp
    simp only [List.mem_cons, List.not_mem_nil, or_false] at hd
    rcases hd with rfl | rfl | rfl <;> simp only at hw' ⊢ <;> (repeat' split at hc) <;> omega

/-- `[(1,2),(1,2),(1,3)]` satisfies Hall's condition but is not pruned: `[1,2]` is a Hall interval
    and the lower bound of `(1,3)` lies inside it -/
example : HallOK [(1, 2), (1, 2), (1, 3)] ∧ ¬ HallPruned [(1, 2), (1, 2), (1, 3)] := by
  constructor
  · intro a b hab
    simp only [insideCount_eq_countP, List.countP_cons, List.countP_nil, Dom.within_iff]
    repeat' split
    all_goals omega
  · intro hp
    have := hp 1 2 ⟨by omega, by simp [insideCount, Dom.within, List.filter]⟩ (1, 3) (by simp)
      (by simp [Dom.within])
    simp at this

/-- hence, by the characterisation, the first box is bound consistent and the second is not -/
example : Supported .alldifferent [] [(1, 2), (1, 2), (3, 4)] ∧
    ¬ Supported .alldifferent [] [(1, 2), (1, 2), (1, 3)] := by
  constructor
  · intro k hk
    have hk' : k = 0 ∨ k = 1 ∨ k = 2 := by simp at hk; omega
    rcases hk' with rfl | rfl | rfl
    · exact ⟨⟨[1, 2, 3], by simp [inBox, inDom], by simp [rel], rfl⟩,
        ⟨[2, 1, 3], by simp [inBox, inDom], by simp [rel], rfl⟩⟩
    · exact ⟨⟨[2, 1, 3], by simp [inBox, inDom], by simp [rel], rfl⟩,
        ⟨[1, 2, 3], by simp [inBox, inDom], by simp [rel], rfl⟩⟩
    · exact ⟨⟨[1, 2, 3], by simp [inBox, inDom], by simp [rel], rfl⟩,
        ⟨[1, 2, 4], by simp [inBox, inDom], by simp [rel], rfl⟩⟩
  · intro hsup
    have hp := (hall_of_supported [] _ (by intro d hd; simp at hd; rcases hd with rfl | rfl <;> simp)
      (by simp) hsup).2
    have := hp 1 2 ⟨by omega, by simp [insideCount, Dom.within, List.filter]⟩ (1, 3) (by simp)
      (by simp [Dom.within])
    simp at this

end Nucs
