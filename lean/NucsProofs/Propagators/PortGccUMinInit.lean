import NucsProofs.Propagators.PortGccUMinDefs
/-!
  The two initialisation loops of `filter_upper_min` (ported gcc), and the two single writes after
  them, never err and establish the invariant of the main loop (`UMinCore`).

  Both pointer arrays built here (`tl` by the first loop, `sets` by the second) are described by
  `UmD R M k v`: with respect to a predicate `R` ("`k` is a root"), the value `v` of the cell `k`
  is the next root above (or the terminal `M + 1`) if `k` is a root, the next root below otherwise.
  (Mirror image of `CD` in `PortGccLMinInit`.)
-/
namespace Nucs
namespace Gcc

open AllDiff (g upd g2 upd2 ok_bind pure_eq_ok except_bind_ok forIn_list_except range_forIn_eq
  size_upd size_upd2 g_upd g_upd_same g_upd_ne UChain)

/-! ### pure logic: pointer arrays described by their roots -/

/-- the cell `k` holding `v` is as it should be w.r.t. the root predicate `R` -/
def UmD (R : Int → Prop) (M k v : Int) : Prop :=
  (R k → k < v ∧ v ≤ M + 1 ∧ (v = M + 1 ∨ R v) ∧ ∀ k', k < k' → k' < v → ¬ R k') ∧
  (¬ R k → v < k ∧ 0 ≤ v ∧ R v ∧ ∀ k', v < k' → k' ≤ k → ¬ R k')

theorem uchain_of_UmD (R : Int → Prop) (a : Int → Int) (M : Int) (hM : 0 ≤ M) (hR0 : R 0)
    (h : ∀ k, 0 ≤ k → k ≤ M → UmD R M k (a k)) : UChain a M := by
  have hroot : ∀ i, 0 ≤ i → i ≤ M → a i > i → R i := by
    intro i h1 h2 h3
    apply Classical.byContradiction
    intro hn
    have := ((h i h1 h2).2 hn).1
    omega
  have hnon : ∀ i, 0 ≤ i → i ≤ M → ¬ R i → a i < i := fun i h1 h2 hn => ((h i h1 h2).2 hn).1
  refine ⟨hM, ?_, ?_, ?_, ?_⟩
  · intro i h1 h2
    by_cases hr : R i
    · have := (h i h1 h2).1 hr; omega
    · have := (h i h1 h2).2 hr; omega
  · intro i h1 h2 h3
    have hr := hroot i h1 h2 h3
    obtain ⟨d1, d2, d3, d4⟩ := (h i h1 h2).1 hr
    refine ⟨fun k hk1 hk2 => hnon k (by omega) (by omega) (d4 k hk1 hk2), ?_⟩
    rcases d3 with d3 | d3
    · exact Or.inl d3
    · by_cases h0 : a i = M + 1
      · exact Or.inl h0
      · right
        exact ((h (a i) (by omega) (by omega)).1 d3).1
  · intro i h1 h2 h3 k hk1 hk2
    have hn : ¬ R i := by
      intro hr
      have := ((h i h1 h2).1 hr).1
      omega
    obtain ⟨_, u2, _, u4⟩ := (h i h1 h2).2 hn
    exact hnon k (by omega) (by omega) (u4 k hk1 (by omega))
  · exact ((h 0 (by omega) hM).1 hR0).1

/-- the root predicate of `tl`: the capacity between `bounds[k]` and `bounds[k+1]` is not zero -/
def UmRT (Kf : Int → Int) : Int → Prop := fun k => Kf k < Kf (k + 1)
/-- the root predicate of `sets` -/
def UmRS (Kf : Int → Int) : Int → Prop := fun k => k = 0 ∨ Kf (k - 1) < Kf k

theorem UmRS_succ {Kf : Int → Int} {r : Int} (h : UmRT Kf r) : UmRS Kf (r + 1) := by
  right
  have e : r + 1 - 1 = r := by omega
  rw [e]; exact h

/-- `UMinCore` from the descriptions of `c`, `tl`, `sets` -/
theorem umincore_of_desc {M : Int} {sz : Nat} {Kf : Int → Int} {tl c sets : Array Int}
    (hM : 1 ≤ M) (hst : tl.size = sz) (hsc : c.size = sz) (hss : sets.size = sz)
    (hNsz : M + 1 < sz) (hR0 : UmRT Kf 0) (hRM : UmRT Kf M)
    (hKm : ∀ a b, 0 ≤ a → a ≤ b → b ≤ M + 1 → Kf a ≤ Kf b)
    (hc : ∀ k, 0 ≤ k → k ≤ M → g c k = Kf (k + 1) - Kf k)
    (hT : ∀ k, 0 ≤ k → k ≤ M → UmD (UmRT Kf) M k (g tl k))
    (hS : ∀ k, 0 ≤ k → k ≤ M → UmD (UmRS Kf) M k (g sets k)) :
    UMinCore M sz Kf tl c sets := by
  have hroot : ∀ r, 0 ≤ r → r ≤ M → g tl r > r → UmRT Kf r := by
    intro r h1 h2 h3
    apply Classical.byContradiction
    intro hn
    have := ((hT r h1 h2).2 hn).1
    omega
  have hsroot : ∀ k, 0 ≤ k → k ≤ M → UmRS Kf k → g sets k > k :=
    fun k h1 h2 hr => ((hS k h1 h2).1 hr).1
  refine ⟨hst, hsc, hss, hNsz, uchain_of_UmD _ _ M (by omega) hR0 hT,
    uchain_of_UmD _ _ M (by omega) (Or.inl rfl) hS, ?_, ?_, ?_, ?_, ?_, ?_, ?_⟩
  · intro r h1 h2 h3
    have hr : Kf r < Kf (r + 1) := hroot r h1 (by omega) h3
    rw [hc r h1 (by omega)]; omega
  · simpa using hc 0 (by omega) (by omega)
  · have := (hT M (by omega) (by omega)).1 hRM
    omega
  · intro r h1 h2 h3
    have hr := hroot r h1 (by omega) h3
    obtain ⟨d1, d2, d3, d4⟩ := (hT r h1 (by omega)).1 hr
    by_cases hj : g tl r = M
    · exact Or.inl hj
    · right
      have hjM : g tl r < M := by
        apply Classical.byContradiction
        intro hn
        exact d4 M (by omega) (by omega) hRM
      rcases d3 with d3 | d3
      · omega
      · exact hsroot _ (by omega) (by omega) (UmRS_succ d3)
  · intro r h1 h2 h3 _
    exact hsroot _ (by omega) (by omega) (UmRS_succ (hroot r h1 (by omega) h3))
  · intro k h1 h2 h3
    have hr : UmRS Kf k := by
      apply Classical.byContradiction
      intro hn
      have := ((hS k (by omega) h2).2 hn).1
      omega
    rcases hr with hr | hr
    · omega
    · exact hr
  · intro r h1 h2 h3 _ k hk1 hk2 hk3
    have hr := hroot r h1 (by omega) h3
    have hflat : ∀ j, r + 1 < j → j ≤ k → ¬ UmRS Kf j := by
      intro j hj1 hj2 hj
      rcases hj with hj | hj
      · omega
      · have a1 := hKm (r + 1) (j - 1) (by omega) (by omega) (by omega)
        have a2 := hKm j k (by omega) hj2 (by omega)
        omega
    obtain ⟨u1, u2, u3, u4⟩ := (hS k (by omega) hk2).2 (hflat k hk1 (by omega))
    have hge : r + 1 ≤ g sets k := by
      apply Classical.byContradiction
      intro hn
      exact u4 (r + 1) (by omega) (by omega) (UmRS_succ hr)
    by_cases he : g sets k = r + 1
    · exact he
    · exact absurd u3 (hflat _ (by omega) (by omega))

/-! ### the invariant shared by the two loops -/

/-- when the next index is `i`: `w` is the last root below `i` (or `i = w = 0` before the first
    iteration of the first loop); the non-roots above `w` point at `w`; the cells below `w` have
    their final value -/
def UmLInv (R : Int → Prop) (M : Int) (a : Array Int) (i w : Int) : Prop :=
  0 ≤ w ∧ w ≤ i ∧ (w = i → i = 0) ∧ R w ∧ (∀ k, w < k → k < i → ¬ R k ∧ g a k = w) ∧
    ∀ k, 0 ≤ k → k < w → UmD R M k (g a k)

theorem UmLInv_zero {R : Int → Prop} {M : Int} {a : Array Int} {i w : Int}
    (hsz : i < a.size) (h : UmLInv R M a i w) (hz : ¬ R i) :
    UmLInv R M (upd a i w) (i + 1) w := by
  obtain ⟨h0, h1, h2, h3, h4, h5⟩ := h
  have hwi : w < i := by
    apply Classical.byContradiction
    intro hn
    have e : w = i := by omega
    rw [e] at h3
    exact hz h3
  refine ⟨h0, by omega, fun _ => by omega, h3, ?_, ?_⟩
  · intro k hk1 hk2
    by_cases hk : k = i
    · subst hk
      rw [g_upd_same a _ _ (by omega) (by omega)]
      exact ⟨hz, rfl⟩
    · rw [g_upd_ne a _ _ k (by omega) (by omega) (by omega) hk]
      exact h4 k hk1 (by omega)
  · intro k hk1 hk2
    rw [g_upd_ne a _ _ k (by omega) (by omega) hk1 (by omega)]
    exact h5 k hk1 hk2

theorem UmLInv_nz {R : Int → Prop} {M : Int} {a : Array Int} {i w : Int} (hiM : i ≤ M)
    (hsz : i < a.size) (h : UmLInv R M a i w) (hz : R i) :
    UmLInv R M (upd a w i) (i + 1) i := by
  obtain ⟨h0, h1, h2, h3, h4, h5⟩ := h
  refine ⟨by omega, by omega, fun _ => by omega, hz, fun k hk1 hk2 => by omega, ?_⟩
  intro k hk1 hk2
  by_cases hk : k = w
  · subst hk
    rw [g_upd_same a _ _ (by omega) (by omega)]
    exact ⟨fun _ => ⟨hk2, by omega, Or.inr hz, fun k' x y => (h4 k' x y).1⟩,
      fun hn => absurd h3 hn⟩
  · rw [g_upd_ne a _ _ k (by omega) (by omega) hk1 hk]
    by_cases hkw : k < w
    · exact h5 k hk1 hkw
    · obtain ⟨a1, a2⟩ := h4 k (by omega) hk2
      rw [a2]
      exact ⟨fun hr => absurd hr a1,
        fun _ => ⟨by omega, h0, h3, fun k' x y => (h4 k' x (by omega)).1⟩⟩

/-- after the loop, the write `a[w] = M + 1` completes the description -/
theorem UmLInv_fin {R : Int → Prop} {M : Int} {a : Array Int} {w : Int} (hM : 0 ≤ M)
    (hsz : M < a.size) (h : UmLInv R M a (M + 1) w) :
    0 ≤ w ∧ w ≤ M ∧ ∀ k, 0 ≤ k → k ≤ M → UmD R M k (g (upd a w (M + 1)) k) := by
  obtain ⟨h0, h1, h2, h3, h4, h5⟩ := h
  have hw : w ≤ M := by
    apply Classical.byContradiction
    intro hn
    have := h2 (by omega)
    omega
  refine ⟨h0, hw, ?_⟩
  intro k hk1 hk2
  by_cases hk : k = w
  · subst hk
    rw [g_upd_same a _ _ (by omega) (by omega)]
    exact ⟨fun _ => ⟨by omega, by omega, Or.inl rfl, fun k' x y => (h4 k' x y).1⟩,
      fun hn => absurd h3 hn⟩
  · rw [g_upd_ne a _ _ k (by omega) (by omega) hk1 hk]
    by_cases hkw : k < w
    · exact h5 k hk1 hkw
    · obtain ⟨a1, a2⟩ := h4 k (by omega) (by omega)
      rw [a2]
      exact ⟨fun hr => absurd hr a1,
        fun _ => ⟨by omega, h0, h3, fun k' x y => (h4 k' x (by omega)).1⟩⟩

/-! ### the first initialisation loop -/

/-- one iteration of the first loop -/
theorem uminInit1_step {M : Int} {sz : Nat} {bounds : Array Int} {l : PSum} {fv m : Int}
    (hb : BC bounds (M + 1) fv m) (hl : PS l fv m) (tl c : Array Int) (w i : Int)
    (hst : tl.size = sz) (hsc : c.size = sz) (hNsz : M + 1 < sz) (hi0 : 0 ≤ i) (hiM : i ≤ M)
    (hw0 : 0 ≤ w) (hwM : w ≤ M + 1) :
    uminInit1 bounds l i (tl, c, w) = .ok (.yield
      (if K l fv bounds (i + 1) - K l fv bounds i = 0 then
        (upd tl i w, upd c i (K l fv bounds (i + 1) - K l fv bounds i), w)
      else
        (upd tl w i, upd c i (K l fv bounds (i + 1) - K l fv bounds i), i))) := by
  have hbsz := hb.hsz
  unfold uminInit1
  simp only []
  rw [rd_ok bounds i (by omega) (by omega), ok_bind,
    rd_ok bounds (i + 1) (by omega) (by omega), ok_bind,
    get_sum_bounds_ok hl hb i (i + 1) hi0 (by omega) (by omega) (by omega), ok_bind,
    gsum_K hl hb i (i + 1) hi0 (by omega) (by omega),
    wr_ok c i _ (by omega) (by omega), ok_bind,
    rd_ok (upd c i _) i (by omega) (by simp; omega), ok_bind,
    g_upd_same c i _ (by omega) (by omega)]
  by_cases hv : K l fv bounds (i + 1) - K l fv bounds i = 0
  · have hcond : (K l fv bounds (i + 1) - K l fv bounds i == 0) = true := by simpa using hv
    rw [if_pos hcond, if_pos hv, wr_ok tl i _ (by omega) (by omega), ok_bind]
    rfl
  · have hcond : ¬ (K l fv bounds (i + 1) - K l fv bounds i == 0) = true := by simpa using hv
    rw [if_neg hcond, if_neg hv, wr_ok tl w _ (by omega) (by omega), ok_bind]
    rfl

theorem uminInit1_spec {M : Int} {sz : Nat} {bounds : Array Int} {l : PSum} {fv m : Int}
    (hb : BC bounds (M + 1) fv m) (hl : PS l fv m) (tl c : Array Int)
    (hst : tl.size = sz) (hsc : c.size = sz) (hNsz : M + 1 < sz) :
    ∃ s1 : Array Int × Array Int × Int,
      forIn (rangeUp 0 (M + 1)) (tl, c, (0 : Int)) (uminInit1 bounds l) = .ok s1 ∧
      s1.1.size = sz ∧ s1.2.1.size = sz ∧
      (∀ k, 0 ≤ k → k ≤ M → g s1.2.1 k = K l fv bounds (k + 1) - K l fv bounds k) ∧
      UmLInv (UmRT (K l fv bounds)) M s1.1 (M + 1) s1.2.2 := by
  have hN := hb.hN
  have hR0 : UmRT (K l fv bounds) 0 := by
    have := K_bot hl hb
    show K l fv bounds 0 < K l fv bounds (0 + 1)
    have e : (0 : Int) + 1 = 1 := by omega
    rw [e]; omega
  refine forIn_list_except
    (Inv := fun rest (s : Array Int × Array Int × Int) =>
      ∃ i, rest = rangeUp i (M + 1) ∧ 0 ≤ i ∧ i ≤ M + 1 ∧ s.1.size = sz ∧ s.2.1.size = sz ∧
        (∀ k, 0 ≤ k → k < i → g s.2.1 k = K l fv bounds (k + 1) - K l fv bounds k) ∧
        UmLInv (UmRT (K l fv bounds)) M s.1 i s.2.2)
    _ _ ?_ ?_ _ _ ?_
  · rintro x rest ⟨tl, c, w⟩ ⟨i, hr, hi0, hiN, h1, h2, h5, h6⟩
    obtain ⟨hlt, hx, hrest⟩ := rangeUp_eq_cons i (M + 1) x rest hr
    subst hx
    left
    simp only at h1 h2 h5 h6
    have hw0 := h6.1
    have hwx := h6.2.1
    refine ⟨_, uminInit1_step hb hl tl c w x h1 h2 hNsz hi0 (by omega) hw0 (by omega),
      x + 1, hrest, by omega, by omega, ?_⟩
    have hcs : ∀ k, 0 ≤ k → k < x + 1 →
        g (upd c x (K l fv bounds (x + 1) - K l fv bounds x)) k =
          K l fv bounds (k + 1) - K l fv bounds k := by
      intro k hk1 hk2
      by_cases hkx : k = x
      · subst hkx
        rw [g_upd_same c k _ (by omega) (by omega)]
      · rw [g_upd_ne c x _ k (by omega) (by omega) (by omega) hkx]
        exact h5 k hk1 (by omega)
    have hmx := K_mono hl hb x (x + 1) hi0 (by omega) (by omega)
    by_cases hv : K l fv bounds (x + 1) - K l fv bounds x = 0
    · rw [if_pos hv]
      refine ⟨by simp [h1], by simp [h2], hcs, ?_⟩
      exact UmLInv_zero (by omega) h6 (by show ¬ _ < _; omega)
    · rw [if_neg hv]
      refine ⟨by simp [h1], by simp [h2], hcs, ?_⟩
      exact UmLInv_nz (by omega) (by omega) h6 (by show _ < _; omega)
  · rintro ⟨tl, c, w⟩ ⟨i, hr, hi0, hiN, h1, h2, h5, h6⟩
    have hi : i = M + 1 := by
      apply Classical.byContradiction
      intro hne
      rw [rangeUp_cons i (M + 1) (by omega)] at hr
      cases hr
    subst hi
    simp only at h1 h2 h5 h6
    exact ⟨h1, h2, fun k hk1 hk2 => h5 k hk1 (by omega), h6⟩
  · refine ⟨0, rfl, by omega, by omega, hst, hsc, fun k h1 h2 => by omega, ?_⟩
    exact ⟨by simp, by simp, fun _ => rfl, hR0, fun k h1 h2 => by simp at h1 h2; omega,
      fun k h1 h2 => by simp at h2; omega⟩

/-! ### the second initialisation loop -/

theorem uminInit2_step (c sets : Array Int) (w i : Int) (hi1 : 1 ≤ i) (hic : i - 1 < c.size)
    (his : i < sets.size) (hw0 : 0 ≤ w) (hws : w < sets.size) :
    uminInit2 c i (sets, w) = .ok (.yield
      (if g c (i - 1) = 0 then (upd sets i w, w) else (upd sets w i, i))) := by
  unfold uminInit2
  simp only []
  rw [rd_ok c (i - 1) (by omega) hic, ok_bind]
  by_cases hv : g c (i - 1) = 0
  · have hcond : (g c (i - 1) == 0) = true := by simpa using hv
    rw [if_pos hcond, if_pos hv, wr_ok sets i _ (by omega) his, ok_bind]
    rfl
  · have hcond : ¬ (g c (i - 1) == 0) = true := by simpa using hv
    rw [if_neg hcond, if_neg hv, wr_ok sets w _ hw0 hws, ok_bind]
    rfl

theorem uminInit2_spec {M : Int} {sz : Nat} {Kf : Int → Int} (hM : 1 ≤ M) (c sets : Array Int)
    (hsc : c.size = sz) (hss : sets.size = sz) (hNsz : M + 1 < sz)
    (hKm : ∀ k, 0 ≤ k → k ≤ M → Kf k ≤ Kf (k + 1))
    (hc : ∀ k, 0 ≤ k → k ≤ M → g c k = Kf (k + 1) - Kf k) :
    ∃ s2 : Array Int × Int,
      forIn (rangeUp 1 (M + 1)) (sets, (0 : Int)) (uminInit2 c) = .ok s2 ∧ s2.1.size = sz ∧
      UmLInv (UmRS Kf) M s2.1 (M + 1) s2.2 := by
  refine forIn_list_except
    (Inv := fun rest (s : Array Int × Int) =>
      ∃ i, rest = rangeUp i (M + 1) ∧ 1 ≤ i ∧ i ≤ M + 1 ∧ s.1.size = sz ∧
        UmLInv (UmRS Kf) M s.1 i s.2)
    _ _ ?_ ?_ _ _ ?_
  · rintro x rest ⟨sets, w⟩ ⟨i, hr, hi1, hiN, h1, h2⟩
    obtain ⟨hlt, hx, hrest⟩ := rangeUp_eq_cons i (M + 1) x rest hr
    subst hx
    left
    simp only at h1 h2
    have hw0 := h2.1
    have hwx := h2.2.1
    refine ⟨_, uminInit2_step c sets w x hi1 (by omega) (by omega) hw0 (by omega),
      x + 1, hrest, by omega, by omega, ?_⟩
    have hcx := hc (x - 1) (by omega) (by omega)
    have hmx := hKm (x - 1) (by omega) (by omega)
    have e : x - 1 + 1 = x := by omega
    rw [e] at hcx hmx
    by_cases hv : g c (x - 1) = 0
    · rw [if_pos hv]
      refine ⟨by simp [h1], UmLInv_zero (by omega) h2 ?_⟩
      rintro (hr | hr)
      · omega
      · omega
    · rw [if_neg hv]
      refine ⟨by simp [h1], UmLInv_nz (by omega) (by omega) h2 ?_⟩
      right; omega
  · rintro ⟨sets, w⟩ ⟨i, hr, hi1, hiN, h1, h2⟩
    have hi : i = M + 1 := by
      apply Classical.byContradiction
      intro hne
      rw [rangeUp_cons i (M + 1) (by omega)] at hr
      cases hr
    subst hi
    exact ⟨h1, h2⟩
  · refine ⟨1, rfl, by omega, by omega, hss, ?_⟩
    exact ⟨by simp, by simp, fun h => by simp at h, Or.inl rfl,
      fun k h1 h2 => by simp at h1 h2; omega, fun k h1 h2 => by simp at h2; omega⟩

/-! ### both loops and the two writes: the invariant of the main loop holds initially -/

theorem uminInit_spec {M : Int} {sz : Nat} {bounds : Array Int} {l : PSum} {fv m : Int}
    (hb : BC bounds (M + 1) fv m) (hl : PS l fv m) (tl c sets : Array Int)
    (hst : tl.size = sz) (hsc : c.size = sz) (hss : sets.size = sz) (hNsz : M + 1 < sz) :
    ∃ (s1 : Array Int × Array Int × Int) (tl1 : Array Int) (s2 : Array Int × Int) (sets1 : Array Int),
      forIn (rangeUp 0 (M + 1)) (tl, c, (0 : Int)) (uminInit1 bounds l) = .ok s1 ∧
      wr s1.1 s1.2.2 (M + 1) = .ok tl1 ∧
      forIn (rangeUp 1 (M + 1)) (sets, (0 : Int)) (uminInit2 s1.2.1) = .ok s2 ∧
      wr s2.1 s2.2 (M + 1) = .ok sets1 ∧
      UMinCore M sz (K l fv bounds) tl1 s1.2.1 sets1 := by
  have hN := hb.hN
  have hR0 : UmRT (K l fv bounds) 0 := by
    have := K_bot hl hb
    show K l fv bounds 0 < K l fv bounds (0 + 1)
    have e : (0 : Int) + 1 = 1 := by omega
    rw [e]; omega
  have hRM : UmRT (K l fv bounds) M := by
    have := K_top hl hb
    have e : M + 1 - 1 = M := by omega
    rw [e] at this
    show K l fv bounds M < K l fv bounds (M + 1)
    omega
  obtain ⟨s1, he1, z1, z2, hv, hL1⟩ := uminInit1_spec hb hl tl c hst hsc hNsz
  obtain ⟨a0, a1, hT⟩ := UmLInv_fin (by omega) (by omega) hL1
  obtain ⟨s2, he2, y1, hL2⟩ := uminInit2_spec (Kf := K l fv bounds) (by omega) s1.2.1 sets z2 hss
    hNsz (fun k h1 h2 => K_mono hl hb k (k + 1) h1 (by omega) (by omega)) hv
  obtain ⟨b0, b1, hS⟩ := UmLInv_fin (by omega) (by omega) hL2
  refine ⟨s1, upd s1.1 s1.2.2 (M + 1), s2, upd s2.1 s2.2 (M + 1), he1,
    wr_ok _ _ _ a0 (by omega), he2, wr_ok _ _ _ b0 (by omega), ?_⟩
  exact umincore_of_desc (by omega) (by simp [z1]) z2 (by simp [y1]) hNsz hR0 hRM
    (fun a b h0 hab hbN => K_mono hl hb a b h0 hab hbN) hv hT hS

end Gcc
end Nucs
