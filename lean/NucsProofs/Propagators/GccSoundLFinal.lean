import NucsProofs.Propagators.GccSoundLMinMath
/-!
  Semantic soundness of the ported gcc — the lower-capacity passes, the final counting argument
  (pure combinatorics: the easy direction of Hall's theorem for lower capacities).
-/
namespace Nucs
namespace Gcc
open AllDiff (cinR Oth LChain cinR_sublist cinR_nonneg)

/-- the cell `k` is stable: the node `k` points up -/
def St (bf : Int → Int) (k : Int) : Prop := bf k > k

/-- the variable `p` is stable: all its cells are -/
def StV (bf rx ry : Int → Int) (p : Int) : Prop := ∀ k, rx p ≤ k → k < ry p → bf k > k

/-- a cell solution: every variable takes a cell of its domain, every cell gets its demand -/
structure CellSol (N : Int) (bd rx ry : Int → Int) (all : List Int) (κ : Int → Int) : Prop where
  dom : ∀ p ∈ all, rx p ≤ κ p ∧ κ p < ry p
  dem : ∀ k, 1 ≤ k → k ≤ N - 2 →
    bd (k + 1) - bd k ≤ ((all.countP (fun p => decide (κ p = k)) : Nat) : Int)

/-- the final state of a pass -/
structure LFin (N : Int) (bd rx ry : Int → Int) (all U : List Int) (bf : Int → Int) : Prop where
  ctx : WCtx N bd rx ry all
  nodup : all.Nodup
  unodup : U.Nodup
  usub : ∀ u ∈ U, u ∈ all
  htop : bd (N - 1) < bd N
  cb : LChain bf N
  b : ∀ ja yb, 1 ≤ ja → ja < yb → yb ≤ N → cinR rx ry U ja yb ≤ bd yb - bd ja
  e : ∀ r, 1 ≤ r → r ≤ N → bf r < r → bf r + 1 < r →
    cinR rx ry U (bf r + 1) r ≥ bd r - bd (bf r + 1)
  f : ∀ p ∈ all, p ∉ U → StV bf rx ry p

/-! ### tools: counting in lists -/

theorem countP_lt_of_witness {L : List Int} {q1 q2 : Int → Bool}
    (himp : ∀ p ∈ L, q1 p = true → q2 p = true) {i : Int} (hi : i ∈ L) (h2 : q2 i = true)
    (h1 : q1 i = false) : L.countP q1 < L.countP q2 := by
  induction L with
  | nil => cases hi
  | cons x L ih =>
    rw [List.countP_cons, List.countP_cons]
    have hm : L.countP q1 ≤ L.countP q2 :=
      List.countP_mono_left (fun p hp => himp p (List.mem_cons_of_mem _ hp))
    rcases List.mem_cons.1 hi with hx | hi'
    · subst hx
      rw [h1, h2]; simp; omega
    · have h3 := ih (fun p hp => himp p (List.mem_cons_of_mem _ hp)) hi'
      have h4 := himp x List.mem_cons_self
      cases h : q1 x <;> cases h' : q2 x <;> simp_all <;> omega

theorem countP_rev_of_eq {L : List Int} {q1 q2 : Int → Bool}
    (himp : ∀ p ∈ L, q1 p = true → q2 p = true) (heq : L.countP q1 = L.countP q2) :
    ∀ p ∈ L, q2 p = true → q1 p = true := by
  intro p hp h2
  cases h1 : q1 p with
  | true => rfl
  | false => have := countP_lt_of_witness himp hp h2 h1; omega

theorem countP_union {L : List Int} {q q1 q2 : Int → Bool}
    (h : ∀ p ∈ L, q p = (q1 p || q2 p)) (hd : ∀ p ∈ L, q1 p = true → q2 p = true → False) :
    L.countP q = L.countP q1 + L.countP q2 := by
  induction L with
  | nil => rfl
  | cons x L ih =>
    rw [List.countP_cons, List.countP_cons, List.countP_cons,
      ih (fun p hp => h p (List.mem_cons_of_mem _ hp))
        (fun p hp => hd p (List.mem_cons_of_mem _ hp))]
    have h3 := h x List.mem_cons_self
    have h4 := hd x List.mem_cons_self
    cases h1 : q1 x <;> cases h2 : q2 x <;> simp_all <;> omega

theorem countP_split (L : List Int) (q r : Int → Bool) :
    L.countP q = L.countP (fun p => q p && r p) + L.countP (fun p => q p && !r p) := by
  apply countP_union
  · intro p _; cases q p <;> cases r p <;> rfl
  · intro p _ h1 h2; cases hr : r p <;> simp_all

theorem countP_false {L : List Int} {q : Int → Bool} (h : ∀ p ∈ L, q p = false) :
    L.countP q = 0 := by
  rw [List.countP_eq_zero]
  intro p hp; rw [h p hp]; simp

/-- move a count on a sub-list to the big list -/
theorem countP_sub {all U : List Int} (hn : all.Nodup) (hu : U.Nodup) (hs : ∀ u ∈ U, u ∈ all)
    (q : Int → Bool) :
    U.countP q = all.countP (fun p => decide (p ∈ U) && q p) := by
  have hperm : U.Perm (all.filter (fun p => decide (p ∈ U))) := by
    rw [List.perm_ext_iff_of_nodup hu (hn.filter _)]
    intro a
    simp only [List.mem_filter, decide_eq_true_eq]
    constructor
    · intro h; exact ⟨hs a h, h⟩
    · intro h; exact h.2
  rw [hperm.countP_eq, List.countP_filter]
  apply List.countP_congr
  intro p _
  cases q p <;> cases decide (p ∈ U) <;> simp

/-! ### tools: sums over an interval of cells -/

theorem int_le_ind {P : Int → Prop} (a : Int) (h0 : P a) (hs : ∀ b, a ≤ b → P b → P (b + 1)) :
    ∀ b, a ≤ b → P b := by
  have : ∀ n : Nat, P (a + n) := by
    intro n
    induction n with
    | zero => simpa using h0
    | succ n ih =>
      have := hs (a + n) (by omega) ih
      have e : a + ((n + 1 : Nat) : Int) = a + n + 1 := by omega
      rw [e]; exact this
  intro b hb
  have := this (b - a).toNat
  have e : a + ((b - a).toNat : Int) = b := by omega
  rw [e] at this; exact this

theorem int_strong_ind {P : Int → Prop} (a : Int)
    (hs : ∀ b, a ≤ b → (∀ c, a ≤ c → c < b → P c) → P b) : ∀ b, a ≤ b → P b := by
  have : ∀ b, a ≤ b → ∀ c, a ≤ c → c < b → P c := by
    apply int_le_ind
    · intro c h1 h2; omega
    · intro b hb ih c h1 h2
      by_cases h : c < b
      · exact ih c h1 h
      · have : c = b := by omega
        subst this; exact hs c h1 ih
  intro b hb
  exact this (b + 1) (by omega) b hb (by omega)

def sumC (f : Int → Int) (a : Int) : Nat → Int
  | 0 => 0
  | n + 1 => sumC f a n + f (a + n)

/-- `Σ_{a ≤ k < b} f k` -/
def sumI (f : Int → Int) (a b : Int) : Int := sumC f a (b - a).toNat

theorem sumI_empty (f : Int → Int) (a : Int) : sumI f a a = 0 := by
  unfold sumI; simp [sumC]

theorem sumI_succ (f : Int → Int) {a b : Int} (h : a ≤ b) :
    sumI f a (b + 1) = sumI f a b + f b := by
  unfold sumI
  have e : (b + 1 - a).toNat = (b - a).toNat + 1 := by omega
  rw [e, sumC]
  have e2 : a + ((b - a).toNat : Int) = b := by omega
  rw [e2]

theorem sumI_le {f g : Int → Int} {a : Int} :
    ∀ b, a ≤ b → (∀ k, a ≤ k → k < b → f k ≤ g k) → sumI f a b ≤ sumI g a b := by
  apply int_le_ind
  · intro _; rw [sumI_empty, sumI_empty]; omega
  · intro b hb ih h
    rw [sumI_succ f hb, sumI_succ g hb]
    have := ih (fun k h1 h2 => h k h1 (by omega))
    have := h b hb (by omega)
    omega

theorem sumI_congr {f g : Int → Int} {a : Int} :
    ∀ b, a ≤ b → (∀ k, a ≤ k → k < b → f k = g k) → sumI f a b = sumI g a b := by
  apply int_le_ind
  · intro _; rw [sumI_empty, sumI_empty]
  · intro b hb ih h
    rw [sumI_succ f hb, sumI_succ g hb, ih (fun k h1 h2 => h k h1 (by omega)), h b hb (by omega)]

/-- termwise `≤` and equal sums: termwise equality -/
theorem sumI_eq_term {f g : Int → Int} {a : Int} :
    ∀ b, a ≤ b → (∀ k, a ≤ k → k < b → f k ≤ g k) → sumI g a b ≤ sumI f a b →
      ∀ k, a ≤ k → k < b → f k = g k := by
  apply int_le_ind
  · intro _ _ k h1 h2; omega
  · intro b hb ih h hsum k h1 h2
    rw [sumI_succ f hb, sumI_succ g hb] at hsum
    have h3 := sumI_le b hb (fun k h1 h2 => h k h1 (by omega))
    have h4 := h b hb (by omega)
    by_cases hk : k < b
    · exact ih (fun k h1 h2 => h k h1 (by omega)) (by omega) k h1 hk
    · have : k = b := by omega
      subst this; omega

theorem sumI_split (f : Int → Int) {a m : Int} (ham : a ≤ m) :
    ∀ b, m ≤ b → sumI f a b = sumI f a m + sumI f m b := by
  apply int_le_ind
  · rw [sumI_empty]; omega
  · intro b hb ih
    rw [sumI_succ f (by omega), sumI_succ f hb, ih]; omega

theorem sumI_add (f g : Int → Int) (a : Int) :
    ∀ b, a ≤ b → sumI (fun k => f k + g k) a b = sumI f a b + sumI g a b := by
  apply int_le_ind
  · rw [sumI_empty, sumI_empty, sumI_empty]; omega
  · intro b hb ih
    rw [sumI_succ _ hb, sumI_succ f hb, sumI_succ g hb, ih]; omega

theorem sumI_tele (bd : Int → Int) (a : Int) :
    ∀ b, a ≤ b → sumI (fun k => bd (k + 1) - bd k) a b = bd b - bd a := by
  apply int_le_ind
  · rw [sumI_empty]; omega
  · intro b hb ih
    rw [sumI_succ _ hb, ih]; omega

/-- a count over the variables whose cell lies in `[a, b)` is a sum over the cells -/
theorem countP_cells (L : List Int) (κ : Int → Int) (Q : Int → Bool) (a : Int) :
    ∀ b, a ≤ b →
      ((L.countP (fun p => decide (a ≤ κ p) && decide (κ p < b) && Q (κ p)) : Nat) : Int) =
        sumI (fun k => if Q k = true then ((L.countP (fun p => decide (κ p = k)) : Nat) : Int)
          else 0) a b := by
  apply int_le_ind
  · rw [sumI_empty, countP_false]
    · rfl
    · intro p _
      by_cases h : a ≤ κ p <;> simp [h]
      intro; omega
  · intro b hb ih
    rw [sumI_succ _ hb, ← ih]
    rw [countP_union (q1 := fun p => decide (a ≤ κ p) && decide (κ p < b) && Q (κ p))
      (q2 := fun p => decide (κ p = b) && Q (κ p))]
    · have : L.countP (fun p => decide (κ p = b) && Q (κ p)) =
          if Q b = true then L.countP (fun p => decide (κ p = b)) else 0 := by
        cases hQ : Q b
        · simp only [Bool.false_eq_true, if_false]
          apply countP_false
          intro p _
          by_cases h : κ p = b
          · rw [h, hQ]; simp
          · simp [h]
        · simp only [if_true]
          apply List.countP_congr
          intro p _
          by_cases h : κ p = b
          · rw [h, hQ]; simp
          · simp [h]
      rw [this]
      split <;> simp
    · intro p _
      by_cases h1 : a ≤ κ p <;> by_cases h2 : κ p < b <;> by_cases h3 : κ p = b <;>
        simp [h1, h2, h3] <;> omega
    · intro p _ h1 h2
      simp only [Bool.and_eq_true, decide_eq_true_eq] at h1 h2
      omega

theorem sumI_one (f : Int → Int) (a : Int) : sumI f a (a + 1) = f a := by
  rw [sumI_succ f (Int.le_refl a), sumI_empty]; omega

theorem countP_add_le {L : List Int} {q q1 q2 : Int → Bool}
    (h1 : ∀ p ∈ L, q1 p = true → q p = true) (h2 : ∀ p ∈ L, q2 p = true → q p = true)
    (hd : ∀ p ∈ L, q1 p = true → q2 p = true → False) :
    L.countP q1 + L.countP q2 ≤ L.countP q := by
  rw [← countP_union (q := fun p => q1 p || q2 p) (fun _ _ => rfl) hd]
  apply List.countP_mono_left
  intro p hp hq
  simp only [Bool.or_eq_true] at hq
  rcases hq with hq | hq
  · exact h1 p hp hq
  · exact h2 p hp hq

theorem countP_le_add {L : List Int} {q q1 q2 : Int → Bool}
    (h : ∀ p ∈ L, q p = true → q1 p = true ∨ q2 p = true) :
    L.countP q ≤ L.countP q1 + L.countP q2 := by
  induction L with
  | nil => simp
  | cons x L ih =>
    rw [List.countP_cons, List.countP_cons, List.countP_cons]
    have h3 := ih (fun p hp => h p (List.mem_cons_of_mem _ hp))
    have h4 := h x List.mem_cons_self
    cases hq : q x <;> cases hq1 : q1 x <;> cases hq2 : q2 x <;> simp_all <;> omega

/-! ### stable cells, stable variables -/

/-- `StV` as a (classical) boolean -/
noncomputable def stvB (bf rx ry : Int → Int) (p : Int) : Bool :=
  @decide (StV bf rx ry p) (Classical.propDecidable _)

theorem stvB_true {bf rx ry : Int → Int} {p : Int} :
    stvB bf rx ry p = true ↔ StV bf rx ry p := by
  unfold stvB; exact @decide_eq_true_iff _ (Classical.propDecidable _)

theorem stvB_false {bf rx ry : Int → Int} {p : Int} :
    stvB bf rx ry p = false ↔ ¬ StV bf rx ry p := by
  rw [← stvB_true]; cases stvB bf rx ry p <;> simp

/-- the predicate counted by `cinR` -/
def confB (rx ry : Int → Int) (a b : Int) : Int → Bool :=
  fun p => decide (a ≤ rx p) && decide (ry p ≤ b)

theorem cinR_eq (rx ry : Int → Int) (L : List Int) (a b : Int) :
    cinR rx ry L a b = ((L.countP (confB rx ry a b) : Nat) : Int) := rfl

theorem confB_true {rx ry : Int → Int} {a b p : Int} :
    confB rx ry a b p = true ↔ a ≤ rx p ∧ ry p ≤ b := by
  simp [confB]

/-- the demand of a cell if it is stable -/
def DS (bd bf : Int → Int) (k : Int) : Int := if bf k > k then bd (k + 1) - bd k else 0
/-- the demand of a cell if it is not stable -/
def DN (bd bf : Int → Int) (k : Int) : Int := if bf k > k then 0 else bd (k + 1) - bd k

theorem sumI_DS_DN (bd bf : Int → Int) {a b : Int} (hab : a ≤ b) :
    sumI (DS bd bf) a b + sumI (DN bd bf) a b = bd b - bd a := by
  rw [← sumI_add _ _ a b hab, ← sumI_tele bd a b hab]
  apply sumI_congr b hab
  intro k _ _
  unfold DS DN
  split <;> omega

theorem sumI_DS_run (bd : Int → Int) {bf : Int → Int} {a b : Int} (hab : a ≤ b)
    (hrun : ∀ k, a ≤ k → k < b → bf k > k) : sumI (DS bd bf) a b = bd b - bd a := by
  rw [← sumI_tele bd a b hab]
  apply sumI_congr b hab
  intro k h1 h2
  unfold DS
  rw [if_pos (hrun k h1 h2)]

section
variable {N : Int} {bd rx ry bf κ : Int → Int} {all U V : List Int}

theorem cinR_void {L : List Int} (hL : ∀ u ∈ L, rx u < ry u) {a b : Int} (hab : b ≤ a) :
    cinR rx ry L a b = 0 := by
  rw [cinR_eq, countP_false]
  · rfl
  · intro p hp
    have := hL p hp
    cases h : confB rx ry a b p
    · rfl
    · rw [confB_true] at h; omega

theorem cinR_top {L : List Int} (hL : ∀ u ∈ L, ry u < N) (a : Int) :
    cinR rx ry L a N = cinR rx ry L a (N - 1) := by
  rw [cinR_eq, cinR_eq]
  congr 1
  apply List.countP_congr
  intro p hp
  have := hL p hp
  rw [confB_true, confB_true]; omega

/-- the top cell is not stable -/
theorem LFin.top (h : LFin N bd rx ry all U bf) : bf N = N - 1 := by
  have hN := h.ctx.hN
  have hrng := h.cb.rng N (by omega) (by omega)
  have htop := h.cb.top
  have hUr : ∀ u ∈ U, rx u < ry u ∧ ry u < N := fun u hu => (h.ctx.rk u (h.usub u hu)).2
  by_cases hc : bf N + 1 < N
  · exfalso
    have he := h.e N (by omega) (by omega) htop hc
    rw [cinR_top (fun u hu => (hUr u hu).2)] at he
    have ht := h.htop
    by_cases h2 : bf N + 1 < N - 1
    · have := h.b (bf N + 1) (N - 1) (by omega) h2 (by omega); omega
    · have e : bf N + 1 = N - 1 := by omega
      rw [e, cinR_void (fun u hu => (hUr u hu).1) (Int.le_refl _)] at he; omega
  · omega

theorem LFin.top_root (h : LFin N bd rx ry all U bf) : bf (N - 1) < N - 1 := by
  have hN := h.ctx.hN
  have ht := h.top
  have := (h.cb.down N (by omega) (by omega) h.cb.top).2
  rw [ht] at this
  rcases this with h0 | h0
  · omega
  · exact h0

/-- the demand of the stable cells below a root is met by stable used variables below it -/
theorem stable_lower (h : LFin N bd rx ry all U bf) :
    ∀ r, 1 ≤ r → r ≤ N → bf r < r →
      sumI (DS bd bf) 1 r ≤
        ((U.countP (fun p => stvB bf rx ry p && decide (ry p ≤ r)) : Nat) : Int) := by
  apply int_strong_ind
  intro r hr1 ih hrN hroot
  have hrng := h.cb.rng r hr1 hrN
  obtain ⟨hup, hnext⟩ := h.cb.down r hr1 hrN hroot
  have hUr : ∀ u ∈ U, 1 ≤ rx u ∧ rx u < ry u ∧ ry u < N :=
    fun u hu => h.ctx.rk u (h.usub u hu)
  have hX : sumI (DS bd bf) (bf r + 1) r ≤
      ((U.countP (confB rx ry (bf r + 1) r) : Nat) : Int) := by
    rw [← cinR_eq]
    by_cases hc : bf r + 1 < r
    · rw [sumI_DS_run bd (by omega) (fun k h1 h2 => hup k (by omega) h2)]
      exact h.e r hr1 hrN hroot hc
    · have : bf r + 1 = r := by omega
      rw [this, sumI_empty]; exact cinR_nonneg _ _ _ _ _
  have hY : ∀ p ∈ U, confB rx ry (bf r + 1) r p = true →
      (stvB bf rx ry p && decide (ry p ≤ r)) = true := by
    intro p hp hc
    rw [confB_true] at hc
    rw [Bool.and_eq_true, stvB_true, decide_eq_true_eq]
    exact ⟨fun k h1 h2 => hup k (by omega) (by omega), hc.2⟩
  by_cases h0 : bf r = 0
  · have e : bf r + 1 = 1 := by omega
    rw [e] at hX hY
    have := List.countP_mono_left hY
    omega
  · have hra : bf (bf r) < bf r := by
      rcases hnext with h1 | h1
      · exact absurd h1 h0
      · exact h1
    have h1 := ih (bf r) (by omega) hroot (by omega) hra
    have h2 := sumI_split (DS bd bf) (by omega : (1 : Int) ≤ bf r) r (by omega)
    have h3 := sumI_split (DS bd bf) (by omega : bf r ≤ bf r + 1) r (by omega)
    have h4 : sumI (DS bd bf) (bf r) (bf r + 1) = 0 := by
      rw [sumI_one]; unfold DS; rw [if_neg (by omega)]
    have h5 := countP_add_le (L := U)
      (q := fun p => stvB bf rx ry p && decide (ry p ≤ r))
      (q1 := fun p => stvB bf rx ry p && decide (ry p ≤ bf r))
      (q2 := confB rx ry (bf r + 1) r)
      (by
        intro p _ hq
        simp only [Bool.and_eq_true, decide_eq_true_eq] at hq ⊢
        exact ⟨hq.1, by omega⟩)
      hY
      (by
        intro p hp hq1 hq2
        have := hUr p hp
        rw [confB_true] at hq2
        simp only [Bool.and_eq_true, decide_eq_true_eq] at hq1
        omega)
    omega

/-- the start of the run of stable cells that ends below `w` -/
theorem run_start (bf : Int → Int) (a : Int) :
    ∀ w, a ≤ w → ∃ s, a ≤ s ∧ s ≤ w ∧ (∀ k, s ≤ k → k < w → bf k > k) ∧
      (s = a ∨ ¬ bf (s - 1) > s - 1) := by
  apply int_le_ind
  · exact ⟨a, Int.le_refl _, Int.le_refl _, fun k h1 h2 => by omega, Or.inl rfl⟩
  · intro w haw ⟨s, h1, h2, h3, h4⟩
    by_cases hw : bf w > w
    · refine ⟨s, h1, by omega, ?_, h4⟩
      intro k hk1 hk2
      by_cases hk : k < w
      · exact h3 k hk1 hk
      · have : k = w := by omega
        subst this; exact hw
    · refine ⟨w + 1, by omega, Int.le_refl _, fun k h1 h2 => by omega, Or.inr ?_⟩
      have : w + 1 - 1 = w := by omega
      rw [this]; exact hw

/-- the stable variables of a matching confined to a zone are at most the demand of its stable
    cells -/
theorem stable_upper (hctx : WCtx N bd rx ry all) (hVs : ∀ u ∈ V, u ∈ all)
    (hVb : ∀ ja yb, 1 ≤ ja → ja < yb → yb ≤ N → cinR rx ry V ja yb ≤ bd yb - bd ja)
    (a : Int) (ha : 1 ≤ a) :
    ∀ w, a ≤ w → w ≤ N →
      ((V.countP (fun p => confB rx ry a w p && stvB bf rx ry p) : Nat) : Int) ≤
        sumI (DS bd bf) a w := by
  apply int_strong_ind
  intro w haw ih hwN
  have hVr : ∀ u ∈ V, rx u < ry u := fun u hu => (hctx.rk u (hVs u hu)).2.1
  obtain ⟨s, hs1, hs2, hrun, hs⟩ := run_start bf a w haw
  have hR : ((V.countP (confB rx ry s w) : Nat) : Int) ≤ sumI (DS bd bf) s w := by
    rw [← cinR_eq]
    by_cases hc : s < w
    · rw [sumI_DS_run bd hs2 hrun]
      exact hVb s w (by omega) hc hwN
    · have : s = w := by omega
      rw [this, sumI_empty, cinR_void hVr (Int.le_refl _)]; omega
  by_cases hsa : s = a
  · subst hsa
    have := List.countP_mono_left (l := V)
      (p := fun p => confB rx ry s w p && stvB bf rx ry p) (q := confB rx ry s w)
      (by intro p _ hq; simp only [Bool.and_eq_true] at hq; exact hq.1)
    omega
  · have hns : ¬ bf (s - 1) > s - 1 := by
      rcases hs with h | h
      · exact absurd h hsa
      · exact h
    have h1 := ih (s - 1) (by omega) (by omega) (by omega)
    have h2 := sumI_split (DS bd bf) (by omega : a ≤ s - 1) w (by omega)
    have h3 := sumI_split (DS bd bf) (by omega : s - 1 ≤ s - 1 + 1) w (by omega)
    have h4 : sumI (DS bd bf) (s - 1) (s - 1 + 1) = 0 := by
      rw [sumI_one]; unfold DS; rw [if_neg hns]
    have e : s - 1 + 1 = s := by omega
    rw [e] at h3 h4
    have h5 := countP_le_add (L := V)
      (q := fun p => confB rx ry a w p && stvB bf rx ry p)
      (q1 := fun p => confB rx ry a (s - 1) p && stvB bf rx ry p)
      (q2 := confB rx ry s w)
      (by
        intro p hp hq
        have := hVr p hp
        simp only [Bool.and_eq_true, confB_true, stvB_true] at hq ⊢
        by_cases hc : s ≤ rx p
        · exact Or.inr ⟨hc, hq.1.2⟩
        · refine Or.inl ⟨⟨hq.1.1, ?_⟩, hq.2⟩
          by_cases hc2 : ry p ≤ s - 1
          · exact hc2
          · exact absurd (hq.2 (s - 1) (by omega) (by omega)) hns)
    omega

/-- `lfin_tight` when there is at least one real cell -/
theorem lfin_tight3 (hN3 : 3 ≤ N) (h : LFin N bd rx ry all U bf)
    (hκ : CellSol N bd rx ry all κ) :
    (∀ p ∈ all, ¬ StV bf rx ry p → ¬ St bf (κ p)) ∧
    (∀ k, 1 ≤ k → k ≤ N - 2 → ¬ St bf k →
      ((all.countP (fun p => decide (κ p = k)) : Nat) : Int) = bd (k + 1) - bd k) ∧
    cinR rx ry U 1 (N - 1) ≥ bd (N - 1) - bd 1 := by
  have hN1 : (1 : Int) ≤ N - 1 := by omega
  have hrk := h.ctx.rk
  have hterm : ∀ k, 1 ≤ k → k < N - 1 → DN bd bf k ≤
      (fun k => if (!decide (bf k > k)) = true then
        ((all.countP (fun p => decide (κ p = k)) : Nat) : Int) else 0) k := by
    intro k h1 h2
    unfold DN
    by_cases hk : bf k > k
    · simp [hk]
    · simp only [hk, if_false, decide_false, Bool.not_false, if_true]
      exact hκ.dem k h1 (by omega)
  have hAB := sumI_le (N - 1) hN1 hterm
  have hB := countP_cells all κ (fun k => !decide (bf k > k)) 1 (N - 1) hN1
  have hc1 : all.countP (fun p => decide (1 ≤ κ p) && decide (κ p < N - 1) &&
        !decide (bf (κ p) > κ p)) = all.countP (fun p => !decide (bf (κ p) > κ p)) := by
    apply List.countP_congr
    intro p hp
    have := hrk p hp
    have := hκ.dom p hp
    have e1 : decide (1 ≤ κ p) = true := decide_eq_true (by omega)
    have e2 : decide (κ p < N - 1) = true := decide_eq_true (by omega)
    rw [e1, e2]; simp
  have hc12 : ∀ p ∈ all, (!decide (bf (κ p) > κ p)) = true →
      (decide (p ∈ U) && !stvB bf rx ry p) = true := by
    intro p hp hq
    have hd := hκ.dom p hp
    have hns : ¬ StV bf rx ry p := by
      intro hst
      have := hst (κ p) hd.1 hd.2
      simp at hq; omega
    have hu : p ∈ U := by
      by_cases hu : p ∈ U
      · exact hu
      · exact absurd (h.f p hp hu) hns
    simp only [Bool.and_eq_true, decide_eq_true_eq, Bool.not_eq_true', stvB_false]
    exact ⟨hu, hns⟩
  have hle := List.countP_mono_left hc12
  have hsub := countP_sub h.nodup h.unodup h.usub (fun p => !stvB bf rx ry p)
  have hsp := countP_split U (confB rx ry 1 (N - 1)) (stvB bf rx ry)
  have hcN : U.countP (fun p => confB rx ry 1 (N - 1) p && !stvB bf rx ry p) =
      U.countP (fun p => !stvB bf rx ry p) := by
    apply List.countP_congr
    intro p hp
    have := hrk p (h.usub p hp)
    have e : confB rx ry 1 (N - 1) p = true := by rw [confB_true]; omega
    rw [e]; simp
  have hcS : U.countP (fun p => stvB bf rx ry p && decide (ry p ≤ N - 1)) ≤
      U.countP (fun p => confB rx ry 1 (N - 1) p && stvB bf rx ry p) := by
    apply List.countP_mono_left
    intro p hp hq
    have := hrk p (h.usub p hp)
    simp only [Bool.and_eq_true, confB_true] at hq ⊢
    exact ⟨by omega, hq.1⟩
  have hS := stable_lower h (N - 1) hN1 (by omega) h.top_root
  have hB' := h.b 1 (N - 1) (by omega) (by omega) (by omega)
  rw [cinR_eq] at hB'
  have hsum := sumI_DS_DN bd bf hN1
  have heq : all.countP (fun p => !decide (bf (κ p) > κ p)) =
      all.countP (fun p => decide (p ∈ U) && !stvB bf rx ry p) := by omega
  refine ⟨?_, ?_, ?_⟩
  · intro p hp hns hst
    have hu : p ∈ U := by
      by_cases hu : p ∈ U
      · exact hu
      · exact absurd (h.f p hp hu) hns
    have := countP_rev_of_eq hc12 heq p hp (by
      simp only [Bool.and_eq_true, decide_eq_true_eq, Bool.not_eq_true', stvB_false]
      exact ⟨hu, hns⟩)
    unfold St at hst
    simp at this; omega
  · intro k h1 h2 hns
    have := sumI_eq_term (N - 1) hN1 hterm (by omega) k h1 (by omega)
    unfold St at hns
    unfold DN at this
    simp only [hns, if_false, decide_false, Bool.not_false, if_true] at this
    omega
  · rw [cinR_eq]; omega

/-- (1) every solution is tight on the non-stable cells -/
theorem lfin_tight (h : LFin N bd rx ry all U bf) (hκ : CellSol N bd rx ry all κ) :
    (∀ p ∈ all, ¬ StV bf rx ry p → ¬ St bf (κ p)) ∧
    (∀ k, 1 ≤ k → k ≤ N - 2 → ¬ St bf k →
      ((all.countP (fun p => decide (κ p = k)) : Nat) : Int) = bd (k + 1) - bd k) ∧
    cinR rx ry U 1 (N - 1) ≥ bd (N - 1) - bd 1 := by
  by_cases hN3 : 3 ≤ N
  · exact lfin_tight3 hN3 h hκ
  · have hN := h.ctx.hN
    refine ⟨?_, ?_, ?_⟩
    · intro p hp; have := h.ctx.rk p hp; omega
    · intro k h1 h2; omega
    · have e : N - 1 = 1 := by omega
      rw [e]
      have := cinR_nonneg rx ry U 1 1
      omega

/-- the common part of (2) and (3): a zone whose demand is met by variables of a matching `W`
    confined to it cannot receive one more non-stable variable -/
theorem zone_contra (h : LFin N bd rx ry all U bf) (hκ : CellSol N bd rx ry all κ)
    {W : List Int} (hWn : W.Nodup) (hWs : ∀ u ∈ W, u ∈ all)
    (hWb : ∀ ja yb, 1 ≤ ja → ja < yb → yb ≤ N → cinR rx ry W ja yb ≤ bd yb - bd ja)
    {i a w : Int} (hi : i ∈ all) (hiW : i ∉ W) (hns : ¬ StV bf rx ry i)
    (ha : 1 ≤ a) (hai : a ≤ κ i) (hiw : κ i < w) (hw : w ≤ N - 1)
    (hz : cinR rx ry W a w ≥ bd w - bd a) : False := by
  obtain ⟨t1, t2, _⟩ := lfin_tight h hκ
  have haw : a ≤ w := by omega
  have hsp := countP_split W (confB rx ry a w) (stvB bf rx ry)
  have hS := stable_upper (bf := bf) h.ctx hWs hWb a ha w haw (by omega)
  have hsub := countP_sub h.nodup hWn hWs (fun p => confB rx ry a w p && !stvB bf rx ry p)
  have hlt := countP_lt_of_witness (L := all)
    (q1 := fun p => decide (p ∈ W) && (confB rx ry a w p && !stvB bf rx ry p))
    (q2 := fun p => decide (a ≤ κ p) && decide (κ p < w) && !decide (bf (κ p) > κ p))
    (by
      intro p hp hq
      simp only [Bool.and_eq_true, decide_eq_true_eq, confB_true, Bool.not_eq_true',
        stvB_false] at hq
      have hd := hκ.dom p hp
      have := t1 p hp hq.2.2
      unfold St at this
      simp only [Bool.and_eq_true, decide_eq_true_eq, Bool.not_eq_true',
        decide_eq_false_iff_not]
      exact ⟨⟨by omega, by omega⟩, this⟩)
    hi
    (by
      have := t1 i hi hns
      unfold St at this
      simp only [Bool.and_eq_true, decide_eq_true_eq, Bool.not_eq_true',
        decide_eq_false_iff_not]
      exact ⟨⟨hai, hiw⟩, this⟩)
    (by simp [hiW])
  have hcells := countP_cells all κ (fun k => !decide (bf k > k)) a w haw
  have hcongr : sumI (fun k => if (!decide (bf k > k)) = true then
        ((all.countP (fun p => decide (κ p = k)) : Nat) : Int) else 0) a w =
      sumI (DN bd bf) a w := by
    apply sumI_congr w haw
    intro k h1 h2
    unfold DN
    by_cases hk : bf k > k
    · simp [hk]
    · simp only [hk, if_false, decide_false, Bool.not_false, if_true]
      exact t2 k (by omega) (by omega) hk
  have hsum := sumI_DS_DN bd bf haw
  rw [cinR_eq] at hz
  omega

/-- the common lemma of (2) and (4): if the demand of the zone `[a, b]` (cells `a … b-1`) is met
    by variables of a matching `V` other than `i` confined to it and `i` is not stable, then `i`
    takes no cell of the zone -/
theorem lfin_zone (h : LFin N bd rx ry all U bf) (hκ : CellSol N bd rx ry all κ)
    (V : List Int) (hVn : V.Nodup) (hVs : ∀ u ∈ V, u ∈ all)
    (hVb : ∀ ja yb, 1 ≤ ja → ja < yb → yb ≤ N → cinR rx ry V ja yb ≤ bd yb - bd ja)
    (i a b : Int) (hi : i ∈ V) (hns : ¬ StV bf rx ry i) (h1 : 1 ≤ a) (h4 : b ≤ N)
    (hz : cinR rx ry (Oth V i) a b ≥ bd b - bd a) : ¬ (a ≤ κ i ∧ κ i < b) := by
  intro ⟨hai, hib⟩
  have hia := hVs i hi
  have hrk := h.ctx.rk i hia
  have hd := hκ.dom i hia
  have hOs : (Oth V i).Sublist V := List.filter_sublist
  have hOb : ∀ ja yb, 1 ≤ ja → ja < yb → yb ≤ N →
      cinR rx ry (Oth V i) ja yb ≤ bd yb - bd ja :=
    fun ja yb a b c => Int.le_trans (cinR_sublist rx ry hOs ja yb) (hVb ja yb a b c)
  have hw : b ≤ N - 1 := by
    by_cases hw : b ≤ N - 1
    · exact hw
    · exfalso
      have e : b = N := by omega
      rw [e, cinR_top (fun u hu => (h.ctx.rk u (hVs u (hOs.subset hu))).2.2)] at hz
      have := hOb a (N - 1) h1 (by omega) (by omega)
      have := h.htop
      omega
  exact zone_contra h hκ (W := Oth V i) (hVn.sublist hOs) (fun u hu => hVs u (hOs.subset hu))
    hOb hia (by unfold Oth; simp) hns h1 hai hib hw hz

set_option linter.unusedVariables false in
/-- (2) pruning of a minimum: a zone filled by the other variables of a matching pushes a
    non-stable variable above it -/
theorem lfin_prune (h : LFin N bd rx ry all U bf) (hκ : CellSol N bd rx ry all κ)
    (V : List Int) (hVn : V.Nodup) (hVs : ∀ u ∈ V, u ∈ all)
    (hVb : ∀ ja yb, 1 ≤ ja → ja < yb → yb ≤ N → cinR rx ry V ja yb ≤ bd yb - bd ja)
    (i ja w : Int) (hi : i ∈ V) (hns : ¬ StV bf rx ry i) (h1 : 1 ≤ ja) (h2 : ja ≤ rx i)
    (h3 : rx i < w) (h4 : w ≤ N)
    (hz : cinR rx ry (Oth V i) ja w ≥ bd w - bd ja) : w ≤ κ i := by
  have hd := hκ.dom i (hVs i hi)
  have := lfin_zone h hκ V hVn hVs hVb i ja w hi hns h1 h4 hz
  omega

set_option linter.unusedVariables false in
/-- (4) pruning of a maximum, the mirror image of (2): a zone filled by the other variables of a
    matching that contains the upper end of a non-stable variable pushes it below the zone -/
theorem lfin_prune_up (h : LFin N bd rx ry all U bf) (hκ : CellSol N bd rx ry all κ)
    (V : List Int) (hVn : V.Nodup) (hVs : ∀ u ∈ V, u ∈ all)
    (hVb : ∀ ja yb, 1 ≤ ja → ja < yb → yb ≤ N → cinR rx ry V ja yb ≤ bd yb - bd ja)
    (i w yb : Int) (hi : i ∈ V) (hns : ¬ StV bf rx ry i) (h1 : 1 ≤ w) (h2 : w < ry i)
    (h3 : ry i ≤ yb) (h4 : yb ≤ N)
    (hz : cinR rx ry (Oth V i) w yb ≥ bd yb - bd w) : κ i < w := by
  have hd := hκ.dom i (hVs i hi)
  have := lfin_zone h hκ V hVn hVs hVb i w yb hi hns h1 h4 hz
  omega

/-- (3) a variable outside a matching, inside a zone filled by the matching, is stable -/
theorem lfin_unused (h : LFin N bd rx ry all U bf) (hκ : CellSol N bd rx ry all κ)
    (V : List Int) (hVn : V.Nodup) (hVs : ∀ u ∈ V, u ∈ all)
    (hVb : ∀ ja yb, 1 ≤ ja → ja < yb → yb ≤ N → cinR rx ry V ja yb ≤ bd yb - bd ja)
    (i a : Int) (hi : i ∈ all) (hiV : i ∉ V) (h1 : 1 ≤ a) (h2 : a ≤ rx i)
    (hz : cinR rx ry V a (ry i) ≥ bd (ry i) - bd a) : StV bf rx ry i := by
  by_cases hst : StV bf rx ry i
  · exact hst
  · exfalso
    have hrk := h.ctx.rk i hi
    have hd := hκ.dom i hi
    exact zone_contra h hκ hVn hVs hVb hi hiV hst h1 (by omega) hd.2 (by omega) hz

end

end Gcc
end Nucs
