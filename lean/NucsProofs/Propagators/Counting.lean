import NucsProofs.Basic
/-!
  and, exactly_true, exactly_eq (count_eq is in `CountEq.lean`, which imports this file).
  Generic helpers are prefixed `Cnt.` to avoid clashes with other proof files.
-/
namespace Nucs

/-! ### generic helpers -/

/-- a propagator that watches MIN|MAX everywhere and is `Sound` satisfies `TrigOk` -/
theorem Cnt.trigOk_of_minMax (a : Alg) (hs : Sound a)
    (hm : ∀ ps n k, maskAlg a ps n k = Ev.minMax) : TrigOk a := by
  intro ps B st B' B'' hc hne hrun hst hle _ hq
  have hS := (hs ps B st B' hc hne hrun).1 hst
  have hl1 := Box.le_length hle
  have hl2 := Box.le_length hS.1
  have hBB : B'' = B := by
    apply Box.ext_get (by omega)
    intro k hk
    have := hq k (by omega)
    rw [hm] at this
    exact eq_of_quiet_minMax this
  subst hBB
  have : B' = B'' := Box.le_antisymm hS.1 hle
  subst this
  exact ⟨st, hrun, hst⟩

theorem Cnt.front_back (B : Box) (h : B ≠ []) : B = B.front ++ [B.back] := by
  unfold Box.front Box.back
  rw [List.getLastD_eq_getLast?, List.getLast?_eq_some_getLast h]
  simp [List.dropLast_concat_getLast]

theorem Cnt.tfront_tback (t : List Int) (h : t ≠ []) : t = tFront t ++ [tBack t] := by
  unfold tFront tBack
  rw [List.getLastD_eq_getLast?, List.getLast?_eq_some_getLast h]
  simp [List.dropLast_concat_getLast]

@[simp] theorem Cnt.tFront_snoc (ts : List Int) (v : Int) : tFront (ts ++ [v]) = ts := by
  simp [tFront]

@[simp] theorem Cnt.tBack_snoc (ts : List Int) (v : Int) : tBack (ts ++ [v]) = v := by
  simp [tBack]

@[simp] theorem Cnt.front_snoc (xs : Box) (y : Dom) : Box.front (xs ++ [y]) = xs := by
  simp [Box.front]

@[simp] theorem Cnt.back_snoc (xs : Box) (y : Dom) : Box.back (xs ++ [y]) = y := by
  simp [Box.back]

theorem Cnt.inBox_snoc : ∀ (ts : List Int) (v : Int) (xs : Box) (y : Dom),
    inBox (ts ++ [v]) (xs ++ [y]) ↔ inBox ts xs ∧ inDom v y
  | [], v, [], y => by simp [inBox]
  | t :: ts, v, d :: ds, y => by
    have := Cnt.inBox_snoc ts v ds y
    simp only [List.cons_append, inBox, this, and_assoc]
  | [], v, d :: ds, y => by
    cases ds <;> simp [inBox]
  | t :: ts, v, [], y => by
    cases ts <;> simp [inBox]

/-- a tuple in `xs ++ [y]` is of the form `ts ++ [v]` -/
theorem Cnt.inBox_snoc_elim {t : List Int} {xs : Box} {y : Dom} (h : inBox t (xs ++ [y])) :
    ∃ ts v, t = ts ++ [v] ∧ inBox ts xs ∧ inDom v y := by
  have hl := inBox_length h
  have hne : t ≠ [] := by intro h0; subst h0; simp at hl
  have ht := Cnt.tfront_tback t hne
  refine ⟨tFront t, tBack t, ht, ?_⟩
  rw [ht] at h
  exact (Cnt.inBox_snoc _ _ _ _).mp h

theorem Cnt.le_snoc : ∀ (xs' : Box) (y' : Dom) (xs : Box) (y : Dom),
    Box.le (xs' ++ [y']) (xs ++ [y]) ↔ Box.le xs' xs ∧ (y.1 ≤ y'.1 ∧ y'.2 ≤ y.2)
  | [], _, [], _ => by simp [Box.le]
  | _ :: ds', y', _ :: ds, y => by
    have := Cnt.le_snoc ds' y' ds y
    simp only [List.cons_append, Box.le, this, and_assoc]
  | [], _, _ :: ds, _ => by
    cases ds <;> simp [Box.le]
  | _ :: ds', _, [], _ => by
    cases ds' <;> simp [Box.le]

theorem Cnt.nonempty_snoc (xs : Box) (y : Dom) :
    Box.Nonempty (xs ++ [y]) ↔ Box.Nonempty xs ∧ y.1 ≤ y.2 := by
  simp only [Box.Nonempty, List.mem_append, List.mem_singleton]
  constructor
  · intro h; exact ⟨fun d hd => h d (Or.inl hd), h y (Or.inr rfl)⟩
  · rintro ⟨h1, h2⟩ d (hd | hd)
    · exact h1 d hd
    · subst hd; exact h2

theorem Cnt.within_snoc (xs : Box) (y : Dom) (lo hi : Int) :
    Box.within (xs ++ [y]) lo hi ↔ Box.within xs lo hi ∧ (lo ≤ y.1 ∧ y.2 ≤ hi) := by
  simp only [Box.within, List.mem_append, List.mem_singleton]
  constructor
  · intro h; exact ⟨fun d hd => h d (Or.inl hd), h y (Or.inr rfl)⟩
  · rintro ⟨h1, h2⟩ d (hd | hd)
    · exact h1 d hd
    · subst hd; exact h2

theorem Cnt.pointBox_snoc (ts : List Int) (v : Int) :
    pointBox (ts ++ [v]) = pointBox ts ++ [(v, v)] := by
  simp [pointBox]

theorem Cnt.getI_eq (l : List Int) (k : Nat) (h : k < l.length) : getI l k = l[k] := by
  simp [getI, List.getD, List.getElem?_eq_getElem h]

theorem Cnt.getDom_eq (l : Box) (k : Nat) (h : k < l.length) : getDom l k = l[k] := by
  simp [getDom, List.getD, List.getElem?_eq_getElem h]

theorem Cnt.getDom_mem (l : Box) (k : Nat) (h : k < l.length) : getDom l k ∈ l := by
  rw [Cnt.getDom_eq l k h]; exact List.getElem_mem h

theorem Cnt.getI_snoc_lt (ts : List Int) (v : Int) (j : Nat) (h : j < ts.length) :
    getI (ts ++ [v]) j = getI ts j := by
  simp [getI, List.getD, List.getElem?_append_left h]

theorem Cnt.getI_snoc_eq (ts : List Int) (v : Int) : getI (ts ++ [v]) ts.length = v := by
  simp [getI, List.getD]

theorem Cnt.getDom_snoc_lt (xs : Box) (y : Dom) (j : Nat) (h : j < xs.length) :
    getDom (xs ++ [y]) j = getDom xs j := by
  simp [getDom, List.getD, List.getElem?_append_left h]

theorem Cnt.getDom_snoc_eq (xs : Box) (y : Dom) : getDom (xs ++ [y]) xs.length = y := by
  simp [getDom, List.getD]

/-- bounds of a box `xs ++ [y]` are attained when those of `xs` and of `y` are -/
theorem Cnt.snoc_bounds (P : List Int → Prop) (xs : Box) (y : Dom) (hy : y.1 ≤ y.2)
    (hx : ∀ j, j < xs.length → ∀ w, (w = (getDom xs j).1 ∨ w = (getDom xs j).2) →
      ∃ ts v, inBox ts xs ∧ inDom v y ∧ P (ts ++ [v]) ∧ getI ts j = w)
    (hy1 : ∃ ts, inBox ts xs ∧ P (ts ++ [y.1])) (hy2 : ∃ ts, inBox ts xs ∧ P (ts ++ [y.2])) :
    ∀ j, j < (xs ++ [y]).length →
      (∃ t, inBox t (xs ++ [y]) ∧ P t ∧ getI t j = (getDom (xs ++ [y]) j).1) ∧
      (∃ t, inBox t (xs ++ [y]) ∧ P t ∧ getI t j = (getDom (xs ++ [y]) j).2) := by
  intro j hj
  rw [List.length_append, List.length_singleton] at hj
  by_cases hjl : j < xs.length
  · rw [Cnt.getDom_snoc_lt _ _ _ hjl]
    have main : ∀ w, (w = (getDom xs j).1 ∨ w = (getDom xs j).2) →
        ∃ t, inBox t (xs ++ [y]) ∧ P t ∧ getI t j = w := by
      intro w hw
      obtain ⟨ts, v, hts, hv, hP, hg⟩ := hx j hjl w hw
      exact ⟨ts ++ [v], (Cnt.inBox_snoc _ _ _ _).mpr ⟨hts, hv⟩, hP, by
        rw [Cnt.getI_snoc_lt _ _ _ (by rw [inBox_length hts]; exact hjl)]; exact hg⟩
    exact ⟨main _ (Or.inl rfl), main _ (Or.inr rfl)⟩
  · have hjn : j = xs.length := by omega
    subst hjn
    rw [Cnt.getDom_snoc_eq]
    obtain ⟨t1, ht1, hP1⟩ := hy1
    obtain ⟨t2, ht2, hP2⟩ := hy2
    refine ⟨⟨_, (Cnt.inBox_snoc _ _ _ _).mpr ⟨ht1, Int.le_refl _, hy⟩, hP1, ?_⟩,
      ⟨_, (Cnt.inBox_snoc _ _ _ _).mpr ⟨ht2, hy, Int.le_refl _⟩, hP2, ?_⟩⟩
    · rw [← inBox_length ht1, Cnt.getI_snoc_eq]
    · rw [← inBox_length ht2, Cnt.getI_snoc_eq]

/-- the tuples of all minima / all maxima -/
theorem Cnt.inBox_mins : ∀ {xs : Box}, Box.Nonempty xs → inBox (xs.map (·.1)) xs
  | [], _ => trivial
  | _ :: _, h => ⟨⟨Int.le_refl _, (Box.nonempty_cons.mp h).1⟩, Cnt.inBox_mins (Box.nonempty_cons.mp h).2⟩

theorem Cnt.inBox_maxs : ∀ {xs : Box}, Box.Nonempty xs → inBox (xs.map (·.2)) xs
  | [], _ => trivial
  | _ :: _, h => ⟨⟨(Box.nonempty_cons.mp h).1, Int.le_refl _⟩, Cnt.inBox_maxs (Box.nonempty_cons.mp h).2⟩

theorem Cnt.getI_mins (xs : Box) (j : Nat) (h : j < xs.length) :
    getI (xs.map (·.1)) j = (getDom xs j).1 := by
  simp [getI, getDom, List.getD, List.getElem?_eq_getElem h]

theorem Cnt.getI_maxs (xs : Box) (j : Nat) (h : j < xs.length) :
    getI (xs.map (·.2)) j = (getDom xs j).2 := by
  simp [getI, getDom, List.getD, List.getElem?_eq_getElem h]

/-- pin position `k` of a box to the value `v` -/
def Cnt.pin (B : Box) (k : Nat) (v : Int) : Box := B.set k (v, v)

theorem Cnt.inBox_pin : ∀ {t : List Int} {B : Box} (k : Nat) (v : Int),
    inBox t (Cnt.pin B k v) → k < B.length → inDom v (getDom B k) → inBox t B ∧ getI t k = v
  | x :: _, d :: _, 0, v, h, _, hv => by
    simp only [Cnt.pin, List.set_cons_zero, inBox, inDom, getDom, List.getD_cons_zero] at *
    have : x = v := by omega
    subst this
    exact ⟨⟨hv, h.2⟩, by simp [getI]⟩
  | _ :: ts, _ :: ds, k + 1, v, h, hk, hv => by
    simp only [Cnt.pin, List.set_cons_succ, inBox] at h
    have := Cnt.inBox_pin (t := ts) (B := ds) k v h.2 (by simpa using hk) (by simpa [getDom] using hv)
    exact ⟨⟨h.1, this.1⟩, by simpa [getI] using this.2⟩
  | [], [], _, _, _, hk, _ => by simp at hk
  | [], _ :: _, k, _, h, _, _ => by cases k <;> simp [Cnt.pin, inBox] at h
  | _ :: _, [], _, _, _, hk, _ => by simp at hk

theorem Cnt.pin_length (B : Box) (k : Nat) (v : Int) : (Cnt.pin B k v).length = B.length := by
  simp [Cnt.pin]

theorem Cnt.pin_nonempty {B : Box} (h : B.Nonempty) (k : Nat) (v : Int) : (Cnt.pin B k v).Nonempty := by
  intro d hd
  rcases List.mem_or_eq_of_mem_set hd with h1 | h1
  · exact h d h1
  · subst h1; exact Int.le_refl _

/-- effect of `set` on the number of elements satisfying a predicate -/
theorem Cnt.filter_length_set (p : Dom → Bool) (e : Dom) : ∀ (B : Box) (k : Nat), k < B.length →
    (List.filter p (B.set k e)).length + (if p (getDom B k) then 1 else 0) =
      (List.filter p B).length + (if p e then 1 else 0)
  | d :: ds, 0, _ => by
    simp only [List.set_cons_zero, List.filter_cons, getDom, List.getD_cons_zero]
    cases p d <;> cases p e <;> simp <;> omega
  | d :: ds, k + 1, hk => by
    have ih := Cnt.filter_length_set p e ds k (by simpa using hk)
    have hg : getDom (d :: ds) (k + 1) = getDom ds k := by simp [getDom]
    rw [hg]
    generalize (if p (getDom ds k) = true then 1 else 0) = z at *
    simp only [List.set_cons_succ, List.filter_cons]
    cases p d <;> simp <;> omega
  | [], _, hk => by simp at hk

/-! ### counting the domains fixed to / excluding a value -/

theorem Cnt.cntOut_nil (a : Int) : cntOut a [] = 0 := rfl
theorem Cnt.cntFix_nil (a : Int) : cntFix a [] = 0 := rfl

theorem Cnt.cntOut_cons (a : Int) (d : Dom) (ds : Box) :
    cntOut a (d :: ds) = cntOut a ds + (if d.1 > a ∨ d.2 < a then 1 else 0) := by
  simp only [cntOut, List.filter_cons]
  by_cases h : d.1 > a ∨ d.2 < a <;> simp [h]

theorem Cnt.cntFix_cons (a : Int) (d : Dom) (ds : Box) :
    cntFix a (d :: ds) = cntFix a ds + (if d.1 = a ∧ d.2 = a then 1 else 0) := by
  simp only [cntFix, List.filter_cons]
  by_cases h : d.1 = a ∧ d.2 = a
  · simp [h]
  · have : (d.1 == a && d.2 == a) = false := by
      simp only [Bool.and_eq_false_iff, beq_eq_false_iff_ne]; omega
    simp [this, h]

theorem Cnt.count_cons (a x : Int) (xs : List Int) :
    (x :: xs).count a = xs.count a + (if x = a then 1 else 0) := by
  simp [List.count_cons]

/-- fixed and excluded domains are disjoint -/
theorem Cnt.fix_add_out_le (a : Int) : ∀ (B : Box), B.Nonempty → cntFix a B + cntOut a B ≤ B.length
  | [], _ => by simp [Cnt.cntOut_nil, Cnt.cntFix_nil]
  | d :: ds, h => by
    rw [Box.nonempty_cons] at h
    have := Cnt.fix_add_out_le a ds h.2
    rw [Cnt.cntFix_cons, Cnt.cntOut_cons, List.length_cons]
    split <;> split <;> omega

/-- a free domain (contains `a`, not fixed) makes the inequality strict -/
theorem Cnt.fix_add_out_lt (a : Int) : ∀ (B : Box), B.Nonempty →
    (∃ d ∈ B, d.1 ≤ a ∧ a ≤ d.2 ∧ ¬ (d.1 = a ∧ d.2 = a)) → cntFix a B + cntOut a B < B.length
  | [], _, h => by simp at h
  | d :: ds, h, hex => by
    have h' := Box.nonempty_cons.mp h
    have hle := Cnt.fix_add_out_le a ds h'.2
    rw [Cnt.cntFix_cons, Cnt.cntOut_cons, List.length_cons]
    obtain ⟨e, he, hfree⟩ := hex
    rcases List.mem_cons.mp he with h1 | h1
    · subst h1
      split <;> split <;> omega
    · have := Cnt.fix_add_out_lt a ds h'.2 ⟨e, h1, hfree⟩
      split <;> split <;> omega

theorem Cnt.cntFix_le_count (a : Int) : ∀ {t : List Int} {B : Box}, inBox t B → cntFix a B ≤ t.count a
  | [], [], _ => by simp [Cnt.cntFix_nil]
  | x :: xs, d :: ds, h => by
    have := Cnt.cntFix_le_count a h.2
    have hx : d.1 ≤ x ∧ x ≤ d.2 := h.1
    rw [Cnt.cntFix_cons, Cnt.count_cons]
    split <;> split <;> omega
  | [], _ :: _, h => by simp [inBox] at h
  | _ :: _, [], h => by simp [inBox] at h

theorem Cnt.count_add_out_le (a : Int) : ∀ {t : List Int} {B : Box}, inBox t B →
    t.count a + cntOut a B ≤ B.length
  | [], [], _ => by simp [Cnt.cntOut_nil]
  | x :: xs, d :: ds, h => by
    have := Cnt.count_add_out_le a h.2
    have hx : d.1 ≤ x ∧ x ≤ d.2 := h.1
    rw [Cnt.cntOut_cons, Cnt.count_cons, List.length_cons]
    split <;> split <;> omega
  | [], _ :: _, h => by simp [inBox] at h
  | _ :: _, [], h => by simp [inBox] at h

/-- every count between the two bounds is realised by a tuple of the box -/
theorem Cnt.exists_count (a : Int) : ∀ (B : Box) (m : Nat), B.Nonempty → cntFix a B ≤ m →
    m + cntOut a B ≤ B.length → ∃ t, inBox t B ∧ t.count a = m
  | [], m, _, _, h2 => ⟨[], trivial, by simp at h2; simp [h2]⟩
  | d :: ds, m, h, h1, h2 => by
    have h' := Box.nonempty_cons.mp h
    have hle := Cnt.fix_add_out_le a ds h'.2
    rw [Cnt.cntFix_cons] at h1
    rw [Cnt.cntOut_cons, List.length_cons] at h2
    by_cases hin : d.1 ≤ a ∧ a ≤ d.2
    · -- `a` is available here: use it when still needed
      by_cases hm : cntFix a ds < m
      · obtain ⟨t, ht, hc⟩ := Cnt.exists_count a ds (m - 1) h'.2 (by omega) (by split at h2 <;> omega)
        exact ⟨a :: t, ⟨hin, ht⟩, by rw [Cnt.count_cons, hc]; simp; omega⟩
      · -- not needed: then `d` is not fixed, pick a bound different from `a`
        have hnf : ¬ (d.1 = a ∧ d.2 = a) := by intro hf; rw [if_pos hf] at h1; omega
        rw [if_neg hnf] at h1
        obtain ⟨t, ht, hc⟩ := Cnt.exists_count a ds m h'.2 (by omega) (by split at h2 <;> omega)
        by_cases h1a : d.1 = a
        · exact ⟨d.2 :: t, ⟨⟨h'.1, Int.le_refl _⟩, ht⟩, by
            rw [Cnt.count_cons, hc, if_neg (by omega)]; rfl⟩
        · exact ⟨d.1 :: t, ⟨⟨Int.le_refl _, h'.1⟩, ht⟩, by
            rw [Cnt.count_cons, hc, if_neg h1a]; rfl⟩
    · have hout : d.1 > a ∨ d.2 < a := by omega
      rw [if_pos hout] at h2
      rw [if_neg (by omega)] at h1
      obtain ⟨t, ht, hc⟩ := Cnt.exists_count a ds m h'.2 (by omega) (by omega)
      exact ⟨d.1 :: t, ⟨⟨Int.le_refl _, h'.1⟩, ht⟩, by
        rw [Cnt.count_cons, hc, if_neg (by omega)]; rfl⟩

theorem Cnt.cntFix_pointBox (a : Int) : ∀ (t : List Int), cntFix a (pointBox t) = t.count a
  | [] => rfl
  | x :: xs => by
    have := Cnt.cntFix_pointBox a xs
    simp only [pointBox, List.map_cons] at *
    rw [Cnt.cntFix_cons, Cnt.count_cons, this]
    simp

theorem Cnt.cntOut_pointBox (a : Int) : ∀ (t : List Int), cntOut a (pointBox t) + t.count a = t.length
  | [] => rfl
  | x :: xs => by
    have := Cnt.cntOut_pointBox a xs
    simp only [pointBox, List.map_cons] at *
    rw [Cnt.cntOut_cons, Cnt.count_cons, List.length_cons]
    split <;> split <;> omega

/-! ### `excludeVal` and `forceVal` -/

theorem Cnt.excludeVal_eq (a : Int) (d : Dom) :
    excludeVal a d = if d.1 = a ∧ d.2 > a then (a + 1, d.2)
      else if d.1 < a ∧ d.2 = a then (d.1, a - 1) else d := by
  simp only [excludeVal, Bool.and_eq_true, beq_iff_eq, decide_eq_true_eq]

theorem Cnt.forceVal_eq (a : Int) (d : Dom) :
    forceVal a d = if d.1 ≤ a ∧ a ≤ d.2 then (a, a) else d := by
  simp only [forceVal, Bool.and_eq_true, decide_eq_true_eq]

theorem Cnt.excludeVal_le (a : Int) (d : Dom) :
    d.1 ≤ (excludeVal a d).1 ∧ (excludeVal a d).2 ≤ d.2 := by
  rw [Cnt.excludeVal_eq]; split
  · simp; omega
  · split <;> (try simp) <;> omega

theorem Cnt.excludeVal_nonempty (a : Int) (d : Dom) (h : d.1 ≤ d.2) :
    (excludeVal a d).1 ≤ (excludeVal a d).2 := by
  rw [Cnt.excludeVal_eq]; split
  · simp; omega
  · split <;> (try simp) <;> omega

/-- after `excludeVal` the value `a` is a bound only of a domain fixed to `a` -/
theorem Cnt.excludeVal_bound (a : Int) (d : Dom) (_h : d.1 ≤ d.2)
    (hb : (excludeVal a d).1 = a ∨ (excludeVal a d).2 = a) :
    (excludeVal a d).1 = a ∧ (excludeVal a d).2 = a := by
  rw [Cnt.excludeVal_eq] at *
  split at hb
  · simp at hb; omega
  · split at hb
    · simp at hb; omega
    · rename_i h1 h2; rw [if_neg h1, if_neg h2]; omega

theorem Cnt.excludeVal_idem (a : Int) (d : Dom) : excludeVal a (excludeVal a d) = excludeVal a d := by
  rw [Cnt.excludeVal_eq a d]
  split
  · rw [Cnt.excludeVal_eq]; simp; omega
  · split
    · rw [Cnt.excludeVal_eq]; simp; omega
    · rename_i h1 h2; rw [Cnt.excludeVal_eq, if_neg h1, if_neg h2]

theorem Cnt.excludeVal_fix (a : Int) (d : Dom) (_h : d.1 ≤ d.2) :
    ((excludeVal a d).1 = a ∧ (excludeVal a d).2 = a) ↔ (d.1 = a ∧ d.2 = a) := by
  rw [Cnt.excludeVal_eq]; split
  · simp; omega
  · split
    · simp; omega
    · exact Iff.rfl

theorem Cnt.forceVal_le (a : Int) (d : Dom) :
    d.1 ≤ (forceVal a d).1 ∧ (forceVal a d).2 ≤ d.2 := by
  rw [Cnt.forceVal_eq]; split <;> (try simp) <;> omega

theorem Cnt.forceVal_nonempty (a : Int) (d : Dom) (h : d.1 ≤ d.2) :
    (forceVal a d).1 ≤ (forceVal a d).2 := by
  rw [Cnt.forceVal_eq]; split <;> (try simp) <;> omega

/-- after `forceVal` no domain contains `a` without being fixed to it -/
theorem Cnt.forceVal_free (a : Int) (d : Dom)
    (h1 : (forceVal a d).1 ≤ a) (h2 : a ≤ (forceVal a d).2) :
    (forceVal a d).1 = a ∧ (forceVal a d).2 = a := by
  rw [Cnt.forceVal_eq] at *
  by_cases hp : d.1 ≤ a ∧ a ≤ d.2
  · rw [if_pos hp]; exact ⟨rfl, rfl⟩
  · rw [if_neg hp] at h1 h2 ⊢; omega

theorem Cnt.forceVal_idem (a : Int) (d : Dom) : forceVal a (forceVal a d) = forceVal a d := by
  rw [Cnt.forceVal_eq a d]
  split
  · rw [Cnt.forceVal_eq]; simp
  · rename_i h1; rw [Cnt.forceVal_eq, if_neg h1]

theorem Cnt.forceVal_out (a : Int) (d : Dom) :
    ((forceVal a d).1 > a ∨ (forceVal a d).2 < a) ↔ (d.1 > a ∨ d.2 < a) := by
  rw [Cnt.forceVal_eq]; split
  · simp; omega
  · exact Iff.rfl

theorem Cnt.map_le_mem (f : Dom → Dom) :
    ∀ (B : Box), (∀ d ∈ B, d.1 ≤ (f d).1 ∧ (f d).2 ≤ d.2) → Box.le (B.map f) B
  | [], _ => trivial
  | d :: ds, hf => ⟨hf d (by simp), Cnt.map_le_mem f ds (fun e he => hf e (by simp [he]))⟩

theorem Cnt.map_le (f : Dom → Dom) (hf : ∀ d, d.1 ≤ (f d).1 ∧ (f d).2 ≤ d.2) (B : Box) :
    Box.le (B.map f) B := Cnt.map_le_mem f B (fun d _ => hf d)

theorem Cnt.map_nonempty (f : Dom → Dom) (hf : ∀ d : Dom, d.1 ≤ d.2 → (f d).1 ≤ (f d).2)
    {B : Box} (h : B.Nonempty) : Box.Nonempty (B.map f) := by
  intro e he
  obtain ⟨d, hd, rfl⟩ := List.mem_map.mp he
  exact hf d (h d hd)

theorem Cnt.map_idem (f : Dom → Dom) (hf : ∀ d, f (f d) = f d) (B : Box) :
    (B.map f).map f = B.map f := by
  rw [List.map_map]; apply List.map_congr_left; intro d _; exact hf d

/-- a tuple with no more `a`s than fixed domains survives `excludeVal` -/
theorem Cnt.exclude_keep (a : Int) : ∀ {t : List Int} {B : Box}, inBox t B →
    t.count a ≤ cntFix a B → inBox t (B.map (excludeVal a))
  | [], [], _, _ => trivial
  | x :: xs, d :: ds, h, hc => by
    have hge := Cnt.cntFix_le_count a h.2
    have hx : d.1 ≤ x ∧ x ≤ d.2 := h.1
    rw [Cnt.cntFix_cons, Cnt.count_cons] at hc
    have hrest : xs.count a ≤ cntFix a ds := by split at hc <;> split at hc <;> omega
    have hxa : x = a → d.1 = a ∧ d.2 = a := by
      intro hxa; rw [if_pos hxa] at hc; split at hc <;> omega
    refine ⟨?_, Cnt.exclude_keep a h.2 hrest⟩
    show (excludeVal a d).1 ≤ x ∧ x ≤ (excludeVal a d).2
    rw [Cnt.excludeVal_eq]; split
    · simp; omega
    · split <;> (try simp) <;> omega
  | [], _ :: _, h, _ => by simp [inBox] at h
  | _ :: _, [], h, _ => by simp [inBox] at h

/-- a tuple that takes `a` wherever possible survives `forceVal` -/
theorem Cnt.force_keep (a : Int) : ∀ {t : List Int} {B : Box}, inBox t B →
    B.length ≤ t.count a + cntOut a B → inBox t (B.map (forceVal a))
  | [], [], _, _ => trivial
  | x :: xs, d :: ds, h, hc => by
    have hle := Cnt.count_add_out_le a h.2
    have hx : d.1 ≤ x ∧ x ≤ d.2 := h.1
    rw [Cnt.cntOut_cons, Cnt.count_cons, List.length_cons] at hc
    have hrest : ds.length ≤ xs.count a + cntOut a ds := by split at hc <;> split at hc <;> omega
    have hxa : x ≠ a → d.1 > a ∨ d.2 < a := by
      intro hxa; rw [if_neg hxa] at hc; split at hc <;> omega
    refine ⟨?_, Cnt.force_keep a h.2 hrest⟩
    show (forceVal a d).1 ≤ x ∧ x ≤ (forceVal a d).2
    rw [Cnt.forceVal_eq]; split
    · simp; omega
    · exact hx
  | [], _ :: _, h, _ => by simp [inBox] at h
  | _ :: _, [], h, _ => by simp [inBox] at h

theorem Cnt.cntFix_map_exclude (a : Int) : ∀ (B : Box), B.Nonempty →
    cntFix a (B.map (excludeVal a)) = cntFix a B
  | [], _ => rfl
  | d :: ds, h => by
    have h' := Box.nonempty_cons.mp h
    rw [List.map_cons, Cnt.cntFix_cons, Cnt.cntFix_cons, Cnt.cntFix_map_exclude a ds h'.2]
    simp only [Cnt.excludeVal_fix a d h'.1]

theorem Cnt.cntOut_map_force (a : Int) : ∀ (B : Box), cntOut a (B.map (forceVal a)) = cntOut a B
  | [] => rfl
  | d :: ds => by
    rw [List.map_cons, Cnt.cntOut_cons, Cnt.cntOut_cons, Cnt.cntOut_map_force a ds]
    simp only [Cnt.forceVal_out a d]

/-! ### exactly_eq -/

theorem runAlg_exactlyEq (ps : List Int) (B : Box) :
    runAlg .exactlyEq ps B = .ok (exactlyEq ps B) := rfl

/-- the five outcomes of `exactlyEq`, with the arithmetic facts that select them -/
theorem Cnt.exactlyEq_cases (ps : List Int) (B : Box)
    (h0 : 0 ≤ getI ps 1) (hn : getI ps 1 ≤ B.length) :
    (exactlyEq ps B = (.inc, B) ∧
      (getI ps 1 < cntFix (getI ps 0) B ∨ (B.length : Int) < getI ps 1 + cntOut (getI ps 0) B)) ∨
    (exactlyEq ps B = (.ent, B) ∧
      (cntFix (getI ps 0) B : Int) = getI ps 1 ∧ getI ps 1 + cntOut (getI ps 0) B = B.length) ∨
    (exactlyEq ps B = (.cons, B.map (excludeVal (getI ps 0))) ∧
      (cntFix (getI ps 0) B : Int) = getI ps 1 ∧ getI ps 1 + cntOut (getI ps 0) B < B.length) ∨
    (exactlyEq ps B = (.cons, B.map (forceVal (getI ps 0))) ∧
      (cntFix (getI ps 0) B : Int) < getI ps 1 ∧ getI ps 1 + cntOut (getI ps 0) B = B.length) ∨
    (exactlyEq ps B = (.cons, B) ∧
      (cntFix (getI ps 0) B : Int) < getI ps 1 ∧ getI ps 1 + cntOut (getI ps 0) B < B.length) := by
  simp only [exactlyEq]
  generalize getI ps 0 = a at *
  generalize getI ps 1 = c at *
  generalize cntFix a B = f at *
  generalize cntOut a B = o at *
  generalize B.length = n at *
  split
  · left; refine ⟨rfl, ?_⟩; omega
  · right
    rename_i hninc
    split
    · left; refine ⟨rfl, ?_⟩
      rename_i h; simp only [Bool.and_eq_true, beq_iff_eq] at h; omega
    · right
      rename_i hnent
      simp only [Bool.and_eq_true, beq_iff_eq] at hnent
      split
      · left; refine ⟨rfl, ?_⟩
        rename_i h; simp only [beq_iff_eq] at h; omega
      · right
        rename_i hmin
        simp only [beq_iff_eq] at hmin
        split
        · left; refine ⟨rfl, ?_⟩
          rename_i h; simp only [beq_iff_eq] at h; omega
        · right; refine ⟨rfl, ?_⟩
          rename_i h; simp only [beq_iff_eq] at h; omega

theorem sound_exactlyEq : Sound .exactlyEq := by
  intro ps B st B' hc hne hrun
  rw [runAlg_exactlyEq] at hrun
  injection hrun with hrun
  obtain ⟨_, _, h0, hn⟩ := hc
  simp only [rel]
  have hfix := fun t (ht : inBox t B) => Cnt.cntFix_le_count (getI ps 0) ht
  have hout := fun t (ht : inBox t B) => Cnt.count_add_out_le (getI ps 0) ht
  rcases Cnt.exactlyEq_cases ps B h0 hn with ⟨he, hf⟩ | ⟨he, hf⟩ | ⟨he, hf⟩ | ⟨he, hf⟩ | ⟨he, hf⟩ <;>
    rw [he] at hrun <;> injection hrun with h1 h2 <;> subst h1 <;> subst h2
  · refine ⟨fun h => absurd rfl h, fun _ t ht hrel => ?_⟩
    have := hfix t ht; have := hout t ht; omega
  · exact ⟨fun _ => ⟨Box.le_refl _, hne, fun t ht _ => ht⟩, fun h => by cases h⟩
  · refine ⟨fun _ => ⟨Cnt.map_le _ (Cnt.excludeVal_le _) B,
      Cnt.map_nonempty _ (Cnt.excludeVal_nonempty _) hne, fun t ht hrel => ?_⟩, fun h => by cases h⟩
    exact Cnt.exclude_keep _ ht (by omega)
  · refine ⟨fun _ => ⟨Cnt.map_le _ (Cnt.forceVal_le _) B,
      Cnt.map_nonempty _ (Cnt.forceVal_nonempty _) hne, fun t ht hrel => ?_⟩, fun h => by cases h⟩
    exact Cnt.force_keep _ ht (by omega)
  · exact ⟨fun _ => ⟨Box.le_refl _, hne, fun t ht _ => ht⟩, fun h => by cases h⟩

theorem entailOk_exactlyEq : EntailOk .exactlyEq := by
  intro ps B B' hc hne hrun t ht
  rw [runAlg_exactlyEq] at hrun
  injection hrun with hrun
  obtain ⟨_, _, h0, hn⟩ := hc
  simp only [rel]
  rcases Cnt.exactlyEq_cases ps B h0 hn with ⟨he, hf⟩ | ⟨he, hf⟩ | ⟨he, hf⟩ | ⟨he, hf⟩ | ⟨he, hf⟩ <;>
    rw [he] at hrun <;> injection hrun with h1 h2 <;> (try cases h1)
  subst h2
  have := Cnt.cntFix_le_count (getI ps 0) ht
  have := Cnt.count_add_out_le (getI ps 0) ht
  omega

theorem groundOk_exactlyEq : GroundOk .exactlyEq := by
  intro ps B st B' t hc hne hrun hst hB'
  rw [runAlg_exactlyEq] at hrun
  injection hrun with hrun
  obtain ⟨_, _, h0, hn⟩ := hc
  simp only [relW, rel]
  have hpf := Cnt.cntFix_pointBox (getI ps 0) t
  have hpo := Cnt.cntOut_pointBox (getI ps 0) t
  have hpl : (pointBox t).length = t.length := by simp [pointBox]
  rcases Cnt.exactlyEq_cases ps B h0 hn with ⟨he, hf⟩ | ⟨he, hf⟩ | ⟨he, hf⟩ | ⟨he, hf⟩ | ⟨he, hf⟩ <;>
    rw [he] at hrun <;> injection hrun with h1 h2 <;> subst h1
  · exact absurd rfl hst
  · subst h2; rw [hB'] at hf; omega
  · have := Cnt.cntFix_map_exclude (getI ps 0) B hne
    rw [h2, hB'] at this; omega
  · have := Cnt.cntOut_map_force (getI ps 0) B
    have hl : (B.map (forceVal (getI ps 0))).length = B.length := by simp
    rw [h2, hB'] at this hl; omega
  · subst h2; rw [hB'] at hf; omega

theorem contractMono_exactlyEq : ContractMono .exactlyEq := by
  intro ps B B' hc hle
  simp only [Contract] at *
  rw [Box.le_length hle]; exact hc

theorem safe_exactlyEq : Safe .exactlyEq := fun ps B _ _ => ⟨_, runAlg_exactlyEq ps B⟩

theorem trigOk_exactlyEq : TrigOk .exactlyEq :=
  Cnt.trigOk_of_minMax _ sound_exactlyEq (fun _ _ _ => rfl)

/-! ### exactness of exactly_eq -/

theorem Cnt.cntFix_pin (a : Int) (B : Box) (k : Nat) (v : Int) (hk : k < B.length) :
    cntFix a (Cnt.pin B k v) + (if (getDom B k).1 = a ∧ (getDom B k).2 = a then 1 else 0) =
      cntFix a B + (if v = a then 1 else 0) := by
  have := Cnt.filter_length_set (fun d => d.1 == a && d.2 == a) (v, v) B k hk
  simp only [Bool.and_eq_true, beq_iff_eq, and_self] at this
  exact this

theorem Cnt.cntOut_pin (a : Int) (B : Box) (k : Nat) (v : Int) (hk : k < B.length) :
    cntOut a (Cnt.pin B k v) + (if (getDom B k).1 > a ∨ (getDom B k).2 < a then 1 else 0) =
      cntOut a B + (if v ≠ a then 1 else 0) := by
  have := Cnt.filter_length_set (fun d => decide (d.1 > a ∨ d.2 < a)) (v, v) B k hk
  simp only [decide_eq_true_eq] at this
  have he : (v > a ∨ v < a) ↔ v ≠ a := by omega
  simp only [he] at this
  exact this

/-- a tuple with `m` occurrences of `a` and the value `v` at position `k` -/
theorem Cnt.exists_count_pinned (a : Int) (B : Box) (m : Nat) (k : Nat) (v : Int) (hne : B.Nonempty)
    (hk : k < B.length) (hv : inDom v (getDom B k))
    (h1 : cntFix a B ≤ m) (h2 : m + cntOut a B ≤ B.length)
    (hva : v = a → ¬ ((getDom B k).1 = a ∧ (getDom B k).2 = a) → cntFix a B < m)
    (hvn : v ≠ a → ¬ ((getDom B k).1 > a ∨ (getDom B k).2 < a) → m + cntOut a B < B.length) :
    ∃ t, inBox t B ∧ t.count a = m ∧ getI t k = v := by
  have hf := Cnt.cntFix_pin a B k v hk
  have ho := Cnt.cntOut_pin a B k v hk
  unfold inDom at hv
  obtain ⟨t, ht, hc⟩ := Cnt.exists_count a (Cnt.pin B k v) m (Cnt.pin_nonempty hne k v)
    (by split at hf <;> split at hf <;> omega)
    (by rw [Cnt.pin_length]; split at ho <;> split at ho <;> omega)
  have := Cnt.inBox_pin k v ht hk hv
  exact ⟨t, this.1, hc, this.2⟩

/-- both bounds of every position are attained by tuples with `m` occurrences of `a`, provided
    every free domain leaves room for one more non-`a`, and for one more `a` when `a` is a bound -/
theorem Cnt.bounds_attained (a : Int) (B : Box) (m : Nat) (hne : B.Nonempty)
    (h1 : cntFix a B ≤ m) (h2 : m + cntOut a B ≤ B.length)
    (hfree : ∀ d ∈ B, d.1 ≤ a → a ≤ d.2 → ¬ (d.1 = a ∧ d.2 = a) →
      m + cntOut a B < B.length ∧ ((d.1 = a ∨ d.2 = a) → cntFix a B < m)) :
    ∀ k, k < B.length →
      (∃ t, inBox t B ∧ t.count a = m ∧ getI t k = (getDom B k).1) ∧
      (∃ t, inBox t B ∧ t.count a = m ∧ getI t k = (getDom B k).2) := by
  intro k hk
  have hd := Cnt.getDom_mem B k hk
  have hdne := hne _ hd
  have hfr := hfree _ hd
  constructor
  · apply Cnt.exists_count_pinned a B m k _ hne hk ⟨Int.le_refl _, hdne⟩ h1 h2
    · intro hv hnf; exact (hfr (by omega) (by omega) hnf).2 (Or.inl hv)
    · intro hv hno; exact (hfr (by omega) (by omega) (by omega)).1
  · apply Cnt.exists_count_pinned a B m k _ hne hk ⟨hdne, Int.le_refl _⟩ h1 h2
    · intro hv hnf; exact (hfr (by omega) (by omega) hnf).2 (Or.inr hv)
    · intro hv hno; exact (hfr (by omega) (by omega) (by omega)).1

/-- first half of `Exact` for a box whose counters bracket `c` and whose free domains leave room -/
theorem Cnt.exactlyEq_bounds (ps : List Int) (B : Box) (hne : B.Nonempty) (h0 : 0 ≤ getI ps 1)
    (h1 : (cntFix (getI ps 0) B : Int) ≤ getI ps 1)
    (h2 : getI ps 1 + cntOut (getI ps 0) B ≤ B.length)
    (hfree : ∀ d ∈ B, d.1 ≤ getI ps 0 → getI ps 0 ≤ d.2 → ¬ (d.1 = getI ps 0 ∧ d.2 = getI ps 0) →
      getI ps 1 + cntOut (getI ps 0) B < B.length ∧
      ((d.1 = getI ps 0 ∨ d.2 = getI ps 0) → (cntFix (getI ps 0) B : Int) < getI ps 1)) :
    ∀ k, k < B.length →
      (∃ t, inBox t B ∧ rel .exactlyEq ps t ∧ getI t k = (getDom B k).1) ∧
      (∃ t, inBox t B ∧ rel .exactlyEq ps t ∧ getI t k = (getDom B k).2) := by
  intro k hk
  have hm : ((getI ps 1).toNat : Int) = getI ps 1 := Int.toNat_of_nonneg h0
  have := Cnt.bounds_attained (getI ps 0) B (getI ps 1).toNat hne (by omega) (by omega)
    (fun d hd ha1 ha2 hnf => by
      have := hfree d hd ha1 ha2 hnf
      exact ⟨by omega, fun hb => by have := this.2 hb; omega⟩) k hk
  obtain ⟨⟨t1, ht1, hc1, hg1⟩, ⟨t2, ht2, hc2, hg2⟩⟩ := this
  simp only [rel]
  exact ⟨⟨t1, ht1, by omega, hg1⟩, ⟨t2, ht2, by omega, hg2⟩⟩

theorem exact_exactlyEq : Exact .exactlyEq := by
  intro ps B st B' hc hne hrun hst
  rw [runAlg_exactlyEq] at hrun
  injection hrun with hrun
  obtain ⟨_, _, h0, hn⟩ := hc
  simp only [runAlg_exactlyEq]
  rcases Cnt.exactlyEq_cases ps B h0 hn with ⟨he, hf⟩ | ⟨he, hf⟩ | ⟨he, hf⟩ | ⟨he, hf⟩ | ⟨he, hf⟩ <;>
    rw [he] at hrun <;> injection hrun with h1 h2 <;> subst h1 <;> subst h2
  · exact absurd rfl hst
  · -- entailed: no free domain
    refine ⟨Cnt.exactlyEq_bounds ps B hne h0 (by omega) (by omega) (fun d hd ha1 ha2 hnf => ?_),
      ⟨.ent, by rw [he], by simp⟩⟩
    have := Cnt.fix_add_out_lt (getI ps 0) B hne ⟨d, hd, ha1, ha2, hnf⟩
    omega
  · -- `a` was pushed out of the free domains
    have hne' : Box.Nonempty (B.map (excludeVal (getI ps 0))) :=
      Cnt.map_nonempty _ (Cnt.excludeVal_nonempty _) hne
    have hfx := Cnt.cntFix_map_exclude (getI ps 0) B hne
    have hle := Cnt.fix_add_out_le (getI ps 0) _ hne'
    have hlen : (B.map (excludeVal (getI ps 0))).length = B.length := by simp
    refine ⟨Cnt.exactlyEq_bounds ps _ hne' h0 (by omega) (by omega) (fun e he' ha1 ha2 hnf => ?_), ?_⟩
    · have hlt := Cnt.fix_add_out_lt (getI ps 0) _ hne' ⟨e, he', ha1, ha2, hnf⟩
      refine ⟨by omega, fun hb => ?_⟩
      obtain ⟨d, hd, rfl⟩ := List.mem_map.mp he'
      exact absurd (Cnt.excludeVal_bound _ d (hne d hd) hb) hnf
    · rcases Cnt.exactlyEq_cases ps (B.map (excludeVal (getI ps 0))) h0 (by omega) with
        ⟨he2, hf2⟩ | ⟨he2, hf2⟩ | ⟨he2, hf2⟩ | ⟨he2, hf2⟩ | ⟨he2, hf2⟩
      · omega
      · exact ⟨.ent, by rw [he2], by simp⟩
      · exact ⟨.cons, by rw [he2, Cnt.map_idem _ (Cnt.excludeVal_idem _)], by simp⟩
      · omega
      · omega
  · -- the free domains were fixed to `a`
    have hne' : Box.Nonempty (B.map (forceVal (getI ps 0))) :=
      Cnt.map_nonempty _ (Cnt.forceVal_nonempty _) hne
    have hox := Cnt.cntOut_map_force (getI ps 0) B
    have hle := Cnt.fix_add_out_le (getI ps 0) _ hne'
    have hlen : (B.map (forceVal (getI ps 0))).length = B.length := by simp
    refine ⟨Cnt.exactlyEq_bounds ps _ hne' h0 (by omega) (by omega) (fun e he' ha1 ha2 hnf => ?_), ?_⟩
    · obtain ⟨d, hd, rfl⟩ := List.mem_map.mp he'
      exact absurd (Cnt.forceVal_free _ d ha1 ha2) hnf
    · rcases Cnt.exactlyEq_cases ps (B.map (forceVal (getI ps 0))) h0 (by omega) with
        ⟨he2, hf2⟩ | ⟨he2, hf2⟩ | ⟨he2, hf2⟩ | ⟨he2, hf2⟩ | ⟨he2, hf2⟩
      · omega
      · exact ⟨.ent, by rw [he2], by simp⟩
      · omega
      · exact ⟨.cons, by rw [he2, Cnt.map_idem _ (Cnt.forceVal_idem _)], by simp⟩
      · omega
  · -- nothing to do: both counters are slack
    refine ⟨Cnt.exactlyEq_bounds ps B hne h0 (by omega) (by omega) (fun d hd ha1 ha2 hnf => ?_),
      ⟨.cons, by rw [he], by simp⟩⟩
    exact ⟨by omega, fun _ => by omega⟩

/-! ### exactly_true: on Boolean domains it is `exactly_eq` with `a = 1` -/

theorem runAlg_exactlyTrue (ps : List Int) (B : Box) :
    runAlg .exactlyTrue ps B = .ok (exactlyTrue ps B) := rfl

theorem Cnt.exactlyTrue_eq (ps : List Int) (B : Box) (hw : B.within 0 1) (hne : B.Nonempty) :
    exactlyTrue ps B = exactlyEq [1, getI ps 0] B := by
  have hOut : (B.filter (fun d => decide (d.2 < 1))).length = cntOut 1 B := by
    unfold cntOut
    congr 1
    apply List.filter_congr
    intro d hd
    have := hw d hd; have := hne d hd
    simp only [decide_eq_decide]; omega
  have hFix : (B.filter (fun d => d.1 == 1 && d.2 == 1)).length = cntFix 1 B := rfl
  have hEx : B.map (fun d => if d.1 == 0 && d.2 == 1 then (d.1, 0) else d) = B.map (excludeVal 1) := by
    apply List.map_congr_left
    intro d hd
    have := hw d hd; have := hne d hd
    rw [Cnt.excludeVal_eq]
    simp only [Bool.and_eq_true, beq_iff_eq]
    by_cases h : d.1 = 0 ∧ d.2 = 1
    · rw [if_pos h, if_neg (by omega), if_pos (by omega)]; rfl
    · rw [if_neg h, if_neg (by omega), if_neg (by omega)]
  have hFo : B.map (fun d => if d.1 == 0 && d.2 == 1 then (1, d.2) else d) = B.map (forceVal 1) := by
    apply List.map_congr_left
    intro d hd
    have := hw d hd; have := hne d hd
    rw [Cnt.forceVal_eq]
    simp only [Bool.and_eq_true, beq_iff_eq]
    by_cases h : d.1 = 0 ∧ d.2 = 1
    · rw [if_pos h, if_pos (by omega), h.2]
    · rw [if_neg h]
      by_cases h' : d.1 ≤ 1 ∧ 1 ≤ d.2
      · rw [if_pos h']
        have h1 : d.1 = 1 := by omega
        have h2 : d.2 = 1 := by omega
        exact Prod.ext h1 h2
      · rw [if_neg h']
  have hg0 : getI [1, getI ps 0] 0 = 1 := rfl
  have hg1 : getI [1, getI ps 0] 1 = getI ps 0 := rfl
  simp only [exactlyTrue, exactlyEq, hOut, hFix, hEx, hFo, hg0, hg1]

theorem Cnt.contract_exactlyTrue {ps : List Int} {B : Box} (hc : Contract .exactlyTrue ps B) :
    Contract .exactlyEq [1, getI ps 0] B := by
  obtain ⟨_, h1, _, h0, hn⟩ := hc
  exact ⟨rfl, h1, h0, hn⟩

theorem Cnt.runAlg_exactlyTrue_eq {ps : List Int} {B : Box} (hc : Contract .exactlyTrue ps B)
    (hne : B.Nonempty) : runAlg .exactlyTrue ps B = runAlg .exactlyEq [1, getI ps 0] B := by
  rw [runAlg_exactlyTrue, runAlg_exactlyEq, Cnt.exactlyTrue_eq ps B hc.2.2.1 hne]

theorem Cnt.rel_exactlyTrue (ps t : List Int) :
    rel .exactlyTrue ps t ↔ rel .exactlyEq [1, getI ps 0] t := Iff.rfl

theorem sound_exactlyTrue : Sound .exactlyTrue := by
  intro ps B st B' hc hne hrun
  rw [Cnt.runAlg_exactlyTrue_eq hc hne] at hrun
  exact sound_exactlyEq _ B st B' (Cnt.contract_exactlyTrue hc) hne hrun

theorem entailOk_exactlyTrue : EntailOk .exactlyTrue := by
  intro ps B B' hc hne hrun
  rw [Cnt.runAlg_exactlyTrue_eq hc hne] at hrun
  exact entailOk_exactlyEq _ B B' (Cnt.contract_exactlyTrue hc) hne hrun

theorem groundOk_exactlyTrue : GroundOk .exactlyTrue := by
  intro ps B st B' t hc hne hrun hst hB'
  rw [Cnt.runAlg_exactlyTrue_eq hc hne] at hrun
  exact groundOk_exactlyEq _ B st B' t (Cnt.contract_exactlyTrue hc) hne hrun hst hB'

theorem Cnt.within_of_le {B' B : Box} {lo hi : Int} (hle : Box.le B' B)
    (hw : B.within lo hi) : B'.within lo hi := by
  intro d hd
  obtain ⟨k, hk, rfl⟩ := List.getElem_of_mem hd
  have hl := Box.le_length hle
  have h1 := Box.le_get k hle (by omega)
  have h2 := hw _ (Cnt.getDom_mem B k (by omega))
  rw [Cnt.getDom_eq B' k hk] at h1
  omega

theorem contractMono_exactlyTrue : ContractMono .exactlyTrue := by
  intro ps B B' hc hle
  obtain ⟨h1, h2, hw, h0, hn⟩ := hc
  refine ⟨h1, ?_, Cnt.within_of_le hle hw, h0, ?_⟩ <;> rw [Box.le_length hle] <;> assumption

theorem safe_exactlyTrue : Safe .exactlyTrue := fun ps B _ _ => ⟨_, runAlg_exactlyTrue ps B⟩

theorem trigOk_exactlyTrue : TrigOk .exactlyTrue :=
  Cnt.trigOk_of_minMax _ sound_exactlyTrue (fun _ _ _ => rfl)

theorem exact_exactlyTrue : Exact .exactlyTrue := by
  intro ps B st B' hc hne hrun hst
  rw [Cnt.runAlg_exactlyTrue_eq hc hne] at hrun
  have hE := exact_exactlyEq _ B st B' (Cnt.contract_exactlyTrue hc) hne hrun hst
  have hS := (sound_exactlyEq _ B st B' (Cnt.contract_exactlyTrue hc) hne hrun).1 hst
  have hc' : Contract .exactlyTrue ps B' := contractMono_exactlyTrue ps B B' hc hS.1
  rw [Cnt.runAlg_exactlyTrue_eq hc' hS.2.1]
  exact hE

/-! ### and -/

theorem runAlg_and (ps : List Int) (B : Box) : runAlg .and ps B = .ok (andProp ps B) := rfl

/-- the outcomes of `andCore` on a Boolean result domain, with the facts that select them -/
theorem Cnt.andCore_cases (xs : Box) (y : Dom) (hy : 0 ≤ y.1 ∧ y.1 ≤ y.2 ∧ y.2 ≤ 1) :
    (andCore xs y = (.inc, xs, y) ∧
      ((xs.all (fun d => d.1 == 1) = true ∧ y.2 = 0) ∨ (xs.any (fun d => d.2 == 0) = true ∧ y.1 = 1) ∨
       (xs.all (fun d => d.1 == 1) = true ∧ xs.any (fun d => d.2 == 0) = true))) ∨
    (andCore xs y = (.cons, xs.map (fun d => (1, d.2)), (1, 1)) ∧
      xs.any (fun d => d.2 == 0) = false ∧ y.2 = 1 ∧ (xs.all (fun d => d.1 == 1) = true ∨ y.1 = 1)) ∨
    (andCore xs y = (.cons, xs.map (fun d => if d.1 == 0 then (d.1, 0) else d), (0, 0)) ∧
      xs.all (fun d => d.1 == 1) = false ∧ y.1 = 0 ∧ (xs.any (fun d => d.2 == 0) = true ∨ y.2 = 0) ∧
      (xs.filter (fun d => d.1 == 0)).length = 1) ∨
    (andCore xs y = (.cons, xs, (0, 0)) ∧
      xs.all (fun d => d.1 == 1) = false ∧ y.1 = 0 ∧ (xs.any (fun d => d.2 == 0) = true ∨ y.2 = 0) ∧
      (xs.filter (fun d => d.1 == 0)).length ≠ 1) ∨
    (andCore xs y = (.cons, xs, y) ∧
      xs.all (fun d => d.1 == 1) = false ∧ xs.any (fun d => d.2 == 0) = false ∧ y.1 = 0 ∧ y.2 = 1) := by
  obtain ⟨y1, y2⟩ := y
  simp only at hy
  simp only [andCore]
  generalize xs.any (fun d => d.2 == 0) = az
  generalize xs.all (fun d => d.1 == 1) = ao
  have h1 : y1 = 0 ∨ y1 = 1 := by omega
  have h2 : y2 = 0 ∨ y2 = 1 := by omega
  by_cases hf : (xs.filter (fun d => d.1 == 0)).length = 1 <;>
  rcases h1 with rfl | rfl <;> rcases h2 with rfl | rfl <;> cases az <;> cases ao <;> simp [hf] <;> omega

/-- the decomposition `B = xs ++ [y]` under the contract of `and` -/
theorem Cnt.and_split {ps : List Int} {B : Box} (hc : Contract .and ps B) (hne : B.Nonempty) :
    ∃ xs y, B = xs ++ [y] ∧ Box.within xs 0 1 ∧ Box.Nonempty xs ∧ (0 ≤ y.1 ∧ y.1 ≤ y.2 ∧ y.2 ≤ 1) := by
  obtain ⟨hl, hw⟩ := hc
  have hB : B ≠ [] := by intro h; subst h; simp at hl
  have hs := Cnt.front_back B hB
  refine ⟨B.front, B.back, hs, ?_⟩
  rw [hs, Cnt.within_snoc] at hw
  rw [hs, Cnt.nonempty_snoc] at hne
  exact ⟨hw.1, hne.1, hw.2.1, hne.2, hw.2.2⟩

theorem Cnt.andProp_snoc (ps : List Int) (xs : Box) (y : Dom) :
    andProp ps (xs ++ [y]) = ((andCore xs y).1, (andCore xs y).2.1 ++ [(andCore xs y).2.2]) := by
  simp [andProp]

theorem Cnt.inBox_mem_left : ∀ {ts : List Int} {xs : Box}, inBox ts xs → ∀ x ∈ ts, ∃ d ∈ xs, inDom x d
  | [], [], _, _, hx => by simp at hx
  | x' :: ts, d :: ds, h, x, hx => by
    rcases List.mem_cons.mp hx with rfl | hx
    · exact ⟨d, by simp, h.1⟩
    · obtain ⟨e, he, hi⟩ := Cnt.inBox_mem_left h.2 x hx
      exact ⟨e, by simp [he], hi⟩
  | [], _ :: _, h, _, _ => by simp [inBox] at h
  | _ :: _, [], h, _, _ => by simp [inBox] at h

theorem Cnt.inBox_mem_right : ∀ {ts : List Int} {xs : Box}, inBox ts xs → ∀ d ∈ xs, ∃ x ∈ ts, inDom x d
  | [], [], _, _, hd => by simp at hd
  | x :: ts, d' :: ds, h, d, hd => by
    rcases List.mem_cons.mp hd with rfl | hd
    · exact ⟨x, by simp, h.1⟩
    · obtain ⟨e, he, hi⟩ := Cnt.inBox_mem_right h.2 d hd
      exact ⟨e, by simp [he], hi⟩
  | [], _ :: _, h, _, _ => by simp [inBox] at h
  | _ :: _, [], h, _, _ => by simp [inBox] at h

theorem Cnt.inBox_map (f : Dom → Dom) : ∀ {ts : List Int} {xs : Box}, inBox ts xs →
    (∀ x d, x ∈ ts → d ∈ xs → inDom x d → inDom x (f d)) → inBox ts (xs.map f)
  | [], [], _, _ => trivial
  | x :: ts, d :: ds, h, hf =>
    ⟨hf x d (by simp) (by simp) h.1,
     Cnt.inBox_map f h.2 (fun x' d' hx hd => hf x' d' (by simp [hx]) (by simp [hd]))⟩
  | [], _ :: _, h, _ => by simp [inBox] at h
  | _ :: _, [], h, _ => by simp [inBox] at h

theorem Cnt.all_min1 {xs : Box} (h : xs.all (fun d => d.1 == 1) = true) : ∀ d ∈ xs, d.1 = 1 := by
  simpa [List.all_eq_true] using h

theorem Cnt.not_all_min1 {xs : Box} (hw : Box.within xs 0 1) (hne : Box.Nonempty xs)
    (h : xs.all (fun d => d.1 == 1) = false) : ∃ d ∈ xs, d.1 = 0 := by
  simp only [List.all_eq_false, beq_iff_eq] at h
  obtain ⟨d, hd, h1⟩ := h
  have := hw d hd; have := hne d hd
  exact ⟨d, hd, by omega⟩

theorem Cnt.any_max0 {xs : Box} (h : xs.any (fun d => d.2 == 0) = true) : ∃ d ∈ xs, d.2 = 0 := by
  simpa [List.any_eq_true] using h

theorem Cnt.not_any_max0 {xs : Box} (hw : Box.within xs 0 1) (hne : Box.Nonempty xs)
    (h : xs.any (fun d => d.2 == 0) = false) : ∀ d ∈ xs, d.2 = 1 := by
  simp only [List.any_eq_false, beq_iff_eq] at h
  intro d hd
  have := hw d hd; have := hne d hd; have := h d hd
  omega

/-- all components are 1 when all minima are -/
theorem Cnt.ones_of_all {ts : List Int} {xs : Box} (hw : Box.within xs 0 1) (ht : inBox ts xs)
    (h : xs.all (fun d => d.1 == 1) = true) : ∀ x ∈ ts, x = 1 := by
  intro x hx
  obtain ⟨d, hd, hi⟩ := Cnt.inBox_mem_left ht x hx
  have := Cnt.all_min1 h d hd; have := hw d hd
  unfold inDom at hi; omega

/-- some component is 0 when some maximum is -/
theorem Cnt.zero_of_any {ts : List Int} {xs : Box} (hw : Box.within xs 0 1) (ht : inBox ts xs)
    (h : xs.any (fun d => d.2 == 0) = true) : ∃ x ∈ ts, x = 0 := by
  obtain ⟨d, hd, h0⟩ := Cnt.any_max0 h
  obtain ⟨x, hx, hi⟩ := Cnt.inBox_mem_right ht d hd
  have := hw d hd
  unfold inDom at hi
  exact ⟨x, hx, by omega⟩

/-- the unique candidate must be the zero -/
theorem Cnt.unique_candidate : ∀ {ts : List Int} {xs : Box}, Box.within xs 0 1 → inBox ts xs →
    (xs.filter (fun d => d.1 == 0)).length = 1 → (∃ x ∈ ts, x ≠ 1) →
    inBox ts (xs.map (fun d => if d.1 == 0 then (d.1, 0) else d))
  | [], [], _, _, _, _ => trivial
  | x :: ts, d :: ds, hw, ht, hf, hex => by
    have hwd := hw d (by simp)
    have hw' : Box.within ds 0 1 := fun e he => hw e (by simp [he])
    have hx : d.1 ≤ x ∧ x ≤ d.2 := ht.1
    simp only [List.filter_cons] at hf
    by_cases hd : d.1 = 0
    · -- this is the candidate; nobody else is, so all the others are 1
      have hd' : (d.1 == 0) = true := by simp [hd]
      rw [if_pos hd'] at hf
      have hnil : ds.filter (fun d => d.1 == 0) = [] := by
        apply List.eq_nil_of_length_eq_zero; simpa using hf
      have hrest : ∀ e ∈ ds, ¬ e.1 = 0 := by
        intro e he h0
        have : e ∈ ds.filter (fun d => d.1 == 0) := List.mem_filter.mpr ⟨he, by simp [h0]⟩
        rw [hnil] at this; simp at this
      have hones : ∀ x' ∈ ts, x' = 1 := by
        intro x' hx'
        obtain ⟨e, he, hi⟩ := Cnt.inBox_mem_left ht.2 x' hx'
        have := hw' e he; have := hrest e he
        unfold inDom at hi; omega
      have hx1 : x ≠ 1 := by
        obtain ⟨x', hx', hne⟩ := hex
        rcases List.mem_cons.mp hx' with rfl | hx'
        · exact hne
        · exact absurd (hones x' hx') hne
      refine ⟨?_, ?_⟩
      · show inDom x (if (d.1 == 0) = true then (d.1, 0) else d)
        rw [if_pos hd']; unfold inDom; simp only; omega
      · refine Cnt.inBox_map _ ht.2 (fun x' e _ he hi => ?_)
        have : ¬ (e.1 == 0) = true := by simpa using hrest e he
        rw [if_neg this]; exact hi
    · have hd' : ¬ (d.1 == 0) = true := by simpa using hd
      rw [if_neg hd'] at hf
      have hx1 : x = 1 := by omega
      have hex' : ∃ x' ∈ ts, x' ≠ 1 := by
        obtain ⟨x', hx', hne⟩ := hex
        rcases List.mem_cons.mp hx' with rfl | hx'
        · exact absurd hx1 hne
        · exact ⟨x', hx', hne⟩
      refine ⟨?_, Cnt.unique_candidate hw' ht.2 hf hex'⟩
      show inDom x (if (d.1 == 0) = true then (d.1, 0) else d)
      rw [if_neg hd']; exact ht.1
  | [], _ :: _, _, h, _, _ => by simp [inBox] at h
  | _ :: _, [], _, h, _, _ => by simp [inBox] at h

theorem Cnt.rel_and_snoc (ps ts : List Int) (v : Int) :
    rel .and ps (ts ++ [v]) ↔ (v = 1 ∧ ∀ x ∈ ts, x = 1) ∨ (v = 0 ∧ ∃ x ∈ ts, x ≠ 1) := by
  simp only [rel, Cnt.tFront_snoc, Cnt.tBack_snoc]

theorem sound_and : Sound .and := by
  intro ps B st B' hc hne hrun
  obtain ⟨xs, y, rfl, hw, hnx, hy⟩ := Cnt.and_split hc hne
  rw [runAlg_and, Cnt.andProp_snoc] at hrun
  injection hrun with hrun
  rcases Cnt.andCore_cases xs y hy with ⟨he, hf⟩ | ⟨he, hf⟩ | ⟨he, hf⟩ | ⟨he, hf⟩ | ⟨he, hf⟩ <;>
    rw [he] at hrun <;> injection hrun with h1 h2 <;> subst h1 <;> subst h2
  · -- inconsistent
    refine ⟨fun h => absurd rfl h, fun _ t ht hrel => ?_⟩
    obtain ⟨ts, v, rfl, hts, hv⟩ := Cnt.inBox_snoc_elim ht
    rw [Cnt.rel_and_snoc] at hrel
    unfold inDom at hv
    rcases hf with ⟨hall, hy2⟩ | ⟨hany, hy1⟩ | ⟨hall, hany⟩
    · have hones := Cnt.ones_of_all hw hts hall
      rcases hrel with ⟨hv1, _⟩ | ⟨_, x, hx, hx1⟩
      · omega
      · exact hx1 (hones x hx)
    · obtain ⟨x, hx, hx0⟩ := Cnt.zero_of_any hw hts hany
      rcases hrel with ⟨_, hones⟩ | ⟨hv0, _⟩
      · have := hones x hx; omega
      · omega
    · obtain ⟨x, hx, hx0⟩ := Cnt.zero_of_any hw hts hany
      have := Cnt.ones_of_all hw hts hall x hx
      omega
  · -- result is 1: everything is 1
    obtain ⟨hany, hy2, hor⟩ := hf
    have hmax := Cnt.not_any_max0 hw hnx hany
    refine ⟨fun _ => ⟨?_, ?_, fun t ht hrel => ?_⟩, fun h => by cases h⟩
    · rw [Cnt.le_snoc]
      refine ⟨Cnt.map_le_mem _ xs (fun d hd => ?_), ?_⟩
      · have := hw d hd; have := hnx d hd; simp only; omega
      · simp only; omega
    · rw [Cnt.nonempty_snoc]
      refine ⟨?_, by simp⟩
      intro e he
      obtain ⟨d, hd, rfl⟩ := List.mem_map.mp he
      have := hmax d hd; simp only; omega
    · obtain ⟨ts, v, rfl, hts, hv⟩ := Cnt.inBox_snoc_elim ht
      rw [Cnt.rel_and_snoc] at hrel
      unfold inDom at hv
      have hboth : v = 1 ∧ ∀ x ∈ ts, x = 1 := by
        rcases hrel with h | ⟨hv0, x, hx, hx1⟩
        · exact h
        · rcases hor with hall | hy1
          · exact absurd (Cnt.ones_of_all hw hts hall x hx) hx1
          · omega
      rw [Cnt.inBox_snoc]
      refine ⟨Cnt.inBox_map _ hts (fun x d hx _ hi => ?_), ?_⟩
      · have := hboth.2 x hx; unfold inDom at *; simp only; omega
      · unfold inDom; simp only; omega
  · -- result is 0 with a unique candidate
    obtain ⟨hall, hy1, hor, hlen⟩ := hf
    refine ⟨fun _ => ⟨?_, ?_, fun t ht hrel => ?_⟩, fun h => by cases h⟩
    · rw [Cnt.le_snoc]
      refine ⟨Cnt.map_le_mem _ xs (fun d hd => ?_), ?_⟩
      · have := hw d hd; have := hnx d hd
        by_cases h0 : d.1 = 0
        · simp [h0]; omega
        · simp [h0]
      · simp only; omega
    · rw [Cnt.nonempty_snoc]
      refine ⟨?_, by simp⟩
      intro e he
      obtain ⟨d, hd, rfl⟩ := List.mem_map.mp he
      have := hnx d hd
      by_cases h0 : d.1 = 0
      · simp [h0]
      · simp [h0]; exact this
    · obtain ⟨ts, v, rfl, hts, hv⟩ := Cnt.inBox_snoc_elim ht
      rw [Cnt.rel_and_snoc] at hrel
      unfold inDom at hv
      have hboth : v = 0 ∧ ∃ x ∈ ts, x ≠ 1 := by
        rcases hrel with ⟨hv1, hones⟩ | h
        · rcases hor with hany | hy2
          · obtain ⟨x, hx, hx0⟩ := Cnt.zero_of_any hw hts hany
            have := hones x hx; omega
          · omega
        · exact h
      rw [Cnt.inBox_snoc]
      refine ⟨Cnt.unique_candidate hw hts hlen hboth.2, ?_⟩
      unfold inDom; simp only; omega
  · -- result is 0, several candidates
    obtain ⟨hall, hy1, hor, hlen⟩ := hf
    refine ⟨fun _ => ⟨?_, ?_, fun t ht hrel => ?_⟩, fun h => by cases h⟩
    · rw [Cnt.le_snoc]
      exact ⟨Box.le_refl _, by simp only; omega⟩
    · rw [Cnt.nonempty_snoc]; exact ⟨hnx, by simp⟩
    · obtain ⟨ts, v, rfl, hts, hv⟩ := Cnt.inBox_snoc_elim ht
      rw [Cnt.rel_and_snoc] at hrel
      unfold inDom at hv
      have hv0 : v = 0 := by
        rcases hrel with ⟨hv1, hones⟩ | h
        · rcases hor with hany | hy2
          · obtain ⟨x, hx, hx0⟩ := Cnt.zero_of_any hw hts hany
            have := hones x hx; omega
          · omega
        · exact h.1
      rw [Cnt.inBox_snoc]
      exact ⟨hts, by unfold inDom; simp only; omega⟩
  · exact ⟨fun _ => ⟨Box.le_refl _, hne, fun t ht _ => ht⟩, fun h => by cases h⟩

theorem entailOk_and : EntailOk .and := by
  intro ps B B' hc hne hrun
  obtain ⟨xs, y, rfl, hw, hnx, hy⟩ := Cnt.and_split hc hne
  rw [runAlg_and, Cnt.andProp_snoc] at hrun
  injection hrun with hrun
  rcases Cnt.andCore_cases xs y hy with ⟨he, _⟩ | ⟨he, _⟩ | ⟨he, _⟩ | ⟨he, _⟩ | ⟨he, _⟩ <;>
    rw [he] at hrun <;> injection hrun with h1 _ <;> cases h1

/-- split an equation `xs' ++ [y'] = pointBox t` -/
theorem Cnt.snoc_eq_pointBox {xs' : Box} {y' : Dom} {t : List Int} (h : xs' ++ [y'] = pointBox t) :
    ∃ ts v, t = ts ++ [v] ∧ xs' = pointBox ts ∧ y' = (v, v) := by
  have hne : t ≠ [] := by intro h0; subst h0; simp [pointBox] at h
  have ht := Cnt.tfront_tback t hne
  refine ⟨tFront t, tBack t, ht, ?_⟩
  rw [ht, Cnt.pointBox_snoc] at h
  have := List.append_inj' h rfl
  exact ⟨this.1, by simpa using this.2⟩

theorem Cnt.mem_pointBox {ts : List Int} {d : Dom} (h : d ∈ pointBox ts) : ∃ x ∈ ts, d = (x, x) := by
  obtain ⟨x, hx, rfl⟩ := List.mem_map.mp h
  exact ⟨x, hx, rfl⟩

theorem groundOk_and : GroundOk .and := by
  intro ps B st B' t hc hne hrun hst hB'
  obtain ⟨xs, y, rfl, hw, hnx, hy⟩ := Cnt.and_split hc hne
  rw [runAlg_and, Cnt.andProp_snoc] at hrun
  injection hrun with hrun
  simp only [relW]
  rcases Cnt.andCore_cases xs y hy with ⟨he, hf⟩ | ⟨he, hf⟩ | ⟨he, hf⟩ | ⟨he, hf⟩ | ⟨he, hf⟩ <;>
    rw [he] at hrun <;> injection hrun with h1 h2 <;> subst h1 <;> rw [hB'] at h2 <;> simp only at h2 <;>
    obtain ⟨ts, v, rfl, hxs, hyv⟩ := Cnt.snoc_eq_pointBox h2 <;> rw [Cnt.rel_and_snoc]
  · exact absurd rfl hst
  · left
    simp only [Prod.mk.injEq] at hyv
    refine ⟨hyv.1.symm, fun x hx => ?_⟩
    have : (x, x) ∈ pointBox ts := List.mem_map.mpr ⟨x, hx, rfl⟩
    rw [← hxs] at this
    obtain ⟨d, _, hd⟩ := List.mem_map.mp this
    simp only [Prod.mk.injEq] at hd
    exact hd.1.symm
  · right
    simp only [Prod.mk.injEq] at hyv
    refine ⟨hyv.1.symm, ?_⟩
    obtain ⟨d, hd, hd0⟩ := Cnt.not_all_min1 hw hnx hf.1
    have : (fun d : Dom => if d.1 == 0 then (d.1, 0) else d) d ∈ pointBox ts := by
      rw [← hxs]; exact List.mem_map.mpr ⟨d, hd, rfl⟩
    obtain ⟨x, hx, hxd⟩ := Cnt.mem_pointBox this
    simp only [hd0, beq_self_eq_true, if_true, Prod.mk.injEq] at hxd
    exact ⟨x, hx, by omega⟩
  · right
    simp only [Prod.mk.injEq] at hyv
    refine ⟨hyv.1.symm, ?_⟩
    obtain ⟨d, hd, hd0⟩ := Cnt.not_all_min1 hw hnx hf.1
    rw [hxs] at hd
    obtain ⟨x, hx, rfl⟩ := Cnt.mem_pointBox hd
    simp only at hd0
    exact ⟨x, hx, by omega⟩
  · obtain ⟨_, _, h1, h2⟩ := hf
    rw [hyv] at h1 h2; simp only at h1 h2; omega

theorem contractMono_and : ContractMono .and := by
  intro ps B B' hc hle
  obtain ⟨h1, hw⟩ := hc
  exact ⟨by rw [Box.le_length hle]; exact h1, Cnt.within_of_le hle hw⟩

theorem safe_and : Safe .and := fun ps B _ _ => ⟨_, runAlg_and ps B⟩

theorem trigOk_and : TrigOk .and :=
  Cnt.trigOk_of_minMax _ sound_and (fun _ _ _ => rfl)

/-! ### exactness of and -/

theorem Cnt.and_idem_of {ps : List Int} {xs : Box} {y : Dom} {st : Status}
    (h : andCore xs y = (st, xs, y)) (hst : st ≠ .inc) :
    ∃ st', runAlg .and ps (xs ++ [y]) = .ok (st', xs ++ [y]) ∧ st' ≠ .inc :=
  ⟨st, by rw [runAlg_and, Cnt.andProp_snoc, h], hst⟩

theorem Cnt.mem_mins {xs : Box} {d : Dom} (h : d ∈ xs) : d.1 ∈ xs.map (·.1) :=
  List.mem_map.mpr ⟨d, h, rfl⟩

theorem exact_and : Exact .and := by
  intro ps B st B' hc hne hrun hst
  obtain ⟨xs, y, rfl, hw, hnx, hy⟩ := Cnt.and_split hc hne
  rw [runAlg_and, Cnt.andProp_snoc] at hrun
  injection hrun with hrun
  rcases Cnt.andCore_cases xs y hy with ⟨he, hf⟩ | ⟨he, hf⟩ | ⟨he, hf⟩ | ⟨he, hf⟩ | ⟨he, hf⟩ <;>
    rw [he] at hrun <;> injection hrun with h1 h2 <;> subst h1 <;> simp only at h2 <;> subst h2
  · exact absurd rfl hst
  · -- everything is 1
    obtain ⟨hany, hy2, hor⟩ := hf
    have hmax := Cnt.not_any_max0 hw hnx hany
    have hall' : ∀ e ∈ xs.map (fun d : Dom => ((1 : Int), d.2)), e = (1, 1) := by
      intro e he'
      obtain ⟨d, hd, rfl⟩ := List.mem_map.mp he'
      rw [hmax d hd]
    have hne' : Box.Nonempty (xs.map (fun d : Dom => ((1 : Int), d.2))) := by
      intro e he'; rw [hall' e he']; simp
    have hones : ∀ x ∈ (xs.map (fun d : Dom => ((1 : Int), d.2))).map (·.1), x = 1 := by
      intro x hx
      obtain ⟨e, he', rfl⟩ := List.mem_map.mp hx
      rw [hall' e he']
    have hP : rel .and ps ((xs.map (fun d : Dom => ((1 : Int), d.2))).map (·.1) ++ [1]) := by
      rw [Cnt.rel_and_snoc]; exact Or.inl ⟨rfl, hones⟩
    refine ⟨Cnt.snoc_bounds _ _ _ (by simp) (fun j hj w hw' => ?_)
      ⟨_, Cnt.inBox_mins hne', hP⟩ ⟨_, Cnt.inBox_mins hne', hP⟩, ?_⟩
    · have hd := hall' _ (Cnt.getDom_mem _ j hj)
      refine ⟨_, 1, Cnt.inBox_mins hne', ⟨by simp, by simp⟩, hP, ?_⟩
      rw [Cnt.getI_mins _ j hj]
      rw [hd] at hw' ⊢
      simp only at hw' ⊢; omega
    · have hany' : (xs.map (fun d : Dom => ((1 : Int), d.2))).any (fun d => d.2 == 0) = false := by
        rw [List.any_eq_false]
        intro e he'; rw [hall' e he']; simp
      rcases Cnt.andCore_cases (xs.map (fun d : Dom => ((1 : Int), d.2))) (1, 1) (by simp) with
        ⟨he2, hf2⟩ | ⟨he2, hf2⟩ | ⟨he2, hf2⟩ | ⟨he2, hf2⟩ | ⟨he2, hf2⟩
      · rcases hf2 with ⟨_, h⟩ | ⟨h, _⟩ | ⟨_, h⟩
        · simp at h
        · have := hany'.symm.trans h; cases this
        · have := hany'.symm.trans h; cases this
      · rw [Cnt.map_idem (fun d : Dom => ((1 : Int), d.2)) (fun _ => rfl) xs] at he2
        exact Cnt.and_idem_of he2 (by simp)
      · have := hf2.2.1; simp at this
      · have := hf2.2.1; simp at this
      · have := hf2.2.2.1; simp at this
  · -- the result is 0 and the unique candidate was set to 0
    obtain ⟨hall, hy1, hor, hlen⟩ := hf
    obtain ⟨d0, hd0, hd00⟩ := Cnt.not_all_min1 hw hnx hall
    have hmem : ((0 : Int), (0 : Int)) ∈ xs.map (fun d : Dom => if d.1 == 0 then (d.1, 0) else d) :=
      List.mem_map.mpr ⟨d0, hd0, by simp [hd00]⟩
    have hground : ∀ e ∈ xs.map (fun d : Dom => if d.1 == 0 then (d.1, 0) else d), e.1 = e.2 := by
      intro e he'
      obtain ⟨d, hd, rfl⟩ := List.mem_map.mp he'
      have := hw d hd; have := hnx d hd
      by_cases h0 : d.1 = 0
      · simp [h0]
      · simp [h0]; omega
    have hne' : Box.Nonempty (xs.map (fun d : Dom => if d.1 == 0 then (d.1, 0) else d)) := by
      intro e he'; rw [hground e he']; exact Int.le_refl _
    have hP : rel .and ps ((xs.map (fun d : Dom => if d.1 == 0 then (d.1, 0) else d)).map (·.1) ++ [0]) := by
      rw [Cnt.rel_and_snoc]
      exact Or.inr ⟨rfl, 0, Cnt.mem_mins hmem, by omega⟩
    refine ⟨Cnt.snoc_bounds _ _ _ (by simp) (fun j hj w hw' => ?_)
      ⟨_, Cnt.inBox_mins hne', hP⟩ ⟨_, Cnt.inBox_mins hne', hP⟩, ?_⟩
    · have hd := hground _ (Cnt.getDom_mem _ j hj)
      refine ⟨_, 0, Cnt.inBox_mins hne', ⟨by simp, by simp⟩, hP, ?_⟩
      rw [Cnt.getI_mins _ j hj]
      rcases hw' with rfl | rfl
      · rfl
      · exact hd
    · rcases Cnt.andCore_cases (xs.map (fun d : Dom => if d.1 == 0 then (d.1, 0) else d)) (0, 0) (by simp) with
        ⟨he2, hf2⟩ | ⟨he2, hf2⟩ | ⟨he2, hf2⟩ | ⟨he2, hf2⟩ | ⟨he2, hf2⟩
      · rcases hf2 with ⟨h, _⟩ | ⟨_, h⟩ | ⟨h, _⟩
        · have := Cnt.all_min1 h _ hmem; simp at this
        · simp at h
        · have := Cnt.all_min1 h _ hmem; simp at this
      · have := hf2.2.1; simp at this
      · rw [Cnt.map_idem (fun d : Dom => if d.1 == 0 then (d.1, 0) else d)
          (fun d => by by_cases h0 : d.1 = 0 <;> simp [h0]) xs] at he2
        exact Cnt.and_idem_of he2 (by simp)
      · exact Cnt.and_idem_of he2 (by simp)
      · have := hf2.2.2.2; simp at this
  · -- the result is 0 and there are at least two candidates
    obtain ⟨hall, hy1, hor, hlen⟩ := hf
    obtain ⟨d0, hd0, hd00⟩ := Cnt.not_all_min1 hw hnx hall
    have hlen2 : 2 ≤ (xs.filter (fun d => d.1 == 0)).length := by
      have : d0 ∈ xs.filter (fun d => d.1 == 0) := List.mem_filter.mpr ⟨hd0, by simp [hd00]⟩
      have := List.length_pos_of_mem this
      omega
    have hP : rel .and ps (xs.map (·.1) ++ [0]) := by
      rw [Cnt.rel_and_snoc]
      exact Or.inr ⟨rfl, d0.1, Cnt.mem_mins hd0, by omega⟩
    refine ⟨Cnt.snoc_bounds _ _ _ (by simp) (fun j hj w hw' => ?_)
      ⟨_, Cnt.inBox_mins hnx, hP⟩ ⟨_, Cnt.inBox_mins hnx, hP⟩, ?_⟩
    · have hdne := hnx _ (Cnt.getDom_mem xs j hj)
      have hin : inDom w (getDom xs j) := by unfold inDom; omega
      have hpin := Cnt.inBox_pin j w (Cnt.inBox_mins (Cnt.pin_nonempty hnx j w)) hj hin
      refine ⟨_, 0, hpin.1, ⟨by simp, by simp⟩, ?_, hpin.2⟩
      rw [Cnt.rel_and_snoc]
      refine Or.inr ⟨rfl, ?_⟩
      have hfl := Cnt.filter_length_set (fun d => d.1 == 0) (w, w) xs j hj
      have hpos : 0 < (List.filter (fun d => d.1 == 0) (Cnt.pin xs j w)).length := by
        unfold Cnt.pin
        split at hfl <;> split at hfl <;> omega
      obtain ⟨e, he'⟩ := List.exists_mem_of_length_pos hpos
      have he2 := List.mem_filter.mp he'
      have he0 : e.1 = 0 := by simpa using he2.2
      exact ⟨e.1, Cnt.mem_mins he2.1, by omega⟩
    · rcases Cnt.andCore_cases xs (0, 0) (by simp) with
        ⟨he2, hf2⟩ | ⟨he2, hf2⟩ | ⟨he2, hf2⟩ | ⟨he2, hf2⟩ | ⟨he2, hf2⟩
      · rcases hf2 with ⟨h, _⟩ | ⟨_, h⟩ | ⟨h, _⟩
        · have := hall.symm.trans h; cases this
        · simp at h
        · have := hall.symm.trans h; cases this
      · have := hf2.2.1; simp at this
      · exact absurd hf2.2.2.2 hlen
      · exact Cnt.and_idem_of he2 (by simp)
      · have := hf2.2.2.2; simp at this
  · -- nothing is known: the result is (0, 1), some operand can be 0, all can be 1
    obtain ⟨hall, hany, hy1, hy2⟩ := hf
    obtain ⟨d0, hd0, hd00⟩ := Cnt.not_all_min1 hw hnx hall
    have hmax := Cnt.not_any_max0 hw hnx hany
    have hP0 : rel .and ps (xs.map (·.1) ++ [0]) := by
      rw [Cnt.rel_and_snoc]
      exact Or.inr ⟨rfl, d0.1, Cnt.mem_mins hd0, by omega⟩
    have hP1 : rel .and ps (xs.map (·.2) ++ [1]) := by
      rw [Cnt.rel_and_snoc]
      refine Or.inl ⟨rfl, fun x hx => ?_⟩
      obtain ⟨d, hd, rfl⟩ := List.mem_map.mp hx
      exact hmax d hd
    refine ⟨Cnt.snoc_bounds _ _ _ hy.2.1 (fun j hj w hw' => ?_)
      ⟨_, Cnt.inBox_mins hnx, by rw [hy1]; exact hP0⟩ ⟨_, Cnt.inBox_maxs hnx, by rw [hy2]; exact hP1⟩,
      Cnt.and_idem_of he (by simp)⟩
    rcases hw' with rfl | rfl
    · exact ⟨_, 0, Cnt.inBox_mins hnx, ⟨by omega, by omega⟩, hP0, Cnt.getI_mins xs j hj⟩
    · exact ⟨_, 1, Cnt.inBox_maxs hnx, ⟨by omega, by omega⟩, hP1, Cnt.getI_maxs xs j hj⟩

end Nucs
