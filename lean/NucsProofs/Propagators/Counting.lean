import NucsProofs.Basic
/-!
  and, exactly_true, exactly_eq (count_eq is in `CountEq.lean`, which imports this file).
  Generic helpers are prefixed `Cnt.` to avoid clashes with other proof files.
-/
namespace Nucs

/-! ### generic helpers -/

/-- a propagator that watches MIN|MAX everywhere and is `Sound` satisfies `TrigOk` -/
theorem Cnt.trigOk_of_minMax (a : Alg) (hs : Sound a)
    (hm : ∀ ps n k, maskAlg a ps n k = Ev.minMax) : TrigOk a := by
  intro ps B st B' B'' hc hne hrun hst hle _ hq
  have hS := (hs ps B st B' hc hne hrun).1 hst
  have hl1 := Box.le_length hle
  have hl2 := Box.le_length hS.1
  have hBB : B'' = B := by
    apply Box.ext_get (by omega)
    intro k hk
    have := hq k (by omega)
    rw [hm] at this
    exact eq_of_quiet_minMax this
  subst hBB
  have : B' = B'' := Box.le_antisymm hS.1 hle
  subst this
  exact ⟨st, hrun, hst⟩

theorem Cnt.front_back (B : Box) (h : B ≠ []) : B = B.front ++ [B.back] := by
  unfold Box.front Box.back
  rw [List.getLastD_eq_getLast?, List.getLast?_eq_some_getLast h]
  simp [List.dropLast_concat_getLast]

theorem Cnt.tfront_tback (t : List Int) (h : t ≠ []) : t = tFront t ++ [tBack t] := by
  unfold tFront tBack
  rw [List.getLastD_eq_getLast?, List.getLast?_eq_some_getLast h]
  simp [List.dropLast_concat_getLast]

@[simp] theorem Cnt.tFront_snoc (ts : List Int) (v : Int) : tFront (ts ++ [v]) = ts := by
  simp [tFront]

@[simp] theorem Cnt.tBack_snoc (ts : List Int) (v : Int) : tBack (ts ++ [v]) = v := by
  simp [tBack]

@[simp] theorem Cnt.front_snoc (xs : Box) (y : Dom) : Box.front (xs ++ [y]) = xs := by
  simp [Box.front]

@[simp] theorem Cnt.back_snoc (xs : Box) (y : Dom) : Box.back (xs ++ [y]) = y := by
  simp [Box.back]

theorem Cnt.inBox_snoc : ∀ (ts : List Int) (v : Int) (xs : Box) (y : Dom),
    inBox (ts ++ [v]) (xs ++ [y]) ↔ inBox ts xs ∧ inDom v y
  | [], v, [], y => by simp [inBox]
  | t :: ts, v, d :: ds, y => by
    have := Cnt.inBox_snoc ts v ds y
    simp only [List.cons_append, inBox, this, and_assoc]
  | [], v, d :: ds, y => by
    cases ds <;> simp [inBox]
  | t :: ts, v, [], y => by
    cases ts <;> simp [inBox]

/-- a tuple in `xs ++ [y]` is of the form `ts ++ [v]` -/
theorem Cnt.inBox_snoc_elim {t : List Int} {xs : Box} {y : Dom} (h : inBox t (xs ++ [y])) :
    ∃ ts v, t = ts ++ [v] ∧ inBox ts xs ∧ inDom v y := by
  have hl := inBox_length h
  have hne : t ≠ [] := by intro h0; subst h0; simp at hl
  have ht := Cnt.tfront_tback t hne
  refine ⟨tFront t, tBack t, ht, ?_⟩
  rw [ht] at h
  exact (Cnt.inBox_snoc _ _ _ _).mp h

theorem Cnt.le_snoc : ∀ (xs' : Box) (y' : Dom) (xs : Box) (y : Dom),
    Box.le (xs' ++ [y']) (xs ++ [y]) ↔ Box.le xs' xs ∧ (y.1 ≤ y'.1 ∧ y'.2 ≤ y.2)
  | [], _, [], _ => by simp [Box.le]
  | _ :: ds', y', _ :: ds, y => by
    have := Cnt.le_snoc ds' y' ds y
    simp only [List.cons_append, Box.le, this, and_assoc]
  | [], _, _ :: ds, _ => by
    cases ds <;> simp [Box.le]
  | _ :: ds', _, [], _ => by
    cases ds' <;> simp [Box.le]

theorem Cnt.nonempty_snoc (xs : Box) (y : Dom) :
    Box.Nonempty (xs ++ [y]) ↔ Box.Nonempty xs ∧ y.1 ≤ y.2 := by
  simp only [Box.Nonempty, List.mem_append, List.mem_singleton]
  constructor
  · intro h; exact ⟨fun d hd => h d (Or.inl hd), h y (Or.inr rfl)⟩
  · rintro ⟨h1, h2⟩ d (hd | hd)
    · exact h1 d hd
    · subst hd; exact h2

theorem Cnt.within_snoc (xs : Box) (y : Dom) (lo hi : Int) :
    Box.within (xs ++ [y]) lo hi ↔ Box.within xs lo hi ∧ (lo ≤ y.1 ∧ y.2 ≤ hi) := by
  simp only [Box.within, List.mem_append, List.mem_singleton]
  constructor
  · intro h; exact ⟨fun d hd => h d (Or.inl hd), h y (Or.inr rfl)⟩
  · rintro ⟨h1, h2⟩ d (hd | hd)
    · exact h1 d hd
    · subst hd; exact h2

theorem Cnt.pointBox_snoc (ts : List Int) (v : Int) :
    pointBox (ts ++ [v]) = pointBox ts ++ [(v, v)] := by
  simp [pointBox]

theorem Cnt.getI_eq (l : List Int) (k : Nat) (h : k < l.length) : getI l k = l[k] := by
  simp [getI, List.getD, List.getElem?_eq_getElem h]

theorem Cnt.getDom_eq (l : Box) (k : Nat) (h : k < l.length) : getDom l k = l[k] := by
  simp [getDom, List.getD, List.getElem?_eq_getElem h]

theorem Cnt.getDom_mem (l : Box) (k : Nat) (h : k < l.length) : getDom l k ∈ l := by
  rw [Cnt.getDom_eq l k h]; exact List.getElem_mem h

/-- pin position `k` of a box to the value `v` -/
def Cnt.pin (B : Box) (k : Nat) (v : Int) : Box := B.set k (v, v)

theorem Cnt.inBox_pin : ∀ {t : List Int} {B : Box} (k : Nat) (v : Int),
    inBox t (Cnt.pin B k v) → k < B.length → inDom v (getDom B k) → inBox t B ∧ getI t k = v
  | x :: _, d :: _, 0, v, h, _, hv => by
    simp only [Cnt.pin, List.set_cons_zero, inBox, inDom, getDom, List.getD_cons_zero] at *
    have : x = v := by omega
    subst this
    exact ⟨⟨hv, h.2⟩, by simp [getI]⟩
  | _ :: ts, _ :: ds, k + 1, v, h, hk, hv => by
    simp only [Cnt.pin, List.set_cons_succ, inBox] at h
    have := Cnt.inBox_pin (t := ts) (B := ds) k v h.2 (by simpa using hk) (by simpa [getDom] using hv)
    exact ⟨⟨h.1, this.1⟩, by simpa [getI] using this.2⟩
  | [], [], _, _, _, hk, _ => by simp at hk
  | [], _ :: _, k, _, h, _, _ => by cases k <;> simp [Cnt.pin, inBox] at h
  | _ :: _, [], _, _, _, hk, _ => by simp at hk

theorem Cnt.pin_length (B : Box) (k : Nat) (v : Int) : (Cnt.pin B k v).length = B.length := by
  simp [Cnt.pin]

theorem Cnt.pin_nonempty {B : Box} (h : B.Nonempty) (k : Nat) (v : Int) : (Cnt.pin B k v).Nonempty := by
  intro d hd
  rcases List.mem_or_eq_of_mem_set hd with h1 | h1
  · exact h d h1
  · subst h1; exact Int.le_refl _

/-- effect of `set` on the number of elements satisfying a predicate -/
theorem Cnt.filter_length_set (p : Dom → Bool) (e : Dom) : ∀ (B : Box) (k : Nat), k < B.length →
    (List.filter p (B.set k e)).length + (if p (getDom B k) then 1 else 0) =
      (List.filter p B).length + (if p e then 1 else 0)
  | d :: ds, 0, _ => by
    simp only [List.set_cons_zero, List.filter_cons, getDom, List.getD_cons_zero]
    cases p d <;> cases p e <;> simp <;> omega
  | d :: ds, k + 1, hk => by
    have ih := Cnt.filter_length_set p e ds k (by simpa using hk)
    have hg : getDom (d :: ds) (k + 1) = getDom ds k := by simp [getDom]
    rw [hg]
    generalize (if p (getDom ds k) = true then 1 else 0) = z at *
    simp only [List.set_cons_succ, List.filter_cons]
    cases p d <;> simp <;> omega
  | [], _, hk => by simp at hk

end Nucs
