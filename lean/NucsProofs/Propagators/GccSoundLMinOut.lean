import NucsProofs.Propagators.GccSoundLMinInit
import NucsProofs.Propagators.GccSoundLMinElse
import NucsProofs.Propagators.GccSoundLMinPot
/-!
  Semantic soundness of the ported gcc, `filter_lower_min`: the statement of what the pass leaves
  behind (`LMinOut`), to be proved in GccSoundLMinLoop.lean and consumed by the assembly.
-/
namespace Nucs
namespace Gcc
open AllDiff (g g2 LChain)

/-- the final state of `filter_lower_min` on the ranks `rx ry`, bounds `bounds`, variables
    `msv` (sorted by increasing maximum), `N = nb + 1`, `bd = K l fv bounds`.
    `U` = the used variables, `sf bf` = the final `sets` / `stbl_intervals` (before the linear-time
    compression), `wf u` = the candidate new minimum (an index of `bounds`) of a used variable;
    `ok stbl' nm' dom'` = the outputs. -/
structure LMinOut (N n : Int) (bd : Int → Int) (bounds : Array Int) (l : PSum) (ranks : Arr2)
    (msv : Array Int) (dom0 : Arr2) (ok : Bool) (stbl' nm' : Array Int) (dom' : Arr2)
    (U : List Int) (sf bf wf : Int → Int) : Prop where
  sem : ∃ Y tf df, ESem N bd (fun v => (g2 ranks v).1) (fun v => (g2 ranks v).2) msv.toList
    msv.toList U Y tf df sf wf
  psem : ∃ pf, PSem N bd (fun v => (g2 ranks v).1) (fun v => (g2 ranks v).2) msv.toList U pf bf
  cs : LChain sf N
  cb : LChain bf N
  usub : U.Sublist msv.toList
  fail : ok = false ↔ sf (N - 1) ≠ 0
  /-- the compressed `stbl_intervals`: roots unchanged, the other nodes point to their root -/
  stbl : ok = true → ∀ k, 1 ≤ k → k ≤ N →
    (bf k < k → g stbl' k = bf k) ∧
    (bf k > k → k < g stbl' k ∧ g stbl' k ≤ N ∧ bf (g stbl' k) < g stbl' k ∧
      ∀ m', k ≤ m' → m' < g stbl' k → bf m' > m')
  nm : ok = true → ∀ i, 0 ≤ i → i < n → g msv i ∈ U → g nm' i = wf (g msv i)
  size : ok = true → dom'.size = dom0.size
  dom : ok = true → ∀ i, 0 ≤ i → i < n →
    (g2 dom' (g msv i)).2 = (g2 dom0 (g msv i)).2 ∧
    ((g stbl' (g2 ranks (g msv i)).1 ≤ (g2 ranks (g msv i)).1 ∨
        (g2 ranks (g msv i)).2 > g stbl' (g2 ranks (g msv i)).1) →
      skip_non_null_elements_right l (g bounds (g nm' i)) = .ok (g2 dom' (g msv i)).1) ∧
    (¬ (g stbl' (g2 ranks (g msv i)).1 ≤ (g2 ranks (g msv i)).1 ∨
        (g2 ranks (g msv i)).2 > g stbl' (g2 ranks (g msv i)).1) →
      (g2 dom' (g msv i)).1 = (g2 dom0 (g msv i)).1)

end Gcc
end Nucs
