import NucsProofs.Propagators.PortGccLMinDefs
import NucsProofs.Propagators.PortAlldiffLower
/-!
  The loop invariant of the main loop of `filter_lower_min` (ported gcc).

  All four pointer arrays (`tl`, `sets`, `pot_stbl_sets`, `stbl_intervals`) have the shape
  `AllDiff.LChain` on the nodes `1..N` (`N = nb + 1`): a node either points down (a "root") to the
  next root below it (or to the terminal `0`), or points up, never beyond the next root above it.
  For `tl` the cell `1` is never written nor read (it is stale), so the invariant speaks about
  `tlg tl`, which is `tl` with cell `1` replaced by the terminal `0`.

  `Kf i` stands for `K l fv bounds i`, the partial sum of the lower capacities just below
  `bounds[i]`; `Kf r - Kf (r - 1)` is the initial value of `c[r]`.
-/
namespace Nucs
namespace Gcc

open AllDiff (g upd g2 upd2 ok_bind pure_eq_ok except_bind_ok forIn_list_except range_forIn_eq
  size_upd size_upd2 g_upd g_upd_same g_upd_ne LChain)

/-- `tl` with the never-read cell `1` (and everything below) replaced by the terminal `0` -/
def tlg (tl : Array Int) : Int → Int := fun k => if k ≤ 1 then 0 else g tl k

theorem tlg_ge2 (tl : Array Int) (k : Int) (h : 2 ≤ k) : tlg tl k = g tl k := by
  unfold tlg; rw [if_neg (by omega)]

theorem tlg_le1 (tl : Array Int) (k : Int) (h : k ≤ 1) : tlg tl k = 0 := by
  unfold tlg; rw [if_pos h]

/-- the part of the invariant about `tl`, `c`, `sets` -/
structure MCore (N : Int) (sz : Nat) (Kf : Int → Int) (tl c sets : Array Int) : Prop where
  st : tl.size = sz
  sc : c.size = sz
  ss : sets.size = sz
  hsz : N < sz
  ct : LChain (tlg tl) N
  cs : LChain (g sets) N
  /-- a root of `tl` has a positive capacity left, at most its initial capacity -/
  d1 : ∀ r, 2 ≤ r → r ≤ N → g tl r < r → 1 ≤ g c r ∧ g c r ≤ Kf r - Kf (r - 1)
  /-- the capacity of the top sentinel is never used -/
  cN : g c N = Kf N - Kf (N - 1)
  /-- the node just below the target of a root of `tl` is a root of `sets` (or the terminal) -/
  l1 : ∀ r, 2 ≤ r → r ≤ N → g tl r < r → g tl r = 1 ∨ g sets (g tl r - 1) < g tl r - 1
  /-- the node just below a root of `tl` with untouched capacity is a root of `sets` -/
  l2 : ∀ r, 2 ≤ r → r ≤ N → g tl r < r → g c r = Kf r - Kf (r - 1) → g sets (r - 1) < r - 1
  /-- a root of `sets` has a non-zero initial capacity just above it -/
  i5 : ∀ k, 1 ≤ k → k < N → g sets k < k → Kf k < Kf (k + 1)
  /-- below a root of `tl` with untouched capacity, the nodes of the zero-capacity stretch still
      point directly at the node just below that root -/
  i6 : ∀ r, 2 ≤ r → r ≤ N → g tl r < r → g c r = Kf r - Kf (r - 1) →
    ∀ k, 1 ≤ k → k < r - 1 → Kf k = Kf (r - 1) → g sets k = r - 1

/-- the part of the invariant about `pot_stbl_sets`, `stbl_intervals` -/
structure MPot (N : Int) (sz : Nat) (tl pot stbl : Array Int) : Prop where
  sp : pot.size = sz
  sb : stbl.size = sz
  cp : LChain (g pot) N
  cb : LChain (g stbl) N
  /-- a node that points up in `pot_stbl_sets` points up in `tl` -/
  i1 : ∀ k, 2 ≤ k → k < N → g pot k > k → g tl k > k
  i3 : ∀ k, 2 ≤ k → k ≤ N → 1 ≤ g pot k

/-- every node of `a` that points up lies below `Y` -/
def MBelow (N : Int) (a : Array Int) (Y : Int) : Prop := ∀ k, 1 ≤ k → k ≤ N → g a k > k → k < Y

/-- the entries of `new_mins` are indices of `bounds` -/
def NMOk (N : Int) (nm : Array Int) : Prop :=
  ∀ k, 0 ≤ k → k < nm.size → 0 ≤ g nm k ∧ g nm k ≤ N

/-- a root of `tl` above the (virtual) bottom root `1` never points below `1` -/
theorem MCore.root_ge_one {N : Int} {sz : Nat} {Kf : Int → Int} {tl c sets : Array Int}
    (hc : MCore N sz Kf tl c sets) (r : Int) (h2 : 2 ≤ r) (hN : r ≤ N) (hr : g tl r < r) :
    1 ≤ g tl r := by
  by_cases h : 1 ≤ g tl r
  · exact h
  · have hr' : tlg tl r < r := by rw [tlg_ge2 tl r h2]; exact hr
    have := (hc.ct.down r (by omega) hN hr').1 1 (by rw [tlg_ge2 tl r h2]; omega) (by omega)
    rw [tlg_le1 tl 1 (by omega)] at this
    omega

theorem tlg_upd (tl : Array Int) (i v k : Int) (h2 : 2 ≤ i) (h1 : i < tl.size) (hk : 0 ≤ k) :
    tlg (upd tl i v) k = if k = i then v else tlg tl k := by
  unfold tlg
  by_cases hk1 : k ≤ 1
  · rw [if_pos hk1, if_pos hk1, if_neg (by omega)]
  · rw [if_neg hk1, if_neg hk1]
    exact g_upd tl i v k (by omega) h1 hk

end Gcc
end Nucs
