import NucsProofs.Propagators.GccExistMix
/-!
  The clean combinatorial statement behind every failure and every pruning of the gcc propagator
  (easy direction of Hall's theorem; no algorithm involved): in a solution `τ`
  * no interval of values `[a, b]` confines more variables than its total upper capacity;
  * every set `S` of values is met by the domains of at least as many variables as its total lower
    capacity.
  A violated set therefore certifies that there is no solution; applied to the box with one variable
  fixed it certifies a pruning.  (The passes use these facts through `upper_fail` / `upper_prune` of
  GccSoundCount.lean for rank intervals and through `lfin_tight` / `lfin_zone` of
  GccSoundLFinal.lean for the complements of stable sets and filled zones.)
-/
namespace Nucs
namespace Gcc

theorem occ_sublist (τ : Int → Int) {P Q : List Int} (h : P.Sublist Q) (v : Int) :
    occ τ P v ≤ occ τ Q v := by
  unfold occ
  have := h.countP_le (p := fun p => decide (τ p = v))
  omega

theorem gcc_no_solution_of_violated_set (all : List Int) (lo hi τ capL capU : Int → Int)
    (A B : Int) (hτ : ∀ p ∈ all, lo p ≤ τ p ∧ τ p ≤ hi p)
    (hrange : ∀ p ∈ all, A ≤ lo p ∧ hi p < B)
    (hocc : ∀ v, A ≤ v → v < B → capL v ≤ occ τ all v ∧ occ τ all v ≤ capU v) :
    (∀ a b, A ≤ a → b < B →
      ((all.countP (fun p => decide (a ≤ lo p) && decide (hi p ≤ b)) : Nat) : Int) ≤
        vsum capU a (b + 1)) ∧
    (∀ S : Int → Bool, vsum (fun v => if S v = true then capL v else 0) A B ≤
      ((all.countP (fun p => meetsB S (lo p) (hi p)) : Nat) : Int)) := by
  constructor
  · intro a b ha hb
    have hsub : (all.filter (fun p => decide (a ≤ lo p) && decide (hi p ≤ b))).Sublist all :=
      List.filter_sublist
    have hκ : ∀ p ∈ all.filter (fun p => decide (a ≤ lo p) && decide (hi p ≤ b)),
        a ≤ τ p ∧ τ p < b + 1 := by
      intro p hp
      rw [List.mem_filter] at hp
      have h1 := hτ p hp.1
      have h2 := hp.2
      simp only [Bool.and_eq_true, decide_eq_true_eq] at h2
      omega
    have hc := countP_values (all.filter (fun p => decide (a ≤ lo p) && decide (hi p ≤ b))) τ
      (fun _ => true) a (b + 1) hκ
    simp only [List.countP_true, if_true] at hc
    rw [List.countP_eq_length_filter, hc]
    apply vsum_le
    intro k h1 h2
    have := occ_sublist τ hsub k
    have := (hocc k (by omega) (by omega)).2
    omega
  · intro S
    have hκ : ∀ p ∈ all, A ≤ τ p ∧ τ p < B := by
      intro p hp
      have := hτ p hp
      have := hrange p hp
      omega
    have hc := countP_values all τ S A B hκ
    have h1 : vsum (fun v => if S v = true then capL v else 0) A B ≤
        vsum (fun k => if S k = true then occ τ all k else 0) A B := by
      apply vsum_le
      intro k h1 h2
      have := (hocc k h1 h2).1
      split <;> omega
    have h2 : all.countP (fun p => S (τ p)) ≤ all.countP (fun p => meetsB S (lo p) (hi p)) := by
      apply List.countP_mono_left
      intro p hp h
      rw [meetsB_iff]
      exact ⟨τ p, (hτ p hp).1, (hτ p hp).2, h⟩
    omega

end Gcc
end Nucs
