import NucsProofs.Propagators.PortGccCtx
import NucsProofs.Propagators.PortAlldiffLower
/-!
  `filter_lower_max` of the ported gcc never errs.  This is the adaptation of
  `PortAlldiffLower.lean` (`AllDiff.filter_lower`): the pointer-structure lemmas `AllDiff.LChain.*`
  are reused as they are; the capacities `bounds[i] - bounds[i-1]` become differences of the partial
  sums `K u fv bounds i` ("the partial sum just below `bounds[i]`").
-/
namespace Nucs
namespace Gcc

open AllDiff (g upd g2 upd2 ok_bind pure_eq_ok except_bind_ok forIn_list_except range_forIn_eq
  size_upd size_upd2 g_upd g_upd_same g_upd_ne LChain)

/-! ### `filter_lower_max` as a composition of named pieces -/

/-- loop state of the main loop: pending `return` value, then `t`, `d`, `h`, `domains` -/
abbrev LMSt :=
  Option (Bool × Array Int × Array Int × Array Int × Arr2) × Array Int × Array Int × Array Int × Arr2

/-- the last `if` of the loop body (Hall-interval marking) -/
def lmaxTail2 (u : PSum) (bounds : Array Int) (y j z : Int) (t d : Array Int) (h : Array Int)
    (domains : Arr2) : Except Err (ForInStep LMSt) := do
  if (← rd d z) == (← get_sum u (← rd bounds y) ((← rd bounds z) - 1)) then
    let h ← path_set h (← rd h y) (j - 1) y
    let h ← wr h y (j - 1)
    pure (ForInStep.yield (none, t, d, h, domains))
  else pure (ForInStep.yield (none, t, d, h, domains))

/-- the loop body from the failure test on -/
def lmaxTail (u : PSum) (bounds : Array Int) (v x y j : Int) (d h : Array Int) (domains : Arr2)
    (t : Array Int) (z : Int) : Except Err (ForInStep LMSt) := do
  if (← rd d z) < (← get_sum u (← rd bounds y) ((← rd bounds z) - 1)) then
    pure (ForInStep.done (some (false, t, d, h, domains), t, d, h, domains))
  else
    let t ← path_set t (x + 1) z z
    if (← rd h x) > x then
      let w ← path_max h (← rd h x)
      let domains ← wr2 domains v MIN (← rd bounds w)
      let h ← path_set h x w w
      lmaxTail2 u bounds y j z t d h domains
    else lmaxTail2 u bounds y j z t d h domains

/-- the body of the main loop -/
def lmaxBody (u : PSum) (bounds : Array Int) (ranks : Arr2) (v : Int) (s : LMSt) :
    Except Err (ForInStep LMSt) := do
  let t := s.2.1
  let d := s.2.2.1
  let h := s.2.2.2.1
  let domains := s.2.2.2.2
  let x ← rd2 ranks v MIN
  let y ← rd2 ranks v MAX
  let z ← path_max t (x + 1)
  let j ← rd t z
  let d ← wr d z ((← rd d z) - 1)
  if (← rd d z) == 0 then
    let t ← wr t z (z + 1)
    let z ← path_max t (← rd t z)
    let t ← wr t z j
    lmaxTail u bounds v x y j d h domains t z
  else lmaxTail u bounds v x y j d h domains t z

/-- the body of the initialisation loop -/
def lmaxInit (u : PSum) (bounds : Array Int) (i : Int) (s : Array Int × Array Int × Array Int) :
    Except Err (ForInStep (Array Int × Array Int × Array Int)) := do
  let t ← wr s.1 i (i - 1)
  let h ← wr s.2.2 i (i - 1)
  let d ← wr s.2.1 i (← get_sum u (← rd bounds (i - 1)) ((← rd bounds i) - 1))
  pure (ForInStep.yield (t, d, h))

theorem filter_lower_max_eq (n nb : Int) (t d h bounds : Array Int) (domains ranks : Arr2)
    (msv : Array Int) (u : PSum) :
    filter_lower_max n nb t d h bounds domains ranks msv u =
      (do
        let s ← forIn (rangeUp 1 (nb + 2)) (t, d, h) (lmaxInit u bounds)
        let s2 ← forIn msv ((none, s.1, s.2.1, s.2.2, domains) : LMSt) (lmaxBody u bounds ranks)
        match s2.1 with
        | some r => pure r
        | none => pure (true, s2.2.1, s2.2.2.1, s2.2.2.2.1, s2.2.2.2.2)) := by
  unfold filter_lower_max
  simp only []
  congr 1
  funext s
  congr 1
  funext v
  rcases v with ⟨_ | r, v⟩ <;> rfl

/-! ### the invariants -/

/-- the part of the loop invariant of `filter_lower_max` that also holds in the middle of an
    iteration; `Kf i` is the partial sum just below `bounds[i]` -/
structure LMCore (N : Int) (sz : Nat) (Kf : Int → Int) (t d h : Array Int) : Prop where
  st : t.size = sz
  sd : d.size = sz
  sh : h.size = sz
  hsz : N < sz
  ct : LChain (g t) N
  ch : LChain (g h) N
  t1 : g t 1 = 0
  d1 : ∀ i, 1 ≤ i → i ≤ N → g t i < i → 1 ≤ g d i ∧ g d i ≤ Kf i - Kf (i - 1)
  l1 : ∀ r, 2 ≤ r → r ≤ N → g t r < r → g t r = 1 ∨ g h (g t r - 1) < g t r - 1
  l2 : ∀ r, 2 ≤ r → r ≤ N → g t r < r → g d r = Kf r - Kf (r - 1) → g h (r - 1) < r - 1

/-- the loop invariant of `filter_lower_max` -/
structure LMInv (N : Int) (sz : Nat) (Kf : Int → Int) (t d h : Array Int) : Prop extends
    LMCore N sz Kf t d h where
  d2 : g d N = Kf N - Kf (N - 1)

/-- a root above the bottom root `1` never points below `1` -/
theorem LMCore.root_ge_one {N : Int} {sz : Nat} {Kf : Int → Int} {t d h : Array Int}
    (hc : LMCore N sz Kf t d h) (r : Int) (h2 : 2 ≤ r) (hN : r ≤ N) (hr : g t r < r) :
    1 ≤ g t r := by
  by_cases h : 1 ≤ g t r
  · exact h
  · have := (hc.ct.down r (by omega) hN hr).1 1 (by omega) (by omega)
    have := hc.t1
    omega

/-- replacing `t` by an array with the same roots and the same root targets -/
theorem LMCore.replace_t {N : Int} {sz : Nat} {Kf : Int → Int} {t t' d h : Array Int}
    (hc : LMCore N sz Kf t d h) (hs : t'.size = sz) (hct : LChain (g t') N)
    (hroots : ∀ k, 1 ≤ k → k ≤ N → (g t' k < k ↔ g t k < k))
    (hval : ∀ k, 1 ≤ k → k ≤ N → g t k < k → g t' k = g t k) : LMCore N sz Kf t' d h := by
  have hN := hc.ct.hN
  refine ⟨hs, hc.sd, hc.sh, hc.hsz, hct, hc.ch, ?_, ?_, ?_, ?_⟩
  · rw [hval 1 (by omega) hN (by rw [hc.t1]; omega)]; exact hc.t1
  · intro i h1 h2 h3
    exact hc.d1 i h1 h2 ((hroots i h1 h2).1 h3)
  · intro r h1 h2 h3
    have h3' := (hroots r (by omega) h2).1 h3
    rw [hval r (by omega) h2 h3']
    exact hc.l1 r h1 h2 h3'
  · intro r h1 h2 h3
    exact hc.l2 r h1 h2 ((hroots r (by omega) h2).1 h3)

/-- replacing `h` by an array with the same roots -/
theorem LMCore.replace_h {N : Int} {sz : Nat} {Kf : Int → Int} {t d h h' : Array Int}
    (hc : LMCore N sz Kf t d h) (hs : h'.size = sz) (hch : LChain (g h') N)
    (hroots : ∀ k, 1 ≤ k → k ≤ N → (g h' k < k ↔ g h k < k)) : LMCore N sz Kf t d h' := by
  refine ⟨hc.st, hc.sd, hs, hc.hsz, hc.ct, hch, hc.t1, hc.d1, ?_, ?_⟩
  · intro r h1 h2 h3
    have hr1 := hc.root_ge_one r h1 h2 h3
    rcases hc.l1 r h1 h2 h3 with h4 | h4
    · exact Or.inl h4
    · by_cases h5 : g t r = 1
      · exact Or.inl h5
      · right
        rw [hroots (g t r - 1) (by omega) (by omega)]; exact h4
  · intro r h1 h2 h3 h4
    rw [hroots (r - 1) (by omega) (by omega)]
    exact hc.l2 r h1 h2 h3 h4

/-! ### the Hall-interval marking step -/

theorem lmaxTail2_spec {N : Int} {sz : Nat} {bounds t d h : Array Int} {u : PSum} {fv m : Int}
    (hb : BC bounds N fv m) (hu : PS u fv m) (hus : PSStrict u m)
    (hi : LMInv N sz (K u fv bounds) t d h) (domains : Arr2) (y j z : Int) (hy1 : 1 ≤ y)
    (hyN : y < N) (hz2 : 2 ≤ z) (hzN : z ≤ N) (hzr : g t z < z) (hj : g t z = j) :
    ∃ h', lmaxTail2 u bounds y j z t d h domains = .ok (.yield (none, t, d, h', domains)) ∧
      LMInv N sz (K u fv bounds) t d h' := by
  have hbsz := hb.hsz
  have hNsz := hi.hsz
  have hsd := hi.sd
  have hsh := hi.sh
  unfold lmaxTail2
  rw [rd_ok d z (by omega) (by omega), ok_bind, rd_ok bounds y (by omega) (by omega), ok_bind,
    rd_ok bounds z (by omega) (by omega), ok_bind,
    get_sum_bounds_ok hu hb y z (by omega) hyN (by omega) hzN, ok_bind]
  by_cases heq : g d z = gsum u (g bounds y) (g bounds z - 1)
  · have hcond : (g d z == gsum u (g bounds y) (g bounds z - 1)) = true := by simpa using heq
    rw [if_pos hcond]
    -- the group of `z` is full up to `bounds[y]`: `z = y + 1` and cell `z` is untouched
    have hd1 := hi.d1 z (by omega) hzN hzr
    have hyz : y < z := by
      by_cases h1 : z ≤ y
      · have := gsum_K_neg_strict hu hus hb y z (by omega) h1 hyN; omega
      · omega
    have hgK := gsum_K hu hb y z (by omega) hyz hzN
    have hzy : z = y + 1 := by
      by_cases h2 : y < z - 1
      · have := K_strict hu hus hb y (z - 1) (by omega) h2 (by omega); omega
      · omega
    have hfresh : g d z = K u fv bounds z - K u fv bounds (z - 1) := by
      have : z - 1 = y := by omega
      rw [this]; omega
    have hhy : g h y < y := by
      have := hi.l2 z hz2 hzN hzr hfresh
      rw [hzy] at this
      have h3 : y + 1 - 1 = y := by omega
      rw [h3] at this; exact this
    have hj1 : 1 ≤ j := by rw [← hj]; exact hi.toLMCore.root_ge_one z hz2 hzN hzr
    have hl1 := hi.l1 z hz2 hzN hzr
    rw [hj] at hl1
    have hdy := hi.ch.down y hy1 (by omega) hhy
    have hry := hi.ch.rng y hy1 (by omega)
    -- `e = j - 1` is `0` or a root of `h`, hence not skipped by the pointer of `y`
    have hre : j - 1 = 0 ∨ g h (j - 1) < j - 1 := by
      rcases hl1 with h | h
      · left; omega
      · right; exact h
    have hey : j - 1 ≤ g h y := by
      by_cases hle : j - 1 ≤ g h y
      · exact hle
      · have := hdy.1 (j - 1) (by omega) (by omega)
        rcases hre with h | h <;> omega
    rw [rd_ok h y (by omega) (by omega), ok_bind]
    obtain ⟨h2, hps, hsz2, hv2⟩ := path_set_down_mark h (g h y) (j - 1) y (by omega) hey
      (by omega)
      (by
        rcases hdy.2 with h0 | h0
        · left; omega
        · right; exact h0)
      (by
        intro p hp1 hp2 hp3
        have hdp := hi.ch.down p (by omega) (by omega) hp3
        have hrp := hi.ch.rng p (by omega) (by omega)
        refine ⟨?_, ?_, fun k hk1 hk2 => by have := hdp.1 k hk1 hk2; omega⟩
        · by_cases hle : j - 1 ≤ g h p
          · exact hle
          · have := hdp.1 (j - 1) (by omega) (by omega)
            rcases hre with h | h <;> omega
        · rcases hdp.2 with h0 | h0
          · left
            by_cases hle : j - 1 ≤ g h p
            · omega
            · have := hdp.1 (j - 1) (by omega) (by omega)
              rcases hre with h | h <;> omega
          · right; exact h0)
    rw [hps, ok_bind, wr_ok h2 y (j - 1) (by omega) (by omega), ok_bind]
    refine ⟨upd h2 y (j - 1), rfl, ?_⟩
    -- the new `h` as a function
    have ha3 : ∀ k, 0 ≤ k → g (upd h2 y (j - 1)) k =
        if k = y then j - 1 else if j - 1 < k ∧ k ≤ g h y ∧ g h k < k then y else g h k := by
      intro k hk
      rw [g_upd h2 y (j - 1) k (by omega) (by omega) hk]
      by_cases hky : k = y
      · simp [hky]
      · simp only [hky, if_false]; exact hv2 k hk
    obtain ⟨hch', hroots'⟩ := hi.ch.mark hy1 hyN hhy (by omega) hey hre ha3
    -- a root of `t` is never strictly inside the group `(j, z)`
    have houtside : ∀ r, 1 ≤ r → r ≤ N → g t r < r → ¬ (j < r ∧ r < z) := by
      intro r h1 h2 h3 h4
      have := (hi.ct.down z (by omega) hzN hzr).1 r (by omega) h4.2
      omega
    refine ⟨⟨hi.st, hi.sd, by simp [hsz2, hsh], hi.hsz, hi.ct, hch', hi.t1, hi.d1, ?_, ?_⟩, hi.d2⟩
    · intro r h1 h2 h3
      have hr1 := hi.toLMCore.root_ge_one r h1 h2 h3
      rcases hi.l1 r h1 h2 h3 with h4 | h4
      · exact Or.inl h4
      · by_cases h5 : g t r = 1
        · exact Or.inl h5
        · right
          have hrr := hi.ct.rng r (by omega) h2
          rw [hroots' (g t r - 1) (by omega) (by omega)]
          refine ⟨h4, fun h6 => ?_⟩
          -- `g t r` is a root of `t` strictly inside `(j, z)`
          rcases (hi.ct.down r (by omega) h2 h3).2 with h7 | h7
          · omega
          · exact houtside (g t r) (by omega) (by omega) h7 ⟨by omega, by omega⟩
    · intro r h1 h2 h3 h4
      rw [hroots' (r - 1) (by omega) (by omega)]
      exact ⟨hi.l2 r h1 h2 h3 h4, fun h6 => houtside r (by omega) h2 h3 ⟨by omega, by omega⟩⟩
  · have hcond : ¬ (g d z == gsum u (g bounds y) (g bounds z - 1)) = true := by simpa using heq
    rw [if_neg hcond]
    exact ⟨h, rfl, hi⟩

/-! ### from the failure test to the end of the iteration -/

theorem lmaxTail_spec {N : Int} {sz : Nat} {bounds t d h : Array Int} {u : PSum} {fv m : Int}
    (hb : BC bounds N fv m) (hu : PS u fv m) (hus : PSStrict u m)
    (hc : LMCore N sz (K u fv bounds) t d h) (domains : Arr2) (v x y j z : Int)
    (hd2 : g d N = K u fv bounds N - K u fv bounds (N - 1) ∨
      (z = N ∧ g d N = K u fv bounds N - K u fv bounds (N - 1) - 1))
    (hv0 : 0 ≤ v) (hv1 : v < domains.size) (hx1 : 1 ≤ x) (hxN : x < N) (hy1 : 1 ≤ y) (hyN : y < N)
    (hxz : x + 1 ≤ z) (hzN : z ≤ N) (hzr : g t z < z) (hj : g t z = j)
    (hall : ∀ k, x + 1 ≤ k → k < z → g t k > k) :
    (∃ t' h' dom', lmaxTail u bounds v x y j d h domains t z =
        .ok (.yield (none, t', d, h', dom')) ∧ LMInv N sz (K u fv bounds) t' d h' ∧
        dom'.size = domains.size) ∨
      lmaxTail u bounds v x y j d h domains t z =
        .ok (.done (some (false, t, d, h, domains), t, d, h, domains)) := by
  have hbsz := hb.hsz
  have hNsz := hc.hsz
  have hst := hc.st
  have hsd := hc.sd
  have hsh := hc.sh
  unfold lmaxTail
  rw [rd_ok d z (by omega) (by omega), ok_bind, rd_ok bounds y (by omega) (by omega), ok_bind,
    rd_ok bounds z (by omega) (by omega), ok_bind,
    get_sum_bounds_ok hu hb y z (by omega) hyN (by omega) hzN, ok_bind]
  by_cases hfail : g d z < gsum u (g bounds y) (g bounds z - 1)
  · right; rw [if_pos hfail]; rfl
  · left
    rw [if_neg hfail]
    -- the top sentinel has not been used
    have hdN : g d N = K u fv bounds N - K u fv bounds (N - 1) := by
      rcases hd2 with h2 | ⟨h2, h3⟩
      · exact h2
      · subst h2
        have h4 := gsum_K hu hb y z (by omega) hyN (Int.le_refl _)
        have h5 := K_mono hu hb y (z - 1) (by omega) (by omega) (by omega)
        omega
    -- path compression in `t`
    have hupt : ∀ p, x + 1 ≤ p → p < z → p < g t p ∧ g t p ≤ z := by
      intro p h1 h2
      have := hall p h1 h2
      exact ⟨this, hc.ct.up_le_root (by omega) h2 hzN this hzr⟩
    obtain ⟨t3, hps, hsz3, hrel3⟩ := path_set_up_compress t (x + 1) z z (by omega) hxz (by omega) hupt
    obtain ⟨hct3, hroots3, hval3⟩ := hc.ct.compress hzN hall hrel3
    have hc3 : LMCore N sz (K u fv bounds) t3 d h := hc.replace_t (by omega) hct3 hroots3 hval3
    have hzr3 : g t3 z < z := (hroots3 z (by omega) hzN).2 hzr
    have hj3 : g t3 z = j := by rw [hval3 z (by omega) hzN hzr]; exact hj
    rw [hps, ok_bind, rd_ok h x (by omega) (by omega), ok_bind]
    by_cases hhx : g h x > x
    · rw [if_pos hhx, ok_bind]
      have hrx := hc.ch.rng x hx1 (by omega)
      obtain ⟨w, hpm, hw1, hw2, hw3, hw4⟩ := path_max_spec h 1 N (g h x) (by omega) (by omega)
        (fun k h1 h2 => (hc.ch.rng k h1 h2).2.1) (fun k h1 h2 h3 => hc.ch.up k h1 h2 h3)
        (by omega) (by omega)
      have hwr : g h w < w := by have := hc.ch.rng w (by omega) hw2; omega
      have hallh : ∀ k, x ≤ k → k < w → g h k > k := by
        intro k h1 h2
        by_cases hk : k = x
        · subst hk; exact hhx
        · by_cases hk2 : k < g h x
          · exact hc.ch.up x hx1 (by omega) hhx k (by omega) hk2
          · exact hw4 k (by omega) h2
      have huph : ∀ p, x ≤ p → p < w → p < g h p ∧ g h p ≤ w := by
        intro p h1 h2
        have := hallh p h1 h2
        exact ⟨this, hc.ch.up_le_root (by omega) h2 hw2 this hwr⟩
      rw [hpm, ok_bind, rd_ok bounds w (by omega) (by omega), ok_bind,
        wr2_ok domains v MIN (g bounds w) hv0 hv1, ok_bind]
      obtain ⟨h3, hps', hszh3, hrelh3⟩ := path_set_up_compress h x w w (by omega) (by omega)
        (by omega) huph
      obtain ⟨hch3, hrootsh3, _⟩ := hc.ch.compress hw2 hallh hrelh3
      rw [hps', ok_bind]
      have hi3 : LMInv N sz (K u fv bounds) t3 d h3 :=
        ⟨hc3.replace_h (by omega) hch3 hrootsh3, hdN⟩
      obtain ⟨h', he, hi'⟩ := lmaxTail2_spec hb hu hus hi3 (upd2 domains v MIN (g bounds w)) y j z
        hy1 hyN (by omega) hzN hzr3 hj3
      exact ⟨t3, h', _, he, hi', by simp⟩
    · rw [if_neg hhx]
      have hi3 : LMInv N sz (K u fv bounds) t3 d h := ⟨hc3, hdN⟩
      obtain ⟨h', he, hi'⟩ := lmaxTail2_spec hb hu hus hi3 domains y j z hy1 hyN (by omega) hzN
        hzr3 hj3
      exact ⟨t3, h', _, he, hi', rfl⟩

/-! ### one iteration of the main loop -/

theorem lmaxBody_spec {N : Int} {sz : Nat} {bounds t d h : Array Int} {u : PSum} {fv m : Int}
    (hb : BC bounds N fv m) (hu : PS u fv m) (hus : PSStrict u m)
    (hi : LMInv N sz (K u fv bounds) t d h) (ranks domains : Arr2) (v : Int)
    (o : Option (Bool × Array Int × Array Int × Array Int × Arr2))
    (hv0 : 0 ≤ v) (hv1 : v < domains.size) (hvr : v < ranks.size)
    (hx1 : 1 ≤ (g2 ranks v).1) (hxN : (g2 ranks v).1 < N)
    (hy1 : 1 ≤ (g2 ranks v).2) (hyN : (g2 ranks v).2 < N) :
    (∃ t' d' h' dom', lmaxBody u bounds ranks v (o, t, d, h, domains) =
        .ok (.yield (none, t', d', h', dom')) ∧ LMInv N sz (K u fv bounds) t' d' h' ∧
        dom'.size = domains.size) ∨
      ∃ st, lmaxBody u bounds ranks v (o, t, d, h, domains) =
        .ok (.done (some (false, st), st)) := by
  have hbsz := hb.hsz
  have hNsz := hi.hsz
  have hst := hi.st
  have hsd := hi.sd
  have hsh := hi.sh
  have hKtop := K_top hu hb
  unfold lmaxBody
  simp only []
  rw [rd2_min_ok ranks v hv0 hvr, ok_bind, rd2_max_ok ranks v hv0 hvr, ok_bind]
  generalize (g2 ranks v).1 = x at hx1 hxN ⊢
  generalize (g2 ranks v).2 = y at hy1 hyN ⊢
  obtain ⟨z0, hpm, hz1, hz2, hz3, hz4⟩ := path_max_spec t 1 N (x + 1) (by omega) (by omega)
    (fun k h1 h2 => (hi.ct.rng k h1 h2).2.1) (fun k h1 h2 h3 => hi.ct.up k h1 h2 h3)
    (by omega) (by omega)
  have hz0r : g t z0 < z0 := by have := hi.ct.rng z0 (by omega) hz2; omega
  have hd0 := hi.d1 z0 (by omega) hz2 hz0r
  rw [hpm, ok_bind, rd_ok t z0 (by omega) (by omega), ok_bind, rd_ok d z0 (by omega) (by omega),
    ok_bind, wr_ok d z0 _ (by omega) (by omega), ok_bind,
    rd_ok (upd d z0 (g d z0 - 1)) z0 (by omega) (by simp; omega), ok_bind,
    g_upd_same d z0 _ (by omega) (by omega)]
  have hd' : ∀ k, 0 ≤ k → k ≠ z0 → g (upd d z0 (g d z0 - 1)) k = g d k :=
    fun k h1 h2 => g_upd_ne d z0 _ k (by omega) (by omega) h1 h2
  have hd'z : g (upd d z0 (g d z0 - 1)) z0 = g d z0 - 1 := g_upd_same d z0 _ (by omega) (by omega)
  by_cases hm : g d z0 - 1 = 0
  · have hcond : (g d z0 - 1 == 0) = true := by simpa using hm
    rw [if_pos hcond]
    have hz0N : z0 < N := by
      by_cases h : z0 = N
      · subst h; have := hi.d2; omega
      · omega
    rw [wr_ok t z0 (z0 + 1) (by omega) (by omega), ok_bind,
      rd_ok (upd t z0 (z0 + 1)) z0 (by omega) (by simp; omega), ok_bind,
      g_upd_same t z0 _ (by omega) (by omega)]
    have ht1 : ∀ k, 0 ≤ k → g (upd t z0 (z0 + 1)) k = if k = z0 then z0 + 1 else g t k :=
      fun k hk => g_upd t z0 _ k (by omega) (by omega) hk
    obtain ⟨z1, hpm1, hy1', hy2', hy3', hy4'⟩ := path_max_spec (upd t z0 (z0 + 1)) 1 N (z0 + 1)
      (by omega) (by simp; omega)
      (fun k h1 h2 => by
        rw [ht1 k (by omega)]
        by_cases hk : k = z0
        · simp [hk]; omega
        · simp only [hk, if_false]; exact (hi.ct.rng k h1 h2).2.1)
      (fun k h1 h2 h3 m hm1 hm2 => by
        rw [ht1 k (by omega)] at h3 hm2
        rw [ht1 m (by omega)]
        by_cases hk : k = z0
        · simp only [hk, if_true] at hm2; omega
        · simp only [hk, if_false] at h3 hm2
          by_cases hmz : m = z0
          · simp only [hmz, if_true]; omega
          · simp only [hmz, if_false]; exact hi.ct.up k h1 h2 h3 m hm1 hm2)
      (by omega) (by omega)
    have hz1ne : z1 ≠ z0 := by omega
    have hz1r : g t z1 < z1 := by
      rw [ht1 z1 (by omega)] at hy3'
      simp only [hz1ne, if_false] at hy3'
      have := hi.ct.rng z1 (by omega) hy2'; omega
    have hbetween : ∀ k, z0 < k → k < z1 → g t k > k := by
      intro k h1 h2
      have := hy4' k (by omega) h2
      rw [ht1 k (by omega)] at this
      simpa [show k ≠ z0 by omega] using this
    rw [hpm1, ok_bind, wr_ok (upd t z0 (z0 + 1)) z1 (g t z0) (by omega) (by simp; omega), ok_bind]
    have ha2 : ∀ k, 0 ≤ k → g (upd (upd t z0 (z0 + 1)) z1 (g t z0)) k =
        if k = z1 then g t z0 else if k = z0 then z0 + 1 else g t k := by
      intro k hk
      rw [g_upd _ z1 _ k (by omega) (by simp; omega) hk]
      by_cases hk1 : k = z1
      · simp [hk1]
      · simp only [hk1, if_false]; exact ht1 k hk
    obtain ⟨hct2, hroots2, hoth2, hz1v⟩ :=
      hi.ct.merge (by omega) (by omega) hy2' hz0r hz1r hbetween ha2
    have hc2 : LMCore N sz (K u fv bounds) (upd (upd t z0 (z0 + 1)) z1 (g t z0))
        (upd d z0 (g d z0 - 1)) h := by
      refine ⟨by simp [hst], by simp [hsd], hsh, hNsz, hct2, hi.ch, ?_, ?_, ?_, ?_⟩
      · rw [hoth2 1 (by omega) (by omega) (by omega)]; exact hi.t1
      · intro i h1 h2 h3
        have hr := (hroots2 i h1 h2).1 h3
        rw [hd' i (by omega) hr.2]; exact hi.d1 i h1 h2 hr.1
      · intro r h1 h2 h3
        have hr := (hroots2 r (by omega) h2).1 h3
        by_cases hr1 : r = z1
        · subst hr1; rw [hz1v]; exact hi.l1 z0 (by omega) (by omega) hz0r
        · rw [hoth2 r (by omega) hr1 hr.2]; exact hi.l1 r h1 h2 hr.1
      · intro r h1 h2 h3 h4
        have hr := (hroots2 r (by omega) h2).1 h3
        rw [hd' r (by omega) hr.2] at h4
        exact hi.l2 r h1 h2 hr.1 h4
    have hdN : g (upd d z0 (g d z0 - 1)) N = K u fv bounds N - K u fv bounds (N - 1) := by
      rw [hd' N (by omega) (by omega)]; exact hi.d2
    rcases lmaxTail_spec hb hu hus hc2 domains v x y (g t z0) z1 (Or.inl hdN) hv0 hv1 hx1 hxN hy1
      hyN (by omega) hy2' ((hroots2 z1 (by omega) hy2').2 ⟨hz1r, hz1ne⟩) hz1v
      (fun k h1 h2 => by
        by_cases hk0 : k = z0
        · subst hk0; rw [ha2 k (by omega)]; simp only [show k ≠ z1 by omega, if_false, if_true]; omega
        · rw [hoth2 k (by omega) (by omega) hk0]
          by_cases hk1 : k < z0
          · exact hz4 k h1 hk1
          · exact hbetween k (by omega) h2) with ⟨t', h', dom', he, hi', hs'⟩ | he
    · exact Or.inl ⟨t', _, h', dom', he, hi', hs'⟩
    · exact Or.inr ⟨_, he⟩
  · have hcond : ¬ (g d z0 - 1 == 0) = true := by simpa using hm
    rw [if_neg hcond]
    have hc2 : LMCore N sz (K u fv bounds) t (upd d z0 (g d z0 - 1)) h := by
      refine ⟨hst, by simp [hsd], hsh, hNsz, hi.ct, hi.ch, hi.t1, ?_, hi.l1, ?_⟩
      · intro i h1 h2 h3
        by_cases hiz : i = z0
        · subst hiz; rw [hd'z]; omega
        · rw [hd' i (by omega) hiz]; exact hi.d1 i h1 h2 h3
      · intro r h1 h2 h3 h4
        by_cases hrz : r = z0
        · subst hrz; rw [hd'z] at h4; omega
        · rw [hd' r (by omega) hrz] at h4; exact hi.l2 r h1 h2 h3 h4
    have hdN : g (upd d z0 (g d z0 - 1)) N = K u fv bounds N - K u fv bounds (N - 1) ∨
        (z0 = N ∧ g (upd d z0 (g d z0 - 1)) N = K u fv bounds N - K u fv bounds (N - 1) - 1) := by
      by_cases h : z0 = N
      · right; subst h; rw [hd'z]; have := hi.d2; exact ⟨rfl, by omega⟩
      · left; rw [hd' N (by omega) (by omega)]; exact hi.d2
    rcases lmaxTail_spec hb hu hus hc2 domains v x y (g t z0) z0 hdN hv0 hv1 hx1 hxN hy1 hyN
      hz1 hz2 hz0r rfl hz4 with ⟨t', h', dom', he, hi', hs'⟩ | he
    · exact Or.inl ⟨t', _, h', dom', he, hi', hs'⟩
    · exact Or.inr ⟨_, he⟩

/-! ### the initialisation loop -/

theorem lmaxInit_spec {N : Int} {sz : Nat} {bounds : Array Int} {u : PSum} {fv m : Int}
    (hb : BC bounds N fv m) (hu : PS u fv m)
    (t d h : Array Int) (hst : t.size = sz) (hsd : d.size = sz) (hsh : h.size = sz)
    (hNsz : N < sz) :
    ∃ s, forIn (rangeUp 1 (N + 1)) (t, d, h) (lmaxInit u bounds) = .ok s ∧
      s.1.size = sz ∧ s.2.1.size = sz ∧ s.2.2.size = sz ∧
      ∀ k, 1 ≤ k → k ≤ N → g s.1 k = k - 1 ∧ g s.2.2 k = k - 1 ∧
        g s.2.1 k = gsum u (g bounds (k - 1)) (g bounds k - 1) := by
  have hbsz := hb.hsz
  have hN := hb.hN
  refine forIn_list_except
    (Inv := fun rest (s : Array Int × Array Int × Array Int) =>
      ∃ i, rest = rangeUp i (N + 1) ∧ 1 ≤ i ∧ i ≤ N + 1 ∧
        s.1.size = sz ∧ s.2.1.size = sz ∧ s.2.2.size = sz ∧
        ∀ k, 1 ≤ k → k < i → g s.1 k = k - 1 ∧ g s.2.2 k = k - 1 ∧
          g s.2.1 k = gsum u (g bounds (k - 1)) (g bounds k - 1))
    _ _ ?_ ?_ _ _ ?_
  · rintro x rest ⟨t, d, h⟩ ⟨i, hr, hi1, hi2, h1, h2, h3, h4⟩
    obtain ⟨hlt, hx, hrest⟩ := rangeUp_eq_cons i (N + 1) x rest hr
    subst hx
    left
    simp only at h1 h2 h3 h4
    refine ⟨(upd t x (x - 1), upd d x (gsum u (g bounds (x - 1)) (g bounds x - 1)),
      upd h x (x - 1)), ?_, ?_⟩
    · unfold lmaxInit
      simp only []
      rw [wr_ok t x _ (by omega) (by omega), ok_bind, wr_ok h x _ (by omega) (by omega), ok_bind,
        rd_ok bounds (x - 1) (by omega) (by omega), ok_bind,
        rd_ok bounds x (by omega) (by omega), ok_bind,
        get_sum_bounds_ok hu hb (x - 1) x (by omega) (by omega) (by omega) (by omega), ok_bind,
        wr_ok d x _ (by omega) (by omega), ok_bind]
      rfl
    · refine ⟨x + 1, hrest, by omega, by omega, by simp [h1], by simp [h2], by simp [h3], ?_⟩
      intro k hk1 hk2
      simp only
      by_cases hkx : k = x
      · subst hkx
        rw [g_upd_same t k _ (by omega) (by omega), g_upd_same h k _ (by omega) (by omega),
          g_upd_same d k _ (by omega) (by omega)]
        exact ⟨rfl, rfl, rfl⟩
      · rw [g_upd_ne t x _ k (by omega) (by omega) (by omega) hkx,
          g_upd_ne h x _ k (by omega) (by omega) (by omega) hkx,
          g_upd_ne d x _ k (by omega) (by omega) (by omega) hkx]
        exact h4 k hk1 (by omega)
  · rintro ⟨t, d, h⟩ ⟨i, hr, hi1, hi2, h1, h2, h3, h4⟩
    have : ¬ i < N + 1 := by
      intro hlt
      rw [rangeUp_cons i (N + 1) hlt] at hr
      cases hr
    exact ⟨h1, h2, h3, fun k hk1 hk2 => h4 k hk1 (by omega)⟩
  · exact ⟨1, rfl, by omega, by omega, hst, hsd, hsh, fun k h1 h2 => by omega⟩

/-- the invariant holds after the initialisation -/
theorem lminv_init {N : Int} {sz : Nat} {bounds t d h : Array Int} {u : PSum} {fv m : Int}
    (hb : BC bounds N fv m) (hu : PS u fv m) (hus : PSStrict u m)
    (hst : t.size = sz) (hsd : d.size = sz) (hsh : h.size = sz) (hNsz : N < sz)
    (hv : ∀ k, 1 ≤ k → k ≤ N → g t k = k - 1 ∧ g h k = k - 1 ∧
      g d k = gsum u (g bounds (k - 1)) (g bounds k - 1)) :
    LMInv N sz (K u fv bounds) t d h := by
  have hN := hb.hN
  have hdK : ∀ k, 1 ≤ k → k ≤ N → g d k = K u fv bounds k - K u fv bounds (k - 1) := by
    intro k h1 h2
    rw [(hv k h1 h2).2.2]
    exact gsum_K hu hb (k - 1) k (by omega) (by omega) h2
  have hchain : ∀ a : Int → Int, (∀ k, 1 ≤ k → k ≤ N → a k = k - 1) → LChain a N := by
    intro a ha
    refine ⟨by omega, ?_, ?_, ?_, ?_⟩
    · intro i h1 h2; rw [ha i h1 h2]; omega
    · intro i h1 h2 _
      rw [ha i h1 h2]
      refine ⟨fun k hk1 hk2 => by omega, ?_⟩
      by_cases h0 : i - 1 = 0
      · exact Or.inl h0
      · right; rw [ha (i - 1) (by omega) (by omega)]; omega
    · intro i h1 h2 h3; rw [ha i h1 h2] at h3; omega
    · rw [ha N (by omega) (by omega)]; omega
  refine ⟨⟨hst, hsd, hsh, hNsz, hchain _ (fun k h1 h2 => (hv k h1 h2).1),
    hchain _ (fun k h1 h2 => (hv k h1 h2).2.1), ?_, ?_, ?_, ?_⟩, ?_⟩
  · rw [(hv 1 (by omega) (by omega)).1]; rfl
  · intro i h1 h2 _
    rw [hdK i h1 h2]
    have := K_strict hu hus hb (i - 1) i (by omega) (by omega) h2
    omega
  · intro r h1 h2 _
    rw [(hv r (by omega) h2).1]
    by_cases h3 : r - 1 = 1
    · exact Or.inl h3
    · right; rw [(hv (r - 1 - 1) (by omega) (by omega)).2.1]; omega
  · intro r h1 h2 _ _
    rw [(hv (r - 1) (by omega) (by omega)).2.1]; omega
  · exact hdK N (by omega) (by omega)

/-! ### `filter_lower_max` -/

/-- `filter_lower_max` never errs, and on success hands back work arrays of the same sizes -/
theorem filter_lower_max_spec {N : Int} {sz : Nat} {bounds : Array Int} {u : PSum} {fv m : Int}
    (hb : BC bounds N fv m) (hu : PS u fv m) (hus : PSStrict u m)
    (n : Int) (t d h : Array Int) (domains ranks : Arr2) (msv : Array Int)
    (hst : t.size = sz) (hsd : d.size = sz) (hsh : h.size = sz) (hNsz : N < sz)
    (hrs : ranks.size = domains.size)
    (hmsv : ∀ v ∈ msv.toList, 0 ≤ v ∧ v < (domains.size : Int))
    (hranks : ∀ v : Int, 0 ≤ v → v < ranks.size →
      1 ≤ (g2 ranks v).1 ∧ (g2 ranks v).1 < N ∧ 1 ≤ (g2 ranks v).2 ∧ (g2 ranks v).2 < N) :
    ∃ r, filter_lower_max n (N - 1) t d h bounds domains ranks msv u = .ok r ∧
      (r.1 = true → r.2.1.size = sz ∧ r.2.2.1.size = sz ∧ r.2.2.2.1.size = sz ∧
        r.2.2.2.2.size = domains.size) := by
  rw [filter_lower_max_eq]
  have hNN : N - 1 + 2 = N + 1 := by omega
  rw [hNN]
  obtain ⟨⟨t0, d0, h0⟩, he0, hs1, hs2, hs3, hv0⟩ := lmaxInit_spec hb hu t d h hst hsd hsh hNsz
  rw [he0, ok_bind]
  simp only at hs1 hs2 hs3 hv0 ⊢
  have hi0 : LMInv N sz (K u fv bounds) t0 d0 h0 := lminv_init hb hu hus hs1 hs2 hs3 hNsz hv0
  rw [← Array.forIn_toList]
  refine except_bind_ok
    (P := fun (s : LMSt) =>
      (s.1 = none ∧ s.2.1.size = sz ∧ s.2.2.1.size = sz ∧ s.2.2.2.1.size = sz ∧
        s.2.2.2.2.size = domains.size) ∨ ∃ st, s.1 = some (false, st))
    (forIn_list_except
      (Inv := fun (rest : List Int) (s : LMSt) =>
        s.1 = none ∧ (∀ v ∈ rest, 0 ≤ v ∧ v < domains.size) ∧
        LMInv N sz (K u fv bounds) s.2.1 s.2.2.1 s.2.2.2.1 ∧ s.2.2.2.2.size = domains.size)
      _ _ ?_ ?_ _ _ ?_) ?_
  · rintro v rest ⟨o, t1, d1, h1, dom1⟩ ⟨ho, hm, hi, hds⟩
    simp only at ho hm hi hds
    have hv := hm v (List.mem_cons_self)
    have hr := hranks v hv.1 (by omega)
    rcases lmaxBody_spec hb hu hus hi ranks dom1 v o hv.1 (by omega) (by omega) hr.1 hr.2.1
      hr.2.2.1 hr.2.2.2 with ⟨t', d', h', dom', he, hi', hs'⟩ | ⟨st, he⟩
    · left
      exact ⟨_, he, rfl, fun w hw => hm w (List.mem_cons_of_mem _ hw), hi', by simp only; omega⟩
    · right
      exact ⟨_, he, Or.inr ⟨st, rfl⟩⟩
  · rintro ⟨o, t1, d1, h1, dom1⟩ ⟨ho, _, hi, hds⟩
    exact Or.inl ⟨ho, hi.st, hi.sd, hi.sh, hds⟩
  · exact ⟨rfl, hmsv, hi0, rfl⟩
  · rintro ⟨o, t1, d1, h1, dom1⟩ hp
    rcases hp with ⟨ho, h1', h2', h3', h4'⟩ | ⟨st, ho⟩
    · simp only at ho h1' h2' h3' h4'
      subst ho
      exact ⟨_, rfl, fun _ => ⟨h1', h2', h3', h4'⟩⟩
    · simp only at ho
      subst ho
      exact ⟨_, rfl, fun h => by simp at h⟩

end Gcc
end Nucs
