import NucsProofs.Spec
import NucsProofs.Propagators.PortAlldiffUpper
import NucsProofs.Propagators.PortAlldiffBounds
/-!
  C16 / C04 for the RAW PORT of the alldifferent propagator
  (`NucsModel/Propagators/Alldifferent.lean`, a line-by-line port of
  nucs/propagators/alldifferent_propagator.py): on a non-empty box of non-empty domains the ported
  algorithm returns a result — no checked array access fails (`Err.oob`) and no `while` loop runs
  out of its iteration budget (`Err.fuel`).

  The hypothesis "every domain is non-empty" (`Box.Nonempty B`; `Contract .alldifferent` is only
  `1 ≤ B.length`) is needed for the `fuel` part: see `alldifferent_empty_domain_fuel` at the end
  (`alldifferent [] [(5, 3)] = .error .fuel`; the Python `path_set(h, h[y], j - 1, y)` is then
  called with `end = -1` and loops forever).
-/
namespace Nucs
namespace AllDiff

theorem g_map_fst (a : Arr2) (v : Int) (h0 : 0 ≤ v) (h1 : v < a.size) :
    g (a.map (·.1)) v = (g2 a v).1 := by
  have : v.toNat < a.size := by omega
  simp [g, g2, this]

theorem g_map_snd (a : Arr2) (v : Int) (h0 : 0 ≤ v) (h1 : v < a.size) :
    g (a.map (·.2)) v = (g2 a v).2 := by
  have : v.toNat < a.size := by omega
  simp [g, g2, this]

theorem mem_toList_g (a : Array Int) (v : Int) (h : v ∈ a.toList) :
    ∃ k : Int, 0 ≤ k ∧ k < a.size ∧ g a k = v := by
  obtain ⟨p, hp, hpe⟩ := List.mem_iff_getElem.1 h
  have hp' : p < a.size := by simpa using hp
  refine ⟨(p : Int), by omega, by omega, ?_⟩
  simp only [g, Int.toNat_natCast]
  simp [hp']
  simpa using hpe

theorem g2_mem_toArray (B : Box) (v : Int) (h0 : 0 ≤ v) (h1 : v < B.length) :
    g2 B.toArray v ∈ B := by
  have : v.toNat < B.length := by omega
  simp [g2, this]

/-- the sorted index arrays satisfy what `update_bounds` needs -/
theorem ubctx_of_argsort (domains : Arr2) (hn : 1 ≤ domains.size)
    (hdom : ∀ v : Int, 0 ≤ v → v < domains.size → (g2 domains v).1 ≤ (g2 domains v).2) :
    UBCtx domains.size domains (argsort (domains.map (·.1))) (argsort (domains.map (·.2))) := by
  obtain ⟨hs1, hr1, hj1, ho1⟩ := argsort_spec (domains.map (·.1))
  obtain ⟨hs2, hr2, hj2, ho2⟩ := argsort_spec (domains.map (·.2))
  simp only [Array.size_map] at hs1 hr1 hj1 ho1 hs2 hr2 hj2 ho2
  have hlo : ∀ k : Int, 0 ≤ k → k < domains.size →
      g (domains.map (·.1)) (g (argsort (domains.map (·.1))) k) =
        (g2 domains (g (argsort (domains.map (·.1))) k)).1 := fun k h0 h1 =>
    g_map_fst domains _ (hr1 k h0 h1).1 (hr1 k h0 h1).2
  have hhi : ∀ k : Int, 0 ≤ k → k < domains.size →
      g (domains.map (·.2)) (g (argsort (domains.map (·.2))) k) =
        (g2 domains (g (argsort (domains.map (·.2))) k)).2 := fun k h0 h1 =>
    g_map_snd domains _ (hr2 k h0 h1).1 (hr2 k h0 h1).2
  refine ⟨by omega, rfl, by omega, by omega, hr1, hr2, ?_, ?_, ?_, ?_⟩
  · intro k h0 h1
    have := ho1 k (k + 1) h0 (by omega) h1
    rw [hlo k h0 (by omega), hlo (k + 1) (by omega) h1] at this
    exact this
  · intro k h0 h1
    have := ho2 k (k + 1) h0 (by omega) h1
    rw [hhi k h0 (by omega), hhi (k + 1) (by omega) h1] at this
    exact this
  · -- the smallest minimum is at most the minimum of the variable with the smallest maximum
    have hw := hr2 0 (by omega) (by omega)
    obtain ⟨k, hk0, hk1, hkv⟩ := hj1 _ hw.1 hw.2
    have := ho1 0 k (by omega) hk0 hk1
    rw [hlo 0 (by omega) (by omega), hlo k hk0 hk1, hkv] at this
    have := hdom _ hw.1 hw.2
    omega
  · intro i h0 h1
    have hw := hr1 i h0 h1
    obtain ⟨l, hl0, hl1, hlv⟩ := hj2 _ hw.1 hw.2
    have := ho2 l (domains.size - 1) hl0 (by omega) (by omega)
    rw [hhi l hl0 hl1, hhi _ (by omega) (by omega), hlv] at this
    have := hdom _ hw.1 hw.2
    omega

/-- the ported `compute_domains_alldifferent` returns a result on non-empty domains -/
theorem compute_domains_alldifferent_ok (domains : Arr2) (parameters : Array Int)
    (hn : 1 ≤ domains.size)
    (hdom : ∀ v : Int, 0 ≤ v → v < domains.size → (g2 domains v).1 ≤ (g2 domains v).2) :
    ∃ r, compute_domains_alldifferent domains parameters = .ok r := by
  have hctx := ubctx_of_argsort domains hn hdom
  obtain ⟨hs1, hr1, hj1, _⟩ := argsort_spec (domains.map (·.1))
  obtain ⟨hs2, hr2, hj2, _⟩ := argsort_spec (domains.map (·.2))
  simp only [Array.size_map] at hs1 hr1 hj1 hs2 hr2 hj2
  have hszI : (((2 * (domains.size : Int) + 2).toNat : Nat) : Int) = 2 * (domains.size : Int) + 2 := by
    omega
  obtain ⟨⟨nb, bounds, ranks⟩, hub, hnb1, hnb2, hbs, hrs, hmono, htop, hbot, hranks⟩ :=
    update_bounds_spec hctx hszI
      (Array.replicate (2 * (domains.size : Int) + 2).toNat 0)
      (Array.replicate (domains.size : Int).toNat (0, 0)) (by simp) (by simp) hj1 hj2
  simp only at hnb1 hnb2 hbs hrs hmono htop hbot hranks
  have hb : BCtx bounds (nb + 1) := by
    refine ⟨by omega, by omega, hmono, ?_, hbot⟩
    have : nb + 1 - 1 = nb := by omega
    rw [this]; exact htop
  unfold compute_domains_alldifferent
  simp only []
  rw [hub, ok_bind]
  simp only []
  have hnbeq : nb = nb + 1 - 1 := by omega
  obtain ⟨⟨ok, t', d', h', dom'⟩, hfl, hpost⟩ := filter_lower_spec
    (sz := (2 * (domains.size : Int) + 2).toNat) hb (domains.size : Int)
    (Array.replicate (2 * (domains.size : Int) + 2).toNat 0)
    (Array.replicate (2 * (domains.size : Int) + 2).toNat 0)
    (Array.replicate (2 * (domains.size : Int) + 2).toNat 0)
    domains ranks (argsort (domains.map (·.2))) (by simp) (by simp) (by simp) (by omega)
    (by omega)
    (by
      intro v hv
      obtain ⟨k, hk0, hk1, hkv⟩ := mem_toList_g _ v hv
      rw [← hkv]
      exact hr2 k hk0 (by omega))
    (by
      intro v h0 h1
      have := hranks v h0 (by omega)
      omega)
  rw [← hnbeq] at hfl
  rw [hfl, ok_bind]
  simp only at hpost ⊢
  cases ok with
  | false => exact ⟨_, rfl⟩
  | true =>
    obtain ⟨hs1', hs2', hs3', hs4'⟩ := hpost rfl
    simp only [Bool.not_true, Bool.false_eq_true, if_false]
    obtain ⟨⟨ok2, t2, d2, h2, dom2⟩, hfu, _⟩ := filter_upper_spec
      (sz := (2 * (domains.size : Int) + 2).toNat) hb (domains.size : Int) t' d' h' dom' ranks
      (argsort (domains.map (·.1))) hs1' hs2' hs3' (by omega) (by omega) (by omega)
      (by
        intro i h0 h1
        have := hr1 i h0 h1
        omega)
      (by
        intro v h0 h1
        have := hranks v h0 (by omega)
        omega)
    rw [hfu, ok_bind]
    simp only []
    cases ok2 <;> exact ⟨_, rfl⟩

end AllDiff

/-- **C16 / C04 for the ported alldifferent.**  On a non-empty box whose domains are all non-empty
    the raw port returns a result: it neither reads or writes outside its arrays nor exhausts
    the iteration budget of a `while` loop. -/
theorem C16_port_alldifferent_ok (ps : List Int) (B : Box) (hne : B ≠ [])
    (hdom : ∀ d ∈ B, d.1 ≤ d.2) : ∃ r, alldifferent ps B = .ok r := by
  have hlen : 1 ≤ B.length := by
    cases B with
    | nil => exact absurd rfl hne
    | cons _ _ => simp
  obtain ⟨⟨status, domains⟩, hr⟩ := AllDiff.compute_domains_alldifferent_ok B.toArray ps.toArray
    (by simpa using hlen)
    (fun v h0 h1 => hdom _ (AllDiff.g2_mem_toArray B v h0 (by simpa using h1)))
  unfold alldifferent
  rw [hr]
  simp only [AllDiff.ok_bind]
  by_cases hs : (status == Status.inc) = true
  · rw [if_pos hs]; exact ⟨_, rfl⟩
  · rw [if_neg hs]; exact ⟨_, rfl⟩

/-- the form used by `C16_port_full` (`Box.Nonempty B` is `∀ d ∈ B, d.1 ≤ d.2`), together with
    termination (C04) of the port's `while` loops -/
theorem C16_port_alldifferent (ps : List Int) (B : Box) (hc : Contract .alldifferent ps B)
    (hB : B.Nonempty) :
    alldifferent ps B ≠ .error .oob ∧ alldifferent ps B ≠ .error .fuel := by
  have hne : B ≠ [] := by
    intro h; subst h
    have : 1 ≤ ([] : Box).length := hc
    simp at this
  obtain ⟨r, hr⟩ := C16_port_alldifferent_ok ps B hne hB
  rw [hr]
  exact ⟨fun h => (by cases h), fun h => (by cases h)⟩

/-- the first conjunct of `C16_port_full` -/
theorem C16_port_full_alldifferent :
    ∀ ps B, Contract .alldifferent ps B → B.Nonempty → alldifferent ps B ≠ .error .oob :=
  fun ps B hc hB => (C16_port_alldifferent ps B hc hB).1

/-- the `while` loops of the ported alldifferent terminate within their budget -/
theorem C04_port_alldifferent :
    ∀ ps B, Contract .alldifferent ps B → B.Nonempty → alldifferent ps B ≠ .error .fuel :=
  fun ps B hc hB => (C16_port_alldifferent ps B hc hB).2

/-- why "every domain is non-empty" is assumed: with an empty domain the port (like the Python)
    can loop forever -/
theorem alldifferent_empty_domain_fuel : alldifferent [] [(5, 3)] = .error .fuel := by
  have h : (match alldifferent [] [(5, 3)] with | .error .fuel => true | _ => false) = true := by
    decide +kernel
  generalize alldifferent [] [(5, 3)] = r at h
  match r, h with
  | .error .fuel, _ => rfl

example : alldifferent [] [(5, 3)] = .error .fuel := alldifferent_empty_domain_fuel

end Nucs
