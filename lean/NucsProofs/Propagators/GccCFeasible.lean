import NucsProofs.Propagators.GccExact
import NucsProofs.Propagators.GccExistMix
import NucsProofs.Propagators.GccExistUpper
import NucsModel.Propagators.GccChecked
/-!
  The HARD direction of Hoffman's condition for the global cardinality constraint, in the
  representation of the certificate checker (NucsModel/Propagators/GccChecked.lean): if no bit mask
  `1 … 2^m - 1` codes a violated set of values, the box contains a solution
  (`gcc_feasible_of_not_infeasible`).

  * `gcc_feasible_of_hall`: the abstract statement (no bit masks) — Hall's condition for the upper
    capacities on the value INTERVALS and Hall's condition for the lower capacities on all the
    value SETS give an assignment; by `upper_witness` (one rank per value) and `gcc_mix`.
  * the bit-mask bridge: `exists_mask`, `subsetOf_eq`, `mem_subsetOf'`, `capSum_subsetOf`,
    `insideSet_of_forall`, `meetsSet_iff`, `not_violated_of_pred`.
-/
namespace Nucs
namespace Gcc
open AllDiff (cinR RankCtx)

/-! ### the abstract statement -/

theorem vsum_pos {f : Int → Int} {a b : Int} (hab : a < b) (h : ∀ k, a ≤ k → k < b → 1 ≤ f k) :
    0 < vsum f a b := by
  have := vsum_lt (f := fun _ => 0) (g := f) (a := a) (b := b)
    (fun k h1 h2 => by have := h k h1 h2; omega) a (Int.le_refl a) hab
    (by have := h a (Int.le_refl a) hab; omega)
  rw [vsum_zero] at this; exact this

/-- the capacities extended by `1` outside `[A, A + m)` -/
def uext (u : Int → Int) (A m : Int) : Int → Int :=
  fun v => if A ≤ v ∧ v < A + m then u v else 1

theorem uext_pos (u : Int → Int) (A m : Int) (hu1 : ∀ v, A ≤ v → v < A + m → 1 ≤ u v) (v : Int) :
    1 ≤ uext u A m v := by
  unfold uext
  split
  · next h => exact hu1 v h.1 h.2
  · exact Int.le_refl 1

theorem vsum_uext (u : Int → Int) (A m a b : Int) (ha : A ≤ a) (hb : b ≤ A + m) :
    vsum (uext u A m) a b = vsum u a b := by
  apply vsum_congr
  intro k h1 h2
  unfold uext
  rw [if_pos ⟨by omega, by omega⟩]

/-- Hall's condition on the rank intervals, from Hall's condition on the value intervals -/
theorem hallR_of_intervals (all : List Int) (lo hi u : Int → Int) (A : Int) (m : Nat)
    (hdom : ∀ x ∈ all, A ≤ lo x ∧ lo x ≤ hi x ∧ hi x < A + m)
    (hu1 : ∀ v, A ≤ v → v < A + m → 1 ≤ u v)
    (hU : ∀ a b, A ≤ a → a ≤ b → b < A + m →
      ((all.countP (fun x => decide (a ≤ lo x) && decide (hi x ≤ b)) : Nat) : Int) ≤ vsum u a (b + 1))
    (ja yb : Int) (h1 : 1 ≤ ja) (h2 : ja < yb) (_h3 : yb ≤ (m : Int) + 2) :
    cinR (fun x => lo x - A + 1) (fun x => hi x - A + 2) all ja yb ≤
      vsum (uext u A m) (A - 1) (A - 1 + yb) - vsum (uext u A m) (A - 1) (A - 1 + ja) := by
  rw [vsum_split (uext u A m) (a := A - 1) (m := A - 1 + ja) (b := A - 1 + yb) (by omega) (by omega)]
  have hnn : ∀ a b, 0 ≤ vsum (uext u A m) a b := fun a b =>
    vsum_nonneg (fun k _ _ => by have := uext_pos u A m hu1 k; omega)
  show ((all.countP (fun p => decide (ja ≤ lo p - A + 1) && decide (hi p - A + 2 ≤ yb)) : Nat) : Int)
    ≤ _
  by_cases hc : A - 1 + ja < A + m
  · -- the clipped interval `[A - 1 + ja, min (A - 2 + yb) (A + m - 1)]` is not empty
    by_cases hd : A - 2 + yb < A + m
    · have g := hU (A - 1 + ja) (A - 2 + yb) (by omega) (by omega) hd
      have e : A - 2 + yb + 1 = A - 1 + yb := by omega
      rw [e] at g
      rw [vsum_uext u A m (A - 1 + ja) (A - 1 + yb) (by omega) (by omega)]
      have e2 : all.countP (fun p => decide (ja ≤ lo p - A + 1) && decide (hi p - A + 2 ≤ yb)) =
          all.countP (fun x => decide (A - 1 + ja ≤ lo x) && decide (hi x ≤ A - 2 + yb)) := by
        apply List.countP_congr
        intro x _
        simp only [Bool.and_eq_true, decide_eq_true_eq]
        omega
      rw [e2]; omega
    · have g := hU (A - 1 + ja) (A + m - 1) (by omega) (by omega) (by omega)
      have e : A + (m : Int) - 1 + 1 = A + m := by omega
      rw [e] at g
      have e2 : all.countP (fun p => decide (ja ≤ lo p - A + 1) && decide (hi p - A + 2 ≤ yb)) ≤
          all.countP (fun x => decide (A - 1 + ja ≤ lo x) && decide (hi x ≤ A + m - 1)) := by
        apply List.countP_mono_left
        intro x hx
        have := hdom x hx
        simp only [Bool.and_eq_true, decide_eq_true_eq]
        omega
      have e3 := vsum_split (uext u A m) (a := A - 1 + ja) (m := A + m) (b := A - 1 + yb)
        (by omega) (by omega)
      rw [vsum_uext u A m (A - 1 + ja) (A + m) (by omega) (by omega)] at e3
      have := hnn (A + m) (A - 1 + yb)
      omega
  · -- no domain starts that far to the right
    have e2 : all.countP (fun p => decide (ja ≤ lo p - A + 1) && decide (hi p - A + 2 ≤ yb)) = 0 := by
      apply mix_countP_false
      intro x hx
      have := hdom x hx
      have : ¬ (ja ≤ lo x - A + 1) := by omega
      simp [this]
    rw [e2]
    have := hnn (A - 1 + ja) (A - 1 + yb)
    omega

/-- **Hoffman's condition, abstract form**: Hall's condition for the upper capacities on the value
    intervals and for the lower capacities on the value sets give an assignment. -/
theorem gcc_feasible_of_hall (all : List Int) (hnodup : all.Nodup) (lo hi l u : Int → Int) (A : Int)
    (m : Nat)
    (hdom : ∀ x ∈ all, A ≤ lo x ∧ lo x ≤ hi x ∧ hi x < A + m)
    (hlu : ∀ v, A ≤ v → v < A + m → 0 ≤ l v ∧ l v ≤ u v)
    (hu1 : ∀ v, A ≤ v → v < A + m → 1 ≤ u v)
    (hU : ∀ a b, A ≤ a → a ≤ b → b < A + m →
      ((all.countP (fun x => decide (a ≤ lo x) && decide (hi x ≤ b)) : Nat) : Int) ≤ vsum u a (b + 1))
    (hL : ∀ R : Int → Bool, vsum (fun v => if R v = true then l v else 0) A (A + m) ≤
      ((all.countP (fun x => meetsB R (lo x) (hi x)) : Nat) : Int)) :
    ∃ σ : Int → Int, (∀ x ∈ all, lo x ≤ σ x ∧ σ x ≤ hi x) ∧
      ∀ v, A ≤ v → v < A + m → l v ≤ occ σ all v ∧ occ σ all v ≤ u v := by
  let cum : Int → Int := fun v => vsum (uext u A m) (A - 1) v
  let bnd : Int → Int := fun k => A - 1 + k
  let bd : Int → Int := fun k => cum (bnd k)
  let rx : Int → Int := fun x => lo x - A + 1
  let ry : Int → Int := fun x => hi x - A + 2
  have hcum : ∀ v, A - 1 ≤ v → cum v < cum (v + 1) := by
    intro v hv
    show vsum (uext u A m) (A - 1) v < vsum (uext u A m) (A - 1) (v + 1)
    rw [vsum_succ _ hv]
    have := uext_pos u A m hu1 v
    omega
  have hctx : RankCtx ((m : Int) + 2) bd rx ry all := by
    refine ⟨by omega, ?_, ?_⟩
    · intro i j hi hij hj
      show vsum (uext u A m) (A - 1) (A - 1 + i) < vsum (uext u A m) (A - 1) (A - 1 + j)
      rw [vsum_split (uext u A m) (a := A - 1) (m := A - 1 + i) (b := A - 1 + j) (by omega) (by omega)]
      have := vsum_pos (f := uext u A m) (a := A - 1 + i) (b := A - 1 + j) (by omega)
        (fun k _ _ => uext_pos u A m hu1 k)
      omega
    · intro x hx
      have := hdom x hx
      show 1 ≤ lo x - A + 1 ∧ lo x - A + 1 < hi x - A + 2 ∧ hi x - A + 2 < (m : Int) + 2
      omega
  have hallR : ∀ ja yb, 1 ≤ ja → ja < yb → yb ≤ (m : Int) + 2 →
      cinR rx ry all ja yb ≤ bd yb - bd ja :=
    fun ja yb h1 h2 h3 => hallR_of_intervals all lo hi u A m hdom hu1 hU ja yb h1 h2 h3
  obtain ⟨σU, hσ1, hσ2⟩ := upper_witness hctx hnodup hallR bnd lo hi cum
    (fun i j _ hij _ => by show A - 1 + i < A - 1 + j; omega)
    (fun x _ => by show lo x = A - 1 + (lo x - A + 1); omega)
    (fun x _ => by show hi x + 1 = A - 1 + (hi x - A + 2); omega)
    (fun k _ _ => rfl)
    (fun v hv _ => hcum v (by have : bnd 0 = A - 1 + 0 := rfl; omega))
  refine gcc_mix all hnodup lo hi l u A (A + m) hdom hlu σU hσ1 ?_ hL
  intro v hv1 hv2
  have g := hσ2 v (by show A - 1 + 0 ≤ v; omega) (by show v < A - 1 + ((m : Int) + 2); omega)
  have e : cum (v + 1) - cum v = u v := by
    show vsum (uext u A m) (A - 1) (v + 1) - vsum (uext u A m) (A - 1) v = u v
    rw [vsum_succ _ (by omega)]
    unfold uext
    rw [if_pos ⟨hv1, hv2⟩]
    omega
  omega

/-! ### the bit-mask bridge -/

/-- every predicate on `[0, m)` is coded by a bit mask below `2 ^ m` -/
theorem exists_mask : ∀ (m : Nat) (p : Nat → Bool),
    ∃ k, k < 2 ^ m ∧ ∀ w, w < m → k.testBit w = p w
  | 0, _ => ⟨0, by simp, fun w h => by omega⟩
  | m + 1, p => by
    obtain ⟨k, hk, hb⟩ := exists_mask m (fun w => p (w + 1))
    refine ⟨2 * k + (if p 0 = true then 1 else 0), ?_, ?_⟩
    · rw [Nat.pow_succ]; split <;> omega
    · intro w hw
      cases w with
      | zero =>
        rw [Nat.testBit_zero]
        cases h : p 0
        · simp
        · simp
      | succ w =>
        rw [Nat.testBit_succ]
        have : (2 * k + (if p 0 = true then 1 else 0)) / 2 = k := by split <;> omega
        rw [this]
        exact hb w (by omega)

/-- the values `v0 + w`, `w < m`, of the set `R`, in increasing order -/
def setOf (v0 : Int) (m : Nat) (R : Int → Bool) : List Int :=
  ((List.range m).filter (fun (w : Nat) => R (v0 + (w : Int)))).map (fun (w : Nat) => v0 + (w : Int))

theorem subsetOf_eq (v0 : Int) (m k : Nat) (R : Int → Bool)
    (h : ∀ w, w < m → k.testBit w = R (v0 + (w : Int))) : subsetOf v0 m k = setOf v0 m R := by
  unfold subsetOf setOf
  congr 1
  apply List.filter_congr
  intro w hw
  exact h w (List.mem_range.1 hw)

theorem mem_setOf (v0 : Int) (m : Nat) (R : Int → Bool) (v : Int) :
    v ∈ setOf v0 m R ↔ v0 ≤ v ∧ v < v0 + m ∧ R v = true := by
  unfold setOf
  simp only [List.mem_map, List.mem_filter, List.mem_range]
  constructor
  · rintro ⟨w, ⟨h1, h2⟩, rfl⟩
    exact ⟨by omega, by omega, h2⟩
  · rintro ⟨h1, h2, h3⟩
    refine ⟨(v - v0).toNat, ⟨by omega, ?_⟩, by omega⟩
    have e : v0 + ((v - v0).toNat : Int) = v := by omega
    rw [e]; exact h3

theorem setOf_succ (v0 : Int) (m : Nat) (R : Int → Bool) :
    setOf v0 (m + 1) R = setOf v0 m R ++ (if R (v0 + (m : Int)) = true then [v0 + (m : Int)] else []) := by
  unfold setOf
  rw [List.range_succ, List.filter_append, List.map_append]
  congr 1
  cases h : R (v0 + (m : Int)) <;> simp [h]

theorem capSum_append (v0 : Int) (caps : List Int) : ∀ S T : List Int,
    capSum v0 caps (S ++ T) = capSum v0 caps S + capSum v0 caps T
  | [], T => by simp [capSum]
  | v :: S, T => by
    rw [List.cons_append, capSum, capSum, capSum_append v0 caps S T]; omega

/-- the capacity of a coded set as a sum over the values -/
theorem capSum_setOf (v0 : Int) (caps : List Int) (R : Int → Bool) : ∀ m : Nat,
    capSum v0 caps (setOf v0 m R) =
      vsumC (fun v => if R v = true then getI caps (v - v0).toNat else 0) v0 m
  | 0 => rfl
  | m + 1 => by
    rw [setOf_succ, capSum_append, capSum_setOf v0 caps R m, vsumC]
    congr 1
    cases h : R (v0 + (m : Int))
    · simp [capSum]
    · simp only [if_true, capSum]
      have e : (v0 + (m : Int) - v0).toNat = m := by omega
      rw [e]; omega

theorem capSum_setOf_vsum (v0 : Int) (caps : List Int) (R : Int → Bool) (m : Nat) :
    capSum v0 caps (setOf v0 m R) =
      vsum (fun v => if R v = true then getI caps (v - v0).toNat else 0) v0 (v0 + m) := by
  rw [capSum_setOf]
  unfold vsum
  have e : (v0 + (m : Int) - v0).toNat = m := by omega
  rw [e]

/-- a domain all of whose values belong to `S` is inside `S` -/
theorem insideSet_of_forall (d : Dom) (S : List Int) (h : ∀ v, d.1 ≤ v → v ≤ d.2 → v ∈ S) :
    d.insideSet S = true := by
  unfold Dom.insideSet
  rw [Bool.and_eq_true, decide_eq_true_eq, List.all_eq_true]
  constructor
  · have hnd : ((List.range (d.2 - d.1 + 1).toNat).map (fun (k : Nat) => d.1 + (k : Int))).Nodup := by
      unfold List.Nodup
      rw [List.pairwise_map]
      refine (List.nodup_range (n := (d.2 - d.1 + 1).toNat)).imp ?_
      intro x y hxy he
      omega
    have := hnd.length_le_of_subset (l₂ := S) (by
      intro v hv
      obtain ⟨k, hk, rfl⟩ := List.mem_map.1 hv
      rw [List.mem_range] at hk
      apply h <;> omega)
    simpa using this
  · intro k hk
    rw [List.mem_range] at hk
    rw [List.contains_iff_mem]
    apply h <;> omega

theorem meetsSet_iff (d : Dom) (S : List Int) :
    d.meetsSet S = true ↔ ∃ v, v ∈ S ∧ d.1 ≤ v ∧ v ≤ d.2 := by
  unfold Dom.meetsSet
  simp only [List.any_eq_true, Bool.and_eq_true, decide_eq_true_eq]

/-- without a violated mask, the set of values coded by any predicate that is not empty on the
    range is not violated -/
theorem not_violated_of_pred (v0 : Int) (m : Nat) (ls us : List Int) (B : Box)
    (h : gccInfeasibleAux v0 m ls us B = false) (R : Int → Bool)
    (hne : ∃ w : Nat, w < m ∧ R (v0 + (w : Int)) = true) :
    ((B.countP (fun d => d.insideSet (setOf v0 m R)) : Nat) : Int) ≤ capSum v0 us (setOf v0 m R) ∧
      capSum v0 ls (setOf v0 m R) ≤ ((B.countP (fun d => d.meetsSet (setOf v0 m R)) : Nat) : Int) := by
  obtain ⟨k, hk, hb⟩ := exists_mask m (fun w => R (v0 + (w : Int)))
  obtain ⟨w, hw, hRw⟩ := hne
  have hk0 : k ≠ 0 := by
    intro e
    have := hb w hw
    rw [e, Nat.zero_testBit, hRw] at this
    exact Bool.noConfusion this
  unfold gccInfeasibleAux at h
  rw [List.any_eq_false] at h
  have g := h (k - 1) (List.mem_range.2 (by omega))
  have e : k - 1 + 1 = k := by omega
  rw [e, subsetOf_eq v0 m k R hb] at g
  unfold gccViolated at g
  simp only [Bool.or_eq_true, decide_eq_true_eq, not_or] at g
  omega

/-- counting over a box = counting over its indices -/
theorem box_countP (B : Box) (q : Dom → Bool) :
    B.countP q = (rangeUp 0 (B.length : Int)).countP (fun x => q (getDom B x.toNat)) := by
  have h : (rangeUp 0 (B.length : Int)).map (fun x => getDom B x.toNat) = B := by
    apply List.ext_getElem
    · simp [rangeUp]
    · intro k h1 h2
      simp only [rangeUp, List.getElem_map, List.getElem_range, Int.ofNat_eq_natCast]
      have : ((0 : Int) + (k : Int)).toNat = k := by omega
      rw [this]
      simp [getDom, h2]
  have e : (rangeUp 0 (B.length : Int)).countP (fun x => q (getDom B x.toNat)) =
      ((rangeUp 0 (B.length : Int)).map (fun x => getDom B x.toNat)).countP q := by
    rw [List.countP_map]; rfl
  rw [e, h]

/-! ### the checker's condition gives Hall's conditions -/

theorem vsum_indicator (f : Int → Int) (A a b C : Int) (h1 : A ≤ a) (h2 : a ≤ b + 1) (h3 : b + 1 ≤ C) :
    vsum (fun v => if (decide (a ≤ v) && decide (v ≤ b)) = true then f v else 0) A C =
      vsum f a (b + 1) := by
  rw [vsum_split _ (a := A) (m := a) (b := C) h1 (by omega),
    vsum_split _ (a := a) (m := b + 1) (b := C) h2 h3]
  have e1 : vsum (fun v => if (decide (a ≤ v) && decide (v ≤ b)) = true then f v else 0) A a = 0 := by
    refine Eq.trans (vsum_congr (g := fun _ => 0) ?_) (vsum_zero _ _)
    intro k _ hk
    have : ¬ (a ≤ k) := by omega
    simp [this]
  have e2 : vsum (fun v => if (decide (a ≤ v) && decide (v ≤ b)) = true then f v else 0) (b + 1) C
      = 0 := by
    refine Eq.trans (vsum_congr (g := fun _ => 0) ?_) (vsum_zero _ _)
    intro k hk _
    have : ¬ (k ≤ b) := by omega
    simp [this]
  have e3 : vsum (fun v => if (decide (a ≤ v) && decide (v ≤ b)) = true then f v else 0) a (b + 1)
      = vsum f a (b + 1) := by
    apply vsum_congr
    intro k hk1 hk2
    have g1 : a ≤ k := hk1
    have g2 : k ≤ b := by omega
    simp [g1, g2]
  rw [e1, e2, e3]; omega

/-- **no violated mask ⟹ an assignment** (the certificate checker's data, assignment form) -/
theorem assignment_of_not_infeasible (v0 : Int) (m : Nat) (ls us : List Int) (B : Box)
    (hB : B.Nonempty) (hwithin : B.within v0 (v0 + m - 1))
    (hcap : ∀ j, j < m → 0 ≤ getI ls j ∧ getI ls j ≤ getI us j ∧ 1 ≤ getI us j)
    (hno : gccInfeasibleAux v0 m ls us B = false) :
    ∃ σ : Int → Int,
      (∀ x ∈ rangeUp 0 (B.length : Int), (getDom B x.toNat).1 ≤ σ x ∧ σ x ≤ (getDom B x.toNat).2) ∧
      ∀ v, v0 ≤ v → v < v0 + m →
        getI ls (v - v0).toNat ≤ occ σ (rangeUp 0 (B.length : Int)) v ∧
        occ σ (rangeUp 0 (B.length : Int)) v ≤ getI us (v - v0).toNat := by
  have hmemB : ∀ x ∈ rangeUp 0 (B.length : Int), getDom B x.toNat ∈ B := by
    intro x hx
    rw [mem_rangeUp] at hx
    exact getDom_mem (by omega)
  have hdom : ∀ x ∈ rangeUp 0 (B.length : Int), v0 ≤ (getDom B x.toNat).1 ∧
      (getDom B x.toNat).1 ≤ (getDom B x.toNat).2 ∧ (getDom B x.toNat).2 < v0 + m := by
    intro x hx
    have h1 := hwithin _ (hmemB x hx)
    have h2 := hB _ (hmemB x hx)
    omega
  apply gcc_feasible_of_hall (rangeUp 0 (B.length : Int)) (AllDiff.nodup_rangeUp 0 _)
    (fun x => (getDom B x.toNat).1) (fun x => (getDom B x.toNat).2)
    (fun v => getI ls (v - v0).toNat) (fun v => getI us (v - v0).toNat) v0 m hdom
  · intro v h1 h2
    have := hcap (v - v0).toNat (by omega)
    exact ⟨this.1, this.2.1⟩
  · intro v h1 h2
    exact (hcap (v - v0).toNat (by omega)).2.2
  · -- upper capacities: the mask of the interval `[a, b]`
    intro a b h1 h2 h3
    have g := (not_violated_of_pred v0 m ls us B hno
      (fun v => decide (a ≤ v) && decide (v ≤ b)) ⟨(a - v0).toNat, by omega, by
        have e : v0 + ((a - v0).toNat : Int) = a := by omega
        rw [e]; simp; exact h2⟩).1
    rw [capSum_setOf_vsum, vsum_indicator _ v0 a b (v0 + m) h1 (by omega) (by omega), box_countP] at g
    refine Int.le_trans (Int.ofNat_le.2 (List.countP_mono_left ?_)) g
    intro x hx hin
    simp only [Bool.and_eq_true, decide_eq_true_eq] at hin
    have := hdom x hx
    apply insideSet_of_forall
    intro v hv1 hv2
    rw [mem_setOf]
    refine ⟨by omega, by omega, ?_⟩
    have g1 : a ≤ v := by omega
    have g2 : v ≤ b := by omega
    simp [g1, g2]
  · -- lower capacities: the mask of `R` (nothing to prove when `R` misses the range)
    intro R
    by_cases hne : ∃ w : Nat, w < m ∧ R (v0 + (w : Int)) = true
    · have g := (not_violated_of_pred v0 m ls us B hno R hne).2
      rw [capSum_setOf_vsum, box_countP] at g
      refine Int.le_trans g (Int.ofNat_le.2 (List.countP_mono_left ?_))
      intro x _ hmeet
      obtain ⟨v, hv, hv1, hv2⟩ := (meetsSet_iff _ _).1 hmeet
      rw [mem_setOf] at hv
      exact (meetsB_iff R _ _).2 ⟨v, hv1, hv2, hv.2.2⟩
    · have e : vsum (fun v => if R v = true then getI ls (v - v0).toNat else 0) v0 (v0 + m) = 0 := by
        refine Eq.trans (vsum_congr (g := fun _ => 0) ?_) (vsum_zero _ _)
        intro k hk1 hk2
        have : R k = false := by
          cases hR : R k
          · rfl
          · exfalso
            apply hne
            refine ⟨(k - v0).toNat, by omega, ?_⟩
            have e : v0 + ((k - v0).toNat : Int) = k := by omega
            rw [e]; exact hR
        simp [this]
      rw [e]
      omega

end Gcc

open Gcc in
/-- **Hoffman's condition, hard direction, for the certificate checker of gcc**: in contract, on a
    box of non-empty domains and with every upper capacity `≥ 1`, if no bit mask `1 … 2^m - 1` codes
    a violated set of values then the box contains a solution. -/
theorem gcc_feasible_of_not_infeasible (ps : List Int) (B : Box) (hc : Contract .gcc ps B)
    (hB : B.Nonempty)
    (hu : ∀ j, j < (ps.length - 1) / 2 → 1 ≤ getI ps (1 + (ps.length - 1) / 2 + j))
    (hno : gccInfeasible ps B = false) : ∃ t, inBox t B ∧ rel .gcc ps t := by
  obtain ⟨hlen, hm1, hB1, hwithin, hcap⟩ := hc
  unfold gccInfeasible gccLs gccUs gccM at hno
  generalize hmdef : (ps.length - 1) / 2 = mn at hlen hm1 hwithin hcap hu hno
  have hls : ∀ j, j < mn → getI ((ps.drop 1).take mn) j = getI ps (1 + j) :=
    fun j hj => Gcc.getI_take_drop ps mn j hj hlen
  have hus : ∀ j, getI (ps.drop (1 + mn)) j = getI ps (1 + mn + j) :=
    fun j => Gcc.getI_drop ps (1 + mn) j
  obtain ⟨σ, hσ1, hσ2⟩ := assignment_of_not_infeasible (getI ps 0) mn _ _ B hB hwithin
    (by
      intro j hj
      rw [hls j hj, hus j]
      exact ⟨(hcap j hj).1, (hcap j hj).2, hu j hj⟩) hno
  refine ⟨Gcc.tupleOf σ B.length, ?_, ?_⟩
  · refine Gcc.inBox_of_getG (Gcc.tupleOf_length σ B.length) (fun k hk => ?_)
    rw [Gcc.tupleOf_get σ _ k hk]
    have := hσ1 (k : Int) ((Gcc.mem_rangeUp _ _ _).2 ⟨by omega, by omega⟩)
    rw [Int.toNat_natCast] at this
    exact this
  · simp only [rel]
    rw [hmdef]
    intro j hj
    have hjm : j < mn := by
      have : j < min mn (ps.length - 1) := by simpa using hj
      omega
    have g := hσ2 (getI ps 0 + (j : Int)) (by omega) (by omega)
    have e : (getI ps 0 + (j : Int) - getI ps 0).toNat = j := by omega
    rw [e, Gcc.occ_tupleOf] at g
    exact g

end Nucs
