import NucsProofs.Propagators.GccSoundAsm1
import NucsProofs.Propagators.GccSoundLMax
import NucsProofs.Propagators.GccSoundUMax
/-!
  Semantic soundness of the ported gcc — assembly, part 2: what the two preliminary tests and the two
  upper-capacity passes mean for a solution.
-/
namespace Nucs
namespace Gcc
open AllDiff (g g2 cinR Oth LChain mbd)

theorem cntIn_eq_zero (τ : Int → Int) (L : List Int) (a b : Int)
    (h : ∀ p ∈ L, ¬ (a ≤ τ p ∧ τ p < b)) : cntIn τ L a b = 0 := by
  unfold cntIn
  have : L.countP (fun p => decide (a ≤ τ p) && decide (τ p < b)) = 0 := by
    rw [List.countP_eq_zero]
    intro p hp
    simpa using h p hp
  rw [this]; rfl

section checks
variable {n fv m : Int} {domains : Arr2} {lows ups τ : Int → Int} {l : PSum}
  {valuesL : Array Int}

/-- the first preliminary test: the values below the smallest minimum carry no demand -/
theorem low_check (hl : PS l fv m)
    (hstep : ∀ k, 2 ≤ k → k < m + 2 → g l.1 (k + 1) = g l.1 k + g valuesL (k - 2))
    (hvals : ∀ j, 0 ≤ j → j < m → g valuesL j = lows j)
    (hsol : GSol n fv m domains lows ups τ) (mn : Int)
    (hmn : ∀ v, 0 ≤ v → v < n → mn ≤ (g2 domains v).1) (h1 : fv ≤ mn) (h2 : mn ≤ fv + m) :
    gsum l fv (mn - 1) ≤ 0 := by
  rw [gsum_eq hl]
  by_cases hc : fv ≤ mn - 1
  · rw [if_pos hc]
    have hz : cntIn τ (rangeUp 0 n) fv mn = 0 := by
      apply cntIn_eq_zero
      intro p hp
      rw [mem_rangeUp] at hp
      have := hsol.dom p hp.1 hp.2
      have := hmn p hp.1 hp.2
      omega
    have := cum_le_cntIn τ (rangeUp 0 n) (cumOf l fv) fv (mn - fv).toNat mn (by omega)
      (fun v a b => by
        rw [cumOf_succ]
        have e : v = fv + (v - fv) := by omega
        rw [e, cap_values hstep (v - fv) (by omega) (by omega), hvals (v - fv) (by omega) (by omega)]
        exact hsol.low (v - fv) (by omega) (by omega))
    unfold cumOf at this
    have e1 : mn - 1 - fv + 3 = mn - fv + 2 := by omega
    rw [e1]; omega
  · rw [if_neg hc]
    have := hl.le (mn - 1 - fv + 2) (fv - fv + 3) (by omega) (by omega) (by have := hl.hm; omega)
    omega

/-- the second preliminary test: the values above the largest maximum carry no demand -/
theorem high_check (hl : PS l fv m)
    (hstep : ∀ k, 2 ≤ k → k < m + 2 → g l.1 (k + 1) = g l.1 k + g valuesL (k - 2))
    (hvals : ∀ j, 0 ≤ j → j < m → g valuesL j = lows j)
    (hsol : GSol n fv m domains lows ups τ) (mx : Int)
    (hmx : ∀ v, 0 ≤ v → v < n → (g2 domains v).2 ≤ mx) (h1 : fv - 1 ≤ mx) (h2 : mx ≤ fv + m - 1) :
    gsum l (mx + 1) (fv + m - 1) ≤ 0 := by
  rw [gsum_eq hl]
  by_cases hc : mx + 1 ≤ fv + m - 1
  · rw [if_pos hc]
    have hz : cntIn τ (rangeUp 0 n) (mx + 1) (fv + m) = 0 := by
      apply cntIn_eq_zero
      intro p hp
      rw [mem_rangeUp] at hp
      have := hsol.dom p hp.1 hp.2
      have := hmx p hp.1 hp.2
      omega
    have := cum_le_cntIn τ (rangeUp 0 n) (cumOf l fv) (mx + 1) (fv + m - mx - 1).toNat (fv + m)
      (by omega)
      (fun v a b => by
        rw [cumOf_succ]
        have e : v = fv + (v - fv) := by omega
        rw [e, cap_values hstep (v - fv) (by omega) (by omega), hvals (v - fv) (by omega) (by omega)]
        exact hsol.low (v - fv) (by omega) (by omega))
    unfold cumOf at this
    have e1 : fv + m - 1 - fv + 3 = fv + m - fv + 2 := by omega
    rw [e1]; omega
  · rw [if_neg hc]
    have := hl.le (fv + m - 1 - fv + 2) (mx + 1 - fv + 3) (by have := hl.hm; omega) (by omega)
      (by omega)
    omega

end checks

section upper
variable {N : Int} {bd bnd rx ry : Int → Int} {all : List Int} {lo hi τ cum : Int → Int}

/-- a failing upper-capacity pass: no solution -/
theorem upass_fail (h : UCtx N bd bnd rx ry all lo hi τ cum)
    (hf : ∃ ja yb, 1 ≤ ja ∧ ja < yb ∧ yb < N ∧ cinR rx ry all ja yb > bd yb - bd ja) : False := by
  obtain ⟨ja, yb, h1, h2, h3, h4⟩ := hf
  have := upper_fail h ja yb (by omega) (by omega) (by omega)
  omega

/-- the new bound of an upper-capacity pass is sound and not below the old one -/
theorem upass_prune (h : UCtx N bd bnd rx ry all lo hi τ cum) (u mn : Int) (hu : u ∈ all)
    (hf : GRFact N bd bnd rx ry all u mn) : mn ≤ τ u ∧ lo u ≤ mn := by
  refine ⟨upper_prune h u mn hu hf, ?_⟩
  obtain ⟨w, hmn, hw1, hw2, _, _⟩ := hf
  have hr := h.rk u hu
  have := h.mono (rx u) w (by omega) hw1 hw2
  rw [hmn, h.hlo u hu]; exact this

end upper

end Gcc
end Nucs
