import NucsProofs.Propagators.PortAlldiffBase
/-!
  `argsort` yields a sorted permutation of the indices, and `update_bounds` never errs on
  non-empty domains and establishes the facts `filter_lower` / `filter_upper` rely on.
-/
namespace Nucs
namespace AllDiff

/-! ### `argsort` -/

theorem length_insertIdx (key : Int → Int) (i : Int) (l : List Int) :
    (insertIdx key i l).length = l.length + 1 := by
  induction l with
  | nil => rfl
  | cons j js ih =>
    unfold insertIdx
    split
    · rfl
    · simp [ih]

theorem mem_insertIdx (key : Int → Int) (i x : Int) (l : List Int) :
    x ∈ insertIdx key i l ↔ x = i ∨ x ∈ l := by
  induction l with
  | nil => simp [insertIdx]
  | cons j js ih =>
    unfold insertIdx
    split
    · simp
    · simp only [List.mem_cons, ih]
      constructor
      · rintro (h | h | h)
        · exact Or.inr (Or.inl h)
        · exact Or.inl h
        · exact Or.inr (Or.inr h)
      · rintro (h | h | h)
        · exact Or.inr (Or.inl h)
        · exact Or.inl h
        · exact Or.inr (Or.inr h)

theorem sorted_insertIdx (key : Int → Int) (i : Int) (l : List Int)
    (h : l.Pairwise (fun a b => key a ≤ key b)) :
    (insertIdx key i l).Pairwise (fun a b => key a ≤ key b) := by
  induction l with
  | nil => simp [insertIdx]
  | cons j js ih =>
    unfold insertIdx
    rw [List.pairwise_cons] at h
    split
    · rename_i hlt
      rw [List.pairwise_cons]
      refine ⟨?_, List.pairwise_cons.2 h⟩
      intro b hb
      rcases List.mem_cons.1 hb with hb | hb
      · subst hb; omega
      · have := h.1 b hb; omega
    · rename_i hge
      rw [List.pairwise_cons]
      refine ⟨?_, ih h.2⟩
      intro b hb
      rcases (mem_insertIdx key i b js).1 hb with hb | hb
      · subst hb; omega
      · exact h.1 b hb

theorem foldl_insertIdx (key : Int → Int) (is : List Int) :
    ∀ acc : List Int, acc.Pairwise (fun a b => key a ≤ key b) →
      let r := is.foldl (fun acc i => insertIdx key i acc) acc
      r.length = acc.length + is.length ∧ (∀ x, x ∈ r ↔ x ∈ acc ∨ x ∈ is) ∧
        r.Pairwise (fun a b => key a ≤ key b) := by
  induction is with
  | nil => intro acc h; simp [h]
  | cons i is ih =>
    intro acc h
    have := ih (insertIdx key i acc) (sorted_insertIdx key i acc h)
    simp only [List.foldl_cons] at this ⊢
    refine ⟨?_, ?_, this.2.2⟩
    · rw [this.1, length_insertIdx]; simp; omega
    · intro x
      rw [this.2.1 x, mem_insertIdx]
      simp only [List.mem_cons]
      constructor
      · rintro ((h | h) | h)
        · exact Or.inr (Or.inl h)
        · exact Or.inl h
        · exact Or.inr (Or.inr h)
      · rintro (h | h | h)
        · exact Or.inl (Or.inr h)
        · exact Or.inl (Or.inl h)
        · exact Or.inr h

theorem mem_rangeUp (a b x : Int) : x ∈ rangeUp a b ↔ a ≤ x ∧ x < b := by
  unfold rangeUp
  simp only [List.mem_map, List.mem_range]
  constructor
  · rintro ⟨k, hk, rfl⟩; simp only [Int.ofNat_eq_natCast]; omega
  · rintro ⟨h1, h2⟩
    exact ⟨(x - a).toNat, by omega, by simp only [Int.ofNat_eq_natCast]; omega⟩

theorem length_rangeUp (a b : Int) : (rangeUp a b).length = (b - a).toNat := by
  simp [rangeUp]

/-- `argsort keys` has the size of `keys`, its entries are indices of `keys`, every index occurs,
    and the keys are non-decreasing along it. -/
theorem argsort_spec (keys : Array Int) :
    (argsort keys).size = keys.size ∧
    (∀ k : Int, 0 ≤ k → k < keys.size →
      0 ≤ g (argsort keys) k ∧ g (argsort keys) k < keys.size) ∧
    (∀ v : Int, 0 ≤ v → v < keys.size → ∃ k : Int, 0 ≤ k ∧ k < keys.size ∧ g (argsort keys) k = v) ∧
    (∀ k l : Int, 0 ≤ k → k ≤ l → l < keys.size →
      g keys (g (argsort keys) k) ≤ g keys (g (argsort keys) l)) := by
  have hf := foldl_insertIdx (fun j => keys.getD j.toNat 0) (rangeUp 0 keys.size) []
    List.Pairwise.nil
  simp only at hf
  have hA : argsort keys = ((rangeUp 0 keys.size).foldl
      (fun acc i => insertIdx (fun j => keys.getD j.toNat 0) i acc) []).toArray := rfl
  generalize (rangeUp 0 keys.size).foldl
      (fun acc i => insertIdx (fun j => keys.getD j.toNat 0) i acc) [] = L at hf hA
  obtain ⟨hlen, hmem, hsorted⟩ := hf
  rw [length_rangeUp] at hlen
  simp only [List.length_nil, Nat.zero_add, Int.sub_zero, Int.toNat_natCast] at hlen
  have hsize : (argsort keys).size = keys.size := by rw [hA]; simpa using hlen
  have hget : ∀ k : Int, 0 ≤ k → k < keys.size →
      ∃ hk : k.toNat < L.length, g (argsort keys) k = L[k.toNat] := by
    intro k h0 h1
    have hk : k.toNat < L.length := by omega
    refine ⟨hk, ?_⟩
    unfold g
    rw [hA]
    simp [hk]
  refine ⟨hsize, ?_, ?_, ?_⟩
  · intro k h0 h1
    obtain ⟨hk, he⟩ := hget k h0 h1
    have := (hmem _).1 (List.getElem_mem hk)
    rw [he]
    simpa [mem_rangeUp] using this
  · intro v h0 h1
    have : v ∈ L := (hmem v).2 (Or.inr ((mem_rangeUp 0 keys.size v).2 ⟨h0, h1⟩))
    obtain ⟨p, hp, hpe⟩ := List.mem_iff_getElem.1 this
    refine ⟨(p : Int), by omega, by omega, ?_⟩
    obtain ⟨hk, he⟩ := hget (p : Int) (by omega) (by omega)
    rw [he]
    simpa using hpe
  · intro k l h0 hkl h1
    obtain ⟨hk, hek⟩ := hget k h0 (by omega)
    obtain ⟨hl, hel⟩ := hget l (by omega) h1
    rw [hek, hel]
    by_cases hkl' : k = l
    · subst hkl'; exact Int.le_refl _
    · exact (List.pairwise_iff_getElem.1 hsorted) k.toNat l.toNat hk hl (by omega)

/-! ### `update_bounds` as a composition of named pieces -/

/-- loop state: `bounds, ranks, min_value, max_value, last, i, j, nb, done` -/
abbrev USt := Array Int × Arr2 × Int × Int × Int × Int × Int × Int × Bool

def ubMinJp (n : Int) (domains : Arr2) (minsv : Array Int) (ranks : Arr2)
    (min_value max_value i j : Int) (done : Bool) (bounds : Array Int) (last nb : Int) :
    Except Err (ForInStep USt) := do
  let ranks ← wr2 ranks (← rd minsv i) MIN nb
  let i := i + 1
  if i < n then
    let min_value ← rd2 domains (← rd minsv i) MIN
    pure (ForInStep.yield (bounds, ranks, min_value, max_value, last, i, j, nb, done))
  else pure (ForInStep.yield (bounds, ranks, min_value, max_value, last, i, j, nb, done))

def ubMaxJp (n : Int) (domains : Arr2) (maxsv : Array Int) (ranks : Arr2)
    (min_value max_value i j : Int) (done : Bool) (bounds : Array Int) (last nb : Int) :
    Except Err (ForInStep USt) := do
  let ranks ← wr2 ranks (← rd maxsv j) MAX nb
  let j := j + 1
  if j == n then
    pure (ForInStep.done (bounds, ranks, min_value, max_value, last, i, j, nb, true))
  else
    let max_value := (← rd2 domains (← rd maxsv j) MAX) + 1
    pure (ForInStep.yield (bounds, ranks, min_value, max_value, last, i, j, nb, done))

def ubBody (n : Int) (domains : Arr2) (minsv maxsv : Array Int) (_x : Nat) (s : USt) :
    Except Err (ForInStep USt) :=
  let bounds := s.1
  let ranks := s.2.1
  let min_value := s.2.2.1
  let max_value := s.2.2.2.1
  let last := s.2.2.2.2.1
  let i := s.2.2.2.2.2.1
  let j := s.2.2.2.2.2.2.1
  let nb := s.2.2.2.2.2.2.2.1
  let done := s.2.2.2.2.2.2.2.2
  if i < n ∧ min_value ≤ max_value then
    if min_value != last then do
      let bounds ← wr bounds (nb + 1) min_value
      ubMinJp n domains minsv ranks min_value max_value i j done bounds min_value (nb + 1)
    else ubMinJp n domains minsv ranks min_value max_value i j done bounds last nb
  else
    if max_value != last then do
      let bounds ← wr bounds (nb + 1) max_value
      ubMaxJp n domains maxsv ranks min_value max_value i j done bounds max_value (nb + 1)
    else ubMaxJp n domains maxsv ranks min_value max_value i j done bounds last nb

def ubFinish (s : USt) : Except Err (Int × Array Int × Arr2) := do
  let bounds := s.1
  let nb := s.2.2.2.2.2.2.2.1
  let bounds ← wr bounds (nb + 1) ((← rd bounds nb) + 2)
  pure (nb, bounds, s.2.1)

theorem update_bounds_eq (bounds : Array Int) (n : Int) (domains ranks : Arr2)
    (minsv maxsv : Array Int) :
    update_bounds bounds n domains ranks minsv maxsv =
      (do
        let a ← rd minsv 0
        let min_value ← rd2 domains a MIN
        let b ← rd maxsv 0
        let c ← rd2 domains b MAX
        let bounds ← wr bounds 0 (min_value - 2)
        let s ← forIn [0:fuel bounds]
          ((bounds, ranks, min_value, c + 1, min_value - 2, 0, 0, 0, false) : USt)
          (ubBody n domains minsv maxsv)
        if !s.2.2.2.2.2.2.2.2 then throw Err.fuel else ubFinish s) := by
  rfl

/-! ### invariants of `update_bounds` -/

/-- what `update_bounds` needs from its inputs (`n ≥ 1` non-empty domains, two sorted index
    arrays) -/
structure UBCtx (n : Int) (domains : Arr2) (minsv maxsv : Array Int) : Prop where
  hn : 1 ≤ n
  hdn : (domains.size : Int) = n
  hmins : (minsv.size : Int) = n
  hmaxs : (maxsv.size : Int) = n
  minr : ∀ k, 0 ≤ k → k < n → 0 ≤ g minsv k ∧ g minsv k < n
  maxr : ∀ k, 0 ≤ k → k < n → 0 ≤ g maxsv k ∧ g maxsv k < n
  minsorted : ∀ k, 0 ≤ k → k + 1 < n →
    (g2 domains (g minsv k)).1 ≤ (g2 domains (g minsv (k + 1))).1
  maxsorted : ∀ k, 0 ≤ k → k + 1 < n →
    (g2 domains (g maxsv k)).2 ≤ (g2 domains (g maxsv (k + 1))).2
  first : (g2 domains (g minsv 0)).1 ≤ (g2 domains (g maxsv 0)).2 + 1
  lastmax : ∀ i, 0 ≤ i → i < n →
    (g2 domains (g minsv i)).1 ≤ (g2 domains (g maxsv (n - 1))).2 + 1

/-- facts about `bounds[0..nb]` and `ranks` that hold throughout the loop -/
structure UBArr (n : Int) (sz : Nat) (minsv maxsv : Array Int) (bounds : Array Int) (ranks : Arr2)
    (i j nb : Int) : Prop where
  sb : bounds.size = sz
  sr : (ranks.size : Int) = n
  mono : ∀ k, 0 ≤ k → k < nb → g bounds k < g bounds (k + 1)
  rmin : ∀ k, 0 ≤ k → k < i → 1 ≤ (g2 ranks (g minsv k)).1 ∧ (g2 ranks (g minsv k)).1 ≤ nb
  rmax : ∀ k, 0 ≤ k → k < j → 1 ≤ (g2 ranks (g maxsv k)).2 ∧ (g2 ranks (g maxsv k)).2 ≤ nb

/-- the loop invariant of `update_bounds` -/
structure UBInv (n : Int) (sz : Nat) (domains : Arr2) (minsv maxsv : Array Int) (s : USt) :
    Prop where
  arr : UBArr n sz minsv maxsv s.1 s.2.1 s.2.2.2.2.2.1 s.2.2.2.2.2.2.1 s.2.2.2.2.2.2.2.1
  i0 : 0 ≤ s.2.2.2.2.2.1
  in' : s.2.2.2.2.2.1 ≤ n
  j0 : 0 ≤ s.2.2.2.2.2.2.1
  jn : s.2.2.2.2.2.2.1 < n
  nb0 : 0 ≤ s.2.2.2.2.2.2.2.1
  nbij : s.2.2.2.2.2.2.2.1 ≤ s.2.2.2.2.2.1 + s.2.2.2.2.2.2.1
  minv : s.2.2.2.2.2.1 < n → s.2.2.1 = (g2 domains (g minsv s.2.2.2.2.2.1)).1
  maxv : s.2.2.2.1 = (g2 domains (g maxsv s.2.2.2.2.2.2.1)).2 + 1
  last : s.2.2.2.2.1 = g s.1 s.2.2.2.2.2.2.2.1
  lmin : s.2.2.2.2.2.1 < n → s.2.2.2.2.1 ≤ s.2.2.1
  lmax : s.2.2.2.2.1 ≤ s.2.2.2.1
  start : (s.2.2.2.2.2.2.2.1 = 0 ∧ s.2.2.2.2.2.1 = 0 ∧ s.2.2.2.2.2.2.1 = 0 ∧
      s.2.2.2.2.1 = s.2.2.1 - 2 ∧ s.2.2.1 ≤ s.2.2.2.1) ∨
    (1 ≤ s.2.2.2.2.2.2.2.1 ∧ g s.1 1 = g s.1 0 + 2)
  done : s.2.2.2.2.2.2.2.2 = false

/-- what holds when the loop is left through `break` -/
structure UBPost (n : Int) (sz : Nat) (minsv maxsv : Array Int) (s : USt) : Prop where
  arr : UBArr n sz minsv maxsv s.1 s.2.1 n n s.2.2.2.2.2.2.2.1
  nb1 : 1 ≤ s.2.2.2.2.2.2.2.1
  nb2 : s.2.2.2.2.2.2.2.1 ≤ 2 * n
  bot2 : g s.1 1 = g s.1 0 + 2
  done : s.2.2.2.2.2.2.2.2 = true

/-- pushing a new bound -/
theorem UBArr.push {n : Int} {sz : Nat} {minsv maxsv bounds : Array Int} {ranks : Arr2}
    {i j nb : Int} (h : UBArr n sz minsv maxsv bounds ranks i j nb) (v : Int) (hnb : 0 ≤ nb)
    (hsz : nb + 1 < sz) (hv : g bounds nb < v) :
    UBArr n sz minsv maxsv (upd bounds (nb + 1) v) ranks i j (nb + 1) := by
  have hsb := h.sb
  refine ⟨by simp [h.sb], h.sr, ?_, ?_, ?_⟩
  · intro k hk0 hk1
    by_cases hk : k = nb
    · subst hk
      rw [g_upd_same bounds _ v (by omega) (by omega),
        g_upd_ne bounds _ v k (by omega) (by omega) hk0 (by omega)]
      exact hv
    · rw [g_upd_ne bounds _ v k (by omega) (by omega) hk0 (by omega),
        g_upd_ne bounds _ v (k + 1) (by omega) (by omega) (by omega) (by omega)]
      exact h.mono k hk0 (by omega)
  · intro k hk0 hk1; have := h.rmin k hk0 hk1; omega
  · intro k hk0 hk1; have := h.rmax k hk0 hk1; omega

theorem UBArr.setMin {n : Int} {sz : Nat} {minsv maxsv bounds : Array Int} {ranks : Arr2}
    {i j nb : Int} (h : UBArr n sz minsv maxsv bounds ranks i j nb) (hnb : 1 ≤ nb)
    (hv0 : 0 ≤ g minsv i) (hv1 : g minsv i < n)
    (hmr : ∀ k, 0 ≤ k → k < n → 0 ≤ g minsv k) (hxr : ∀ k, 0 ≤ k → k < n → 0 ≤ g maxsv k)
    (hin : i < n) (hjn : j ≤ n) :
    UBArr n sz minsv maxsv bounds (upd2 ranks (g minsv i) MIN nb) (i + 1) j nb := by
  have hsr := h.sr
  have hmin : (MIN == MIN) = true := by decide
  refine ⟨h.sb, by simp [h.sr], h.mono, ?_, ?_⟩
  · intro k hk0 hk1
    rw [g2_upd2 ranks _ MIN nb _ hv0 (by omega) (hmr k hk0 (by omega))]
    by_cases hk : g minsv k = g minsv i
    · simp only [hk, if_true, hmin]; omega
    · simp only [hk, if_false]
      by_cases hki : k = i
      · subst hki; exact absurd rfl hk
      · exact h.rmin k hk0 (by omega)
  · intro k hk0 hk1
    rw [g2_upd2 ranks _ MIN nb _ hv0 (by omega) (hxr k hk0 (by omega))]
    by_cases hk : g maxsv k = g minsv i
    · simp only [hk, if_true, hmin]; rw [← hk]; exact h.rmax k hk0 hk1
    · simp only [hk, if_false]; exact h.rmax k hk0 hk1

theorem UBArr.setMax {n : Int} {sz : Nat} {minsv maxsv bounds : Array Int} {ranks : Arr2}
    {i j nb : Int} (h : UBArr n sz minsv maxsv bounds ranks i j nb) (hnb : 1 ≤ nb)
    (hv0 : 0 ≤ g maxsv j) (hv1 : g maxsv j < n)
    (hmr : ∀ k, 0 ≤ k → k < n → 0 ≤ g minsv k) (hxr : ∀ k, 0 ≤ k → k < n → 0 ≤ g maxsv k)
    (hin : i ≤ n) (hjn : j < n) :
    UBArr n sz minsv maxsv bounds (upd2 ranks (g maxsv j) MAX nb) i (j + 1) nb := by
  have hsr := h.sr
  have hmax : (MAX == MIN) = false := by decide
  refine ⟨h.sb, by simp [h.sr], h.mono, ?_, ?_⟩
  · intro k hk0 hk1
    rw [g2_upd2 ranks _ MAX nb _ hv0 (by omega) (hmr k hk0 (by omega))]
    by_cases hk : g minsv k = g maxsv j
    · simp only [hk, if_true, hmax]; rw [← hk]; exact h.rmin k hk0 hk1
    · simp only [hk, if_false]; exact h.rmin k hk0 hk1
  · intro k hk0 hk1
    rw [g2_upd2 ranks _ MAX nb _ hv0 (by omega) (hxr k hk0 (by omega))]
    by_cases hk : g maxsv k = g maxsv j
    · simp only [hk, if_true, hmax]; simp; omega
    · simp only [hk, if_false]
      by_cases hki : k = j
      · subst hki; exact absurd rfl hk
      · exact h.rmax k hk0 (by omega)

theorem ubMinJp_spec {n : Int} {sz : Nat} {domains : Arr2} {minsv maxsv : Array Int}
    (hc : UBCtx n domains minsv maxsv) {bounds : Array Int} {ranks : Arr2}
    {minv maxv i j last nb : Int}
    (ha : UBArr n sz minsv maxsv bounds ranks i j nb)
    (hi0 : 0 ≤ i) (hin : i < n) (hj0 : 0 ≤ j) (hjn : j < n) (hnb1 : 1 ≤ nb)
    (hnbij : nb ≤ i + j + 1) (hminv : minv = (g2 domains (g minsv i)).1)
    (hmaxv : maxv = (g2 domains (g maxsv j)).2 + 1) (hle : minv ≤ maxv)
    (hlast : last = g bounds nb) (hlm : last = minv) (hbot : g bounds 1 = g bounds 0 + 2) :
    ∃ s', ubMinJp n domains minsv ranks minv maxv i j false bounds last nb = .ok (.yield s') ∧
      UBInv n sz domains minsv maxsv s' ∧ s'.2.2.2.2.2.1 + s'.2.2.2.2.2.2.1 = i + j + 1 := by
  have hmr := hc.minr i hi0 hin
  have hms := hc.hmins
  have hsr := ha.sr
  have hdn := hc.hdn
  have ha' := ha.setMin hnb1 hmr.1 hmr.2 (fun k h0 h1 => (hc.minr k h0 h1).1)
    (fun k h0 h1 => (hc.maxr k h0 h1).1) hin (by omega)
  unfold ubMinJp
  rw [rd_ok minsv i hi0 (by omega), ok_bind, wr2_ok ranks _ MIN nb hmr.1 (by omega), ok_bind]
  simp only []
  by_cases hi1 : i + 1 < n
  · rw [if_pos hi1]
    have hmr' := hc.minr (i + 1) (by omega) hi1
    rw [rd_ok minsv (i + 1) (by omega) (by omega), ok_bind,
      rd2_min_ok domains _ hmr'.1 (by omega), ok_bind]
    refine ⟨_, rfl, ⟨ha', by simp only; omega, by simp only; omega, hj0, hjn, by simp only; omega,
      by simp only; omega, fun _ => rfl, hmaxv, hlast, ?_, ?_, ?_, rfl⟩, by simp only; omega⟩
    · intro _
      simp only
      have := hc.minsorted i hi0 hi1
      omega
    · simp only; omega
    · right; exact ⟨hnb1, hbot⟩
  · rw [if_neg hi1]
    refine ⟨_, rfl, ⟨ha', by simp only; omega, by simp only; omega, hj0, hjn, by simp only; omega,
      by simp only; omega, fun h => by simp only at h; omega, hmaxv, hlast, ?_, ?_, ?_, rfl⟩,
      by simp only; omega⟩
    · intro h; simp only at h; omega
    · simp only; omega
    · right; exact ⟨hnb1, hbot⟩

theorem ubMaxJp_spec {n : Int} {sz : Nat} {domains : Arr2} {minsv maxsv : Array Int}
    (hc : UBCtx n domains minsv maxsv) {bounds : Array Int} {ranks : Arr2}
    {minv maxv i j last nb : Int}
    (ha : UBArr n sz minsv maxsv bounds ranks i j nb)
    (hi0 : 0 ≤ i) (hin : i ≤ n) (hj0 : 0 ≤ j) (hjn : j < n) (hnb1 : 1 ≤ nb)
    (hnbij : nb ≤ i + j + 1) (hminv : i < n → minv = (g2 domains (g minsv i)).1)
    (hgt : i < n → maxv < minv)
    (hmaxv : maxv = (g2 domains (g maxsv j)).2 + 1)
    (hlast : last = g bounds nb) (hlm : last = maxv) (hbot : g bounds 1 = g bounds 0 + 2) :
    (∃ s', ubMaxJp n domains maxsv ranks minv maxv i j false bounds last nb = .ok (.yield s') ∧
      UBInv n sz domains minsv maxsv s' ∧ s'.2.2.2.2.2.1 + s'.2.2.2.2.2.2.1 = i + j + 1) ∨
    (∃ s', ubMaxJp n domains maxsv ranks minv maxv i j false bounds last nb = .ok (.done s') ∧
      UBPost n sz minsv maxsv s') := by
  have hmr := hc.maxr j hj0 hjn
  have hms := hc.hmaxs
  have hsr := ha.sr
  have hdn := hc.hdn
  have ha' := ha.setMax hnb1 hmr.1 hmr.2 (fun k h0 h1 => (hc.minr k h0 h1).1)
    (fun k h0 h1 => (hc.maxr k h0 h1).1) hin hjn
  unfold ubMaxJp
  rw [rd_ok maxsv j hj0 (by omega), ok_bind, wr2_ok ranks _ MAX nb hmr.1 (by omega), ok_bind]
  simp only []
  by_cases hj1 : j + 1 = n
  · right
    have hcond : (j + 1 == n) = true := by simpa using hj1
    rw [if_pos hcond]
    have hieq : i = n := by
      by_cases h : i < n
      · have h1 := hc.lastmax i hi0 h
        have h2 := hgt h
        have h3 := hminv h
        have hjj : j = n - 1 := by omega
        subst hjj
        omega
      · omega
    subst hieq
    refine ⟨_, rfl, ⟨?_, hnb1, by simp only; omega, hbot, rfl⟩⟩
    simp only
    rw [hj1] at ha'
    exact ha'
  · left
    have hcond : ¬ (j + 1 == n) = true := by simpa using hj1
    rw [if_neg hcond]
    have hmr' := hc.maxr (j + 1) (by omega) (by omega)
    rw [rd_ok maxsv (j + 1) (by omega) (by omega), ok_bind,
      rd2_max_ok domains _ hmr'.1 (by omega), ok_bind]
    refine ⟨_, rfl, ⟨ha', hi0, hin, by simp only; omega, by simp only; omega, by simp only; omega,
      by simp only; omega, hminv, rfl, hlast, ?_, ?_, ?_, rfl⟩, by simp only; omega⟩
    · intro h
      simp only at h ⊢
      have := hgt h
      omega
    · simp only
      have := hc.maxsorted j hj0 (by omega)
      omega
    · right; exact ⟨hnb1, hbot⟩

theorem ubBody_spec {n : Int} {sz : Nat} {domains : Arr2} {minsv maxsv : Array Int}
    (hc : UBCtx n domains minsv maxsv) (hsz : (sz : Int) = 2 * n + 2) (x : Nat) (s : USt)
    (hi : UBInv n sz domains minsv maxsv s) :
    (∃ s', ubBody n domains minsv maxsv x s = .ok (.yield s') ∧
      UBInv n sz domains minsv maxsv s' ∧
      s'.2.2.2.2.2.1 + s'.2.2.2.2.2.2.1 = s.2.2.2.2.2.1 + s.2.2.2.2.2.2.1 + 1) ∨
    (∃ s', ubBody n domains minsv maxsv x s = .ok (.done s') ∧ UBPost n sz minsv maxsv s') := by
  obtain ⟨bounds, ranks, minv, maxv, last, i, j, nb, done⟩ := s
  obtain ⟨ha, hi0, hin, hj0, hjn, hnb0, hnbij, hminv, hmaxv, hlast, hlmin, hlmax, hstart, hdone⟩ := hi
  simp only at ha hi0 hin hj0 hjn hnb0 hnbij hminv hmaxv hlast hlmin hlmax hstart hdone
  subst hdone
  have hsb := ha.sb
  unfold ubBody
  simp only []
  by_cases hbr : i < n ∧ minv ≤ maxv
  · rw [if_pos hbr]
    left
    by_cases hne : minv = last
    · have hcond : ¬ (minv != last) = true := by simp [hne]
      rw [if_neg hcond]
      have hB : 1 ≤ nb ∧ g bounds 1 = g bounds 0 + 2 := by
        rcases hstart with ⟨_, _, _, h4, _⟩ | h
        · omega
        · exact h
      exact ubMinJp_spec hc ha hi0 hbr.1 hj0 hjn hB.1 (by omega) (hminv hbr.1) hmaxv hbr.2 hlast
        hne.symm hB.2
    · have hcond : (minv != last) = true := by simp [hne]
      rw [if_pos hcond, wr_ok bounds (nb + 1) minv (by omega) (by omega), ok_bind]
      have hlt : g bounds nb < minv := by have := hlmin hbr.1; omega
      have ha' := ha.push minv hnb0 (by omega) hlt
      refine ubMinJp_spec hc ha' hi0 hbr.1 hj0 hjn (by omega) (by omega) (hminv hbr.1) hmaxv hbr.2
        (g_upd_same bounds _ _ (by omega) (by omega)).symm rfl ?_
      rcases hstart with ⟨h1, _, _, h4, _⟩ | h
      · subst h1
        have h01 : (0 : Int) + 1 = 1 := rfl
        rw [h01, g_upd_same bounds _ _ (by omega) (by omega),
          g_upd_ne bounds _ _ 0 (by omega) (by omega) (by omega) (by omega)]
        omega
      · rw [g_upd_ne bounds _ _ 1 (by omega) (by omega) (by omega) (by omega),
          g_upd_ne bounds _ _ 0 (by omega) (by omega) (by omega) (by omega)]
        exact h.2
  · rw [if_neg hbr]
    have hB : 1 ≤ nb ∧ g bounds 1 = g bounds 0 + 2 := by
      rcases hstart with ⟨_, h2, _, _, h5⟩ | h
      · exact absurd ⟨by omega, h5⟩ hbr
      · exact h
    have hgt : i < n → maxv < minv := fun h => by
      by_cases h' : minv ≤ maxv
      · exact absurd ⟨h, h'⟩ hbr
      · omega
    by_cases hne : maxv = last
    · have hcond : ¬ (maxv != last) = true := by simp [hne]
      rw [if_neg hcond]
      exact ubMaxJp_spec hc ha hi0 hin hj0 hjn hB.1 (by omega) hminv hgt hmaxv hlast hne.symm hB.2
    · have hcond : (maxv != last) = true := by simp [hne]
      rw [if_pos hcond, wr_ok bounds (nb + 1) maxv (by omega) (by omega), ok_bind]
      have hlt : g bounds nb < maxv := by omega
      have ha' := ha.push maxv hnb0 (by omega) hlt
      refine ubMaxJp_spec hc ha' hi0 hin hj0 hjn (by omega) (by omega) hminv hgt hmaxv
        (g_upd_same bounds _ _ (by omega) (by omega)).symm rfl ?_
      rw [g_upd_ne bounds _ _ 1 (by omega) (by omega) (by omega) (by omega),
        g_upd_ne bounds _ _ 0 (by omega) (by omega) (by omega) (by omega)]
      exact hB.2

/-! ### `update_bounds` -/

theorem update_bounds_spec {n : Int} {sz : Nat} {domains : Arr2} {minsv maxsv : Array Int}
    (hc : UBCtx n domains minsv maxsv) (hsz : (sz : Int) = 2 * n + 2) (bounds : Array Int)
    (ranks : Arr2) (hsb : bounds.size = sz) (hsr : (ranks.size : Int) = n)
    (hsurjmin : ∀ v, 0 ≤ v → v < n → ∃ k, 0 ≤ k ∧ k < n ∧ g minsv k = v)
    (hsurjmax : ∀ v, 0 ≤ v → v < n → ∃ k, 0 ≤ k ∧ k < n ∧ g maxsv k = v) :
    ∃ r : Int × Array Int × Arr2, update_bounds bounds n domains ranks minsv maxsv = .ok r ∧
      1 ≤ r.1 ∧ r.1 ≤ 2 * n ∧ r.2.1.size = sz ∧ (r.2.2.size : Int) = n ∧
      (∀ k, 0 ≤ k → k < r.1 + 1 → g r.2.1 k < g r.2.1 (k + 1)) ∧
      g r.2.1 (r.1 + 1) = g r.2.1 r.1 + 2 ∧ g r.2.1 1 = g r.2.1 0 + 2 ∧
      ∀ v, 0 ≤ v → v < n → 1 ≤ (g2 r.2.2 v).1 ∧ (g2 r.2.2 v).1 ≤ r.1 ∧
        1 ≤ (g2 r.2.2 v).2 ∧ (g2 r.2.2 v).2 ≤ r.1 := by
  have hn := hc.hn
  have hm0 := hc.minr 0 (by omega) (by omega)
  have hx0 := hc.maxr 0 (by omega) (by omega)
  have hms := hc.hmins
  have hxs := hc.hmaxs
  have hdn := hc.hdn
  rw [update_bounds_eq, rd_ok minsv 0 (by omega) (by omega), ok_bind,
    rd2_min_ok domains _ hm0.1 (by omega), ok_bind, rd_ok maxsv 0 (by omega) (by omega), ok_bind,
    rd2_max_ok domains _ hx0.1 (by omega), ok_bind,
    wr_ok bounds 0 _ (by omega) (by omega), ok_bind, range_forIn_eq]
  refine except_bind_ok (P := fun s => UBPost n sz minsv maxsv s)
    (forIn_list_except
      (Inv := fun (rest : List Nat) (s : USt) => UBInv n sz domains minsv maxsv s ∧
        2 * n - s.2.2.2.2.2.1 - s.2.2.2.2.2.2.1 ≤ rest.length)
      _ _ ?_ ?_ _ _ ?_) ?_
  · rintro x rest s ⟨hi, hfuel⟩
    rcases ubBody_spec hc hsz x s hi with ⟨s', he, hi', hprog⟩ | ⟨s', he, hp⟩
    · left
      refine ⟨s', he, hi', ?_⟩
      simp only [List.length_cons] at hfuel
      omega
    · right
      exact ⟨s', he, hp⟩
  · rintro s ⟨hi, hfuel⟩
    have := hi.in'
    have := hi.jn
    simp only [List.length_nil] at hfuel
    omega
  · refine ⟨⟨⟨by simp [hsb], hsr, fun k h0 h1 => by simp only at h1; omega,
      fun k h0 h1 => by simp only at h1; omega, fun k h0 h1 => by simp only at h1; omega⟩,
      by simp, by simp only; omega, by simp, by simp only; omega, by simp,
      by simp, fun _ => rfl, rfl, ?_, ?_, ?_, ?_, rfl⟩, ?_⟩
    · simp only; rw [g_upd_same bounds 0 _ (by omega) (by omega)]
    · intro _; simp only; omega
    · simp only; have := hc.first; omega
    · left; exact ⟨rfl, rfl, rfl, rfl, hc.first⟩
    · simp only [List.length_range', fuel, size_upd]
      omega
  · rintro s hp
    obtain ⟨b, r, minv, maxv, last, i, j, nb, done⟩ := s
    obtain ⟨ha, hnb1, hnb2, hbot, hdone⟩ := hp
    simp only at ha hnb1 hnb2 hbot hdone
    subst hdone
    have hsb' := ha.sb
    simp only [Bool.not_true, Bool.false_eq_true, if_false]
    unfold ubFinish
    simp only []
    rw [rd_ok b nb (by omega) (by omega), ok_bind, wr_ok b (nb + 1) _ (by omega) (by omega), ok_bind]
    refine ⟨_, rfl, ?_⟩
    simp only
    refine ⟨hnb1, hnb2, by simp [hsb'], ha.sr, ?_, ?_, ?_, ?_⟩
    · intro k h0 h1
      by_cases hk : k = nb
      · subst hk
        rw [g_upd_same b _ _ (by omega) (by omega),
          g_upd_ne b _ _ k (by omega) (by omega) h0 (by omega)]
        omega
      · rw [g_upd_ne b _ _ k (by omega) (by omega) h0 (by omega),
          g_upd_ne b _ _ (k + 1) (by omega) (by omega) (by omega) (by omega)]
        exact ha.mono k h0 (by omega)
    · rw [g_upd_same b _ _ (by omega) (by omega),
        g_upd_ne b _ _ nb (by omega) (by omega) (by omega) (by omega)]
    · rw [g_upd_ne b _ _ 1 (by omega) (by omega) (by omega) (by omega),
        g_upd_ne b _ _ 0 (by omega) (by omega) (by omega) (by omega)]
      exact hbot
    · intro v h0 h1
      obtain ⟨k, hk0, hk1, hkv⟩ := hsurjmin v h0 h1
      obtain ⟨l, hl0, hl1, hlv⟩ := hsurjmax v h0 h1
      have h1 := ha.rmin k hk0 hk1
      have h2 := ha.rmax l hl0 hl1
      rw [hkv] at h1
      rw [hlv] at h2
      exact ⟨h1.1, h1.2, h2.1, h2.2⟩

end AllDiff
end Nucs
