import NucsProofs.Propagators.PortGccBounds
import NucsProofs.Propagators.PortGccLMax
import NucsProofs.Propagators.PortGccUMax
import NucsProofs.Propagators.PortGccLMin
import NucsProofs.Propagators.PortGccUMin
import NucsProofs.Propagators.PortAlldiff
/-!
  C16 / C04 for the RAW PORT of the gcc propagator (`NucsModel/Propagators/Gcc.lean`, a line-by-line
  port of nucs/propagators/gcc_propagator.py): in contract, on a box of non-empty domains and with
  every upper capacity `≥ 1`, the ported algorithm returns a result — no checked array access fails
  (`Err.oob`) and no `while` loop runs out of its iteration budget (`Err.fuel`).

  Pieces: `PortGccPsum` (partial sums), `PortGccBounds` (`update_bounds`), `PortGccLMax`,
  `PortGccLMin*`, `PortGccUMax`, `PortGccUMin*` (the four filter passes).

  The hypothesis "every upper capacity is `≥ 1`" is needed: see `gcc_zero_capacity_fuel` at the end
  (known finding K1: with a zero capacity the Python loops forever in `path_set`).
-/
namespace Nucs
namespace Gcc
open AllDiff (g upd g2 upd2 ok_bind pure_eq_ok except_bind_ok forIn_list_except range_forIn_eq
  size_upd size_upd2 g_upd g_upd_same g_upd_ne)

theorem pyDiv_two (m : Int) : pyDiv (2 * m + 1 - 1) 2 = m := by
  unfold pyDiv
  rw [Int.fdiv_eq_ediv_of_nonneg _ (by omega)]
  omega

theorem g_extract (a : Array Int) (s e : Nat) (k : Int) (h0 : 0 ≤ k) (h1 : s + k < e)
    (he : e ≤ a.size) : g (a.extract s e) k = g a (s + k) := by
  unfold g
  have h2 : k.toNat < (a.extract s e).size := by simp; omega
  have h3 : ((s : Int) + k).toNat < a.size := by omega
  have h4 : ((s : Int) + k).toNat = s + k.toNat := by omega
  have h5 : k.toNat < min e a.size - s := by omega
  have h6 : s + k.toNat < a.size := by omega
  simp [Array.getD, h4, h5, h6]

theorem size_extract' (a : Array Int) (s e : Nat) (he : e ≤ a.size) (hs : s ≤ e) :
    ((a.extract s e).size : Int) = e - s := by
  simp; omega


theorem g_replicate0 (n : Nat) (k : Int) : g (Array.replicate n 0) k = 0 := by
  unfold g
  by_cases h : k.toNat < n <;> simp [Array.getD, h]

theorem nmok_of_nmok' {N : Int} {nm : Array Int} (h : NMOk N nm) : NMOk' N nm := by
  intro k h0 h1
  have := h k.toNat (by omega) (by omega)
  rw [Int.toNat_of_nonneg h0] at this
  exact this

/-- the ported `compute_domains_gcc` returns a result in contract when every capacity is `≥ 1` -/
theorem compute_domains_gcc_ok (domains : Arr2) (parameters : Array Int) (m : Int) (hm : 1 ≤ m)
    (hps : (parameters.size : Int) = 2 * m + 1) (hn : 1 ≤ domains.size)
    (hdom : ∀ v : Int, 0 ≤ v → v < domains.size → g parameters 0 ≤ (g2 domains v).1 ∧
      (g2 domains v).1 ≤ (g2 domains v).2 ∧ (g2 domains v).2 ≤ g parameters 0 + m - 1)
    (hl : ∀ k : Int, 0 ≤ k → k < m → 0 ≤ g parameters (1 + k))
    (hu : ∀ k : Int, 0 ≤ k → k < m → 1 ≤ g parameters (1 + m + k)) :
    ∃ r, compute_domains_gcc domains parameters = .ok r := by
  have hpm : pyDiv ((parameters.size : Int) - 1) 2 = m := by rw [hps]; exact pyDiv_two m
  -- the two capacity arrays
  have hLs : ((parameters.extract 1 (1 + m.toNat)).size : Int) = m := by
    rw [size_extract' _ _ _ (by omega) (by omega)]; omega
  have hLv : ∀ k : Int, 0 ≤ k → k < m →
      g (parameters.extract 1 (1 + m.toNat)) k = g parameters (1 + k) := by
    intro k h0 h1
    rw [g_extract _ _ _ k h0 (by omega) (by omega)]; rfl
  have hUs : ((parameters.extract (1 + m.toNat) parameters.size).size : Int) = m := by
    rw [size_extract' _ _ _ (Nat.le_refl _) (by omega)]; omega
  have hUv : ∀ k : Int, 0 ≤ k → k < m →
      g (parameters.extract (1 + m.toNat) parameters.size) k = g parameters (1 + m + k) := by
    intro k h0 h1
    rw [g_extract _ _ _ k h0 (by omega) (Nat.le_refl _)]
    congr 1; omega
  obtain ⟨l, hel, hpl, _⟩ := init_partial_sum_spec (g parameters 0) m _ (by omega) hLs
    (fun k h0 h1 => by rw [hLv k h0 h1]; exact hl k h0 h1)
  obtain ⟨u, heu, hpu, hstrict⟩ := init_partial_sum_spec (g parameters 0) m _ (by omega) hUs
    (fun k h0 h1 => by rw [hUv k h0 h1]; have := hu k h0 h1; omega)
  have hus : PSStrict u m := hstrict (fun k h0 h1 => by rw [hUv k h0 h1]; exact hu k h0 h1)
  -- the sorted index arrays
  obtain ⟨hs1, hr1, hj1, ho1⟩ := argsort_spec (domains.map (·.1))
  obtain ⟨hs2, hr2, hj2, ho2⟩ := argsort_spec (domains.map (·.2))
  simp only [Array.size_map] at hs1 hr1 hj1 ho1 hs2 hr2 hj2 ho2
  have hctx : AllDiff.UBCtx domains.size domains (argsort (domains.map (·.1)))
      (argsort (domains.map (·.2))) := by
    rw [argsort_eq, argsort_eq]
    exact AllDiff.ubctx_of_argsort domains hn (fun v h0 h1 => (hdom v h0 h1).2.1)
  have hszI : (((2 * (domains.size : Int) + 2).toNat : Nat) : Int) = 2 * (domains.size : Int) + 2 := by
    omega
  obtain ⟨⟨nb, bounds, ranks⟩, hub, hnb1, hnb2, hbs, hrs, hb, hranks⟩ :=
    update_bounds_spec hctx hpl hpu hdom hszI
      (Array.replicate (2 * (domains.size : Int) + 2).toNat 0)
      (Array.replicate (domains.size : Int).toNat (0, 0)) (by simp) (by simp) hj1 hj2
  simp only at hnb1 hnb2 hbs hrs hb hranks
  unfold compute_domains_gcc
  simp only []
  rw [hpm, rd_ok parameters 0 (by omega) (by omega), ok_bind, hel, ok_bind,
    ok_bind, heu, ok_bind, hub, ok_bind]
  simp only []
  have hm0 := hr1 0 (by omega) (by omega)
  have hx0 := hr2 ((domains.size : Int) - 1) (by omega) (by omega)
  have hd0 := hdom _ hm0.1 hm0.2
  have hdx := hdom _ hx0.1 hx0.2
  rw [get_min_value_ok hpl, ok_bind, rd_ok _ 0 (by omega) (by omega), ok_bind,
    rd2_min_ok domains _ hm0.1 hm0.2, ok_bind,
    get_sum_ok hpl _ _ (by omega) (by omega) (by omega) (by omega), ok_bind]
  split
  · exact ⟨_, rfl⟩
  rw [rd_ok _ ((domains.size : Int) - 1) (by omega) (by omega), ok_bind,
    rd2_max_ok domains _ hx0.1 hx0.2, ok_bind, get_max_value_ok hpl, ok_bind,
    get_sum_ok hpl _ _ (by omega) (by omega) (by omega) (by omega), ok_bind]
  split
  · exact ⟨_, rfl⟩
  -- facts shared by the four passes
  have hNeq : nb = nb + 1 - 1 := by omega
  have hrsN : ranks.size = domains.size := by omega
  have hmin : ∀ i : Int, 0 ≤ i → i < (domains.size : Int) →
      0 ≤ g (argsort (domains.map (·.1))) i ∧
        g (argsort (domains.map (·.1))) i < (domains.size : Int) := hr1
  have hmax : ∀ i : Int, 0 ≤ i → i < (domains.size : Int) →
      0 ≤ g (argsort (domains.map (·.2))) i ∧
        g (argsort (domains.map (·.2))) i < (domains.size : Int) := hr2
  have hsorted : ∀ i i' : Int, 0 ≤ i → i ≤ i' → i' < (domains.size : Int) →
      (g2 ranks (g (argsort (domains.map (·.2))) i)).2 ≤
        (g2 ranks (g (argsort (domains.map (·.2))) i')).2 := by
    intro i i' h0 h1 h2
    have hv := hmax i h0 (by omega)
    have hv' := hmax i' (by omega) h2
    have hk := hranks _ hv.1 hv.2
    have hk' := hranks _ hv'.1 hv'.2
    have hle := ho2 i i' h0 h1 h2
    rw [AllDiff.g_map_snd domains _ hv.1 hv.2, AllDiff.g_map_snd domains _ hv'.1 hv'.2] at hle
    by_cases hc : (g2 ranks (g (argsort (domains.map (·.2))) i)).2 ≤
        (g2 ranks (g (argsort (domains.map (·.2))) i')).2
    · exact hc
    · have := hb.lt' _ _ (by omega) (Int.lt_of_not_ge hc) (by omega)
      omega
  -- pass 1
  obtain ⟨⟨ok1, t1, d1, h1, dom1⟩, hf1, hp1⟩ := filter_lower_max_spec
    (sz := (2 * (domains.size : Int) + 2).toNat) hb hpu hus (domains.size : Int)
    (Array.replicate (2 * (domains.size : Int) + 2).toNat 0)
    (Array.replicate (2 * (domains.size : Int) + 2).toNat 0)
    (Array.replicate (2 * (domains.size : Int) + 2).toNat 0)
    domains ranks (argsort (domains.map (·.2))) (by simp) (by simp) (by simp) (by omega) hrsN
    (by
      intro v hv
      obtain ⟨k, hk0, hk1, hkv⟩ := AllDiff.mem_toList_g _ v hv
      rw [← hkv]
      exact hmax k hk0 (by omega))
    (by
      intro v h0 h1
      have := hranks v h0 (by omega)
      omega)
  rw [← hNeq] at hf1
  rw [hf1, ok_bind]
  simp only at hp1 ⊢
  cases ok1 with
  | false => exact ⟨_, rfl⟩
  | true =>
    obtain ⟨hs11, hs12, hs13, hs14⟩ := hp1 rfl
    simp only [Bool.not_true, Bool.false_eq_true, if_false]
    -- pass 2
    obtain ⟨⟨ok2, t2, d2, h2, dom2, stbl2, pot2, nm2⟩, hf2, hp2⟩ := filter_lower_min_spec
      (sz := (2 * (domains.size : Int) + 2).toNat) hb hpl (domains.size : Int) t1 d1 h1 dom1 ranks
      (argsort (domains.map (·.2)))
      (Array.replicate (2 * (domains.size : Int) + 2).toNat 0)
      (Array.replicate (2 * (domains.size : Int) + 2).toNat 0)
      (Array.replicate (domains.size : Int).toNat 0)
      hs11 hs12 hs13 (by simp) (by simp) (by omega) (by omega) (by omega) (by simp)
      (by
        intro k h0 h1
        rw [g_replicate0]
        omega)
      (fun i h0 h1 => by have := hmax i h0 h1; omega)
      (by
        intro v h0 h1
        have := hranks v h0 (by omega)
        omega)
      hsorted
    rw [← hNeq] at hf2
    rw [hf2, ok_bind]
    simp only at hp2 ⊢
    cases ok2 with
    | false => exact ⟨_, rfl⟩
    | true =>
      obtain ⟨hs21, hs22, hs23, hs24, hs25, hs26, hnm2⟩ := hp2 rfl
      simp only [Bool.not_true, Bool.false_eq_true, if_false]
      -- pass 3
      obtain ⟨⟨ok3, t3, d3, h3, dom3⟩, hf3, hp3⟩ := filter_upper_max_spec
        (sz := (2 * (domains.size : Int) + 2).toNat) hb hpu hus (domains.size : Int) t2 d2 h2 dom2 ranks
        (argsort (domains.map (·.1))) hs21 hs22 hs23 (by omega) (by omega) (by omega)
        (fun i h0 h1 => by have := hmin i h0 h1; omega)
        (by
          intro v h0 h1
          have := hranks v h0 (by omega)
          omega)
      rw [hf3, ok_bind]
      simp only at hp3 ⊢
      cases ok3 with
      | false => exact ⟨_, rfl⟩
      | true =>
        obtain ⟨hs31, hs32, hs33, hs34⟩ := hp3 rfl
        simp only [Bool.not_true, Bool.false_eq_true, if_false]
        -- pass 4
        obtain ⟨⟨ok4, t4, d4, h4, dom4, nm4⟩, hf4, _⟩ := filter_upper_min_spec
          (sz := (2 * (domains.size : Int) + 2).toNat) hb hpl (domains.size : Int) t3 d3 h3 dom3 ranks
          (argsort (domains.map (·.1))) stbl2 nm2 hs31 hs32 hs33 hs25 (by omega) (by omega) (by omega)
          hs26 (nmok_of_nmok' hnm2)
          (fun i h0 h1 => by have := hmin i h0 h1; omega)
          (by
            intro v h0 h1
            have := hranks v h0 (by omega)
            omega)
        rw [hf4, ok_bind]
        simp only []
        cases ok4 <;> exact ⟨_, rfl⟩
theorem g_toArray (l : List Int) (k : Int) : g l.toArray k = getI l k.toNat := by
  simp [g, getI]

end Gcc

/-- **C16 / C04 for the ported gcc.**  In contract, on a box whose domains are all non-empty and
    with every upper capacity `≥ 1`, the raw port returns a result. -/
theorem C16_port_gcc_ok (ps : List Int) (B : Box) (hc : Contract .gcc ps B) (hB : B.Nonempty)
    (hu : ∀ j, j < (ps.length - 1) / 2 → 1 ≤ getI ps (1 + (ps.length - 1) / 2 + j)) :
    ∃ r, gcc ps B = .ok r := by
  obtain ⟨hlen, hm1, hB1, hwithin, hcap⟩ := hc
  generalize hmdef : (ps.length - 1) / 2 = mn at hlen hm1 hwithin hcap hu
  obtain ⟨⟨status, domains⟩, hr⟩ := Gcc.compute_domains_gcc_ok B.toArray ps.toArray (mn : Int)
    (by omega) (by simp; omega) (by simpa using hB1)
    (by
      intro v h0 h1
      have hmem := AllDiff.g2_mem_toArray B v h0 (by simpa using h1)
      have hw := hwithin _ hmem
      have hne := hB _ hmem
      rw [Gcc.g_toArray]
      exact ⟨hw.1, hne, hw.2⟩)
    (by
      intro k h0 h1
      rw [Gcc.g_toArray]
      have := (hcap k.toNat (by omega)).1
      have e : (1 + k).toNat = 1 + k.toNat := by omega
      rw [e]; exact this)
    (by
      intro k h0 h1
      rw [Gcc.g_toArray]
      have := hu k.toNat (by omega)
      have e : (1 + (mn : Int) + k).toNat = 1 + mn + k.toNat := by omega
      rw [e]; exact this)
  unfold gcc
  rw [hr]
  simp only [AllDiff.ok_bind]
  by_cases hs : (status == Status.inc) = true
  · rw [if_pos hs]; exact ⟨_, rfl⟩
  · rw [if_neg hs]; exact ⟨_, rfl⟩

/-- the form of the second conjunct of `C16_port_full` (NucsProofs/Properties/C16.lean), together
    with termination (C04) of the port's `while` loops -/
theorem C16_port_gcc (ps : List Int) (B : Box) (hc : Contract .gcc ps B) (hB : B.Nonempty)
    (hu : ∀ j, j < (ps.length - 1) / 2 → 1 ≤ getI ps (1 + (ps.length - 1) / 2 + j)) :
    gcc ps B ≠ .error .oob ∧ gcc ps B ≠ .error .fuel := by
  obtain ⟨r, hr⟩ := C16_port_gcc_ok ps B hc hB hu
  rw [hr]
  exact ⟨fun h => (by cases h), fun h => (by cases h)⟩

/-- the second conjunct of `C16_port_full` -/
theorem C16_port_full_gcc :
    ∀ ps B, Contract .gcc ps B → B.Nonempty →
      (∀ j, j < (ps.length - 1) / 2 → 1 ≤ getI ps (1 + (ps.length - 1) / 2 + j)) →
      gcc ps B ≠ .error .oob :=
  fun ps B hc hB hu => (C16_port_gcc ps B hc hB hu).1

/-- the `while` loops of the ported gcc terminate within their budget -/
theorem C04_port_gcc :
    ∀ ps B, Contract .gcc ps B → B.Nonempty →
      (∀ j, j < (ps.length - 1) / 2 → 1 ≤ getI ps (1 + (ps.length - 1) / 2 + j)) →
      gcc ps B ≠ .error .fuel :=
  fun ps B hc hB hu => (C16_port_gcc ps B hc hB hu).2

/-- why "every capacity is `≥ 1`" is assumed (known finding K1): values `0, 1` with capacities
    `u = [0, 1]`, `l = [0, 0]` (in contract), variables `{0}` and `{1}`: the port (like the Python)
    loops forever -/
theorem gcc_zero_capacity_fuel : gcc [0, 0, 0, 0, 1] [(0, 0), (1, 1)] = .error .fuel := by
  have h : (match gcc [0, 0, 0, 0, 1] [(0, 0), (1, 1)] with | .error .fuel => true | _ => false) = true := by
    decide +kernel
  generalize gcc [0, 0, 0, 0, 1] [(0, 0), (1, 1)] = r at h
  match r, h with
  | .error .fuel, _ => rfl

example : gcc [0, 0, 0, 0, 1] [(0, 0), (1, 1)] = .error .fuel := gcc_zero_capacity_fuel

/-- the failing input is inside the documented contract: only the capacity hypothesis fails -/
example : Contract .gcc [0, 0, 0, 0, 1] [(0, 0), (1, 1)] ∧ Box.Nonempty [(0, 0), (1, 1)] := by
  refine ⟨⟨by decide, by decide, by decide, ?_, ?_⟩, ?_⟩
  · intro d hd; simp at hd; rcases hd with rfl | rfl <;> decide
  · intro j hj
    have : j = 0 ∨ j = 1 := by simp at hj; omega
    rcases this with rfl | rfl <;> decide
  · intro d hd; simp at hd; rcases hd with rfl | rfl <;> decide

end Nucs
