import NucsProofs.Basic
/-!
  element_iv, element_lic, element_liv, relation.

  For each `a ∈ {relation, elementIv, elementLic, elementLiv}`:
  `sound_a`, `groundOk_a`, `entailOk_a`, `contractMono_a`, `safe_a`, `trigOk_a`, `exact_a`.
  Helper lemmas live under the `Elem.` prefix.
-/
namespace Nucs

/-! ### generic helpers (prefixed `Elem.` to avoid clashes with other proof files) -/

/-- a propagator that watches MIN|MAX everywhere and is `Sound` satisfies `TrigOk` -/
theorem Elem.trigOk_of_minMax (a : Alg) (hs : Sound a)
    (hm : ∀ ps n k, maskAlg a ps n k = Ev.minMax) : TrigOk a := by
  intro ps B st B' B'' hc hne hrun hst hle _ hq
  have hS := (hs ps B st B' hc hne hrun).1 hst
  have hl1 := Box.le_length hle
  have hl2 := Box.le_length hS.1
  have hBB : B'' = B := by
    apply Box.ext_get (by omega)
    intro k hk
    have := hq k (by omega)
    rw [hm] at this
    exact eq_of_quiet_minMax this
  subst hBB
  have : B' = B'' := Box.le_antisymm hS.1 hle
  subst this
  exact ⟨st, hrun, hst⟩

theorem Elem.getI_eq (l : List Int) (k : Nat) (h : k < l.length) : getI l k = l[k] := by
  simp [getI, List.getD, List.getElem?_eq_getElem h]

theorem Elem.getDom_eq (l : Box) (k : Nat) (h : k < l.length) : getDom l k = l[k] := by
  simp [getDom, List.getD, List.getElem?_eq_getElem h]

theorem Elem.getI_mem (l : List Int) (k : Nat) (h : k < l.length) : getI l k ∈ l := by
  rw [Elem.getI_eq l k h]; exact List.getElem_mem h

theorem Elem.list_ext_getI {t r : List Int} (hl : t.length = r.length)
    (h : ∀ k, k < t.length → getI t k = getI r k) : t = r := by
  apply List.ext_getElem hl
  intro k h1 h2
  have := h k h1
  rwa [Elem.getI_eq t k h1, Elem.getI_eq r k h2] at this

theorem Elem.inBox_of_get : ∀ {t : List Int} {B : Box}, t.length = B.length →
    (∀ k, k < B.length → (getDom B k).1 ≤ getI t k ∧ getI t k ≤ (getDom B k).2) → inBox t B
  | [], [], _, _ => trivial
  | x :: xs, d :: ds, hl, h => by
    refine ⟨?_, Elem.inBox_of_get (t := xs) (B := ds) (by simpa using hl) ?_⟩
    · simpa [getDom, getI, inDom] using h 0 (by simp)
    · intro k hk
      simpa [getDom, getI] using h (k + 1) (by simpa using hk)
  | [], _ :: _, hl, _ => by simp at hl
  | _ :: _, [], hl, _ => by simp at hl

theorem Elem.le_of_get : ∀ {B' B : Box}, B'.length = B.length →
    (∀ k, k < B.length → (getDom B k).1 ≤ (getDom B' k).1 ∧ (getDom B' k).2 ≤ (getDom B k).2) →
    Box.le B' B
  | [], [], _, _ => trivial
  | x :: xs, d :: ds, hl, h => by
    refine ⟨?_, Elem.le_of_get (B' := xs) (B := ds) (by simpa using hl) ?_⟩
    · simpa [getDom] using h 0 (by simp)
    · intro k hk
      simpa [getDom] using h (k + 1) (by simpa using hk)
  | [], _ :: _, hl, _ => by simp at hl
  | _ :: _, [], hl, _ => by simp at hl

/-! ### minL / maxL -/

theorem Elem.minL_cons2 (a b : Int) (as : List Int) : minL (a :: b :: as) = min a (minL (b :: as)) := rfl
theorem Elem.maxL_cons2 (a b : Int) (as : List Int) : maxL (a :: b :: as) = max a (maxL (b :: as)) := rfl

theorem Elem.minL_mem : ∀ (l : List Int), l ≠ [] → minL l ∈ l
  | [], h => absurd rfl h
  | [a], _ => by simp [minL]
  | a :: b :: as, _ => by
    have := Elem.minL_mem (b :: as) (by simp)
    rw [Elem.minL_cons2]
    by_cases h : a ≤ minL (b :: as)
    · rw [Int.min_eq_left h]; simp
    · rw [Int.min_eq_right (by omega)]; exact List.mem_cons_of_mem _ this

theorem Elem.maxL_mem : ∀ (l : List Int), l ≠ [] → maxL l ∈ l
  | [], h => absurd rfl h
  | [a], _ => by simp [maxL]
  | a :: b :: as, _ => by
    have := Elem.maxL_mem (b :: as) (by simp)
    rw [Elem.maxL_cons2]
    by_cases h : a ≤ maxL (b :: as)
    · rw [Int.max_eq_right h]; exact List.mem_cons_of_mem _ this
    · rw [Int.max_eq_left (by omega)]; simp

theorem Elem.minL_le : ∀ (l : List Int) (x : Int), x ∈ l → minL l ≤ x
  | [], _, h => by simp at h
  | [a], x, h => by simp at h; simp [minL, h]
  | a :: b :: as, x, h => by
    rw [Elem.minL_cons2]
    rcases List.mem_cons.mp h with h | h
    · subst h; exact Int.min_le_left _ _
    · have := Elem.minL_le (b :: as) x h
      have := Int.min_le_right a (minL (b :: as))
      omega

theorem Elem.le_maxL : ∀ (l : List Int) (x : Int), x ∈ l → x ≤ maxL l
  | [], _, h => by simp at h
  | [a], x, h => by simp at h; simp [maxL, h]
  | a :: b :: as, x, h => by
    rw [Elem.maxL_cons2]
    rcases List.mem_cons.mp h with h | h
    · subst h; exact Int.le_max_left _ _
    · have := Elem.le_maxL (b :: as) x h
      have := Int.le_max_right a (maxL (b :: as))
      omega

theorem Elem.minL_le_maxL (l : List Int) (h : l ≠ []) : minL l ≤ maxL l :=
  Elem.le_maxL l _ (Elem.minL_mem l h)

/-! ### relation -/

theorem Elem.tupleIn_iff : ∀ (t : List Int) (B : Box), tupleIn t B = true ↔ inBox t B
  | [], [] => by simp [tupleIn, inBox]
  | x :: xs, d :: ds => by simp [tupleIn, inBox, inDom, Elem.tupleIn_iff xs ds, and_assoc]
  | [], _ :: _ => by simp [tupleIn, inBox]
  | _ :: _, [] => by simp [tupleIn, inBox]

def Elem.relRows (ps : List Int) (B : Box) : List (List Int) :=
  (chunks B.length ps.length ps).filter (fun r => tupleIn r B)

def Elem.hull (n : Nat) (rows : List (List Int)) : Box :=
  (List.range n).map (fun k => (minL (column rows k), maxL (column rows k)))

theorem Elem.relation_nil (ps : List Int) (B : Box) (h : Elem.relRows ps B = []) :
    relation ps B = (.inc, B) := by
  unfold Elem.relRows at h
  simp only [relation, h]

theorem Elem.relation_cons (ps : List Int) (B : Box) (h : Elem.relRows ps B ≠ []) :
    relation ps B = (if (Elem.relRows ps B).length == 1 then .ent else .cons,
      Elem.hull B.length (Elem.relRows ps B)) := by
  unfold Elem.relRows at *
  simp only [relation, Elem.hull]

theorem Elem.hull_length (n : Nat) (rows : List (List Int)) : (Elem.hull n rows).length = n := by
  simp [Elem.hull]

theorem Elem.getDom_hull (n : Nat) (rows : List (List Int)) (k : Nat) (h : k < n) :
    getDom (Elem.hull n rows) k = (minL (column rows k), maxL (column rows k)) := by
  simp [getDom, Elem.hull, List.getD, h]

theorem Elem.mem_column (rows : List (List Int)) (r : List Int) (k : Nat) (h : r ∈ rows) :
    getI r k ∈ column rows k := List.mem_map.mpr ⟨r, h, rfl⟩

theorem Elem.column_ne_nil (rows : List (List Int)) (k : Nat) (h : rows ≠ []) : column rows k ≠ [] := by
  simpa [column] using h

theorem Elem.row_in_hull (n : Nat) (rows : List (List Int)) (r : List Int) (hr : r ∈ rows)
    (hl : r.length = n) : inBox r (Elem.hull n rows) := by
  apply Elem.inBox_of_get (by simp [Elem.hull_length, hl])
  intro k hk
  rw [Elem.hull_length] at hk
  rw [Elem.getDom_hull _ _ _ hk]
  exact ⟨Elem.minL_le _ _ (Elem.mem_column _ _ _ hr), Elem.le_maxL _ _ (Elem.mem_column _ _ _ hr)⟩

theorem Elem.mem_relRows {ps : List Int} {B : Box} {r : List Int} :
    r ∈ Elem.relRows ps B ↔ r ∈ chunks B.length ps.length ps ∧ inBox r B := by
  simp [Elem.relRows, List.mem_filter, Elem.tupleIn_iff]

theorem Elem.hull_nonempty (n : Nat) (rows : List (List Int)) (h : rows ≠ []) :
    (Elem.hull n rows).Nonempty := by
  intro d hd
  simp only [Elem.hull, List.mem_map] at hd
  obtain ⟨k, _, rfl⟩ := hd
  exact Elem.minL_le_maxL _ (Elem.column_ne_nil rows k h)

theorem Elem.hull_le (rows : List (List Int)) (B : Box) (h : rows ≠ [])
    (hin : ∀ r ∈ rows, inBox r B) : Box.le (Elem.hull B.length rows) B := by
  apply Elem.le_of_get (Elem.hull_length _ _)
  intro k hk
  rw [Elem.getDom_hull _ _ _ hk]
  have h1 := Elem.minL_mem _ (Elem.column_ne_nil rows k h)
  have h2 := Elem.maxL_mem _ (Elem.column_ne_nil rows k h)
  simp only [column, List.mem_map] at h1 h2
  obtain ⟨r1, hr1, e1⟩ := h1
  obtain ⟨r2, hr2, e2⟩ := h2
  have b1 := inBox_get k (hin r1 hr1) hk
  have b2 := inBox_get k (hin r2 hr2) hk
  simp only [column] at *
  constructor <;> omega

theorem runAlg_relation (ps : List Int) (B : Box) : runAlg .relation ps B = .ok (relation ps B) := rfl

theorem sound_relation : Sound .relation := by
  intro ps B st B' _ _ hrun
  rw [runAlg_relation] at hrun; injection hrun with hrun
  by_cases hr : Elem.relRows ps B = []
  · rw [Elem.relation_nil _ _ hr] at hrun
    injection hrun with h1 h2; subst h1; subst h2
    refine ⟨fun h => absurd rfl h, fun _ t ht hrel => ?_⟩
    simp only [rel, inBox_length ht] at hrel
    have : t ∈ Elem.relRows ps B := Elem.mem_relRows.mpr ⟨hrel, ht⟩
    rw [hr] at this; simp at this
  · rw [Elem.relation_cons _ _ hr] at hrun
    injection hrun with h1 h2
    subst h2
    refine ⟨fun _ => ⟨?_, Elem.hull_nonempty _ _ hr, ?_⟩, fun h => ?_⟩
    · exact Elem.hull_le _ _ hr (fun r hr => (Elem.mem_relRows.mp hr).2)
    · intro t ht hrel
      simp only [rel, inBox_length ht] at hrel
      exact Elem.row_in_hull _ _ _ (Elem.mem_relRows.mpr ⟨hrel, ht⟩) (inBox_length ht)
    · subst h; split at h1 <;> cases h1

theorem groundOk_relation : GroundOk .relation := by
  intro ps B st B' t _ _ hrun hst hB'
  rw [runAlg_relation] at hrun; injection hrun with hrun
  by_cases hr : Elem.relRows ps B = []
  · rw [Elem.relation_nil _ _ hr] at hrun; injection hrun with h1 _; exact absurd h1.symm hst
  · rw [Elem.relation_cons _ _ hr] at hrun
    injection hrun with _ h2
    obtain ⟨r, hrm⟩ := List.exists_mem_of_ne_nil _ hr
    obtain ⟨hch, hrB⟩ := Elem.mem_relRows.mp hrm
    have := Elem.row_in_hull B.length _ r hrm (inBox_length hrB)
    rw [h2, hB'] at this
    have e := eq_of_inBox_pointBox this
    subst e
    simp only [relW, rel, inBox_length hrB]
    exact hch

theorem entailOk_relation : EntailOk .relation := by
  intro ps B B' _ _ hrun t ht
  rw [runAlg_relation] at hrun; injection hrun with hrun
  by_cases hr : Elem.relRows ps B = []
  · rw [Elem.relation_nil _ _ hr] at hrun; injection hrun with h1 _; cases h1
  · rw [Elem.relation_cons _ _ hr] at hrun
    injection hrun with h1 h2
    subst h2
    split at h1
    · rename_i hlen
      match hrows : Elem.relRows ps B, hlen with
      | [r], _ =>
        have hrm : r ∈ Elem.relRows ps B := by rw [hrows]; simp
        obtain ⟨hch, hrB⟩ := Elem.mem_relRows.mp hrm
        rw [hrows] at ht
        have hl := inBox_length ht
        rw [Elem.hull_length] at hl
        have : t = r := by
          apply Elem.list_ext_getI (by rw [hl, inBox_length hrB])
          intro k hk
          have := inBox_get k ht (by rw [Elem.hull_length]; omega)
          rw [Elem.getDom_hull _ _ _ (by omega)] at this
          simp only [column, List.map_cons, List.map_nil, minL, maxL] at this
          omega
        subst this
        simp only [rel, hl]
        exact hch
    · cases h1

theorem contractMono_relation : ContractMono .relation := by
  intro ps B B' hc hle
  simp only [Contract] at *
  rw [Box.le_length hle]; exact hc

theorem safe_relation : Safe .relation := fun ps B _ _ => ⟨_, runAlg_relation ps B⟩

theorem trigOk_relation : TrigOk .relation :=
  Elem.trigOk_of_minMax _ sound_relation (fun _ _ _ => rfl)

theorem exact_relation : Exact .relation := by
  intro ps B st B' _ _ hrun hst
  rw [runAlg_relation] at hrun; injection hrun with hrun
  by_cases hr : Elem.relRows ps B = []
  · rw [Elem.relation_nil _ _ hr] at hrun; injection hrun with h1 _; exact absurd h1.symm hst
  · rw [Elem.relation_cons _ _ hr] at hrun
    injection hrun with _ h2
    have hin : ∀ r ∈ Elem.relRows ps B, inBox r B' ∧ rel .relation ps r := by
      intro r hrm
      obtain ⟨hch, hrB⟩ := Elem.mem_relRows.mp hrm
      refine ⟨h2 ▸ Elem.row_in_hull B.length _ r hrm (inBox_length hrB), ?_⟩
      simp only [rel, inBox_length hrB]; exact hch
    have hlen : B'.length = B.length := by rw [← h2, Elem.hull_length]
    constructor
    · intro k hk
      have hd : getDom B' k = (minL (column (Elem.relRows ps B) k), maxL (column (Elem.relRows ps B) k)) := by
        rw [← h2]; exact Elem.getDom_hull _ _ _ (by omega)
      have h1 := Elem.minL_mem _ (Elem.column_ne_nil (Elem.relRows ps B) k hr)
      have h2 := Elem.maxL_mem _ (Elem.column_ne_nil (Elem.relRows ps B) k hr)
      simp only [column, List.mem_map] at h1 h2
      obtain ⟨r1, hr1, e1⟩ := h1
      obtain ⟨r2, hr2, e2⟩ := h2
      rw [hd]
      exact ⟨⟨r1, (hin r1 hr1).1, (hin r1 hr1).2, e1⟩, ⟨r2, (hin r2 hr2).1, (hin r2 hr2).2, e2⟩⟩
    · have hrows : Elem.relRows ps B' = Elem.relRows ps B := by
        unfold Elem.relRows
        rw [hlen]
        apply List.filter_congr
        intro r hrc
        have hle : Box.le B' B := h2 ▸ Elem.hull_le _ _ hr (fun r hr => (Elem.mem_relRows.mp hr).2)
        rw [Bool.eq_iff_iff, Elem.tupleIn_iff, Elem.tupleIn_iff]
        exact ⟨fun h => inBox_of_le h hle, fun h => (hin r (Elem.mem_relRows.mpr ⟨hrc, h⟩)).1⟩
      refine ⟨if (Elem.relRows ps B).length == 1 then .ent else .cons, ?_, by split <;> simp⟩
      rw [runAlg_relation, Elem.relation_cons _ _ (by rw [hrows]; exact hr), hrows, hlen, h2]

/-! ### candidate indices: sorted lists of naturals -/

theorem Elem.mem_idxRange (i : Dom) (len k : Nat) :
    k ∈ idxRange i len ↔ i.1 ≤ (k : Int) ∧ (k : Int) ≤ i.2 ∧ k < len := by
  simp only [idxRange, List.mem_map, List.mem_range]
  constructor
  · rintro ⟨a, ha, rfl⟩; omega
  · intro h; exact ⟨k - (max i.1 0).toNat, by omega, by omega⟩

theorem Elem.idxRange_sorted (i : Dom) (len : Nat) : (idxRange i len).Pairwise (· < ·) := by
  simp only [idxRange]
  rw [List.pairwise_map]
  exact List.Pairwise.imp (fun h => by omega) List.pairwise_lt_range

theorem Elem.getLastD_mem : ∀ (l : List Nat) (d : Nat), l ≠ [] → l.getLastD d ∈ l
  | [], _, h => absurd rfl h
  | [a], d, _ => by simp
  | a :: b :: as, d, _ => by
    rw [List.getLastD_cons]; exact List.mem_cons_of_mem _ (Elem.getLastD_mem (b :: as) a (by simp))

theorem Elem.le_getLastD : ∀ (l : List Nat) (d : Nat), l.Pairwise (· < ·) → ∀ k ∈ l, k ≤ l.getLastD d
  | [], _, _, k, h => by simp at h
  | [a], d, _, k, h => by simp at h; simp [h]
  | a :: b :: as, d, hp, k, h => by
    rw [List.getLastD_cons]
    have hp' := List.pairwise_cons.mp hp
    have ih := Elem.le_getLastD (b :: as) a hp'.2
    rcases List.mem_cons.mp h with h | h
    · subst h; have := hp'.1 _ (Elem.getLastD_mem (b :: as) k (by simp)); omega
    · exact ih k h

/-- the facts used about `S = s0 :: r` (strictly increasing) and `sl = S.getLastD s0` -/
theorem Elem.sorted_facts (s0 : Nat) (r : List Nat) (hp : (s0 :: r).Pairwise (· < ·)) :
    (s0 :: r).getLastD s0 ∈ s0 :: r ∧
    (∀ k ∈ s0 :: r, s0 ≤ k ∧ k ≤ (s0 :: r).getLastD s0) ∧
    (s0 = (s0 :: r).getLastD s0 → r = []) := by
  refine ⟨Elem.getLastD_mem _ _ (by simp), fun k hk => ⟨?_, Elem.le_getLastD _ _ hp k hk⟩, ?_⟩
  · rcases List.mem_cons.mp hk with h | h
    · omega
    · exact Nat.le_of_lt ((List.pairwise_cons.mp hp).1 k h)
  · intro h
    cases r with
    | nil => rfl
    | cons b as =>
      rw [List.getLastD_cons] at h
      have := (List.pairwise_cons.mp hp).1 _ (Elem.getLastD_mem (b :: as) s0 (by simp))
      omega

/-- strictly increasing lists with the same members are equal -/
theorem Elem.sorted_ext : ∀ (l1 l2 : List Nat), l1.Pairwise (· < ·) → l2.Pairwise (· < ·) →
    (∀ k, k ∈ l1 ↔ k ∈ l2) → l1 = l2
  | [], [], _, _, _ => rfl
  | [], b :: _, _, _, h => by have := (h b).mpr (by simp); simp at this
  | a :: _, [], _, _, h => by have := (h a).mp (by simp); simp at this
  | a :: as, b :: bs, h1, h2, h => by
    have p1 := List.pairwise_cons.mp h1
    have p2 := List.pairwise_cons.mp h2
    have hab : a = b := by
      have ha := (h a).mp (by simp)
      have hb := (h b).mpr (by simp)
      rcases List.mem_cons.mp ha with ha | ha
      · exact ha
      · rcases List.mem_cons.mp hb with hb | hb
        · exact hb.symm
        · have := p1.1 b hb; have := p2.1 a ha; omega
    subst hab
    congr 1
    apply Elem.sorted_ext as bs p1.2 p2.2
    intro k
    constructor
    · intro hk
      have := (h k).mp (List.mem_cons_of_mem _ hk)
      rcases List.mem_cons.mp this with e | e
      · have := p1.1 k hk; omega
      · exact e
    · intro hk
      have := (h k).mpr (List.mem_cons_of_mem _ hk)
      rcases List.mem_cons.mp this with e | e
      · have := p2.1 k hk; omega
      · exact e

/-! ### element_iv -/

def Elem.ivS (l : List Int) (i v : Dom) : List Nat :=
  (idxRange i l.length).filter (fun k => decide (v.1 ≤ getI l k) && decide (getI l k ≤ v.2))

theorem Elem.mem_ivS (l : List Int) (i v : Dom) (k : Nat) :
    k ∈ Elem.ivS l i v ↔
      (i.1 ≤ (k : Int) ∧ (k : Int) ≤ i.2 ∧ k < l.length) ∧ v.1 ≤ getI l k ∧ getI l k ≤ v.2 := by
  simp [Elem.ivS, List.mem_filter, Elem.mem_idxRange]

theorem Elem.ivS_sorted (l : List Int) (i v : Dom) : (Elem.ivS l i v).Pairwise (· < ·) :=
  List.Pairwise.filter _ (Elem.idxRange_sorted _ _)

theorem Elem.elementIv_nil (l : List Int) (i v : Dom) (h : Elem.ivS l i v = []) :
    elementIv l [i, v] = (.inc, [i, v]) := by
  unfold Elem.ivS at h
  have h0 : getDom [i, v] 0 = i := rfl
  have h1 : getDom [i, v] 1 = v := rfl
  simp only [elementIv, h0, h1, h]

theorem Elem.elementIv_cons (l : List Int) (i v : Dom) (s0 : Nat) (r : List Nat)
    (h : Elem.ivS l i v = s0 :: r) :
    elementIv l [i, v] =
      ((if s0 == (s0 :: r).getLastD s0 then Status.ent else Status.cons),
       [(((s0 : Nat) : Int), (((s0 :: r).getLastD s0 : Nat) : Int)),
        (max v.1 (minL ((s0 :: r).map (getI l))), min v.2 (maxL ((s0 :: r).map (getI l))))]) := by
  unfold Elem.ivS at h
  have h0 : getDom [i, v] 0 = i := rfl
  have h1 : getDom [i, v] 1 = v := rfl
  simp only [elementIv, h0, h1, h]

theorem runAlg_elementIv (ps : List Int) (B : Box) : runAlg .elementIv ps B = .ok (elementIv ps B) := rfl

/-- everything needed about the supported indices `S = s0 :: r` of element_iv -/
theorem Elem.iv_facts (l : List Int) (i v : Dom) (s0 : Nat) (r : List Nat)
    (h : Elem.ivS l i v = s0 :: r) :
    (∀ k ∈ s0 :: r, ((i.1 ≤ (k : Int) ∧ (k : Int) ≤ i.2 ∧ k < l.length) ∧ v.1 ≤ getI l k ∧ getI l k ≤ v.2) ∧
      (s0 ≤ k ∧ k ≤ (s0 :: r).getLastD s0) ∧
      minL ((s0 :: r).map (getI l)) ≤ getI l k ∧ getI l k ≤ maxL ((s0 :: r).map (getI l))) ∧
    (s0 ∈ s0 :: r ∧ (s0 :: r).getLastD s0 ∈ s0 :: r) ∧
    ((∃ k ∈ s0 :: r, getI l k = minL ((s0 :: r).map (getI l))) ∧
     (∃ k ∈ s0 :: r, getI l k = maxL ((s0 :: r).map (getI l)))) ∧
    (s0 = (s0 :: r).getLastD s0 → r = []) := by
  have hp := Elem.ivS_sorted l i v
  rw [h] at hp
  obtain ⟨f1, f2, f3⟩ := Elem.sorted_facts s0 r hp
  refine ⟨fun k hk => ⟨?_, f2 k hk, ?_, ?_⟩, ⟨by simp, f1⟩, ⟨?_, ?_⟩, f3⟩
  · rw [← h] at hk; exact (Elem.mem_ivS l i v k).mp hk
  · exact Elem.minL_le _ _ (List.mem_map.mpr ⟨k, hk, rfl⟩)
  · exact Elem.le_maxL _ _ (List.mem_map.mpr ⟨k, hk, rfl⟩)
  · have := Elem.minL_mem ((s0 :: r).map (getI l)) (by simp)
    exact List.mem_map.mp this
  · have := Elem.maxL_mem ((s0 :: r).map (getI l)) (by simp)
    exact List.mem_map.mp this

theorem Elem.getI_of_getElem? {l : List Int} {k : Nat} {b : Int} (h : l[k]? = some b) :
    k < l.length ∧ getI l k = b := by
  obtain ⟨hk, e⟩ := List.getElem?_eq_some_iff.mp h
  exact ⟨hk, by rw [Elem.getI_eq l k hk]; exact e⟩

theorem Elem.getElem?_of_getI {l : List Int} {k : Nat} (hk : k < l.length) :
    l[k]? = some (getI l k) := by
  rw [Elem.getI_eq l k hk]; exact List.getElem?_eq_getElem hk

/-- a solution of element_iv inside `[i, v]` has its index among the supported ones -/
theorem Elem.iv_sol_mem (l : List Int) (i v : Dom) (t : List Int) (ht : inBox t [i, v])
    (hrel : rel .elementIv l t) :
    ∃ a b : Int, t = [a, b] ∧ 0 ≤ a ∧ a.toNat ∈ Elem.ivS l i v ∧ getI l a.toNat = b := by
  match t, ht with
  | [a, b], ht =>
    simp only [inBox, inDom] at ht
    simp only [rel] at hrel
    have e0 : getI [a, b] 0 = a := rfl
    have e1 : getI [a, b] 1 = b := rfl
    rw [e0, e1] at hrel
    obtain ⟨h0, hget⟩ := hrel
    obtain ⟨hk, e⟩ := Elem.getI_of_getElem? hget
    refine ⟨a, b, rfl, h0, (Elem.mem_ivS l i v _).mpr ⟨⟨by omega, by omega, hk⟩, by omega, by omega⟩, e⟩

theorem sound_elementIv : Sound .elementIv := by
  intro ps B st B' hc hne hrun
  rw [runAlg_elementIv] at hrun; injection hrun with hrun
  simp only [Contract] at hc
  obtain ⟨hl, _⟩ := hc
  match B, hl, hne, hrun with
  | [i, v], _, hne, hrun =>
    cases hS : Elem.ivS ps i v with
    | nil =>
      rw [Elem.elementIv_nil _ _ _ hS] at hrun
      injection hrun with h1 h2; subst h1; subst h2
      refine ⟨fun h => absurd rfl h, fun _ t ht hrel => ?_⟩
      obtain ⟨a, b, _, _, hm, _⟩ := Elem.iv_sol_mem ps i v t ht hrel
      rw [hS] at hm; simp at hm
    | cons s0 r =>
      rw [Elem.elementIv_cons _ _ _ _ _ hS] at hrun
      injection hrun with h1 h2
      obtain ⟨F1, ⟨F2a, F2b⟩, ⟨⟨k1, hk1, e1⟩, ⟨k2, hk2, e2⟩⟩, _⟩ := Elem.iv_facts ps i v s0 r hS
      have hv : v.1 ≤ v.2 := hne v (by simp)
      have A0 := F1 s0 F2a
      have Al := F1 _ F2b
      have A1 := F1 k1 hk1
      have A2 := F1 k2 hk2
      refine ⟨fun _ => ⟨?_, ?_, ?_⟩, fun h => ?_⟩
      · subst h2
        refine ⟨⟨?_, ?_⟩, ⟨?_, ?_⟩, trivial⟩ <;> simp only [] <;> omega
      · subst h2
        intro d hd
        simp only [List.mem_cons, List.not_mem_nil, or_false] at hd
        rcases hd with rfl | rfl <;> simp only [] <;> omega
      · intro t ht hrel
        obtain ⟨a, b, rfl, ha, hm, hb⟩ := Elem.iv_sol_mem ps i v t ht hrel
        rw [hS] at hm
        have At := F1 _ hm
        subst h2
        simp only [inBox, inDom, and_true]
        omega
      · subst h; split at h1 <;> cases h1

theorem entailOk_elementIv : EntailOk .elementIv := by
  intro ps B B' hc _ hrun t ht
  rw [runAlg_elementIv] at hrun; injection hrun with hrun
  simp only [Contract] at hc
  obtain ⟨hl, _⟩ := hc
  match B, hl, hrun with
  | [i, v], _, hrun =>
    cases hS : Elem.ivS ps i v with
    | nil =>
      rw [Elem.elementIv_nil _ _ _ hS] at hrun
      injection hrun with h1 _; cases h1
    | cons s0 r =>
      rw [Elem.elementIv_cons _ _ _ _ _ hS] at hrun
      injection hrun with h1 h2
      split at h1
      · rename_i heq
        have heq : s0 = (s0 :: r).getLastD s0 := by simpa using heq
        obtain ⟨F1, ⟨F2a, F2b⟩, ⟨⟨k1, hk1, e1⟩, ⟨k2, hk2, e2⟩⟩, _⟩ := Elem.iv_facts ps i v s0 r hS
        have A0 := F1 s0 F2a
        have A1 := F1 k1 hk1
        have A2 := F1 k2 hk2
        have : k1 = s0 := by omega
        subst this
        have : k2 = k1 := by omega
        subst this
        subst h2
        match t, ht with
        | [a, b], ht =>
          simp only [inBox, inDom, and_true] at ht
          simp only [rel]
          have e0 : getI [a, b] 0 = a := rfl
          have e1 : getI [a, b] 1 = b := rfl
          rw [e0, e1]
          have ha : a.toNat = k2 := by omega
          refine ⟨by omega, ?_⟩
          rw [ha, Elem.getElem?_of_getI A0.1.1.2.2]
          congr 1
          omega
      · cases h1

theorem groundOk_elementIv : GroundOk .elementIv := by
  intro ps B st B' t hc hne hrun hst hB'
  have hent : st = .ent := by
    rw [runAlg_elementIv] at hrun; injection hrun with hrun
    simp only [Contract] at hc
    obtain ⟨hl, _⟩ := hc
    match B, hl, hrun with
    | [i, v], _, hrun =>
      cases hS : Elem.ivS ps i v with
      | nil =>
        rw [Elem.elementIv_nil _ _ _ hS] at hrun
        injection hrun with h1 _; exact absurd h1.symm hst
      | cons s0 r =>
        rw [Elem.elementIv_cons _ _ _ _ _ hS] at hrun
        injection hrun with h1 h2
        rw [hB'] at h2
        have hlt : t.length = 2 := by
          have := congrArg List.length h2; simp [pointBox] at this; omega
        match t, hlt, h2 with
        | [a, b], _, h2 =>
          simp only [pointBox, List.map_cons, List.map_nil, List.cons.injEq, Prod.mk.injEq] at h2
          have : s0 = (s0 :: r).getLastD s0 := by omega
          rw [← h1, if_pos (by simpa using this)]
  subst hent
  subst hB'
  exact entailOk_elementIv ps B _ hc hne hrun t (inBox_pointBox_self t)

theorem contractMono_elementIv : ContractMono .elementIv := by
  intro ps B B' hc hle
  simp only [Contract] at *
  rw [Box.le_length hle]; exact hc

theorem safe_elementIv : Safe .elementIv := fun ps B _ _ => ⟨_, runAlg_elementIv ps B⟩

theorem trigOk_elementIv : TrigOk .elementIv :=
  Elem.trigOk_of_minMax _ sound_elementIv (fun _ _ _ => rfl)

/-! ### boxes / tuples of the shape `xs ++ [y]` -/

theorem Elem.dropLast_append_getLastD {α : Type} : ∀ (l : List α) (d : α), l ≠ [] →
    l.dropLast ++ [l.getLastD d] = l
  | [], _, h => absurd rfl h
  | [a], _, _ => rfl
  | a :: b :: as, d, _ => by
    have := Elem.dropLast_append_getLastD (b :: as) a (by simp)
    rw [List.getLastD_cons, List.dropLast_cons_cons, List.cons_append, this]

theorem Elem.box_snoc (B : Box) (h : B ≠ []) : ∃ l i, B = l ++ [i] :=
  ⟨B.front, B.back, (Elem.dropLast_append_getLastD B (0, 0) h).symm⟩

theorem Elem.front_snoc (l : Box) (i : Dom) : Box.front (l ++ [i]) = l := by
  simp [Box.front]

theorem Elem.back_snoc (l : Box) (i : Dom) : Box.back (l ++ [i]) = i := by
  simp [Box.back]

theorem Elem.tFront_snoc (xs : List Int) (y : Int) : tFront (xs ++ [y]) = xs := by
  simp [tFront]

theorem Elem.tBack_snoc (xs : List Int) (y : Int) : tBack (xs ++ [y]) = y := by
  simp [tBack]

theorem Elem.inBox_snoc : ∀ (xs : List Int) (y : Int) (l : Box) (i : Dom),
    inBox (xs ++ [y]) (l ++ [i]) ↔ inBox xs l ∧ inDom y i
  | [], y, [], i => by simp [inBox]
  | x :: xs, y, d :: l, i => by
    simp only [List.cons_append, inBox, Elem.inBox_snoc xs y l i, and_assoc]
  | [], y, d :: l, i => by
    cases l <;> simp [inBox]
  | x :: xs, y, [], i => by
    cases xs <;> simp [inBox]

theorem Elem.inBox_snoc_elim (t : List Int) (l : Box) (i : Dom) (h : inBox t (l ++ [i])) :
    ∃ xs y, t = xs ++ [y] ∧ inBox xs l ∧ inDom y i := by
  have hl := inBox_length h
  have hne : t ≠ [] := by intro e; subst e; simp at hl
  have e := (Elem.dropLast_append_getLastD t 0 hne).symm
  rw [e] at h
  exact ⟨_, _, e, (Elem.inBox_snoc _ _ _ _).mp h⟩

theorem Elem.le_snoc : ∀ (l' : Box) (i' : Dom) (l : Box) (i : Dom),
    Box.le (l' ++ [i']) (l ++ [i]) ↔ Box.le l' l ∧ (i.1 ≤ i'.1 ∧ i'.2 ≤ i.2)
  | [], y, [], i => by simp [Box.le]
  | x :: xs, y, d :: l, i => by
    simp only [List.cons_append, Box.le, Elem.le_snoc xs y l i, and_assoc]
  | [], y, d :: l, i => by
    cases l <;> simp [Box.le]
  | x :: xs, y, [], i => by
    cases xs <;> simp [Box.le]

theorem Elem.nonempty_snoc (l : Box) (i : Dom) : (l ++ [i]).Nonempty ↔ l.Nonempty ∧ i.1 ≤ i.2 := by
  simp only [Box.Nonempty, List.mem_append, List.mem_singleton]
  constructor
  · intro h; exact ⟨fun d hd => h d (Or.inl hd), h i (Or.inr rfl)⟩
  · rintro ⟨h1, h2⟩ d (hd | rfl)
    · exact h1 d hd
    · exact h2

theorem Elem.inBox_set_dom : ∀ (xs : List Int) (l : Box) (k : Nat) (d : Dom), inBox xs l →
    (k < l.length → inDom (getI xs k) d) → inBox xs (l.set k d)
  | [], [], _, _, _, _ => by simp [inBox]
  | x :: xs, e :: l, 0, d, h, hd => ⟨hd (by simp), h.2⟩
  | x :: xs, e :: l, k + 1, d, h, hd =>
    ⟨h.1, Elem.inBox_set_dom xs l k d h.2 (fun hk => hd (by simpa using hk))⟩
  | [], _ :: _, _, _, h, _ => by simp [inBox] at h
  | _ :: _, [], _, _, h, _ => by simp [inBox] at h

theorem Elem.le_set : ∀ (l : Box) (k : Nat) (d : Dom),
    (k < l.length → (getDom l k).1 ≤ d.1 ∧ d.2 ≤ (getDom l k).2) → Box.le (l.set k d) l
  | [], _, _, _ => by simp [Box.le]
  | e :: l, 0, d, hd => ⟨hd (by simp), Box.le_refl l⟩
  | e :: l, k + 1, d, hd =>
    ⟨⟨Int.le_refl _, Int.le_refl _⟩, Elem.le_set l k d (fun hk => hd (by simpa using hk))⟩

theorem Elem.nonempty_set (l : Box) (k : Nat) (d : Dom) (hl : l.Nonempty) (hd : d.1 ≤ d.2) :
    Box.Nonempty (l.set k d) := by
  intro e he
  rcases List.mem_or_eq_of_mem_set he with h | h
  · exact hl e h
  · subst h; exact hd

theorem Elem.getDom_set_self (l : Box) (k : Nat) (d : Dom) (h : k < l.length) :
    getDom (l.set k d) k = d := by
  simp [getDom, List.getD, h]

theorem Elem.getDom_set_ne (l : Box) (k j : Nat) (d : Dom) (h : k ≠ j) :
    getDom (l.set k d) j = getDom l j := by
  simp [getDom, List.getD, List.getElem?_set_ne h]

theorem Elem.mem_pointBox (t : List Int) (d : Dom) (h : d ∈ pointBox t) : d.1 = d.2 := by
  simp only [pointBox, List.mem_map] at h
  obtain ⟨x, _, rfl⟩ := h; rfl

/-! ### element_lic -/

def Elem.licS (c : Int) (l : Box) (i : Dom) : List Nat :=
  (idxRange i l.length).filter (fun k => decide ((getDom l k).1 ≤ c) && decide (c ≤ (getDom l k).2))

theorem Elem.mem_licS (c : Int) (l : Box) (i : Dom) (k : Nat) :
    k ∈ Elem.licS c l i ↔
      (i.1 ≤ (k : Int) ∧ (k : Int) ≤ i.2 ∧ k < l.length) ∧ (getDom l k).1 ≤ c ∧ c ≤ (getDom l k).2 := by
  simp [Elem.licS, List.mem_filter, Elem.mem_idxRange]

theorem Elem.licS_sorted (c : Int) (l : Box) (i : Dom) : (Elem.licS c l i).Pairwise (· < ·) :=
  List.Pairwise.filter _ (Elem.idxRange_sorted _ _)

theorem Elem.elementLic_nil (ps : List Int) (l : Box) (i : Dom) (h : Elem.licS (getI ps 0) l i = []) :
    elementLic ps (l ++ [i]) = (.inc, l ++ [i]) := by
  unfold Elem.licS at h
  simp only [elementLic, Elem.front_snoc, Elem.back_snoc, h]

theorem Elem.elementLic_cons (ps : List Int) (l : Box) (i : Dom) (s0 : Nat) (r : List Nat)
    (h : Elem.licS (getI ps 0) l i = s0 :: r) :
    elementLic ps (l ++ [i]) =
      if s0 == (s0 :: r).getLastD s0 then
        (Status.ent, l.set s0 (getI ps 0, getI ps 0) ++ [(((s0 : Nat) : Int), (((s0 :: r).getLastD s0 : Nat) : Int))])
      else (Status.cons, l ++ [(((s0 : Nat) : Int), (((s0 :: r).getLastD s0 : Nat) : Int))]) := by
  unfold Elem.licS at h
  simp only [elementLic, Elem.front_snoc, Elem.back_snoc, h]

theorem runAlg_elementLic (ps : List Int) (B : Box) : runAlg .elementLic ps B = .ok (elementLic ps B) := rfl

theorem Elem.rel_lic (ps xs : List Int) (y : Int) :
    rel .elementLic ps (xs ++ [y]) ↔ 0 ≤ y ∧ xs[y.toNat]? = some (getI ps 0) := by
  simp only [rel, Elem.tFront_snoc, Elem.tBack_snoc]

/-- facts about the supported indices `S = s0 :: r` of element_lic -/
theorem Elem.lic_facts (c : Int) (l : Box) (i : Dom) (s0 : Nat) (r : List Nat)
    (h : Elem.licS c l i = s0 :: r) :
    (∀ k ∈ s0 :: r, ((i.1 ≤ (k : Int) ∧ (k : Int) ≤ i.2 ∧ k < l.length) ∧
        (getDom l k).1 ≤ c ∧ c ≤ (getDom l k).2) ∧
      (s0 ≤ k ∧ k ≤ (s0 :: r).getLastD s0)) ∧
    (s0 ∈ s0 :: r ∧ (s0 :: r).getLastD s0 ∈ s0 :: r) ∧
    (s0 = (s0 :: r).getLastD s0 → r = []) := by
  have hp := Elem.licS_sorted c l i
  rw [h] at hp
  obtain ⟨f1, f2, f3⟩ := Elem.sorted_facts s0 r hp
  refine ⟨fun k hk => ⟨?_, f2 k hk⟩, ⟨by simp, f1⟩, f3⟩
  rw [← h] at hk; exact (Elem.mem_licS c l i k).mp hk

/-- a solution of element_lic inside `l ++ [i]` has its index among the supported ones -/
theorem Elem.lic_sol_mem (ps : List Int) (l : Box) (i : Dom) (xs : List Int) (y : Int)
    (hx : inBox xs l) (hy : inDom y i) (hrel : rel .elementLic ps (xs ++ [y])) :
    0 ≤ y ∧ y.toNat ∈ Elem.licS (getI ps 0) l i ∧ getI xs y.toNat = getI ps 0 := by
  obtain ⟨h0, hget⟩ := (Elem.rel_lic ps xs y).mp hrel
  obtain ⟨hk, e⟩ := Elem.getI_of_getElem? hget
  have hl := inBox_length hx
  have hb := inBox_get y.toNat hx (by omega)
  unfold inDom at hy
  refine ⟨h0, (Elem.mem_licS _ l i _).mpr ⟨⟨by omega, by omega, by omega⟩, by omega, by omega⟩, e⟩

theorem sound_elementLic : Sound .elementLic := by
  intro ps B st B' hc hne hrun
  rw [runAlg_elementLic] at hrun; injection hrun with hrun
  simp only [Contract] at hc
  obtain ⟨l, i, rfl⟩ := Elem.box_snoc B (by intro e; subst e; simp at hc)
  obtain ⟨hnl, hni⟩ := (Elem.nonempty_snoc l i).mp hne
  cases hS : Elem.licS (getI ps 0) l i with
  | nil =>
    rw [Elem.elementLic_nil _ _ _ hS] at hrun
    injection hrun with h1 h2; subst h1; subst h2
    refine ⟨fun h => absurd rfl h, fun _ t ht hrel => ?_⟩
    obtain ⟨xs, y, rfl, hx, hy⟩ := Elem.inBox_snoc_elim t l i ht
    obtain ⟨_, hm, _⟩ := Elem.lic_sol_mem ps l i xs y hx hy hrel
    rw [hS] at hm; simp at hm
  | cons s0 r =>
    rw [Elem.elementLic_cons _ _ _ _ _ hS] at hrun
    obtain ⟨F1, ⟨F2a, F2b⟩, _⟩ := Elem.lic_facts _ l i s0 r hS
    have A0 := F1 s0 F2a
    have Al := F1 _ F2b
    split at hrun
    · rename_i heq
      have heq : s0 = (s0 :: r).getLastD s0 := by simpa using heq
      injection hrun with h1 h2; subst h1; subst h2
      refine ⟨fun _ => ⟨?_, ?_, ?_⟩, fun h => by cases h⟩
      · rw [Elem.le_snoc]
        exact ⟨Elem.le_set _ _ _ (fun _ => ⟨A0.1.2.1, A0.1.2.2⟩), by simp only []; omega⟩
      · rw [Elem.nonempty_snoc]
        exact ⟨Elem.nonempty_set _ _ _ hnl (Int.le_refl _), by simp only []; omega⟩
      · intro t ht hrel
        obtain ⟨xs, y, rfl, hx, hy⟩ := Elem.inBox_snoc_elim t l i ht
        obtain ⟨h0, hm, e⟩ := Elem.lic_sol_mem ps l i xs y hx hy hrel
        rw [hS] at hm
        have At := F1 _ hm
        have : y.toNat = s0 := by omega
        rw [Elem.inBox_snoc]
        refine ⟨Elem.inBox_set_dom _ _ _ _ hx (fun _ => ?_), ?_⟩
        · rw [← this, e]; exact ⟨Int.le_refl _, Int.le_refl _⟩
        · unfold inDom; simp only []; omega
    · injection hrun with h1 h2; subst h1; subst h2
      refine ⟨fun _ => ⟨?_, ?_, ?_⟩, fun h => by cases h⟩
      · rw [Elem.le_snoc]
        exact ⟨Box.le_refl _, by simp only []; omega⟩
      · rw [Elem.nonempty_snoc]
        exact ⟨hnl, by simp only []; omega⟩
      · intro t ht hrel
        obtain ⟨xs, y, rfl, hx, hy⟩ := Elem.inBox_snoc_elim t l i ht
        obtain ⟨h0, hm, e⟩ := Elem.lic_sol_mem ps l i xs y hx hy hrel
        rw [hS] at hm
        have At := F1 _ hm
        rw [Elem.inBox_snoc]
        refine ⟨hx, ?_⟩
        unfold inDom; simp only []; omega

theorem entailOk_elementLic : EntailOk .elementLic := by
  intro ps B B' hc _ hrun t ht
  rw [runAlg_elementLic] at hrun; injection hrun with hrun
  simp only [Contract] at hc
  obtain ⟨l, i, rfl⟩ := Elem.box_snoc B (by intro e; subst e; simp at hc)
  cases hS : Elem.licS (getI ps 0) l i with
  | nil =>
    rw [Elem.elementLic_nil _ _ _ hS] at hrun
    injection hrun with h1 _; cases h1
  | cons s0 r =>
    rw [Elem.elementLic_cons _ _ _ _ _ hS] at hrun
    obtain ⟨F1, ⟨F2a, _⟩, _⟩ := Elem.lic_facts _ l i s0 r hS
    have A0 := F1 s0 F2a
    split at hrun
    · rename_i heq
      have heq : s0 = (s0 :: r).getLastD s0 := by simpa using heq
      injection hrun with _ h2; subst h2
      obtain ⟨xs, y, rfl, hx, hy⟩ := Elem.inBox_snoc_elim t _ _ ht
      rw [Elem.rel_lic]
      unfold inDom at hy
      simp only [] at hy
      have hy0 : y.toNat = s0 := by omega
      have hl := inBox_length hx
      rw [List.length_set] at hl
      have hb := inBox_get s0 hx (by rw [List.length_set]; omega)
      rw [Elem.getDom_set_self _ _ _ A0.1.1.2.2] at hb
      simp only [] at hb
      refine ⟨by omega, ?_⟩
      rw [hy0, Elem.getElem?_of_getI (by omega)]
      congr 1; omega
    · injection hrun with h1 _; cases h1

theorem groundOk_elementLic : GroundOk .elementLic := by
  intro ps B st B' t hc hne hrun hst hB'
  have hent : st = .ent := by
    rw [runAlg_elementLic] at hrun; injection hrun with hrun
    simp only [Contract] at hc
    obtain ⟨l, i, rfl⟩ := Elem.box_snoc B (by intro e; subst e; simp at hc)
    cases hS : Elem.licS (getI ps 0) l i with
    | nil =>
      rw [Elem.elementLic_nil _ _ _ hS] at hrun
      injection hrun with h1 _; exact absurd h1.symm hst
    | cons s0 r =>
      rw [Elem.elementLic_cons _ _ _ _ _ hS] at hrun
      split at hrun
      · injection hrun with h1 _; exact h1.symm
      · rename_i hneq
        injection hrun with _ h2
        have := Elem.mem_pointBox t _ (hB' ▸ h2 ▸ (by simp :
          ((((s0 : Nat) : Int), (((s0 :: r).getLastD s0 : Nat) : Int)) : Dom) ∈
            l ++ [(((s0 : Nat) : Int), (((s0 :: r).getLastD s0 : Nat) : Int))]))
        simp only [] at this
        have e : s0 = (s0 :: r).getLastD s0 := by omega
        exact absurd (by rw [← e]; simp) hneq
  subst hent
  subst hB'
  exact entailOk_elementLic ps B _ hc hne hrun t (inBox_pointBox_self t)

theorem contractMono_elementLic : ContractMono .elementLic := by
  intro ps B B' hc hle
  simp only [Contract] at *
  rw [Box.le_length hle]; exact hc

theorem safe_elementLic : Safe .elementLic := fun ps B _ _ => ⟨_, runAlg_elementLic ps B⟩

theorem trigOk_elementLic : TrigOk .elementLic :=
  Elem.trigOk_of_minMax _ sound_elementLic (fun _ _ _ => rfl)

/-! ### element_liv -/

def Elem.livS (l : Box) (i v : Dom) : List Nat :=
  (idxRange i l.length).filter
    (fun k => !(decide (v.2 < (getDom l k).1) || decide (v.1 > (getDom l k).2)))

/-- the new value domain -/
def Elem.livV (l : Box) (v : Dom) (S : List Nat) : Dom :=
  (max v.1 (minL (S.map (fun k => (getDom l k).1))), min v.2 (maxL (S.map (fun k => (getDom l k).2))))

theorem Elem.mem_livS (l : Box) (i v : Dom) (k : Nat) :
    k ∈ Elem.livS l i v ↔
      (i.1 ≤ (k : Int) ∧ (k : Int) ≤ i.2 ∧ k < l.length) ∧ (getDom l k).1 ≤ v.2 ∧ v.1 ≤ (getDom l k).2 := by
  simp [Elem.livS, List.mem_filter, Elem.mem_idxRange]

theorem Elem.livS_sorted (l : Box) (i v : Dom) : (Elem.livS l i v).Pairwise (· < ·) :=
  List.Pairwise.filter _ (Elem.idxRange_sorted _ _)

theorem Elem.front_snoc2 (l : Box) (i v : Dom) : Box.front (l ++ [i] ++ [v]) = l ++ [i] := by
  simp [Box.front]

theorem Elem.elementLiv_nil (ps : List Int) (l : Box) (i v : Dom) (h : Elem.livS l i v = []) :
    elementLiv ps (l ++ [i] ++ [v]) = (.inc, l ++ [i] ++ [v]) := by
  unfold Elem.livS at h
  simp only [elementLiv, Elem.front_snoc, Elem.back_snoc, h]

theorem Elem.elementLiv_cons (ps : List Int) (l : Box) (i v : Dom) (s0 : Nat) (r : List Nat)
    (h : Elem.livS l i v = s0 :: r) :
    elementLiv ps (l ++ [i] ++ [v]) =
      if s0 == (s0 :: r).getLastD s0 then
        ((if (Elem.livV l v (s0 :: r)).1 == (Elem.livV l v (s0 :: r)).2 then Status.ent else Status.cons),
         l.set s0 (Elem.livV l v (s0 :: r)) ++ [(((s0 : Nat) : Int), (((s0 :: r).getLastD s0 : Nat) : Int))]
           ++ [Elem.livV l v (s0 :: r)])
      else (Status.cons, l ++ [(((s0 : Nat) : Int), (((s0 :: r).getLastD s0 : Nat) : Int))]
           ++ [Elem.livV l v (s0 :: r)]) := by
  unfold Elem.livS at h
  simp only [elementLiv, Elem.front_snoc, Elem.back_snoc, h]
  simp only [Elem.livV, List.append_assoc, List.cons_append, List.nil_append]
  rfl

theorem runAlg_elementLiv (ps : List Int) (B : Box) : runAlg .elementLiv ps B = .ok (elementLiv ps B) := rfl

theorem Elem.rel_liv (ps xs : List Int) (y z : Int) :
    rel .elementLiv ps (xs ++ [y] ++ [z]) ↔ 0 ≤ y ∧ xs[y.toNat]? = some z := by
  simp only [rel, Elem.tFront_snoc, Elem.tBack_snoc]

theorem Elem.box_snoc2 (B : Box) (h : 3 ≤ B.length) : ∃ l i v, B = l ++ [i] ++ [v] ∧ 1 ≤ l.length := by
  obtain ⟨B1, v, rfl⟩ := Elem.box_snoc B (by intro e; subst e; simp at h)
  obtain ⟨l, i, rfl⟩ := Elem.box_snoc B1 (by intro e; subst e; simp at h)
  refine ⟨l, i, v, rfl, ?_⟩
  simp at h; omega

/-- facts about the supported indices `S = s0 :: r` of element_liv -/
theorem Elem.liv_facts (l : Box) (i v : Dom) (s0 : Nat) (r : List Nat)
    (h : Elem.livS l i v = s0 :: r) :
    (∀ k ∈ s0 :: r, ((i.1 ≤ (k : Int) ∧ (k : Int) ≤ i.2 ∧ k < l.length) ∧
        (getDom l k).1 ≤ v.2 ∧ v.1 ≤ (getDom l k).2) ∧
      (s0 ≤ k ∧ k ≤ (s0 :: r).getLastD s0) ∧
      minL ((s0 :: r).map (fun k => (getDom l k).1)) ≤ (getDom l k).1 ∧
      (getDom l k).2 ≤ maxL ((s0 :: r).map (fun k => (getDom l k).2))) ∧
    (s0 ∈ s0 :: r ∧ (s0 :: r).getLastD s0 ∈ s0 :: r) ∧
    ((∃ k ∈ s0 :: r, (getDom l k).1 = minL ((s0 :: r).map (fun k => (getDom l k).1))) ∧
     (∃ k ∈ s0 :: r, (getDom l k).2 = maxL ((s0 :: r).map (fun k => (getDom l k).2)))) ∧
    (s0 = (s0 :: r).getLastD s0 → r = []) := by
  have hp := Elem.livS_sorted l i v
  rw [h] at hp
  obtain ⟨f1, f2, f3⟩ := Elem.sorted_facts s0 r hp
  refine ⟨fun k hk => ⟨?_, f2 k hk, ?_, ?_⟩, ⟨by simp, f1⟩, ⟨?_, ?_⟩, f3⟩
  · rw [← h] at hk; exact (Elem.mem_livS l i v k).mp hk
  · exact Elem.minL_le _ _ (List.mem_map.mpr ⟨k, hk, rfl⟩)
  · exact Elem.le_maxL _ _ (List.mem_map.mpr ⟨k, hk, rfl⟩)
  · have := Elem.minL_mem ((s0 :: r).map (fun k => (getDom l k).1)) (by simp)
    exact List.mem_map.mp this
  · have := Elem.maxL_mem ((s0 :: r).map (fun k => (getDom l k).2)) (by simp)
    exact List.mem_map.mp this

/-- a solution of element_liv inside `l ++ [i] ++ [v]` has its index among the supported ones -/
theorem Elem.liv_sol_mem (ps : List Int) (l : Box) (i v : Dom) (xs : List Int) (y z : Int)
    (hx : inBox xs l) (hy : inDom y i) (hz : inDom z v) (hrel : rel .elementLiv ps (xs ++ [y] ++ [z])) :
    0 ≤ y ∧ y.toNat ∈ Elem.livS l i v ∧ getI xs y.toNat = z ∧
      (getDom l y.toNat).1 ≤ z ∧ z ≤ (getDom l y.toNat).2 := by
  obtain ⟨h0, hget⟩ := (Elem.rel_liv ps xs y z).mp hrel
  obtain ⟨hk, e⟩ := Elem.getI_of_getElem? hget
  have hl := inBox_length hx
  have hb := inBox_get y.toNat hx (by omega)
  unfold inDom at hy hz
  refine ⟨h0, (Elem.mem_livS l i v _).mpr ⟨⟨by omega, by omega, by omega⟩, by omega, by omega⟩, e,
    by omega, by omega⟩

theorem Elem.inBox_snoc2_elim (t : List Int) (l : Box) (i v : Dom) (h : inBox t (l ++ [i] ++ [v])) :
    ∃ xs y z, t = xs ++ [y] ++ [z] ∧ inBox xs l ∧ inDom y i ∧ inDom z v := by
  obtain ⟨t1, z, rfl, h1, hz⟩ := Elem.inBox_snoc_elim t _ _ h
  obtain ⟨xs, y, rfl, hx, hy⟩ := Elem.inBox_snoc_elim t1 _ _ h1
  exact ⟨xs, y, z, rfl, hx, hy, hz⟩

theorem sound_elementLiv : Sound .elementLiv := by
  intro ps B st B' hc hne hrun
  rw [runAlg_elementLiv] at hrun; injection hrun with hrun
  simp only [Contract] at hc
  obtain ⟨l, i, v, rfl, _⟩ := Elem.box_snoc2 B hc
  obtain ⟨hne1, hnv⟩ := (Elem.nonempty_snoc _ v).mp hne
  obtain ⟨hnl, hni⟩ := (Elem.nonempty_snoc l i).mp hne1
  cases hS : Elem.livS l i v with
  | nil =>
    rw [Elem.elementLiv_nil _ _ _ _ hS] at hrun
    injection hrun with h1 h2; subst h1; subst h2
    refine ⟨fun h => absurd rfl h, fun _ t ht hrel => ?_⟩
    obtain ⟨xs, y, z, rfl, hx, hy, hz⟩ := Elem.inBox_snoc2_elim t l i v ht
    obtain ⟨_, hm, _⟩ := Elem.liv_sol_mem ps l i v xs y z hx hy hz hrel
    rw [hS] at hm; simp at hm
  | cons s0 r =>
    rw [Elem.elementLiv_cons _ _ _ _ _ _ hS] at hrun
    obtain ⟨F1, ⟨F2a, F2b⟩, ⟨⟨k1, hk1, e1⟩, ⟨k2, hk2, e2⟩⟩, _⟩ := Elem.liv_facts l i v s0 r hS
    have A0 := F1 s0 F2a
    have Al := F1 _ F2b
    have A1 := F1 k1 hk1
    have A2 := F1 k2 hk2
    have N0 := Box.nonempty_get hnl s0 A0.1.1.2.2
    split at hrun
    · rename_i heq
      have heq : s0 = (s0 :: r).getLastD s0 := by simpa using heq
      injection hrun with h1 h2; subst h2
      have : k1 = s0 := by omega
      subst this
      have : k2 = k1 := by omega
      subst this
      refine ⟨fun _ => ⟨?_, ?_, ?_⟩, fun h => ?_⟩
      · rw [Elem.le_snoc, Elem.le_snoc]
        refine ⟨⟨Elem.le_set _ _ _ (fun _ => ?_), ?_⟩, ?_⟩ <;> simp only [Elem.livV] <;> omega
      · rw [Elem.nonempty_snoc, Elem.nonempty_snoc]
        refine ⟨⟨Elem.nonempty_set _ _ _ hnl ?_, ?_⟩, ?_⟩ <;> simp only [Elem.livV] <;> omega
      · intro t ht hrel
        obtain ⟨xs, y, z, rfl, hx, hy, hz⟩ := Elem.inBox_snoc2_elim t l i v ht
        obtain ⟨h0, hm, e, hz1, hz2⟩ := Elem.liv_sol_mem ps l i v xs y z hx hy hz hrel
        rw [hS] at hm
        have At := F1 _ hm
        have : y.toNat = k2 := by omega
        rw [this] at e hz1 hz2
        unfold inDom at hz
        rw [Elem.inBox_snoc, Elem.inBox_snoc]
        refine ⟨⟨Elem.inBox_set_dom _ _ _ _ hx (fun _ => ?_), ?_⟩, ?_⟩ <;>
          unfold inDom <;> simp only [Elem.livV] <;> omega
      · subst h; split at h1 <;> cases h1
    · injection hrun with h1 h2; subst h1; subst h2
      refine ⟨fun _ => ⟨?_, ?_, ?_⟩, fun h => by cases h⟩
      · rw [Elem.le_snoc, Elem.le_snoc]
        refine ⟨⟨Box.le_refl _, ?_⟩, ?_⟩ <;> simp only [Elem.livV] <;> omega
      · rw [Elem.nonempty_snoc, Elem.nonempty_snoc]
        refine ⟨⟨hnl, ?_⟩, ?_⟩ <;> simp only [Elem.livV] <;> omega
      · intro t ht hrel
        obtain ⟨xs, y, z, rfl, hx, hy, hz⟩ := Elem.inBox_snoc2_elim t l i v ht
        obtain ⟨h0, hm, e, hz1, hz2⟩ := Elem.liv_sol_mem ps l i v xs y z hx hy hz hrel
        rw [hS] at hm
        have At := F1 _ hm
        unfold inDom at hz
        rw [Elem.inBox_snoc, Elem.inBox_snoc]
        refine ⟨⟨hx, ?_⟩, ?_⟩ <;> unfold inDom <;> simp only [Elem.livV] <;> omega

theorem entailOk_elementLiv : EntailOk .elementLiv := by
  intro ps B B' hc _ hrun t ht
  rw [runAlg_elementLiv] at hrun; injection hrun with hrun
  simp only [Contract] at hc
  obtain ⟨l, i, v, rfl, _⟩ := Elem.box_snoc2 B hc
  cases hS : Elem.livS l i v with
  | nil =>
    rw [Elem.elementLiv_nil _ _ _ _ hS] at hrun
    injection hrun with h1 _; cases h1
  | cons s0 r =>
    rw [Elem.elementLiv_cons _ _ _ _ _ _ hS] at hrun
    obtain ⟨F1, ⟨F2a, _⟩, _, _⟩ := Elem.liv_facts l i v s0 r hS
    have A0 := F1 s0 F2a
    split at hrun
    · rename_i heq
      have heq : s0 = (s0 :: r).getLastD s0 := by simpa using heq
      injection hrun with h1 h2; subst h2
      split at h1
      · rename_i hv
        have hv : (Elem.livV l v (s0 :: r)).1 = (Elem.livV l v (s0 :: r)).2 := by simpa using hv
        obtain ⟨xs, y, z, rfl, hx, hy, hz⟩ := Elem.inBox_snoc2_elim t _ _ _ ht
        rw [Elem.rel_liv]
        unfold inDom at hy hz
        simp only [] at hy
        have hy0 : y.toNat = s0 := by omega
        have hl := inBox_length hx
        rw [List.length_set] at hl
        have hb := inBox_get s0 hx (by rw [List.length_set]; omega)
        rw [Elem.getDom_set_self _ _ _ A0.1.1.2.2] at hb
        refine ⟨by omega, ?_⟩
        rw [hy0, Elem.getElem?_of_getI (by omega)]
        congr 1; omega
      · cases h1
    · injection hrun with h1 _; cases h1

theorem groundOk_elementLiv : GroundOk .elementLiv := by
  intro ps B st B' t hc hne hrun hst hB'
  have hent : st = .ent := by
    rw [runAlg_elementLiv] at hrun; injection hrun with hrun
    simp only [Contract] at hc
    obtain ⟨l, i, v, rfl, _⟩ := Elem.box_snoc2 B hc
    cases hS : Elem.livS l i v with
    | nil =>
      rw [Elem.elementLiv_nil _ _ _ _ hS] at hrun
      injection hrun with h1 _; exact absurd h1.symm hst
    | cons s0 r =>
      rw [Elem.elementLiv_cons _ _ _ _ _ _ hS] at hrun
      split at hrun
      · injection hrun with h1 h2
        have := Elem.mem_pointBox t (Elem.livV l v (s0 :: r)) (hB' ▸ h2 ▸ (by simp))
        rw [← h1, if_pos (by simpa using this)]
      · rename_i hneq
        injection hrun with _ h2
        have := Elem.mem_pointBox t (((s0 : Nat) : Int), (((s0 :: r).getLastD s0 : Nat) : Int))
          (hB' ▸ h2 ▸ (by simp))
        simp only [] at this
        have e : s0 = (s0 :: r).getLastD s0 := by omega
        exact absurd (by rw [← e]; simp) hneq
  subst hent
  subst hB'
  exact entailOk_elementLiv ps B _ hc hne hrun t (inBox_pointBox_self t)

theorem contractMono_elementLiv : ContractMono .elementLiv := by
  intro ps B B' hc hle
  simp only [Contract] at *
  rw [Box.le_length hle]; exact hc

theorem safe_elementLiv : Safe .elementLiv := fun ps B _ _ => ⟨_, runAlg_elementLiv ps B⟩

theorem trigOk_elementLiv : TrigOk .elementLiv :=
  Elem.trigOk_of_minMax _ sound_elementLiv (fun _ _ _ => rfl)

/-! ### Priority 2: exactness -/

theorem exact_elementIv : Exact .elementIv := by
  intro ps B st B' hc hne hrun hst
  rw [runAlg_elementIv] at hrun; injection hrun with hrun
  simp only [Contract] at hc
  obtain ⟨hl, _⟩ := hc
  match B, hl, hne, hrun with
  | [i, v], _, hne, hrun =>
    cases hS : Elem.ivS ps i v with
    | nil =>
      rw [Elem.elementIv_nil _ _ _ hS] at hrun
      injection hrun with h1 _; exact absurd h1.symm hst
    | cons s0 r =>
      rw [Elem.elementIv_cons _ _ _ _ _ hS] at hrun
      injection hrun with h1 h2
      obtain ⟨F1, ⟨F2a, F2b⟩, ⟨⟨k1, hk1, e1⟩, ⟨k2, hk2, e2⟩⟩, _⟩ := Elem.iv_facts ps i v s0 r hS
      have hv : v.1 ≤ v.2 := hne v (by simp)
      have A0 := F1 s0 F2a
      have Al := F1 _ F2b
      have A1 := F1 k1 hk1
      have A2 := F1 k2 hk2
      generalize hmn : minL (List.map (getI ps) (s0 :: r)) = mn at *
      generalize hmx : maxL (List.map (getI ps) (s0 :: r)) = mx at *
      generalize hsl : (s0 :: r).getLastD s0 = sl at *
      subst h2
      -- every supported index gives a solution inside the result
      have hsol : ∀ k ∈ s0 :: r,
          inBox [((k : Nat) : Int), getI ps k] [(((s0 : Nat) : Int), ((sl : Nat) : Int)), (max v.1 mn, min v.2 mx)] ∧
          rel .elementIv ps [((k : Nat) : Int), getI ps k] := by
        intro k hk
        have Ak := F1 k hk
        refine ⟨?_, ?_⟩
        · simp only [inBox, inDom, and_true]; omega
        · simp only [rel]
          have e0 : getI [((k : Nat) : Int), getI ps k] 0 = (k : Int) := rfl
          have e1 : getI [((k : Nat) : Int), getI ps k] 1 = getI ps k := rfl
          rw [e0, e1, Int.toNat_natCast]
          exact ⟨by omega, Elem.getElem?_of_getI Ak.1.1.2.2⟩
      constructor
      · intro k hk
        match k, hk with
        | 0, _ =>
          exact ⟨⟨_, (hsol s0 F2a).1, (hsol s0 F2a).2, rfl⟩, ⟨_, (hsol sl F2b).1, (hsol sl F2b).2, rfl⟩⟩
        | 1, _ =>
          refine ⟨⟨_, (hsol k1 hk1).1, (hsol k1 hk1).2, ?_⟩, ⟨_, (hsol k2 hk2).1, (hsol k2 hk2).2, ?_⟩⟩
          · show getI ps k1 = max v.1 mn
            omega
          · show getI ps k2 = min v.2 mx
            omega
      · have hS' : Elem.ivS ps (((s0 : Nat) : Int), ((sl : Nat) : Int)) (max v.1 mn, min v.2 mx) = s0 :: r := by
          rw [← hS]
          apply Elem.sorted_ext _ _ (Elem.ivS_sorted _ _ _) (Elem.ivS_sorted _ _ _)
          intro k
          rw [Elem.mem_ivS, Elem.mem_ivS]
          constructor
          · intro h; simp only [] at h; omega
          · intro h
            have Ak := F1 k (hS ▸ (Elem.mem_ivS ps i v k).mpr h)
            simp only []; omega
        have e := Elem.elementIv_cons ps _ _ s0 r hS'
        rw [hmn, hmx, hsl] at e
        have ev : ((max (max v.1 mn) mn, min (min v.2 mx) mx) : Dom) = (max v.1 mn, min v.2 mx) := by
          apply Prod.ext <;> simp only [] <;> omega
        simp only [] at e
        rw [ev] at e
        exact ⟨_, by rw [runAlg_elementIv, e], by split <;> simp⟩

/-! witness tuples: all variables at the bound selected by `sel`, except position `j` -/

theorem Elem.getI_append_left (xs ys : List Int) (k : Nat) (h : k < xs.length) :
    getI (xs ++ ys) k = getI xs k := by
  simp [getI, List.getD, List.getElem?_append_left h]

theorem Elem.getI_snoc_last (xs : List Int) (y : Int) : getI (xs ++ [y]) xs.length = y := by
  simp [getI, List.getD]

theorem Elem.getDom_append_left (l l2 : Box) (k : Nat) (h : k < l.length) :
    getDom (l ++ l2) k = getDom l k := by
  simp [getDom, List.getD, List.getElem?_append_left h]

theorem Elem.getDom_snoc_last (l : Box) (d : Dom) : getDom (l ++ [d]) l.length = d := by
  simp [getDom, List.getD]

theorem Elem.getI_set_ne (xs : List Int) (j k : Nat) (x : Int) (h : j ≠ k) :
    getI (xs.set j x) k = getI xs k := by
  simp [getI, List.getD, List.getElem?_set_ne h]

theorem Elem.getI_set_self (xs : List Int) (j : Nat) (x : Int) (h : j < xs.length) :
    getI (xs.set j x) j = x := by
  simp [getI, List.getD, h]

theorem Elem.getI_map_sel (l : Box) (sel : Dom → Int) (k : Nat) (h : k < l.length) :
    getI (l.map sel) k = sel (getDom l k) := by
  simp [getI, getDom, List.getD, h]

theorem Elem.inBox_map_sel (sel : Dom → Int) (hsel : ∀ d : Dom, d.1 ≤ d.2 → inDom (sel d) d) :
    ∀ (l : Box), l.Nonempty → inBox (l.map sel) l
  | [], _ => trivial
  | d :: l, h =>
    ⟨hsel d (Box.nonempty_cons.mp h).1, Elem.inBox_map_sel sel hsel l (Box.nonempty_cons.mp h).2⟩

theorem Elem.inBox_set_val : ∀ (xs : List Int) (l : Box) (k : Nat) (x : Int), inBox xs l →
    (k < l.length → inDom x (getDom l k)) → inBox (xs.set k x) l
  | [], [], _, _, _, _ => by simp [inBox]
  | y :: xs, e :: l, 0, x, h, hd => ⟨hd (by simp), h.2⟩
  | y :: xs, e :: l, k + 1, x, h, hd =>
    ⟨h.1, Elem.inBox_set_val xs l k x h.2 (fun hk => hd (by simpa using hk))⟩
  | [], _ :: _, _, _, h, _ => by simp [inBox] at h
  | _ :: _, [], _, _, h, _ => by simp [inBox] at h

theorem Elem.sel_fst (d : Dom) (h : d.1 ≤ d.2) : inDom (Prod.fst d) d := ⟨Int.le_refl _, h⟩
theorem Elem.sel_snd (d : Dom) (h : d.1 ≤ d.2) : inDom (Prod.snd d) d := ⟨h, Int.le_refl _⟩

theorem Elem.witness (l : Box) (sel : Dom → Int) (hsel : ∀ d : Dom, d.1 ≤ d.2 → inDom (sel d) d)
    (hn : l.Nonempty) (j : Nat) (hj : j < l.length) (x : Int) (hx : inDom x (getDom l j)) :
    inBox ((l.map sel).set j x) l ∧ ((l.map sel).set j x)[j]? = some x ∧
    (∀ k, k < l.length → k ≠ j → getI ((l.map sel).set j x) k = sel (getDom l k)) ∧
    getI ((l.map sel).set j x) j = x := by
  refine ⟨Elem.inBox_set_val _ _ _ _ (Elem.inBox_map_sel sel hsel l hn) (fun _ => hx), ?_, ?_, ?_⟩
  · simp [hj]
  · intro k hk hne
    rw [Elem.getI_set_ne _ _ _ _ (Ne.symm hne), Elem.getI_map_sel _ _ _ hk]
  · exact Elem.getI_set_self _ _ _ (by simpa using hj)

theorem Elem.lic_witness (ps : List Int) (l : Box) (a b : Nat) (hn : l.Nonempty) (j : Nat)
    (hj : j < l.length) (hx : inDom (getI ps 0) (getDom l j)) (ha : a ≤ j) (hb : j ≤ b)
    (sel : Dom → Int) (hsel : ∀ d : Dom, d.1 ≤ d.2 → inDom (sel d) d) :
    ∃ t, inBox t (l ++ [((a : Int), (b : Int))]) ∧ rel .elementLic ps t ∧
      (∀ k, k < l.length → k ≠ j → getI t k = sel (getDom l k)) ∧
      getI t j = getI ps 0 ∧ getI t l.length = (j : Int) := by
  obtain ⟨w1, w2, w3, w4⟩ := Elem.witness l sel hsel hn j hj _ hx
  have hlen : ((l.map sel).set j (getI ps 0)).length = l.length := by simp
  refine ⟨(l.map sel).set j (getI ps 0) ++ [(j : Int)], ?_, ?_, ?_, ?_, ?_⟩
  · rw [Elem.inBox_snoc]; exact ⟨w1, by unfold inDom; simp only []; omega⟩
  · rw [Elem.rel_lic, Int.toNat_natCast]; exact ⟨by omega, w2⟩
  · intro k hk hne
    rw [Elem.getI_append_left _ _ _ (by omega)]; exact w3 k hk hne
  · rw [Elem.getI_append_left _ _ _ (by omega)]; exact w4
  · rw [← hlen]; exact Elem.getI_snoc_last _ _

theorem exact_elementLic : Exact .elementLic := by
  intro ps B st B' hc hne hrun hst
  rw [runAlg_elementLic] at hrun; injection hrun with hrun
  simp only [Contract] at hc
  obtain ⟨l, i, rfl⟩ := Elem.box_snoc B (by intro e; subst e; simp at hc)
  obtain ⟨hnl, hni⟩ := (Elem.nonempty_snoc l i).mp hne
  cases hS : Elem.licS (getI ps 0) l i with
  | nil =>
    rw [Elem.elementLic_nil _ _ _ hS] at hrun
    injection hrun with h1 _; exact absurd h1.symm hst
  | cons s0 r =>
    rw [Elem.elementLic_cons _ _ _ _ _ hS] at hrun
    obtain ⟨F1, ⟨F2a, F2b⟩, f3⟩ := Elem.lic_facts _ l i s0 r hS
    have A0 := F1 s0 F2a
    have Al := F1 _ F2b
    split at hrun
    · -- a single supported index: `l[s0]` is fixed to `c`
      rename_i heq
      have heq : s0 = (s0 :: r).getLastD s0 := by simpa using heq
      have hr := f3 heq
      subst hr
      injection hrun with _ h2; subst h2
      have hsl : [s0].getLastD s0 = s0 := rfl
      rw [hsl]
      have hn' : Box.Nonempty (l.set s0 (getI ps 0, getI ps 0)) :=
        Elem.nonempty_set _ _ _ hnl (Int.le_refl _)
      have hlen' : (l.set s0 (getI ps 0, getI ps 0)).length = l.length := by simp
      have hd0 := Elem.getDom_set_self l s0 (getI ps 0, getI ps 0) A0.1.1.2.2
      have hW := fun sel hsel => Elem.lic_witness ps (l.set s0 (getI ps 0, getI ps 0)) s0 s0 hn' s0
        (by omega) (by rw [hd0]; exact ⟨Int.le_refl _, Int.le_refl _⟩) (Nat.le_refl _) (Nat.le_refl _)
        sel hsel
      constructor
      · intro k hk
        obtain ⟨t1, a1, b1, c1, d1, e1⟩ := hW Prod.fst Elem.sel_fst
        obtain ⟨t2, a2, b2, c2, d2, e2⟩ := hW Prod.snd Elem.sel_snd
        refine ⟨⟨t1, a1, b1, ?_⟩, ⟨t2, a2, b2, ?_⟩⟩
        · by_cases hk' : k < l.length
          · rw [Elem.getDom_append_left _ _ _ (by omega)]
            by_cases hks : k = s0
            · subst hks; rw [d1, hd0]
            · exact c1 k (by omega) hks
          · have : k = (l.set s0 (getI ps 0, getI ps 0)).length := by simp at hk; omega
            rw [this, e1, Elem.getDom_snoc_last]
        · by_cases hk' : k < l.length
          · rw [Elem.getDom_append_left _ _ _ (by omega)]
            by_cases hks : k = s0
            · subst hks; rw [d2, hd0]
            · exact c2 k (by omega) hks
          · have : k = (l.set s0 (getI ps 0, getI ps 0)).length := by simp at hk; omega
            rw [this, e2, Elem.getDom_snoc_last]
      · have hS' : Elem.licS (getI ps 0) (l.set s0 (getI ps 0, getI ps 0))
            (((s0 : Nat) : Int), ((s0 : Nat) : Int)) = [s0] := by
          apply Elem.sorted_ext _ _ (Elem.licS_sorted _ _ _) (by simp)
          intro k
          rw [Elem.mem_licS]
          constructor
          · intro h; simp only [] at h; simp; omega
          · intro h
            have : k = s0 := by simpa using h
            subst this
            rw [hd0]; simp only [hlen']; omega
        have e := Elem.elementLic_cons ps _ _ s0 [] hS'
        rw [hsl, if_pos (by simp), List.set_set] at e
        exact ⟨_, by rw [runAlg_elementLic, e], by simp⟩
    · -- at least two supported indices: only the index is narrowed
      rename_i hneq
      have hneq : s0 ≠ (s0 :: r).getLastD s0 := by simpa using hneq
      injection hrun with _ h2; subst h2
      generalize hsl : (s0 :: r).getLastD s0 = sl at *
      have hW := fun j (hj : j ∈ s0 :: r) sel hsel =>
        Elem.lic_witness ps l s0 sl hnl j (F1 j hj).1.1.2.2 ⟨(F1 j hj).1.2.1, (F1 j hj).1.2.2⟩
          (F1 j hj).2.1 (F1 j hj).2.2 sel hsel
      constructor
      · intro k hk
        by_cases hk' : k < l.length
        · rw [Elem.getDom_append_left _ _ _ hk']
          -- a supported index different from `k`
          have hj : ∃ j ∈ s0 :: r, k ≠ j := by
            by_cases hks : k = s0
            · exact ⟨sl, F2b, by omega⟩
            · exact ⟨s0, F2a, hks⟩
          obtain ⟨j, hjm, hkj⟩ := hj
          obtain ⟨t1, a1, b1, c1, _, _⟩ := hW j hjm Prod.fst Elem.sel_fst
          obtain ⟨t2, a2, b2, c2, _, _⟩ := hW j hjm Prod.snd Elem.sel_snd
          exact ⟨⟨t1, a1, b1, c1 k hk' hkj⟩, ⟨t2, a2, b2, c2 k hk' hkj⟩⟩
        · have : k = l.length := by simp at hk; omega
          subst this
          rw [Elem.getDom_snoc_last]
          obtain ⟨t1, a1, b1, _, _, e1⟩ := hW s0 F2a Prod.fst Elem.sel_fst
          obtain ⟨t2, a2, b2, _, _, e2⟩ := hW sl F2b Prod.fst Elem.sel_fst
          exact ⟨⟨t1, a1, b1, e1⟩, ⟨t2, a2, b2, e2⟩⟩
      · have hS' : Elem.licS (getI ps 0) l (((s0 : Nat) : Int), ((sl : Nat) : Int)) = s0 :: r := by
          rw [← hS]
          apply Elem.sorted_ext _ _ (Elem.licS_sorted _ _ _) (Elem.licS_sorted _ _ _)
          intro k
          rw [Elem.mem_licS, Elem.mem_licS]
          constructor
          · intro h; simp only [] at h; omega
          · intro h
            have Ak := F1 k (hS ▸ (Elem.mem_licS _ l i k).mpr h)
            simp only []; omega
        have e := Elem.elementLic_cons ps _ _ s0 r hS'
        rw [hsl, if_neg (by simpa using hneq)] at e
        exact ⟨_, by rw [runAlg_elementLic, e], by simp⟩

theorem Elem.liv_witness (ps : List Int) (l : Box) (a b : Nat) (v' : Dom) (hn : l.Nonempty) (j : Nat)
    (hj : j < l.length) (x : Int) (hx : inDom x (getDom l j)) (hxv : inDom x v') (ha : a ≤ j) (hb : j ≤ b)
    (sel : Dom → Int) (hsel : ∀ d : Dom, d.1 ≤ d.2 → inDom (sel d) d) :
    ∃ t, inBox t (l ++ [((a : Int), (b : Int))] ++ [v']) ∧ rel .elementLiv ps t ∧
      (∀ k, k < l.length → k ≠ j → getI t k = sel (getDom l k)) ∧
      getI t j = x ∧ getI t l.length = (j : Int) ∧ getI t (l.length + 1) = x := by
  obtain ⟨w1, w2, w3, w4⟩ := Elem.witness l sel hsel hn j hj x hx
  have hlen : ((l.map sel).set j x).length = l.length := by simp
  have hlen2 : ((l.map sel).set j x ++ [(j : Int)]).length = l.length + 1 := by simp
  refine ⟨(l.map sel).set j x ++ [(j : Int)] ++ [x], ?_, ?_, ?_, ?_, ?_, ?_⟩
  · rw [Elem.inBox_snoc, Elem.inBox_snoc]; exact ⟨⟨w1, by unfold inDom; simp only []; omega⟩, hxv⟩
  · rw [Elem.rel_liv, Int.toNat_natCast]; exact ⟨by omega, w2⟩
  · intro k hk hne
    rw [Elem.getI_append_left _ _ _ (by omega), Elem.getI_append_left _ _ _ (by omega)]
    exact w3 k hk hne
  · rw [Elem.getI_append_left _ _ _ (by omega), Elem.getI_append_left _ _ _ (by omega)]; exact w4
  · rw [Elem.getI_append_left _ _ _ (by omega), ← hlen]; exact Elem.getI_snoc_last _ _
  · rw [← hlen2]; exact Elem.getI_snoc_last _ _

theorem Elem.getDom_snoc2 (l : Box) (d1 d2 : Dom) :
    (∀ k, k < l.length → getDom (l ++ [d1] ++ [d2]) k = getDom l k) ∧
    getDom (l ++ [d1] ++ [d2]) l.length = d1 ∧ getDom (l ++ [d1] ++ [d2]) (l.length + 1) = d2 := by
  refine ⟨fun k hk => ?_, ?_, ?_⟩
  · rw [Elem.getDom_append_left _ _ _ (by simp; omega), Elem.getDom_append_left _ _ _ hk]
  · rw [Elem.getDom_append_left _ _ _ (by simp), Elem.getDom_snoc_last]
  · have : (l ++ [d1]).length = l.length + 1 := by simp
    rw [← this, Elem.getDom_snoc_last]

theorem exact_elementLiv : Exact .elementLiv := by
  intro ps B st B' hc hne hrun hst
  have hs := (sound_elementLiv ps B st B' hc hne hrun).1 hst
  rw [runAlg_elementLiv] at hrun; injection hrun with hrun
  simp only [Contract] at hc
  obtain ⟨l, i, v, rfl, _⟩ := Elem.box_snoc2 B hc
  obtain ⟨hne1, hnv⟩ := (Elem.nonempty_snoc _ v).mp hne
  obtain ⟨hnl, hni⟩ := (Elem.nonempty_snoc l i).mp hne1
  cases hS : Elem.livS l i v with
  | nil =>
    rw [Elem.elementLiv_nil _ _ _ _ hS] at hrun
    injection hrun with h1 _; exact absurd h1.symm hst
  | cons s0 r =>
    rw [Elem.elementLiv_cons _ _ _ _ _ _ hS] at hrun
    obtain ⟨F1, ⟨F2a, F2b⟩, ⟨⟨k1, hk1, e1⟩, ⟨k2, hk2, e2⟩⟩, f3⟩ := Elem.liv_facts l i v s0 r hS
    have A0 := F1 s0 F2a
    have Al := F1 _ F2b
    split at hrun
    · -- a single supported index: `l[s0]` and `v` both become `l[s0] ∩ v`
      rename_i heq
      have heq : s0 = (s0 :: r).getLastD s0 := by simpa using heq
      have hr := f3 heq
      subst hr
      injection hrun with _ h2; subst h2
      have hsl : [s0].getLastD s0 = s0 := rfl
      rw [hsl] at hs ⊢
      generalize hV : Elem.livV l v [s0] = V at *
      obtain ⟨_, hne', _⟩ := hs
      obtain ⟨hne1', hnV⟩ := (Elem.nonempty_snoc _ V).mp hne'
      obtain ⟨hn', _⟩ := (Elem.nonempty_snoc _ _).mp hne1'
      have hlen' : (l.set s0 V).length = l.length := by simp
      have hd0 := Elem.getDom_set_self l s0 V A0.1.1.2.2
      obtain ⟨g1, g2, g3⟩ := Elem.getDom_snoc2 (l.set s0 V) (((s0 : Nat) : Int), ((s0 : Nat) : Int)) V
      have hW := fun x (hx : inDom x V) sel hsel => Elem.liv_witness ps (l.set s0 V) s0 s0 V hn' s0
        (by omega) x (by rw [hd0]; exact hx) hx (Nat.le_refl _) (Nat.le_refl _) sel hsel
      constructor
      · intro k hk
        obtain ⟨t1, a1, b1, c1, d1, e1, f1⟩ := hW V.1 ⟨Int.le_refl _, hnV⟩ Prod.fst Elem.sel_fst
        obtain ⟨t2, a2, b2, c2, d2, e2, f2⟩ := hW V.2 ⟨hnV, Int.le_refl _⟩ Prod.snd Elem.sel_snd
        refine ⟨⟨t1, a1, b1, ?_⟩, ⟨t2, a2, b2, ?_⟩⟩
        · by_cases hk' : k < l.length
          · rw [g1 k (by omega)]
            by_cases hks : k = s0
            · subst hks; rw [d1, hd0]
            · exact c1 k (by omega) hks
          · by_cases hkl : k = l.length
            · rw [hkl, ← hlen', e1, g2]
            · have : k = (l.set s0 V).length + 1 := by simp at hk; omega
              rw [this, f1, g3]
        · by_cases hk' : k < l.length
          · rw [g1 k (by omega)]
            by_cases hks : k = s0
            · subst hks; rw [d2, hd0]
            · exact c2 k (by omega) hks
          · by_cases hkl : k = l.length
            · rw [hkl, ← hlen', e2, g2]
            · have : k = (l.set s0 V).length + 1 := by simp at hk; omega
              rw [this, f2, g3]
      · have hS' : Elem.livS (l.set s0 V) (((s0 : Nat) : Int), ((s0 : Nat) : Int)) V = [s0] := by
          apply Elem.sorted_ext _ _ (Elem.livS_sorted _ _ _) (by simp)
          intro k
          rw [Elem.mem_livS]
          constructor
          · intro h; simp only [] at h; simp; omega
          · intro h
            have : k = s0 := by simpa using h
            subst this
            rw [hd0]; simp only [hlen']; omega
        have e := Elem.elementLiv_cons ps _ _ _ s0 [] hS'
        have hV' : Elem.livV (l.set s0 V) V [s0] = V := by
          simp only [Elem.livV, List.map_cons, List.map_nil, minL, maxL, hd0]
          apply Prod.ext <;> simp only [] <;> omega
        rw [hsl, if_pos (by simp), hV', List.set_set] at e
        exact ⟨_, by rw [runAlg_elementLiv, e], by split <;> simp⟩
    · -- at least two supported indices
      rename_i hneq
      have hneq : s0 ≠ (s0 :: r).getLastD s0 := by simpa using hneq
      injection hrun with _ h2; subst h2
      obtain ⟨_, hne', _⟩ := hs
      obtain ⟨_, hnV⟩ := (Elem.nonempty_snoc _ _).mp hne'
      simp only [Elem.livV] at hnV
      generalize hsl : (s0 :: r).getLastD s0 = sl at *
      generalize hmn : minL (List.map (fun k => (getDom l k).1) (s0 :: r)) = mn at *
      generalize hmx : maxL (List.map (fun k => (getDom l k).2) (s0 :: r)) = mx at *
      have hVe : Elem.livV l v (s0 :: r) = (max v.1 mn, min v.2 mx) := by
        simp only [Elem.livV, hmn, hmx]
      rw [hVe]
      obtain ⟨g1, g2, g3⟩ := Elem.getDom_snoc2 l (((s0 : Nat) : Int), ((sl : Nat) : Int)) (max v.1 mn, min v.2 mx)
      -- a witness through any supported index `j` with any common value `x`
      have hW := fun j (hj : j ∈ s0 :: r) x (hx : inDom x (getDom l j))
          (hxv : inDom x (max v.1 mn, min v.2 mx)) sel hsel =>
        Elem.liv_witness ps l s0 sl (max v.1 mn, min v.2 mx) hnl j (F1 j hj).1.1.2.2 x hx hxv
          (F1 j hj).2.1.1 (F1 j hj).2.1.2 sel hsel
      -- the common value `max l[j].min v.min` of a supported index
      have hX : ∀ j ∈ s0 :: r, inDom (max (getDom l j).1 v.1) (getDom l j) ∧
          inDom (max (getDom l j).1 v.1) (max v.1 mn, min v.2 mx) := by
        intro j hj
        have Aj := F1 j hj
        have Nj := Box.nonempty_get hnl j Aj.1.1.2.2
        unfold inDom; simp only []; omega
      constructor
      · intro k hk
        by_cases hk' : k < l.length
        · rw [g1 k hk']
          have hj : ∃ j ∈ s0 :: r, k ≠ j := by
            by_cases hks : k = s0
            · exact ⟨sl, F2b, by omega⟩
            · exact ⟨s0, F2a, hks⟩
          obtain ⟨j, hjm, hkj⟩ := hj
          obtain ⟨t1, a1, b1, c1, _⟩ := hW j hjm _ (hX j hjm).1 (hX j hjm).2 Prod.fst Elem.sel_fst
          obtain ⟨t2, a2, b2, c2, _⟩ := hW j hjm _ (hX j hjm).1 (hX j hjm).2 Prod.snd Elem.sel_snd
          exact ⟨⟨t1, a1, b1, c1 k hk' hkj⟩, ⟨t2, a2, b2, c2 k hk' hkj⟩⟩
        · by_cases hkl : k = l.length
          · subst hkl
            rw [g2]
            obtain ⟨t1, a1, b1, _, _, e1, _⟩ := hW s0 F2a _ (hX s0 F2a).1 (hX s0 F2a).2 Prod.fst Elem.sel_fst
            obtain ⟨t2, a2, b2, _, _, e2, _⟩ := hW sl F2b _ (hX sl F2b).1 (hX sl F2b).2 Prod.fst Elem.sel_fst
            exact ⟨⟨t1, a1, b1, e1⟩, ⟨t2, a2, b2, e2⟩⟩
          · have : k = l.length + 1 := by simp at hk; omega
            subst this
            rw [g3]
            have A1 := F1 k1 hk1
            have A2 := F1 k2 hk2
            have N1 := Box.nonempty_get hnl k1 A1.1.1.2.2
            have N2 := Box.nonempty_get hnl k2 A2.1.1.2.2
            obtain ⟨t1, a1, b1, _, _, _, f1⟩ := hW k1 hk1 (max v.1 mn)
              (by unfold inDom; omega) (by unfold inDom; simp only []; omega) Prod.fst Elem.sel_fst
            obtain ⟨t2, a2, b2, _, _, _, f2⟩ := hW k2 hk2 (min v.2 mx)
              (by unfold inDom; omega) (by unfold inDom; simp only []; omega) Prod.fst Elem.sel_fst
            exact ⟨⟨t1, a1, b1, f1⟩, ⟨t2, a2, b2, f2⟩⟩
      · have hS' : Elem.livS l (((s0 : Nat) : Int), ((sl : Nat) : Int)) (max v.1 mn, min v.2 mx) = s0 :: r := by
          rw [← hS]
          apply Elem.sorted_ext _ _ (Elem.livS_sorted _ _ _) (Elem.livS_sorted _ _ _)
          intro k
          rw [Elem.mem_livS, Elem.mem_livS]
          constructor
          · intro h; simp only [] at h; omega
          · intro h
            have Ak := F1 k (hS ▸ (Elem.mem_livS l i v k).mpr h)
            have Nk := Box.nonempty_get hnl k Ak.1.1.2.2
            simp only []; omega
        have e := Elem.elementLiv_cons ps _ _ _ s0 r hS'
        have hV' : Elem.livV l (max v.1 mn, min v.2 mx) (s0 :: r) = (max v.1 mn, min v.2 mx) := by
          simp only [Elem.livV, hmn, hmx]
          apply Prod.ext <;> simp only [] <;> omega
        rw [hsl, if_neg (by simpa using hneq), hV'] at e
        exact ⟨_, by rw [runAlg_elementLiv, e], by simp⟩

end Nucs
