import NucsProofs.Basic
/-!
  element_iv, element_lic, element_liv, relation.
-/
namespace Nucs

/-! ### generic helpers (prefixed `Elem.` to avoid clashes with other proof files) -/

/-- a propagator that watches MIN|MAX everywhere and is `Sound` satisfies `TrigOk` -/
theorem Elem.trigOk_of_minMax (a : Alg) (hs : Sound a)
    (hm : ∀ ps n k, maskAlg a ps n k = Ev.minMax) : TrigOk a := by
  intro ps B st B' B'' hc hne hrun hst hle _ hq
  have hS := (hs ps B st B' hc hne hrun).1 hst
  have hl1 := Box.le_length hle
  have hl2 := Box.le_length hS.1
  have hBB : B'' = B := by
    apply Box.ext_get (by omega)
    intro k hk
    have := hq k (by omega)
    rw [hm] at this
    exact eq_of_quiet_minMax this
  subst hBB
  have : B' = B'' := Box.le_antisymm hS.1 hle
  subst this
  exact ⟨st, hrun, hst⟩

theorem Elem.getI_eq (l : List Int) (k : Nat) (h : k < l.length) : getI l k = l[k] := by
  simp [getI, List.getD, List.getElem?_eq_getElem h]

theorem Elem.getDom_eq (l : Box) (k : Nat) (h : k < l.length) : getDom l k = l[k] := by
  simp [getDom, List.getD, List.getElem?_eq_getElem h]

theorem Elem.getI_mem (l : List Int) (k : Nat) (h : k < l.length) : getI l k ∈ l := by
  rw [Elem.getI_eq l k h]; exact List.getElem_mem h

theorem Elem.list_ext_getI {t r : List Int} (hl : t.length = r.length)
    (h : ∀ k, k < t.length → getI t k = getI r k) : t = r := by
  apply List.ext_getElem hl
  intro k h1 h2
  have := h k h1
  rwa [Elem.getI_eq t k h1, Elem.getI_eq r k h2] at this

theorem Elem.inBox_of_get : ∀ {t : List Int} {B : Box}, t.length = B.length →
    (∀ k, k < B.length → (getDom B k).1 ≤ getI t k ∧ getI t k ≤ (getDom B k).2) → inBox t B
  | [], [], _, _ => trivial
  | x :: xs, d :: ds, hl, h => by
    refine ⟨?_, Elem.inBox_of_get (t := xs) (B := ds) (by simpa using hl) ?_⟩
    · simpa [getDom, getI, inDom] using h 0 (by simp)
    · intro k hk
      simpa [getDom, getI] using h (k + 1) (by simpa using hk)
  | [], _ :: _, hl, _ => by simp at hl
  | _ :: _, [], hl, _ => by simp at hl

theorem Elem.le_of_get : ∀ {B' B : Box}, B'.length = B.length →
    (∀ k, k < B.length → (getDom B k).1 ≤ (getDom B' k).1 ∧ (getDom B' k).2 ≤ (getDom B k).2) →
    Box.le B' B
  | [], [], _, _ => trivial
  | x :: xs, d :: ds, hl, h => by
    refine ⟨?_, Elem.le_of_get (B' := xs) (B := ds) (by simpa using hl) ?_⟩
    · simpa [getDom] using h 0 (by simp)
    · intro k hk
      simpa [getDom] using h (k + 1) (by simpa using hk)
  | [], _ :: _, hl, _ => by simp at hl
  | _ :: _, [], hl, _ => by simp at hl

/-! ### minL / maxL -/

theorem Elem.minL_cons2 (a b : Int) (as : List Int) : minL (a :: b :: as) = min a (minL (b :: as)) := rfl
theorem Elem.maxL_cons2 (a b : Int) (as : List Int) : maxL (a :: b :: as) = max a (maxL (b :: as)) := rfl

theorem Elem.minL_mem : ∀ (l : List Int), l ≠ [] → minL l ∈ l
  | [], h => absurd rfl h
  | [a], _ => by simp [minL]
  | a :: b :: as, _ => by
    have := Elem.minL_mem (b :: as) (by simp)
    rw [Elem.minL_cons2]
    by_cases h : a ≤ minL (b :: as)
    · rw [Int.min_eq_left h]; simp
    · rw [Int.min_eq_right (by omega)]; exact List.mem_cons_of_mem _ this

theorem Elem.maxL_mem : ∀ (l : List Int), l ≠ [] → maxL l ∈ l
  | [], h => absurd rfl h
  | [a], _ => by simp [maxL]
  | a :: b :: as, _ => by
    have := Elem.maxL_mem (b :: as) (by simp)
    rw [Elem.maxL_cons2]
    by_cases h : a ≤ maxL (b :: as)
    · rw [Int.max_eq_right h]; exact List.mem_cons_of_mem _ this
    · rw [Int.max_eq_left (by omega)]; simp

theorem Elem.minL_le : ∀ (l : List Int) (x : Int), x ∈ l → minL l ≤ x
  | [], _, h => by simp at h
  | [a], x, h => by simp at h; simp [minL, h]
  | a :: b :: as, x, h => by
    rw [Elem.minL_cons2]
    rcases List.mem_cons.mp h with h | h
    · subst h; exact Int.min_le_left _ _
    · have := Elem.minL_le (b :: as) x h
      have := Int.min_le_right a (minL (b :: as))
      omega

theorem Elem.le_maxL : ∀ (l : List Int) (x : Int), x ∈ l → x ≤ maxL l
  | [], _, h => by simp at h
  | [a], x, h => by simp at h; simp [maxL, h]
  | a :: b :: as, x, h => by
    rw [Elem.maxL_cons2]
    rcases List.mem_cons.mp h with h | h
    · subst h; exact Int.le_max_left _ _
    · have := Elem.le_maxL (b :: as) x h
      have := Int.le_max_right a (maxL (b :: as))
      omega

theorem Elem.minL_le_maxL (l : List Int) (h : l ≠ []) : minL l ≤ maxL l :=
  Elem.le_maxL l _ (Elem.minL_mem l h)

/-! ### relation -/

theorem Elem.tupleIn_iff : ∀ (t : List Int) (B : Box), tupleIn t B = true ↔ inBox t B
  | [], [] => by simp [tupleIn, inBox]
  | x :: xs, d :: ds => by simp [tupleIn, inBox, inDom, Elem.tupleIn_iff xs ds, and_assoc]
  | [], _ :: _ => by simp [tupleIn, inBox]
  | _ :: _, [] => by simp [tupleIn, inBox]

def Elem.relRows (ps : List Int) (B : Box) : List (List Int) :=
  (chunks B.length ps.length ps).filter (fun r => tupleIn r B)

def Elem.hull (n : Nat) (rows : List (List Int)) : Box :=
  (List.range n).map (fun k => (minL (column rows k), maxL (column rows k)))

theorem Elem.relation_nil (ps : List Int) (B : Box) (h : Elem.relRows ps B = []) :
    relation ps B = (.inc, B) := by
  unfold Elem.relRows at h
  simp only [relation, h]

theorem Elem.relation_cons (ps : List Int) (B : Box) (h : Elem.relRows ps B ≠ []) :
    relation ps B = (if (Elem.relRows ps B).length == 1 then .ent else .cons,
      Elem.hull B.length (Elem.relRows ps B)) := by
  unfold Elem.relRows at *
  simp only [relation, Elem.hull]

theorem Elem.hull_length (n : Nat) (rows : List (List Int)) : (Elem.hull n rows).length = n := by
  simp [Elem.hull]

theorem Elem.getDom_hull (n : Nat) (rows : List (List Int)) (k : Nat) (h : k < n) :
    getDom (Elem.hull n rows) k = (minL (column rows k), maxL (column rows k)) := by
  simp [getDom, Elem.hull, List.getD, h]

theorem Elem.mem_column (rows : List (List Int)) (r : List Int) (k : Nat) (h : r ∈ rows) :
    getI r k ∈ column rows k := List.mem_map.mpr ⟨r, h, rfl⟩

theorem Elem.column_ne_nil (rows : List (List Int)) (k : Nat) (h : rows ≠ []) : column rows k ≠ [] := by
  simpa [column] using h

theorem Elem.row_in_hull (n : Nat) (rows : List (List Int)) (r : List Int) (hr : r ∈ rows)
    (hl : r.length = n) : inBox r (Elem.hull n rows) := by
  apply Elem.inBox_of_get (by simp [Elem.hull_length, hl])
  intro k hk
  rw [Elem.hull_length] at hk
  rw [Elem.getDom_hull _ _ _ hk]
  exact ⟨Elem.minL_le _ _ (Elem.mem_column _ _ _ hr), Elem.le_maxL _ _ (Elem.mem_column _ _ _ hr)⟩

theorem Elem.mem_relRows {ps : List Int} {B : Box} {r : List Int} :
    r ∈ Elem.relRows ps B ↔ r ∈ chunks B.length ps.length ps ∧ inBox r B := by
  simp [Elem.relRows, List.mem_filter, Elem.tupleIn_iff]

theorem Elem.hull_nonempty (n : Nat) (rows : List (List Int)) (h : rows ≠ []) :
    (Elem.hull n rows).Nonempty := by
  intro d hd
  simp only [Elem.hull, List.mem_map] at hd
  obtain ⟨k, _, rfl⟩ := hd
  exact Elem.minL_le_maxL _ (Elem.column_ne_nil rows k h)

theorem Elem.hull_le (rows : List (List Int)) (B : Box) (h : rows ≠ [])
    (hin : ∀ r ∈ rows, inBox r B) : Box.le (Elem.hull B.length rows) B := by
  apply Elem.le_of_get (Elem.hull_length _ _)
  intro k hk
  rw [Elem.getDom_hull _ _ _ hk]
  have h1 := Elem.minL_mem _ (Elem.column_ne_nil rows k h)
  have h2 := Elem.maxL_mem _ (Elem.column_ne_nil rows k h)
  simp only [column, List.mem_map] at h1 h2
  obtain ⟨r1, hr1, e1⟩ := h1
  obtain ⟨r2, hr2, e2⟩ := h2
  have b1 := inBox_get k (hin r1 hr1) hk
  have b2 := inBox_get k (hin r2 hr2) hk
  simp only [column] at *
  constructor <;> simp only [] <;> omega

theorem runAlg_relation (ps : List Int) (B : Box) : runAlg .relation ps B = .ok (relation ps B) := rfl

theorem sound_relation : Sound .relation := by
  intro ps B st B' _ _ hrun
  rw [runAlg_relation] at hrun; injection hrun with hrun
  by_cases hr : Elem.relRows ps B = []
  · rw [Elem.relation_nil _ _ hr] at hrun
    injection hrun with h1 h2; subst h1; subst h2
    refine ⟨fun h => absurd rfl h, fun _ t ht hrel => ?_⟩
    simp only [rel, inBox_length ht] at hrel
    have : t ∈ Elem.relRows ps B := Elem.mem_relRows.mpr ⟨hrel, ht⟩
    rw [hr] at this; simp at this
  · rw [Elem.relation_cons _ _ hr] at hrun
    injection hrun with h1 h2
    subst h2
    refine ⟨fun _ => ⟨?_, Elem.hull_nonempty _ _ hr, ?_⟩, fun h => ?_⟩
    · exact Elem.hull_le _ _ hr (fun r hr => (Elem.mem_relRows.mp hr).2)
    · intro t ht hrel
      simp only [rel, inBox_length ht] at hrel
      exact Elem.row_in_hull _ _ _ (Elem.mem_relRows.mpr ⟨hrel, ht⟩) (inBox_length ht)
    · subst h; split at h1 <;> cases h1

end Nucs
