import NucsProofs.Propagators.GccExactUpper
import NucsProofs.Propagators.GccExactCombine
import NucsProofs.Propagators.GccExactMix
import NucsProofs.Propagators.GccSoundPassVal
/-!
  Bound-consistency exactness of the ported gcc — the core arguments, detached from the monadic code.
  * `ubc_support_of_facts` : the new bound recorded by an upper-capacity pass (`GRFact`) has a support
    in the upper-capacity relaxation;
  * `core_nonstable` : for a variable that is NOT stable, a support in the lower-capacity relaxation
    combines with any solution into a support for gcc;
  * `core_mix` : a support in the upper-capacity relaxation and a support in the lower-capacity
    relaxation of the same variable-value pair combine into a support for gcc.
-/
namespace Nucs
namespace Gcc
open AllDiff (g g2 cinR mbd)

theorem ubc_support_of_facts {N : Int} {bd bnd rx ry : Int → Int} {all : List Int}
    (hctx : AllDiff.RankCtx N bd rx ry all) (hnodup : all.Nodup)
    (hallR : ∀ ja yb, 1 ≤ ja → ja < yb → yb ≤ N → cinR rx ry all ja yb ≤ bd yb - bd ja)
    (lo hi cum : Int → Int)
    (hbnd : ∀ i j, 0 ≤ i → i < j → j ≤ N → bnd i < bnd j)
    (hlo : ∀ u ∈ all, lo u = bnd (rx u)) (hhi : ∀ u ∈ all, hi u + 1 = bnd (ry u))
    (hbd : ∀ k, 0 ≤ k → k ≤ N → bd k = cum (bnd k))
    (hcum : ∀ v, bnd 0 ≤ v → v < bnd N → cum v < cum (v + 1))
    (mn : Int → Int) (hfact : ∀ p ∈ all, GRFact N bd bnd rx ry all p (mn p))
    (k : Int) (hk : k ∈ all) (hle : mn k ≤ hi k) :
    ∃ σ : Int → Int, (∀ x ∈ all, lo x ≤ σ x ∧ σ x ≤ hi x) ∧
      (∀ v, bnd 0 ≤ v → v < bnd N → occ σ all v ≤ cum (v + 1) - cum v) ∧ σ k = mn k := by
  classical
  have hex : ∀ p, ∃ w, p ∈ all → (mn p = bnd w ∧ AllDiff.RFact N bd rx ry all p (bd w) ∧
      rx p ≤ w ∧ w ≤ N) := by
    intro p
    by_cases hp : p ∈ all
    · obtain ⟨w, h1, h2, h3, h4, h5⟩ := hfact p hp
      exact ⟨w, fun _ => ⟨h1, ⟨w, rfl, h2, h3, h4, h5⟩, h2, h3⟩⟩
    · exact ⟨0, fun h => absurd h hp⟩
  have hsel := fun p => Classical.choose_spec (hex p)
  generalize hwdef : (fun p => Classical.choose (hex p)) = wsel at hsel
  have hsel' : ∀ p ∈ all, mn p = bnd (wsel p) ∧ AllDiff.RFact N bd rx ry all p (bd (wsel p)) ∧
      rx p ≤ wsel p ∧ wsel p ≤ N := by
    intro p hp
    have := hsel p hp
    rw [← hwdef]; exact this
  obtain ⟨e1, _, e3, e4⟩ := hsel' k hk
  have hr := hctx.rk k hk
  have hw2 : wsel k < ry k := by
    by_cases h : wsel k < ry k
    · exact h
    · exfalso
      have h1 : bnd (ry k) ≤ bnd (wsel k) := by
        by_cases he : ry k = wsel k
        · rw [he]; exact Int.le_refl _
        · exact Int.le_of_lt (hbnd (ry k) (wsel k) (by omega) (by omega) e4)
      have := hhi k hk
      omega
  obtain ⟨σ, s1, s2, s3⟩ := upper_support hctx hnodup hallR bnd lo hi cum hbnd hlo hhi hbd hcum
    (fun p => bd (wsel p)) (fun p hp => (hsel' p hp).2.1) k (wsel k) hk rfl e3 hw2
  exact ⟨σ, s1, s2, by rw [s3, e1]⟩

section core
variable {N n fv m : Int} {bounds : Array Int} {ranks domains : Arr2} {l u : PSum}
  {valuesL valuesU : Array Int} {lows ups : Int → Int} {all U : List Int} {bf : Int → Int}

theorem core_nonstable (hb : BC bounds N fv m) (hpl : PS l fv m)
    (hstepL : ∀ k, 2 ≤ k → k < m + 2 → g l.1 (k + 1) = g l.1 k + g valuesL (k - 2))
    (hstepU : ∀ k, 2 ≤ k → k < m + 2 → g u.1 (k + 1) = g u.1 k + g valuesU (k - 2))
    (hvL : ∀ j, 0 ≤ j → j < m → g valuesL j = lows j)
    (hvU : ∀ j, 0 ≤ j → j < m → g valuesU j = ups j)
    (hlu : ∀ j, 0 ≤ j → j < m → lows j ≤ ups j)
    (hperm : all.Perm (rangeUp 0 n)) (hrk : RanksOK N n bounds ranks domains)
    (hfin : LFin N (K l fv bounds) (fun v => (g2 ranks v).1) (fun v => (g2 ranks v).2) all U bf)
    {τ σ : Int → Int} (hτ : GSol n fv m domains lows ups τ)
    (hσd : ∀ v, 0 ≤ v → v < n → (g2 domains v).1 ≤ σ v ∧ σ v ≤ (g2 domains v).2)
    (hσl : ∀ j, 0 ≤ j → j < m → lows j ≤ occ σ (rangeUp 0 n) (fv + j))
    (k : Int) (hk0 : 0 ≤ k) (hk1 : k < n)
    (hns : ¬ StV bf (fun v => (g2 ranks v).1) (fun v => (g2 ranks v).2) k) :
    ∃ ρ : Int → Int, GSol n fv m domains lows ups ρ ∧ ρ k = σ k := by
  have hN := hb.hN
  have hmem : ∀ p ∈ all, 0 ≤ p ∧ p < n := by
    intro p hp
    have := hperm.mem_iff.1 hp
    rwa [mem_rangeUp] at this
  have hmem' : ∀ p, 0 ≤ p → p < n → p ∈ all :=
    fun p h0 h1 => hperm.mem_iff.2 (by rw [mem_rangeUp]; exact ⟨h0, h1⟩)
  have hxτ := lctx_of hb hpl hstepL hvL hperm hrk hτ
  have hσsol : GSol n fv m domains lows (fun _ => ((rangeUp 0 n).length : Int)) σ :=
    ⟨hσd, hσl, fun j _ _ => occ_le_length σ _ _⟩
  have hxσ := lctx_of hb hpl hstepL hvL hperm hrk hσsol
  have hb1 := hb.b1
  have hbnb := hb.bnb
  obtain ⟨ρ, r1, r2, r3, _⟩ := nonstable_combine hfin hxτ hxσ (capU := fun v => cap u fv v)
    (by
      intro v h1 h2
      have e : v = fv + (v - fv) := by omega
      have := hτ.up (v - fv) (by omega) (by omega)
      rw [← e] at this
      rw [occ_perm τ hperm]
      rw [e, cap_values hstepU (v - fv) (by omega) (by omega), hvU _ (by omega) (by omega), ← e]
      exact this)
    (by
      intro v h1 h2
      have e : v = fv + (v - fv) := by omega
      rw [cumOf_succ]
      rw [e, cap_values hstepL (v - fv) (by omega) (by omega), hvL _ (by omega) (by omega),
        cap_values hstepU (v - fv) (by omega) (by omega), hvU _ (by omega) (by omega)]
      exact hlu _ (by omega) (by omega))
  -- values outside `[bounds 1, bounds (N-1))` are taken by no variable
  have hout : ∀ (ζ : Int → Int), (∀ x ∈ all, (g2 domains x).1 ≤ ζ x ∧ ζ x ≤ (g2 domains x).2) →
      ∀ w, ¬ (g bounds 1 ≤ w ∧ w < g bounds (N - 1)) → occ ζ (rangeUp 0 n) w = 0 := by
    intro ζ hζ w hw
    apply occ_eq_zero
    intro p hp
    rw [mem_rangeUp] at hp
    have h1 := hζ p (hmem' p hp.1 hp.2)
    have h2 := hrk p hp.1 hp.2
    have h3 := hb.le' 1 (g2 ranks p).1 (by omega) (by omega) (by omega)
    have h4 := hb.le' (g2 ranks p).2 (N - 1) (by omega) (by omega) (by omega)
    omega
  refine ⟨ρ, ⟨fun v h0 h1 => r1 v (hmem' v h0 h1), ?_, ?_⟩, r3 k (hmem' k hk0 hk1) hns⟩
  · intro j h0 h1
    by_cases hin : g bounds 1 ≤ fv + j ∧ fv + j < g bounds (N - 1)
    · have := (r2 (fv + j) hin.1 hin.2).1
      rw [cumOf_succ, cap_values hstepL j h0 h1, hvL j h0 h1, occ_perm ρ hperm] at this
      exact this
    · have h2 := hτ.low j h0 h1
      rw [hout τ (fun x hx => hτ.dom x (hmem x hx).1 (hmem x hx).2) _ hin] at h2
      have := occ_nonneg ρ (rangeUp 0 n) (fv + j)
      omega
  · intro j h0 h1
    by_cases hin : g bounds 1 ≤ fv + j ∧ fv + j < g bounds (N - 1)
    · have := (r2 (fv + j) hin.1 hin.2).2
      rw [cap_values hstepU j h0 h1, hvU j h0 h1, occ_perm ρ hperm] at this
      exact this
    · rw [hout ρ r1 _ hin]
      have h2 := hτ.up j h0 h1
      have := occ_nonneg τ (rangeUp 0 n) (fv + j)
      omega

theorem core_mix
    (hdom : ∀ v, 0 ≤ v → v < n → fv ≤ (g2 domains v).1 ∧ (g2 domains v).1 ≤ (g2 domains v).2 ∧
      (g2 domains v).2 ≤ fv + m - 1)
    (hl0 : ∀ j, 0 ≤ j → j < m → 0 ≤ lows j) (hlu : ∀ j, 0 ≤ j → j < m → lows j ≤ ups j)
    (k val : Int) (hk0 : 0 ≤ k) (hk1 : k < n)
    (σU : Int → Int) (hU1 : ∀ v, 0 ≤ v → v < n → (g2 domains v).1 ≤ σU v ∧ σU v ≤ (g2 domains v).2)
    (hU2 : ∀ j, 0 ≤ j → j < m → occ σU (rangeUp 0 n) (fv + j) ≤ ups j) (hUk : σU k = val)
    (σL : Int → Int) (hL1 : ∀ v, 0 ≤ v → v < n → (g2 domains v).1 ≤ σL v ∧ σL v ≤ (g2 domains v).2)
    (hL2 : ∀ j, 0 ≤ j → j < m → lows j ≤ occ σL (rangeUp 0 n) (fv + j)) (hLk : σL k = val) :
    ∃ ρ : Int → Int, GSol n fv m domains lows ups ρ ∧ ρ k = val := by
  have hnd : (rangeUp 0 n).Nodup := by rw [rangeUp_eq]; exact AllDiff.nodup_rangeUp _ _
  have hmr : ∀ x, x ∈ rangeUp 0 n ↔ 0 ≤ x ∧ x < n := fun x => mem_rangeUp 0 n x
  obtain ⟨ρ, r1, r2, r3⟩ := gcc_support_mix (rangeUp 0 n) hnd (fun x => (g2 domains x).1)
    (fun x => (g2 domains x).2) (fun v => lows (v - fv)) (fun v => ups (v - fv)) fv (fv + m)
    (fun x hx => by have := hdom x ((hmr x).1 hx).1 ((hmr x).1 hx).2; omega)
    (fun v h1 h2 => ⟨hl0 _ (by omega) (by omega), hlu _ (by omega) (by omega)⟩)
    k val ((hmr k).2 ⟨hk0, hk1⟩)
    σU (fun x hx => hU1 x ((hmr x).1 hx).1 ((hmr x).1 hx).2)
    (fun v h1 h2 => by
      have := hU2 (v - fv) (by omega) (by omega)
      have e : fv + (v - fv) = v := by omega
      rw [e] at this; exact this) hUk
    σL (fun x hx => hL1 x ((hmr x).1 hx).1 ((hmr x).1 hx).2)
    (fun v h1 h2 => by
      have := hL2 (v - fv) (by omega) (by omega)
      have e : fv + (v - fv) = v := by omega
      rw [e] at this; exact this) hLk
  refine ⟨ρ, ⟨fun v h0 h1 => r1 v ((hmr v).2 ⟨h0, h1⟩), ?_, ?_⟩, r3⟩
  · intro j h0 h1
    have := (r2 (fv + j) (by omega) (by omega)).1
    have e : fv + j - fv = j := by omega
    simp only [e] at this; exact this
  · intro j h0 h1
    have := (r2 (fv + j) (by omega) (by omega)).2
    have e : fv + j - fv = j := by omega
    simp only [e] at this; exact this

end core

end Gcc
end Nucs
