import NucsModel.Propagators.Gcc
import NucsProofs.Propagators.PortAlldiffBounds
/-!
  Base tools for the proof that the ported gcc (`NucsModel/Propagators/Gcc.lean`) never errs.

  `Gcc.lean` repeats the helpers of `Alldifferent.lean` (`rd`, `wr`, `path_*`, `argsort` …) inside
  `namespace Nucs.Gcc`.  They are definitionally the same functions, so the specifications proved in
  `PortAlldiffBase` / `PortAlldiffBounds` are transferred here under the same names.  The total
  accessors `g`, `upd`, `g2`, `upd2` are the ones of `Nucs.AllDiff`.
-/
namespace Nucs
namespace Gcc

open AllDiff (g upd g2 upd2 ok_bind pure_eq_ok except_bind_ok forIn_list_except range_forIn_eq
  size_upd size_upd2 g_upd g_upd_same g_upd_ne)

/-! ### the helpers are the same functions -/

theorem rd_eq : @rd = @AllDiff.rd := rfl
theorem wr_eq : @wr = @AllDiff.wr := rfl
theorem rd2_eq : @rd2 = @AllDiff.rd2 := rfl
theorem wr2_eq : @wr2 = @AllDiff.wr2 := rfl
theorem fuel_eq : @fuel = @AllDiff.fuel := rfl
theorem path_set_eq : @path_set = @AllDiff.path_set := rfl
theorem path_min_eq : @path_min = @AllDiff.path_min := rfl
theorem path_max_eq : @path_max = @AllDiff.path_max := rfl
theorem rangeUp_eq : @rangeUp = @AllDiff.rangeUp := rfl
theorem rangeDown_eq : @rangeDown = @AllDiff.rangeDown := rfl

theorem insertIdx_eq (key : Int → Int) (i : Int) (l : List Int) :
    insertIdx key i l = AllDiff.insertIdx key i l := by
  induction l with
  | nil => rfl
  | cons j js ih => simp only [insertIdx, AllDiff.insertIdx, ih]

theorem argsort_eq (keys : Array Int) : argsort keys = AllDiff.argsort keys := by
  unfold argsort AllDiff.argsort
  rw [rangeUp_eq]
  congr 2
  funext acc i
  exact insertIdx_eq _ _ _

/-! ### Python ranges -/

theorem rangeUp_nil (a b : Int) (h : b ≤ a) : rangeUp a b = [] := AllDiff.rangeUp_nil a b h
theorem rangeUp_cons (a b : Int) (h : a < b) : rangeUp a b = a :: rangeUp (a + 1) b :=
  AllDiff.rangeUp_cons a b h
theorem rangeUp_eq_cons (i hi x : Int) (rest : List Int) (h : x :: rest = rangeUp i hi) :
    i < hi ∧ x = i ∧ rest = rangeUp (i + 1) hi := AllDiff.rangeUp_eq_cons i hi x rest h
theorem rangeDown_nil (a b : Int) (h : a ≤ b) : rangeDown a b = [] := AllDiff.rangeDown_nil a b h
theorem rangeDown_cons (a b : Int) (h : b < a) : rangeDown a b = a :: rangeDown (a - 1) b :=
  AllDiff.rangeDown_cons a b h
theorem rangeDown_eq_cons (i lo x : Int) (rest : List Int) (h : x :: rest = rangeDown i lo) :
    lo < i ∧ x = i ∧ rest = rangeDown (i - 1) lo := AllDiff.rangeDown_eq_cons i lo x rest h
theorem mem_rangeUp (a b x : Int) : x ∈ rangeUp a b ↔ a ≤ x ∧ x < b := AllDiff.mem_rangeUp a b x

/-! ### checked accessors -/

theorem rd_ok (a : Array Int) (i : Int) (h0 : 0 ≤ i) (h1 : i < a.size) : rd a i = .ok (g a i) :=
  AllDiff.rd_ok a i h0 h1

theorem wr_ok (a : Array Int) (i v : Int) (h0 : 0 ≤ i) (h1 : i < a.size) :
    wr a i v = .ok (upd a i v) := AllDiff.wr_ok a i v h0 h1

theorem rd2_min_ok (a : Arr2) (i : Int) (h0 : 0 ≤ i) (h1 : i < a.size) :
    rd2 a i MIN = .ok (g2 a i).1 := AllDiff.rd2_min_ok a i h0 h1

theorem rd2_max_ok (a : Arr2) (i : Int) (h0 : 0 ≤ i) (h1 : i < a.size) :
    rd2 a i MAX = .ok (g2 a i).2 := AllDiff.rd2_max_ok a i h0 h1

theorem wr2_ok (a : Arr2) (i k v : Int) (h0 : 0 ≤ i) (h1 : i < a.size) :
    wr2 a i k v = .ok (upd2 a i k v) := AllDiff.wr2_ok a i k v h0 h1

theorem g2_upd2 (a : Arr2) (i k v m : Int) (h0 : 0 ≤ i) (h1 : i < a.size) (hm : 0 ≤ m) :
    g2 (upd2 a i k v) m =
      if m = i then (if k == MIN then (v, (g2 a i).2) else ((g2 a i).1, v)) else g2 a m :=
  AllDiff.g2_upd2 a i k v m h0 h1 hm

theorem fuel_ge (a : Array Int) : (a.size : Int) < fuel a := AllDiff.fuel_ge a

/-! ### `path_max`, `path_min`, `path_set` -/

theorem path_max_spec (t : Array Int) (lo hi i : Int) (hlo : 0 ≤ lo) (hhi : hi < t.size)
    (hr : ∀ k, lo ≤ k → k ≤ hi → g t k ≤ hi)
    (hup : ∀ k, lo ≤ k → k ≤ hi → g t k > k → ∀ m, k < m → m < g t k → g t m > m)
    (hi1 : lo ≤ i) (hi2 : i ≤ hi) :
    ∃ r, path_max t i = .ok r ∧ i ≤ r ∧ r ≤ hi ∧ g t r ≤ r ∧ ∀ k, i ≤ k → k < r → g t k > k :=
  AllDiff.path_max_spec t lo hi i hlo hhi hr hup hi1 hi2

theorem path_min_spec (t : Array Int) (lo hi i : Int) (hlo : 0 ≤ lo) (hhi : hi < t.size)
    (hr : ∀ k, lo ≤ k → k ≤ hi → lo ≤ g t k)
    (hdn : ∀ k, lo ≤ k → k ≤ hi → g t k < k → ∀ m, g t k < m → m < k → g t m < m)
    (hi1 : lo ≤ i) (hi2 : i ≤ hi) :
    ∃ r, path_min t i = .ok r ∧ lo ≤ r ∧ r ≤ i ∧ r ≤ g t r ∧ ∀ k, r < k → k ≤ i → g t k < k :=
  AllDiff.path_min_spec t lo hi i hlo hhi hr hdn hi1 hi2

theorem path_set_up_compress (a : Array Int) (s r v : Int) (hs : 0 ≤ s) (hsr : s ≤ r)
    (hr : r < a.size) (hup : ∀ p, s ≤ p → p < r → p < g a p ∧ g a p ≤ r) :
    ∃ a', path_set a s r v = .ok a' ∧ a'.size = a.size ∧
      ∀ k, 0 ≤ k → (g a' k = g a k ∨ (s ≤ k ∧ k < r ∧ g a' k = v)) :=
  AllDiff.path_set_up_compress a s r v hs hsr hr hup

theorem path_set_down_mark (a : Array Int) (s e v : Int) (he : 0 ≤ e) (hes : e ≤ s)
    (hs : s < a.size) (hs0 : s = e ∨ g a s < s)
    (hd : ∀ p, e < p → p ≤ s → g a p < p →
      e ≤ g a p ∧ (g a p = e ∨ g a (g a p) < g a p) ∧ ∀ k, g a p < k → k < p → ¬ g a k < k) :
    ∃ a', path_set a s e v = .ok a' ∧ a'.size = a.size ∧
      ∀ k, 0 ≤ k → g a' k = if e < k ∧ k ≤ s ∧ g a k < k then v else g a k :=
  AllDiff.path_set_down_mark a s e v he hes hs hs0 hd

theorem path_set_down_compress (a : Array Int) (s r v : Int) (hr : 0 ≤ r) (hrs : r ≤ s)
    (hs : s < a.size) (hdn : ∀ p, r < p → p ≤ s → g a p < p ∧ r ≤ g a p) :
    ∃ a', path_set a s r v = .ok a' ∧ a'.size = a.size ∧
      ∀ k, 0 ≤ k → (g a' k = g a k ∨ (r < k ∧ k ≤ s ∧ g a' k = v)) :=
  AllDiff.path_set_down_compress a s r v hr hrs hs hdn

theorem path_set_up_mark (a : Array Int) (s e v : Int) (hs : 0 ≤ s) (hse : s ≤ e)
    (he : e < a.size) (hs0 : s = e ∨ g a s > s)
    (hd : ∀ p, s ≤ p → p < e → g a p > p →
      g a p ≤ e ∧ (g a p = e ∨ g a (g a p) > g a p) ∧ ∀ k, p < k → k < g a p → ¬ g a k > k) :
    ∃ a', path_set a s e v = .ok a' ∧ a'.size = a.size ∧
      ∀ k, 0 ≤ k → g a' k = if s ≤ k ∧ k < e ∧ g a k > k then v else g a k :=
  AllDiff.path_set_up_mark a s e v hs hse he hs0 hd

/-! ### `argsort` -/

theorem argsort_spec (keys : Array Int) :
    (argsort keys).size = keys.size ∧
    (∀ k : Int, 0 ≤ k → k < keys.size →
      0 ≤ g (argsort keys) k ∧ g (argsort keys) k < keys.size) ∧
    (∀ v : Int, 0 ≤ v → v < keys.size → ∃ k : Int, 0 ≤ k ∧ k < keys.size ∧ g (argsort keys) k = v) ∧
    (∀ k l : Int, 0 ≤ k → k ≤ l → l < keys.size →
      g keys (g (argsort keys) k) ≤ g keys (g (argsort keys) l)) := by
  rw [argsort_eq]; exact AllDiff.argsort_spec keys

end Gcc
end Nucs
