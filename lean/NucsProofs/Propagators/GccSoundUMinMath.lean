import NucsProofs.Propagators.GccSoundLMinMath
import NucsProofs.Propagators.AlldiffCorrectUpper
/-!
  Semantic soundness of the ported gcc, `filter_upper_min`: the mirror image `UERel` of the relation
  `ERel` of one iteration that uses the variable (nodes `0..M`, roots point up), its reduction to
  `ERel` under the index reversal `k ↦ M + 1 - k` (so that `ESem`/`esem_step`/`esem_skip` are
  reused unchanged), and the ghost fact recorded for a variable that is not used.
-/
namespace Nucs
namespace Gcc
open AllDiff (cntLt cinR phi LChain LStruct LPre UPre Oth mir mirv mbd upre_to_lpre cinR_phi phi_top
  cinR_snoc)

/-- the mark test of `filter_upper_min` -/
def UMk (bd df' : Int → Int) (y z : Int) : Prop := z < y ∧ df' z + bd z = bd y

/-- mirror image of `ERel` (nodes `0..M`, roots point up; `x` = max-rank, `y` = min-rank) -/
structure UERel (M : Int) (bd : Int → Int) (x y : Int) (tf df sf tf' df' sf' : Int → Int)
    (z0 z w : Int) : Prop extends UPre M x tf df tf' df' z0 z where
  whi : w ≤ x
  wlo : 0 ≤ w
  wroot : sf w > w
  wall : ∀ k, w < k → k ≤ x → sf k < k
  mk_e : UMk bd df' y z → tf z0 = M ∨ sf (tf z0 + 1) > tf z0 + 1
  mk_y : UMk bd df' y z → sf (z + 1) > z + 1
  hroots : ∀ k, 0 ≤ k → k ≤ M →
    (sf' k > k ↔ (sf k > k ∧ ¬ (UMk bd df' y z ∧ z + 1 < k ∧ k < tf z0 + 1)))

theorem uerel_to_erel {M x y : Int} {bd tf df sf tf' df' sf' : Int → Int} {z0 z w : Int}
    (h : UERel M bd x y tf df sf tf' df' sf' z0 z w) :
    ERel (M + 1) (mbd (M + 1) bd) (M + 1 - x) (M + 1 - y) (mir (M + 1) tf) (mirv (M + 1) df)
      (mir (M + 1) sf) (mir (M + 1) tf') (mirv (M + 1) df') (mir (M + 1) sf')
      (M + 1 - z0) (M + 1 - z) (M + 1 - w) := by
  have hw1 := h.whi
  have hw2 := h.wlo
  have hmk : Mk (mbd (M + 1) bd) (mirv (M + 1) df') (M + 1 - y) (M + 1 - z) ↔ UMk bd df' y z := by
    simp only [Mk, UMk, mirv, mbd, Int.sub_sub_self]
    constructor
    · rintro ⟨a, b⟩; exact ⟨by omega, by omega⟩
    · rintro ⟨a, b⟩; exact ⟨by omega, by omega⟩
  refine ⟨upre_to_lpre h.toUPre, by omega, by omega, ?_, ?_, ?_, ?_, ?_⟩
  · simp only [mir, Int.sub_sub_self]; have := h.wroot; omega
  · intro k hk1 hk2
    simp only [mir]
    have := h.wall (M + 1 - k) (by omega) (by omega); omega
  · intro hm
    simp only [mir, Int.sub_sub_self]
    rcases h.mk_e (hmk.1 hm) with h1 | h1
    · left; omega
    · right
      have e : M + 1 - (M + 1 - tf z0 - 1) = tf z0 + 1 := by omega
      rw [e]; omega
  · intro hm
    simp only [mir]
    have e : M + 1 - (M + 1 - z - 1) = z + 1 := by omega
    rw [e]
    have := h.mk_y (hmk.1 hm); omega
  · intro k hk1 hk2
    simp only [mir, Int.sub_sub_self]
    have := h.hroots (M + 1 - k) (by omega) (by omega)
    constructor
    · intro hh
      obtain ⟨a, b⟩ := this.1 (by omega)
      exact ⟨by omega, fun c => b ⟨hmk.1 c.1, by omega, by omega⟩⟩
    · rintro ⟨a, b⟩
      have := this.2 ⟨by omega, fun c => b ⟨hmk.2 c.1, by omega, by omega⟩⟩
      omega

/-- the ghost fact about a variable that is not used: the demand of a zone `[a, ry v]` containing it
    is met by the used variables confined to the zone -/
theorem unused_zone {N : Int} {bd rx ry : Int → Int} {all P U : List Int} {Y : Int}
    {tf df sf wf : Int → Int} (hctx : WCtx N bd rx ry all) (hs : LStruct N tf df sf)
    (hsem : ESem N bd rx ry all P U Y tf df sf wf) {v z0 : Int} (hv : v ∈ all) (hYv : Y ≤ ry v)
    (hz0lo : rx v + 1 ≤ z0) (hz0hi : z0 ≤ N) (hz0r : tf z0 < z0)
    (hz0f : ∀ k, rx v + 1 ≤ k → k < z0 → tf k > k) (hyz : ry v < z0) :
    ∃ a, 1 ≤ a ∧ a ≤ rx v ∧ cinR rx ry U a (ry v) ≥ bd (ry v) - bd a := by
  obtain ⟨hx1, hxy, hyN⟩ := hctx.rk v hv
  obtain ⟨_, h1, h2, h3⟩ := stable_test hctx hs hsem hx1 hxy hYv hz0lo hz0hi hz0r hz0f hyz
  have hPr : ∀ p ∈ U, rx p < ry p ∧ ry p ≤ ry v := by
    intro p hp
    have := ranksU hctx hsem p hp
    exact ⟨this.1, by omega⟩
  refine ⟨tf z0, h1, h2, ?_⟩
  rw [cinR_phi bd rx ry (ry v) U hPr (tf z0) (ry v) (by omega) (Int.le_refl _)]
  omega

end Gcc
end Nucs
