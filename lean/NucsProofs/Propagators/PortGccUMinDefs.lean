import NucsProofs.Propagators.PortGccCtx
import NucsProofs.Propagators.PortAlldiffUpper
/-!
  `filter_upper_min` of the ported gcc as a composition of named pieces, and the invariant of its
  main loop (the mirror image of the `tl`/`c`/`sets` part of the invariant of `filter_lower_min`).

  `M = nb`; `tl` and `sets` have the shape `AllDiff.UChain` on the nodes `0..M`: a node either
  points up (a "root") to the next root above it (or to the terminal `M + 1`), or points down,
  never below the next root below it.  `Kf i` stands for `K l fv bounds i`;
  `Kf (r + 1) - Kf r` is the initial value of `c[r]`.
-/
namespace Nucs
namespace Gcc

open AllDiff (g upd g2 upd2 ok_bind pure_eq_ok except_bind_ok forIn_list_except range_forIn_eq
  size_upd size_upd2 g_upd g_upd_same g_upd_ne UChain)

/-- body of the first initialisation loop; state `tl, c, w` -/
def uminInit1 (bounds : Array Int) (l : PSum) (i : Int) (s : Array Int × Array Int × Int) :
    Except Err (ForInStep (Array Int × Array Int × Int)) := do
  let c ← wr s.2.1 i (← get_sum l (← rd bounds i) ((← rd bounds (i + 1)) - 1))
  if (← rd c i) == 0 then
    let tl ← wr s.1 i s.2.2
    pure (ForInStep.yield (tl, c, s.2.2))
  else
    let tl ← wr s.1 s.2.2 i
    pure (ForInStep.yield (tl, c, i))

/-- body of the second initialisation loop; state `sets, w` -/
def uminInit2 (c : Array Int) (i : Int) (s : Array Int × Int) :
    Except Err (ForInStep (Array Int × Int)) := do
  if (← rd c (i - 1)) == 0 then
    let sets ← wr s.1 i s.2
    pure (ForInStep.yield (sets, s.2))
  else
    let sets ← wr s.1 s.2 i
    pure (ForInStep.yield (sets, i))

/-- state of the main loop: `tl, c, sets, new_maxs, w` -/
abbrev UMinSt := Array Int × Array Int × Array Int × Array Int × Int

/-- the last statement of the main loop body: path compression in `tl` -/
def uminFin (x : Int) (tl c sets new_maxs : Array Int) (w z : Int) : Except Err (ForInStep UMinSt) := do
  let tl ← path_set tl (x - 1) z z
  pure (ForInStep.yield (tl, c, sets, new_maxs, w))

/-- marking of a new unstable set -/
def uminMark (x j : Int) (tl c new_maxs : Array Int) (w z : Int) (sets : Array Int) (y : Int) :
    Except Err (ForInStep UMinSt) := do
  let sets ← path_set sets (← rd sets y) (j + 1) y
  let sets ← wr sets y (j + 1)
  uminFin x tl c sets new_maxs w z

/-- the test "an unstable set is discovered" -/
def uminUnstable (bounds : Array Int) (l : PSum) (x y j : Int) (c : Array Int)
    (tl : Array Int) (z : Int) (sets new_maxs : Array Int) (w : Int) : Except Err (ForInStep UMinSt) := do
  if (← rd c z) == (← get_sum l (← rd bounds z) ((← rd bounds y) - 1)) then
    if (← rd sets y) < y then
      let y ← rd sets y
      uminMark x j tl c new_maxs w z sets y
    else uminMark x j tl c new_maxs w z sets y
  else uminFin x tl c sets new_maxs w z

/-- recording the candidate new maximum -/
def uminNewMax (bounds : Array Int) (l : PSum) (i x y j : Int) (c sets new_maxs : Array Int)
    (w : Int) (tl : Array Int) (z : Int) : Except Err (ForInStep UMinSt) := do
  if (← rd sets x) < x then
    let w ← path_min sets (← rd sets x)
    let new_maxs ← wr new_maxs i w
    let sets ← path_set sets x w w
    uminUnstable bounds l x y j c tl z sets new_maxs w
  else
    let new_maxs ← wr new_maxs i x
    uminUnstable bounds l x y j c tl z sets new_maxs w

/-- the capacity of `z` is decreased -/
def uminElse (bounds : Array Int) (l : PSum) (i x y j z : Int)
    (tl c sets new_maxs : Array Int) (w : Int) : Except Err (ForInStep UMinSt) := do
  let c ← wr c z ((← rd c z) - 1)
  if (← rd c z) == 0 then
    let tl ← wr tl z (z - 1)
    let z ← path_min tl (← rd tl z)
    let tl ← wr tl z j
    uminNewMax bounds l i x y j c sets new_maxs w tl z
  else uminNewMax bounds l i x y j c sets new_maxs w tl z

/-- body of the main loop -/
def uminBody (bounds : Array Int) (ranks : Arr2) (msv : Array Int) (l : PSum) (i : Int) (s : UMinSt) :
    Except Err (ForInStep UMinSt) := do
  let tl := s.1
  let c := s.2.1
  let sets := s.2.2.1
  let new_maxs := s.2.2.2.1
  let w := s.2.2.2.2
  let v ← rd msv i
  let x ← rd2 ranks v MAX
  let y ← rd2 ranks v MIN
  let z ← path_min tl (x - 1)
  let j ← rd tl z
  if (← rd c z) > (← get_sum l (← rd bounds z) ((← rd bounds y) - 1)) then
    uminElse bounds l i x y j z tl c sets new_maxs w
  else uminFin x tl c sets new_maxs w z

/-- body of the final loop: shrink the upper bounds -/
def uminShrink (bounds : Array Int) (ranks : Arr2) (msv : Array Int) (l : PSum)
    (stbl new_maxs : Array Int) (i : Int) (domains : Arr2) : Except Err (ForInStep Arr2) := do
  let v ← rd msv i
  let x ← rd2 ranks v MIN
  let y ← rd2 ranks v MAX
  if (← rd stbl x) ≤ x ∨ y > (← rd stbl x) then
    let domains ← wr2 domains v MAX
      (← skip_non_null_elements_left l ((← rd bounds (← rd new_maxs i)) - 1))
    pure (ForInStep.yield domains)
  else pure (ForInStep.yield domains)

theorem filter_upper_min_eq (n nb : Int) (tl c sets bounds : Array Int) (domains ranks : Arr2)
    (msv : Array Int) (l : PSum) (stbl new_maxs : Array Int) :
    filter_upper_min n nb tl c sets bounds domains ranks msv l stbl new_maxs =
      (do
        let s1 ← forIn (rangeUp 0 (nb + 1)) (tl, c, (0 : Int)) (uminInit1 bounds l)
        let tl ← wr s1.1 s1.2.2 (nb + 1)
        let s2 ← forIn (rangeUp 1 (nb + 1)) (sets, (0 : Int)) (uminInit2 s1.2.1)
        let sets ← wr s2.1 s2.2 (nb + 1)
        let s3 ← forIn (rangeDown (n - 1) (-1)) ((tl, s1.2.1, sets, new_maxs, s2.2) : UMinSt)
          (uminBody bounds ranks msv l)
        let s5 ← forIn (rangeDown (n - 1) (-1)) domains
          (uminShrink bounds ranks msv l stbl s3.2.2.2.1)
        pure (true, s3.1, s3.2.1, s3.2.2.1, s5, s3.2.2.2.1)) := by
  rfl

/-! ### the invariant of the main loop -/

structure UMinCore (M : Int) (sz : Nat) (Kf : Int → Int) (tl c sets : Array Int) : Prop where
  st : tl.size = sz
  sc : c.size = sz
  ss : sets.size = sz
  hsz : M + 1 < sz
  ct : UChain (g tl) M
  cs : UChain (g sets) M
  /-- a root of `tl` has a positive capacity left, at most its initial capacity -/
  d1 : ∀ r, 0 ≤ r → r ≤ M - 1 → g tl r > r → 1 ≤ g c r ∧ g c r ≤ Kf (r + 1) - Kf r
  /-- the capacity of the bottom sentinel is never used -/
  c0 : g c 0 = Kf 1 - Kf 0
  /-- the top node is a root of `tl` -/
  tM : g tl M = M + 1
  /-- the node just above the target of a root of `tl` is a root of `sets` (or the terminal) -/
  l1 : ∀ r, 0 ≤ r → r ≤ M - 1 → g tl r > r → g tl r = M ∨ g sets (g tl r + 1) > g tl r + 1
  /-- the node just above a root of `tl` with untouched capacity is a root of `sets` -/
  l2 : ∀ r, 0 ≤ r → r ≤ M - 1 → g tl r > r → g c r = Kf (r + 1) - Kf r → g sets (r + 1) > r + 1
  /-- a root of `sets` has a non-zero initial capacity just below it -/
  i5 : ∀ k, 1 ≤ k → k ≤ M → g sets k > k → Kf (k - 1) < Kf k
  /-- above a root of `tl` with untouched capacity, the nodes of the zero-capacity stretch still
      point directly at the node just above that root -/
  i6 : ∀ r, 0 ≤ r → r ≤ M - 1 → g tl r > r → g c r = Kf (r + 1) - Kf r →
    ∀ k, r + 1 < k → k ≤ M → Kf k = Kf (r + 1) → g sets k = r + 1

/-- the entries of `new_maxs` are indices of `bounds` (same predicate as `NMOk` of the lower pass) -/
def NMOk' (N : Int) (nm : Array Int) : Prop :=
  ∀ k : Int, 0 ≤ k → k < nm.size → 0 ≤ g nm k ∧ g nm k ≤ N

end Gcc
end Nucs
