import NucsProofs.Propagators.GccLbcDefs
/-!
  Completeness of the lower-capacity passes of the ported gcc: the main loop of `filter_lower_min`
  (GccSoundLMinLoop) re-proved with one more ghost invariant, the COMPLETENESS half `CFact` of the
  recorded candidate minimum `wf u` of every used variable `u` (suffix `K`).  The candidate is a
  root of the current `sets`, and `ESem.s4` says that every rank interval exactly filled by the
  used variables has all its nodes pointing up in `sets`.
-/
namespace Nucs
namespace Gcc
open AllDiff (g upd g2 upd2 ok_bind pure_eq_ok except_bind_ok forIn_list_except range_forIn_eq
  size_upd size_upd2 g_upd g_upd_same g_upd_ne g2_upd2 LChain LStruct LPre phi cinR Sm cinR_sublist)

/-! ### the mathematics -/

theorem sm_snoc (ry : Int → Int) (U : List Int) (v u : Int) (h : ¬ ry v < ry u) :
    Sm ry (U ++ [v]) u = Sm ry U u := by
  unfold Sm
  rw [List.filter_append]
  have e : [v].filter (fun p => decide (ry p < ry u)) = [] := by simp [h]
  rw [e, List.append_nil]

theorem sm_sublist (ry : Int → Int) (U : List Int) (u : Int) : (Sm ry U u).Sublist U := by
  unfold Sm
  exact List.filter_sublist

section cfact
variable {N : Int} {bd rx ry : Int → Int} {all P U : List Int} {Y : Int}
  {tf df sf wf : Int → Int}

/-- a root of the current `sets` lies in no rank interval exactly filled by used variables -/
theorem cfact_new (hsem : ESem N bd rx ry all P U Y tf df sf wf) (v w : Int) (hw : sf w < w) :
    CFact N bd rx ry (U ++ [v]) v w := by
  intro ja yb h1 h2 h3 hc hin
  rw [sm_snoc ry U v v (by omega)] at hc
  have hsub := cinR_sublist rx ry (sm_sublist ry U v) ja yb
  have := hsem.s4 ja yb h1 h2 h3 (by omega) w hin.1 hin.2
  omega

/-- the completeness facts are preserved by an iteration that uses the variable `v`, and the fact
    about `v` is established -/
theorem cfact_step (hctx : WCtx N bd rx ry all) (hsem : ESem N bd rx ry all P U Y tf df sf wf)
    (hcf : ∀ u ∈ U, CFact N bd rx ry U u (wf u)) {v w : Int} (hYv : Y ≤ ry v) (hvU : v ∉ U)
    (hw : sf w < w) :
    ∀ u ∈ U ++ [v], CFact N bd rx ry (U ++ [v]) u ((fun u => if u = v then w else wf u) u) := by
  intro u hu
  rcases List.mem_append.1 hu with h | h
  · have hne : u ≠ v := fun e => hvU (e ▸ h)
    simp only [if_neg hne]
    have hr := (ranksU hctx hsem u h).2
    intro ja yb h1 h2 h3 hc
    rw [sm_snoc ry U v u (by omega)] at hc
    exact hcf u h ja yb h1 h2 h3 hc
  · have e : u = v := by simpa using h
    subst e
    simp only [if_true]
    exact cfact_new hsem u w hw

end cfact

/-! ### one iteration of the main loop -/

/-- `lminTest_sem` carrying the completeness facts -/
theorem lminTest_semK {N : Int} {sz : Nat} {bounds : Array Int} {l : PSum} {fv m : Int}
    {tl c sets pot stbl : Array Int} {rx ry : Int → Int} {all P U : List Int} {Y : Int}
    {wf : Int → Int} (hb : BC bounds N fv m) (hl : PS l fv m)
    (hctx : WCtx N (K l fv bounds) rx ry all)
    (hc : MCore N sz (K l fv bounds) tl c sets) (hp : MPot N sz tl pot stbl)
    (new_mins : Array Int) (hnm : NMOk N new_mins)
    (hsem : ESem N (K l fv bounds) rx ry all P U Y (tlg tl) (dfc (K l fv bounds) c) (g sets) wf)
    (hps : PSem N (K l fv bounds) rx ry P U (g pot) (g stbl))
    (hcf : ∀ u ∈ U, CFact N (K l fv bounds) rx ry U u (wf u))
    (v : Int) (hv : v ∈ all) (hYv : Y ≤ ry v) (hvU : v ∉ U)
    (i z j w : Int) (hi0 : 0 ≤ i) (hi1 : i < new_mins.size)
    (hxz : rx v + 1 ≤ z) (hzN : z ≤ N) (hzr : g tl z < z) (hj : j = g tl z)
    (hall : ∀ k, rx v + 1 ≤ k → k < z → g tl k > k)
    (hpy : g pot (ry v) < ry v) (hsy : g stbl (ry v) < ry v)
    (hlow : z ≤ ry v → ∀ r, 1 ≤ r → r ≤ N → g pot r < r → g pot r ≤ rx v ∨ z ≤ g pot r)
    (hstab : ry v < z → g pot (ry v) ≤ rx v ∧
      phi (K l fv bounds) rx U (ry v) ≤ phi (K l fv bounds) rx U (g pot (ry v))) :
    ∃ tl' c' sets' stbl' nm' w' U' wf',
      lminTest bounds l i (rx v) (ry v) z j tl c sets stbl new_mins pot w =
        .ok (.yield (tl', c', sets', stbl', pot, nm', w')) ∧
      MCore N sz (K l fv bounds) tl' c' sets' ∧ MPot N sz tl' pot stbl' ∧ NMOk N nm' ∧
      nm'.size = new_mins.size ∧ (∀ Y', ry v ≤ Y' → MBelow N stbl Y' → MBelow N stbl' Y') ∧
      ESem N (K l fv bounds) rx ry all (P ++ [v]) U' (ry v) (tlg tl') (dfc (K l fv bounds) c')
        (g sets') wf' ∧
      PSem N (K l fv bounds) rx ry (P ++ [v]) U' (g pot) (g stbl') ∧
      GStep i v U U' wf wf' new_mins nm' ∧
      (∀ u ∈ U', CFact N (K l fv bounds) rx ry U' u (wf' u)) := by
  obtain ⟨hx1, hxy, hyN⟩ := hctx.rk v hv
  have hbsz := hb.hsz
  have hNsz := hc.hsz
  have hsc := hc.sc
  have hs := hc.toLStruct hb hl
  have hz2 : 2 ≤ z := by omega
  have hzr' : tlg tl z < z := by rw [tlg_ge2 tl z hz2]; exact hzr
  have hall' : ∀ k, rx v + 1 ≤ k → k < z → tlg tl k > k := by
    intro k h1 h2; rw [tlg_ge2 tl k (by omega)]; exact hall k h1 h2
  unfold lminTest
  rw [rd_ok c z (by omega) (by omega), ok_bind, rd_ok bounds (ry v) (by omega) (by omega), ok_bind,
    rd_ok bounds z (by omega) (by omega), ok_bind,
    get_sum_bounds_ok hl hb (ry v) z (by omega) hyN (by omega) hzN, ok_bind]
  by_cases hle : g c z ≤ gsum l (g bounds (ry v)) (g bounds z - 1)
  · rw [if_pos hle]
    have hyz : ry v < z := by
      by_cases h : ry v < z
      · exact h
      · have h1 := (gsum_K_neg hl hb (ry v) z (by omega) (by omega) hyN).2
        have h2 := (hc.d1 z hz2 hzN hzr).1
        omega
    obtain ⟨hpx, hphi⟩ := hstab hyz
    obtain ⟨stbl', w', wb, vb, he, hp', hbel, hp1, hsrel⟩ :=
      lminStable_rel hp hNsz (rx v) (ry v) z (by omega) hyN hpy hsy c sets new_mins
    rw [he]
    obtain ⟨tl', he2, hc2, hp2, hroots, hval⟩ :=
      lminFin_relP hc hp' (rx v) z hx1 hxz hzN hzr hall new_mins w'
    refine ⟨tl', c, sets, stbl', new_mins, w', U, wf, he2, hc2, hp2, hnm, rfl, hbel, ?_, ?_,
      Or.inl ⟨rfl, rfl, rfl⟩, hcf⟩
    · exact esem_skip hctx hsem hv hYv hroots hval
    · exact psem_stable hctx hp.cb hp'.cb hsem hps hv hYv hp1 hpx hphi hsrel
  · rw [if_neg hle]
    have hzy : z ≤ ry v := by
      by_cases h : z ≤ ry v
      · exact h
      · exfalso
        have h1 := gsum_K hl hb (ry v) z (by omega) (by omega) hzN
        have h2 := (stable_test hctx hs hsem hx1 hxy hYv hxz hzN hzr' hall' (by omega)).1
        rw [dfc_ge2 _ c z hz2] at h2
        omega
    obtain ⟨tl', c', sets', nm', w', z', wn, he, hc', hp', hnm', hsz', hrel, hnme⟩ :=
      lminElse_rel hb hl hc hp new_mins hnm i (rx v) (ry v) z j w hi0 hi1 hx1 hxy hyN hxz hzN hzr hj
        hall hle
    refine ⟨tl', c', sets', stbl, nm', w', U ++ [v], fun u => if u = v then wn else wf u, he, hc',
      hp', hnm', hsz', fun _ _ h => h, ?_, ?_, Or.inr ⟨wn, rfl, rfl, hnme⟩,
      cfact_step hctx hsem hcf hYv hvU hrel.wroot⟩
    · exact esem_step hctx hs (hc'.toLStruct hb hl) hsem hv hYv hvU hzy hrel (fun u _ => rfl)
    · exact psem_else hs hsem.t hps hx1 hrel.toLPre (hlow hzy)

/-- `lminBody_sem` carrying the completeness facts -/
theorem lminBody_semK {N : Int} {sz : Nat} {bounds : Array Int} {l : PSum} {fv m : Int}
    {tl c sets pot stbl : Array Int} {rx ry : Int → Int} {all P U : List Int} {Y : Int}
    {wf : Int → Int} (hb : BC bounds N fv m) (hl : PS l fv m)
    (hctx : WCtx N (K l fv bounds) rx ry all)
    (hc : MCore N sz (K l fv bounds) tl c sets) (hp : MPot N sz tl pot stbl)
    (new_mins : Array Int) (hnm : NMOk N new_mins)
    (hsem : ESem N (K l fv bounds) rx ry all P U Y (tlg tl) (dfc (K l fv bounds) c) (g sets) wf)
    (hps : PSem N (K l fv bounds) rx ry P U (g pot) (g stbl))
    (hcf : ∀ u ∈ U, CFact N (K l fv bounds) rx ry U u (wf u))
    (ranks : Arr2) (msv : Array Int) (hrx : ∀ u, (g2 ranks u).1 = rx u)
    (hry : ∀ u, (g2 ranks u).2 = ry u) (i w v : Int)
    (hi0 : 0 ≤ i) (hi1 : i < new_mins.size) (hi2 : i < msv.size) (hvi : g msv i = v)
    (hv0 : 0 ≤ v) (hv1 : v < ranks.size)
    (hv : v ∈ all) (hYv : Y ≤ ry v) (hvU : v ∉ U)
    (hbp : MBelow N pot (ry v)) (hbs : MBelow N stbl (ry v)) :
    ∃ tl' c' sets' stbl' pot' nm' w' U' wf',
      lminBody bounds ranks msv l i (tl, c, sets, stbl, pot, new_mins, w) =
        .ok (.yield (tl', c', sets', stbl', pot', nm', w')) ∧
      MCore N sz (K l fv bounds) tl' c' sets' ∧ MPot N sz tl' pot' stbl' ∧ NMOk N nm' ∧
      nm'.size = new_mins.size ∧
      (∀ Y', ry v ≤ Y' → MBelow N pot Y' → MBelow N pot' Y') ∧
      (∀ Y', ry v ≤ Y' → MBelow N stbl Y' → MBelow N stbl' Y') ∧
      ESem N (K l fv bounds) rx ry all (P ++ [v]) U' (ry v) (tlg tl') (dfc (K l fv bounds) c')
        (g sets') wf' ∧
      PSem N (K l fv bounds) rx ry (P ++ [v]) U' (g pot') (g stbl') ∧
      GStep i v U U' wf wf' new_mins nm' ∧
      (∀ u ∈ U', CFact N (K l fv bounds) rx ry U' u (wf' u)) := by
  obtain ⟨hx1, hxy, hyN⟩ := hctx.rk v hv
  have hNsz := hc.hsz
  have hst := hc.st
  have hs := hc.toLStruct hb hl
  unfold lminBody
  simp only []
  rw [rd_ok msv i hi0 hi2, ok_bind, hvi, rd2_min_ok ranks v hv0 hv1, ok_bind,
    rd2_max_ok ranks v hv0 hv1, ok_bind, hrx, hry]
  obtain ⟨z, hpm, hz1, hz2, hz3, hz4⟩ := path_max_spec tl 2 N (rx v + 1) (by omega) (by omega)
    (fun k h1 h2 => by
      have := (hc.ct.rng k (by omega) h2).2.1
      rw [tlg_ge2 tl k h1] at this; exact this)
    (fun k h1 h2 h3 q hq1 hq2 => by
      have h3' : tlg tl k > k := by rw [tlg_ge2 tl k h1]; exact h3
      have := hc.ct.up k (by omega) h2 h3' q hq1 (by rw [tlg_ge2 tl k h1]; exact hq2)
      rw [tlg_ge2 tl q (by omega)] at this; exact this)
    (by omega) (by omega)
  have hzr : g tl z < z := by
    have := (hc.ct.rng z (by omega) hz2).2.2
    rw [tlg_ge2 tl z (by omega)] at this
    omega
  have hzr' : tlg tl z < z := by rw [tlg_ge2 tl z (by omega)]; exact hzr
  have hall' : ∀ k, rx v + 1 ≤ k → k < z → tlg tl k > k := by
    intro k h1 h2; rw [tlg_ge2 tl k (by omega)]; exact hz4 k h1 h2
  rw [hpm, ok_bind, rd_ok tl z (by omega) (by omega), ok_bind]
  have hsy : g stbl (ry v) < ry v := root_of_below hp.cb (by omega) (by omega) hbs
  by_cases hzx : z = rx v + 1
  · have hcond : ¬ (z != rx v + 1) = true := by simp [hzx]
    rw [if_neg hcond]
    have hpy : g pot (ry v) < ry v := root_of_below hp.cp (by omega) (by omega) hbp
    obtain ⟨tl', c', sets', stbl', nm', w', U', wf', he, hc', hp', hnm', hsz', hbel, hes, hpsm, hgs,
        hcf'⟩ :=
      lminTest_semK hb hl hctx hc hp new_mins hnm hsem hps hcf v hv hYv hvU i z (g tl z) w hi0 hi1
        hz1 hz2 hzr rfl hz4 hpy hsy (fun _ r _ _ _ => by omega) (fun h => by omega)
    exact ⟨tl', c', sets', stbl', pot, nm', w', U', wf', he, hc', hp', hnm', hsz', fun _ _ h => h,
      hbel, hes, hpsm, hgs, hcf'⟩
  · have hcond : (z != rx v + 1) = true := by simp [hzx]
    rw [if_pos hcond]
    obtain ⟨pot', w1, vv, he0, hp0, hbel0, hprel⟩ :=
      lminPot_rel hc hp (rx v) (ry v) z hx1 hxy hyN (by omega) hz2 hzr hz4 hbp
        (fun pot w => lminTest bounds l i (rx v) (ry v) z (g tl z) tl c sets stbl new_mins pot w)
    rw [he0]
    have hmin : min (ry v) z ≤ z := Int.min_le_right _ _
    obtain ⟨hps', hvvx, hdom⟩ := psem_pot hs hsem.t hps hx1 hz1 hz2 hzr' hall' hmin hprel
    have hpy : g pot' (ry v) < ry v :=
      root_of_below hp0.cp (by omega) (by omega) (hbel0 (ry v) (Int.le_refl _) hbp)
    obtain ⟨tl', c', sets', stbl', nm', w', U', wf', he, hc', hp', hnm', hsz', hbel, hes, hpsm, hgs,
        hcf'⟩ :=
      lminTest_semK hb hl hctx hc hp0 new_mins hnm hsem hps' hcf v hv hYv hvU i z (g tl z)
        (min (ry v) z) hi0 hi1 hz1 hz2 hzr rfl hz4 hpy hsy
        (fun hzy => by
          have e : min (ry v) z = z := Int.min_eq_right hzy
          rw [e] at hprel
          exact potrel_low hp0.cp (by omega) hprel)
        (fun hyz => by
          have e : min (ry v) z = ry v := Int.min_eq_left (by omega)
          rw [e] at hprel
          rw [hprel.wv]
          exact ⟨hvvx, hdom (ry v) (by omega) hyz⟩)
    exact ⟨tl', c', sets', stbl', pot', nm', w', U', wf', he, hc', hp', hnm', hsz', hbel0, hbel,
      hes, hpsm, hgs, hcf'⟩

/-! ### the main loop -/

theorem lminLoop_semK {N : Int} {sz : Nat} {bounds : Array Int} {l : PSum} {fv m : Int}
    {tl c sets pot stbl : Array Int} {rx ry : Int → Int} (hb : BC bounds N fv m) (hl : PS l fv m)
    (ranks : Arr2) (msv : Array Int) (hrx : ∀ u, (g2 ranks u).1 = rx u)
    (hry : ∀ u, (g2 ranks u).2 = ry u)
    (hctx : WCtx N (K l fv bounds) rx ry msv.toList)
    (hc : MCore N sz (K l fv bounds) tl c sets) (hp : MPot N sz tl pot stbl)
    (hbel : ∀ Y, MBelow N pot Y ∧ MBelow N stbl Y) (wf0 : Int → Int)
    (hsem : ESem N (K l fv bounds) rx ry msv.toList [] [] 0 (tlg tl) (dfc (K l fv bounds) c)
      (g sets) wf0)
    (hps : PSem N (K l fv bounds) rx ry [] [] (g pot) (g stbl))
    (n : Int) (new_mins : Array Int) (w : Int)
    (hn : n = msv.size) (hnn : (new_mins.size : Int) = n) (hnm : NMOk N new_mins)
    (hmsv : ∀ i : Int, 0 ≤ i → i < n → 0 ≤ g msv i ∧ g msv i < (ranks.size : Int))
    (hnodup : msv.toList.Nodup)
    (hsorted : ∀ i i' : Int, 0 ≤ i → i ≤ i' → i' < n →
      (g2 ranks (g msv i)).2 ≤ (g2 ranks (g msv i')).2) :
    ∃ s, forIn (rangeUp 0 msv.size) ((tl, c, sets, stbl, pot, new_mins, w) : MSt)
        (lminBody bounds ranks msv l) = .ok s ∧
      ∃ U Y wf, MSemPost N sz n (K l fv bounds) rx ry msv s U Y wf ∧
        (∀ u ∈ U, CFact N (K l fv bounds) rx ry U u (wf u)) := by
  refine forIn_list_except
    (Inv := fun rest (s : MSt) => ∃ (i : Int) (P U : List Int) (Y : Int) (wf : Int → Int),
      rest = rangeUp i msv.size ∧ 0 ≤ i ∧ i ≤ n ∧ P = msv.toList.take i.toNat ∧
      MCore N sz (K l fv bounds) s.1 s.2.1 s.2.2.1 ∧ MPot N sz s.1 s.2.2.2.2.1 s.2.2.2.1 ∧
      NMOk N s.2.2.2.2.2.1 ∧ (s.2.2.2.2.2.1.size : Int) = n ∧
      (∀ i' : Int, i ≤ i' → i' < n →
        MBelow N s.2.2.2.2.1 (ry (g msv i')) ∧ MBelow N s.2.2.2.1 (ry (g msv i'))) ∧
      U.Sublist P ∧
      ESem N (K l fv bounds) rx ry msv.toList P U Y (tlg s.1) (dfc (K l fv bounds) s.2.1)
        (g s.2.2.1) wf ∧
      PSem N (K l fv bounds) rx ry P U (g s.2.2.2.2.1) (g s.2.2.2.1) ∧
      (∀ i' : Int, i ≤ i' → i' < n → Y ≤ ry (g msv i')) ∧
      (∀ i', 0 ≤ i' → i' < i → g msv i' ∈ U → g s.2.2.2.2.2.1 i' = wf (g msv i')) ∧
      (∀ u ∈ U, CFact N (K l fv bounds) rx ry U u (wf u)))
    _ _ ?_ ?_ _ _ ?_
  · rintro x rest ⟨tl1, c1, sets1, stbl1, pot1, nm1, w1⟩
      ⟨i, P, U, Y, wf, hr, hi0, hin, hP, hc1, hp1, hnm1, hnn1, hbel1, husub, hes, hpsm, hY, hlink,
        hcf⟩
    obtain ⟨hlt, hx, hrest⟩ := rangeUp_eq_cons i msv.size x rest hr
    subst hx
    simp only at hc1 hp1 hnm1 hnn1 hbel1 hes hpsm hlink
    left
    have hv := hmsv x hi0 (by omega)
    have hbx := hbel1 x (Int.le_refl _) (by omega)
    have hvall : g msv x ∈ msv.toList := g_mem_toList msv x hi0 hlt
    have hvP : g msv x ∉ P := by rw [hP]; exact g_not_mem_take msv hnodup x hi0 hlt
    have hvU : g msv x ∉ U := fun h => hvP (husub.subset h)
    obtain ⟨tl', c', sets', stbl', pot', nm', w', U', wf', he, hc', hp', hnm', hsz', hbp, hbs, hes',
        hps', hgs, hcf'⟩ :=
      lminBody_semK hb hl hctx hc1 hp1 nm1 hnm1 hes hpsm hcf ranks msv hrx hry x w1 (g msv x) hi0
        (by omega) hlt rfl hv.1 hv.2 hvall (hY x (Int.le_refl _) (by omega)) hvU hbx.1 hbx.2
    have hsrt : ∀ i' : Int, x + 1 ≤ i' → i' < n → ry (g msv x) ≤ ry (g msv i') := by
      intro i' h1 h2
      have hs := hsorted x i' hi0 (by omega) h2
      rw [hry, hry] at hs; exact hs
    refine ⟨_, he, x + 1, P ++ [g msv x], U', ry (g msv x), wf', hrest, by omega, by omega, ?_, hc',
      hp', hnm', by simp only; omega, ?_, ?_, hes', hps', hsrt, ?_, hcf'⟩
    · rw [take_succ_g msv x hi0 hlt, hP]
    · intro i' h1 h2
      have := hbel1 i' (by omega) h2
      exact ⟨hbp _ (hsrt i' h1 h2) this.1, hbs _ (hsrt i' h1 h2) this.2⟩
    · rcases hgs with ⟨e1, _, _⟩ | ⟨wn, e1, _, _⟩
      · rw [e1]; exact husub.trans (List.sublist_append_left _ _)
      · rw [e1]; exact List.Sublist.append husub (List.Sublist.refl _)
    · intro i' h0 h1 hmem
      simp only
      rcases hgs with ⟨e1, e2, e3⟩ | ⟨wn, e1, e2, e3⟩
      · rw [e1] at hmem
        rw [e2, e3]
        by_cases hi' : i' = x
        · subst hi'; exact absurd hmem hvU
        · exact hlink i' h0 (by omega) hmem
      · rw [e1] at hmem
        rw [e2, e3]
        by_cases hi' : i' = x
        · subst hi'; rw [g_upd_same nm1 i' wn h0 (by omega)]; simp
        · have hne : g msv i' ≠ g msv x :=
            fun h => hi' (g_inj msv hnodup i' x h0 (by omega) hi0 hlt h)
          rw [g_upd_ne nm1 x wn i' hi0 (by omega) h0 hi']
          simp only [hne, if_false]
          have hU : g msv i' ∈ U := by
            rcases List.mem_append.1 hmem with h | h
            · exact h
            · simp at h; exact absurd h hne
          exact hlink i' h0 (by omega) hU
  · rintro ⟨tl1, c1, sets1, stbl1, pot1, nm1, w1⟩
      ⟨i, P, U, Y, wf, hr, hi0, hin, hP, hc1, hp1, hnm1, hnn1, hbel1, husub, hes, hpsm, hY, hlink,
        hcf⟩
    simp only at hc1 hp1 hnm1 hnn1 hbel1 hes hpsm hlink
    have hi : i = n := by
      by_cases h : i < msv.size
      · rw [rangeUp_cons i msv.size h] at hr; cases hr
      · omega
    subst hi
    rw [take_all msv i hn] at hP
    subst hP
    exact ⟨U, Y, wf, ⟨hc1, hp1, hnn1, hnm1, husub, hes, hpsm, hlink⟩, hcf⟩
  · exact ⟨0, [], [], 0, wf0, rfl, Int.le_refl _, by omega, by simp, hc, hp, hnm, hnn,
      fun i' _ _ => ⟨(hbel _).1, (hbel _).2⟩, List.Sublist.refl _, hsem, hps,
      fun i' h0 h1 => by
        have := hmsv i' h0 h1
        have := (hctx.rk _ (g_mem_toList msv i' h0 (by omega))).1
        have := (hctx.rk _ (g_mem_toList msv i' h0 (by omega))).2.1
        omega,
      fun i' h0 h1 => by omega, fun u hu => by cases hu⟩

/-! ### the whole pass -/

/-- `filter_lower_min_sem` with the completeness half of the candidate minimum recorded for every
    used variable: `wf u` lies in no rank interval exactly filled by the used variables with a
    strictly smaller maximum -/
theorem filter_lower_min_semK {N : Int} {sz : Nat} {bounds : Array Int} {l : PSum} {fv m : Int}
    (hb : BC bounds N fv m) (hl : PS l fv m) (n : Int) (tl c sets : Array Int)
    (domains ranks : Arr2) (msv stbl pot new_mins : Array Int)
    (hst : tl.size = sz) (hsc : c.size = sz) (hss : sets.size = sz) (hsb : stbl.size = sz)
    (hsp : pot.size = sz) (hNsz : N < sz) (hrs : ranks.size = domains.size)
    (hn : n = msv.size) (hnn : (new_mins.size : Int) = n) (hnm : NMOk N new_mins)
    (hmsv : ∀ i : Int, 0 ≤ i → i < n → 0 ≤ g msv i ∧ g msv i < (domains.size : Int))
    (hranks : ∀ v : Int, 0 ≤ v → v < ranks.size →
      1 ≤ (g2 ranks v).1 ∧ (g2 ranks v).1 < (g2 ranks v).2 ∧ (g2 ranks v).2 < N)
    (hnodup : msv.toList.Nodup)
    (hsorted : ∀ i i' : Int, 0 ≤ i → i ≤ i' → i' < n →
      (g2 ranks (g msv i)).2 ≤ (g2 ranks (g msv i')).2) :
    ∃ r, filter_lower_min n (N - 1) tl c sets bounds domains ranks msv l stbl pot new_mins = .ok r ∧
      (r.1 = true → r.2.1.size = sz ∧ r.2.2.1.size = sz ∧ r.2.2.2.1.size = sz ∧
        r.2.2.2.2.1.size = domains.size ∧ r.2.2.2.2.2.1.size = sz ∧
        (r.2.2.2.2.2.2.2.size : Int) = n ∧ NMOk N r.2.2.2.2.2.2.2) ∧
      ∃ U sf bf wf, LMinOut N n (K l fv bounds) bounds l ranks msv domains r.1
        r.2.2.2.2.2.1 r.2.2.2.2.2.2.2 r.2.2.2.2.1 U sf bf wf ∧
        (∀ u ∈ U, CFact N (K l fv bounds) (fun v => (g2 ranks v).1) (fun v => (g2 ranks v).2)
          U u (wf u)) := by
  have hN := hb.hN
  rw [filter_lower_min_eq]
  have hNN : N - 1 + 1 = N := by omega
  rw [hNN]
  obtain ⟨s1, s2, he1, he2, hc, hp, hbel, htl, hsets, hpot, hstb⟩ :=
    lminInit_sem hb hl tl c sets stbl pot hst hsc hss hsb hsp hNsz
  rw [he1, ok_bind, he2, ok_bind]
  have hctx : WCtx N (K l fv bounds) (fun v => (g2 ranks v).1) (fun v => (g2 ranks v).2)
      msv.toList :=
    wctx_of hb hl ranks msv domains.size hrs (fun i h0 h1 => hmsv i h0 (by omega)) hranks
  have hKb := K_bot hl hb
  have hsem0 : ESem N (K l fv bounds) (fun v => (g2 ranks v).1) (fun v => (g2 ranks v).2)
      msv.toList [] [] 0 (tlg s2.1) (dfc (K l fv bounds) s1.1) (g s1.2.1) (fun _ => 0) := by
    refine esem_init hctx ?_ hsets
    intro z h1 h2 h3
    by_cases hz : z ≤ 1
    · have hz1 : z = 1 := by omega
      subst hz1
      rw [tlg_le1 s2.1 1 (by omega), dfc_le1 _ s1.1 1 (by omega)]
      refine ⟨rfl, ?_⟩
      intro k hk1 hk2
      have : k = 0 := by omega
      rw [this]; exact Int.le_refl _
    · rw [tlg_ge2 s2.1 z (by omega)] at h3 ⊢
      rw [dfc_ge2 _ s1.1 z (by omega)]
      obtain ⟨t1, t2, t3⟩ := htl z (by omega) h2 h3
      exact ⟨t2, fun k hk1 hk2 => by rw [t3 k hk1 hk2]; exact Int.le_refl _⟩
  have hps0 : PSem N (K l fv bounds) (fun v => (g2 ranks v).1) (fun v => (g2 ranks v).2)
      [] [] (g s1.2.2.2.1) (g s1.2.2.1) := psem_init hctx hpot hstb
  obtain ⟨s3, he3, U, Y, wf, hpost, hcf⟩ :=
    lminLoop_semK hb hl ranks msv (fun _ => rfl) (fun _ => rfl) hctx hc hp hbel (fun _ => 0) hsem0
      hps0 n new_mins s2.2 hn hnn hnm (fun i h0 h1 => by have := hmsv i h0 h1; omega) hnodup hsorted
  rw [he3, ok_bind]
  obtain ⟨tl3, c3, sets3, stbl3, pot3, nm3, w3⟩ := s3
  obtain ⟨hc3, hp3, hnn3, hnm3, husub, hes, hpsm, hlink⟩ := hpost
  simp only at hc3 hp3 hnn3 hnm3 hes hpsm hlink ⊢
  have hss3 := hc3.ss
  rw [rd_ok sets3 (N - 1) (by omega) (by omega), ok_bind]
  by_cases hfail : (g sets3 (N - 1) != 0) = true
  · rw [if_pos hfail]
    have hne : g sets3 (N - 1) ≠ 0 := by simpa using hfail
    refine ⟨_, rfl, fun h => by simp at h, U, g sets3, g stbl3, wf, ?_, hcf⟩
    exact ⟨⟨Y, _, _, hes⟩, ⟨_, hpsm⟩, hc3.cs, hp3.cb, husub, ⟨fun _ => hne, fun _ => rfl⟩,
      (fun h => by cases h), (fun h => by cases h), (fun h => by cases h), (fun h => by cases h)⟩
  · rw [if_neg hfail]
    have heq : g sets3 (N - 1) = 0 := by simpa using hfail
    obtain ⟨s4, he4, hs4, hcomp⟩ := lminComp_sem N sz stbl3 w3 hp3.sb hNsz hp3.cb
    rw [he4, ok_bind]
    obtain ⟨d5, he5, hs5, hdom⟩ := lminShrink_sem hb hl n ranks domains msv s4.1 nm3 hn hnn3 hnm3
      (by omega) hrs hmsv (fun v h0 h1 => by have := hranks v h0 h1; omega) hnodup
    rw [he5, ok_bind]
    refine ⟨_, rfl, fun _ => ⟨hc3.st, hc3.sc, hc3.ss, hs5, hs4, hnn3, hnm3⟩, U, g sets3, g stbl3,
      wf, ?_, hcf⟩
    exact ⟨⟨Y, _, _, hes⟩, ⟨_, hpsm⟩, hc3.cs, hp3.cb, husub,
      ⟨(fun h => by cases h), fun h => absurd heq h⟩, fun _ k h1 h2 => hcomp k h1 h2,
      fun _ => hlink, fun _ => hs5, fun _ i h0 h1 => hdom i h0 h1⟩

end Gcc
end Nucs
