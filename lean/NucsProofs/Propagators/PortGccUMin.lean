import NucsProofs.Propagators.PortGccUMinBody
import NucsProofs.Propagators.PortGccUMinInit
import NucsProofs.Propagators.PortGccPsum
/-!
  `filter_upper_min` of the ported gcc never errs.
-/
namespace Nucs
namespace Gcc

open AllDiff (g upd g2 upd2 ok_bind pure_eq_ok except_bind_ok forIn_list_except range_forIn_eq
  size_upd size_upd2 g_upd g_upd_same g_upd_ne UChain)

/-- the main loop -/
theorem uminLoop_spec {M : Int} {sz : Nat} {bounds : Array Int} {l : PSum} {fv m : Int}
    {tl c sets : Array Int} (hb : BC bounds (M + 1) fv m) (hl : PS l fv m)
    (hc : UMinCore M sz (K l fv bounds) tl c sets)
    (n : Int) (ranks : Arr2) (msv nm : Array Int) (w : Int)
    (hn : n = msv.size) (hnn : (nm.size : Int) = n) (hnm : NMOk' (M + 1) nm)
    (hmsv : ∀ i : Int, 0 ≤ i → i < n → 0 ≤ g msv i ∧ g msv i < (ranks.size : Int))
    (hranks : ∀ v : Int, 0 ≤ v → v < ranks.size →
      1 ≤ (g2 ranks v).1 ∧ (g2 ranks v).1 < (g2 ranks v).2 ∧ (g2 ranks v).2 ≤ M) :
    ∃ s, forIn (rangeDown (n - 1) (-1)) ((tl, c, sets, nm, w) : UMinSt)
        (uminBody bounds ranks msv l) = .ok s ∧
      (s.2.2.2.1.size : Int) = n ∧ NMOk' (M + 1) s.2.2.2.1 := by
  refine forIn_list_except
    (Inv := fun rest (s : UMinSt) => ∃ i, rest = rangeDown i (-1) ∧ i < n ∧
      UMinCore M sz (K l fv bounds) s.1 s.2.1 s.2.2.1 ∧ NMOk' (M + 1) s.2.2.2.1 ∧
      (s.2.2.2.1.size : Int) = n)
    _ _ ?_ ?_ _ _ ?_
  · rintro x rest ⟨tl1, c1, sets1, nm1, w1⟩ ⟨i, hr, hin, hc1, hnm1, hnn1⟩
    obtain ⟨hlt, hx, hrest⟩ := rangeDown_eq_cons i (-1) x rest hr
    subst hx
    simp only at hc1 hnm1 hnn1
    left
    have hv := hmsv x (by omega) hin
    have hrk := hranks _ hv.1 hv.2
    obtain ⟨tl', c', sets', nm', w', he, hc', hnm', hsz'⟩ :=
      uminBody_spec hb hl hc1 nm1 hnm1 ranks msv x w1 (by omega) (by omega) (by omega) hv.1 hv.2
        hrk.1 hrk.2.1 hrk.2.2
    exact ⟨_, he, x - 1, hrest, by omega, hc', hnm', by simp only; omega⟩
  · rintro ⟨tl1, c1, sets1, nm1, w1⟩ ⟨i, _, _, _, hnm1, hnn1⟩
    exact ⟨hnn1, hnm1⟩
  · exact ⟨n - 1, rfl, by omega, hc, hnm, hnn⟩

theorem uminShrink_spec {N : Int} {bounds : Array Int} {l : PSum} {fv m : Int}
    (hb : BC bounds N fv m) (hl : PS l fv m) (n : Int) (ranks domains : Arr2) (msv stbl nm : Array Int)
    (hn : n = msv.size) (hnn : (nm.size : Int) = n) (hnm : NMOk' N nm) (hsb : N < stbl.size)
    (hrs : ranks.size = domains.size)
    (hmsv : ∀ i : Int, 0 ≤ i → i < n → 0 ≤ g msv i ∧ g msv i < (domains.size : Int))
    (hranks : ∀ v : Int, 0 ≤ v → v < ranks.size → 1 ≤ (g2 ranks v).1 ∧ (g2 ranks v).1 < N) :
    ∃ d', forIn (rangeDown (n - 1) (-1)) domains (uminShrink bounds ranks msv l stbl nm) = .ok d' ∧
      d'.size = domains.size := by
  have hbsz := hb.hsz
  refine forIn_list_except
    (Inv := fun rest (d : Arr2) => ∃ i, rest = rangeDown i (-1) ∧ i < n ∧ d.size = domains.size)
    _ _ ?_ ?_ _ _ ?_
  · rintro x rest d ⟨i, hr, hin, hsd⟩
    obtain ⟨hlt, hx, hrest⟩ := rangeDown_eq_cons i (-1) x rest hr
    subst hx
    left
    have hv := hmsv x (by omega) hin
    have hr1 := hranks _ hv.1 (by omega)
    unfold uminShrink
    rw [rd_ok msv x (by omega) (by omega), ok_bind, rd2_min_ok ranks _ hv.1 (by omega), ok_bind,
      rd2_max_ok ranks _ hv.1 (by omega), ok_bind,
      rd_ok stbl _ (by omega) (by omega), ok_bind, ok_bind]
    split
    · have hk := hnm x (by omega) (by omega)
      have hrg := hb.range (g nm x) hk.1 hk.2
      obtain ⟨r, hsk⟩ := skip_left_ok hl (g bounds (g nm x) - 1) (by omega) (by omega)
      rw [rd_ok nm x (by omega) (by omega), ok_bind, rd_ok bounds _ hk.1 (by omega), ok_bind, hsk,
        ok_bind, wr2_ok d _ MAX r hv.1 (by omega), ok_bind]
      exact ⟨_, rfl, x - 1, hrest, by omega, by simp [hsd]⟩
    · exact ⟨_, rfl, x - 1, hrest, by omega, hsd⟩
  · rintro d ⟨i, _, _, hsd⟩
    exact hsd
  · exact ⟨n - 1, rfl, by omega, rfl⟩

/-- `filter_upper_min` returns a result -/
theorem filter_upper_min_spec {M : Int} {sz : Nat} {bounds : Array Int} {l : PSum} {fv m : Int}
    (hb : BC bounds (M + 1) fv m) (hl : PS l fv m) (n : Int) (tl c sets : Array Int)
    (domains ranks : Arr2) (msv stbl nm : Array Int)
    (hst : tl.size = sz) (hsc : c.size = sz) (hss : sets.size = sz) (hsb : stbl.size = sz)
    (hNsz : M + 1 < sz) (hrs : ranks.size = domains.size)
    (hn : n = msv.size) (hnn : (nm.size : Int) = n) (hnm : NMOk' (M + 1) nm)
    (hmsv : ∀ i : Int, 0 ≤ i → i < n → 0 ≤ g msv i ∧ g msv i < (domains.size : Int))
    (hranks : ∀ v : Int, 0 ≤ v → v < ranks.size →
      1 ≤ (g2 ranks v).1 ∧ (g2 ranks v).1 < (g2 ranks v).2 ∧ (g2 ranks v).2 ≤ M) :
    ∃ r, filter_upper_min n M tl c sets bounds domains ranks msv l stbl nm = .ok r ∧
      r.2.2.2.2.1.size = domains.size := by
  rw [filter_upper_min_eq]
  obtain ⟨s1, tl1, s2, sets1, he1, hw1, he2, hw2, hc⟩ := uminInit_spec hb hl tl c sets hst hsc hss hNsz
  rw [he1, ok_bind, hw1, ok_bind, he2, ok_bind, hw2, ok_bind]
  obtain ⟨s3, he3, hnn3, hnm3⟩ := uminLoop_spec hb hl hc n ranks msv nm s2.2 hn hnn hnm
    (fun i h0 h1 => by have := hmsv i h0 h1; omega) hranks
  rw [he3, ok_bind]
  obtain ⟨d5, he5, hs5⟩ := uminShrink_spec hb hl n ranks domains msv stbl s3.2.2.2.1 hn hnn3 hnm3
    (by omega) hrs hmsv (fun v h0 h1 => by have := hranks v h0 h1; omega)
  rw [he5, ok_bind]
  exact ⟨_, rfl, hs5⟩

end Gcc
end Nucs
