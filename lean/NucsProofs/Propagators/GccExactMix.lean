import NucsProofs.Propagators.GccSoundViolated
import NucsProofs.Propagators.GccSoundAsm1
/-!
  Bound-consistency exactness of the ported gcc, pure part: Quimper et al.'s combination step for
  ONE variable-value pair.  If the pair `(k, val)` has a support in the upper-capacity relaxation
  (`σU`) and a support in the lower-capacity relaxation (`σL`), it has a support for gcc.
-/
namespace Nucs
namespace Gcc
open AllDiff (g g2)

theorem occ_le_length (τ : Int → Int) (L : List Int) (v : Int) : occ τ L v ≤ (L.length : Int) := by
  unfold occ
  have := List.countP_le_length (p := fun p => decide (τ p = v)) (l := L)
  omega

/-- a common support of `(k, val)` from an upper support and a lower support -/
theorem gcc_support_mix (all : List Int) (hnodup : all.Nodup) (lo hi l u : Int → Int) (A B : Int)
    (hdom : ∀ x ∈ all, A ≤ lo x ∧ lo x ≤ hi x ∧ hi x < B)
    (hlu : ∀ v, A ≤ v → v < B → 0 ≤ l v ∧ l v ≤ u v)
    (k val : Int) (_hk : k ∈ all)
    (σU : Int → Int) (hU1 : ∀ x ∈ all, lo x ≤ σU x ∧ σU x ≤ hi x)
    (hU2 : ∀ v, A ≤ v → v < B → occ σU all v ≤ u v) (hUk : σU k = val)
    (σL : Int → Int) (hL1 : ∀ x ∈ all, lo x ≤ σL x ∧ σL x ≤ hi x)
    (hL2 : ∀ v, A ≤ v → v < B → l v ≤ occ σL all v) (hLk : σL k = val) :
    ∃ σ : Int → Int, (∀ x ∈ all, lo x ≤ σ x ∧ σ x ≤ hi x) ∧
      (∀ v, A ≤ v → v < B → l v ≤ occ σ all v ∧ occ σ all v ≤ u v) ∧ σ k = val := by
  -- the instance with `k` fixed to `val`
  have hkd := hdom k _hk
  have hUk' := hU1 k _hk
  rw [hUk] at hUk'
  have hdom' : ∀ x ∈ all, A ≤ (if x = k then val else lo x) ∧
      (if x = k then val else lo x) ≤ (if x = k then val else hi x) ∧
      (if x = k then val else hi x) < B := by
    intro x hx
    by_cases h : x = k
    · simp only [h, if_true]; omega
    · simp only [h, if_false]; exact hdom x hx
  have hin : ∀ (σ : Int → Int), (∀ x ∈ all, lo x ≤ σ x ∧ σ x ≤ hi x) → σ k = val →
      ∀ x ∈ all, (if x = k then val else lo x) ≤ σ x ∧ σ x ≤ (if x = k then val else hi x) := by
    intro σ h1 h2 x hx
    by_cases h : x = k
    · simp only [h, if_true]; omega
    · simp only [h, if_false]; exact h1 x hx
  have hHall := (gcc_no_solution_of_violated_set all (fun x => if x = k then val else lo x)
    (fun x => if x = k then val else hi x) σL l (fun _ => (all.length : Int)) A B
    (hin σL hL1 hLk)
    (fun p hp => ⟨(hdom' p hp).1, (hdom' p hp).2.2⟩)
    (fun v h1 h2 => ⟨hL2 v h1 h2, occ_le_length σL all v⟩)).2
  obtain ⟨σ, hs1, hs2⟩ := gcc_mix all hnodup (fun x => if x = k then val else lo x)
    (fun x => if x = k then val else hi x) l u A B hdom' hlu σU (hin σU hU1 hUk) hU2 hHall
  refine ⟨σ, ?_, hs2, ?_⟩
  · intro x hx
    have := hs1 x hx
    by_cases h : x = k
    · simp only [h, if_true] at this
      rw [h]; omega
    · simp only [h, if_false] at this; exact this
  · have := hs1 k _hk
    simp only [if_true] at this
    omega

end Gcc
end Nucs
