import NucsModel.Propagators.SupportCert
import NucsProofs.Propagators.ExactOfSupport
import NucsProofs.Propagators.AlldifferentReg
import NucsProofs.Propagators.GccReg
/-!
  Soundness of the support certificates of NucsModel/Propagators/SupportCert.lean and the
  INSTANCE-LEVEL form of C14 for the two Hall-interval propagators.

  `alldiffSupported B' = true` / `gccSupported ps B' = true` are evaluated by the test harness on every
  answer `B'` of alldifferent / gcc.  Only the Boolean verifiers matter for soundness (whatever the
  searches return is re-checked): a `true` proves that every bound of `B'` is attained by a solution
  inside `B'` (`Supported`), and then `exact_instance_of_support` (ExactOfSupport.lean) together with
  `Sound`, `Safe`, `ContractMono` gives the two conjuncts of `Exact` for that call.

  `Exact .alldifferent` and `Exact .gcc` themselves (for ALL inputs) are not proved.
-/
namespace Nucs

theorem inBoxB_iff : ∀ (t : List Int) (B : Box), inBoxB t B = true ↔ inBox t B
  | [], [] => by simp [inBoxB, inBox]
  | x :: xs, d :: ds => by
    simp only [inBoxB, inBox, inDom, Bool.and_eq_true, decide_eq_true_eq, inBoxB_iff xs ds, and_assoc]
  | [], _ :: _ => by simp [inBoxB, inBox]
  | _ :: _, [] => by simp [inBoxB, inBox]

/-! ### alldifferent -/

theorem alldiffSupportOk_sound {B : Box} {k : Nat} {v : Int} {t : List Int}
    (h : alldiffSupportOk B k v t = true) : inBox t B ∧ t.Nodup ∧ getI t k = v := by
  simp only [alldiffSupportOk, Bool.and_eq_true, decide_eq_true_eq, inBoxB_iff, nodupB_iff] at h
  exact ⟨h.1.1, h.1.2, h.2⟩

theorem alldiffHasSupport_sound {B : Box} {k : Nat} {v : Int} (h : alldiffHasSupport B k v = true)
    (ps : List Int) : ∃ t, inBox t B ∧ rel .alldifferent ps t ∧ getI t k = v := by
  unfold alldiffHasSupport at h
  split at h
  · next t _ => exact ⟨t, alldiffSupportOk_sound h⟩
  · exact absurd h (by simp)

/-- an accepted alldifferent certificate proves that every bound of `B` has a support -/
theorem alldiffSupported_sound {B : Box} (ps : List Int) (h : alldiffSupported B = true) :
    Supported .alldifferent ps B := by
  intro k hk
  simp only [alldiffSupported, List.all_eq_true, List.mem_range, Bool.and_eq_true] at h
  exact ⟨alldiffHasSupport_sound (h k hk).1 ps, alldiffHasSupport_sound (h k hk).2 ps⟩

/-! ### gcc -/

theorem gccSupportOk_sound {ps : List Int} {B : Box} {k : Nat} {v : Int} {t : List Int}
    (h : gccSupportOk ps B k v t = true) : inBox t B ∧ rel .gcc ps t ∧ getI t k = v := by
  simp only [gccSupportOk, Bool.and_eq_true, decide_eq_true_eq, inBoxB_iff, gccOkB_iff] at h
  exact ⟨h.1.1, h.1.2, h.2⟩

theorem gccHasSupport_sound {ps : List Int} {B : Box} {k : Nat} {v : Int}
    (h : gccHasSupport ps B k v = true) : ∃ t, inBox t B ∧ rel .gcc ps t ∧ getI t k = v := by
  unfold gccHasSupport at h
  split at h
  · next t _ => exact ⟨t, gccSupportOk_sound h⟩
  · exact absurd h (by simp)

/-- an accepted gcc certificate proves that every bound of `B` has a support -/
theorem gccSupported_sound {ps : List Int} {B : Box} (h : gccSupported ps B = true) :
    Supported .gcc ps B := by
  intro k hk
  simp only [gccSupported, List.all_eq_true, List.mem_range, Bool.and_eq_true] at h
  exact ⟨gccHasSupport_sound (h k hk).1, gccHasSupport_sound (h k hk).2⟩

/-! ### C14, instance level -/

/-- C14 for ONE alldifferent call whose answer carries an accepted support certificate: the two
    conjuncts of `Exact .alldifferent` for this call -/
theorem C14_alldifferent_instance {ps : List Int} {B : Box} {st : Status} {B' : Box}
    (hc : Contract .alldifferent ps B) (hne : B.Nonempty)
    (hrun : runAlg .alldifferent ps B = .ok (st, B')) (hst : st ≠ .inc)
    (hcert : alldiffSupported B' = true) :
    (∀ k, k < B'.length →
      (∃ t, inBox t B' ∧ rel .alldifferent ps t ∧ getI t k = (getDom B' k).1) ∧
      (∃ t, inBox t B' ∧ rel .alldifferent ps t ∧ getI t k = (getDom B' k).2)) ∧
    (∃ st', runAlg .alldifferent ps B' = .ok (st', B') ∧ st' ≠ .inc) :=
  exact_instance_of_support sound_alldifferent safe_alldifferent contractMono_alldifferent
    hc hne hc hrun hst (alldiffSupported_sound ps hcert)

/-- C14 for ONE gcc call whose answer carries an accepted support certificate: the two conjuncts of
    `Exact .gcc` for this call -/
theorem C14_gcc_instance {ps : List Int} {B : Box} {st : Status} {B' : Box}
    (hc : Contract .gcc ps B) (hne : B.Nonempty)
    (hrun : runAlg .gcc ps B = .ok (st, B')) (hst : st ≠ .inc)
    (hcert : gccSupported ps B' = true) :
    (∀ k, k < B'.length →
      (∃ t, inBox t B' ∧ rel .gcc ps t ∧ getI t k = (getDom B' k).1) ∧
      (∃ t, inBox t B' ∧ rel .gcc ps t ∧ getI t k = (getDom B' k).2)) ∧
    (∃ st', runAlg .gcc ps B' = .ok (st', B') ∧ st' ≠ .inc) :=
  exact_instance_of_support sound_gcc safe_gcc contractMono_gcc
    hc hne hc.2.2.1 hrun hst (gccSupported_sound hcert)

/-- the statement of `Exact a`, restricted to the calls whose answer is accepted by `cert` -/
def ExactWhenCertified (a : Alg) (cert : List Int → Box → Bool) : Prop :=
  ∀ ps B st B', Contract a ps B → B.Nonempty → runAlg a ps B = .ok (st, B') → st ≠ .inc →
    cert ps B' = true →
    (∀ k, k < B'.length →
      (∃ t, inBox t B' ∧ rel a ps t ∧ getI t k = (getDom B' k).1) ∧
      (∃ t, inBox t B' ∧ rel a ps t ∧ getI t k = (getDom B' k).2)) ∧
    (∃ st', runAlg a ps B' = .ok (st', B') ∧ st' ≠ .inc)

theorem exactWhenCertified_alldifferent : ExactWhenCertified .alldifferent (fun _ B' => alldiffSupported B') :=
  fun _ _ _ _ hc hne hrun hst hcert => C14_alldifferent_instance hc hne hrun hst hcert

theorem exactWhenCertified_gcc : ExactWhenCertified .gcc gccSupported :=
  fun _ _ _ _ hc hne hrun hst hcert => C14_gcc_instance hc hne hrun hst hcert

end Nucs
