import NucsProofs.Propagators.PortAlldiffBounds
/-!
  Functional correctness of the ported alldifferent, part 0: `update_bounds` links ranks and
  values — `bounds[ranks[v].min] = domains[v].min` and `bounds[ranks[v].max] = domains[v].max + 1`
  (PortAlldiffBounds proves the shape of `bounds` and the range of the ranks only).
-/
namespace Nucs
namespace AllDiff

/-- the value links established so far -/
structure VInv (domains : Arr2) (minsv maxsv : Array Int) (s : USt) : Prop where
  vmin : ∀ k, 0 ≤ k → k < s.2.2.2.2.2.1 →
    g s.1 (g2 s.2.1 (g minsv k)).1 = (g2 domains (g minsv k)).1
  vmax : ∀ k, 0 ≤ k → k < s.2.2.2.2.2.2.1 →
    g s.1 (g2 s.2.1 (g maxsv k)).2 = (g2 domains (g maxsv k)).2 + 1

/-- the state carried by a loop step -/
def stepState {σ : Type} : ForInStep σ → σ
  | .yield s => s
  | .done s => s

theorem ubMinJp_eq {n : Int} {domains : Arr2} {minsv maxsv : Array Int}
    (hc : UBCtx n domains minsv maxsv) (bounds : Array Int) (ranks : Arr2)
    (minv maxv i j last nb : Int) (done : Bool) (hsr : (ranks.size : Int) = n)
    (hi0 : 0 ≤ i) (hin : i < n) :
    ∃ mv', ubMinJp n domains minsv ranks minv maxv i j done bounds last nb =
      .ok (.yield (bounds, upd2 ranks (g minsv i) MIN nb, mv', maxv, last, i + 1, j, nb, done)) := by
  have hmr := hc.minr i hi0 hin
  have hms := hc.hmins
  have hdn := hc.hdn
  unfold ubMinJp
  rw [rd_ok minsv i hi0 (by omega), ok_bind, wr2_ok ranks _ MIN nb hmr.1 (by omega), ok_bind]
  simp only []
  by_cases hi1 : i + 1 < n
  · rw [if_pos hi1]
    have hmr' := hc.minr (i + 1) (by omega) hi1
    rw [rd_ok minsv (i + 1) (by omega) (by omega), ok_bind,
      rd2_min_ok domains _ hmr'.1 (by omega), ok_bind]
    exact ⟨_, rfl⟩
  · rw [if_neg hi1]
    exact ⟨_, rfl⟩

theorem ubMaxJp_eq {n : Int} {domains : Arr2} {minsv maxsv : Array Int}
    (hc : UBCtx n domains minsv maxsv) (bounds : Array Int) (ranks : Arr2)
    (minv maxv i j last nb : Int) (done : Bool) (hsr : (ranks.size : Int) = n)
    (hj0 : 0 ≤ j) (hjn : j < n) :
    ∃ r, ubMaxJp n domains maxsv ranks minv maxv i j done bounds last nb = .ok r ∧
      (∃ mx' dn', stepState r =
        (bounds, upd2 ranks (g maxsv j) MAX nb, minv, mx', last, i, j + 1, nb, dn')) ∧
      (∀ s', r = .done s' → j + 1 = n) := by
  have hmr := hc.maxr j hj0 hjn
  have hms := hc.hmaxs
  have hdn := hc.hdn
  unfold ubMaxJp
  rw [rd_ok maxsv j hj0 (by omega), ok_bind, wr2_ok ranks _ MAX nb hmr.1 (by omega), ok_bind]
  simp only []
  by_cases hj1 : j + 1 = n
  · have hcond : (j + 1 == n) = true := by simpa using hj1
    rw [if_pos hcond]
    exact ⟨_, rfl, ⟨_, _, rfl⟩, fun _ _ => hj1⟩
  · have hcond : ¬ (j + 1 == n) = true := by simpa using hj1
    rw [if_neg hcond]
    have hmr' := hc.maxr (j + 1) (by omega) (by omega)
    rw [rd_ok maxsv (j + 1) (by omega) (by omega), ok_bind,
      rd2_max_ok domains _ hmr'.1 (by omega), ok_bind]
    exact ⟨_, rfl, ⟨_, _, rfl⟩, fun s' h => by cases h⟩

/-- the links survive pushing a new bound -/
theorem vinv_push {n : Int} {sz : Nat} {domains : Arr2} {minsv maxsv bounds : Array Int}
    {ranks : Arr2} {i j nb : Int} (ha : UBArr n sz minsv maxsv bounds ranks i j nb) (v : Int)
    (hnb : 0 ≤ nb) (hsz : nb + 1 < sz)
    (hmin : ∀ k, 0 ≤ k → k < i → g bounds (g2 ranks (g minsv k)).1 = (g2 domains (g minsv k)).1)
    (hmax : ∀ k, 0 ≤ k → k < j →
      g bounds (g2 ranks (g maxsv k)).2 = (g2 domains (g maxsv k)).2 + 1) :
    (∀ k, 0 ≤ k → k < i →
      g (upd bounds (nb + 1) v) (g2 ranks (g minsv k)).1 = (g2 domains (g minsv k)).1) ∧
    (∀ k, 0 ≤ k → k < j →
      g (upd bounds (nb + 1) v) (g2 ranks (g maxsv k)).2 = (g2 domains (g maxsv k)).2 + 1) := by
  have hsb := ha.sb
  constructor
  · intro k h0 h1
    have := ha.rmin k h0 h1
    rw [g_upd_ne bounds _ v _ (by omega) (by omega) (by omega) (by omega)]
    exact hmin k h0 h1
  · intro k h0 h1
    have := ha.rmax k h0 h1
    rw [g_upd_ne bounds _ v _ (by omega) (by omega) (by omega) (by omega)]
    exact hmax k h0 h1

/-- the links after `ranks[minsv[i], MIN] = nb` when `bounds[nb]` is the minimum of that variable -/
theorem vinv_setMin {n : Int} {domains : Arr2} {minsv maxsv : Array Int}
    (hc : UBCtx n domains minsv maxsv) {bounds : Array Int} {ranks : Arr2} {i j nb : Int}
    (hsr : (ranks.size : Int) = n) (hi0 : 0 ≤ i) (hin : i < n) (hjn : j ≤ n)
    (hval : g bounds nb = (g2 domains (g minsv i)).1)
    (hmin : ∀ k, 0 ≤ k → k < i → g bounds (g2 ranks (g minsv k)).1 = (g2 domains (g minsv k)).1)
    (hmax : ∀ k, 0 ≤ k → k < j →
      g bounds (g2 ranks (g maxsv k)).2 = (g2 domains (g maxsv k)).2 + 1) :
    (∀ k, 0 ≤ k → k < i + 1 → g bounds (g2 (upd2 ranks (g minsv i) MIN nb) (g minsv k)).1 =
      (g2 domains (g minsv k)).1) ∧
    (∀ k, 0 ≤ k → k < j → g bounds (g2 (upd2 ranks (g minsv i) MIN nb) (g maxsv k)).2 =
      (g2 domains (g maxsv k)).2 + 1) := by
  have hmr := hc.minr i hi0 hin
  have hmin' : (MIN == MIN) = true := by decide
  constructor
  · intro k h0 h1
    have hk := hc.minr k h0 (by omega)
    rw [g2_upd2 ranks _ MIN nb _ hmr.1 (by omega) hk.1]
    by_cases hkk : g minsv k = g minsv i
    · simp only [hkk, if_true, hmin']; exact hval
    · simp only [hkk, if_false]
      by_cases hki : k = i
      · subst hki; exact absurd rfl hkk
      · exact hmin k h0 (by omega)
  · intro k h0 h1
    have hk := hc.maxr k h0 (by omega)
    rw [g2_upd2 ranks _ MIN nb _ hmr.1 (by omega) hk.1]
    by_cases hkk : g maxsv k = g minsv i
    · simp only [hkk, if_true, hmin']; rw [← hkk]; exact hmax k h0 h1
    · simp only [hkk, if_false]; exact hmax k h0 h1

theorem vinv_setMax {n : Int} {domains : Arr2} {minsv maxsv : Array Int}
    (hc : UBCtx n domains minsv maxsv) {bounds : Array Int} {ranks : Arr2} {i j nb : Int}
    (hsr : (ranks.size : Int) = n) (hj0 : 0 ≤ j) (hjn : j < n) (hin : i ≤ n)
    (hval : g bounds nb = (g2 domains (g maxsv j)).2 + 1)
    (hmin : ∀ k, 0 ≤ k → k < i → g bounds (g2 ranks (g minsv k)).1 = (g2 domains (g minsv k)).1)
    (hmax : ∀ k, 0 ≤ k → k < j →
      g bounds (g2 ranks (g maxsv k)).2 = (g2 domains (g maxsv k)).2 + 1) :
    (∀ k, 0 ≤ k → k < i → g bounds (g2 (upd2 ranks (g maxsv j) MAX nb) (g minsv k)).1 =
      (g2 domains (g minsv k)).1) ∧
    (∀ k, 0 ≤ k → k < j + 1 → g bounds (g2 (upd2 ranks (g maxsv j) MAX nb) (g maxsv k)).2 =
      (g2 domains (g maxsv k)).2 + 1) := by
  have hmr := hc.maxr j hj0 hjn
  have hmax' : (MAX == MIN) = false := by decide
  constructor
  · intro k h0 h1
    have hk := hc.minr k h0 (by omega)
    rw [g2_upd2 ranks _ MAX nb _ hmr.1 (by omega) hk.1]
    by_cases hkk : g minsv k = g maxsv j
    · simp only [hkk, if_true, hmax']; rw [← hkk]; exact hmin k h0 h1
    · simp only [hkk, if_false]; exact hmin k h0 h1
  · intro k h0 h1
    have hk := hc.maxr k h0 (by omega)
    rw [g2_upd2 ranks _ MAX nb _ hmr.1 (by omega) hk.1]
    by_cases hkk : g maxsv k = g maxsv j
    · simp only [hkk, if_true, hmax']; simp; exact hval
    · simp only [hkk, if_false]
      by_cases hki : k = j
      · subst hki; exact absurd rfl hkk
      · exact hmax k h0 (by omega)

/-- one iteration of the loop of `update_bounds` keeps the links -/
theorem ubBody_vl {n : Int} {sz : Nat} {domains : Arr2} {minsv maxsv : Array Int}
    (hc : UBCtx n domains minsv maxsv) (hsz : (sz : Int) = 2 * n + 2) (x : Nat) (s : USt)
    (hi : UBInv n sz domains minsv maxsv s) (hv : VInv domains minsv maxsv s)
    (r : ForInStep USt) (hr : ubBody n domains minsv maxsv x s = .ok r) :
    VInv domains minsv maxsv (stepState r) := by
  obtain ⟨bounds, ranks, minv, maxv, last, i, j, nb, done⟩ := s
  obtain ⟨ha, hi0, hin, hj0, hjn, hnb0, hnbij, hminv, hmaxv, hlast, hlmin, hlmax, hstart, hdone⟩ := hi
  obtain ⟨hvmin, hvmax⟩ := hv
  simp only at ha hi0 hin hj0 hjn hnb0 hnbij hminv hmaxv hlast hlmin hlmax hstart hdone hvmin hvmax
  have hsb := ha.sb
  have hsr := ha.sr
  unfold ubBody at hr
  simp only [] at hr
  by_cases hbr : i < n ∧ minv ≤ maxv
  · rw [if_pos hbr] at hr
    by_cases hne : minv = last
    · have hcond : ¬ (minv != last) = true := by simp [hne]
      rw [if_neg hcond] at hr
      obtain ⟨mv', he⟩ := ubMinJp_eq hc bounds ranks minv maxv i j last nb done hsr hi0 hbr.1
      rw [he] at hr
      injection hr with hr
      subst hr
      have hval : g bounds nb = (g2 domains (g minsv i)).1 := by rw [← hlast, ← hne, hminv hbr.1]
      obtain ⟨h1, h2⟩ := vinv_setMin hc hsr hi0 hbr.1 (by omega) hval hvmin hvmax
      exact ⟨h1, h2⟩
    · have hcond : (minv != last) = true := by simp [hne]
      rw [if_pos hcond, wr_ok bounds (nb + 1) minv (by omega) (by omega), ok_bind] at hr
      obtain ⟨mv', he⟩ := ubMinJp_eq hc (upd bounds (nb + 1) minv) ranks minv maxv i j minv (nb + 1)
        done hsr hi0 hbr.1
      rw [he] at hr
      injection hr with hr
      subst hr
      obtain ⟨p1, p2⟩ := vinv_push (domains := domains) ha minv hnb0 (by omega) hvmin hvmax
      have hval : g (upd bounds (nb + 1) minv) (nb + 1) = (g2 domains (g minsv i)).1 := by
        rw [g_upd_same bounds _ _ (by omega) (by omega)]; exact hminv hbr.1
      obtain ⟨h1, h2⟩ := vinv_setMin hc hsr hi0 hbr.1 (by omega) hval p1 p2
      exact ⟨h1, h2⟩
  · rw [if_neg hbr] at hr
    by_cases hne : maxv = last
    · have hcond : ¬ (maxv != last) = true := by simp [hne]
      rw [if_neg hcond] at hr
      obtain ⟨r', he, ⟨mx', dn', hst⟩, _⟩ := ubMaxJp_eq hc bounds ranks minv maxv i j last nb done hsr
        hj0 hjn
      rw [he] at hr
      injection hr with hr
      subst hr
      rw [hst]
      have hval : g bounds nb = (g2 domains (g maxsv j)).2 + 1 := by rw [← hlast, ← hne, hmaxv]
      obtain ⟨h1, h2⟩ := vinv_setMax hc hsr hj0 hjn hin hval hvmin hvmax
      exact ⟨h1, h2⟩
    · have hcond : (maxv != last) = true := by simp [hne]
      rw [if_pos hcond, wr_ok bounds (nb + 1) maxv (by omega) (by omega), ok_bind] at hr
      obtain ⟨r', he, ⟨mx', dn', hst⟩, _⟩ := ubMaxJp_eq hc (upd bounds (nb + 1) maxv) ranks minv maxv
        i j maxv (nb + 1) done hsr hj0 hjn
      rw [he] at hr
      injection hr with hr
      subst hr
      rw [hst]
      obtain ⟨p1, p2⟩ := vinv_push (domains := domains) ha maxv hnb0 (by omega) hvmin hvmax
      have hval : g (upd bounds (nb + 1) maxv) (nb + 1) = (g2 domains (g maxsv j)).2 + 1 := by
        rw [g_upd_same bounds _ _ (by omega) (by omega)]; exact hmaxv
      obtain ⟨h1, h2⟩ := vinv_setMax hc hsr hj0 hjn hin hval p1 p2
      exact ⟨h1, h2⟩

/-- the loop is left with `i = j = n` -/
theorem ubBody_done_idx {n : Int} {sz : Nat} {domains : Arr2} {minsv maxsv : Array Int}
    (hc : UBCtx n domains minsv maxsv) (hsz : (sz : Int) = 2 * n + 2) (x : Nat) (s s' : USt)
    (hi : UBInv n sz domains minsv maxsv s)
    (hr : ubBody n domains minsv maxsv x s = .ok (.done s')) :
    s'.2.2.2.2.2.1 = n ∧ s'.2.2.2.2.2.2.1 = n := by
  obtain ⟨bounds, ranks, minv, maxv, last, i, j, nb, done⟩ := s
  obtain ⟨ha, hi0, hin, hj0, hjn, hnb0, hnbij, hminv, hmaxv, hlast, hlmin, hlmax, hstart, hdone⟩ := hi
  simp only at ha hi0 hin hj0 hjn hnb0 hnbij hminv hmaxv hlast hlmin hlmax hstart hdone
  have hsb := ha.sb
  have hsr := ha.sr
  unfold ubBody at hr
  simp only [] at hr
  by_cases hbr : i < n ∧ minv ≤ maxv
  · rw [if_pos hbr] at hr
    by_cases hne : minv = last
    · have hcond : ¬ (minv != last) = true := by simp [hne]
      rw [if_neg hcond] at hr
      obtain ⟨mv', he⟩ := ubMinJp_eq hc bounds ranks minv maxv i j last nb done hsr hi0 hbr.1
      rw [he] at hr
      injection hr with hr
      cases hr
    · have hcond : (minv != last) = true := by simp [hne]
      rw [if_pos hcond, wr_ok bounds (nb + 1) minv (by omega) (by omega), ok_bind] at hr
      obtain ⟨mv', he⟩ := ubMinJp_eq hc (upd bounds (nb + 1) minv) ranks minv maxv i j minv (nb + 1)
        done hsr hi0 hbr.1
      rw [he] at hr
      injection hr with hr
      cases hr
  · rw [if_neg hbr] at hr
    have hieq : j + 1 = n → i = n := by
      intro hj1
      by_cases h : i < n
      · have h1 := hc.lastmax i hi0 h
        have h3 := hminv h
        have hjj : j = n - 1 := by omega
        subst hjj
        have : ¬ minv ≤ maxv := fun h' => hbr ⟨h, h'⟩
        omega
      · omega
    by_cases hne : maxv = last
    · have hcond : ¬ (maxv != last) = true := by simp [hne]
      rw [if_neg hcond] at hr
      obtain ⟨r', he, ⟨mx', dn', hst⟩, hdn⟩ := ubMaxJp_eq hc bounds ranks minv maxv i j last nb
        done hsr hj0 hjn
      rw [he] at hr
      injection hr with hr
      subst hr
      have hj1 := hdn s' rfl
      simp only [stepState] at hst
      rw [hst]
      exact ⟨hieq hj1, hj1⟩
    · have hcond : (maxv != last) = true := by simp [hne]
      rw [if_pos hcond, wr_ok bounds (nb + 1) maxv (by omega) (by omega), ok_bind] at hr
      obtain ⟨r', he, ⟨mx', dn', hst⟩, hdn⟩ := ubMaxJp_eq hc (upd bounds (nb + 1) maxv) ranks
        minv maxv i j maxv (nb + 1) done hsr hj0 hjn
      rw [he] at hr
      injection hr with hr
      subst hr
      have hj1 := hdn s' rfl
      simp only [stepState] at hst
      rw [hst]
      exact ⟨hieq hj1, hj1⟩

/-- `update_bounds_spec` together with the links between ranks and values -/
theorem update_bounds_links {n : Int} {sz : Nat} {domains : Arr2} {minsv maxsv : Array Int}
    (hc : UBCtx n domains minsv maxsv) (hsz : (sz : Int) = 2 * n + 2) (bounds : Array Int)
    (ranks : Arr2) (hsb : bounds.size = sz) (hsr : (ranks.size : Int) = n)
    (hsurjmin : ∀ v, 0 ≤ v → v < n → ∃ k, 0 ≤ k ∧ k < n ∧ g minsv k = v)
    (hsurjmax : ∀ v, 0 ≤ v → v < n → ∃ k, 0 ≤ k ∧ k < n ∧ g maxsv k = v) :
    ∃ r : Int × Array Int × Arr2, update_bounds bounds n domains ranks minsv maxsv = .ok r ∧
      1 ≤ r.1 ∧ r.1 ≤ 2 * n ∧ r.2.1.size = sz ∧ (r.2.2.size : Int) = n ∧
      (∀ k, 0 ≤ k → k < r.1 + 1 → g r.2.1 k < g r.2.1 (k + 1)) ∧
      g r.2.1 (r.1 + 1) = g r.2.1 r.1 + 2 ∧ g r.2.1 1 = g r.2.1 0 + 2 ∧
      ∀ v, 0 ≤ v → v < n → 1 ≤ (g2 r.2.2 v).1 ∧ (g2 r.2.2 v).1 ≤ r.1 ∧
        1 ≤ (g2 r.2.2 v).2 ∧ (g2 r.2.2 v).2 ≤ r.1 ∧
        g r.2.1 (g2 r.2.2 v).1 = (g2 domains v).1 ∧
        g r.2.1 (g2 r.2.2 v).2 = (g2 domains v).2 + 1 := by
  have hn := hc.hn
  have hm0 := hc.minr 0 (by omega) (by omega)
  have hx0 := hc.maxr 0 (by omega) (by omega)
  have hms := hc.hmins
  have hxs := hc.hmaxs
  have hdn := hc.hdn
  rw [update_bounds_eq, rd_ok minsv 0 (by omega) (by omega), ok_bind,
    rd2_min_ok domains _ hm0.1 (by omega), ok_bind, rd_ok maxsv 0 (by omega) (by omega), ok_bind,
    rd2_max_ok domains _ hx0.1 (by omega), ok_bind,
    wr_ok bounds 0 _ (by omega) (by omega), ok_bind, range_forIn_eq]
  refine except_bind_ok
    (P := fun s => UBPost n sz minsv maxsv s ∧
      (∀ k, 0 ≤ k → k < n → g s.1 (g2 s.2.1 (g minsv k)).1 = (g2 domains (g minsv k)).1) ∧
      (∀ k, 0 ≤ k → k < n → g s.1 (g2 s.2.1 (g maxsv k)).2 = (g2 domains (g maxsv k)).2 + 1))
    (forIn_list_except
      (Inv := fun (rest : List Nat) (s : USt) => UBInv n sz domains minsv maxsv s ∧
        VInv domains minsv maxsv s ∧
        2 * n - s.2.2.2.2.2.1 - s.2.2.2.2.2.2.1 ≤ rest.length)
      _ _ ?_ ?_ _ _ ?_) ?_
  · rintro x rest s ⟨hi, hv, hfuel⟩
    rcases ubBody_spec hc hsz x s hi with ⟨s', he, hi', hprog⟩ | ⟨s', he, hp⟩
    · left
      refine ⟨s', he, hi', ubBody_vl hc hsz x s hi hv _ he, ?_⟩
      simp only [List.length_cons] at hfuel
      omega
    · right
      have hv' := ubBody_vl hc hsz x s hi hv _ he
      simp only [stepState] at hv'
      -- at the exit `i = j = n`: the exit state has `UBArr … n n nb`
      obtain ⟨e1, e2⟩ := ubBody_done_idx hc hsz x s s' hi he
      refine ⟨s', he, hp, ?_, ?_⟩
      · intro k h0 h1
        exact hv'.vmin k h0 (by rw [e1]; exact h1)
      · intro k h0 h1
        exact hv'.vmax k h0 (by rw [e2]; exact h1)
  · rintro s ⟨hi, hv, hfuel⟩
    have := hi.in'
    have := hi.jn
    simp only [List.length_nil] at hfuel
    omega
  · refine ⟨⟨⟨by simp [hsb], hsr, fun k h0 h1 => by simp only at h1; omega,
      fun k h0 h1 => by simp only at h1; omega, fun k h0 h1 => by simp only at h1; omega⟩,
      by simp, by simp only; omega, by simp, by simp only; omega, by simp,
      by simp, fun _ => rfl, rfl, ?_, ?_, ?_, ?_, rfl⟩,
      ⟨fun k h0 h1 => by simp only at h1; omega, fun k h0 h1 => by simp only at h1; omega⟩, ?_⟩
    · simp only; rw [g_upd_same bounds 0 _ (by omega) (by omega)]
    · intro _; simp only; omega
    · simp only; have := hc.first; omega
    · left; exact ⟨rfl, rfl, rfl, rfl, hc.first⟩
    · simp only [List.length_range', fuel, size_upd]
      omega
  · rintro s ⟨hp, hvmin, hvmax⟩
    obtain ⟨b, r, minv, maxv, last, i, j, nb, done⟩ := s
    obtain ⟨ha, hnb1, hnb2, hbot, hdone⟩ := hp
    simp only at ha hnb1 hnb2 hbot hdone hvmin hvmax
    subst hdone
    have hsb' := ha.sb
    simp only [Bool.not_true, Bool.false_eq_true, if_false]
    unfold ubFinish
    simp only []
    rw [rd_ok b nb (by omega) (by omega), ok_bind, wr_ok b (nb + 1) _ (by omega) (by omega), ok_bind]
    refine ⟨_, rfl, ?_⟩
    simp only
    refine ⟨hnb1, hnb2, by simp [hsb'], ha.sr, ?_, ?_, ?_, ?_⟩
    · intro k h0 h1
      by_cases hk : k = nb
      · subst hk
        rw [g_upd_same b _ _ (by omega) (by omega),
          g_upd_ne b _ _ k (by omega) (by omega) h0 (by omega)]
        omega
      · rw [g_upd_ne b _ _ k (by omega) (by omega) h0 (by omega),
          g_upd_ne b _ _ (k + 1) (by omega) (by omega) (by omega) (by omega)]
        exact ha.mono k h0 (by omega)
    · rw [g_upd_same b _ _ (by omega) (by omega),
        g_upd_ne b _ _ nb (by omega) (by omega) (by omega) (by omega)]
    · rw [g_upd_ne b _ _ 1 (by omega) (by omega) (by omega) (by omega),
        g_upd_ne b _ _ 0 (by omega) (by omega) (by omega) (by omega)]
      exact hbot
    · intro v h0 h1
      obtain ⟨k, hk0, hk1, hkv⟩ := hsurjmin v h0 h1
      obtain ⟨l, hl0, hl1, hlv⟩ := hsurjmax v h0 h1
      have h1' := ha.rmin k hk0 hk1
      have h2' := ha.rmax l hl0 hl1
      have h3' := hvmin k hk0 hk1
      have h4' := hvmax l hl0 hl1
      rw [hkv] at h1' h3'
      rw [hlv] at h2' h4'
      refine ⟨h1'.1, h1'.2, h2'.1, h2'.2, ?_, ?_⟩
      · rw [g_upd_ne b _ _ _ (by omega) (by omega) (by omega) (by omega)]; exact h3'
      · rw [g_upd_ne b _ _ _ (by omega) (by omega) (by omega) (by omega)]; exact h4'

end AllDiff
end Nucs
