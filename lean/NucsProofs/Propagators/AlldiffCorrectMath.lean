import NucsProofs.Propagators.PortAlldiffLower
/-!
  Functional correctness of the ported alldifferent, part 1: the SEMANTIC loop invariant of
  `filter_lower`, on abstract functions (`tf df hf` for the arrays `t d h`, `bd` for `bounds`,
  `rx ry` for the two columns of `ranks`), and its preservation by one iteration described by the
  relation `LRel` (pure mathematics, no monads).  `filter_upper` reuses everything through the mirror
  image `k ↦ N - k`.

  `phi P k = bounds[k] - #{p ∈ P : minrank p < k}`; the roots of the `t`-forest are the strict
  left-to-right records of `phi`, `d[z]` is the difference between consecutive records.
-/
namespace Nucs
namespace AllDiff

/-- number of processed variables whose min-rank is below `k` -/
def cntLt (rx : Int → Int) (P : List Int) (k : Int) : Int :=
  ((P.countP (fun p => decide (rx p < k)) : Nat) : Int)

/-- number of processed variables whose ranks lie inside `[ja, yb]` -/
def cinR (rx ry : Int → Int) (P : List Int) (ja yb : Int) : Int :=
  ((P.countP (fun p => decide (ja ≤ rx p) && decide (ry p ≤ yb)) : Nat) : Int)

def phi (bd rx : Int → Int) (P : List Int) (k : Int) : Int := bd k - cntLt rx P k

theorem cntLt_nil (rx : Int → Int) (k : Int) : cntLt rx [] k = 0 := rfl

theorem cntLt_cons (rx : Int → Int) (p : Int) (P : List Int) (k : Int) :
    cntLt rx (p :: P) k = cntLt rx P k + (if rx p < k then 1 else 0) := by
  unfold cntLt
  rw [List.countP_cons]
  by_cases h : rx p < k <;> simp [h]

theorem cntLt_snoc (rx : Int → Int) (P : List Int) (v k : Int) :
    cntLt rx (P ++ [v]) k = cntLt rx P k + (if rx v < k then 1 else 0) := by
  unfold cntLt
  rw [List.countP_append]
  by_cases h : rx v < k <;> simp [h]

theorem cntLt_nonneg (rx : Int → Int) (P : List Int) (k : Int) : 0 ≤ cntLt rx P k := by
  unfold cntLt; omega

theorem cinR_nil (rx ry : Int → Int) (a b : Int) : cinR rx ry [] a b = 0 := rfl

theorem cinR_cons (rx ry : Int → Int) (p : Int) (P : List Int) (a b : Int) :
    cinR rx ry (p :: P) a b = cinR rx ry P a b + (if a ≤ rx p ∧ ry p ≤ b then 1 else 0) := by
  unfold cinR
  rw [List.countP_cons]
  by_cases h : a ≤ rx p ∧ ry p ≤ b
  · simp [h]
  · rw [if_neg h]
    have : (decide (a ≤ rx p) && decide (ry p ≤ b)) = false := by
      simpa using h
    simp [this]

theorem cinR_snoc (rx ry : Int → Int) (P : List Int) (v a b : Int) :
    cinR rx ry (P ++ [v]) a b = cinR rx ry P a b + (if a ≤ rx v ∧ ry v ≤ b then 1 else 0) := by
  unfold cinR
  rw [List.countP_append]
  by_cases h : a ≤ rx v ∧ ry v ≤ b
  · simp [h]
  · rw [if_neg h]
    have : (decide (a ≤ rx v) && decide (ry v ≤ b)) = false := by
      simpa using h
    simp [this]

theorem cinR_nonneg (rx ry : Int → Int) (P : List Int) (a b : Int) : 0 ≤ cinR rx ry P a b := by
  unfold cinR; omega

theorem cinR_sublist (rx ry : Int → Int) {P Q : List Int} (h : P.Sublist Q) (a b : Int) :
    cinR rx ry P a b ≤ cinR rx ry Q a b := by
  unfold cinR
  have := h.countP_le (p := fun p => decide (a ≤ rx p) && decide (ry p ≤ b))
  omega

theorem phi_snoc (bd rx : Int → Int) (P : List Int) (v k : Int) :
    phi bd rx (P ++ [v]) k = phi bd rx P k - (if rx v < k then 1 else 0) := by
  unfold phi; rw [cntLt_snoc]; omega

/-- when every processed variable has its max-rank at most `Y ≤ yb`, the number of variables inside
    `[ja, yb]` is a difference of two prefix counts -/
theorem cinR_eq_cnt (rx ry : Int → Int) (Y : Int) :
    ∀ (P : List Int), (∀ p ∈ P, rx p < ry p ∧ ry p ≤ Y) → ∀ ja yb, ja ≤ Y → Y ≤ yb →
      cinR rx ry P ja yb = cntLt rx P Y - cntLt rx P ja := by
  intro P
  induction P with
  | nil => intro _ ja yb _ _; simp [cinR_nil, cntLt_nil]
  | cons p P ih =>
    intro hP ja yb h1 h2
    have hp := hP p List.mem_cons_self
    have := ih (fun q hq => hP q (List.mem_cons_of_mem _ hq)) ja yb h1 h2
    rw [cinR_cons, cntLt_cons, cntLt_cons, this]
    by_cases h3 : ja ≤ rx p
    · rw [if_pos ⟨h3, by omega⟩, if_pos (by omega), if_neg (by omega)]; omega
    · rw [if_neg (fun h => h3 h.1), if_pos (by omega), if_pos (by omega)]; omega

theorem cntLt_top (rx ry : Int → Int) (Y : Int) :
    ∀ (P : List Int), (∀ p ∈ P, rx p < ry p ∧ ry p ≤ Y) → ∀ k, Y ≤ k →
      cntLt rx P k = (P.length : Int) := by
  intro P
  induction P with
  | nil => intro _ k _; simp [cntLt_nil]
  | cons p P ih =>
    intro hP k hk
    have hp := hP p List.mem_cons_self
    rw [cntLt_cons, ih (fun q hq => hP q (List.mem_cons_of_mem _ hq)) k hk, if_pos (by omega)]
    simp

/-! ### the setting -/

structure RankCtx (N : Int) (bd rx ry : Int → Int) (all : List Int) : Prop where
  hN : 2 ≤ N
  mono : ∀ i j, 0 ≤ i → i < j → j ≤ N → bd i < bd j
  rk : ∀ u ∈ all, 1 ≤ rx u ∧ rx u < ry u ∧ ry u < N

theorem RankCtx.le {N : Int} {bd rx ry : Int → Int} {all : List Int} (h : RankCtx N bd rx ry all)
    (i j : Int) (h0 : 0 ≤ i) (hij : i ≤ j) (hj : j ≤ N) : bd i ≤ bd j := by
  by_cases he : i = j
  · subst he; exact Int.le_refl _
  · exact Int.le_of_lt (h.mono i j h0 (by omega) hj)

theorem RankCtx.lt_of_bd_lt {N : Int} {bd rx ry : Int → Int} {all : List Int}
    (h : RankCtx N bd rx ry all) (i j : Int) (h0 : 0 ≤ j) (hi : i ≤ N) (hlt : bd i < bd j) :
    i < j := by
  by_cases hc : i < j
  · exact hc
  · have := h.le j i h0 (by omega) hi; omega

/-- the variables with a strictly smaller maximum than `u` -/
def Sm (ry : Int → Int) (all : List Int) (u : Int) : List Int :=
  all.filter (fun p => decide (ry p < ry u))

/-- the variables other than `u` -/
def Oth (all : List Int) (u : Int) : List Int := all.filter (fun p => decide (p ≠ u))

/-- what is recorded about the new minimum `m` of a processed variable `u`: it is `bounds[w]` with
    `w ≥ minrank u`; if it was raised, `[bounds[ja], bounds[w])` is filled by the other variables
    (soundness); `w` lies in no interval filled by variables with a smaller maximum
    (completeness) -/
def RFact (N : Int) (bd rx ry : Int → Int) (all : List Int) (u m : Int) : Prop :=
  ∃ w, m = bd w ∧ rx u ≤ w ∧ w ≤ N ∧
    (w = rx u ∨ ∃ ja, 1 ≤ ja ∧ ja ≤ rx u ∧ cinR rx ry (Oth all u) ja w ≥ bd w - bd ja) ∧
    (∀ ja yb, 1 ≤ ja → ja < yb → yb ≤ N → cinR rx ry (Sm ry all u) ja yb ≥ bd yb - bd ja →
      ¬ (ja ≤ w ∧ w < yb))

/-- structural facts about a loop-invariant state (they follow from the colleague's `LInv`) -/
structure LStruct (N : Int) (tf df hf : Int → Int) : Prop where
  ct : LChain tf N
  ch : LChain hf N
  t1 : tf 1 = 0
  dpos : ∀ i, 1 ≤ i → i ≤ N → tf i < i → 1 ≤ df i

/-- the semantic loop invariant of `filter_lower`; `P` = processed variables, `Y` = max-rank of the
    last one -/
structure LSem (N : Int) (bd rx ry : Int → Int) (all P : List Int) (Y : Int)
    (tf df hf nm : Int → Int) : Prop where
  psub : ∀ p ∈ P, p ∈ all
  y0 : 0 ≤ Y
  yN : Y < N
  pY : ∀ p ∈ P, ry p ≤ Y
  s1a : ∀ z, 1 ≤ z → z ≤ N → tf z < z → df z = phi bd rx P z - phi bd rx P (tf z)
  s1b : ∀ z, 1 ≤ z → z ≤ N → tf z < z → ∀ k, tf z ≤ k → k < z →
    phi bd rx P k ≤ phi bd rx P (tf z)
  s2 : ∀ k, 0 ≤ k → k ≤ Y → phi bd rx P k ≤ phi bd rx P Y
  s2r : ∀ ja yb, 1 ≤ ja → ja < yb → yb ≤ N → cinR rx ry P ja yb ≤ bd yb - bd ja
  s3 : ∀ k r, 1 ≤ k → k < r → r ≤ N → hf r < r → (∀ m, k ≤ m → m < r → hf m > m) →
    ∃ ja, 1 ≤ ja ∧ ja ≤ k ∧ cinR rx ry P ja r ≥ bd r - bd ja
  s4 : ∀ ja yb, 1 ≤ ja → ja < yb → yb ≤ N → cinR rx ry P ja yb ≥ bd yb - bd ja →
    ∀ k, ja ≤ k → k < yb → hf k > k
  s5 : ∀ u ∈ all, (u ∈ P → RFact N bd rx ry all u (nm u)) ∧ (u ∉ P → nm u = bd (rx u))

/-- one iteration up to the failure test: `z0` = root of the group of `x + 1`, `z` = root after the
    possible merge, `tf' df'` the arrays at the test (or after the path compression) -/
structure LPre (N : Int) (x : Int) (tf df tf' df' : Int → Int) (z0 z : Int) : Prop where
  z0lo : x + 1 ≤ z0
  z0hi : z0 ≤ N
  z0root : tf z0 < z0
  z0first : ∀ k, x + 1 ≤ k → k < z0 → tf k > k
  dz0 : df' z0 = df z0 - 1
  doth : ∀ k, 1 ≤ k → k ≤ N → k ≠ z0 → df' k = df k
  mrg : (df z0 - 1 = 0 ∧ z0 < z ∧ z ≤ N ∧ tf z < z ∧ (∀ k, z0 < k → k < z → tf k > k) ∧
          (∀ k, 1 ≤ k → k ≤ N → (tf' k < k ↔ (tf k < k ∧ k ≠ z0))) ∧ tf' z = tf z0 ∧
          (∀ k, 1 ≤ k → k ≤ N → tf k < k → k ≠ z → k ≠ z0 → tf' k = tf k)) ∨
        (df z0 - 1 ≠ 0 ∧ z = z0 ∧ (∀ k, 1 ≤ k → k ≤ N → (tf' k < k ↔ tf k < k)) ∧
          (∀ k, 1 ≤ k → k ≤ N → tf k < k → tf' k = tf k))

/-- one successful iteration -/
structure LRel (N : Int) (bd : Int → Int) (x y : Int) (tf df hf tf' df' hf' : Int → Int)
    (z0 z w : Int) : Prop extends LPre N x tf df tf' df' z0 z where
  nofail : ¬ (df' z + bd y < bd z)
  wlo : x ≤ w
  whi : w ≤ N
  wroot : hf w < w
  wall : ∀ k, x ≤ k → k < w → hf k > k
  mk_e : df' z + bd y = bd z → tf z0 = 1 ∨ hf (tf z0 - 1) < tf z0 - 1
  mk_y : df' z + bd y = bd z → hf y < y
  hroots : ∀ k, 1 ≤ k → k ≤ N →
    (hf' k < k ↔ (hf k < k ∧ ¬ (df' z + bd y = bd z ∧ tf z0 - 1 < k ∧ k < y)))

section step
variable {N : Int} {bd rx ry : Int → Int} {all P : List Int} {Y : Int}
  {tf df hf nm tf' df' hf' : Int → Int}

theorem LStruct.root_ge_one (hs : LStruct N tf df hf) (r : Int) (h2 : 2 ≤ r) (hN : r ≤ N)
    (hr : tf r < r) : 1 ≤ tf r := by
  by_cases h : 1 ≤ tf r
  · exact h
  · have := (hs.ct.down r (by omega) hN hr).1 1 (by have := (hs.ct.rng r (by omega) hN).1; omega)
      (by omega)
    have := hs.t1
    omega

/-- the roots of the `t`-forest are strict left-to-right records of `phi` -/
theorem LSem.record (hs : LStruct N tf df hf) (hsem : LSem N bd rx ry all P Y tf df hf nm) :
    ∀ (n : Nat) (r : Int), r ≤ n → 1 ≤ r → r ≤ N → tf r < r →
      ∀ k, 0 ≤ k → k < r → phi bd rx P k < phi bd rx P r := by
  intro n
  induction n with
  | zero => intro r h0 h1; omega
  | succ n ih =>
    intro r hrn h1 hN hr k hk0 hkr
    have ha := hsem.s1a r h1 hN hr
    have hd := hs.dpos r h1 hN hr
    by_cases hk : tf r ≤ k
    · have := hsem.s1b r h1 hN hr k hk hkr
      omega
    · have hrng := hs.ct.rng r h1 hN
      rcases (hs.ct.down r h1 hN hr).2 with h0 | h0
      · omega
      · have := ih (tf r) (by omega) (by omega) (by omega) h0 k hk0 (by omega)
        omega

theorem LSem.record' (hs : LStruct N tf df hf) (hsem : LSem N bd rx ry all P Y tf df hf nm)
    (r : Int) (h1 : 1 ≤ r) (hN : r ≤ N) (hr : tf r < r) (k : Int) (hk0 : 0 ≤ k) (hkr : k < r) :
    phi bd rx P k < phi bd rx P r :=
  hsem.record hs r.toNat r (by omega) h1 hN hr k hk0 hkr

/-- facts shared by a successful and a failing iteration -/
structure PreFacts (N : Int) (bd rx : Int → Int) (P : List Int) (v : Int)
    (tf tf' df' : Int → Int) (z0 z : Int) : Prop where
  j1 : 1 ≤ tf z0
  jx : tf z0 ≤ rx v
  below : ∀ k, 0 ≤ k → k ≤ rx v → phi bd rx P k ≤ phi bd rx P (tf z0)
  sbelow : ∀ k, 0 ≤ k → k < tf z0 → phi bd rx P k < phi bd rx P (tf z0)
  zlo : rx v < z
  zhi : z ≤ N
  zroot : tf' z < z
  zj : tf' z = tf z0
  dz : 1 ≤ df' z
  r1a : ∀ r, 1 ≤ r → r ≤ N → tf' r < r →
    df' r = phi bd rx (P ++ [v]) r - phi bd rx (P ++ [v]) (tf' r)
  r1b : ∀ r, 1 ≤ r → r ≤ N → tf' r < r → ∀ k, tf' r ≤ k → k < r →
    phi bd rx (P ++ [v]) k ≤ phi bd rx (P ++ [v]) (tf' r)

theorem pre_facts (hs : LStruct N tf df hf) (hsem : LSem N bd rx ry all P Y tf df hf nm)
    {v z0 z : Int} (hx1 : 1 ≤ rx v) (hpre : LPre N (rx v) tf df tf' df' z0 z) :
    PreFacts N bd rx P v tf tf' df' z0 z := by
  have hz0r := hpre.z0root
  have hz01 : 1 ≤ z0 := by have := hpre.z0lo; omega
  have hz0N := hpre.z0hi
  have hdown0 := hs.ct.down z0 hz01 hz0N hz0r
  have hrng0 := hs.ct.rng z0 hz01 hz0N
  have hj1 : 1 ≤ tf z0 := hs.root_ge_one z0 (by have := hpre.z0lo; omega) hz0N hz0r
  have hjx : tf z0 ≤ rx v := by
    by_cases h : tf z0 ≤ rx v
    · exact h
    · rcases hdown0.2 with h0 | h0
      · omega
      · have := hpre.z0first (tf z0) (by omega) hz0r; omega
  have hjroot : tf (tf z0) < tf z0 := by
    rcases hdown0.2 with h0 | h0
    · omega
    · exact h0
  have hsbelow : ∀ k, 0 ≤ k → k < tf z0 → phi bd rx P k < phi bd rx P (tf z0) :=
    fun k h0 h1 => hsem.record' hs (tf z0) hj1 (by omega) hjroot k h0 h1
  have hbelow : ∀ k, 0 ≤ k → k ≤ rx v → phi bd rx P k ≤ phi bd rx P (tf z0) := by
    intro k h0 h1
    by_cases hk : k < tf z0
    · exact Int.le_of_lt (hsbelow k h0 hk)
    · exact hsem.s1b z0 hz01 hz0N hz0r k (by omega) (by have := hpre.z0lo; omega)
  -- every root of `tf` above `x` other than `z0` lies above `z0`, and so does its target
  have habove : ∀ r, 1 ≤ r → r ≤ N → tf r < r → r ≠ z0 → rx v < r → z0 < r ∧ z0 ≤ tf r := by
    intro r h1 hN hr hne hxr
    have hzr : z0 < r := by
      by_cases h : z0 < r
      · exact h
      · have := hpre.z0first r (by omega) (by omega); omega
    refine ⟨hzr, ?_⟩
    by_cases h : z0 ≤ tf r
    · exact h
    · have := (hs.ct.down r h1 hN hr).1 z0 (by omega) hzr; omega
  -- the roots of `tf`, read with the new `phi` and the decremented `d`
  have hpa : ∀ r, 1 ≤ r → r ≤ N → tf r < r →
      df' r = phi bd rx (P ++ [v]) r - phi bd rx (P ++ [v]) (tf r) := by
    intro r h1 hN hr
    rw [phi_snoc, phi_snoc]
    have ha := hsem.s1a r h1 hN hr
    by_cases hrz : r = z0
    · subst hrz
      rw [hpre.dz0, if_pos (by have := hpre.z0lo; omega), if_neg (by omega)]; omega
    · rw [hpre.doth r h1 hN hrz]
      by_cases hxr : rx v < r
      · have := habove r h1 hN hr hrz hxr
        rw [if_pos hxr, if_pos (by have := hpre.z0lo; omega)]; omega
      · rw [if_neg hxr, if_neg (by omega)]; omega
  have hpb : ∀ r, 1 ≤ r → r ≤ N → tf r < r → ∀ k, tf r ≤ k → k < r →
      phi bd rx (P ++ [v]) k ≤ phi bd rx (P ++ [v]) (tf r) := by
    intro r h1 hN hr k hk1 hk2
    rw [phi_snoc, phi_snoc]
    have hb := hsem.s1b r h1 hN hr k hk1 hk2
    by_cases hxt : rx v < tf r
    · rw [if_pos hxt, if_pos (by omega)]; omega
    · rw [if_neg hxt]
      by_cases hxk : rx v < k
      · rw [if_pos hxk]; omega
      · rw [if_neg hxk]; omega
  rcases hpre.mrg with ⟨hd0, hzz, hzN, hzr, hbetween, hroots, hzv, hoth⟩ |
      ⟨hd0, hzz, hroots, hoth⟩
  · -- merge
    have htz : tf z = z0 := by
      have hdz := hs.ct.down z (by omega) hzN hzr
      have hge : z0 ≤ tf z := by
        by_cases h : z0 ≤ tf z
        · exact h
        · have := hdz.1 z0 (by omega) hzz; omega
      by_cases he : tf z = z0
      · exact he
      · have h1 := hbetween (tf z) (by omega) hzr
        rcases hdz.2 with h0 | h0 <;> omega
    have hdz0 : df' z0 = 0 := by rw [hpre.dz0]; exact hd0
    have hpz0 := hpa z0 hz01 hz0N hz0r
    have hzne : z ≠ z0 := by omega
    refine ⟨hj1, hjx, hbelow, hsbelow, by have := hpre.z0lo; omega, hzN,
      (hroots z (by omega) hzN).2 ⟨hzr, hzne⟩, hzv, ?_, ?_, ?_⟩
    · rw [hpre.doth z (by omega) hzN hzne]; exact hs.dpos z (by omega) hzN hzr
    · intro r h1 hN hr
      have hr' := (hroots r h1 hN).1 hr
      by_cases hrz : r = z
      · subst hrz
        rw [hzv]
        have := hpa r h1 hN hr'.1
        rw [htz] at this
        omega
      · rw [hoth r h1 hN hr'.1 hrz hr'.2]; exact hpa r h1 hN hr'.1
    · intro r h1 hN hr k hk1 hk2
      have hr' := (hroots r h1 hN).1 hr
      by_cases hrz : r = z
      · subst hrz
        rw [hzv] at hk1 ⊢
        by_cases hkz : k < z0
        · exact hpb z0 hz01 hz0N hz0r k hk1 hkz
        · have := hpb r h1 hN hr'.1 k (by omega) hk2
          rw [htz] at this
          omega
      · rw [hoth r h1 hN hr'.1 hrz hr'.2] at hk1 ⊢
        exact hpb r h1 hN hr'.1 k hk1 hk2
  · -- no merge
    subst hzz
    have hzr' : tf' z < z := (hroots z hz01 hz0N).2 hz0r
    refine ⟨hj1, hjx, hbelow, hsbelow, by have := hpre.z0lo; omega, hz0N, hzr',
      hoth z hz01 hz0N hz0r, ?_, ?_, ?_⟩
    · have := hs.dpos z hz01 hz0N hz0r
      rw [hpre.dz0]; omega
    · intro r h1 hN hr
      have hr' := (hroots r h1 hN).1 hr
      rw [hoth r h1 hN hr']; exact hpa r h1 hN hr'
    · intro r h1 hN hr k hk1 hk2
      have hr' := (hroots r h1 hN).1 hr
      rw [hoth r h1 hN hr'] at hk1 ⊢
      exact hpb r h1 hN hr' k hk1 hk2

theorem phi_top (bd rx ry : Int → Int) (Y : Int) (P : List Int)
    (hP : ∀ p ∈ P, rx p < ry p ∧ ry p ≤ Y) (k : Int) (hk : Y ≤ k) :
    phi bd rx P k = bd k - (P.length : Int) := by
  unfold phi; rw [cntLt_top rx ry Y P hP k hk]

theorem cinR_phi (bd rx ry : Int → Int) (Y : Int) (P : List Int)
    (hP : ∀ p ∈ P, rx p < ry p ∧ ry p ≤ Y) (ja yb : Int) (h1 : ja ≤ Y) (h2 : Y ≤ yb) :
    cinR rx ry P ja yb = (bd Y - bd ja) - (phi bd rx P Y - phi bd rx P ja) := by
  rw [cinR_eq_cnt rx ry Y P hP ja yb h1 h2]; unfold phi; omega

/-- the processed variables, the new one included, have their max-rank at most `ry v` -/
theorem snoc_ranks (hctx : RankCtx N bd rx ry all) (hsem : LSem N bd rx ry all P Y tf df hf nm)
    {v : Int} (hv : v ∈ all) (hYv : Y ≤ ry v) :
    ∀ p ∈ P ++ [v], rx p < ry p ∧ ry p ≤ ry v := by
  intro p hp
  rcases List.mem_append.1 hp with h | h
  · exact ⟨(hctx.rk p (hsem.psub p h)).2.1, by have := hsem.pY p h; omega⟩
  · have : p = v := by simpa using h
    subst this
    exact ⟨(hctx.rk p hv).2.1, Int.le_refl _⟩

/-- a failing test exhibits an over-full interval of ranks -/
theorem lsem_fail (hctx : RankCtx N bd rx ry all) (hs : LStruct N tf df hf)
    (hsem : LSem N bd rx ry all P Y tf df hf nm) {v z0 z : Int} (hv : v ∈ all) (hYv : Y ≤ ry v)
    (hpre : LPre N (rx v) tf df tf' df' z0 z) (hfail : df' z + bd (ry v) < bd z) :
    1 ≤ tf z0 ∧ tf z0 < ry v ∧
      cinR rx ry (P ++ [v]) (tf z0) (ry v) > bd (ry v) - bd (tf z0) := by
  obtain ⟨hx1, hxy, hyN⟩ := hctx.rk v hv
  have pf := pre_facts hs hsem hx1 hpre
  have hP' := snoc_ranks hctx hsem hv hYv
  have hzy : ry v ≤ z := by
    by_cases h : ry v ≤ z
    · exact h
    · have := hctx.le z (ry v) (by have := pf.zlo; omega) (by omega) (by omega)
      have := pf.dz; omega
  refine ⟨pf.j1, by have := pf.jx; omega, ?_⟩
  rw [cinR_phi bd rx ry (ry v) (P ++ [v]) hP' (tf z0) (ry v) (by have := pf.jx; omega)
    (Int.le_refl _)]
  have h1 := pf.r1a z (by have := pf.zlo; omega) pf.zhi pf.zroot
  rw [pf.zj] at h1
  have h2 := phi_top bd rx ry (ry v) (P ++ [v]) hP' z hzy
  have h3 := phi_top bd rx ry (ry v) (P ++ [v]) hP' (ry v) (Int.le_refl _)
  omega

/-- the semantic invariant is preserved by a successful iteration -/
theorem lsem_step (hctx : RankCtx N bd rx ry all) (hs : LStruct N tf df hf)
    (hs' : LStruct N tf' df' hf')
    (hsem : LSem N bd rx ry all P Y tf df hf nm) {v z0 z w : Int} {nm' : Int → Int}
    (hv : v ∈ all) (hYv : Y ≤ ry v)
    (hSm : ∀ a b, cinR rx ry (Sm ry all v) a b ≤ cinR rx ry P a b)
    (hOth : ∀ a b, cinR rx ry P a b ≤ cinR rx ry (Oth all v) a b)
    (hrel : LRel N bd (rx v) (ry v) tf df hf tf' df' hf' z0 z w)
    (hnm : ∀ u ∈ all, nm' u = if u = v then bd w else nm u) :
    LSem N bd rx ry all (P ++ [v]) (ry v) tf' df' hf' nm' := by
  obtain ⟨hx1, hxy, hyN⟩ := hctx.rk v hv
  have pf := pre_facts hs hsem hx1 hrel.toLPre
  have hP' := snoc_ranks hctx hsem hv hYv
  have hPr : ∀ p ∈ P, rx p < ry p ∧ ry p ≤ Y :=
    fun p hp => ⟨(hctx.rk p (hsem.psub p hp)).2.1, hsem.pY p hp⟩
  have hzlo := pf.zlo
  have hzhi := pf.zhi
  have hj1 := pf.j1
  have hjx := pf.jx
  have hdz := pf.dz
  have hclub : ∀ k, 0 ≤ k → k ≤ ry v → phi bd rx P k ≤ phi bd rx P (ry v) := by
    intro k h0 h1
    have hy := phi_top bd rx ry Y P hPr (ry v) hYv
    by_cases hk : k ≤ Y
    · have := hsem.s2 k h0 hk
      have hY := phi_top bd rx ry Y P hPr Y (Int.le_refl _)
      have := hctx.le Y (ry v) hsem.y0 hYv (by omega)
      omega
    · have hk' := phi_top bd rx ry Y P hPr k (by omega)
      have := hctx.le k (ry v) h0 h1 (by omega)
      omega
  have hphi' : ∀ k, phi bd rx (P ++ [v]) k = phi bd rx P k - (if rx v < k then 1 else 0) :=
    fun k => phi_snoc bd rx P v k
  have ez := hphi' z; rw [if_pos hzlo] at ez
  have ey := hphi' (ry v); rw [if_pos hxy] at ey
  have ej := hphi' (tf z0); rw [if_neg (by omega)] at ej
  have hzr1 := pf.r1a z (by omega) hzhi pf.zroot
  rw [pf.zj] at hzr1
  have hjy : phi bd rx (P ++ [v]) (tf z0) ≤ phi bd rx (P ++ [v]) (ry v) := by
    by_cases hzy : ry v ≤ z
    · have h2 := phi_top bd rx ry (ry v) (P ++ [v]) hP' z hzy
      have h3 := phi_top bd rx ry (ry v) (P ++ [v]) hP' (ry v) (Int.le_refl _)
      have := hrel.nofail
      omega
    · have h4 := hclub z (by omega) (by omega)
      omega
  have s2' : ∀ k, 0 ≤ k → k ≤ ry v →
      phi bd rx (P ++ [v]) k ≤ phi bd rx (P ++ [v]) (ry v) := by
    intro k h0 h1
    have ek := hphi' k
    by_cases hk : rx v < k
    · rw [if_pos hk] at ek
      have := hclub k h0 h1; omega
    · rw [if_neg hk] at ek
      have := pf.below k h0 (by omega); omega
  -- the marking test in terms of `phi`
  have hmkphi : df' z + bd (ry v) = bd z →
      phi bd rx (P ++ [v]) (ry v) = phi bd rx (P ++ [v]) (tf z0) := by
    intro hmk
    have hzy : ry v < z := hctx.lt_of_bd_lt (ry v) z (by omega) (by omega) (by omega)
    have h2 := phi_top bd rx ry (ry v) (P ++ [v]) hP' z (by omega)
    have h3 := phi_top bd rx ry (ry v) (P ++ [v]) hP' (ry v) (Int.le_refl _)
    omega
  have hphimk : phi bd rx (P ++ [v]) (ry v) = phi bd rx (P ++ [v]) (tf z0) →
      df' z + bd (ry v) = bd z := by
    intro he
    by_cases hzy : ry v ≤ z
    · have h2 := phi_top bd rx ry (ry v) (P ++ [v]) hP' z hzy
      have h3 := phi_top bd rx ry (ry v) (P ++ [v]) hP' (ry v) (Int.le_refl _)
      omega
    · have h4 := hclub z (by omega) (by omega)
      omega
  refine ⟨?_, by omega, hyN, fun p hp => (hP' p hp).2, pf.r1a, pf.r1b, s2', ?_, ?_, ?_, ?_⟩
  · intro p hp
    rcases List.mem_append.1 hp with h | h
    · exact hsem.psub p h
    · have : p = v := by simpa using h
      rw [this]; exact hv
  · -- s2r
    intro ja yb h1 h2 h3
    by_cases hin : ja ≤ rx v ∧ ry v ≤ yb
    · rw [cinR_phi bd rx ry (ry v) (P ++ [v]) hP' ja yb (by omega) hin.2]
      have := s2' ja (by omega) (by omega)
      have := hctx.le (ry v) yb (by omega) hin.2 h3
      omega
    · rw [cinR_snoc, if_neg hin]
      have := hsem.s2r ja yb h1 h2 h3; omega
  · -- s3
    intro k r hk1 hkr hrN hr hall
    have hr' := (hrel.hroots r (by omega) hrN).1 hr
    have hup_old : ∀ m, k ≤ m → m < r →
        ¬ (df' z + bd (ry v) = bd z ∧ tf z0 - 1 < m ∧ m < ry v) → hf m > m := by
      intro m h1 h2 h3
      have := hall m h1 h2
      have hne := (hs.ch.rng m (by omega) (by omega)).2.2
      by_cases hlt : hf m < m
      · have := (hrel.hroots m (by omega) (by omega)).2 ⟨hlt, h3⟩; omega
      · omega
    by_cases hmk : df' z + bd (ry v) = bd z
    · by_cases hry : r = ry v
      · have hkj : tf z0 ≤ k := by
          by_cases h : tf z0 ≤ k
          · exact h
          · rcases hrel.mk_e hmk with h1 | h1
            · omega
            · have := (hrel.hroots (tf z0 - 1) (by omega) (by omega)).2 ⟨h1, fun h => by omega⟩
              have := hall (tf z0 - 1) (by omega) (by omega)
              omega
        refine ⟨tf z0, hj1, hkj, ?_⟩
        rw [hry, cinR_phi bd rx ry (ry v) (P ++ [v]) hP' (tf z0) (ry v) (by omega) (Int.le_refl _)]
        have := hmkphi hmk
        omega
      · have hout : ∀ m, k ≤ m → m < r →
            ¬ (df' z + bd (ry v) = bd z ∧ tf z0 - 1 < m ∧ m < ry v) := by
          intro m h1 h2 h3
          have hnz : ¬ (tf z0 - 1 < r ∧ r < ry v) := fun h => hr'.2 ⟨hmk, h⟩
          have hry2 : ry v < r := by omega
          have hyup := hall (ry v) (by omega) hry2
          have := (hrel.hroots (ry v) (by omega) (by omega)).2
            ⟨hrel.mk_y hmk, fun h => by omega⟩
          omega
        obtain ⟨ja, h1, h2, h3⟩ := hsem.s3 k r hk1 hkr hrN hr'.1
          (fun m a b => hup_old m a b (hout m a b))
        exact ⟨ja, h1, h2, by rw [cinR_snoc]; split <;> omega⟩
    · obtain ⟨ja, h1, h2, h3⟩ := hsem.s3 k r hk1 hkr hrN hr'.1
        (fun m a b => hup_old m a b (fun h => hmk h.1))
      exact ⟨ja, h1, h2, by rw [cinR_snoc]; split <;> omega⟩
  · -- s4
    intro ja yb h1 h2 h3 hc k hk1 hk2
    have hne := (hs'.ch.rng k (by omega) (by omega)).2.2
    by_cases hlt : hf' k < k
    · exfalso
      have hk' := (hrel.hroots k (by omega) (by omega)).1 hlt
      by_cases hold : cinR rx ry P ja yb ≥ bd yb - bd ja
      · have := hsem.s4 ja yb h1 h2 h3 hold k hk1 hk2; omega
      · by_cases hin : ja ≤ rx v ∧ ry v ≤ yb
        · have hcp := cinR_phi bd rx ry (ry v) (P ++ [v]) hP' ja yb (by omega) hin.2
          have hs2' := s2' ja (by omega) (by omega)
          have hyb : yb = ry v := by
            have : ¬ ry v < yb := fun h => by
              have := hctx.mono (ry v) yb (by omega) h h3; omega
            omega
          have eja := hphi' ja; rw [if_neg (by omega)] at eja
          have hjja : tf z0 ≤ ja := by
            by_cases h : tf z0 ≤ ja
            · exact h
            · have := pf.sbelow ja (by omega) (by omega)
              rw [hyb] at hc hcp
              omega
          have hb := pf.r1b z (by omega) hzhi pf.zroot ja (by rw [pf.zj]; exact hjja) (by omega)
          rw [pf.zj] at hb
          have hmk : df' z + bd (ry v) = bd z := by
            apply hphimk
            rw [hyb] at hc hcp
            omega
          exact hk'.2 ⟨hmk, by omega, by omega⟩
        · rw [cinR_snoc, if_neg hin] at hc; omega
    · omega
  · -- s5
    intro u hu
    constructor
    · intro hup
      by_cases huv : u = v
      · subst huv
        rw [hnm u hu, if_pos rfl]
        refine ⟨w, rfl, hrel.wlo, hrel.whi, ?_, ?_⟩
        · by_cases hwx : w = rx u
          · left; exact hwx
          · right
            obtain ⟨ja, h1, h2, h3⟩ := hsem.s3 (rx u) w hx1 (by have := hrel.wlo; omega) hrel.whi
              hrel.wroot hrel.wall
            exact ⟨ja, h1, h2, by have := hOth ja w; omega⟩
        · intro ja yb h1 h2 h3 hc h45
          have := hsem.s4 ja yb h1 h2 h3 (by have := hSm ja yb; omega) w h45.1 h45.2
          have := hrel.wroot; omega
      · rw [hnm u hu, if_neg huv]
        have : u ∈ P := by
          rcases List.mem_append.1 hup with h | h
          · exact h
          · simp at h; exact absurd h huv
        exact (hsem.s5 u hu).1 this
    · intro hup
      have huv : u ≠ v := fun h => hup (by simp [h])
      rw [hnm u hu, if_neg huv]
      exact (hsem.s5 u hu).2 (fun h => hup (List.mem_append_left _ h))

end step

/-- the semantic invariant holds after the initialisation loop -/
theorem lsem_init {N : Int} {bd rx ry : Int → Int} {all : List Int}
    (hctx : RankCtx N bd rx ry all) {tf df hf nm : Int → Int}
    (ht : ∀ k, 1 ≤ k → k ≤ N → tf k = k - 1) (hh : ∀ k, 1 ≤ k → k ≤ N → hf k = k - 1)
    (hd : ∀ k, 1 ≤ k → k ≤ N → df k = bd k - bd (k - 1))
    (hnm : ∀ u ∈ all, nm u = bd (rx u)) :
    LSem N bd rx ry all [] 0 tf df hf nm := by
  have hN := hctx.hN
  have hphi : ∀ k, phi bd rx [] k = bd k := by intro k; simp [phi, cntLt_nil]
  refine ⟨fun p hp => (by cases hp), Int.le_refl _, by omega, fun p hp => (by cases hp), ?_, ?_, ?_,
    ?_, ?_, ?_, ?_⟩
  · intro z h1 h2 _
    rw [hphi, hphi, ht z h1 h2, hd z h1 h2]
  · intro z h1 h2 _ k hk1 hk2
    rw [ht z h1 h2] at hk1 ⊢
    have : k = z - 1 := by omega
    rw [this]; exact Int.le_refl _
  · intro k h0 h1
    have : k = 0 := by omega
    rw [this]; exact Int.le_refl _
  · intro ja yb h1 h2 h3
    rw [cinR_nil]
    have := hctx.mono ja yb (by omega) h2 h3; omega
  · intro k r h1 h2 h3 _ hall
    have := hall k (Int.le_refl _) h2
    rw [hh k h1 (by omega)] at this; omega
  · intro ja yb h1 h2 h3 hc
    rw [cinR_nil] at hc
    have := hctx.mono ja yb (by omega) h2 h3; omega
  · intro u hu
    exact ⟨fun h => (by cases h), fun _ => hnm u hu⟩

end AllDiff
end Nucs
