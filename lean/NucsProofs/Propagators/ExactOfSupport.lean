import NucsProofs.Basic
/-!
  C14 at INSTANCE level: from a support certificate of a returned box to the two conjuncts of `Exact`.

  `Supported a ps B'` says that every bound of `B'` is attained by a solution of the documented
  relation inside `B'` (this is the first conjunct of `Exact` for the answer `B'`).  For an algorithm
  that is `Sound`, a supported box is a fixpoint: a second call cannot fail (a solution exists) and
  cannot shrink anything (every bound is the value of a solution, and solutions are kept).

  Nothing here is specific to one algorithm; the lemma is used for the two Hall-interval propagators
  (alldifferent, gcc) whose completeness is not proved but CHECKED on every answer
  (NucsModel/Propagators/SupportCert.lean, NucsProofs/Propagators/SupportCertProofs.lean).
-/
namespace Nucs

/-- every bound of `B'` is attained by a solution of `rel a ps` inside `B'` -/
def Supported (a : Alg) (ps : List Int) (B' : Box) : Prop :=
  ∀ k, k < B'.length →
    (∃ t, inBox t B' ∧ rel a ps t ∧ getI t k = (getDom B' k).1) ∧
    (∃ t, inBox t B' ∧ rel a ps t ∧ getI t k = (getDom B' k).2)

/-- a supported box with at least one variable contains a solution -/
theorem Supported.exists_solution {a : Alg} {ps : List Int} {B' : Box} (hsup : Supported a ps B')
    (hpos : 1 ≤ B'.length) : ∃ t, inBox t B' ∧ rel a ps t := by
  obtain ⟨⟨t, ht, hr, _⟩, _⟩ := hsup 0 (by omega)
  exact ⟨t, ht, hr⟩

/-- a sound algorithm can neither fail on nor shrink a supported box -/
theorem fixpoint_of_support {a : Alg} (hs : Sound a) {ps : List Int} {B' : Box}
    (hc : Contract a ps B') (hne : B'.Nonempty) (hpos : 1 ≤ B'.length) (hsup : Supported a ps B')
    {st'' : Status} {B'' : Box} (hrun : runAlg a ps B' = .ok (st'', B'')) :
    st'' ≠ .inc ∧ B'' = B' := by
  obtain ⟨hs1, hs2⟩ := hs ps B' st'' B'' hc hne hrun
  have hst : st'' ≠ .inc := by
    intro h
    obtain ⟨t, ht, hr⟩ := hsup.exists_solution hpos
    exact hs2 h t ht hr
  refine ⟨hst, ?_⟩
  obtain ⟨hle, hne'', hkeep⟩ := hs1 hst
  have hlen := Box.le_length hle
  apply Box.ext_get hlen
  intro k hk
  have hk' : k < B'.length := by omega
  have hb := Box.le_get k hle hk'
  obtain ⟨⟨t1, ht1, hr1, he1⟩, ⟨t2, ht2, hr2, he2⟩⟩ := hsup k hk'
  have h1 := inBox_get k (hkeep t1 ht1 hr1) hk
  have h2 := inBox_get k (hkeep t2 ht2 hr2) hk
  rw [he1] at h1; rw [he2] at h2
  have e1 : (getDom B'' k).1 = (getDom B' k).1 := by omega
  have e2 : (getDom B'' k).2 = (getDom B' k).2 := by omega
  exact Prod.ext e1 e2

/-- the two conjuncts of `Exact a` for ONE call `runAlg a ps B = .ok (st, B')` whose answer carries a
    support certificate -/
theorem exact_instance_of_support {a : Alg} (hs : Sound a) (hsafe : Safe a) (hmono : ContractMono a)
    {ps : List Int} {B : Box} {st : Status} {B' : Box}
    (hc : Contract a ps B) (hne : B.Nonempty) (hpos : 1 ≤ B.length)
    (hrun : runAlg a ps B = .ok (st, B')) (hst : st ≠ .inc) (hsup : Supported a ps B') :
    (∀ k, k < B'.length →
      (∃ t, inBox t B' ∧ rel a ps t ∧ getI t k = (getDom B' k).1) ∧
      (∃ t, inBox t B' ∧ rel a ps t ∧ getI t k = (getDom B' k).2)) ∧
    (∃ st', runAlg a ps B' = .ok (st', B') ∧ st' ≠ .inc) := by
  refine ⟨hsup, ?_⟩
  obtain ⟨hle, hne', _⟩ := (hs ps B st B' hc hne hrun).1 hst
  have hc' : Contract a ps B' := hmono ps B B' hc hle
  have hpos' : 1 ≤ B'.length := by rw [Box.le_length hle]; exact hpos
  obtain ⟨⟨st'', B''⟩, hrun'⟩ := hsafe ps B' hc' hne'
  obtain ⟨hst'', hB''⟩ := fixpoint_of_support hs hc' hne' hpos' hsup hrun'
  exact ⟨st'', by rw [hrun', hB''], hst''⟩

end Nucs
