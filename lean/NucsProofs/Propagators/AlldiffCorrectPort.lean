import NucsProofs.Propagators.AlldiffCorrectBounds
import NucsProofs.Propagators.AlldiffCorrectUpper
import NucsProofs.Propagators.AlldiffCorrectVal
import NucsProofs.Propagators.PortAlldiff
/-!
  Functional correctness of the ported alldifferent, part 5: `compute_domains_alldifferent` as a
  whole.  `update_bounds` (with the rank/value links), `filter_lower`, `filter_upper` are chained
  and their rank-level results are restated for values (`PassVal`).
-/
namespace Nucs
namespace AllDiff

/-! ### `argsort` as a list -/

theorem perm_insertIdx (key : Int → Int) (i : Int) : ∀ l : List Int, (insertIdx key i l).Perm (i :: l)
  | [] => List.Perm.refl _
  | j :: js => by
    unfold insertIdx
    split
    · exact List.Perm.refl _
    · exact ((perm_insertIdx key i js).cons j).trans (List.Perm.swap i j js)

theorem perm_foldl_insertIdx (key : Int → Int) : ∀ (is acc : List Int),
    (is.foldl (fun acc i => insertIdx key i acc) acc).Perm (acc ++ is)
  | [], acc => by simp
  | i :: is, acc => by
    simp only [List.foldl_cons]
    refine (perm_foldl_insertIdx key is (insertIdx key i acc)).trans ?_
    refine ((perm_insertIdx key i acc).append_right is).trans ?_
    simpa using (List.perm_middle (l₁ := acc) (a := i) (l₂ := is)).symm

theorem nodup_rangeUp (a b : Int) : (rangeUp a b).Nodup := by
  unfold rangeUp List.Nodup
  rw [List.pairwise_map]
  refine (List.nodup_range (n := (b - a).toNat)).imp ?_
  intro x y h he
  simp only [Int.ofNat_eq_natCast] at he
  omega

theorem argsort_list (keys : Array Int) :
    (argsort keys).toList.Perm (rangeUp 0 keys.size) ∧
    (argsort keys).toList.Pairwise (fun a b => g keys a ≤ g keys b) := by
  have hf := foldl_insertIdx (fun j => keys.getD j.toNat 0) (rangeUp 0 keys.size) []
    List.Pairwise.nil
  have hp := perm_foldl_insertIdx (fun j => keys.getD j.toNat 0) (rangeUp 0 keys.size) []
  simp only at hf
  have hA : (argsort keys).toList = (rangeUp 0 keys.size).foldl
      (fun acc i => insertIdx (fun j => keys.getD j.toNat 0) i acc) [] := rfl
  rw [hA]
  exact ⟨by simpa using hp, hf.2.2⟩

theorem toList_getElem_g (a : Array Int) (k : Nat) (hk : k < a.toList.length) :
    a.toList[k] = g a (k : Int) := by
  have hk' : k < a.size := by simpa using hk
  simp [g, hk']

/-- the list of the entries of `msv` read from the last index down to `0` -/
theorem rangeDown_map_g (msv : Array Int) (n : Int) (hn : n = msv.size) :
    (rangeDown (n - 1) (-1)).map (g msv) = msv.toList.reverse := by
  apply List.ext_getElem
  · simp [rangeDown]; omega
  · intro k h1 h2
    simp only [rangeDown, List.getElem_map, List.getElem_range, List.getElem_reverse,
      Int.ofNat_eq_natCast]
    have hlen : msv.toList.length = msv.size := by simp
    have hk : k < msv.size := by simpa using h2
    rw [toList_getElem_g]
    congr 1
    simp only [Array.length_toList]
    omega

theorem PassVal.congr {all : List Int} {lo hi nm nm' : Int → Int} (h : PassVal all lo hi nm)
    (he : ∀ u ∈ all, nm' u = nm u) : PassVal all lo hi nm' := by
  refine ⟨h.hall, ?_, ?_, ?_⟩
  · intro u hu; rw [he u hu]; exact h.ge u hu
  · intro u hu val h1 h2; rw [he u hu] at h2; exact h.snd u hu val h1 h2
  · intro u hu a b h1 h2 h3; rw [he u hu]; exact h.cmp u hu a b h1 h2 h3

/-- the three phases of `compute_domains_alldifferent`, in terms of values.  `allL` (the
    variables by increasing maximum) and `allU` (by decreasing minimum) are two enumerations of the
    indices `0 … n-1`; the facts about `filter_upper` are stated for the mirrored domains
    `[-max - 1, -min - 1]`. -/
theorem compute_domains_sem (domains : Arr2) (parameters : Array Int) (hn : 1 ≤ domains.size)
    (hdom : ∀ v : Int, 0 ≤ v → v < domains.size → (g2 domains v).1 ≤ (g2 domains v).2) :
    ∃ st dom' allL allU, compute_domains_alldifferent domains parameters = .ok (st, dom') ∧
      allL.Perm (rangeUp 0 domains.size) ∧ allU.Perm (rangeUp 0 domains.size) ∧
      ((st = .inc ∧
          ((∃ a b, a ≤ b ∧ cinV (fun u => (g2 domains u).1) (fun u => (g2 domains u).2) allL a b >
              b - a + 1) ∨
           (∃ a b, a ≤ b ∧ cinV (fun u => - (g2 domains u).2 - 1) (fun u => - (g2 domains u).1 - 1)
              allU a b > b - a + 1))) ∨
       (st = .cons ∧ dom'.size = domains.size ∧
          PassVal allL (fun u => (g2 domains u).1) (fun u => (g2 domains u).2)
            (fun u => (g2 dom' u).1) ∧
          PassVal allU (fun u => - (g2 domains u).2 - 1) (fun u => - (g2 domains u).1 - 1)
            (fun u => - (g2 dom' u).2 - 1))) := by
  have hctx0 := ubctx_of_argsort domains hn hdom
  obtain ⟨hs1, hr1, hj1, _⟩ := argsort_spec (domains.map (·.1))
  obtain ⟨hs2, hr2, hj2, _⟩ := argsort_spec (domains.map (·.2))
  obtain ⟨hpermU0, hsortU0⟩ := argsort_list (domains.map (·.1))
  obtain ⟨hpermL, hsortL0⟩ := argsort_list (domains.map (·.2))
  simp only [Array.size_map] at hs1 hr1 hj1 hs2 hr2 hj2 hpermU0 hpermL
  have hszI : (((2 * (domains.size : Int) + 2).toNat : Nat) : Int) = 2 * (domains.size : Int) + 2 := by
    omega
  obtain ⟨⟨nb, bounds, ranks⟩, hub, hnb1, hnb2, hbs, hrs, hmono, htop, hbot, hranks⟩ :=
    update_bounds_links hctx0 hszI
      (Array.replicate (2 * (domains.size : Int) + 2).toNat 0)
      (Array.replicate (domains.size : Int).toNat (0, 0)) (by simp) (by simp) hj1 hj2
  simp only at hnb1 hnb2 hbs hrs hmono htop hbot hranks
  have hb : BCtx bounds (nb + 1) := by
    refine ⟨by omega, by omega, hmono, ?_, hbot⟩
    have : nb + 1 - 1 = nb := by omega
    rw [this]; exact htop
  -- ranks of a variable
  have hrk : ∀ v : Int, 0 ≤ v → v < domains.size →
      1 ≤ (g2 ranks v).1 ∧ (g2 ranks v).1 < (g2 ranks v).2 ∧ (g2 ranks v).2 ≤ nb := by
    intro v h0 h1
    obtain ⟨a1, a2, a3, a4, a5, a6⟩ := hranks v h0 h1
    refine ⟨a1, ?_, a4⟩
    by_cases hlt : (g2 ranks v).1 < (g2 ranks v).2
    · exact hlt
    · have := hb.le' (g2 ranks v).2 (g2 ranks v).1 (by omega) (by omega) (by omega)
      have := hdom v h0 h1
      omega
  have hmemL : ∀ v ∈ (argsort (domains.map (·.2))).toList, 0 ≤ v ∧ v < (domains.size : Int) := by
    intro v hv
    have := (hpermL.mem_iff).1 hv
    rwa [mem_rangeUp] at this
  have hmemU0 : ∀ v ∈ (argsort (domains.map (·.1))).toList, 0 ≤ v ∧ v < (domains.size : Int) := by
    intro v hv
    have := (hpermU0.mem_iff).1 hv
    rwa [mem_rangeUp] at this
  have hctxL : RankCtx (nb + 1) (g bounds) (fun v => (g2 ranks v).1) (fun v => (g2 ranks v).2)
      (argsort (domains.map (·.2))).toList := by
    refine ⟨by omega, fun i j h0 hij hj => hb.lt' i j h0 hij hj, ?_⟩
    intro u hu
    have hm := hmemL u hu
    have := hrk u hm.1 hm.2
    omega
  have hnodupL : (argsort (domains.map (·.2))).toList.Nodup :=
    (hpermL.nodup_iff).2 (nodup_rangeUp _ _)
  have hsortedL : (argsort (domains.map (·.2))).toList.Pairwise
      (fun a b => (g2 ranks a).2 ≤ (g2 ranks b).2) := by
    refine hsortL0.imp_of_mem ?_
    intro a b ha hb' hab
    have hma := hmemL a ha
    have hmb := hmemL b hb'
    rw [g_map_snd domains a hma.1 hma.2, g_map_snd domains b hmb.1 hmb.2] at hab
    have ra := hranks a hma.1 hma.2
    have rb := hranks b hmb.1 hmb.2
    by_cases hle : (g2 ranks a).2 ≤ (g2 ranks b).2
    · exact hle
    · have := hb.lt' (g2 ranks b).2 (g2 ranks a).2 (by omega) (by omega) (by omega)
      omega
  unfold compute_domains_alldifferent
  simp only []
  rw [hub, ok_bind]
  simp only []
  have hnbeq : nb = nb + 1 - 1 := by omega
  obtain ⟨⟨ok, t', d', h', dom1⟩, hfl, hfalse, htrue⟩ := filter_lower_sem
    (sz := (2 * (domains.size : Int) + 2).toNat) hb (domains.size : Int)
    (Array.replicate (2 * (domains.size : Int) + 2).toNat 0)
    (Array.replicate (2 * (domains.size : Int) + 2).toNat 0)
    (Array.replicate (2 * (domains.size : Int) + 2).toNat 0)
    domains ranks (argsort (domains.map (·.2))) (by simp) (by simp) (by simp) (by omega)
    (by omega) hmemL hctxL hnodupL hsortedL
    (by
      intro v hv
      have hm := hmemL v hv
      exact (hranks v hm.1 hm.2).2.2.2.2.1.symm)
  rw [← hnbeq] at hfl
  rw [hfl, ok_bind]
  simp only at hfalse htrue ⊢
  have hloL : ∀ u ∈ (argsort (domains.map (·.2))).toList,
      (fun u => (g2 domains u).1) u = g bounds ((fun v => (g2 ranks v).1) u) := by
    intro u hu
    have hm := hmemL u hu
    exact (hranks u hm.1 hm.2).2.2.2.2.1.symm
  have hhiL : ∀ u ∈ (argsort (domains.map (·.2))).toList,
      (fun u => (g2 domains u).2) u + 1 = g bounds ((fun v => (g2 ranks v).2) u) := by
    intro u hu
    have hm := hmemL u hu
    exact (hranks u hm.1 hm.2).2.2.2.2.2.symm
  cases ok with
  | false =>
    refine ⟨.inc, dom1, _, _, rfl, hpermL, hpermL, Or.inl ⟨rfl, Or.inl ?_⟩⟩
    exact failVal_of_rank hctxL hloL hhiL (hfalse rfl)
  | true =>
    obtain ⟨hs1', hs2', hs3', hpost⟩ := htrue rfl
    simp only [Bool.not_true, Bool.false_eq_true, if_false]
    have hpvL := passVal_of_rank hctxL hloL hhiL hpost.hallR (fun u => (g2 dom1 u).1) hpost.fact
    have hallU : (rangeDown ((domains.size : Int) - 1) (-1)).map (g (argsort (domains.map (·.1)))) =
        (argsort (domains.map (·.1))).toList.reverse := rangeDown_map_g _ _ (by omega)
    generalize hUdef : (argsort (domains.map (·.1))).toList.reverse = allU at hallU
    have hpermU : allU.Perm (rangeUp 0 domains.size) := by
      rw [← hUdef]; exact (List.reverse_perm _).trans hpermU0
    have hmemU : ∀ v ∈ allU, 0 ≤ v ∧ v < (domains.size : Int) := by
      intro v hv
      have := (hpermU.mem_iff).1 hv
      rwa [mem_rangeUp] at this
    have hnodupU : allU.Nodup := (hpermU.nodup_iff).2 (nodup_rangeUp _ _)
    have hsortedU : allU.Pairwise (fun a b => (g2 ranks b).1 ≤ (g2 ranks a).1) := by
      rw [← hUdef, List.pairwise_reverse]
      refine hsortU0.imp_of_mem ?_
      intro a b ha hb' hab
      have hma := hmemU0 a ha
      have hmb := hmemU0 b hb'
      rw [g_map_fst domains a hma.1 hma.2, g_map_fst domains b hmb.1 hmb.2] at hab
      have ra := hranks a hma.1 hma.2
      have rb := hranks b hmb.1 hmb.2
      by_cases hle : (g2 ranks a).1 ≤ (g2 ranks b).1
      · exact hle
      · have := hb.lt' (g2 ranks b).1 (g2 ranks a).1 (by omega) (by omega) (by omega)
        omega
    have hsz1 := hpost.size
    obtain ⟨⟨ok2, t2, d2, h2, dom2⟩, hfu, hfalse2, htrue2⟩ := filter_upper_sem
      (sz := (2 * (domains.size : Int) + 2).toNat) hb (domains.size : Int) t' d' h' dom1 ranks
      (argsort (domains.map (·.1))) hs1' hs2' hs3' (by omega) (by omega) (by omega)
      (by
        intro i h0 h1
        have := hr1 i h0 h1
        omega)
      allU hallU.symm
      (by
        intro v hv
        have hm := hmemU v hv
        exact hrk v hm.1 hm.2)
      hnodupU hsortedU
      (by
        intro v hv
        have hm := hmemU v hv
        rw [hpost.maxs v hm.1]
        exact (hranks v hm.1 hm.2).2.2.2.2.2.symm)
    rw [hfu, ok_bind]
    simp only at hfalse2 htrue2 ⊢
    have hctxU : RankCtx (nb + 1) (mbd (nb + 1) (g bounds)) (fun v => nb + 1 - (g2 ranks v).2)
        (fun v => nb + 1 - (g2 ranks v).1) allU := by
      refine ⟨by omega, ?_, ?_⟩
      · intro i j h0 hij hj
        simp only [mbd]
        have := hb.lt' (nb + 1 - j) (nb + 1 - i) (by omega) (by omega) (by omega)
        omega
      · intro u hu
        have hm := hmemU u hu
        have := hrk u hm.1 hm.2
        omega
    have hloU : ∀ u ∈ allU, (fun u => - (g2 domains u).2 - 1) u =
        mbd (nb + 1) (g bounds) ((fun v => nb + 1 - (g2 ranks v).2) u) := by
      intro u hu
      have hm := hmemU u hu
      have := (hranks u hm.1 hm.2).2.2.2.2.2
      simp only [mbd, Int.sub_sub_self]
      omega
    have hhiU : ∀ u ∈ allU, (fun u => - (g2 domains u).1 - 1) u + 1 =
        mbd (nb + 1) (g bounds) ((fun v => nb + 1 - (g2 ranks v).1) u) := by
      intro u hu
      have hm := hmemU u hu
      have := (hranks u hm.1 hm.2).2.2.2.2.1
      simp only [mbd, Int.sub_sub_self]
      omega
    cases ok2 with
    | false =>
      refine ⟨.inc, dom2, _, allU, rfl, hpermL, hpermU, Or.inl ⟨rfl, Or.inr ?_⟩⟩
      exact failVal_of_rank hctxU hloU hhiU (hfalse2 rfl)
    | true =>
      have hpostU := htrue2 rfl
      refine ⟨.cons, dom2, _, allU, rfl, hpermL, hpermU, Or.inr ⟨rfl, ?_, ?_, ?_⟩⟩
      · rw [hpostU.size, hsz1]
      · refine hpvL.congr ?_
        intro u hu
        have hm := hmemL u hu
        exact hpostU.mins u hm.1
      · exact passVal_of_rank hctxU hloU hhiU hpostU.hallR _ hpostU.fact

end AllDiff
end Nucs
