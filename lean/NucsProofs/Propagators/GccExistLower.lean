import NucsProofs.Propagators.GccExistMix
/-!
  HALL'S CONDITION FOR THE LOWER CAPACITIES from a matching at the level of the cells
  (pure counting, no algorithm).

  Bounds `bnd 0 < … < bnd N`; the cell `k` is `[bnd (k-1), bnd k)`; the domain of the variable `u`
  is the union of the cells `rx u + 1, …, ry u`; the used variable `u` takes the cell `cf u`; every
  cell is taken by exactly as many used variables as its demand.  Then every set `R` of values
  has a demand which is at most the number of the variables whose domain meets `R`
  (`lower_hall_of_cells`: the hypothesis `hL` of `gcc_mix`).
-/
namespace Nucs
namespace Gcc

/-- telescoping: the sum of the differences of `cum` -/
theorem vsum_tele (cum l : Int → Int) (hl : ∀ v, cum (v + 1) - cum v = l v) {a b : Int}
    (hab : a ≤ b) : vsum l a b = cum b - cum a := by
  have : ∀ n : Nat, vsum l a (a + n) = cum (a + n) - cum a := by
    intro n
    induction n with
    | zero => simp [vsum_empty l (Int.le_refl a)]
    | succ n ih =>
      have e : a + ((n + 1 : Nat) : Int) = (a + n) + 1 := by omega
      rw [e, vsum_succ l (by omega), ih]
      have := hl (a + n)
      omega
  have h := this (b - a).toNat
  have e : a + ((b - a).toNat : Int) = b := by omega
  rw [e] at h; exact h

/-- the demand of the part `R` of a block of values is the whole demand of the block when the
block meets `R`, and is `0` otherwise -/
theorem vsum_block_le (R : Int → Bool) (l : Int → Int) {a b : Int}
    (h0 : ∀ v, a ≤ v → v < b → 0 ≤ l v) :
    vsum (fun v => if R v = true then l v else 0) a b ≤
      (if meetsB R a (b - 1) = true then vsum l a b else 0) := by
  by_cases hm : meetsB R a (b - 1) = true
  · rw [if_pos hm]
    apply vsum_le
    intro k hk1 hk2
    have := h0 k hk1 hk2
    show (if R k = true then l k else 0) ≤ l k
    split <;> omega
  · rw [if_neg hm]
    have : vsum (fun v => if R v = true then l v else 0) a b = vsum (fun _ => 0) a b := by
      apply vsum_congr
      intro k hk1 hk2
      have : ¬ R k = true := fun hR => hm ((meetsB_iff R _ _).2 ⟨k, hk1, by omega, hR⟩)
      show (if R k = true then l k else 0) = 0
      rw [if_neg this]
    rw [this, vsum_zero]
    exact Int.le_refl _

/-- the induction over the cells -/
theorem lower_cells_sum {N : Int} (bnd : Int → Int)
    (hbnd : ∀ i j, 0 ≤ i → i < j → j ≤ N → bnd i < bnd j)
    (R : Int → Bool) (l g : Int → Int)
    (hcell : ∀ k, 2 ≤ k → k ≤ N - 1 →
      vsum (fun v => if R v = true then l v else 0) (bnd (k - 1)) (bnd k) ≤ g k) :
    ∀ n : Nat, 1 + (n : Int) ≤ N - 1 →
      vsum (fun v => if R v = true then l v else 0) (bnd 1) (bnd (1 + n)) ≤ vsum g 2 (2 + n) := by
  intro n
  induction n with
  | zero =>
    intro _
    have e1 : (1 : Int) + ((0 : Nat) : Int) = 1 := by omega
    have e2 : (2 : Int) + ((0 : Nat) : Int) = 2 := by omega
    rw [e1, e2, vsum_empty _ (Int.le_refl _), vsum_empty _ (Int.le_refl _)]
    exact Int.le_refl _
  | succ n ih =>
    intro hn
    have h1 := ih (by omega)
    have h2 := hcell (2 + n) (by omega) (by omega)
    have e1 : (2 : Int) + n - 1 = 1 + n := by omega
    rw [e1] at h2
    have e2 : (1 : Int) + ((n + 1 : Nat) : Int) = 2 + n := by omega
    have e3 : (2 : Int) + ((n + 1 : Nat) : Int) = (2 + n) + 1 := by omega
    rw [e2, e3, vsum_succ g (by omega)]
    have hle1 : bnd 1 ≤ bnd (1 + n) := by
      by_cases h : n = 0
      · subst h; exact Int.le_refl _
      · exact Int.le_of_lt (hbnd 1 (1 + n) (by omega) (by omega) (by omega))
    have hle2 : bnd (1 + n) ≤ bnd (2 + n) :=
      Int.le_of_lt (hbnd (1 + n) (2 + n) (by omega) (by omega) (by omega))
    rw [vsum_split _ hle1 hle2]
    omega

theorem lower_hall_of_cells {N : Int} (hN : 2 ≤ N) (bnd : Int → Int)
    (hbnd : ∀ i j, 0 ≤ i → i < j → j ≤ N → bnd i < bnd j)
    (all U : List Int) (hsub : U.Sublist all) (rx ry lo hi : Int → Int)
    (hrk : ∀ u ∈ all, 1 ≤ rx u ∧ rx u < ry u ∧ ry u ≤ N - 1)
    (hlo : ∀ u ∈ all, lo u = bnd (rx u)) (hhi : ∀ u ∈ all, hi u + 1 = bnd (ry u))
    (cf : Int → Int) (hcf : ∀ u ∈ U, rx u < cf u ∧ cf u ≤ ry u)
    (cum l : Int → Int) (hl : ∀ v, cum (v + 1) - cum v = l v)
    (A B : Int) (hA : A ≤ bnd 1) (hB : bnd (N - 1) ≤ B)
    (hl0 : ∀ v, A ≤ v → v < B → 0 ≤ l v)
    (hcnt : ∀ k, 2 ≤ k → k ≤ N - 1 → occ cf U k = cum (bnd k) - cum (bnd (k - 1)))
    (hzlo : ∀ v, A ≤ v → v < bnd 1 → l v = 0) (hzhi : ∀ v, bnd (N - 1) ≤ v → v < B → l v = 0) :
    ∀ R : Int → Bool, vsum (fun v => if R v = true then l v else 0) A B ≤
      ((all.countP (fun x => meetsB R (lo x) (hi x)) : Nat) : Int) := by
  intro R
  -- monotonicity of the bounds
  have hmono : ∀ i j, 0 ≤ i → i ≤ j → j ≤ N → bnd i ≤ bnd j := by
    intro i j h0 hij hj
    by_cases e : i = j
    · subst e; exact Int.le_refl _
    · exact Int.le_of_lt (hbnd i j h0 (by omega) hj)
  have hmid : bnd 1 ≤ bnd (N - 1) := hmono 1 (N - 1) (by omega) (by omega) (by omega)
  -- the outer parts vanish
  have hout1 : vsum (fun v => if R v = true then l v else 0) A (bnd 1) = 0 := by
    have : vsum (fun v => if R v = true then l v else 0) A (bnd 1) = vsum (fun _ => 0) A (bnd 1) := by
      apply vsum_congr
      intro k hk1 hk2
      show (if R k = true then l k else 0) = 0
      rw [hzlo k hk1 hk2]; split <;> rfl
    rw [this, vsum_zero]
  have hout2 : vsum (fun v => if R v = true then l v else 0) (bnd (N - 1)) B = 0 := by
    have : vsum (fun v => if R v = true then l v else 0) (bnd (N - 1)) B =
        vsum (fun _ => 0) (bnd (N - 1)) B := by
      apply vsum_congr
      intro k hk1 hk2
      show (if R k = true then l k else 0) = 0
      rw [hzhi k hk1 hk2]; split <;> rfl
    rw [this, vsum_zero]
  have hsplit : vsum (fun v => if R v = true then l v else 0) A B =
      vsum (fun v => if R v = true then l v else 0) (bnd 1) (bnd (N - 1)) := by
    rw [vsum_split _ hA (by omega : bnd 1 ≤ B), vsum_split _ hmid hB, hout1, hout2]
    omega
  -- the cells
  let Q : Int → Bool := fun k => meetsB R (bnd (k - 1)) (bnd k - 1)
  have hcell : ∀ k, 2 ≤ k → k ≤ N - 1 →
      vsum (fun v => if R v = true then l v else 0) (bnd (k - 1)) (bnd k) ≤
        (fun k => if Q k = true then occ cf U k else 0) k := by
    intro k hk1 hk2
    have ha : bnd 1 ≤ bnd (k - 1) := hmono 1 (k - 1) (by omega) (by omega) (by omega)
    have hb : bnd k ≤ bnd (N - 1) := hmono k (N - 1) (by omega) (by omega) (by omega)
    have hab : bnd (k - 1) ≤ bnd k := hmono (k - 1) k (by omega) (by omega) (by omega)
    have h := vsum_block_le R l (a := bnd (k - 1)) (b := bnd k)
      (fun v hv1 hv2 => hl0 v (by omega) (by omega))
    rw [vsum_tele cum l hl hab, ← hcnt k hk1 hk2] at h
    exact h
  have hsum := lower_cells_sum bnd hbnd R l _ hcell (N - 2).toNat (by omega)
  have e1 : (1 : Int) + ((N - 2).toNat : Int) = N - 1 := by omega
  have e2 : (2 : Int) + ((N - 2).toNat : Int) = N := by omega
  rw [e1, e2] at hsum
  -- the sum over the cells is a count over the used variables
  have hval := countP_values U cf Q 2 N (fun p hp => by
    have := hcf p hp; have := hrk p (hsub.subset hp); omega)
  -- the cell of `u` lies inside the domain of `u`
  have c1 : U.countP (fun p => Q (cf p)) ≤ U.countP (fun x => meetsB R (lo x) (hi x)) := by
    apply List.countP_mono_left
    intro u hu hq
    have h1 := hcf u hu
    have h2 := hrk u (hsub.subset hu)
    obtain ⟨v, hv1, hv2, hv3⟩ := (meetsB_iff R _ _).1 hq
    have g1 : bnd (rx u) ≤ bnd (cf u - 1) := hmono _ _ (by omega) (by omega) (by omega)
    have g2 : bnd (cf u) ≤ bnd (ry u) := hmono _ _ (by omega) (by omega) (by omega)
    have g3 := hlo u (hsub.subset hu)
    have g4 := hhi u (hsub.subset hu)
    exact (meetsB_iff R _ _).2 ⟨v, by omega, by omega, hv3⟩
  have c2 : U.countP (fun x => meetsB R (lo x) (hi x)) ≤
      all.countP (fun x => meetsB R (lo x) (hi x)) := hsub.countP_le
  rw [hsplit]
  omega

end Gcc
end Nucs
