import NucsProofs.Basic
import NucsModel.Propagators.AlldifferentChecked
/-!
  alldifferent in certified-result form (`alldifferentC`): soundness of the certificate checker
  `checkAllDiff`, of the `fallback`, and the local contracts of `alldifferentC`, stated with the
  shapes of `Sound`, `GroundOk`, `EntailOk`, `Safe` of Spec.lean (with `alldifferentC ps B` in place
  of `runAlg .alldifferent ps B`).

  Nothing here looks inside the port `alldifferent`: whatever it answers is either validated by the
  checker or replaced by the fallback.
-/
namespace Nucs

/-! ### pigeonhole: a duplicate-free list of integers of `[a, b]` has at most `b - a + 1` elements -/

theorem length_le_of_nodup_range : ∀ (n : Nat) (l : List Int) (a b : Int), (b - a + 1).toNat = n →
    l.Nodup → (∀ x ∈ l, a ≤ x ∧ x ≤ b) → l.length ≤ n
  | 0, l, a, b, hn, _, hl => by
    cases l with
    | nil => simp
    | cons x xs => have := hl x (by simp); omega
  | n + 1, l, a, b, hn, hnd, hl => by
    by_cases hb : b ∈ l
    · have ih := length_le_of_nodup_range n (l.erase b) a (b - 1) (by omega) (hnd.erase b)
        (fun x hx => by
          have := (hnd.mem_erase_iff).mp hx
          have := hl x this.2
          omega)
      rw [List.length_erase_of_mem hb] at ih
      omega
    · have ih := length_le_of_nodup_range n l a (b - 1) (by omega) hnd
        (fun x hx => by
          have := hl x hx
          have : x ≠ b := fun e => hb (e ▸ hx)
          omega)
      omega

/-! ### the values a tuple takes on the positions counted by `hallCount` (plus the skipped one) -/

/-- the sub-list of `t` at the positions `j` with `B[j] ⊆ [a, b]`, `j ≠ skip`, and at `skip` itself -/
def sel (a b : Int) : List Int → Box → Option Nat → List Int
  | x :: xs, _ :: ds, some 0 => x :: sel a b xs ds none
  | x :: xs, d :: ds, some (k + 1) =>
    if d.inside a b then x :: sel a b xs ds (some k) else sel a b xs ds (some k)
  | x :: xs, d :: ds, none =>
    if d.inside a b then x :: sel a b xs ds none else sel a b xs ds none
  | _, _, _ => []

theorem sel_sublist (a b : Int) : ∀ (t : List Int) (B : Box) (s : Option Nat),
    List.Sublist (sel a b t B s) t
  | [], _, _ => by simp [sel]
  | _ :: _, [], _ => by simp [sel]
  | x :: xs, d :: ds, some 0 => by
    simp only [sel]; exact (sel_sublist a b xs ds none).cons_cons x
  | x :: xs, d :: ds, some (k + 1) => by
    simp only [sel]
    split
    · exact (sel_sublist a b xs ds (some k)).cons_cons x
    · exact (sel_sublist a b xs ds (some k)).cons x
  | x :: xs, d :: ds, none => by
    simp only [sel]
    split
    · exact (sel_sublist a b xs ds none).cons_cons x
    · exact (sel_sublist a b xs ds none).cons x

/-- `1` when the skipped position exists -/
def skipExtra (s : Option Nat) (n : Nat) : Nat :=
  match s with
  | some i => if i < n then 1 else 0
  | none => 0

theorem sel_length (a b : Int) : ∀ (t : List Int) (B : Box) (s : Option Nat), inBox t B →
    (sel a b t B s).length = hallCount B s a b + skipExtra s B.length
  | [], [], s => by intro _; cases s <;> simp [sel, hallCount, skipExtra]
  | [], _ :: _, _ => by intro h; simp [inBox] at h
  | _ :: _, [], _ => by intro h; simp [inBox] at h
  | x :: xs, d :: ds, some 0 => by
    intro h
    have := sel_length a b xs ds none h.2
    simp only [skipExtra] at this
    simp only [sel, hallCount, skipExtra, List.length_cons, Nat.zero_lt_succ, if_true]
    omega
  | x :: xs, d :: ds, some (k + 1) => by
    intro h
    have := sel_length a b xs ds (some k) h.2
    simp only [skipExtra] at this
    simp only [sel, hallCount, skipExtra, List.length_cons, Nat.add_lt_add_iff_right]
    split <;> (try simp only [List.length_cons]) <;> omega
  | x :: xs, d :: ds, none => by
    intro h
    have := sel_length a b xs ds none h.2
    simp only [skipExtra] at this
    simp only [sel, hallCount, skipExtra]
    split <;> (try simp only [List.length_cons]) <;> omega

theorem sel_mem (a b : Int) : ∀ (t : List Int) (B : Box) (s : Option Nat), inBox t B →
    (∀ i, s = some i → i < B.length → a ≤ getI t i ∧ getI t i ≤ b) →
    ∀ x ∈ sel a b t B s, a ≤ x ∧ x ≤ b
  | [], _, _ => by intro _ _ x hx; simp [sel] at hx
  | _ :: _, [], _ => by intro _ _ x hx; simp [sel] at hx
  | y :: ys, d :: ds, some 0 => by
    intro h hs x hx
    simp only [sel, List.mem_cons] at hx
    rcases hx with rfl | hx
    · simpa [getI] using hs 0 rfl (by simp)
    · exact sel_mem a b ys ds none h.2 (fun i hi => by cases hi) x hx
  | y :: ys, d :: ds, some (k + 1) => by
    intro h hs x hx
    have ih := sel_mem a b ys ds (some k) h.2 (fun i hi hlt => by
      cases hi
      simpa [getI] using hs (k + 1) rfl (by simpa using hlt))
    simp only [sel] at hx
    split at hx
    · rename_i hin
      simp only [List.mem_cons] at hx
      rcases hx with rfl | hx
      · have hy : d.1 ≤ x ∧ x ≤ d.2 := h.1
        simp only [Dom.inside, Bool.and_eq_true, decide_eq_true_eq] at hin
        omega
      · exact ih x hx
    · exact ih x hx
  | y :: ys, d :: ds, none => by
    intro h _ x hx
    have ih := sel_mem a b ys ds none h.2 (fun i hi => by cases hi)
    simp only [sel] at hx
    split at hx
    · rename_i hin
      simp only [List.mem_cons] at hx
      rcases hx with rfl | hx
      · have hy : d.1 ≤ x ∧ x ≤ d.2 := h.1
        simp only [Dom.inside, Bool.and_eq_true, decide_eq_true_eq] at hin
        omega
      · exact ih x hx
    · exact ih x hx

/-! ### (a) a forbidden value is taken by no solution, (b) an infeasible box has no solution -/

/-- if the variables other than `x_i` fill `[a, b]`, no solution gives `x_i` a value of `[a, b]` -/
theorem hall_excludes (B : Box) (i : Nat) (a b : Int) (t : List Int) (hi : i < B.length)
    (hc : hallCount B (some i) a b ≥ (b - a + 1).toNat) (ht : inBox t B) (hnd : t.Nodup) :
    ¬ (a ≤ getI t i ∧ getI t i ≤ b) := by
  intro hv
  have h1 := sel_length a b t B (some i) ht
  have h2 := sel_mem a b t B (some i) ht (fun j hj _ => by cases hj; exact hv)
  have h3 := length_le_of_nodup_range _ _ a b rfl ((sel_sublist a b t B (some i)).nodup hnd) h2
  simp only [skipExtra, hi, if_true] at h1
  omega

theorem forbidden_spec {B : Box} {i : Nat} {v : Int} (h : forbidden B i v = true) :
    ∃ a b, a ≤ v ∧ v ≤ b ∧ hallCount B (some i) a b ≥ (b - a + 1).toNat := by
  simp only [forbidden, List.any_eq_true, hallAt, Bool.and_eq_true, decide_eq_true_eq] at h
  obtain ⟨a, _, b, _, ⟨h1, h2⟩, h3⟩ := h
  exact ⟨a, b, h1, h2, h3⟩

/-- (a) -/
theorem forbidden_sound (B : Box) (i : Nat) (v : Int) (t : List Int) (hi : i < B.length)
    (h : forbidden B i v = true) (ht : inBox t B) (hnd : t.Nodup) : getI t i ≠ v := by
  obtain ⟨a, b, h1, h2, h3⟩ := forbidden_spec h
  intro e
  exact hall_excludes B i a b t hi h3 ht hnd (by omega)

/-- (b) -/
theorem infeasible_sound (B : Box) (h : infeasible B = true) (t : List Int) (ht : inBox t B) :
    ¬ t.Nodup := by
  intro hnd
  simp only [infeasible, List.any_eq_true, overfull, Bool.and_eq_true, decide_eq_true_eq] at h
  obtain ⟨a, _, b, _, _, h3⟩ := h
  have h1 := sel_length a b t B none ht
  have h2 := sel_mem a b t B none ht (fun j hj => by cases hj)
  have h4 := length_le_of_nodup_range _ _ a b rfl ((sel_sublist a b t B none).nodup hnd) h2
  simp only [skipExtra] at h1
  omega

/-! ### (c) a value of the old domain outside the new one is a removed value -/

theorem removedOk_spec {B : Box} {i : Nat} {d d' : Dom} (h : removedOk B i d d' = true) (v : Int)
    (h1 : d.1 ≤ v) (h2 : v ≤ d.2) (h3 : v < d'.1 ∨ d'.2 < v) : forbidden B i v = true := by
  simp only [removedOk, Bool.and_eq_true, List.all_eq_true, List.mem_range] at h
  rcases h3 with h3 | h3
  · have := h.1 (v - d.1).toNat (by omega)
    have e : d.1 + ((v - d.1).toNat : Int) = v := by omega
    rwa [e] at this
  · have := h.2 (v - d'.2 - 1).toNat (by omega)
    have e : d'.2 + 1 + ((v - d'.2 - 1).toNat : Int) = v := by omega
    rwa [e] at this

/-- the position-wise check: `B'` is a non-empty sub-box of `B` (the tail of `B0` from index `i`)
    and keeps the matching tail of every solution of `B0` -/
theorem checkDoms_sound (B0 : Box) : ∀ (i : Nat) (B B' : Box), checkDoms B0 i B B' = true →
    i + B.length = B0.length →
    Box.le B' B ∧ B'.Nonempty ∧
      ∀ t0, inBox t0 B0 → t0.Nodup → ∀ t, t0.drop i = t → inBox t B → inBox t B'
  | _, [], [], _, _ => by
    refine ⟨trivial, Box.nonempty_nil, ?_⟩
    intro _ _ _ t _ ht
    exact ht
  | _, [], _ :: _, h, _ => by simp [checkDoms] at h
  | _, _ :: _, [], h, _ => by simp [checkDoms] at h
  | i, d :: ds, d' :: ds', h, hlen => by
    simp only [checkDoms, Bool.and_eq_true, decide_eq_true_eq] at h
    obtain ⟨⟨⟨⟨h1, h2⟩, h3⟩, h4⟩, h5⟩ := h
    obtain ⟨ih1, ih2, ih3⟩ := checkDoms_sound B0 (i + 1) ds ds' h5
      (by simp only [List.length_cons] at hlen; omega)
    refine ⟨⟨⟨h1, h3⟩, ih1⟩, Box.nonempty_cons.mpr ⟨h2, ih2⟩, ?_⟩
    intro t0 ht0 hnd t hdrop ht
    cases t with
    | nil => simp [inBox] at ht
    | cons x xs =>
      have hi0 : i < B0.length := by simp only [List.length_cons] at hlen; omega
      have hi : i < t0.length := by rw [inBox_length ht0]; exact hi0
      rw [List.drop_eq_getElem_cons hi] at hdrop
      injection hdrop with hx hxs
      have hgx : getI t0 i = x := by
        simp [getI, List.getD_eq_getElem?_getD, List.getElem?_eq_getElem hi, hx]
      have hxd : d.1 ≤ x ∧ x ≤ d.2 := ht.1
      refine ⟨?_, ih3 t0 ht0 hnd xs hxs ht.2⟩
      show d'.1 ≤ x ∧ x ≤ d'.2
      by_cases hout : x < d'.1 ∨ d'.2 < x
      · have hf := removedOk_spec h4 x hxd.1 hxd.2 hout
        exact absurd hgx (forbidden_sound B0 i x t0 hi0 hf ht0 hnd)
      · omega

/-! ### the checker -/

theorem nodupB_iff (l : List Int) : nodupB l = true ↔ l.Nodup := by simp [nodupB]

/-- **soundness of the certificate checker.**  An accepted non-failing answer is a non-empty
    sub-box that keeps every solution; an accepted failure had no solution. -/
theorem checkAllDiff_sound {B : Box} {st : Status} {B' : Box} :
    checkAllDiff B st B' = true → B.Nonempty →
    (st ≠ .inc → Box.le B' B ∧ B'.Nonempty ∧ ∀ t, inBox t B → t.Nodup → inBox t B') ∧
    (st = .inc → ∀ t, inBox t B → ¬ t.Nodup) := by
  intro h _
  cases st with
  | inc =>
    refine ⟨fun hne => absurd rfl hne, fun _ t ht => ?_⟩
    exact infeasible_sound B (by simpa [checkAllDiff] using h) t ht
  | cons =>
    refine ⟨fun _ => ?_, fun hne => by cases hne⟩
    simp only [checkAllDiff, Bool.and_eq_true] at h
    obtain ⟨h1, h2, h3⟩ := checkDoms_sound B 0 B B' h.1 (by simp)
    exact ⟨h1, h2, fun t ht hnd => h3 t ht hnd t (by simp) ht⟩
  | ent => simp [checkAllDiff] at h

/-- the checker never accepts `entailed` -/
theorem checkAllDiff_ent (B B' : Box) : checkAllDiff B .ent B' = false := rfl

theorem pointBox_isGround (t : List Int) : Box.isGround (pointBox t) = true := by
  simp [Box.isGround, pointBox, Dom.isGround]

theorem pointBox_map_fst' (t : List Int) : (pointBox t).map (·.1) = t := by
  simp [pointBox, Function.comp_def]

/-- an accepted non-failing answer that is a point is a solution -/
theorem checkAllDiff_ground {B : Box} {t : List Int} (h : checkAllDiff B .cons (pointBox t) = true) :
    t.Nodup := by
  simp only [checkAllDiff, Bool.and_eq_true, Bool.or_eq_true, Bool.not_eq_true',
    pointBox_isGround, pointBox_map_fst', nodupB_iff] at h
  rcases h.2 with h | h
  · cases h
  · exact h

/-! ### the fallback -/

/-- the only tuple of a ground box is its list of lower bounds -/
theorem eq_map_fst_of_ground : ∀ {t : List Int} {B : Box}, inBox t B → B.isGround = true →
    t = B.map (·.1)
  | [], [], _, _ => rfl
  | x :: xs, d :: ds, h, hg => by
    simp only [Box.isGround, List.all_cons, Bool.and_eq_true, Dom.isGround, beq_iff_eq] at hg
    have ih := eq_map_fst_of_ground (t := xs) (B := ds) h.2 (by simpa [Box.isGround] using hg.2)
    have hx : d.1 ≤ x ∧ x ≤ d.2 := h.1
    have : x = d.1 := by omega
    simp [this, ← ih]
  | [], _ :: _, h, _ => by simp [inBox] at h
  | _ :: _, [], h, _ => by simp [inBox] at h

theorem fallback_snd (B : Box) : (fallback B).2 = B := by
  unfold fallback; split <;> rfl

theorem fallback_ne_ent (B : Box) : (fallback B).1 ≠ .ent := by
  unfold fallback; split <;> simp

/-- the fallback answer is sound -/
theorem fallback_sound (B : Box) (hne : B.Nonempty) :
    ((fallback B).1 ≠ .inc →
      Box.le (fallback B).2 B ∧ (fallback B).2.Nonempty ∧ ∀ t, inBox t B → t.Nodup → inBox t (fallback B).2) ∧
    ((fallback B).1 = .inc → ∀ t, inBox t B → ¬ t.Nodup) := by
  rw [fallback_snd]
  refine ⟨fun _ => ⟨Box.le_refl B, hne, fun t ht _ => ht⟩, ?_⟩
  unfold fallback
  split
  · rename_i hc
    intro _ t ht hnd
    simp only [Bool.and_eq_true, Bool.not_eq_true', ← Bool.not_eq_true, nodupB_iff] at hc
    rw [eq_map_fst_of_ground ht hc.1] at hnd
    exact hc.2 hnd
  · intro h; cases h

/-- the fallback answer is ground-correct: when it does not fail on a point, the point is a solution -/
theorem fallback_ground (t : List Int) (h : (fallback (pointBox t)).1 ≠ .inc) : t.Nodup := by
  unfold fallback at h
  split at h
  · exact absurd rfl h
  · rename_i hc
    simp only [pointBox_isGround, pointBox_map_fst', Bool.true_and, Bool.not_eq_true',
      Bool.not_eq_false, nodupB_iff] at hc
    exact hc

/-! ### the contracts of `alldifferentC` -/

/-- the two ways `alldifferentC` produces its answer -/
theorem alldifferentC_cases (ps : List Int) (B : Box) :
    (∃ st B', checkAllDiff B st B' = true ∧
        alldifferentC ps B = .ok (st, if st = .inc then B else B')) ∨
    alldifferentC ps B = .ok (fallback B) := by
  unfold alldifferentC
  split
  · rename_i st B' _
    by_cases hc : checkAllDiff B st B' = true
    · left; exact ⟨st, B', hc, by rw [if_pos hc]⟩
    · right; rw [if_neg hc]
  · right; rfl

/-- `Safe`: the checked model never throws -/
theorem safeC_alldifferent :
    ∀ ps B, Contract .alldifferent ps B → B.Nonempty → ∃ r, alldifferentC ps B = .ok r := by
  intro ps B _ _
  rcases alldifferentC_cases ps B with ⟨st, B', _, h⟩ | h
  · exact ⟨_, h⟩
  · exact ⟨_, h⟩

/-- `Sound` -/
theorem soundC_alldifferent :
    ∀ ps B st B', Contract .alldifferent ps B → B.Nonempty → alldifferentC ps B = .ok (st, B') →
      (st ≠ .inc → Box.le B' B ∧ B'.Nonempty ∧ ∀ t, inBox t B → rel .alldifferent ps t → inBox t B') ∧
      (st = .inc → ∀ t, inBox t B → ¬ rel .alldifferent ps t) := by
  intro ps B st B' _ hne hrun
  simp only [rel]
  rcases alldifferentC_cases ps B with ⟨st1, B1, hc, h⟩ | h
  · rw [h] at hrun
    injection hrun with hrun
    injection hrun with e1 e2
    subst e1
    have hs := checkAllDiff_sound hc hne
    refine ⟨fun hst => ?_, hs.2⟩
    rw [if_neg hst] at e2
    subst e2
    exact hs.1 hst
  · rw [h] at hrun
    injection hrun with hrun
    have hs := fallback_sound B hne
    rw [hrun] at hs
    exact hs

/-- `GroundOk` -/
theorem groundOkC_alldifferent :
    ∀ ps B st B' t, Contract .alldifferent ps B → B.Nonempty → alldifferentC ps B = .ok (st, B') →
      st ≠ .inc → B' = pointBox t → relW .alldifferent ps t := by
  intro ps B st B' t _ _ hrun hst hB'
  show t.Nodup
  rcases alldifferentC_cases ps B with ⟨st1, B1, hc, h⟩ | h
  · rw [h] at hrun
    injection hrun with hrun
    injection hrun with e1 e2
    subst e1
    rw [if_neg hst] at e2
    subst e2
    subst hB'
    cases st1 with
    | inc => exact absurd rfl hst
    | cons => exact checkAllDiff_ground hc
    | ent => simp [checkAllDiff] at hc
  · rw [h] at hrun
    injection hrun with hrun
    have h2 := fallback_snd B
    rw [hrun] at h2
    simp only at h2
    have h1 : (fallback B).1 = st := by rw [hrun]
    rw [← h2, hB'] at h1
    exact fallback_ground t (by rw [h1]; exact hst)

/-- `alldifferentC` never answers `entailed` -/
theorem alldifferentC_ne_ent (ps : List Int) (B B' : Box) : alldifferentC ps B ≠ .ok (.ent, B') := by
  intro hrun
  rcases alldifferentC_cases ps B with ⟨st1, B1, hc, h⟩ | h
  · rw [h] at hrun
    injection hrun with hrun
    injection hrun with e1 _
    subst e1
    simp [checkAllDiff] at hc
  · rw [h] at hrun
    injection hrun with hrun
    exact fallback_ne_ent B (by rw [hrun])

/-- `EntailOk` (vacuous) -/
theorem entailOkC_alldifferent :
    ∀ ps B B', Contract .alldifferent ps B → B.Nonempty → alldifferentC ps B = .ok (.ent, B') →
      ∀ t, inBox t B' → rel .alldifferent ps t := by
  intro ps B B' _ _ hrun
  exact absurd hrun (alldifferentC_ne_ent ps B B')

end Nucs
