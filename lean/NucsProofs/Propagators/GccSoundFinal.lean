import NucsProofs.Propagators.GccSoundAsm3
import NucsProofs.Basic
/-!
  Semantic SOUNDNESS of the RAW PORT of the gcc propagator (`gcc`, NucsModel/Propagators/Gcc.lean,
  a line-by-line port of nucs/propagators/gcc_propagator.py — the bounds-consistency algorithm of
  Quimper, van Beek, López-Ortiz, Golynski, Sadjad, CP 2003), for every number of values `m`.

  `gcc_port_sound_partial`: in contract, on a box of non-empty domains and with every upper capacity
  `≥ 1` (with a zero capacity the code misbehaves: known finding K1),
  * a reported inconsistency is justified: the box contains no solution;
  * otherwise the returned box has the same length and every solution `t` of the input box lies in
    the returned box.  Moreover, IF the input box contains a solution then the returned box is a
    sub-box of the input box and has no empty domain.

  Difference to `Sound .gcc` (hence `_partial`): `Box.le B' B ∧ B'.Nonempty` is proved only when the
  input box contains a solution.  Without a solution these two facts amount to the COMPLETENESS of
  the failure detection of the algorithm (a non-failing run on an infeasible box), which needs the
  existence theorem for assignments with lower and upper capacities on interval domains — not done.
-/
namespace Nucs
namespace Gcc
open AllDiff (g g2)

theorem inBox_of_getG : ∀ {t : List Int} {B : Box}, t.length = B.length →
    (∀ k, k < B.length → (getDom B k).1 ≤ getI t k ∧ getI t k ≤ (getDom B k).2) → inBox t B
  | [], [], _, _ => trivial
  | x :: xs, d :: ds, hl, h => by
    refine ⟨?_, inBox_of_getG (t := xs) (B := ds) (by simpa using hl) (fun k hk => ?_)⟩
    · have := h 0 (by simp); simpa [getDom, getI, inDom] using this
    · have := h (k + 1) (by simpa using hk); simpa [getDom, getI] using this
  | [], _ :: _, hl, _ => by simp at hl
  | _ :: _, [], hl, _ => by simp at hl

theorem boxle_of_getG : ∀ {A B : Box}, A.length = B.length →
    (∀ k, k < B.length → (getDom B k).1 ≤ (getDom A k).1 ∧ (getDom A k).2 ≤ (getDom B k).2) →
    Box.le A B
  | [], [], _, _ => trivial
  | a :: as, b :: bs, hl, h => by
    refine ⟨by simpa [getDom] using h 0 (by simp), ?_⟩
    exact boxle_of_getG (by simpa using hl)
      (fun k hk => by simpa [getDom] using h (k + 1) (by simpa using hk))
  | [], _ :: _, hl, _ => by simp at hl
  | _ :: _, [], hl, _ => by simp at hl

theorem nonempty_of_getG {B : Box} (h : ∀ k, k < B.length → (getDom B k).1 ≤ (getDom B k).2) :
    B.Nonempty := by
  intro d hd
  obtain ⟨k, hk, rfl⟩ := List.getElem_of_mem hd
  have := h k hk
  simpa [getDom, List.getD, List.getElem?_eq_getElem hk] using this

theorem g2_toArrayG (B : Box) (k : Nat) : g2 B.toArray (k : Int) = getDom B k := by
  simp [g2, getDom]

theorem g2_toListG (a : Arr2) (k : Nat) : g2 a (k : Int) = getDom a.toList k := by
  simp [g2, getDom]

/-- the value of variable `p` in the tuple `t` -/
def tval (t : List Int) : Int → Int := fun p => getI t p.toNat

theorem rangeUp_map_tval (t : List Int) : (rangeUp 0 (t.length : Int)).map (tval t) = t := by
  apply List.ext_getElem
  · simp [rangeUp]
  · intro k h1 h2
    simp only [rangeUp, List.getElem_map, List.getElem_range, Int.ofNat_eq_natCast, tval]
    have : ((0 : Int) + (k : Int)).toNat = k := by omega
    rw [this]
    simp [getI, h2]

theorem occ_tval (t : List Int) (v : Int) :
    occ (tval t) (rangeUp 0 (t.length : Int)) v = (t.count v : Int) := by
  unfold occ
  have h := rangeUp_map_tval t
  have : (rangeUp 0 (t.length : Int)).countP (fun p => decide (tval t p = v)) =
      ((rangeUp 0 (t.length : Int)).map (tval t)).countP (fun x => decide (x = v)) := by
    rw [List.countP_map]; rfl
  rw [this, h, List.count]
  congr 1

theorem getI_take_drop (ps : List Int) (mn j : Nat) (hj : j < mn) (_hlen : ps.length = 2 * mn + 1) :
    getI ((ps.drop 1).take mn) j = getI ps (1 + j) := by
  simp [getI, List.getD, hj]
  rw [Nat.add_comm]

theorem getI_drop (ps : List Int) (k j : Nat) : getI (ps.drop k) j = getI ps (k + j) := by
  simp [getI, List.getD]

end Gcc

open Gcc AllDiff in
/-- **Semantic soundness of the raw port of gcc (partial: see the header).** -/
theorem gcc_port_sound_partial (ps : List Int) (B : Box) (hc : Contract .gcc ps B)
    (hB : B.Nonempty)
    (hu : ∀ j, j < (ps.length - 1) / 2 → 1 ≤ getI ps (1 + (ps.length - 1) / 2 + j))
    (st : Status) (B' : Box) (h : gcc ps B = .ok (st, B')) :
    (st = .inc → ∀ t, inBox t B → ¬ rel .gcc ps t) ∧
    (st ≠ .inc → B'.length = B.length ∧
      ∀ t, inBox t B → rel .gcc ps t → inBox t B' ∧ Box.le B' B ∧ B'.Nonempty) := by
  obtain ⟨hlen, hm1, hB1, hwithin, hcap⟩ := hc
  generalize hmdef : (ps.length - 1) / 2 = mn at hlen hm1 hwithin hcap hu
  obtain ⟨status, domains, hr, hsz, hsol⟩ := Gcc.compute_domains_gcc_sem B.toArray ps.toArray
    (mn : Int) (by omega) (by simp; omega) (by simpa using hB1)
    (by
      intro v h0 h1
      have hmem := AllDiff.g2_mem_toArray B v h0 (by simpa using h1)
      have hw := hwithin _ hmem
      have hne := hB _ hmem
      rw [Gcc.g_toArray]
      exact ⟨hw.1, hne, hw.2⟩)
    (by
      intro k h0 h1
      rw [Gcc.g_toArray]
      have := (hcap k.toNat (by omega)).1
      have e : (1 + k).toNat = 1 + k.toNat := by omega
      rw [e]; exact this)
    (by
      intro k h0 h1
      rw [Gcc.g_toArray]
      have := hu k.toNat (by omega)
      have e : (1 + (mn : Int) + k).toNat = 1 + mn + k.toNat := by omega
      rw [e]; exact this)
  -- a solution tuple gives a `GSol`
  have hgsol : ∀ t, inBox t B → rel .gcc ps t →
      Gcc.GSol (B.toArray.size : Int) (g ps.toArray 0) (mn : Int) B.toArray
        (fun j => g ps.toArray (1 + j)) (fun j => g ps.toArray (1 + (mn : Int) + j)) (tval t) := by
    intro t ht hrel
    have htl := inBox_length ht
    have hrel' : gccOk (getI ps 0) ((ps.drop 1).take mn) (ps.drop (1 + mn)) t := by
      have := hrel
      simp only [rel] at this
      rw [hmdef] at this
      exact this
    have hlsl : ((ps.drop 1).take mn).length = mn := by simp; omega
    refine ⟨?_, ?_, ?_⟩
    · intro v h0 h1
      have h1' : v.toNat < B.length := by simp at h1; omega
      have := inBox_get v.toNat ht h1'
      have e : g2 B.toArray v = getDom B v.toNat := by
        have := g2_toArrayG B v.toNat
        rw [Int.toNat_of_nonneg h0] at this; exact this
      rw [e]; exact this
    · intro j h0 h1
      have := (hrel' j.toNat (by omega)).1
      rw [getI_take_drop ps mn j.toNat (by omega) hlen] at this
      have e1 : B.toArray.size = t.length := by simp; omega
      rw [e1, occ_tval, Gcc.g_toArray, Gcc.g_toArray]
      have e2 : (1 + j).toNat = 1 + j.toNat := by omega
      have e3 : (0 : Int).toNat = 0 := rfl
      have e4 : getI ps 0 + j = getI ps 0 + (j.toNat : Int) := by omega
      rw [e2, e3, e4]; exact this
    · intro j h0 h1
      have := (hrel' j.toNat (by omega)).2
      rw [getI_drop] at this
      have e1 : B.toArray.size = t.length := by simp; omega
      rw [e1, occ_tval, Gcc.g_toArray, Gcc.g_toArray]
      have e2 : (1 + (mn : Int) + j).toNat = 1 + mn + j.toNat := by omega
      have e3 : (0 : Int).toNat = 0 := rfl
      have e4 : getI ps 0 + j = getI ps 0 + (j.toNat : Int) := by omega
      rw [e2, e3, e4]; exact this
  unfold gcc at h
  rw [hr] at h
  simp only [AllDiff.ok_bind] at h
  by_cases hs : (status == Status.inc) = true
  · rw [if_pos hs] at h
    have hst : status = .inc := by simpa using hs
    have hinj : st = .inc ∧ B' = B := by
      have : (Status.inc, B) = (st, B') := by
        simpa [pure, Except.pure] using h
      exact ⟨(Prod.mk.inj this).1.symm, (Prod.mk.inj this).2.symm⟩
    refine ⟨fun _ t ht hrel => ?_, fun hne => absurd hinj.1 hne⟩
    exact (hsol (tval t) (hgsol t ht hrel)).1 hst
  · rw [if_neg hs] at h
    have hst : status ≠ .inc := by simpa using hs
    have hinj : st = status ∧ B' = domains.toList := by
      have : (status, domains.toList) = (st, B') := by
        simpa [pure, Except.pure] using h
      exact ⟨(Prod.mk.inj this).1.symm, (Prod.mk.inj this).2.symm⟩
    obtain ⟨e1, e2⟩ := hinj
    subst e1 e2
    have hlenB : domains.toList.length = B.length := by
      have := hsz hst; simpa using this
    refine ⟨fun h' => absurd h' hst, fun _ => ⟨hlenB, fun t ht hrel => ?_⟩⟩
    obtain ⟨_, hkeep⟩ := hsol (tval t) (hgsol t ht hrel)
    have htl := inBox_length ht
    have hpt : ∀ k, k < B.length →
        (getDom B k).1 ≤ (getDom domains.toList k).1 ∧ (getDom domains.toList k).1 ≤ getI t k ∧
        getI t k ≤ (getDom domains.toList k).2 ∧ (getDom domains.toList k).2 ≤ (getDom B k).2 := by
      intro k hk
      have := hkeep (k : Int) (by omega) (by simp; omega)
      rw [g2_toArrayG, g2_toListG] at this
      simpa [tval] using this
    refine ⟨inBox_of_getG (by omega) (fun k hk => ?_), boxle_of_getG hlenB (fun k hk => ?_),
      nonempty_of_getG (fun k hk => ?_)⟩
    · have := hpt k (by omega); exact ⟨this.2.1, this.2.2.1⟩
    · have := hpt k hk; exact ⟨this.1, this.2.2.2⟩
    · have := hpt k (by omega); omega

end Nucs
