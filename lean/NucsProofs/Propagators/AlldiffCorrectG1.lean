import NucsProofs.Propagators.AlldiffCorrectBox
/-!
  Functional correctness of the ported alldifferent, part 7 (G1): the result checker
  `checkAllDiff` never rejects an answer of the port, hence the registered model `alldifferentC`
  IS the port (`alldifferentC_eq_port`).

  The certificates searched by the checker have their ends among the minima / maxima of the box;
  the intervals extracted from the algorithm are shrunk to such ends (`infeasible_of_overfull`,
  `forbidden_of_hall`).  Non-emptiness of the answer and distinctness of a ground answer need a
  solution of the input box, i.e. Hall's theorem for interval domains, taken as the hypothesis
  `hmatch` (proved as `hall_matching` in NucsProofs/Propagators/HallMath.lean).
-/
namespace Nucs
namespace AllDiff

theorem within_iff' (d : Dom) (a b : Int) : d.within a b = true ↔ a ≤ d.1 ∧ d.2 ≤ b := by
  simp [Dom.within]

theorem insideCount_congr (B : Box) (a b a' b' : Int)
    (h : ∀ d ∈ B, (a ≤ d.1 ∧ d.2 ≤ b) ↔ (a' ≤ d.1 ∧ d.2 ≤ b')) :
    insideCount B a b = insideCount B a' b' := by
  rw [insideCount_eq_countP', insideCount_eq_countP']
  apply List.countP_congr
  intro d hd
  rw [within_iff', within_iff']
  exact h d hd

theorem insideCount_eq_zero (B : Box) (a b : Int) (h : ∀ d ∈ B, ¬ (a ≤ d.1 ∧ d.2 ≤ b)) :
    insideCount B a b = 0 := by
  rw [insideCount_eq_countP', List.countP_eq_zero]
  intro d hd
  rw [within_iff']
  exact h d hd

theorem mem_mins {B : Box} {d : Dom} (h : d ∈ B) : d.1 ∈ B.mins := by
  unfold Box.mins
  rw [List.mem_eraseDups]
  exact List.mem_map.2 ⟨d, h, rfl⟩

theorem mem_maxs {B : Box} {d : Dom} (h : d ∈ B) : d.2 ∈ B.maxs := by
  unfold Box.maxs
  rw [List.mem_eraseDups]
  exact List.mem_map.2 ⟨d, h, rfl⟩

/-- an over-full interval can be shrunk to one whose ends are a minimum and a maximum of the box -/
theorem overfull_shrink (B : Box) (hdom : ∀ d ∈ B, d.1 ≤ d.2) :
    ∀ (n : Nat) (a b : Int), a ≤ b → b - a ≤ n → (insideCount B a b : Int) > b - a + 1 →
      ∃ a' b', a' ∈ B.mins ∧ b' ∈ B.maxs ∧ a' ≤ b' ∧ (insideCount B a' b' : Int) > b' - a' + 1 := by
  intro n
  induction n with
  | zero =>
    intro a b hab hn hc
    have hba : b = a := by omega
    subst hba
    by_cases hex : ∃ d ∈ B, b ≤ d.1 ∧ d.2 ≤ b
    · obtain ⟨d, hd, h1, h2⟩ := hex
      have := hdom d hd
      have e1 : d.1 = b := by omega
      have e2 : d.2 = b := by omega
      exact ⟨b, b, e1 ▸ mem_mins hd, e2 ▸ mem_maxs hd, hab, hc⟩
    · rw [insideCount_eq_zero B b b (fun d hd h => hex ⟨d, hd, h⟩)] at hc
      simp at hc
  | succ n ih =>
    intro a b hab hn hc
    by_cases hlt : a = b
    · subst hlt; exact ih a a (Int.le_refl _) (by omega) hc
    · by_cases hexa : ∃ d ∈ B, (a ≤ d.1 ∧ d.2 ≤ b) ∧ d.1 = a
      · by_cases hexb : ∃ d ∈ B, (a ≤ d.1 ∧ d.2 ≤ b) ∧ d.2 = b
        · obtain ⟨d1, hd1, _, e1⟩ := hexa
          obtain ⟨d2, hd2, _, e2⟩ := hexb
          exact ⟨a, b, e1 ▸ mem_mins hd1, e2 ▸ mem_maxs hd2, hab, hc⟩
        · have : insideCount B a b = insideCount B a (b - 1) := by
            apply insideCount_congr
            intro d hd
            constructor
            · rintro ⟨h1, h2⟩
              refine ⟨h1, ?_⟩
              by_cases h : d.2 = b
              · exact absurd ⟨d, hd, ⟨h1, h2⟩, h⟩ hexb
              · omega
            · rintro ⟨h1, h2⟩; exact ⟨h1, by omega⟩
          rw [this] at hc
          exact ih a (b - 1) (by omega) (by omega) (by omega)
      · have : insideCount B a b = insideCount B (a + 1) b := by
          apply insideCount_congr
          intro d hd
          constructor
          · rintro ⟨h1, h2⟩
            refine ⟨?_, h2⟩
            by_cases h : d.1 = a
            · exact absurd ⟨d, hd, ⟨h1, h2⟩, h⟩ hexa
            · omega
          · rintro ⟨h1, h2⟩; exact ⟨by omega, h2⟩
        rw [this] at hc
        exact ih (a + 1) b (by omega) (by omega) (by omega)

theorem infeasible_of_overfull (B : Box) (hdom : ∀ d ∈ B, d.1 ≤ d.2) (a b : Int) (hab : a ≤ b)
    (hc : (insideCount B a b : Int) > b - a + 1) : infeasible B = true := by
  obtain ⟨a', b', ha, hb, hab', hc'⟩ := overfull_shrink B hdom (b - a).toNat a b hab (by omega) hc
  unfold infeasible
  rw [List.any_eq_true]
  refine ⟨a', ha, ?_⟩
  rw [List.any_eq_true]
  refine ⟨b', hb, ?_⟩
  unfold overfull
  rw [hallCount_none]
  simp only [Bool.and_eq_true, decide_eq_true_eq]
  exact ⟨hab', by omega⟩

theorem getDom_mem' {B : Box} {k : Nat} (hk : k < B.length) : getDom B k ∈ B := by
  unfold getDom; simp [List.getD, List.getElem?_eq_getElem hk]

theorem hallCount_some_congr (B : Box) (i : Nat) (hi : i < B.length) (a b a' b' : Int)
    (h : ∀ d ∈ B, (a ≤ d.1 ∧ d.2 ≤ b) ↔ (a' ≤ d.1 ∧ d.2 ≤ b')) :
    hallCount B (some i) a b = hallCount B (some i) a' b' := by
  have h1 := hallCount_some a b B i hi
  have h2 := hallCount_some a' b' B i hi
  have h3 := insideCount_congr B a b a' b' h
  have h4 := h _ (getDom_mem' hi)
  by_cases hw : (getDom B i).within a b = true
  · have hw' : (getDom B i).within a' b' = true := by
      rw [within_iff'] at hw ⊢; exact h4.1 hw
    rw [if_pos hw] at h1
    rw [if_pos hw'] at h2
    omega
  · have hw' : ¬ (getDom B i).within a' b' = true := by
      rw [within_iff'] at hw ⊢; exact fun hc => hw (h4.2 hc)
    rw [if_neg hw] at h1
    rw [if_neg hw'] at h2
    omega

theorem hallCount_some_le (B : Box) (i : Nat) (hi : i < B.length) (a b : Int) :
    hallCount B (some i) a b ≤ insideCount B a b := by
  have := hallCount_some a b B i hi
  omega

/-- a Hall interval of the other variables around `v` can be shrunk to one whose ends are a
    minimum and a maximum of the box, still around `v` (when the box satisfies Hall's condition) -/
theorem hall_shrink (B : Box) (hdom : ∀ d ∈ B, d.1 ≤ d.2) (hH : HallOK B) (i : Nat)
    (hi : i < B.length) (v : Int) :
    ∀ (n : Nat) (a b : Int), a ≤ v → v ≤ b → b - a ≤ n →
      (hallCount B (some i) a b : Int) ≥ b - a + 1 →
      ∃ a' b', a' ∈ B.mins ∧ b' ∈ B.maxs ∧ a' ≤ v ∧ v ≤ b' ∧
        (hallCount B (some i) a' b' : Int) ≥ b' - a' + 1 := by
  intro n
  induction n with
  | zero =>
    intro a b hav hvb hn hc
    have hba : b = a := by omega
    subst hba
    have hva : v = b := by omega
    subst hva
    by_cases hex : ∃ d ∈ B, v ≤ d.1 ∧ d.2 ≤ v
    · obtain ⟨d, hd, h1, h2⟩ := hex
      have := hdom d hd
      have e1 : d.1 = v := by omega
      have e2 : d.2 = v := by omega
      exact ⟨v, v, e1 ▸ mem_mins hd, e2 ▸ mem_maxs hd, hav, hvb, hc⟩
    · have h0 := insideCount_eq_zero B v v (fun d hd h => hex ⟨d, hd, h⟩)
      have := hallCount_some_le B i hi v v
      omega
  | succ n ih =>
    intro a b hav hvb hn hc
    by_cases hlt : a = b
    · subst hlt; exact ih a a hav hvb (by omega) hc
    · by_cases hexa : ∃ d ∈ B, (a ≤ d.1 ∧ d.2 ≤ b) ∧ d.1 = a
      · by_cases hexb : ∃ d ∈ B, (a ≤ d.1 ∧ d.2 ≤ b) ∧ d.2 = b
        · obtain ⟨d1, hd1, _, e1⟩ := hexa
          obtain ⟨d2, hd2, _, e2⟩ := hexb
          exact ⟨a, b, e1 ▸ mem_mins hd1, e2 ▸ mem_maxs hd2, hav, hvb, hc⟩
        · have hcg : hallCount B (some i) a b = hallCount B (some i) a (b - 1) := by
            apply hallCount_some_congr B i hi
            intro d hd
            constructor
            · rintro ⟨h1, h2⟩
              refine ⟨h1, ?_⟩
              by_cases h : d.2 = b
              · exact absurd ⟨d, hd, ⟨h1, h2⟩, h⟩ hexb
              · omega
            · rintro ⟨h1, h2⟩; exact ⟨h1, by omega⟩
          rw [hcg] at hc
          by_cases hvb' : v ≤ b - 1
          · exact ih a (b - 1) hav hvb' (by omega) (by omega)
          · have h1 := hH a (b - 1) (by omega)
            have h2 := hallCount_some_le B i hi a (b - 1)
            omega
      · have hcg : hallCount B (some i) a b = hallCount B (some i) (a + 1) b := by
          apply hallCount_some_congr B i hi
          intro d hd
          constructor
          · rintro ⟨h1, h2⟩
            refine ⟨?_, h2⟩
            by_cases h : d.1 = a
            · exact absurd ⟨d, hd, ⟨h1, h2⟩, h⟩ hexa
            · omega
          · rintro ⟨h1, h2⟩; exact ⟨by omega, h2⟩
        rw [hcg] at hc
        by_cases hav' : a + 1 ≤ v
        · exact ih (a + 1) b hav' hvb (by omega) (by omega)
        · have h1 := hH (a + 1) b (by omega)
          have h2 := hallCount_some_le B i hi (a + 1) b
          omega

theorem forbidden_of_hall (B : Box) (hdom : ∀ d ∈ B, d.1 ≤ d.2) (hH : HallOK B) (i : Nat)
    (hi : i < B.length) (v a b : Int) (hav : a ≤ v) (hvb : v ≤ b)
    (hc : (hallCount B (some i) a b : Int) ≥ b - a + 1) : forbidden B i v = true := by
  obtain ⟨a', b', ha, hb, h1, h2, h3⟩ := hall_shrink B hdom hH i hi v (b - a).toNat a b hav hvb
    (by omega) hc
  unfold forbidden
  rw [List.any_eq_true]
  refine ⟨a', ha, ?_⟩
  rw [List.any_eq_true]
  refine ⟨b', hb, ?_⟩
  unfold hallAt
  simp only [Bool.and_eq_true, decide_eq_true_eq]
  exact ⟨⟨h1, h2⟩, by omega⟩

theorem removedOk_of (B : Box) (i : Nat) (d d' : Dom)
    (h1 : ∀ v, d.1 ≤ v → v < d'.1 → forbidden B i v = true)
    (h2 : ∀ v, d'.2 < v → v ≤ d.2 → forbidden B i v = true) : removedOk B i d d' = true := by
  unfold removedOk
  rw [Bool.and_eq_true, List.all_eq_true, List.all_eq_true]
  constructor
  · intro k hk
    rw [List.mem_range] at hk
    exact h1 _ (by omega) (by omega)
  · intro k hk
    rw [List.mem_range] at hk
    exact h2 _ (by omega) (by omega)

theorem checkDoms_of (B0 : Box) : ∀ (ds ds' : Box) (i : Nat), ds.length = ds'.length →
    (∀ k, k < ds.length → (getDom ds k).1 ≤ (getDom ds' k).1 ∧
      (getDom ds' k).1 ≤ (getDom ds' k).2 ∧ (getDom ds' k).2 ≤ (getDom ds k).2 ∧
      removedOk B0 (i + k) (getDom ds k) (getDom ds' k) = true) →
    checkDoms B0 i ds ds' = true
  | [], [], _, _, _ => rfl
  | [], _ :: _, _, h, _ => by simp at h
  | _ :: _, [], _, h, _ => by simp at h
  | d :: ds, d' :: ds', i, hl, h => by
    have h0 := h 0 (by simp)
    simp only [getDom, List.getD_cons_zero, Nat.add_zero] at h0
    have ih := checkDoms_of B0 ds ds' (i + 1) (by simpa using hl) (fun k hk => by
      have := h (k + 1) (by simpa using hk)
      simp only [getDom, List.getD_cons_succ] at this
      have e : i + (k + 1) = i + 1 + k := by omega
      rw [e] at this
      exact this)
    simp only [checkDoms, Bool.and_eq_true, decide_eq_true_eq]
    exact ⟨⟨⟨⟨h0.1, h0.2.1⟩, h0.2.2.1⟩, h0.2.2.2⟩, ih⟩

theorem inBox_of_get : ∀ (t : List Int) (B : Box), t.length = B.length →
    (∀ k, k < B.length → (getDom B k).1 ≤ getI t k ∧ getI t k ≤ (getDom B k).2) → inBox t B
  | [], [], _, _ => trivial
  | [], _ :: _, h, _ => by simp at h
  | _ :: _, [], h, _ => by simp at h
  | x :: xs, d :: ds, hl, h => by
    have h0 := h 0 (by simp)
    simp only [getDom, getI, List.getD_cons_zero] at h0
    refine ⟨h0, inBox_of_get xs ds (by simpa using hl) (fun k hk => ?_)⟩
    have := h (k + 1) (by simpa using hk)
    simpa [getDom, getI] using this

/-- **G1**: the checker accepts every answer of the port -/
theorem checkAllDiff_port
    (hmatch : ∀ B : Box, B.Nonempty → HallOK B → ∃ t, inBox t B ∧ t.Nodup)
    (ps : List Int) (B : Box) (hne : B ≠ []) (hdom : ∀ d ∈ B, d.1 ≤ d.2) (st : Status) (B' : Box)
    (h : alldifferent ps B = .ok (st, B')) : checkAllDiff B st B' = true := by
  obtain ⟨st1, B1, hr, hcases⟩ := port_facts ps B hne hdom
  rw [hr] at h
  injection h with h
  injection h with e1 e2
  subst e1 e2
  rcases hcases with ⟨hst, hB, a, b, hab, hc⟩ | ⟨hst, hlen, hH, hpos⟩
  · subst hst
    exact infeasible_of_overfull B hdom a b hab hc
  · subst hst
    obtain ⟨t, ht, hnd⟩ := hmatch B hdom hH
    have htl := inBox_length ht
    have hin : ∀ i, i < B.length →
        (getDom B1 i).1 ≤ getI t i ∧ getI t i ≤ (getDom B1 i).2 := by
      intro i hi
      have hp := hpos i hi
      have hg := inBox_get i ht hi
      constructor
      · by_cases hlt : (getDom B1 i).1 ≤ getI t i
        · exact hlt
        · obtain ⟨a, b, ha, hb, hc⟩ := hp.sndLo (getI t i) hg.1 (by omega)
          exact absurd ⟨ha, hb⟩ (hall_excludes B i a b t hi (by omega) ht hnd)
      · by_cases hlt : getI t i ≤ (getDom B1 i).2
        · exact hlt
        · obtain ⟨a, b, ha, hb, hc⟩ := hp.sndHi (getI t i) (by omega) hg.2
          exact absurd ⟨ha, hb⟩ (hall_excludes B i a b t hi (by omega) ht hnd)
    unfold checkAllDiff
    simp only [Bool.and_eq_true, Bool.or_eq_true, Bool.not_eq_true']
    constructor
    · apply checkDoms_of B B B1 0 hlen.symm
      intro k hk
      have hp := hpos k hk
      have hi := hin k hk
      refine ⟨hp.le1, by omega, hp.le2, ?_⟩
      rw [Nat.zero_add]
      apply removedOk_of
      · intro v h1 h2
        obtain ⟨a, b, ha, hb, hc⟩ := hp.sndLo v h1 h2
        exact forbidden_of_hall B hdom hH k hk v a b ha hb hc
      · intro v h1 h2
        obtain ⟨a, b, ha, hb, hc⟩ := hp.sndHi v h1 h2
        exact forbidden_of_hall B hdom hH k hk v a b ha hb hc
    · by_cases hg : B1.isGround = true
      · right
        have hinB : inBox t B1 := inBox_of_get t B1 (by omega) (fun k hk => hin k (by omega))
        have := eq_map_fst_of_ground hinB hg
        rw [nodupB_iff, ← this]
        exact hnd
      · left; simpa using hg

/-- **the registered model is the port**: `alldifferentC` never falls back -/
theorem alldifferentC_eq_port
    (hmatch : ∀ B : Box, B.Nonempty → HallOK B → ∃ t, inBox t B ∧ t.Nodup)
    (ps : List Int) (B : Box) (hne : B ≠ []) (hdom : ∀ d ∈ B, d.1 ≤ d.2) :
    ∃ st B', alldifferent ps B = .ok (st, B') ∧
      alldifferentC ps B = .ok (st, if st = .inc then B else B') := by
  obtain ⟨⟨st, B'⟩, hr⟩ := C16_port_alldifferent_ok ps B hne hdom
  refine ⟨st, B', hr, ?_⟩
  unfold alldifferentC
  rw [hr]
  simp only [checkAllDiff_port hmatch ps B hne hdom st B' hr, if_true]

end AllDiff
end Nucs
