import NucsProofs.Propagators.GccLbcDefs
import NucsProofs.Propagators.GccSoundUMinLoop
/-!
  Completeness of the lower-capacity passes of the ported gcc: the main loop of `filter_upper_min`
  (GccSoundUMinLoop) re-proved with one more ghost invariant, the COMPLETENESS half `CFact` of the
  recorded candidate bound of every used variable (in the mirrored coordinates of the pass).

  * used step: the mirrored candidate `w` is a root of the current mirrored `sets` (`ERel.wroot`),
    and `ESem.s4` of the state before the step says that the nodes of an interval exactly filled by
    the used variables all point up; `Sm ry (U ++ [v]) v = Sm ry U v` is a sublist of `U`;
  * the older used variables `u` have `ry u ≤ Y ≤ ry v`, so `Sm ry (U ++ [v]) u = Sm ry U u`;
  * unused step: nothing changes.
-/
namespace Nucs
namespace Gcc
open AllDiff (g upd g2 upd2 ok_bind pure_eq_ok except_bind_ok forIn_list_except range_forIn_eq
  size_upd size_upd2 g_upd g_upd_same g_upd_ne UChain UPre LChain LStruct cinR mir mirv mbd
  lchain_of_uchain Sm cinR_sublist)

/-! ### the abstract step -/

/-- the invariant: the completeness half of the recorded bound of every used variable -/
def CInv (N : Int) (bd rx ry : Int → Int) (U : List Int) (wf : Int → Int) : Prop :=
  ∀ u ∈ U, CFact N bd rx ry U u (wf u)

theorem sm_snoc_of_le (ry : Int → Int) (U : List Int) (v u : Int) (h : ry u ≤ ry v) :
    Sm ry (U ++ [v]) u = Sm ry U u := by
  unfold Sm
  rw [List.filter_append]
  have : [v].filter (fun p => decide (ry p < ry u)) = [] := by
    rw [List.filter_eq_nil_iff]
    intro p hp
    have : p = v := by simpa using hp
    subst this
    simp only [decide_eq_true_eq]
    omega
  rw [this, List.append_nil]

theorem sm_sublist (ry : Int → Int) (U : List Int) (u : Int) : (Sm ry U u).Sublist U := by
  unfold Sm
  exact List.filter_sublist

/-- the invariant is preserved by an iteration that uses the variable `v` with (mirrored)
    candidate `w`, a root of the current `sf` -/
theorem cinv_step {N : Int} {bd rx ry : Int → Int} {all P U : List Int} {Y : Int}
    {tf df sf wf : Int → Int} (hsem : ESem N bd rx ry all P U Y tf df sf wf) {v w : Int}
    (hYv : Y ≤ ry v) (hwroot : sf w < w) (hK : CInv N bd rx ry U wf) :
    CInv N bd rx ry (U ++ [v]) (fun u => if u = v then w else wf u) := by
  intro u hu
  by_cases huv : u = v
  · subst huv
    simp only [if_true]
    intro ja yb h1 h2 h3 hc hw
    rw [sm_snoc_of_le ry U u u (Int.le_refl _)] at hc
    have hsub := cinR_sublist rx ry (sm_sublist ry U u) ja yb
    have := hsem.s4 ja yb h1 h2 h3 (by omega) w hw.1 hw.2
    omega
  · simp only [if_neg huv]
    have hU : u ∈ U := by
      rcases List.mem_append.1 hu with h | h
      · exact h
      · simp at h; exact absurd h huv
    have hry : ry u ≤ ry v := by
      have := hsem.pY u (hsem.usub u hU)
      omega
    intro ja yb h1 h2 h3 hc
    rw [sm_snoc_of_le ry U v u hry] at hc
    exact hK u hU ja yb h1 h2 h3 hc

/-! ### one iteration of the main loop -/

theorem uminBody_semK {M : Int} {sz : Nat} {bounds : Array Int} {l : PSum} {fv m : Int}
    {tl c sets : Array Int} {rx ry : Int → Int} {all P U : List Int} {Y : Int} {wf : Int → Int}
    (hb : BC bounds (M + 1) fv m) (hl : PS l fv m)
    (hctx : WCtx (M + 1) (mbd (M + 1) (K l fv bounds)) rx ry all)
    (hc : UMinCore M sz (K l fv bounds) tl c sets)
    (nm : Array Int) (hnm : NMOk' (M + 1) nm)
    (hsem : ESem (M + 1) (mbd (M + 1) (K l fv bounds)) rx ry all P U Y (mir (M + 1) (g tl))
      (mirv (M + 1) (dfu (K l fv bounds) M c)) (mir (M + 1) (g sets)) wf)
    (hK : CInv (M + 1) (mbd (M + 1) (K l fv bounds)) rx ry U wf)
    (ranks : Arr2) (msv : Array Int) (hrx : ∀ u, M + 1 - (g2 ranks u).2 = rx u)
    (hry : ∀ u, M + 1 - (g2 ranks u).1 = ry u) (i w v : Int)
    (hi0 : 0 ≤ i) (hi1 : i < nm.size) (hi2 : i < msv.size) (hvi : g msv i = v)
    (hv0 : 0 ≤ v) (hv1 : v < ranks.size) (hv : v ∈ all) (hYv : Y ≤ ry v) (hvU : v ∉ U) :
    ∃ tl' c' sets' nm' w' U' wf',
      uminBody bounds ranks msv l i (tl, c, sets, nm, w) =
        .ok (.yield (tl', c', sets', nm', w')) ∧
      UMinCore M sz (K l fv bounds) tl' c' sets' ∧ NMOk' (M + 1) nm' ∧ nm'.size = nm.size ∧
      ESem (M + 1) (mbd (M + 1) (K l fv bounds)) rx ry all (P ++ [v]) U' (ry v)
        (mir (M + 1) (g tl')) (mirv (M + 1) (dfu (K l fv bounds) M c')) (mir (M + 1) (g sets'))
        wf' ∧
      UStep (M + 1) (mbd (M + 1) (K l fv bounds)) rx ry i v U U' wf wf' nm nm' ∧
      CInv (M + 1) (mbd (M + 1) (K l fv bounds)) rx ry U' wf' := by
  obtain ⟨hx1, hxy, hyN⟩ := hctx.rk v hv
  have hrxv := hrx v
  have hryv := hry v
  have hbsz := hb.hsz
  have hNsz := hc.hsz
  have hst := hc.st
  have hsc := hc.sc
  have hKt := K_top' hb hl
  have hs := hc.toLStruct hKt
  unfold uminBody
  simp only []
  rw [rd_ok msv i hi0 hi2, ok_bind, hvi, rd2_max_ok ranks v hv0 hv1, ok_bind,
    rd2_min_ok ranks v hv0 hv1, ok_bind]
  generalize (g2 ranks v).2 = x at hrxv ⊢
  generalize (g2 ranks v).1 = y at hryv ⊢
  have hxM : x ≤ M := by omega
  have hyx : y < x := by omega
  have hy1 : 1 ≤ y := by omega
  obtain ⟨z, hpm, hz1, hz2, hz3, hz4⟩ := path_min_spec tl 0 M (x - 1) (by omega) (by omega)
    (fun k h1 h2 => (hc.ct.rng k h1 h2).1) (fun k h1 h2 h3 => hc.ct.down k h1 h2 h3)
    (by omega) (by omega)
  have hzr : g tl z > z := by have := hc.ct.rng z hz1 (by omega); omega
  -- the mirrored reading of `z`
  have hz0r : mir (M + 1) (g tl) (M + 1 - z) < M + 1 - z := by
    simp only [mir, Int.sub_sub_self]; omega
  have hz0f : ∀ k, rx v + 1 ≤ k → k < M + 1 - z → mir (M + 1) (g tl) k > k := by
    intro k h1 h2
    simp only [mir]
    have := hz4 (M + 1 - k) (by omega) (by omega)
    omega
  rw [hpm, ok_bind, rd_ok tl z (by omega) (by omega), ok_bind, rd_ok c z (by omega) (by omega),
    ok_bind, rd_ok bounds z (by omega) (by omega), ok_bind,
    rd_ok bounds y (by omega) (by omega), ok_bind,
    get_sum_bounds_ok hl hb z y hz1 (by omega) hy1 (by omega), ok_bind]
  by_cases hgt : g c z > gsum l (g bounds z) (g bounds y - 1)
  · rw [if_pos hgt]
    have hzy : M + 1 - z ≤ ry v := by
      by_cases h : y ≤ z
      · omega
      · exfalso
        have h1 := gsum_K hl hb z y hz1 (by omega) (by omega)
        have h2 := (stable_test hctx hs hsem hx1 hxy hYv (z0 := M + 1 - z) (by omega) (by omega)
          hz0r hz0f (by omega)).1
        rw [← hryv] at h2
        simp only [mirv, mbd, Int.sub_sub_self] at h2
        rw [dfu_lt _ M c z (by omega)] at h2
        omega
    obtain ⟨tl', c', sets', nm', w', z', wn, he, hc', hnm', hsz', hrel, hnme⟩ :=
      uminElse_rel hb hl hc nm hnm i x y z (g tl z) w hi0 hi1 hy1 hyx hxM hz2 hz1 hzr rfl hz4 hgt
    have hrel' := uerel_to_erel hrel
    rw [hrxv, hryv] at hrel'
    refine ⟨tl', c', sets', nm', w', U ++ [v], fun u => if u = v then M + 1 - wn else wf u, he,
      hc', hnm', hsz', ?_, Or.inr ⟨wn, rfl, rfl, hnme⟩, cinv_step hsem hYv hrel'.wroot hK⟩
    exact esem_step hctx hs (hc'.toLStruct hKt) hsem hv hYv hvU hzy hrel' (fun u _ => rfl)
  · rw [if_neg hgt]
    have hyz : ry v < M + 1 - z := by
      by_cases h : z < y
      · omega
      · exfalso
        have h1 := (gsum_K_neg hl hb z y hy1 (by omega) (by omega)).2
        have h2 := (hc.d1 z hz1 (by omega) hzr).1
        omega
    obtain ⟨tl', he, hc', hr3, hv3⟩ := uminFin_rel hc x z hxM hz2 hz1 hzr hz4 nm w
    refine ⟨tl', c, sets, nm, w, U, wf, he, hc', hnm, rfl, ?_, Or.inl ⟨rfl, rfl, rfl, ?_⟩, hK⟩
    · refine esem_skip hctx hsem hv hYv ?_ ?_
      · intro k h1 h2
        simp only [mir]
        have := hr3 (M + 1 - k) (by omega) (by omega)
        omega
      · intro k h1 h2 h3
        simp only [mir] at h3 ⊢
        have := hv3 (M + 1 - k) (by omega) (by omega) (by omega)
        omega
    · exact unused_zone hctx hs hsem hv hYv (by omega) (by omega) hz0r hz0f hyz

/-! ### the main loop -/

theorem uminLoop_semK {M : Int} {sz : Nat} {bounds : Array Int} {l : PSum} {fv m : Int}
    {tl c sets : Array Int} {rx ry : Int → Int} (hb : BC bounds (M + 1) fv m) (hl : PS l fv m)
    (ranks : Arr2) (msv : Array Int) (hrx : ∀ u, M + 1 - (g2 ranks u).2 = rx u)
    (hry : ∀ u, M + 1 - (g2 ranks u).1 = ry u) (n : Int) (all : List Int)
    (hall : all = (rangeDown (n - 1) (-1)).map (g msv))
    (hctx : WCtx (M + 1) (mbd (M + 1) (K l fv bounds)) rx ry all)
    (hc : UMinCore M sz (K l fv bounds) tl c sets) (wf0 : Int → Int)
    (hsem : ESem (M + 1) (mbd (M + 1) (K l fv bounds)) rx ry all [] [] 0 (mir (M + 1) (g tl))
      (mirv (M + 1) (dfu (K l fv bounds) M c)) (mir (M + 1) (g sets)) wf0)
    (nm : Array Int) (w : Int)
    (hn : n = msv.size) (hnn : (nm.size : Int) = n) (hnm : NMOk' (M + 1) nm)
    (hmsv : ∀ i : Int, 0 ≤ i → i < n → 0 ≤ g msv i ∧ g msv i < (ranks.size : Int))
    (hnodup : all.Nodup) (hsorted : all.Pairwise (fun a b => ry a ≤ ry b)) :
    ∃ s, forIn (rangeDown (n - 1) (-1)) ((tl, c, sets, nm, w) : UMinSt)
        (uminBody bounds ranks msv l) = .ok s ∧
      ∃ U Y wf, ULoopPost M sz n (K l fv bounds) rx ry msv all s U Y wf ∧
        CInv (M + 1) (mbd (M + 1) (K l fv bounds)) rx ry U wf := by
  have hidxr : ∀ i ∈ rangeDown (n - 1) (-1), 0 ≤ i ∧ i < n := by
    intro i hi
    have := (AllDiff.mem_rangeDown (n - 1) (-1) i).1 hi
    omega
  have hidxm : ∀ i, 0 ≤ i → i < n → i ∈ rangeDown (n - 1) (-1) := by
    intro i h0 h1
    exact (AllDiff.mem_rangeDown (n - 1) (-1) i).2 ⟨by omega, by omega⟩
  generalize hidx : rangeDown (n - 1) (-1) = idxs at hall hidxr hidxm ⊢
  refine forIn_list_except
    (Inv := fun (rest : List Int) (s : UMinSt) => ∃ (Pi U : List Int) (Y : Int) (wf : Int → Int),
      idxs = Pi ++ rest ∧
      UMinCore M sz (K l fv bounds) s.1 s.2.1 s.2.2.1 ∧ NMOk' (M + 1) s.2.2.2.1 ∧
      (s.2.2.2.1.size : Int) = n ∧ U.Sublist (Pi.map (g msv)) ∧
      ESem (M + 1) (mbd (M + 1) (K l fv bounds)) rx ry all (Pi.map (g msv)) U Y
        (mir (M + 1) (g s.1)) (mirv (M + 1) (dfu (K l fv bounds) M s.2.1))
        (mir (M + 1) (g s.2.2.1)) wf ∧
      (∀ i ∈ rest, Y ≤ ry (g msv i)) ∧
      (∀ p ∈ Pi.map (g msv), p ∉ U → ∃ a, 1 ≤ a ∧ a ≤ rx p ∧
        cinR rx ry U a (ry p) ≥
          mbd (M + 1) (K l fv bounds) (ry p) - mbd (M + 1) (K l fv bounds) a) ∧
      (∀ i' ∈ Pi, g msv i' ∈ U → g s.2.2.2.1 i' = M + 1 - wf (g msv i')) ∧
      CInv (M + 1) (mbd (M + 1) (K l fv bounds)) rx ry U wf)
    _ _ ?_ ?_ _ _ ?_
  · rintro x rest ⟨tl1, c1, sets1, nm1, w1⟩
      ⟨Pi, U, Y, wf, hPr, hc1, hnm1, hnn1, husub, hes, hY, hgh, hlink, hK⟩
    simp only at hc1 hnm1 hnn1 hes hgh hlink
    left
    have hxi := hidxr x (by rw [hPr]; simp)
    have hv := hmsv x hxi.1 hxi.2
    have hallP : all = Pi.map (g msv) ++ g msv x :: rest.map (g msv) := by
      rw [hall, hPr]; simp
    have hvall : g msv x ∈ all := by rw [hallP]; simp
    have hnd : (Pi.map (g msv) ++ g msv x :: rest.map (g msv)).Nodup := by
      rw [← hallP]; exact hnodup
    have hvP : g msv x ∉ Pi.map (g msv) := by
      intro hin
      have := (List.nodup_append.1 hnd).2.2 _ hin _ (List.mem_cons_self)
      exact this rfl
    have hsr : (Pi.map (g msv) ++ g msv x :: rest.map (g msv)).Pairwise
        (fun a b => ry a ≤ ry b) := by
      rw [← hallP]; exact hsorted
    have hvrest : ∀ u ∈ rest.map (g msv), ry (g msv x) ≤ ry u := by
      have h2 := (List.pairwise_append.1 hsr).2.1
      exact fun u hu => (List.pairwise_cons.1 h2).1 u hu
    have hvU : g msv x ∉ U := fun h => hvP (husub.subset h)
    have hxPi : ∀ i' ∈ Pi, i' ≠ x ∧ g msv i' ≠ g msv x := by
      intro i' hi'
      have hm : g msv i' ∈ Pi.map (g msv) := List.mem_map.2 ⟨i', hi', rfl⟩
      exact ⟨fun h => hvP (h ▸ hm), fun h => hvP (h ▸ hm)⟩
    obtain ⟨tl', c', sets', nm', w', U', wf', he, hc', hnm', hsz', hes', hstp, hK'⟩ :=
      uminBody_semK hb hl hctx hc1 nm1 hnm1 hes hK ranks msv hrx hry x w1 (g msv x) hxi.1
        (by omega) (by omega) rfl hv.1 hv.2 hvall (hY x (by simp)) hvU
    refine ⟨_, he, Pi ++ [x], U', ry (g msv x), wf', by rw [hPr]; simp, hc', hnm',
      by simp only; omega, ?_, ?_, ?_, ?_, ?_, hK'⟩
    · rw [List.map_append, List.map_singleton]
      rcases hstp with ⟨e1, _, _, _⟩ | ⟨wn, e1, _, _⟩
      · rw [e1]; exact husub.trans (List.sublist_append_left _ _)
      · rw [e1]; exact List.Sublist.append husub (List.Sublist.refl _)
    · rw [List.map_append, List.map_singleton]; exact hes'
    · intro i hi
      exact hvrest (g msv i) (List.mem_map.2 ⟨i, hi, rfl⟩)
    · rw [List.map_append, List.map_singleton]
      intro p hp hpU
      rcases hstp with ⟨e1, _, _, hz⟩ | ⟨wn, e1, _, _⟩
      · rw [e1] at hpU ⊢
        rcases List.mem_append.1 hp with h | h
        · exact hgh p h hpU
        · have : p = g msv x := by simpa using h
          rw [this]; exact hz
      · rw [e1] at hpU ⊢
        have hpv : p ≠ g msv x := fun h => hpU (by rw [h]; simp)
        have hpP : p ∈ Pi.map (g msv) := by
          rcases List.mem_append.1 hp with h | h
          · exact h
          · simp at h; exact absurd h hpv
        obtain ⟨a, a1, a2, a3⟩ := hgh p hpP (fun h => hpU (List.mem_append_left _ h))
        refine ⟨a, a1, a2, ?_⟩
        have := cinR_snoc_ge rx ry U (g msv x) a (ry p)
        omega
    · intro i' hi' hmem
      simp only
      rcases hstp with ⟨e1, e2, e3, _⟩ | ⟨wn, e1, e2, e3⟩
      · rw [e1] at hmem
        rw [e2, e3]
        rcases List.mem_append.1 hi' with h | h
        · exact hlink i' h hmem
        · have : i' = x := by simpa using h
          rw [this] at hmem; exact absurd hmem hvU
      · rw [e1] at hmem
        rw [e2, e3]
        rcases List.mem_append.1 hi' with h | h
        · obtain ⟨hne, hnev⟩ := hxPi i' h
          have hi'r := hidxr i' (by rw [hPr]; simp [h])
          rw [g_upd_ne nm1 x wn i' hxi.1 (by omega) hi'r.1 hne]
          simp only [hnev, if_false]
          have hU : g msv i' ∈ U := by
            rcases List.mem_append.1 hmem with h | h
            · exact h
            · simp at h; exact absurd h hnev
          exact hlink i' h hU
        · have : i' = x := by simpa using h
          subst this
          rw [g_upd_same nm1 i' wn hxi.1 (by omega)]
          simp only [if_true]
          omega
  · rintro ⟨tl1, c1, sets1, nm1, w1⟩
      ⟨Pi, U, Y, wf, hPr, hc1, hnm1, hnn1, husub, hes, hY, hgh, hlink, hK⟩
    simp only at hc1 hnm1 hnn1 hes hgh hlink
    have hP : all = Pi.map (g msv) := by rw [hall, hPr]; simp
    have hPi : idxs = Pi := by rw [hPr]; simp
    rw [← hP] at hes husub hgh
    exact ⟨U, Y, wf, ⟨hc1, hnn1, hnm1, husub, hes, hgh,
      fun i h0 h1 hm => hlink i (hPi ▸ hidxm i h0 h1) hm⟩, hK⟩
  · refine ⟨[], [], 0, wf0, by simp, hc, hnm, hnn, List.Sublist.refl _, hsem, ?_,
      fun p hp => by simp at hp, fun i' hi' => by simp at hi', fun u hu => by cases hu⟩
    intro i hi
    have : g msv i ∈ all := by rw [hall]; exact List.mem_map.2 ⟨i, hi, rfl⟩
    have := hctx.rk _ this
    omega

/-! ### the whole pass -/

/-- `filter_upper_min_sem` with, about the same witnesses `U`, `wf`, the completeness half of the
    recorded candidate bound of every used variable -/
theorem filter_upper_min_semK {M : Int} {sz : Nat} {bounds : Array Int} {l : PSum} {fv m : Int}
    (hb : BC bounds (M + 1) fv m) (hl : PS l fv m) (n : Int) (tl c sets : Array Int)
    (domains ranks : Arr2) (msv stbl nm : Array Int)
    (hst : tl.size = sz) (hsc : c.size = sz) (hss : sets.size = sz) (hsb : stbl.size = sz)
    (hNsz : M + 1 < sz) (hrs : ranks.size = domains.size)
    (hn : n = msv.size) (hnn : (nm.size : Int) = n) (hnm : NMOk' (M + 1) nm)
    (hmsv : ∀ i : Int, 0 ≤ i → i < n → 0 ≤ g msv i ∧ g msv i < (domains.size : Int))
    (hranks : ∀ v : Int, 0 ≤ v → v < ranks.size →
      1 ≤ (g2 ranks v).1 ∧ (g2 ranks v).1 < (g2 ranks v).2 ∧ (g2 ranks v).2 ≤ M)
    (all : List Int) (hall : all = (rangeDown (n - 1) (-1)).map (g msv))
    (hnodup : all.Nodup)
    (hsorted : all.Pairwise (fun a b => (g2 ranks b).1 ≤ (g2 ranks a).1)) :
    ∃ r, filter_upper_min n M tl c sets bounds domains ranks msv l stbl nm = .ok r ∧
      r.1 = true ∧ r.2.2.2.2.1.size = domains.size ∧
      ∃ U sf wf, UMinOut M n (K l fv bounds) bounds l ranks msv all domains stbl
        r.2.2.2.2.2 r.2.2.2.2.1 U sf wf ∧
        (∀ u ∈ U, CFact (M + 1) (mbd (M + 1) (K l fv bounds)) (fun v => M + 1 - (g2 ranks v).2)
          (fun v => M + 1 - (g2 ranks v).1) U u (wf u)) := by
  rw [filter_upper_min_eq]
  obtain ⟨s1, tl1, s2, sets1, he1, hw1, he2, hw2, hc, hcv, htl, hsets, _⟩ :=
    uminInit_sem_roots hb hl tl c sets hst hsc hss hNsz
  rw [he1, ok_bind, hw1, ok_bind, he2, ok_bind, hw2, ok_bind]
  have hrkall : ∀ v ∈ all,
      1 ≤ (g2 ranks v).1 ∧ (g2 ranks v).1 < (g2 ranks v).2 ∧ (g2 ranks v).2 ≤ M := by
    intro v hv
    rw [hall] at hv
    obtain ⟨i, hi1, hi2⟩ := List.mem_map.1 hv
    have := (AllDiff.mem_rangeDown (n - 1) (-1) i).1 hi1
    have hm := hmsv i (by omega) (by omega)
    rw [← hi2]; exact hranks _ hm.1 (by omega)
  have hctx := uwctx hb hl (fun v => M + 1 - (g2 ranks v).2) (fun v => M + 1 - (g2 ranks v).1)
    ranks (fun _ => rfl) (fun _ => rfl) all hrkall
  have hsem0 := uminInit_esem hctx hc hcv htl hsets (fun _ => 0)
  have hsorted' : all.Pairwise (fun a b =>
      (fun v => M + 1 - (g2 ranks v).1) a ≤ (fun v => M + 1 - (g2 ranks v).1) b) := by
    refine hsorted.imp ?_
    intro a b hab
    show M + 1 - (g2 ranks a).1 ≤ M + 1 - (g2 ranks b).1
    omega
  obtain ⟨s3, he3, U, Y, wf, hpost, hK⟩ :=
    uminLoop_semK hb hl ranks msv (fun _ => rfl) (fun _ => rfl)
      n all hall hctx hc (fun _ => 0) hsem0 nm s2.2 hn hnn hnm
      (fun i h0 h1 => by have := hmsv i h0 h1; omega) hnodup hsorted'
  rw [he3, ok_bind]
  obtain ⟨d5, he5, hs5, hshr⟩ := uminShrink_sem hb hl n ranks domains msv stbl s3.2.2.2.1 hn
    hpost.nn hpost.nm (by omega) hrs hmsv (fun v h0 h1 => by have := hranks v h0 h1; omega)
    (by rw [← hall]; exact hnodup)
  rw [he5, ok_bind]
  exact ⟨_, rfl, rfl, hs5, U, mir (M + 1) (g s3.2.2.1), wf,
    ⟨⟨Y, _, _, hpost.esem⟩, hpost.usub, hpost.uz, hpost.link, hs5, hshr⟩, hK⟩

end Gcc
end Nucs
