import NucsProofs.Propagators.GccSoundCount
import NucsProofs.Propagators.GccSoundLFinal
/-!
  Semantic soundness of the ported gcc — from values to cells, for the lower-capacity passes.
  A solution `τ` (value of each variable) induces a cell solution `κ` (`CellSol`): the cell of a
  value `v` is the index `k` with `bounds[k] ≤ v < bounds[k+1]`.  Consequences of `lfin_tight`:
  a variable that is not stable takes a value of non-zero lower capacity.
-/
namespace Nucs
namespace Gcc
open AllDiff (cinR Oth LChain)

/-- the link between ranks, bounds, domains, the assignment and the lower capacities -/
structure LCtx (N : Int) (bd bnd rx ry : Int → Int) (all : List Int) (lo hi τ cum : Int → Int) :
    Prop where
  mono : ∀ i j, 0 ≤ i → i < j → j ≤ N → bnd i < bnd j
  rk : ∀ u ∈ all, 1 ≤ rx u ∧ rx u < ry u ∧ ry u < N
  hlo : ∀ u ∈ all, lo u = bnd (rx u)
  hhi : ∀ u ∈ all, hi u + 1 = bnd (ry u)
  htau : ∀ u ∈ all, lo u ≤ τ u ∧ τ u ≤ hi u
  hbd : ∀ k, 0 ≤ k → k ≤ N → bd k = cum (bnd k)
  hdem : ∀ v, bnd 1 ≤ v → v < bnd (N - 1) → cum (v + 1) - cum v ≤ occ τ all v

theorem cntIn_split (τ : Int → Int) (a b c : Int) (hab : a ≤ b) (hbc : b ≤ c) :
    ∀ L : List Int, cntIn τ L a c = cntIn τ L a b + cntIn τ L b c := by
  intro L
  induction L with
  | nil => rfl
  | cons p L ih =>
    rw [cntIn_cons, cntIn_cons, cntIn_cons, ih]
    by_cases h1 : a ≤ τ p <;> by_cases h2 : τ p < b <;> by_cases h3 : τ p < c <;>
      by_cases h4 : b ≤ τ p <;> simp [h1, h2, h3, h4] <;> omega

theorem cntIn_one (τ : Int → Int) (v : Int) : ∀ L : List Int, cntIn τ L v (v + 1) = occ τ L v := by
  intro L
  rw [cntIn_succ τ v v (Int.le_refl _) L, cntIn_empty]; omega

section lval
variable {N : Int} {bd bnd rx ry : Int → Int} {all : List Int} {lo hi τ cum : Int → Int}

theorem LCtx.le (h : LCtx N bd bnd rx ry all lo hi τ cum) (i j : Int) (h0 : 0 ≤ i) (hij : i ≤ j)
    (hj : j ≤ N) : bnd i ≤ bnd j := by
  by_cases he : i = j
  · subst he; exact Int.le_refl _
  · exact Int.le_of_lt (h.mono i j h0 (by omega) hj)

/-- discrete intermediate value: a value between two bounds lies in a cell between them -/
theorem exists_cell_aux (_h : LCtx N bd bnd rx ry all lo hi τ cum) (v : Int) :
    ∀ (n : Nat) (a b : Int), 0 ≤ a → b ≤ N → b = a + n + 1 → bnd a ≤ v → v < bnd b →
      ∃ k, a ≤ k ∧ k < b ∧ bnd k ≤ v ∧ v < bnd (k + 1) := by
  intro n
  induction n with
  | zero =>
    intro a b h0 h1 h2 h3 h4
    have : b = a + 1 := by omega
    subst this
    exact ⟨a, Int.le_refl _, by omega, h3, h4⟩
  | succ n ih =>
    intro a b h0 h1 h2 h3 h4
    by_cases hc : v < bnd (b - 1)
    · obtain ⟨k, k1, k2, k3, k4⟩ := ih a (b - 1) h0 (by omega) (by omega) h3 hc
      exact ⟨k, k1, by omega, k3, k4⟩
    · refine ⟨b - 1, by omega, by omega, by omega, ?_⟩
      have : b - 1 + 1 = b := by omega
      rw [this]; exact h4

theorem exists_cell (h : LCtx N bd bnd rx ry all lo hi τ cum) (u : Int) (hu : u ∈ all) :
    ∃ k, rx u ≤ k ∧ k < ry u ∧ bnd k ≤ τ u ∧ τ u < bnd (k + 1) := by
  have hr := h.rk u hu
  have e1 := h.hlo u hu
  have e2 := h.hhi u hu
  have e3 := h.htau u hu
  exact exists_cell_aux h (τ u) (ry u - rx u - 1).toNat (rx u) (ry u) (by omega) (by omega)
    (by omega) (by omega) (by omega)

/-- the cell of the value of `u` -/
noncomputable def cellOf (N : Int) (bnd τ : Int → Int) (u : Int) : Int :=
  open Classical in
  if hx : ∃ k, 0 ≤ k ∧ k < N ∧ bnd k ≤ τ u ∧ τ u < bnd (k + 1) then Classical.choose hx else 0

theorem cell_unique (h : LCtx N bd bnd rx ry all lo hi τ cum) (v k k' : Int) (h0 : 0 ≤ k)
    (h1 : k < N) (h0' : 0 ≤ k') (h1' : k' < N) (a : bnd k ≤ v ∧ v < bnd (k + 1))
    (b : bnd k' ≤ v ∧ v < bnd (k' + 1)) : k = k' := by
  by_cases hlt : k < k'
  · have := h.le (k + 1) k' (by omega) (by omega) (by omega); omega
  · by_cases hgt : k' < k
    · have := h.le (k' + 1) k (by omega) (by omega) (by omega); omega
    · omega

theorem cell_iff (h : LCtx N bd bnd rx ry all lo hi τ cum) (u : Int) (hu : u ∈ all) (k : Int)
    (h0 : 0 ≤ k) (h1 : k < N) :
    cellOf N bnd τ u = k ↔ (bnd k ≤ τ u ∧ τ u < bnd (k + 1)) := by
  obtain ⟨k0, a1, a2, a3, a4⟩ := exists_cell h u hu
  have hr := h.rk u hu
  have hx : ∃ k, 0 ≤ k ∧ k < N ∧ bnd k ≤ τ u ∧ τ u < bnd (k + 1) :=
    ⟨k0, by omega, by omega, a3, a4⟩
  have hc : cellOf N bnd τ u = Classical.choose hx := by
    unfold cellOf; rw [dif_pos hx]
  have hs := Classical.choose_spec hx
  rw [hc]
  constructor
  · intro he; rw [← he]; exact hs.2.2
  · intro hk
    exact cell_unique h (τ u) _ k hs.1 hs.2.1 h0 h1 hs.2.2 hk

theorem cell_dom (h : LCtx N bd bnd rx ry all lo hi τ cum) (u : Int) (hu : u ∈ all) :
    rx u ≤ cellOf N bnd τ u ∧ cellOf N bnd τ u < ry u ∧
      bnd (cellOf N bnd τ u) ≤ τ u ∧ τ u < bnd (cellOf N bnd τ u + 1) := by
  obtain ⟨k0, a1, a2, a3, a4⟩ := exists_cell h u hu
  have hr := h.rk u hu
  have := (cell_iff h u hu k0 (by omega) (by omega)).2 ⟨a3, a4⟩
  rw [this]; exact ⟨a1, a2, a3, a4⟩

theorem cell_count (h : LCtx N bd bnd rx ry all lo hi τ cum) (k : Int) (h0 : 0 ≤ k) (h1 : k < N) :
    ((all.countP (fun p => decide (cellOf N bnd τ p = k)) : Nat) : Int) =
      cntIn τ all (bnd k) (bnd (k + 1)) := by
  unfold cntIn
  congr 1
  apply List.countP_congr
  intro p hp
  have := cell_iff h p hp k h0 h1
  simp only [Bool.and_eq_true, decide_eq_true_eq]
  exact this

/-- a solution induces a cell solution -/
theorem cellSol (h : LCtx N bd bnd rx ry all lo hi τ cum) :
    CellSol N bd rx ry all (cellOf N bnd τ) := by
  refine ⟨fun p hp => ⟨(cell_dom h p hp).1, (cell_dom h p hp).2.1⟩, ?_⟩
  intro k h1 h2
  rw [cell_count h k (by omega) (by omega), h.hbd (k + 1) (by omega) (by omega),
    h.hbd k (by omega) (by omega)]
  have hm := h.mono k (k + 1) (by omega) (by omega) (by omega)
  refine cum_le_cntIn τ all cum (bnd k) (bnd (k + 1) - bnd k).toNat (bnd (k + 1)) (by omega) ?_
  intro v hv1 hv2
  have m1 := h.le 1 k (by omega) h1 (by omega)
  have m2 := h.le (k + 1) (N - 1) (by omega) (by omega) (by omega)
  exact h.hdem v (by omega) (by omega)

/-- a variable that is not stable takes a value of non-zero lower capacity -/
theorem nonstable_pos {U : List Int} {bf : Int → Int}
    (h : LCtx N bd bnd rx ry all lo hi τ cum) (hf : LFin N bd rx ry all U bf) (u : Int)
    (hu : u ∈ all) (hns : ¬ StV bf rx ry u) : 1 ≤ cum (τ u + 1) - cum (τ u) := by
  obtain ⟨t1, t2, _⟩ := lfin_tight hf (cellSol h)
  obtain ⟨d1, d2, d3, d4⟩ := cell_dom h u hu
  have hr := h.rk u hu
  generalize hk : cellOf N bnd τ u = k at d1 d2 d3 d4
  have hnst : ¬ St bf k := by rw [← hk]; exact t1 u hu hns
  have hcnt := t2 k (by omega) (by omega) hnst
  rw [cell_count h k (by omega) (by omega), h.hbd (k + 1) (by omega) (by omega),
    h.hbd k (by omega) (by omega)] at hcnt
  by_cases hc : 1 ≤ cum (τ u + 1) - cum (τ u)
  · exact hc
  · exfalso
    have m1 := h.le 1 k (by omega) (by omega) (by omega)
    have m2 := h.le (k + 1) (N - 1) (by omega) (by omega) (by omega)
    have s1 := cntIn_split τ (bnd k) (τ u) (bnd (k + 1)) d3 (by omega) all
    have s2 := cntIn_split τ (τ u) (τ u + 1) (bnd (k + 1)) (by omega) (by omega) all
    rw [cntIn_one] at s2
    have l1 := cum_le_cntIn τ all cum (bnd k) (τ u - bnd k).toNat (τ u) (by omega)
      (fun v a b => h.hdem v (by omega) (by omega))
    have l2 := cum_le_cntIn τ all cum (τ u + 1) (bnd (k + 1) - τ u - 1).toNat (bnd (k + 1))
      (by omega) (fun v a b => h.hdem v (by omega) (by omega))
    have l3 : 1 ≤ occ τ all (τ u) := by
      unfold occ
      have : 0 < all.countP (fun p => decide (τ p = τ u)) := by
        rw [List.countP_pos_iff]
        exact ⟨u, hu, by simp⟩
      omega
    omega

end lval

end Gcc
end Nucs
