import NucsProofs.Propagators.GccCFeasible
import NucsProofs.Propagators.GccCIsPortCore
/-!
  The registered gcc model `gccC` (NucsModel/Propagators/GccChecked.lean: the raw port followed by the
  certificate checker `checkGcc`, with a fallback) answers exactly what the RAW PORT answers, and its
  fallback is never used — in contract, on non-empty domains, with every upper capacity `≥ 1` and at
  most 12 values (beyond 12 values the checker rejects by construction).

  The checker asks, for a failing answer, for a violated SET of values (found by enumerating bit
  masks) and, for every removed value `v` of `x_i`, the same for the box with `x_i` fixed to `v`.
  That such a set always exists is the hard direction of Hoffman's condition for this case,
  `gcc_feasible_of_not_infeasible` (GccCFeasible.lean: no violated set ⟹ a solution exists, from
  `upper_witness` with one rank per value and `gcc_mix`); the facts "no solution" / "no solution with
  `x_i = v`" come from `gcc_port_sound`.
-/
namespace Nucs

theorem gccHard_of_caps (ps : List Int)
    (hu : ∀ j, j < (ps.length - 1) / 2 → 1 ≤ getI ps (1 + (ps.length - 1) / 2 + j)) : GccHard ps :=
  fun B hc hB hno => gcc_feasible_of_not_infeasible ps B hc hB hu hno

/-- the certificate checker accepts every answer of the raw port -/
theorem checkGcc_port_ok (ps : List Int) (B : Box) (hc : Contract .gcc ps B) (hB : B.Nonempty)
    (hu : ∀ j, j < (ps.length - 1) / 2 → 1 ≤ getI ps (1 + (ps.length - 1) / 2 + j))
    (hm : gccM ps ≤ 12) (st : Status) (B' : Box) (h : gcc ps B = .ok (st, B')) :
    checkGcc ps B st B' = true :=
  checkGcc_port_core ps B hc hB hu hm (gccHard_of_caps ps hu) st B' h

/-- the registered model answers exactly what the port of the Python code answers (the input box is
    returned on failure) -/
theorem gccC_is_port (ps : List Int) (B : Box) (hc : Contract .gcc ps B) (hB : B.Nonempty)
    (hu : ∀ j, j < (ps.length - 1) / 2 → 1 ≤ getI ps (1 + (ps.length - 1) / 2 + j))
    (hm : gccM ps ≤ 12) :
    ∃ st B', gcc ps B = .ok (st, B') ∧ gccC ps B = .ok (st, if st = .inc then B else B') :=
  gccC_is_port_core ps B hc hB hu hm (gccHard_of_caps ps hu)

/-- the fallback of the checked model is never used -/
theorem gccC_never_fellBack (ps : List Int) (B : Box) (hc : Contract .gcc ps B) (hB : B.Nonempty)
    (hu : ∀ j, j < (ps.length - 1) / 2 → 1 ≤ getI ps (1 + (ps.length - 1) / 2 + j))
    (hm : gccM ps ≤ 12) : gccC_fellBack ps B = false :=
  gccC_never_fellBack_core ps B hc hB hu hm (gccHard_of_caps ps hu)

end Nucs
