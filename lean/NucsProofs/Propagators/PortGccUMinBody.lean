import NucsProofs.Propagators.PortGccUMinDefs
/-!
  One iteration of the main loop of `filter_upper_min` (ported gcc) never errs and re-establishes
  the invariant `UMinCore` / `NMOk'`: the mirror image of the `else` branch of `filter_lower_min`
  (`PortGccLMinElse`, `lminBody_spec`).
-/
namespace Nucs
namespace Gcc

open AllDiff (g upd g2 upd2 ok_bind pure_eq_ok except_bind_ok forIn_list_except range_forIn_eq
  size_upd size_upd2 g_upd g_upd_same g_upd_ne UChain)

/-! ### replacing one array of the invariant -/

/-- a root of `tl` below the top root `M` never points above `M` -/
theorem UMinCore.root_le {M : Int} {sz : Nat} {Kf : Int → Int} {tl c sets : Array Int}
    (hc : UMinCore M sz Kf tl c sets) (r : Int) (h0 : 0 ≤ r) (hM : r ≤ M - 1) (hr : g tl r > r) :
    g tl r ≤ M := by
  by_cases h : g tl r ≤ M
  · exact h
  · have := (hc.ct.up r h0 (by omega) hr).1 M (by omega) (by omega)
    have := hc.tM
    omega

/-- replacing `tl` by an array with the same roots and the same root targets -/
theorem UMinCore.replace_tl {M : Int} {sz : Nat} {Kf : Int → Int} {tl tl' c sets : Array Int}
    (hc : UMinCore M sz Kf tl c sets) (hs : tl'.size = sz) (hct : UChain (g tl') M)
    (hroots : ∀ k, 0 ≤ k → k ≤ M → (g tl' k > k ↔ g tl k > k))
    (hval : ∀ k, 0 ≤ k → k ≤ M → g tl k > k → g tl' k = g tl k) :
    UMinCore M sz Kf tl' c sets := by
  have hM := hc.ct.hM
  have hroot : ∀ r, 0 ≤ r → r ≤ M - 1 → g tl' r > r → g tl r > r ∧ g tl' r = g tl r := by
    intro r h1 h2 h3
    have h4 := (hroots r h1 (by omega)).1 h3
    exact ⟨h4, hval r h1 (by omega) h4⟩
  refine ⟨hs, hc.sc, hc.ss, hc.hsz, hct, hc.cs, ?_, hc.c0, ?_, ?_, ?_, hc.i5, ?_⟩
  · intro r h1 h2 h3
    exact hc.d1 r h1 h2 (hroot r h1 h2 h3).1
  · rw [hval M hM (Int.le_refl _) (by rw [hc.tM]; omega)]; exact hc.tM
  · intro r h1 h2 h3
    obtain ⟨h4, h5⟩ := hroot r h1 h2 h3
    rw [h5]; exact hc.l1 r h1 h2 h4
  · intro r h1 h2 h3
    exact hc.l2 r h1 h2 (hroot r h1 h2 h3).1
  · intro r h1 h2 h3
    exact hc.i6 r h1 h2 (hroot r h1 h2 h3).1

/-- replacing `sets` by an array with the same roots, in which the down-pointers that aim directly
    at a root are kept -/
theorem UMinCore.replace_sets {M : Int} {sz : Nat} {Kf : Int → Int} {tl c sets sets' : Array Int}
    (hc : UMinCore M sz Kf tl c sets) (hs : sets'.size = sz) (hcs : UChain (g sets') M)
    (hroots : ∀ k, 0 ≤ k → k ≤ M → (g sets' k > k ↔ g sets k > k))
    (hkeep : ∀ k m, 1 ≤ m → m < k → k ≤ M → g sets k = m → g sets m > m → g sets' k = m) :
    UMinCore M sz Kf tl c sets' := by
  refine ⟨hc.st, hc.sc, hs, hc.hsz, hc.ct, hcs, hc.d1, hc.c0, hc.tM, ?_, ?_, ?_, ?_⟩
  · intro r h1 h2 h3
    have hr1 := hc.root_le r h1 h2 h3
    rcases hc.l1 r h1 h2 h3 with h4 | h4
    · exact Or.inl h4
    · by_cases h5 : g tl r = M
      · exact Or.inl h5
      · right
        rw [hroots (g tl r + 1) (by omega) (by omega)]; exact h4
  · intro r h1 h2 h3 h4
    rw [hroots (r + 1) (by omega) (by omega)]
    exact hc.l2 r h1 h2 h3 h4
  · intro k h1 h2 h3
    exact hc.i5 k h1 h2 ((hroots k (by omega) h2).1 h3)
  · intro r h1 h2 h3 h4 k hk1 hk2 hk3
    exact hkeep k (r + 1) (by omega) hk1 hk2 (hc.i6 r h1 h2 h3 h4 k hk1 hk2 hk3)
      (hc.l2 r h1 h2 h3 h4)

/-! ### the final path compression of `tl` -/

theorem uminFin_spec {M : Int} {sz : Nat} {Kf : Int → Int} {tl c sets : Array Int}
    (hc : UMinCore M sz Kf tl c sets) (x z : Int) (hxM : x ≤ M) (hzx : z ≤ x - 1) (hz0 : 0 ≤ z)
    (hzr : g tl z > z) (hall : ∀ k, z < k → k ≤ x - 1 → g tl k < k) (new_maxs : Array Int)
    (w : Int) :
    ∃ tl', uminFin x tl c sets new_maxs w z = .ok (.yield (tl', c, sets, new_maxs, w)) ∧
      UMinCore M sz Kf tl' c sets := by
  have hNsz := hc.hsz
  have hst := hc.st
  have hdnt : ∀ p, z < p → p ≤ x - 1 → g tl p < p ∧ z ≤ g tl p := by
    intro p h1 h2
    have := hall p h1 h2
    exact ⟨this, hc.ct.down_ge_root (by omega) h1 hz0 this hzr⟩
  obtain ⟨t3, hps, hsz3, hrel3⟩ := path_set_down_compress tl (x - 1) z z hz0 hzx (by omega) hdnt
  obtain ⟨hct3, hroots3, hval3⟩ := hc.ct.compress hz0 hall hrel3
  unfold uminFin
  rw [hps, ok_bind]
  exact ⟨t3, rfl, hc.replace_tl (by omega) hct3 hroots3 hval3⟩

/-! ### marking a new unstable set -/

theorem uminMark_spec {M : Int} {sz : Nat} {Kf : Int → Int} {tl c sets : Array Int}
    (hc : UMinCore M sz Kf tl c sets) (new_maxs : Array Int) (w x j z Y : Int)
    (hxM : x ≤ M) (hzx : z ≤ x - 1) (hz0 : 0 ≤ z) (hzr : g tl z > z) (hj : g tl z = j)
    (hall : ∀ k, z < k → k ≤ x - 1 → g tl k < k) (hY : Y = z + 1) (hYr : g sets Y > Y) :
    ∃ tl' sets', uminMark x j tl c new_maxs w z sets Y =
        .ok (.yield (tl', c, sets', new_maxs, w)) ∧
      UMinCore M sz Kf tl' c sets' := by
  have hNsz := hc.hsz
  have hss := hc.ss
  have hzM : z ≤ M - 1 := by omega
  have hy1 : 1 ≤ Y := by omega
  have hyM : Y ≤ M := by omega
  have hjM : j ≤ M := by rw [← hj]; exact hc.root_le z hz0 hzM hzr
  have hl1 := hc.l1 z hz0 hzM hzr
  rw [hj] at hl1
  have hdy := hc.cs.up Y (by omega) hyM hYr
  have hry := hc.cs.rng Y (by omega) hyM
  -- `e = j + 1` is `M + 1` or a root of `sets`, hence not skipped by the pointer of `Y`
  have hre : j + 1 = M + 1 ∨ g sets (j + 1) > j + 1 := by
    rcases hl1 with h | h
    · left; omega
    · right; exact h
  have hey : g sets Y ≤ j + 1 := by
    by_cases hle : g sets Y ≤ j + 1
    · exact hle
    · have := hdy.1 (j + 1) (by have := hc.ct.rng z hz0 (by omega); omega) (by omega)
      rcases hre with h | h <;> omega
  unfold uminMark
  rw [rd_ok sets Y (by omega) (by omega), ok_bind]
  obtain ⟨h2, hps, hsz2, hv2⟩ := path_set_up_mark sets (g sets Y) (j + 1) Y (by omega) hey
    (by omega)
    (by
      rcases hdy.2 with h0 | h0
      · left; omega
      · right; exact h0)
    (by
      intro p hp1 hp2 hp3
      have hdp := hc.cs.up p (by omega) (by omega) hp3
      have hrp := hc.cs.rng p (by omega) (by omega)
      refine ⟨?_, ?_, fun k hk1 hk2 => by have := hdp.1 k hk1 hk2; omega⟩
      · by_cases hle : g sets p ≤ j + 1
        · exact hle
        · have := hdp.1 (j + 1) (by omega) (by omega)
          rcases hre with h | h <;> omega
      · rcases hdp.2 with h0 | h0
        · left
          by_cases hle : g sets p ≤ j + 1
          · omega
          · have := hdp.1 (j + 1) (by omega) (by omega)
            rcases hre with h | h <;> omega
        · right; exact h0)
  rw [hps, ok_bind, wr_ok h2 Y (j + 1) (by omega) (by omega), ok_bind]
  -- the new `sets` as a function
  have ha3 : ∀ k, 0 ≤ k → g (upd h2 Y (j + 1)) k =
      if k = Y then j + 1 else if g sets Y ≤ k ∧ k < j + 1 ∧ g sets k > k then Y else g sets k := by
    intro k hk
    rw [g_upd h2 Y (j + 1) k (by omega) (by omega) hk]
    by_cases hky : k = Y
    · simp [hky]
    · simp only [hky, if_false]; exact hv2 k hk
  obtain ⟨hch', hroots'⟩ := hc.cs.mark hy1 hyM hYr (by omega) hey hre ha3
  -- a root of `tl` is never strictly inside the group `(z, j)`
  have houtside : ∀ r, 0 ≤ r → r ≤ M → g tl r > r → ¬ (z < r ∧ r < j) := by
    intro r h1 h2 h3 h4
    have := (hc.ct.up z hz0 (by omega) hzr).1 r h4.1 (by omega)
    omega
  have hc' : UMinCore M sz Kf tl c (upd h2 Y (j + 1)) := by
    refine ⟨hc.st, hc.sc, by simp [hsz2, hss], hc.hsz, hc.ct, hch', hc.d1, hc.c0, hc.tM,
      ?_, ?_, ?_, ?_⟩
    · intro r h1 h2 h3
      have hr1 := hc.root_le r h1 h2 h3
      rcases hc.l1 r h1 h2 h3 with h4 | h4
      · exact Or.inl h4
      · by_cases h5 : g tl r = M
        · exact Or.inl h5
        · right
          have hrr := hc.ct.rng r h1 (by omega)
          rw [hroots' (g tl r + 1) (by omega) (by omega)]
          refine ⟨h4, fun h6 => ?_⟩
          -- `g tl r` is a root of `tl` strictly inside `(z, j)`
          rcases (hc.ct.up r h1 (by omega) h3).2 with h7 | h7
          · omega
          · exact houtside (g tl r) (by omega) (by omega) h7 ⟨by omega, by omega⟩
    · intro r h1 h2 h3 h4
      rw [hroots' (r + 1) (by omega) (by omega)]
      exact ⟨hc.l2 r h1 h2 h3 h4, fun h6 => houtside r h1 (by omega) h3 ⟨by omega, by omega⟩⟩
    · intro k h1 h2 h3
      exact hc.i5 k h1 h2 ((hroots' k (by omega) h2).1 h3).1
    · intro r h1 h2 h3 h4 k hk1 hk2 hk3
      have h5 := hc.i6 r h1 h2 h3 h4 k hk1 hk2 hk3
      rw [ha3 k (by omega), if_neg (by intro h; subst h; omega), if_neg (fun h => by omega)]
      exact h5
  obtain ⟨tl', he, hc''⟩ := uminFin_spec hc' x z hxM hzx hz0 hzr hall new_maxs w
  exact ⟨tl', _, he, hc''⟩

/-! ### the test "an unstable set is discovered" -/

theorem uminUnstable_spec {M : Int} {sz : Nat} {bounds : Array Int} {l : PSum} {fv m : Int}
    {tl c sets : Array Int} (hb : BC bounds (M + 1) fv m) (hl : PS l fv m)
    (hc : UMinCore M sz (K l fv bounds) tl c sets)
    (new_maxs : Array Int) (w x y j z : Int) (hy1 : 1 ≤ y) (hyM : y ≤ M)
    (hxM : x ≤ M) (hzx : z ≤ x - 1) (hz0 : 0 ≤ z) (hzr : g tl z > z) (hj : g tl z = j)
    (hall : ∀ k, z < k → k ≤ x - 1 → g tl k < k) :
    ∃ tl' sets', uminUnstable bounds l x y j c tl z sets new_maxs w =
        .ok (.yield (tl', c, sets', new_maxs, w)) ∧
      UMinCore M sz (K l fv bounds) tl' c sets' := by
  have hbsz := hb.hsz
  have hNsz := hc.hsz
  have hsc := hc.sc
  have hss := hc.ss
  have hzM : z ≤ M - 1 := by omega
  unfold uminUnstable
  rw [rd_ok c z (by omega) (by omega), ok_bind, rd_ok bounds z (by omega) (by omega), ok_bind,
    rd_ok bounds y (by omega) (by omega), ok_bind,
    get_sum_bounds_ok hl hb z y hz0 (by omega) hy1 (by omega), ok_bind]
  by_cases heq : g c z = gsum l (g bounds z) (g bounds y - 1)
  · have hcond : (g c z == gsum l (g bounds z) (g bounds y - 1)) = true := by simpa using heq
    rw [if_pos hcond]
    -- the capacity of `z` is untouched and `y` lies in the zero-capacity stretch above `z`
    have hd1 := hc.d1 z hz0 hzM hzr
    have hzy : z < y := by
      by_cases h1 : y ≤ z
      · have := (gsum_K_neg hl hb z y hy1 h1 (by omega)).2; omega
      · omega
    have hgK := gsum_K hl hb z y hz0 hzy (by omega)
    have hKm := K_mono hl hb (z + 1) y (by omega) (by omega) (by omega)
    have hKy : K l fv bounds y = K l fv bounds (z + 1) := by omega
    have hfresh : g c z = K l fv bounds (z + 1) - K l fv bounds z := by omega
    have hroot := hc.l2 z hz0 hzM hzr hfresh
    rw [rd_ok sets y (by omega) (by omega), ok_bind]
    by_cases hsy : g sets y < y
    · rw [if_pos hsy, ok_bind]
      have hY : g sets y = z + 1 := by
        by_cases h2 : z + 1 < y
        · exact hc.i6 z hz0 hzM hzr hfresh y h2 hyM hKy
        · have h3 : y = z + 1 := by omega
          rw [← h3] at hroot; omega
      exact uminMark_spec hc new_maxs w x j z (g sets y) hxM hzx hz0 hzr hj hall hY
        (by rw [hY]; exact hroot)
    · rw [if_neg hsy]
      have hY : y = z + 1 := by
        by_cases h2 : z + 1 < y
        · have := hc.i6 z hz0 hzM hzr hfresh y h2 hyM hKy; omega
        · omega
      exact uminMark_spec hc new_maxs w x j z y hxM hzx hz0 hzr hj hall hY
        (by rw [hY]; exact hroot)
  · have hcond : ¬ (g c z == gsum l (g bounds z) (g bounds y - 1)) = true := by simpa using heq
    rw [if_neg hcond]
    obtain ⟨tl', he, hc'⟩ := uminFin_spec hc x z hxM hzx hz0 hzr hall new_maxs w
    exact ⟨tl', _, he, hc'⟩

/-! ### recording the candidate new maximum -/

theorem NMOk'_upd {N : Int} {nm : Array Int} (h : NMOk' N nm) (i v : Int) (hi0 : 0 ≤ i)
    (hi1 : i < nm.size) (hv0 : 0 ≤ v) (hvN : v ≤ N) : NMOk' N (upd nm i v) := by
  unfold NMOk'
  intro k hk0 hk1
  rw [size_upd] at hk1
  rw [g_upd nm i v k hi0 hi1 (by omega)]
  by_cases hki : k = i
  · rw [if_pos hki]; exact ⟨hv0, hvN⟩
  · rw [if_neg hki]; exact h k hk0 hk1

theorem uminNewMax_spec {M : Int} {sz : Nat} {bounds : Array Int} {l : PSum} {fv m : Int}
    {tl c sets : Array Int} (hb : BC bounds (M + 1) fv m) (hl : PS l fv m)
    (hc : UMinCore M sz (K l fv bounds) tl c sets)
    (new_maxs : Array Int) (hnm : NMOk' (M + 1) new_maxs) (i x y j z w : Int)
    (hi0 : 0 ≤ i) (hi1 : i < new_maxs.size) (hy1 : 1 ≤ y) (hyx : y < x) (hxM : x ≤ M)
    (hzx : z ≤ x - 1) (hz0 : 0 ≤ z) (hzr : g tl z > z) (hj : g tl z = j)
    (hall : ∀ k, z < k → k ≤ x - 1 → g tl k < k) :
    ∃ tl' sets' nm' w', uminNewMax bounds l i x y j c sets new_maxs w tl z =
        .ok (.yield (tl', c, sets', nm', w')) ∧
      UMinCore M sz (K l fv bounds) tl' c sets' ∧ NMOk' (M + 1) nm' ∧
      nm'.size = new_maxs.size := by
  have hNsz := hc.hsz
  have hss := hc.ss
  unfold uminNewMax
  rw [rd_ok sets x (by omega) (by omega), ok_bind]
  by_cases hhx : g sets x < x
  · rw [if_pos hhx, ok_bind]
    have hrx := hc.cs.rng x (by omega) hxM
    obtain ⟨w1, hpm, hw1, hw2, hw3, hw4⟩ := path_min_spec sets 0 M (g sets x) (by omega) (by omega)
      (fun k h1 h2 => (hc.cs.rng k h1 h2).1) (fun k h1 h2 h3 => hc.cs.down k h1 h2 h3)
      (by omega) (by omega)
    have hwr : g sets w1 > w1 := by have := hc.cs.rng w1 hw1 (by omega); omega
    have hallh : ∀ k, w1 < k → k ≤ x → g sets k < k := by
      intro k h1 h2
      by_cases hk : k = x
      · subst hk; exact hhx
      · by_cases hk2 : g sets x < k
        · exact hc.cs.down x (by omega) hxM hhx k hk2 (by omega)
        · exact hw4 k h1 (by omega)
    have hdnh : ∀ p, w1 < p → p ≤ x → g sets p < p ∧ w1 ≤ g sets p := by
      intro p h1 h2
      have := hallh p h1 h2
      exact ⟨this, hc.cs.down_ge_root (by omega) h1 hw1 this hwr⟩
    rw [hpm, ok_bind, wr_ok new_maxs i w1 hi0 hi1, ok_bind]
    obtain ⟨s3, hps', hszs3, hrels3⟩ := path_set_down_compress sets x w1 w1 hw1 (by omega)
      (by omega) hdnh
    obtain ⟨hcs3, hrootss3, _⟩ := hc.cs.compress hw1 hallh hrels3
    rw [hps', ok_bind]
    have hc3 : UMinCore M sz (K l fv bounds) tl c s3 := by
      refine hc.replace_sets (by omega) hcs3 hrootss3 ?_
      intro k r hr1 hrk hkM hkv hrr
      rcases hrels3 k (by omega) with h | ⟨h1, h2, h3⟩
      · rw [h]; exact hkv
      · -- the rewritten node `k` pointed at the root `r`, which is the first root below `x`
        have h4 := (hdnh k h1 h2).2
        have h5 : ¬ w1 < r := fun h6 => by have := hallh r h6 (by omega); omega
        omega
    obtain ⟨tl', sets', he, hc'⟩ := uminUnstable_spec hb hl hc3 (upd new_maxs i w1) w1 x y j z
      hy1 (by omega) hxM hzx hz0 hzr hj hall
    exact ⟨tl', sets', _, _, he, hc', NMOk'_upd hnm i w1 hi0 hi1 hw1 (by omega), by simp⟩
  · rw [if_neg hhx, wr_ok new_maxs i x hi0 hi1, ok_bind]
    obtain ⟨tl', sets', he, hc'⟩ := uminUnstable_spec hb hl hc (upd new_maxs i x) w x y j z
      hy1 (by omega) hxM hzx hz0 hzr hj hall
    exact ⟨tl', sets', _, _, he, hc', NMOk'_upd hnm i x hi0 hi1 (by omega) (by omega), by simp⟩

/-! ### the capacity of `z` is decreased -/

theorem uminElse_spec {M : Int} {sz : Nat} {bounds : Array Int} {l : PSum} {fv m : Int}
    {tl c sets : Array Int} (hb : BC bounds (M + 1) fv m) (hl : PS l fv m)
    (hc : UMinCore M sz (K l fv bounds) tl c sets)
    (new_maxs : Array Int) (hnm : NMOk' (M + 1) new_maxs) (i x y z j w : Int)
    (hi0 : 0 ≤ i) (hi1 : i < new_maxs.size) (hy1 : 1 ≤ y) (hyx : y < x) (hxM : x ≤ M)
    (hzx : z ≤ x - 1) (hz0 : 0 ≤ z) (hzr : g tl z > z) (hj : j = g tl z)
    (hall : ∀ k, z < k → k ≤ x - 1 → g tl k < k)
    (hgt : g c z > gsum l (g bounds z) (g bounds y - 1)) :
    ∃ tl' c' sets' nm' w', uminElse bounds l i x y j z tl c sets new_maxs w =
        .ok (.yield (tl', c', sets', nm', w')) ∧
      UMinCore M sz (K l fv bounds) tl' c' sets' ∧ NMOk' (M + 1) nm' ∧
      nm'.size = new_maxs.size := by
  subst hj
  have hNsz := hc.hsz
  have hst := hc.st
  have hsc := hc.sc
  have hzM : z ≤ M - 1 := by omega
  -- the bottom sentinel is never reached here
  have hz1 : 1 ≤ z := by
    by_cases h : z = 0
    · subst h
      have h1 := gsum_K hl hb 0 y (Int.le_refl _) (by omega) (by omega)
      have h2 := K_mono hl hb 1 y (by omega) hy1 (by omega)
      have h3 := hc.c0
      omega
    · omega
  have hd0 := hc.d1 z hz0 hzM hzr
  unfold uminElse
  rw [rd_ok c z (by omega) (by omega), ok_bind, wr_ok c z _ (by omega) (by omega), ok_bind,
    rd_ok (upd c z (g c z - 1)) z (by omega) (by simp; omega), ok_bind,
    g_upd_same c z _ (by omega) (by omega)]
  have hd' : ∀ k, 0 ≤ k → k ≠ z → g (upd c z (g c z - 1)) k = g c k :=
    fun k h1 h2 => g_upd_ne c z _ k (by omega) (by omega) h1 h2
  have hd'z : g (upd c z (g c z - 1)) z = g c z - 1 := g_upd_same c z _ (by omega) (by omega)
  by_cases hm : g c z - 1 = 0
  · have hcond : (g c z - 1 == 0) = true := by simpa using hm
    rw [if_pos hcond]
    rw [wr_ok tl z (z - 1) (by omega) (by omega), ok_bind,
      rd_ok (upd tl z (z - 1)) z (by omega) (by simp; omega), ok_bind,
      g_upd_same tl z _ (by omega) (by omega)]
    have ht1 : ∀ k, 0 ≤ k → g (upd tl z (z - 1)) k = if k = z then z - 1 else g tl k :=
      fun k hk => g_upd tl z _ k (by omega) (by omega) hk
    obtain ⟨z1, hpm1, hy1', hy2', hy3', hy4'⟩ := path_min_spec (upd tl z (z - 1)) 0 M (z - 1)
      (by omega) (by simp; omega)
      (fun k h1 h2 => by
        rw [ht1 k (by omega)]
        by_cases hk : k = z
        · simp [hk]; omega
        · simp only [hk, if_false]; exact (hc.ct.rng k h1 h2).1)
      (fun k h1 h2 h3 q hq1 hq2 => by
        rw [ht1 k (by omega)] at h3 hq1
        by_cases hk : k = z
        · simp only [hk, if_true] at hq1; omega
        · simp only [hk, if_false] at h3 hq1
          have := (hc.ct.rng k h1 h2).1
          rw [ht1 q (by omega)]
          by_cases hqz : q = z
          · simp only [hqz, if_true]; omega
          · simp only [hqz, if_false]; exact hc.ct.down k h1 h2 h3 q hq1 hq2)
      (by omega) (by omega)
    have hz1ne : z1 ≠ z := by omega
    have hz1r : g tl z1 > z1 := by
      rw [ht1 z1 (by omega)] at hy3'
      simp only [hz1ne, if_false] at hy3'
      have := hc.ct.rng z1 hy1' (by omega); omega
    have hbetween : ∀ k, z1 < k → k < z → g tl k < k := by
      intro k h1 h2
      have := hy4' k h1 (by omega)
      rw [ht1 k (by omega)] at this
      simpa [show k ≠ z by omega] using this
    rw [hpm1, ok_bind, wr_ok (upd tl z (z - 1)) z1 (g tl z) (by omega) (by simp; omega), ok_bind]
    have ha2 : ∀ k, 0 ≤ k → g (upd (upd tl z (z - 1)) z1 (g tl z)) k =
        if k = z1 then g tl z else if k = z then z - 1 else g tl k := by
      intro k hk
      rw [g_upd _ z1 _ k (by omega) (by simp; omega) hk]
      by_cases hk1 : k = z1
      · simp [hk1]
      · simp only [hk1, if_false]; exact ht1 k hk
    obtain ⟨hct2, hroots2, hoth2, hz1v⟩ :=
      hc.ct.merge (by omega) (by omega) hy1' hzr hz1r hbetween ha2
    have hroot2 : ∀ r, 0 ≤ r → r ≤ M - 1 → g (upd (upd tl z (z - 1)) z1 (g tl z)) r > r →
        g tl r > r ∧ r ≠ z := fun r h1 h2 h3 => (hroots2 r h1 (by omega)).1 h3
    have hc2 : UMinCore M sz (K l fv bounds) (upd (upd tl z (z - 1)) z1 (g tl z))
        (upd c z (g c z - 1)) sets := by
      refine ⟨by simp [hst], by simp [hsc], hc.ss, hNsz, hct2, hc.cs, ?_, ?_, ?_, ?_, ?_, hc.i5, ?_⟩
      · intro r h1 h2 h3
        have hr := hroot2 r h1 h2 h3
        rw [hd' r (by omega) hr.2]; exact hc.d1 r h1 h2 hr.1
      · rw [hd' 0 (by omega) (by omega)]; exact hc.c0
      · rw [hoth2 M (by omega) (by omega) (by omega)]; exact hc.tM
      · intro r h1 h2 h3
        have hr := hroot2 r h1 h2 h3
        by_cases hr1 : r = z1
        · subst hr1; rw [hz1v]; exact hc.l1 z hz0 hzM hzr
        · rw [hoth2 r h1 hr1 hr.2]; exact hc.l1 r h1 h2 hr.1
      · intro r h1 h2 h3 h4
        have hr := hroot2 r h1 h2 h3
        rw [hd' r (by omega) hr.2] at h4
        exact hc.l2 r h1 h2 hr.1 h4
      · intro r h1 h2 h3 h4
        have hr := hroot2 r h1 h2 h3
        rw [hd' r (by omega) hr.2] at h4
        exact hc.i6 r h1 h2 hr.1 h4
    obtain ⟨tl', sets', nm', w', he, hc', hnm', hs'⟩ :=
      uminNewMax_spec hb hl hc2 new_maxs hnm i x y (g tl z) z1 w hi0 hi1 hy1 hyx hxM
        (by omega) hy1' ((hroots2 z1 hy1' (by omega)).2 ⟨hz1r, hz1ne⟩) hz1v
        (fun k h1 h2 => by
          by_cases hk0 : k = z
          · subst hk0; rw [ha2 k (by omega)]
            simp only [show k ≠ z1 by omega, if_false, if_true]; omega
          · rw [hoth2 k (by omega) (by omega) hk0]
            by_cases hk1 : z < k
            · exact hall k hk1 h2
            · exact hbetween k h1 (by omega))
    exact ⟨tl', _, sets', nm', w', he, hc', hnm', hs'⟩
  · have hcond : ¬ (g c z - 1 == 0) = true := by simpa using hm
    rw [if_neg hcond]
    have hc2 : UMinCore M sz (K l fv bounds) tl (upd c z (g c z - 1)) sets := by
      refine ⟨hst, by simp [hsc], hc.ss, hNsz, hc.ct, hc.cs, ?_, ?_, hc.tM, hc.l1, ?_, hc.i5, ?_⟩
      · intro r h1 h2 h3
        by_cases hrz : r = z
        · subst hrz; rw [hd'z]; omega
        · rw [hd' r (by omega) hrz]; exact hc.d1 r h1 h2 h3
      · rw [hd' 0 (by omega) (by omega)]; exact hc.c0
      · intro r h1 h2 h3 h4
        by_cases hrz : r = z
        · subst hrz; rw [hd'z] at h4; omega
        · rw [hd' r (by omega) hrz] at h4; exact hc.l2 r h1 h2 h3 h4
      · intro r h1 h2 h3 h4
        by_cases hrz : r = z
        · subst hrz; rw [hd'z] at h4; omega
        · rw [hd' r (by omega) hrz] at h4; exact hc.i6 r h1 h2 h3 h4
    obtain ⟨tl', sets', nm', w', he, hc', hnm', hs'⟩ :=
      uminNewMax_spec hb hl hc2 new_maxs hnm i x y (g tl z) z w hi0 hi1 hy1 hyx hxM
        hzx hz0 hzr rfl hall
    exact ⟨tl', _, sets', nm', w', he, hc', hnm', hs'⟩

/-! ### one iteration of the main loop -/

theorem uminBody_spec {M : Int} {sz : Nat} {bounds : Array Int} {l : PSum} {fv m : Int}
    {tl c sets : Array Int} (hb : BC bounds (M + 1) fv m) (hl : PS l fv m)
    (hc : UMinCore M sz (K l fv bounds) tl c sets)
    (nm : Array Int) (hnm : NMOk' (M + 1) nm) (ranks : Arr2) (msv : Array Int) (i w : Int)
    (hi0 : 0 ≤ i) (hi1 : i < nm.size) (hi2 : i < msv.size)
    (hv0 : 0 ≤ g msv i) (hv1 : g msv i < ranks.size)
    (hy1 : 1 ≤ (g2 ranks (g msv i)).1) (hyx : (g2 ranks (g msv i)).1 < (g2 ranks (g msv i)).2)
    (hxM : (g2 ranks (g msv i)).2 ≤ M) :
    ∃ tl' c' sets' nm' w', uminBody bounds ranks msv l i (tl, c, sets, nm, w) =
        .ok (.yield (tl', c', sets', nm', w')) ∧
      UMinCore M sz (K l fv bounds) tl' c' sets' ∧ NMOk' (M + 1) nm' ∧ nm'.size = nm.size := by
  have hbsz := hb.hsz
  have hNsz := hc.hsz
  have hst := hc.st
  have hsc := hc.sc
  unfold uminBody
  simp only []
  rw [rd_ok msv i hi0 hi2, ok_bind, rd2_max_ok ranks _ hv0 hv1, ok_bind,
    rd2_min_ok ranks _ hv0 hv1, ok_bind]
  generalize (g2 ranks (g msv i)).1 = y at hy1 hyx ⊢
  generalize (g2 ranks (g msv i)).2 = x at hyx hxM ⊢
  obtain ⟨z, hpm, hz1, hz2, hz3, hz4⟩ := path_min_spec tl 0 M (x - 1) (by omega) (by omega)
    (fun k h1 h2 => (hc.ct.rng k h1 h2).1) (fun k h1 h2 h3 => hc.ct.down k h1 h2 h3)
    (by omega) (by omega)
  have hzr : g tl z > z := by have := hc.ct.rng z hz1 (by omega); omega
  rw [hpm, ok_bind, rd_ok tl z (by omega) (by omega), ok_bind, rd_ok c z (by omega) (by omega),
    ok_bind, rd_ok bounds z (by omega) (by omega), ok_bind,
    rd_ok bounds y (by omega) (by omega), ok_bind,
    get_sum_bounds_ok hl hb z y hz1 (by omega) hy1 (by omega), ok_bind]
  by_cases hgt : g c z > gsum l (g bounds z) (g bounds y - 1)
  · rw [if_pos hgt]
    exact uminElse_spec hb hl hc nm hnm i x y z (g tl z) w hi0 hi1 hy1 hyx hxM hz2 hz1 hzr rfl
      hz4 hgt
  · rw [if_neg hgt]
    obtain ⟨tl', he, hc'⟩ := uminFin_spec hc x z hxM hz2 hz1 hzr hz4 nm w
    exact ⟨tl', c, sets, nm, w, he, hc', hnm, rfl⟩

end Gcc
end Nucs
