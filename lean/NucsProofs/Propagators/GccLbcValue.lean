import NucsProofs.Propagators.GccExistLower
import NucsProofs.Propagators.GccSoundLFinal
/-!
  FROM A CELL SOLUTION TO A VALUE SOLUTION WITH A PRESCRIBED VALUE (pure counting, no algorithm).

  Bounds `bnd 0 < … < bnd N`; here the cell `c` is the block of values `[bnd c, bnd (c+1))`
  (the numbering of `CellSol`).  From a cell solution `κ` in which the variable `k` takes the
  cell `c`, and a value `v` of that cell with a positive lower capacity, one gets an assignment of
  values meeting every lower capacity in which `k` takes the value `v`
  (`value_support_of_cell`).

  Proof: Hall's condition for the instance in which the domain of `k` is `[v, v]` (`lbv_hall`),
  then `gcc_mix`.
-/
namespace Nucs
namespace Gcc

theorem lbv_mono {N : Int} (bnd : Int → Int)
    (hbnd : ∀ i j, 0 ≤ i → i < j → j ≤ N → bnd i < bnd j) :
    ∀ i j, 0 ≤ i → i ≤ j → j ≤ N → bnd i ≤ bnd j := by
  intro i j h0 hij hj
  by_cases e : i = j
  · subst e; exact Int.le_refl _
  · exact Int.le_of_lt (hbnd i j h0 (by omega) hj)

/-! ### splitting a count at one element -/

/-- the other variables -/
def others (all : List Int) (k : Int) : List Int := all.filter (fun x => !decide (x = k))

theorem mem_others {all : List Int} {k x : Int} (h : x ∈ others all k) : x ∈ all ∧ x ≠ k := by
  unfold others at h
  rw [List.mem_filter] at h
  refine ⟨h.1, ?_⟩
  intro e
  have := h.2
  simp [e] at this

theorem others_cons_self (k : Int) (L : List Int) (h : k ∉ L) : others (k :: L) k = L := by
  unfold others
  rw [List.filter_cons]
  have : (!decide (k = k)) = false := by simp
  rw [this]
  simp only [Bool.false_eq_true, if_false]
  apply List.filter_eq_self.2
  intro a ha
  have : a ≠ k := fun e => h (e ▸ ha)
  simp [this]

theorem others_cons_ne {k p : Int} (L : List Int) (h : p ≠ k) :
    others (p :: L) k = p :: others L k := by
  unfold others
  rw [List.filter_cons]
  have : (!decide (p = k)) = true := by simp [h]
  rw [if_pos this]

/-- splitting a count at one element of a list without repetition -/
theorem lbv_countP_split (k : Int) (P : Int → Bool) : ∀ L : List Int, L.Nodup → k ∈ L →
    L.countP P = (others L k).countP P + (if P k = true then 1 else 0) := by
  intro L
  induction L with
  | nil => intro _ h; cases h
  | cons p L ih =>
    intro hn hk
    have hn' := List.nodup_cons.1 hn
    by_cases hp : p = k
    · subst hp
      rw [others_cons_self p L hn'.1, List.countP_cons]
    · have hin : k ∈ L := by
        rcases List.mem_cons.1 hk with h | h
        · exact absurd h.symm hp
        · exact h
      rw [others_cons_ne L hp, List.countP_cons, List.countP_cons, ih hn'.2 hin]
      omega

theorem lbv_occ_split (κ : Int → Int) (k c : Int) (L : List Int) (hn : L.Nodup) (hk : k ∈ L) :
    occ κ L c = occ κ (others L k) c + (if κ k = c then 1 else 0) := by
  unfold occ
  rw [lbv_countP_split k (fun p => decide (κ p = c)) L hn hk]
  by_cases h : κ k = c <;> simp [h]

/-! ### sums -/

theorem vsum_ind (e c0 a b : Int) (h1 : a ≤ c0) (h2 : c0 < b) :
    vsum (fun c => if c = c0 then e else 0) a b = e := by
  rw [vsum_split _ h1 (by omega : c0 ≤ b),
    vsum_split _ (by omega : c0 ≤ c0 + 1) (by omega : c0 + 1 ≤ b), vsum_one]
  have z1 : vsum (fun c => if c = c0 then e else 0) a c0 = 0 := by
    have : vsum (fun c => if c = c0 then e else 0) a c0 = vsum (fun _ => 0) a c0 := by
      apply vsum_congr
      intro j _ hj
      show (if j = c0 then e else 0) = 0
      rw [if_neg (by omega)]
    rw [this, vsum_zero]
  have z2 : vsum (fun c => if c = c0 then e else 0) (c0 + 1) b = 0 := by
    have : vsum (fun c => if c = c0 then e else 0) (c0 + 1) b = vsum (fun _ => 0) (c0 + 1) b := by
      apply vsum_congr
      intro j hj _
      show (if j = c0 then e else 0) = 0
      rw [if_neg (by omega)]
    rw [this, vsum_zero]
  rw [z1, z2]
  simp

/-- a block of values: the demand of the part `R` -/
theorem lbv_cell (R : Int → Bool) (cum l : Int → Int) (hl : ∀ v, cum (v + 1) - cum v = l v)
    {a b : Int} (hab : a ≤ b) (h0 : ∀ v, a ≤ v → v < b → 0 ≤ l v) :
    vsum (fun v => if R v = true then l v else 0) a b ≤
      (if meetsB R a (b - 1) = true then cum b - cum a else 0) := by
  have h := vsum_block_le R l h0
  rw [vsum_tele cum l hl hab] at h
  exact h

/-- a block of values with a value outside `R` with a positive demand: one unit is spared -/
theorem lbv_cell_spare (R : Int → Bool) (cum l : Int → Int) (hl : ∀ v, cum (v + 1) - cum v = l v)
    {a b : Int} (hab : a ≤ b) (h0 : ∀ v, a ≤ v → v < b → 0 ≤ l v)
    (v : Int) (hv1 : a ≤ v) (hv2 : v < b) (hvl : 1 ≤ l v) (hR : R v = false) :
    vsum (fun v => if R v = true then l v else 0) a b ≤
      (if meetsB R a (b - 1) = true then cum b - cum a - 1 else 0) := by
  by_cases hm : meetsB R a (b - 1) = true
  · rw [if_pos hm]
    have h : vsum (fun v => if R v = true then l v else 0) a b < vsum l a b := by
      apply vsum_lt _ v hv1 hv2
      · show (if R v = true then l v else 0) < l v
        rw [hR]; simp only [Bool.false_eq_true, if_false]; omega
      · intro j hj1 hj2
        have := h0 j hj1 hj2
        show (if R j = true then l j else 0) ≤ l j
        split <;> omega
    rw [vsum_tele cum l hl hab] at h
    omega
  · have h := vsum_block_le R l h0
    rw [if_neg hm] at h
    rw [if_neg hm]
    exact h

/-- the induction over the cells (the cell `c` is `[bnd c, bnd (c+1))`) -/
theorem lbv_cells_sum {N : Int} (bnd : Int → Int)
    (hbnd : ∀ i j, 0 ≤ i → i < j → j ≤ N → bnd i < bnd j)
    (f g : Int → Int)
    (hcell : ∀ c, 1 ≤ c → c ≤ N - 2 → vsum f (bnd c) (bnd (c + 1)) ≤ g c) :
    ∀ n : Nat, 1 + (n : Int) ≤ N - 1 →
      vsum f (bnd 1) (bnd (1 + n)) ≤ vsum g 1 (1 + n) := by
  intro n
  induction n with
  | zero =>
    intro _
    have e1 : (1 : Int) + ((0 : Nat) : Int) = 1 := by omega
    rw [e1, vsum_empty _ (Int.le_refl _), vsum_empty _ (Int.le_refl _)]
    exact Int.le_refl _
  | succ n ih =>
    intro hn
    have h1 := ih (by omega)
    have h2 := hcell (1 + n) (by omega) (by omega)
    have e2 : (1 : Int) + ((n + 1 : Nat) : Int) = (1 + n) + 1 := by omega
    rw [e2, vsum_succ g (by omega)]
    have hle1 : bnd 1 ≤ bnd (1 + n) := lbv_mono bnd hbnd 1 (1 + n) (by omega) (by omega) (by omega)
    have hle2 : bnd (1 + n) ≤ bnd (1 + n + 1) :=
      lbv_mono bnd hbnd (1 + n) (1 + n + 1) (by omega) (by omega) (by omega)
    rw [vsum_split _ hle1 hle2]
    omega

/-- the demand outside `[bnd 1, bnd (N-1))` vanishes -/
theorem lbv_outer (R : Int → Bool) (l : Int → Int) {A B a b : Int} (hA : A ≤ a) (hab : a ≤ b)
    (hB : b ≤ B)
    (hzlo : ∀ v, A ≤ v → v < a → l v = 0) (hzhi : ∀ v, b ≤ v → v < B → l v = 0) :
    vsum (fun v => if R v = true then l v else 0) A B =
      vsum (fun v => if R v = true then l v else 0) a b := by
  have hout1 : vsum (fun v => if R v = true then l v else 0) A a = 0 := by
    have : vsum (fun v => if R v = true then l v else 0) A a = vsum (fun _ => 0) A a := by
      apply vsum_congr
      intro k hk1 hk2
      show (if R k = true then l k else 0) = 0
      rw [hzlo k hk1 hk2]; split <;> rfl
    rw [this, vsum_zero]
  have hout2 : vsum (fun v => if R v = true then l v else 0) b B = 0 := by
    have : vsum (fun v => if R v = true then l v else 0) b B = vsum (fun _ => 0) b B := by
      apply vsum_congr
      intro k hk1 hk2
      show (if R k = true then l k else 0) = 0
      rw [hzhi k hk1 hk2]; split <;> rfl
    rw [this, vsum_zero]
  rw [vsum_split _ hA (by omega : a ≤ B), vsum_split _ hab hB, hout1, hout2]
  omega

/-! ### Hall's condition when the domain of `k` is `[v, v]` -/

/-- the bound of one cell -/
theorem lbv_hall_cell {N : Int} (bd bnd : Int → Int)
    (hbnd : ∀ i j, 0 ≤ i → i < j → j ≤ N → bnd i < bnd j)
    (all : List Int) (hnodup : all.Nodup) (rx ry : Int → Int)
    (cum l : Int → Int) (hl : ∀ v, cum (v + 1) - cum v = l v)
    (hbd : ∀ k, 0 ≤ k → k ≤ N → bd k = cum (bnd k))
    (hl0 : ∀ v, bnd 1 ≤ v → v < bnd (N - 1) → 0 ≤ l v)
    (κ : Int → Int) (hκ : CellSol N bd rx ry all κ)
    (k : Int) (hk : k ∈ all) (v : Int) (hv1 : bnd (κ k) ≤ v) (hv2 : v < bnd (κ k + 1))
    (hvl : 1 ≤ l v) (R : Int → Bool) (c : Int) (hc1 : 1 ≤ c) (hc2 : c ≤ N - 2) :
    vsum (fun w => if R w = true then l w else 0) (bnd c) (bnd (c + 1)) ≤
      (if meetsB R (bnd c) (bnd (c + 1) - 1) = true then occ κ (others all k) c else 0) +
        (if c = κ k then (if R v = true then 1 else 0) else 0) := by
  have hmono := lbv_mono bnd hbnd
  have ha : bnd 1 ≤ bnd c := hmono 1 c (by omega) (by omega) (by omega)
  have hb : bnd (c + 1) ≤ bnd (N - 1) := hmono (c + 1) (N - 1) (by omega) (by omega) (by omega)
  have hab : bnd c ≤ bnd (c + 1) := hmono c (c + 1) (by omega) (by omega) (by omega)
  have h0 : ∀ w, bnd c ≤ w → w < bnd (c + 1) → 0 ≤ l w :=
    fun w hw1 hw2 => hl0 w (by omega) (by omega)
  have hdem : bd (c + 1) - bd c ≤ occ κ all c := hκ.dem c hc1 hc2
  rw [hbd c (by omega) (by omega), hbd (c + 1) (by omega) (by omega),
    lbv_occ_split κ k c all hnodup hk] at hdem
  by_cases hc : c = κ k
  · rw [if_pos hc]
    rw [if_pos hc.symm] at hdem
    subst hc
    cases hR : R v
    · have h := lbv_cell_spare R cum l hl hab h0 v hv1 hv2 hvl hR
      simp only [Bool.false_eq_true, if_false]
      split at h <;> rename_i hm
      · rw [if_pos hm]; omega
      · rw [if_neg hm]; omega
    · have h := lbv_cell R cum l hl hab h0
      have hm : meetsB R (bnd (κ k)) (bnd (κ k + 1) - 1) = true :=
        (meetsB_iff R _ _).2 ⟨v, hv1, by omega, hR⟩
      rw [if_pos hm] at h
      rw [if_pos hm]
      simp only [if_true]
      omega
  · rw [if_neg hc]
    have hc' : ¬ κ k = c := fun e => hc e.symm
    rw [if_neg hc'] at hdem
    have h := lbv_cell R cum l hl hab h0
    split at h <;> rename_i hm
    · rw [if_pos hm]; omega
    · rw [if_neg hm]; omega

theorem lbv_hall {N : Int} (hN : 2 ≤ N) (bd bnd : Int → Int)
    (hbnd : ∀ i j, 0 ≤ i → i < j → j ≤ N → bnd i < bnd j)
    (all : List Int) (hnodup : all.Nodup) (rx ry lo hi : Int → Int)
    (hrk : ∀ u ∈ all, 1 ≤ rx u ∧ rx u < ry u ∧ ry u ≤ N - 1)
    (hlo : ∀ u ∈ all, lo u = bnd (rx u)) (hhi : ∀ u ∈ all, hi u + 1 = bnd (ry u))
    (cum l : Int → Int) (hl : ∀ v, cum (v + 1) - cum v = l v)
    (hbd : ∀ k, 0 ≤ k → k ≤ N → bd k = cum (bnd k))
    (A B : Int) (hA : A ≤ bnd 1) (hB : bnd (N - 1) ≤ B)
    (hl0 : ∀ v, A ≤ v → v < B → 0 ≤ l v)
    (hzlo : ∀ v, A ≤ v → v < bnd 1 → l v = 0) (hzhi : ∀ v, bnd (N - 1) ≤ v → v < B → l v = 0)
    (κ : Int → Int) (hκ : CellSol N bd rx ry all κ)
    (k : Int) (hk : k ∈ all) (v : Int) (hv1 : bnd (κ k) ≤ v) (hv2 : v < bnd (κ k + 1))
    (hvl : 1 ≤ l v) :
    ∀ R : Int → Bool, vsum (fun w => if R w = true then l w else 0) A B ≤
      ((all.countP (fun x => meetsB R (if x = k then v else lo x) (if x = k then v else hi x)) :
        Nat) : Int) := by
  intro R
  have hmono := lbv_mono bnd hbnd
  have hmid : bnd 1 ≤ bnd (N - 1) := hmono 1 (N - 1) (by omega) (by omega) (by omega)
  have hdk := hκ.dom k hk
  have hrkk := hrk k hk
  rw [lbv_outer R l hA hmid hB hzlo hzhi]
  -- the cells
  have hcell := lbv_hall_cell bd bnd hbnd all hnodup rx ry cum l hl hbd
    (fun w hw1 hw2 => hl0 w (by omega) (by omega)) κ hκ k hk v hv1 hv2 hvl R
  have hsum := lbv_cells_sum bnd hbnd (fun w => if R w = true then l w else 0)
    (fun c => (if meetsB R (bnd c) (bnd (c + 1) - 1) = true then occ κ (others all k) c else 0) +
        (if c = κ k then (if R v = true then 1 else 0) else 0)) hcell (N - 2).toNat (by omega)
  have e1 : (1 : Int) + ((N - 2).toNat : Int) = N - 1 := by omega
  rw [e1, vsum_add, vsum_ind _ (κ k) 1 (N - 1) (by omega) (by omega)] at hsum
  -- the sum over the cells is a count over the other variables
  have hval := countP_values (others all k) κ (fun c => meetsB R (bnd c) (bnd (c + 1) - 1))
    1 (N - 1) (fun p hp => by
      have hp' := (mem_others hp).1
      have := hκ.dom p hp'; have := hrk p hp'; omega)
  -- the cell of `x` lies inside the domain of `x`
  have c1 : (others all k).countP (fun p => meetsB R (bnd (κ p)) (bnd (κ p + 1) - 1)) ≤
      (others all k).countP
        (fun x => meetsB R (if x = k then v else lo x) (if x = k then v else hi x)) := by
    apply List.countP_mono_left
    intro u hu hq
    obtain ⟨hua, huk⟩ := mem_others hu
    have h1 := hκ.dom u hua
    have h2 := hrk u hua
    obtain ⟨w, hw1, hw2, hw3⟩ := (meetsB_iff R _ _).1 hq
    have g1 : bnd (rx u) ≤ bnd (κ u) := hmono _ _ (by omega) (by omega) (by omega)
    have g2 : bnd (κ u + 1) ≤ bnd (ry u) := hmono _ _ (by omega) (by omega) (by omega)
    have g3 := hlo u hua
    have g4 := hhi u hua
    rw [if_neg huk, if_neg huk]
    exact (meetsB_iff R _ _).2 ⟨w, by omega, by omega, hw3⟩
  have c2 := lbv_countP_split k
    (fun x => meetsB R (if x = k then v else lo x) (if x = k then v else hi x)) all hnodup hk
  rw [if_pos (rfl : k = k), if_pos (rfl : k = k)] at c2
  have c3 : (if R v = true then (1 : Int) else 0) ≤
      ((if meetsB R v v = true then 1 else 0 : Nat) : Int) := by
    cases hR : R v
    · simp only [Bool.false_eq_true, if_false]; split <;> omega
    · have : meetsB R v v = true := (meetsB_iff R _ _).2 ⟨v, by omega, by omega, hR⟩
      simp only [if_true, this]; omega
  omega

/-! ### the theorem -/

theorem value_support_of_cell {N : Int} (hN : 2 ≤ N) (bd bnd : Int → Int)
    (hbnd : ∀ i j, 0 ≤ i → i < j → j ≤ N → bnd i < bnd j)
    (all : List Int) (hnodup : all.Nodup) (rx ry lo hi : Int → Int)
    (hrk : ∀ u ∈ all, 1 ≤ rx u ∧ rx u < ry u ∧ ry u ≤ N - 1)
    (hlo : ∀ u ∈ all, lo u = bnd (rx u)) (hhi : ∀ u ∈ all, hi u + 1 = bnd (ry u))
    (cum l : Int → Int) (hl : ∀ v, cum (v + 1) - cum v = l v)
    (hbd : ∀ k, 0 ≤ k → k ≤ N → bd k = cum (bnd k))
    (A B : Int) (hA : A ≤ bnd 1) (hB : bnd (N - 1) ≤ B)
    (hl0 : ∀ v, A ≤ v → v < B → 0 ≤ l v)
    (hzlo : ∀ v, A ≤ v → v < bnd 1 → l v = 0) (hzhi : ∀ v, bnd (N - 1) ≤ v → v < B → l v = 0)
    (κ : Int → Int) (hκ : CellSol N bd rx ry all κ)
    (k : Int) (hk : k ∈ all) (v : Int) (hv1 : bnd (κ k) ≤ v) (hv2 : v < bnd (κ k + 1))
    (hvl : 1 ≤ l v) :
    ∃ σ : Int → Int, (∀ x ∈ all, lo x ≤ σ x ∧ σ x ≤ hi x) ∧
      (∀ w, A ≤ w → w < B → l w ≤ occ σ all w) ∧ σ k = v := by
  have hmono := lbv_mono bnd hbnd
  have hdk := hκ.dom k hk
  have hrkk := hrk k hk
  -- `v` lies in the domain of `k`, inside `[A, B)`
  have k1 : bnd 1 ≤ bnd (κ k) := hmono _ _ (by omega) (by omega) (by omega)
  have k2 : bnd (κ k + 1) ≤ bnd (N - 1) := hmono _ _ (by omega) (by omega) (by omega)
  have k3 : bnd (rx k) ≤ bnd (κ k) := hmono _ _ (by omega) (by omega) (by omega)
  have k4 : bnd (κ k + 1) ≤ bnd (ry k) := hmono _ _ (by omega) (by omega) (by omega)
  have k5 := hlo k hk
  have k6 := hhi k hk
  have hall := lbv_hall hN bd bnd hbnd all hnodup rx ry lo hi hrk hlo hhi cum l hl hbd A B hA hB
    hl0 hzlo hzhi κ hκ k hk v hv1 hv2 hvl
  have hdom : ∀ x ∈ all, A ≤ (if x = k then v else lo x) ∧
      (if x = k then v else lo x) ≤ (if x = k then v else hi x) ∧
      (if x = k then v else hi x) < B := by
    intro x hx
    by_cases e : x = k
    · rw [if_pos e, if_pos e]; omega
    · rw [if_neg e, if_neg e]
      have h2 := hrk x hx
      have g1 : bnd 1 ≤ bnd (rx x) := hmono _ _ (by omega) (by omega) (by omega)
      have g2 : bnd (ry x) ≤ bnd (N - 1) := hmono _ _ (by omega) (by omega) (by omega)
      have g3 := hbnd (rx x) (ry x) (by omega) (by omega) (by omega)
      have g4 := hlo x hx
      have g5 := hhi x hx
      omega
  obtain ⟨σ, h1, h2⟩ := gcc_mix all hnodup (fun x => if x = k then v else lo x)
    (fun x => if x = k then v else hi x) l (fun w => l w + (all.length : Int)) A B hdom
    (fun w hw1 hw2 => by have := hl0 w hw1 hw2; constructor <;> omega)
    (fun x => if x = k then v else lo x)
    (fun x hx => ⟨Int.le_refl _, (hdom x hx).2.1⟩)
    (fun w hw1 hw2 => by
      have := hl0 w hw1 hw2
      have : occ (fun x => if x = k then v else lo x) all w ≤ (all.length : Int) := by
        unfold occ
        exact Int.ofNat_le.2 List.countP_le_length
      omega)
    hall
  refine ⟨σ, ?_, fun w hw1 hw2 => (h2 w hw1 hw2).1, ?_⟩
  · intro x hx
    have h := h1 x hx
    by_cases e : x = k
    · subst e
      simp only [if_true] at h
      omega
    · simp only [if_neg e] at h
      exact h
  · have h := h1 k hk
    simp only [if_true] at h
    omega

end Gcc
end Nucs
