import NucsProofs.Propagators.PortGccLMinInv
/-!
  The two initialisation loops of `filter_lower_min` (ported gcc) never err and establish the
  invariant of the main loop (`MCore`, `MPot`, `MBelow`).

  Both pointer arrays built here (`sets` by the first loop, `tl` by the second) are described by
  `CD R N k v`: with respect to a predicate `R` ("`k` is a root"), the value `v` of the cell `k`
  is the next root below (or the terminal `0`) if `k` is a root, the next root above otherwise.
-/
namespace Nucs
namespace Gcc

open AllDiff (g upd g2 upd2 ok_bind pure_eq_ok except_bind_ok forIn_list_except range_forIn_eq
  size_upd size_upd2 g_upd g_upd_same g_upd_ne LChain)

/-! ### pure logic: pointer arrays described by their roots -/

/-- the cell `k` holding `v` is as it should be w.r.t. the root predicate `R` -/
def CD (R : Int → Prop) (N k v : Int) : Prop :=
  (R k → v < k ∧ 0 ≤ v ∧ (v = 0 ∨ R v) ∧ ∀ k', v < k' → k' < k → ¬ R k') ∧
  (¬ R k → k < v ∧ v ≤ N ∧ R v ∧ ∀ k', k ≤ k' → k' < v → ¬ R k')

theorem chain_of_CD (R : Int → Prop) (a : Int → Int) (N : Int) (hN : 1 ≤ N) (hRN : R N)
    (h : ∀ k, 1 ≤ k → k ≤ N → CD R N k (a k)) : LChain a N := by
  have hroot : ∀ i, 1 ≤ i → i ≤ N → a i < i → R i := by
    intro i h1 h2 h3
    apply Classical.byContradiction
    intro hn
    have := ((h i h1 h2).2 hn).1
    omega
  have hnon : ∀ i, 1 ≤ i → i ≤ N → ¬ R i → a i > i := fun i h1 h2 hn => ((h i h1 h2).2 hn).1
  refine ⟨hN, ?_, ?_, ?_, ?_⟩
  · intro i h1 h2
    by_cases hr : R i
    · have := (h i h1 h2).1 hr; omega
    · have := (h i h1 h2).2 hr; omega
  · intro i h1 h2 h3
    have hr := hroot i h1 h2 h3
    obtain ⟨_, d2, d3, d4⟩ := (h i h1 h2).1 hr
    refine ⟨fun k hk1 hk2 => hnon k (by omega) (by omega) (d4 k hk1 hk2), ?_⟩
    rcases d3 with d3 | d3
    · exact Or.inl d3
    · by_cases h0 : a i = 0
      · exact Or.inl h0
      · right
        exact ((h (a i) (by omega) (by omega)).1 d3).1
  · intro i h1 h2 h3 k hk1 hk2
    have hn : ¬ R i := by
      intro hr
      have := ((h i h1 h2).1 hr).1
      omega
    obtain ⟨_, u2, _, u4⟩ := (h i h1 h2).2 hn
    exact hnon k (by omega) (by omega) (u4 k (by omega) hk2)
  · exact ((h N (by omega) (by omega)).1 hRN).1

/-- the chain `k ↦ k - 1` -/
theorem chain_pred (a : Int → Int) (N : Int) (hN : 1 ≤ N) (ha : ∀ k, 1 ≤ k → k ≤ N → a k = k - 1) :
    LChain a N := by
  refine ⟨hN, ?_, ?_, ?_, ?_⟩
  · intro i h1 h2; rw [ha i h1 h2]; omega
  · intro i h1 h2 _
    rw [ha i h1 h2]
    refine ⟨fun k hk1 hk2 => by omega, ?_⟩
    by_cases h0 : i - 1 = 0
    · exact Or.inl h0
    · right; rw [ha (i - 1) (by omega) (by omega)]; omega
  · intro i h1 h2 h3; rw [ha i h1 h2] at h3; omega
  · rw [ha N (by omega) (by omega)]; omega

/-- the root predicate of `sets` -/
def RS (Kf : Int → Int) (N : Int) : Int → Prop := fun k => k = N ∨ Kf k < Kf (k + 1)
/-- the root predicate of `tl` -/
def RT (Kf : Int → Int) : Int → Prop := fun k => Kf (k - 1) < Kf k

theorem RS_pred {Kf : Int → Int} {N r : Int} (h : RT Kf r) : RS Kf N (r - 1) := by
  right
  have e : r - 1 + 1 = r := by omega
  rw [e]; exact h

/-- `MCore` from the descriptions of `c`, `sets`, `tl` -/
theorem mcore_of_desc {N : Int} {sz : Nat} {Kf : Int → Int} {tl c sets : Array Int}
    (hN : 2 ≤ N) (hst : tl.size = sz) (hsc : c.size = sz) (hss : sets.size = sz) (hNsz : N < sz)
    (hK1 : RT Kf 1) (hKN : RT Kf N)
    (hKm : ∀ a b, 0 ≤ a → a ≤ b → b ≤ N → Kf a ≤ Kf b)
    (hc : ∀ k, 1 ≤ k → k ≤ N → g c k = Kf k - Kf (k - 1))
    (hS : ∀ k, 1 ≤ k → k ≤ N → CD (RS Kf N) N k (g sets k))
    (hT : ∀ k, 2 ≤ k → k ≤ N → CD (RT Kf) N k (g tl k)) :
    MCore N sz Kf tl c sets := by
  have hTg : ∀ k, 1 ≤ k → k ≤ N → CD (RT Kf) N k (tlg tl k) := by
    intro k h1 h2
    by_cases hk : k = 1
    · subst hk
      rw [tlg_le1 tl 1 (by omega)]
      refine ⟨fun _ => ⟨by omega, by omega, Or.inl rfl, fun k' _ _ => by omega⟩, fun hn => ?_⟩
      exact absurd hK1 hn
    · rw [tlg_ge2 tl k (by omega)]; exact hT k (by omega) h2
  have hroot : ∀ r, 2 ≤ r → r ≤ N → g tl r < r → RT Kf r := by
    intro r h1 h2 h3
    apply Classical.byContradiction
    intro hn
    have := ((hT r h1 h2).2 hn).1
    omega
  have hsroot : ∀ k, 1 ≤ k → k ≤ N → RS Kf N k → g sets k < k :=
    fun k h1 h2 hr => ((hS k h1 h2).1 hr).1
  refine ⟨hst, hsc, hss, hNsz, chain_of_CD _ _ N (by omega) hKN hTg,
    chain_of_CD _ _ N (by omega) (Or.inl rfl) hS, ?_, hc N (by omega) (by omega), ?_, ?_, ?_, ?_⟩
  · intro r h1 h2 h3
    have hr : Kf (r - 1) < Kf r := hroot r h1 h2 h3
    rw [hc r (by omega) h2]; omega
  · intro r h1 h2 h3
    have hr := hroot r h1 h2 h3
    obtain ⟨_, d2, d3, d4⟩ := (hT r h1 h2).1 hr
    by_cases hj : g tl r = 1
    · exact Or.inl hj
    · right
      rcases d3 with d3 | d3
      · exact absurd hK1 (d4 1 (by omega) (by omega))
      · have : g tl r ≠ 0 := by
          intro h0
          exact absurd hK1 (d4 1 (by omega) (by omega))
        exact hsroot _ (by omega) (by omega) (RS_pred d3)
  · intro r h1 h2 h3 _
    exact hsroot _ (by omega) (by omega) (RS_pred (hroot r h1 h2 h3))
  · intro k h1 h2 h3
    have hr : RS Kf N k := by
      apply Classical.byContradiction
      intro hn
      have := ((hS k h1 (by omega)).2 hn).1
      omega
    rcases hr with hr | hr
    · omega
    · exact hr
  · intro r h1 h2 h3 _ k hk1 hk2 hk3
    have hr := hroot r h1 h2 h3
    have hflat : ∀ j, k ≤ j → j < r - 1 → ¬ RS Kf N j := by
      intro j hj1 hj2 hj
      rcases hj with hj | hj
      · omega
      · have a1 := hKm k j (by omega) hj1 (by omega)
        have a2 := hKm (j + 1) (r - 1) (by omega) (by omega) (by omega)
        omega
    obtain ⟨u1, u2, u3, u4⟩ := (hS k hk1 (by omega)).2 (hflat k (by omega) hk2)
    have hle : g sets k ≤ r - 1 := by
      apply Classical.byContradiction
      intro hn
      exact u4 (r - 1) (by omega) (by omega) (RS_pred hr)
    by_cases he : g sets k = r - 1
    · exact he
    · exact absurd u3 (hflat _ (by omega) (by omega))

/-- `MPot` and `MBelow` from the description of `pot_stbl_sets` and `stbl_intervals` -/
theorem mpot_of_desc {N : Int} {sz : Nat} {tl pot stbl : Array Int} (hN : 2 ≤ N)
    (hsp : pot.size = sz) (hsb : stbl.size = sz)
    (hp : ∀ k, 1 ≤ k → k ≤ N → g pot k = k - 1) (hs : ∀ k, 1 ≤ k → k ≤ N → g stbl k = k - 1) :
    MPot N sz tl pot stbl ∧ ∀ Y, MBelow N pot Y ∧ MBelow N stbl Y := by
  refine ⟨⟨hsp, hsb, chain_pred _ N (by omega) hp, chain_pred _ N (by omega) hs, ?_, ?_⟩, ?_⟩
  · intro k h1 h2 h3; rw [hp k (by omega) (by omega)] at h3; omega
  · intro k h1 h2; rw [hp k (by omega) h2]; omega
  · intro Y
    refine ⟨fun k h1 h2 h3 => ?_, fun k h1 h2 h3 => ?_⟩
    · rw [hp k h1 h2] at h3; omega
    · rw [hs k h1 h2] at h3; omega

/-! ### the first initialisation loop -/

/-- one iteration of the first loop, as a function of the capacity `v` written to `c[i]` -/
theorem lminInit1_step {N : Int} {sz : Nat} {bounds : Array Int} {l : PSum} {fv m : Int}
    (hb : BC bounds N fv m) (hl : PS l fv m) (c sets stbl pot : Array Int) (w i : Int)
    (hsc : c.size = sz) (hss : sets.size = sz) (hsb : stbl.size = sz) (hsp : pot.size = sz)
    (hNsz : N < sz) (hi1 : 1 ≤ i) (hiN : i ≤ N) (hw0 : 0 ≤ w) (hwN : w ≤ N) :
    lminInit1 bounds l i (c, sets, stbl, pot, w) = .ok (.yield
      (if K l fv bounds i - K l fv bounds (i - 1) = 0 then
        (upd c i (K l fv bounds i - K l fv bounds (i - 1)), upd sets (i - 1) w,
          upd stbl i (i - 1), upd pot i (i - 1), w)
      else
        (upd c i (K l fv bounds i - K l fv bounds (i - 1)), upd sets w (i - 1),
          upd stbl i (i - 1), upd pot i (i - 1), i - 1))) := by
  have hbsz := hb.hsz
  unfold lminInit1
  simp only []
  rw [wr_ok pot i _ (by omega) (by omega), ok_bind, wr_ok stbl i _ (by omega) (by omega), ok_bind,
    rd_ok bounds (i - 1) (by omega) (by omega), ok_bind, rd_ok bounds i (by omega) (by omega),
    ok_bind, get_sum_bounds_ok hl hb (i - 1) i (by omega) (by omega) hi1 hiN, ok_bind,
    gsum_K hl hb (i - 1) i (by omega) (by omega) hiN,
    wr_ok c i _ (by omega) (by omega), ok_bind,
    rd_ok (upd c i _) i (by omega) (by simp; omega), ok_bind,
    g_upd_same c i _ (by omega) (by omega)]
  by_cases hv : K l fv bounds i - K l fv bounds (i - 1) = 0
  · have hcond : (K l fv bounds i - K l fv bounds (i - 1) == 0) = true := by simpa using hv
    rw [if_pos hcond, if_pos hv, wr_ok sets (i - 1) _ (by omega) (by omega), ok_bind]
    rfl
  · have hcond : ¬ (K l fv bounds i - K l fv bounds (i - 1) == 0) = true := by simpa using hv
    rw [if_neg hcond, if_neg hv, wr_ok sets w _ (by omega) (by omega), ok_bind]
    rfl

/-- the part of the invariant of the first loop about `sets` and `w`, when the next index is `i` -/
def SInv (Kf : Int → Int) (N : Int) (sets : Array Int) (i w : Int) : Prop :=
  i ≤ w ∧ w ≤ N ∧ RS Kf N w ∧ (∀ k, i ≤ k → k < w → ¬ RS Kf N k ∧ g sets k = w) ∧
    ∀ k, w < k → k ≤ N → CD (RS Kf N) N k (g sets k)

theorem SInv_zero {Kf : Int → Int} {N : Int} {sets : Array Int} {i w : Int} (hi1 : 1 ≤ i)
    (hsz : N < sets.size) (h : SInv Kf N sets i w) (hz : ¬ RT Kf i) :
    SInv Kf N (upd sets (i - 1) w) (i - 1) w := by
  obtain ⟨h1, h2, h3, h4, h5⟩ := h
  refine ⟨by omega, h2, h3, ?_, ?_⟩
  · intro k hk1 hk2
    by_cases hk : k = i - 1
    · subst hk
      rw [g_upd_same sets _ _ (by omega) (by omega)]
      refine ⟨?_, rfl⟩
      rintro (hr | hr)
      · omega
      · have e : i - 1 + 1 = i := by omega
        rw [e] at hr; exact hz hr
    · rw [g_upd_ne sets _ _ k (by omega) (by omega) (by omega) hk]
      exact h4 k (by omega) hk2
  · intro k hk1 hk2
    rw [g_upd_ne sets _ _ k (by omega) (by omega) (by omega) (by omega)]
    exact h5 k hk1 hk2

theorem SInv_nz {Kf : Int → Int} {N : Int} {sets : Array Int} {i w : Int} (hi1 : 1 ≤ i)
    (hsz : N < sets.size) (h : SInv Kf N sets i w) (hz : RT Kf i) :
    SInv Kf N (upd sets w (i - 1)) (i - 1) (i - 1) := by
  obtain ⟨h1, h2, h3, h4, h5⟩ := h
  refine ⟨by omega, by omega, RS_pred hz, fun k hk1 hk2 => by omega, ?_⟩
  intro k hk1 hk2
  by_cases hk : k = w
  · subst hk
    rw [g_upd_same sets _ _ (by omega) (by omega)]
    refine ⟨fun _ => ⟨by omega, by omega, Or.inr (RS_pred hz), fun k' a b => (h4 k' (by omega) b).1⟩,
      fun hn => absurd h3 hn⟩
  · rw [g_upd_ne sets _ _ k (by omega) (by omega) (by omega) hk]
    by_cases hkw : k < w
    · obtain ⟨a1, a2⟩ := h4 k (by omega) hkw
      rw [a2]
      exact ⟨fun hr => absurd hr a1, fun _ => ⟨hkw, h2, h3, fun k' a b => (h4 k' (by omega) b).1⟩⟩
    · exact h5 k (by omega) hk2

theorem lminInit1_spec {N : Int} {sz : Nat} {bounds : Array Int} {l : PSum} {fv m : Int}
    (hb : BC bounds N fv m) (hl : PS l fv m) (c sets stbl pot : Array Int)
    (hsc : c.size = sz) (hss : sets.size = sz) (hsb : stbl.size = sz) (hsp : pot.size = sz)
    (hNsz : N < sz) :
    ∃ s1 : I1St,
      forIn (rangeDown N 0) ((c, sets, stbl, pot, N) : I1St) (lminInit1 bounds l) = .ok s1 ∧
      s1.1.size = sz ∧ s1.2.1.size = sz ∧ s1.2.2.1.size = sz ∧ s1.2.2.2.1.size = sz ∧
      (∀ k, 1 ≤ k → k ≤ N → g s1.1 k = K l fv bounds k - K l fv bounds (k - 1) ∧
        g s1.2.2.2.1 k = k - 1 ∧ g s1.2.2.1 k = k - 1) ∧
      ∀ k, 1 ≤ k → k ≤ N → CD (RS (K l fv bounds) N) N k (g s1.2.1 k) := by
  have hN := hb.hN
  have hK1 : RT (K l fv bounds) 1 := by
    have := K_bot hl hb
    show K l fv bounds (1 - 1) < K l fv bounds 1
    have e : (1 : Int) - 1 = 0 := by omega
    rw [e]; omega
  refine forIn_list_except
    (Inv := fun rest (s : I1St) =>
      ∃ i, rest = rangeDown i 0 ∧ 0 ≤ i ∧ i ≤ N ∧
        s.1.size = sz ∧ s.2.1.size = sz ∧ s.2.2.1.size = sz ∧ s.2.2.2.1.size = sz ∧
        (∀ k, i < k → k ≤ N → g s.1 k = K l fv bounds k - K l fv bounds (k - 1) ∧
          g s.2.2.2.1 k = k - 1 ∧ g s.2.2.1 k = k - 1) ∧
        SInv (K l fv bounds) N s.2.1 i s.2.2.2.2)
    _ _ ?_ ?_ _ _ ?_
  · rintro x rest ⟨c, sets, stbl, pot, w⟩ ⟨i, hr, hi0, hiN, h1, h2, h3, h4, h5, h6⟩
    obtain ⟨hlt, hx, hrest⟩ := rangeDown_eq_cons i 0 x rest hr
    subst hx
    left
    simp only at h1 h2 h3 h4 h5 h6
    have hw := h6.1
    have hwN := h6.2.1
    refine ⟨_, lminInit1_step hb hl c sets stbl pot w x h1 h2 h3 h4 hNsz (by omega) hiN
      (by omega) hwN, x - 1, hrest, by omega, by omega, ?_⟩
    have hcps : ∀ k, x - 1 < k → k ≤ N →
        g (upd c x (K l fv bounds x - K l fv bounds (x - 1))) k =
          K l fv bounds k - K l fv bounds (k - 1) ∧
        g (upd pot x (x - 1)) k = k - 1 ∧ g (upd stbl x (x - 1)) k = k - 1 := by
      intro k hk1 hk2
      by_cases hkx : k = x
      · subst hkx
        rw [g_upd_same c k _ (by omega) (by omega), g_upd_same pot k _ (by omega) (by omega),
          g_upd_same stbl k _ (by omega) (by omega)]
        exact ⟨rfl, rfl, rfl⟩
      · rw [g_upd_ne c x _ k (by omega) (by omega) (by omega) hkx,
          g_upd_ne pot x _ k (by omega) (by omega) (by omega) hkx,
          g_upd_ne stbl x _ k (by omega) (by omega) (by omega) hkx]
        exact h5 k (by omega) hk2
    by_cases hv : K l fv bounds x - K l fv bounds (x - 1) = 0
    · rw [if_pos hv]
      refine ⟨by simp [h1], by simp [h2], by simp [h3], by simp [h4], hcps, ?_⟩
      exact SInv_zero (by omega) (by omega) h6 (by show ¬ _ < _; omega)
    · rw [if_neg hv]
      refine ⟨by simp [h1], by simp [h2], by simp [h3], by simp [h4], hcps, ?_⟩
      have := K_mono hl hb (x - 1) x (by omega) (by omega) hiN
      exact SInv_nz (by omega) (by omega) h6 (by show _ < _; omega)
  · rintro ⟨c, sets, stbl, pot, w⟩ ⟨i, hr, hi0, hiN, h1, h2, h3, h4, h5, h6⟩
    have hi : i = 0 := by
      apply Classical.byContradiction
      intro hne
      rw [rangeDown_cons i 0 (by omega)] at hr
      cases hr
    subst hi
    simp only at h1 h2 h3 h4 h5 h6
    obtain ⟨a1, a2, a3, a4, a5⟩ := h6
    have hw : w = 0 := by
      apply Classical.byContradiction
      intro hne
      exact (a4 0 (by omega) (by omega)).1 (RS_pred hK1)
    subst hw
    exact ⟨h1, h2, h3, h4, fun k hk1 hk2 => h5 k (by omega) hk2, fun k hk1 hk2 => a5 k (by omega) hk2⟩
  · refine ⟨N, rfl, by omega, by omega, hsc, hss, hsb, hsp, fun k h1 h2 => by omega, ?_⟩
    exact ⟨by simp, by simp, Or.inl rfl, fun k h1 h2 => by simp at h1 h2; omega,
      fun k h1 h2 => by simp at h1; omega⟩

/-! ### the second initialisation loop -/

theorem lminInit2_step (c tl : Array Int) (w i : Int) (hi0 : 0 ≤ i) (hic : i < c.size)
    (hit : i < tl.size) (hw0 : 0 ≤ w) (hwt : w < tl.size) :
    lminInit2 c i (tl, w) = .ok (.yield
      (if g c i = 0 then (upd tl i w, w) else (upd tl w i, i))) := by
  unfold lminInit2
  simp only []
  rw [rd_ok c i hi0 hic, ok_bind]
  by_cases hv : g c i = 0
  · have hcond : (g c i == 0) = true := by simpa using hv
    rw [if_pos hcond, if_pos hv, wr_ok tl i _ hi0 hit, ok_bind]
    rfl
  · have hcond : ¬ (g c i == 0) = true := by simpa using hv
    rw [if_neg hcond, if_neg hv, wr_ok tl w _ hw0 hwt, ok_bind]
    rfl

/-- the invariant of the second loop about `tl` and `w`, when the next index is `i ≥ 0` -/
def TInv (Kf : Int → Int) (N : Int) (tl : Array Int) (i w : Int) : Prop :=
  0 ≤ i ∧ i ≤ w ∧ w ≤ N ∧ (i = w → i = N) ∧ RT Kf w ∧
    (∀ k, i < k → k < w → ¬ RT Kf k ∧ g tl k = w) ∧
    ∀ k, w < k → k ≤ N → CD (RT Kf) N k (g tl k)

theorem TInv_zero {Kf : Int → Int} {N : Int} {tl : Array Int} {i w : Int} (hi1 : 1 ≤ i)
    (hsz : N < tl.size) (h : TInv Kf N tl i w) (hz : ¬ RT Kf i) :
    TInv Kf N (upd tl i w) (i - 1) w := by
  obtain ⟨h0, h1, h2, h3, h4, h5, h6⟩ := h
  have hiw : i < w := by
    apply Classical.byContradiction
    intro hn
    have : i = w := by omega
    subst this
    exact hz h4
  refine ⟨by omega, by omega, h2, fun _ => by omega, h4, ?_, ?_⟩
  · intro k hk1 hk2
    by_cases hk : k = i
    · subst hk
      rw [g_upd_same tl _ _ (by omega) (by omega)]
      exact ⟨hz, rfl⟩
    · rw [g_upd_ne tl _ _ k (by omega) (by omega) (by omega) hk]
      exact h5 k (by omega) hk2
  · intro k hk1 hk2
    rw [g_upd_ne tl _ _ k (by omega) (by omega) (by omega) (by omega)]
    exact h6 k hk1 hk2

theorem TInv_nz {Kf : Int → Int} {N : Int} {tl : Array Int} {i w : Int} (hi1 : 1 ≤ i)
    (hsz : N < tl.size) (h : TInv Kf N tl i w) (hz : RT Kf i) :
    TInv Kf N (upd tl w i) (i - 1) i := by
  obtain ⟨h0, h1, h2, h3, h4, h5, h6⟩ := h
  refine ⟨by omega, by omega, by omega, fun _ => by omega, hz, fun k hk1 hk2 => by omega, ?_⟩
  intro k hk1 hk2
  by_cases hk : k = w
  · subst hk
    rw [g_upd_same tl _ _ (by omega) (by omega)]
    exact ⟨fun _ => ⟨by omega, by omega, Or.inr hz, fun k' a b => (h5 k' a b).1⟩,
      fun hn => absurd h4 hn⟩
  · rw [g_upd_ne tl _ _ k (by omega) (by omega) (by omega) hk]
    by_cases hkw : k < w
    · obtain ⟨a1, a2⟩ := h5 k hk1 hkw
      rw [a2]
      exact ⟨fun hr => absurd hr a1, fun _ => ⟨hkw, h2, h4, fun k' a b => (h5 k' (by omega) b).1⟩⟩
    · exact h6 k (by omega) hk2

theorem lminInit2_spec {N : Int} {sz : Nat} {Kf : Int → Int} (hN : 2 ≤ N) (c tl : Array Int)
    (hsc : c.size = sz) (hst : tl.size = sz) (hNsz : N < sz)
    (hK1 : RT Kf 1) (hKN : RT Kf N) (hKm : ∀ k, 1 ≤ k → k ≤ N → Kf (k - 1) ≤ Kf k)
    (hc : ∀ k, 1 ≤ k → k ≤ N → g c k = Kf k - Kf (k - 1)) :
    ∃ s2 : Array Int × Int,
      forIn (rangeDown N (-1)) (tl, N) (lminInit2 c) = .ok s2 ∧ s2.1.size = sz ∧
      ∀ k, 2 ≤ k → k ≤ N → CD (RT Kf) N k (g s2.1 k) := by
  refine forIn_list_except
    (Inv := fun rest (s : Array Int × Int) =>
      ∃ i, rest = rangeDown i (-1) ∧ i ≤ N ∧ s.1.size = sz ∧
        (TInv Kf N s.1 i s.2 ∨ (i = -1 ∧ ∀ k, 2 ≤ k → k ≤ N → CD (RT Kf) N k (g s.1 k))))
    _ _ ?_ ?_ _ _ ?_
  · rintro x rest ⟨tl, w⟩ ⟨i, hr, hiN, h1, h2⟩
    obtain ⟨hlt, hx, hrest⟩ := rangeDown_eq_cons i (-1) x rest hr
    subst hx
    left
    simp only at h1 h2
    rcases h2 with h2 | ⟨h2, _⟩
    · have hx0 := h2.1
      have hw := h2.2.1
      have hwN := h2.2.2.1
      refine ⟨_, lminInit2_step c tl w x hx0 (by omega) (by omega) (by omega) (by omega),
        x - 1, hrest, by omega, ?_⟩
      by_cases hx1 : 1 ≤ x
      · have hcx := hc x hx1 hiN
        have hmx := hKm x hx1 hiN
        by_cases hv : g c x = 0
        · rw [if_pos hv]
          exact ⟨by simp [h1], Or.inl (TInv_zero hx1 (by omega) h2 (by show ¬ _ < _; omega))⟩
        · rw [if_neg hv]
          exact ⟨by simp [h1], Or.inl (TInv_nz hx1 (by omega) h2 (by show _ < _; omega))⟩
      · have hx : x = 0 := by omega
        subst hx
        obtain ⟨_, a1, a2, a3, a4, a5, a6⟩ := h2
        have hw1 : w = 1 := by
          apply Classical.byContradiction
          intro hne
          have : w ≠ 0 := by
            intro h0; have := a3 h0.symm; omega
          exact (a5 1 (by omega) (by omega)).1 hK1
        subst hw1
        have hfin : ∀ tl' : Array Int, (∀ k, 2 ≤ k → g tl' k = g tl k) →
            ∀ k, 2 ≤ k → k ≤ N → CD (RT Kf) N k (g tl' k) := by
          intro tl' he k hk1 hk2
          rw [he k hk1]; exact a6 k (by omega) hk2
        by_cases hv : g c 0 = 0
        · rw [if_pos hv]
          refine ⟨by simp [h1], Or.inr ⟨by omega, hfin _ fun k hk => ?_⟩⟩
          exact g_upd_ne tl _ _ k (by omega) (by omega) (by omega) (by omega)
        · rw [if_neg hv]
          refine ⟨by simp [h1], Or.inr ⟨by omega, hfin _ fun k hk => ?_⟩⟩
          exact g_upd_ne tl _ _ k (by omega) (by omega) (by omega) (by omega)
    · omega
  · rintro ⟨tl, w⟩ ⟨i, hr, hiN, h1, h2⟩
    have hi : ¬ -1 < i := by
      intro hlt
      rw [rangeDown_cons i (-1) hlt] at hr
      cases hr
    rcases h2 with h2 | ⟨_, h2⟩
    · have := h2.1; omega
    · exact ⟨h1, h2⟩
  · refine ⟨N, rfl, by omega, hst, Or.inl ?_⟩
    exact ⟨by omega, by simp, by simp, fun _ => rfl, hKN, fun k h1 h2 => by simp at h2; omega,
      fun k h1 h2 => by simp at h1; omega⟩

/-! ### both loops: the invariant of the main loop holds initially -/

theorem lminInit_spec {N : Int} {sz : Nat} {bounds : Array Int} {l : PSum} {fv m : Int}
    (hb : BC bounds N fv m) (hl : PS l fv m) (tl c sets stbl pot : Array Int)
    (hst : tl.size = sz) (hsc : c.size = sz) (hss : sets.size = sz) (hsb : stbl.size = sz)
    (hsp : pot.size = sz) (hNsz : N < sz) :
    ∃ (s1 : I1St) (s2 : Array Int × Int),
      forIn (rangeDown N 0) ((c, sets, stbl, pot, N) : I1St) (lminInit1 bounds l) = .ok s1 ∧
      forIn (rangeDown N (-1)) (tl, N) (lminInit2 s1.1) = .ok s2 ∧
      MCore N sz (K l fv bounds) s2.1 s1.1 s1.2.1 ∧ MPot N sz s2.1 s1.2.2.2.1 s1.2.2.1 ∧
      (∀ Y, MBelow N s1.2.2.2.1 Y ∧ MBelow N s1.2.2.1 Y) := by
  have hN := hb.hN
  have hK1 : RT (K l fv bounds) 1 := by
    have := K_bot hl hb
    show K l fv bounds (1 - 1) < K l fv bounds 1
    have e : (1 : Int) - 1 = 0 := by omega
    rw [e]; omega
  have hKN : RT (K l fv bounds) N := by
    have := K_top hl hb
    show K l fv bounds (N - 1) < K l fv bounds N
    omega
  obtain ⟨s1, he1, z1, z2, z3, z4, hv, hS⟩ :=
    lminInit1_spec hb hl c sets stbl pot hsc hss hsb hsp hNsz
  obtain ⟨s2, he2, y1, hT⟩ := lminInit2_spec hN s1.1 tl z1 hst hNsz hK1 hKN
    (fun k h1 h2 => K_mono hl hb (k - 1) k (by omega) (by omega) h2)
    (fun k h1 h2 => (hv k h1 h2).1)
  have hp := mpot_of_desc (tl := s2.1) hN z4 z3 (fun k h1 h2 => (hv k h1 h2).2.1)
    (fun k h1 h2 => (hv k h1 h2).2.2)
  exact ⟨s1, s2, he1, he2,
    mcore_of_desc hN y1 z1 z2 hNsz hK1 hKN (fun a b h0 hab hbN => K_mono hl hb a b h0 hab hbN)
      (fun k h1 h2 => (hv k h1 h2).1) hS hT, hp.1, hp.2⟩

end Gcc
end Nucs
