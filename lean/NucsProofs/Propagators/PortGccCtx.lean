import NucsProofs.Propagators.PortGccBase
/-!
  The interface between the pieces of the proof that the ported gcc never errs:
  * `PS P fv m`  : what `init_partial_sum fv m values` guarantees about the partial-sum structure `P`;
  * `gsum`       : the total version of `get_sum`;
  * `BC bounds N fv m` : what `update_bounds` guarantees about `bounds[0..N]`, `N = nb + 1`;
  * `K P fv bounds i` : the partial sum "just below `bounds[i]`"; capacities between bounds are
    differences of `K`.
-/
namespace Nucs
namespace Gcc

open AllDiff (g upd g2 upd2 ok_bind pure_eq_ok except_bind_ok forIn_list_except range_forIn_eq
  size_upd size_upd2 g_upd g_upd_same g_upd_ne)

/-- what `init_partial_sum fv m values` guarantees (values `≥ 0`); column `m+5` is the literal
    last column, columns `0..m+4` are the views `sum` and `ds` -/
structure PS (P : PSum) (fv m : Int) : Prop where
  hm : 0 ≤ m
  s1 : (P.1.size : Int) = m + 6
  s2 : (P.2.size : Int) = m + 6
  last1 : g P.1 (m + 5) = fv - 3
  last2 : g P.2 (m + 5) = fv + m + 1
  S0 : g P.1 0 = 0
  S1 : g P.1 1 = 1
  S2 : g P.1 2 = 2
  mono : ∀ i, 0 ≤ i → i < m + 4 → g P.1 i ≤ g P.1 (i + 1)
  top1 : g P.1 (m + 3) = g P.1 (m + 2) + 1
  top2 : g P.1 (m + 4) = g P.1 (m + 3) + 1
  ds : ∀ i, 0 ≤ i → i ≤ m + 4 → 0 ≤ g P.2 i ∧ g P.2 i ≤ m + 4

/-- all the values are `≥ 1` (the capacities `u`) -/
def PSStrict (P : PSum) (m : Int) : Prop := ∀ i, 0 ≤ i → i < m + 4 → g P.1 i < g P.1 (i + 1)

/-- total `get_sum` (with `fv' = first_value - 3` read from the last column) -/
def gsum (P : PSum) (a b : Int) : Int :=
  if a ≤ b then g P.1 (b - g P.1 ((P.1.size : Int) - 1)) - g P.1 (a - g P.1 ((P.1.size : Int) - 1) - 1)
  else g P.1 (b - g P.1 ((P.1.size : Int) - 1) - 1) - g P.1 (a - g P.1 ((P.1.size : Int) - 1))

theorem PS.mono_le {P : PSum} {fv m : Int} (h : PS P fv m) :
    ∀ (k : Nat) (i : Int), 0 ≤ i → i + k ≤ m + 4 → g P.1 i ≤ g P.1 (i + k) := by
  intro k
  induction k with
  | zero => intro i _ _; simp
  | succ k ih =>
    intro i h0 h1
    have h2 := ih i h0 (by omega)
    have h3 := h.mono (i + k) (by omega) (by omega)
    have : i + ((k + 1 : Nat) : Int) = i + k + 1 := by omega
    rw [this]; omega

theorem PS.le {P : PSum} {fv m : Int} (h : PS P fv m) (i j : Int) (h0 : 0 ≤ i) (hij : i ≤ j)
    (hj : j ≤ m + 4) : g P.1 i ≤ g P.1 j := by
  have := h.mono_le (j - i).toNat i h0 (by omega)
  have h2 : i + ((j - i).toNat : Int) = j := by omega
  rw [h2] at this; exact this

theorem PSStrict.lt_aux {P : PSum} {m : Int} (h : PSStrict P m) :
    ∀ (k : Nat) (i : Int), 0 ≤ i → i + k + 1 ≤ m + 4 → g P.1 i + k + 1 ≤ g P.1 (i + k + 1) := by
  intro k
  induction k with
  | zero => intro i h0 h1; have := h i h0 (by omega); simp; omega
  | succ k ih =>
    intro i h0 h1
    have h2 := ih i h0 (by omega)
    have h3 := h (i + k + 1) (by omega) (by omega)
    have : i + ((k + 1 : Nat) : Int) + 1 = i + k + 1 + 1 := by omega
    rw [this]
    have : ((k + 1 : Nat) : Int) = k + 1 := by omega
    omega

/-- with capacities `≥ 1` the partial sums grow at least as fast as the indices -/
theorem PSStrict.lt {P : PSum} {m : Int} (h : PSStrict P m) (i j : Int) (h0 : 0 ≤ i) (hij : i ≤ j)
    (hj : j ≤ m + 4) : g P.1 i + (j - i) ≤ g P.1 j := by
  by_cases he : i = j
  · subst he; omega
  · have := h.lt_aux (j - i - 1).toNat i h0 (by omega)
    have h2 : i + ((j - i - 1).toNat : Int) + 1 = j := by omega
    rw [h2] at this
    omega

/-- what `update_bounds` guarantees about `bounds[0 .. N]`, `N = nb + 1`, for domains inside
    `[fv, fv + m - 1]` -/
structure BC (bounds : Array Int) (N fv m : Int) : Prop where
  hN : 2 ≤ N
  hsz : N < bounds.size
  mono : ∀ i, 0 ≤ i → i < N → g bounds i < g bounds (i + 1)
  b0 : g bounds 0 = fv - 2
  b1 : fv ≤ g bounds 1
  bnb : g bounds (N - 1) ≤ fv + m
  bN : g bounds N = fv + m + 2

theorem BC.lt {bounds : Array Int} {N fv m : Int} (hb : BC bounds N fv m) :
    ∀ (k : Nat) (i : Int), 0 ≤ i → i + k + 1 ≤ N → g bounds i < g bounds (i + k + 1) := by
  intro k
  induction k with
  | zero => intro i h0 h1; simpa using hb.mono i h0 (by omega)
  | succ k ih =>
    intro i h0 h1
    have h2 := ih i h0 (by omega)
    have h3 := hb.mono (i + k + 1) (by omega) (by omega)
    have : i + ((k + 1 : Nat) : Int) + 1 = i + k + 1 + 1 := by omega
    rw [this]; omega

theorem BC.lt' {bounds : Array Int} {N fv m : Int} (hb : BC bounds N fv m) (i j : Int) (h0 : 0 ≤ i)
    (hij : i < j) (hj : j ≤ N) : g bounds i < g bounds j := by
  have := hb.lt (j - i - 1).toNat i h0 (by omega)
  have h2 : i + ((j - i - 1).toNat : Int) + 1 = j := by omega
  rw [h2] at this; exact this

theorem BC.le' {bounds : Array Int} {N fv m : Int} (hb : BC bounds N fv m) (i j : Int) (h0 : 0 ≤ i)
    (hij : i ≤ j) (hj : j ≤ N) : g bounds i ≤ g bounds j := by
  by_cases h : i = j
  · subst h; exact Int.le_refl _
  · exact Int.le_of_lt (hb.lt' i j h0 (by omega) hj)

/-- every bound lies in `[fv - 2, fv + m + 2]`; the inner ones in `[fv, fv + m]` -/
theorem BC.range {bounds : Array Int} {N fv m : Int} (hb : BC bounds N fv m) (i : Int)
    (h0 : 0 ≤ i) (h1 : i ≤ N) : fv - 2 ≤ g bounds i ∧ g bounds i ≤ fv + m + 2 := by
  have h2 := hb.le' 0 i (by omega) h0 h1
  have h3 := hb.le' i N h0 h1 (by omega)
  have := hb.b0; have := hb.bN
  omega

theorem BC.range_in {bounds : Array Int} {N fv m : Int} (hb : BC bounds N fv m) (i : Int)
    (h0 : 1 ≤ i) (h1 : i < N) : fv ≤ g bounds i ∧ g bounds i ≤ fv + m := by
  have h2 := hb.le' 1 i (by omega) h0 (by omega)
  have h3 := hb.le' i (N - 1) (by omega) (by omega) (by omega)
  have := hb.b1; have := hb.bnb
  omega

/-- the partial sum just below `bounds[i]` -/
def K (P : PSum) (fv : Int) (bounds : Array Int) (i : Int) : Int := g P.1 (g bounds i - fv + 2)

theorem gsum_eq {P : PSum} {fv m : Int} (hp : PS P fv m) (a b : Int) :
    gsum P a b = if a ≤ b then g P.1 (b - fv + 3) - g P.1 (a - fv + 2)
      else g P.1 (b - fv + 2) - g P.1 (a - fv + 3) := by
  unfold gsum
  have h1 : (P.1.size : Int) - 1 = m + 5 := by have := hp.s1; omega
  rw [h1, hp.last1]
  have e1 : b - (fv - 3) = b - fv + 3 := by omega
  have e2 : a - (fv - 3) - 1 = a - fv + 2 := by omega
  have e3 : b - (fv - 3) - 1 = b - fv + 2 := by omega
  have e4 : a - (fv - 3) = a - fv + 3 := by omega
  rw [e2, e3, e1, e4]

/-- the capacity of `[bounds[a], bounds[b] - 1]`, `a < b`, is a difference of `K` -/
theorem gsum_K {P : PSum} {fv m : Int} {bounds : Array Int} {N : Int} (hp : PS P fv m)
    (hb : BC bounds N fv m) (a b : Int) (h0 : 0 ≤ a) (hab : a < b) (hbN : b ≤ N) :
    gsum P (g bounds a) (g bounds b - 1) = K P fv bounds b - K P fv bounds a := by
  have := hb.lt' a b h0 hab hbN
  rw [gsum_eq hp, if_pos (by omega)]
  unfold K
  have e1 : g bounds b - 1 - fv + 3 = g bounds b - fv + 2 := by omega
  rw [e1]

/-- for `b ≤ a` the "capacity" returned by `get_sum` is not positive, and is at most the
    (non-positive) difference of `K` -/
theorem gsum_K_neg {P : PSum} {fv m : Int} {bounds : Array Int} {N : Int} (hp : PS P fv m)
    (hb : BC bounds N fv m) (a b : Int) (h0 : 1 ≤ b) (hab : b ≤ a) (haN : a < N) :
    gsum P (g bounds a) (g bounds b - 1) ≤ K P fv bounds b - K P fv bounds a ∧
    gsum P (g bounds a) (g bounds b - 1) ≤ 0 := by
  have h1 := hb.le' b a (by omega) hab (by omega)
  have ra := hb.range_in a (by omega) haN
  have rb := hb.range_in b h0 (by omega)
  rw [gsum_eq hp, if_neg (by omega)]
  unfold K
  have e1 : g bounds b - 1 - fv + 2 = g bounds b - fv + 1 := by omega
  rw [e1]
  have l1 := hp.le (g bounds b - fv + 1) (g bounds b - fv + 2) (by omega) (by omega) (by omega)
  have l2 := hp.le (g bounds b - fv + 2) (g bounds a - fv + 2) (by omega) (by omega) (by omega)
  have l3 := hp.le (g bounds a - fv + 2) (g bounds a - fv + 3) (by omega) (by omega) (by omega)
  omega

theorem gsum_K_neg_strict {P : PSum} {fv m : Int} {bounds : Array Int} {N : Int} (hp : PS P fv m)
    (hs : PSStrict P m) (hb : BC bounds N fv m) (a b : Int) (h0 : 1 ≤ b) (hab : b ≤ a)
    (haN : a < N) : gsum P (g bounds a) (g bounds b - 1) < 0 := by
  have h1 := hb.le' b a (by omega) hab (by omega)
  have ra := hb.range_in a (by omega) haN
  have rb := hb.range_in b h0 (by omega)
  rw [gsum_eq hp, if_neg (by omega)]
  have e1 : g bounds b - 1 - fv + 2 = g bounds b - fv + 1 := by omega
  rw [e1]
  have l1 := hs.lt (g bounds b - fv + 1) (g bounds a - fv + 3) (by omega) (by omega) (by omega)
  omega

theorem K_mono {P : PSum} {fv m : Int} {bounds : Array Int} {N : Int} (hp : PS P fv m)
    (hb : BC bounds N fv m) (a b : Int) (h0 : 0 ≤ a) (hab : a ≤ b) (hbN : b ≤ N) :
    K P fv bounds a ≤ K P fv bounds b := by
  have := hb.le' a b h0 hab hbN
  have ra := hb.range a h0 (by omega)
  have rb := hb.range b (by omega) hbN
  exact hp.le _ _ (by omega) (by omega) (by omega)

theorem K_strict {P : PSum} {fv m : Int} {bounds : Array Int} {N : Int} (_hp : PS P fv m)
    (hs : PSStrict P m) (hb : BC bounds N fv m) (a b : Int) (h0 : 0 ≤ a) (hab : a < b)
    (hbN : b ≤ N) : K P fv bounds a < K P fv bounds b := by
  have := hb.lt' a b h0 hab hbN
  have ra := hb.range a h0 (by omega)
  have rb := hb.range b (by omega) hbN
  have := hs.lt (g bounds a - fv + 2) (g bounds b - fv + 2) (by omega) (by omega) (by omega)
  unfold K; omega

/-- the bottom sentinels `fv - 2`, `fv - 1` have capacity one each -/
theorem K_bot {P : PSum} {fv m : Int} {bounds : Array Int} {N : Int} (hp : PS P fv m)
    (hb : BC bounds N fv m) : K P fv bounds 0 = 0 ∧ 2 ≤ K P fv bounds 1 := by
  unfold K
  have r1 := hb.range_in 1 (by omega) (by have := hb.hN; omega)
  have := hb.b1
  have e : g bounds 0 - fv + 2 = 0 := by have := hb.b0; omega
  rw [e]
  refine ⟨hp.S0, ?_⟩
  have := hp.le 2 (g bounds 1 - fv + 2) (by omega) (by omega) (by omega)
  have := hp.S2
  omega

/-- the top sentinels `fv + m`, `fv + m + 1` have capacity one each -/
theorem K_top {P : PSum} {fv m : Int} {bounds : Array Int} {N : Int} (hp : PS P fv m)
    (hb : BC bounds N fv m) : K P fv bounds (N - 1) + 2 ≤ K P fv bounds N := by
  unfold K
  have hN := hb.hN
  have r1 := hb.range_in (N - 1) (by omega) (by omega)
  have e : g bounds N - fv + 2 = m + 4 := by have := hb.bN; omega
  rw [e]
  have := hp.le (g bounds (N - 1) - fv + 2) (m + 2) (by omega) (by omega) (by omega)
  have := hp.top1; have := hp.top2
  omega

/-! ### the checked accessors of the partial-sum structure -/

theorem rdS_ok (a : Array Int) (i : Int) (h0 : 0 ≤ i) (h1 : i + 1 < a.size) :
    rdS a i = .ok (g a i) := by
  unfold rdS
  rw [if_neg (by omega), if_pos (by omega)]
  exact rd_ok a i h0 (by omega)

theorem wrS_ok (a : Array Int) (i v : Int) (h0 : 0 ≤ i) (h1 : i + 1 < a.size) :
    wrS a i v = .ok (upd a i v) := by
  unfold wrS
  rw [if_neg (by omega), if_pos (by omega)]
  exact wr_ok a i v h0 (by omega)

theorem rdLast_ok (a : Array Int) (h : 1 ≤ a.size) : rdLast a = .ok (g a ((a.size : Int) - 1)) := by
  unfold rdLast
  exact rd_ok a _ (by omega) (by omega)

theorem get_sum_ok {P : PSum} {fv m : Int} (hp : PS P fv m) (a b : Int)
    (ha0 : fv - 2 ≤ a) (ha1 : a ≤ fv + m + 1) (hb0 : fv - 2 ≤ b) (hb1 : b ≤ fv + m + 1) :
    get_sum P a b = .ok (gsum P a b) := by
  have hs := hp.s1
  have hm := hp.hm
  have hl := hp.last1
  have h1 : (P.1.size : Int) - 1 = m + 5 := by omega
  unfold get_sum gsum
  rw [rdLast_ok P.1 (by omega), ok_bind, h1, hl]
  by_cases hab : a ≤ b
  · simp only [if_pos hab]
    rw [rdS_ok P.1 _ (by omega) (by omega), ok_bind, rdS_ok P.1 _ (by omega) (by omega), ok_bind]
    rfl
  · simp only [if_neg hab]
    rw [rdS_ok P.1 _ (by omega) (by omega), ok_bind, rdS_ok P.1 _ (by omega) (by omega), ok_bind]
    rfl

/-- the `get_sum` calls of the four passes: from `bounds[a]`, `a ≤ nb`, to `bounds[b] - 1`, `b ≥ 1` -/
theorem get_sum_bounds_ok {P : PSum} {fv m : Int} {bounds : Array Int} {N : Int} (hp : PS P fv m)
    (hb : BC bounds N fv m) (a b : Int) (ha0 : 0 ≤ a) (ha1 : a < N) (hb0 : 1 ≤ b) (hb1 : b ≤ N) :
    get_sum P (g bounds a) (g bounds b - 1) = .ok (gsum P (g bounds a) (g bounds b - 1)) := by
  have r0 := hb.range a ha0 (by omega)
  have r1 := hb.le' a (N - 1) ha0 (by omega) (by omega)
  have r2 := hb.le' 1 b (by omega) hb0 hb1
  have r3 := hb.range b (by omega) hb1
  have := hb.b1; have := hb.bnb
  exact get_sum_ok hp _ _ (by omega) (by omega) (by omega) (by omega)

end Gcc
end Nucs
