import NucsProofs.Propagators.GccSoundCount
import NucsProofs.Propagators.HallMath
import NucsProofs.Propagators.AlldiffCorrectVal
/-!
  Existence of an assignment respecting the UPPER capacities of a gcc — pure combinatorics.

  Hall's condition for the upper capacities on rank intervals (what the passes `filter_lower_max` /
  `filter_upper_max` establish when they do not fail) yields an assignment of the variables, inside
  their domains, in which no value is taken more often than its capacity (`upper_witness`).

  Proof by capacity expansion: the value `v` of capacity `cum (v + 1) - cum v` becomes the block
  `[cum v, cum (v + 1))` of an expanded value line; the domain `[lo, hi]` becomes
  `[cum lo, cum (hi + 1) - 1] = [bd (rx u), bd (ry u) - 1]`; Hall's theorem for interval domains
  (`hall_matching`) on the expanded box gives pairwise distinct expanded values, and the block that
  contains the expanded value of a variable is its value.
-/
namespace Nucs
namespace Gcc
open AllDiff (cinR cinV RankCtx)

/-! ### from a tuple in a mapped box to a function on the variables -/

/-- a tuple inside the box `L.map D` (`L` without repetition) is `L.map τ` for a function `τ` -/
theorem fun_of_inBox (D : Int → Dom) : ∀ (L : List Int), L.Nodup → ∀ (t : List Int),
    inBox t (L.map D) → ∃ τ : Int → Int, (∀ x ∈ L, inDom (τ x) (D x)) ∧ L.map τ = t
  | [], _, [], _ => ⟨fun _ => 0, by simp, rfl⟩
  | [], _, _ :: _, h => by simp [inBox] at h
  | _ :: _, _, [], h => by simp [inBox] at h
  | x :: L, hnd, v :: t, h => by
    rw [List.map_cons] at h
    obtain ⟨hxL, hndL⟩ := List.nodup_cons.1 hnd
    obtain ⟨τ', h1, h2⟩ := fun_of_inBox D L hndL t h.2
    refine ⟨fun y => if y = x then v else τ' y, ?_, ?_⟩
    · intro y hy
      by_cases hyx : y = x
      · subst hyx; simp only [if_true]; exact h.1
      · simp only [if_neg hyx]
        rcases List.mem_cons.1 hy with e | e
        · exact absurd e hyx
        · exact h1 y e
    · rw [List.map_cons]
      simp only [if_true]
      congr 1
      rw [← h2]
      apply List.map_congr_left
      intro y hy
      have : y ≠ x := by intro e; subst e; exact hxL hy
      simp only [if_neg this]

/-! ### discrete intermediate value -/

/-- the block of the expanded line that contains `e` -/
theorem block_exists (cum : Int → Int) (e : Int) : ∀ (n : Nat) (a b : Int), b = a + n →
    cum a ≤ e → e < cum (b + 1) → ∃ v, a ≤ v ∧ v ≤ b ∧ cum v ≤ e ∧ e < cum (v + 1) := by
  intro n
  induction n with
  | zero =>
    intro a b hb h1 h2
    have : b = a := by omega
    subst this
    exact ⟨b, Int.le_refl _, Int.le_refl _, h1, h2⟩
  | succ n ih =>
    intro a b hb h1 h2
    by_cases hc : e < cum b
    · have e1 : b - 1 + 1 = b := by omega
      obtain ⟨v, g1, g2, g3, g4⟩ := ih a (b - 1) (by omega) h1 (by rw [e1]; exact hc)
      exact ⟨v, g1, by omega, g3, g4⟩
    · exact ⟨b, by omega, Int.le_refl _, by omega, h2⟩

/-! ### Hall's condition of the expanded box -/

/-- the expanded domain of the variable `u` -/
def xdom (bd rx ry : Int → Int) (u : Int) : Dom := (bd (rx u), bd (ry u) - 1)

theorem insideCount_xdom (bd rx ry : Int → Int) (L : List Int) (a b : Int) :
    (insideCount (L.map (xdom bd rx ry)) a b : Int)
      = cinV (fun u => bd (rx u)) (fun u => bd (ry u) - 1) L a b := by
  unfold cinV
  rw [insideCount_eq_countP, List.countP_map]
  rfl

theorem hallOK_xdom {N : Int} {bd rx ry : Int → Int} {all : List Int}
    (hctx : RankCtx N bd rx ry all)
    (hallR : ∀ ja yb, 1 ≤ ja → ja < yb → yb ≤ N → cinR rx ry all ja yb ≤ bd yb - bd ja) :
    HallOK (all.map (xdom bd rx ry)) := by
  intro a b hab
  rw [insideCount_xdom]
  exact AllDiff.hallV_of_hallR (lo := fun u => bd (rx u)) (hi := fun u => bd (ry u) - 1) hctx
    (fun _ _ => rfl) (fun u _ => by omega) hallR (b - a).toNat a b hab (by omega)

theorem nonempty_xdom {N : Int} {bd rx ry : Int → Int} {all : List Int}
    (hctx : RankCtx N bd rx ry all) : Box.Nonempty (all.map (xdom bd rx ry)) := by
  intro d hd
  obtain ⟨u, hu, rfl⟩ := List.mem_map.1 hd
  have hr := hctx.rk u hu
  have := hctx.mono (rx u) (ry u) (by omega) hr.2.1 (by omega)
  simp only [xdom]
  omega

/-- pairwise distinct expanded values, one per variable, inside the expanded domains -/
theorem expanded_matching {N : Int} {bd rx ry : Int → Int} {all : List Int}
    (hctx : RankCtx N bd rx ry all) (hnodup : all.Nodup)
    (hallR : ∀ ja yb, 1 ≤ ja → ja < yb → yb ≤ N → cinR rx ry all ja yb ≤ bd yb - bd ja) :
    ∃ τ : Int → Int, (∀ x ∈ all, bd (rx x) ≤ τ x ∧ τ x < bd (ry x)) ∧ (all.map τ).Nodup := by
  obtain ⟨t, ht, hnd⟩ := hall_matching _ (nonempty_xdom hctx) (hallOK_xdom hctx hallR)
  obtain ⟨τ, h1, h2⟩ := fun_of_inBox (xdom bd rx ry) all hnodup t ht
  refine ⟨τ, ?_, by rw [h2]; exact hnd⟩
  intro x hx
  have := h1 x hx
  simp only [inDom, xdom] at this
  omega

/-! ### counting the variables of one block -/

/-- distinct expanded values inside one block are at most as many as the block is long -/
theorem occ_le_of_block (τ σ : Int → Int) (cum : Int → Int) (all : List Int)
    (hnd : (all.map τ).Nodup) (v : Int) (hle : cum v ≤ cum (v + 1))
    (hblk : ∀ x ∈ all, σ x = v → cum v ≤ τ x ∧ τ x < cum (v + 1)) :
    occ σ all v ≤ cum (v + 1) - cum v := by
  unfold occ
  rw [List.countP_eq_length_filter]
  have hsub : ((all.filter (fun p => decide (σ p = v))).map τ).Sublist (all.map τ) :=
    List.filter_sublist.map τ
  have := nodup_length_le (cum (v + 1) - cum v).toNat (cum v)
    ((all.filter (fun p => decide (σ p = v))).map τ) (hsub.nodup hnd) (by
      intro w hw
      obtain ⟨x, hx, rfl⟩ := List.mem_map.1 hw
      rw [List.mem_filter] at hx
      have := hblk x hx.1 (by simpa using hx.2)
      omega)
  rw [List.length_map] at this
  omega

/-! ### the witness -/

/-- **Hall's condition for the upper capacities on rank intervals gives an assignment that respects
    the upper capacities.** -/
theorem upper_witness {N : Int} {bd rx ry : Int → Int} {all : List Int}
    (hctx : AllDiff.RankCtx N bd rx ry all) (hnodup : all.Nodup)
    (hallR : ∀ ja yb, 1 ≤ ja → ja < yb → yb ≤ N → AllDiff.cinR rx ry all ja yb ≤ bd yb - bd ja)
    (bnd lo hi cum : Int → Int)
    (hbnd : ∀ i j, 0 ≤ i → i < j → j ≤ N → bnd i < bnd j)
    (hlo : ∀ u ∈ all, lo u = bnd (rx u)) (hhi : ∀ u ∈ all, hi u + 1 = bnd (ry u))
    (hbd : ∀ k, 0 ≤ k → k ≤ N → bd k = cum (bnd k))
    (hcum : ∀ v, bnd 0 ≤ v → v < bnd N → cum v < cum (v + 1)) :
    ∃ σ : Int → Int, (∀ x ∈ all, lo x ≤ σ x ∧ σ x ≤ hi x) ∧
      ∀ v, bnd 0 ≤ v → v < bnd N → occ σ all v ≤ cum (v + 1) - cum v := by
  obtain ⟨τ, hτ, hnd⟩ := expanded_matching hctx hnodup hallR
  -- the block of every variable
  have hex : ∀ x ∈ all, ∃ v, lo x ≤ v ∧ v ≤ hi x ∧ cum v ≤ τ x ∧ τ x < cum (v + 1) := by
    intro x hx
    have hr := hctx.rk x hx
    have e1 := hlo x hx
    have e2 := hhi x hx
    have b1 := hbd (rx x) (by omega) (by omega)
    have b2 := hbd (ry x) (by omega) (by omega)
    have hlt := hbnd (rx x) (ry x) (by omega) hr.2.1 (by omega)
    have ht := hτ x hx
    rw [b1, ← e1] at ht
    rw [b2, ← e2] at ht
    exact block_exists cum (τ x) (hi x - lo x).toNat (lo x) (hi x) (by omega) ht.1 ht.2
  have hex' : ∀ x, ∃ w, x ∈ all →
      lo x ≤ w ∧ w ≤ hi x ∧ cum w ≤ τ x ∧ τ x < cum (w + 1) := by
    intro x
    by_cases hx : x ∈ all
    · obtain ⟨w, hw⟩ := hex x hx
      exact ⟨w, fun _ => hw⟩
    · exact ⟨0, fun h => absurd h hx⟩
  let σ : Int → Int := fun x => Classical.choose (hex' x)
  have hσ : ∀ x ∈ all, lo x ≤ σ x ∧ σ x ≤ hi x ∧ cum (σ x) ≤ τ x ∧ τ x < cum (σ x + 1) :=
    fun x hx => Classical.choose_spec (hex' x) hx
  refine ⟨σ, fun x hx => ⟨(hσ x hx).1, (hσ x hx).2.1⟩, ?_⟩
  intro v hv1 hv2
  apply occ_le_of_block τ σ cum all hnd v (Int.le_of_lt (hcum v hv1 hv2))
  intro x hx hxv
  have := hσ x hx
  rw [hxv] at this
  exact ⟨this.2.2.1, this.2.2.2⟩

end Gcc
end Nucs
