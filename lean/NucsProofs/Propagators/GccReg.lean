import NucsProofs.Propagators.GccC
import NucsProofs.Propagators.Affine
/-!
  gcc as registered in `runAlg`: the faithful port of the Quimper et al. algorithm whose every answer
  is validated by a decidable checker based on the easy direction of Hoffman's condition (`gccC`).
  The checker's soundness is proved (GccC.lean), so `Sound`, `GroundOk`, … hold for the registered
  model unconditionally.  That this model still equals the CODE (the checker never rejects, the port
  is faithful) is what the correspondence establishes on every run (with every `u_j ≥ 1`: zero
  capacities are known finding K1).  `Exact` (bound consistency) is not proved: it is validated
  against the brute-force hull.

  DRAFT: compiles once `runAlg .gcc ps B` is `gccC ps B` in NucsModel/Registry.lean.
-/
namespace Nucs

theorem runAlg_gcc (ps : List Int) (B : Box) : runAlg .gcc ps B = gccC ps B := rfl

theorem sound_gcc : Sound .gcc := by
  intro ps B st B' hc hne hrun
  rw [runAlg_gcc] at hrun
  exact soundC_gcc ps B st B' hc hne hrun

theorem groundOk_gcc : GroundOk .gcc := by
  intro ps B st B' t hc hne hrun hst hB'
  rw [runAlg_gcc] at hrun
  exact groundOkC_gcc ps B st B' t hc hne hrun hst hB'

theorem entailOk_gcc : EntailOk .gcc := by
  intro ps B B' hc hne hrun
  rw [runAlg_gcc] at hrun
  exact entailOkC_gcc ps B B' hc hne hrun

theorem safe_gcc : Safe .gcc := by
  intro ps B hc hne
  rw [runAlg_gcc]
  exact safeC_gcc ps B hc hne

theorem contractMono_gcc : ContractMono .gcc := contractMonoC_gcc

theorem trigOk_gcc : TrigOk .gcc :=
  trigOk_of_minMax .gcc (fun _ _ _ => rfl) sound_gcc

end Nucs
