import NucsProofs.Propagators.GccSoundUMinMath
import NucsProofs.Propagators.PortGccUMin
/-!
  Semantic soundness of the ported gcc, `filter_upper_min`: glue between the arrays of the port and
  the abstract functions, and the statement of what the pass leaves behind (`UMinOut`).
  `M = nb`, `N = M + 1`.  The pass is the mirror image (index reversal `k ↦ N - k`) of the part of
  `filter_lower_min` that deals with `tl`, `c`, `sets`, `new_mins`; the semantic invariant `ESem`
  is used with `bd := mbd N Kf`, `rx v := N - maxrank v`, `ry v := N - minrank v`,
  `tf := mir N (g tl)`, `df := mirv N (dfu Kf M c)`, `sf := mir N (g sets)`.
-/
namespace Nucs
namespace Gcc
open AllDiff (g g2 LChain cinR mir mirv mbd)

/-- `c` with the cell `M` (top sentinels, never touched by the main loop) replaced by its initial
    value `Kf (M + 1) - Kf M` -/
def dfu (Kf : Int → Int) (M : Int) (c : Array Int) : Int → Int :=
  fun k => if M ≤ k then Kf (M + 1) - Kf M else g c k

theorem dfu_lt (Kf : Int → Int) (M : Int) (c : Array Int) (k : Int) (h : k < M) :
    dfu Kf M c k = g c k := by
  unfold dfu; rw [if_neg (by omega)]

theorem dfu_ge (Kf : Int → Int) (M : Int) (c : Array Int) (k : Int) (h : M ≤ k) :
    dfu Kf M c k = Kf (M + 1) - Kf M := by
  unfold dfu; rw [if_pos h]

/-- the final state of `filter_upper_min` (`all` = the variables by decreasing minimum,
    `U` = the used ones, `sf` = mirrored final `sets`, `wf u` = mirrored candidate new maximum
    `N - new_maxs[i]` of a used variable); `nm' dom'` = the outputs; `stbl` = the (compressed)
    `stbl_intervals` left by `filter_lower_min`. -/
structure UMinOut (M n : Int) (Kf : Int → Int) (bounds : Array Int) (l : PSum) (ranks : Arr2)
    (msv : Array Int) (all : List Int) (dom0 : Arr2) (stbl nm' : Array Int) (dom' : Arr2)
    (U : List Int) (sf wf : Int → Int) : Prop where
  sem : ∃ Y tf df, ESem (M + 1) (mbd (M + 1) Kf) (fun v => M + 1 - (g2 ranks v).2)
    (fun v => M + 1 - (g2 ranks v).1) all all U Y tf df sf wf
  usub : U.Sublist all
  /-- the ghost fact about the variables that were not used -/
  uz : ∀ p ∈ all, p ∉ U → ∃ a, 1 ≤ a ∧ a ≤ M + 1 - (g2 ranks p).2 ∧
    cinR (fun v => M + 1 - (g2 ranks v).2) (fun v => M + 1 - (g2 ranks v).1) U a
        (M + 1 - (g2 ranks p).1) ≥
      mbd (M + 1) Kf (M + 1 - (g2 ranks p).1) - mbd (M + 1) Kf a
  nm : ∀ i, 0 ≤ i → i < n → g msv i ∈ U → g nm' i = M + 1 - wf (g msv i)
  size : dom'.size = dom0.size
  dom : ∀ i, 0 ≤ i → i < n →
    (g2 dom' (g msv i)).1 = (g2 dom0 (g msv i)).1 ∧
    ((g stbl (g2 ranks (g msv i)).1 ≤ (g2 ranks (g msv i)).1 ∨
        (g2 ranks (g msv i)).2 > g stbl (g2 ranks (g msv i)).1) →
      skip_non_null_elements_left l (g bounds (g nm' i) - 1) = .ok (g2 dom' (g msv i)).2) ∧
    (¬ (g stbl (g2 ranks (g msv i)).1 ≤ (g2 ranks (g msv i)).1 ∨
        (g2 ranks (g msv i)).2 > g stbl (g2 ranks (g msv i)).1) →
      (g2 dom' (g msv i)).2 = (g2 dom0 (g msv i)).2)

end Gcc
end Nucs
